import SockModel.Props.C18Hs
import SockModel.Model.TlsLemmas
import SockModel.Model.HsLemmas
import SockModel.Model.TlsBudget
import SockModel.Model.TlsLogLemmas
import SockModel.Model.TlsShutdown
import SockModel.Spec.C18
/-!
# C18  TLS sockets encrypt, need a TLS peer, and always complete the handshake

Property theorems only (helpers live in `Model/TlsLemmas.lean`, `Model/NetLemmas.lean`).

Every theorem quantifies over **every engine** `E : Engine σ` (any state type, any adaptive
behaviour: `ssl_read`/`ssl_write` are interaction trees that may call the BIO callbacks in any
pattern and answer anything), **every world** `W : World ω` (any behaviour of `poll`/`send`/
`recv` and the clock) and **every history** of calls, unless a hypothesis says otherwise.
What OpenSSL itself guarantees enters only as explicit hypotheses about `E` (A-SSL).
-/
namespace SockModel.Tls
open SockModel.Net

variable {σ ω : Type}

/-! ## "no application payload ever appears in the clear on the underlying TCP connection" -/

/-- In every history of calls on a TLS socket (any mix of `Receive`, `Send`, driver-mode calls,
any timeouts), in every world that records its raw outgoing stream: the raw stream is exactly the
concatenation, in order, of the accepted prefixes of the buffers the *engine* handed to the write
BIO.  Nothing else ever reaches `send` - in particular no byte of a `Send`/`SendSome` argument,
which the glue passes to `ssl_write` only. -/
theorem plaintext_only_via_engine {W : World ω} {wire : ω → Bytes} (L : WireLog W wire)
    (C : Cfg) (E : Engine σ) (s0 : St σ ω) (h0 : WireOk wire s0) (ops : List Op) :
    let s := run C W E s0 ops
    wire s.w = bioWire s.g ∧ ∀ c ∈ s.g.bioWrites, c.accepted ≤ c.buf.length := by
  intro s
  have h : WireOk wire s := (wireOk_frame (σ := σ) L).run C E (fun s b h => ⟨h.1, h.2.1, h.2.2⟩) ops s0 h0
  exact ⟨h.1.trans h.2.1, h.2.2⟩

/-- the same for the scripted kernel (every script of `poll`/`send`/`recv` answers, of any length,
followed by either default behaviour): what the kernel's call log shows as sent is the engine's output -/
theorem plaintext_only_via_engine_scripted (C : Cfg) (E : Engine σ) (e0 : σ) (script : Script)
    (hfresh : script.calls = []) (ops : List Op) :
    let s := run C Script.world E { g := {}, e := e0, w := script } ops
    s.w.wire = bioWire s.g := by
  intro s
  refine (plaintext_only_via_engine Script.wireLog C E _ ?_ ops).1
  refine ⟨?_, rfl, ?_⟩
  · simp [Script.wire, hfresh, wireOf]
  · intro c hc; cases hc

/-! ## "application data is exchanged only after a completed handshake" -/

/-- A-SSL, first half: the engine hands out plaintext (`done`) only once `init_finished` -/
def DoneImpliesInit (E : Engine σ) : Prop :=
  ∀ s n, AllLeaves (fun a _ s' => a.isDone = true → E.initFinished s' = true) (E.sslRead s n)

theorem readRound_ok {W : World ω} (C : Cfg) (E : Engine σ) (Q : SslAns → Bytes → σ → Prop)
    (size : Nat) (hq : ∀ s, AllLeaves Q (E.sslRead s size)) (i : Nat) (s s' : St σ ω) (bs : Bytes)
    (h : readRound C W E size i s = (some (.ok bs), s')) : bs = [] ∨ ∃ k, Q (.done k) bs s'.e := by
  have hs := interp_spec (W := W) Q _ (hq s.e) s
  unfold readRound at h
  rcases hi : interp W s (E.sslRead s.e size) with ⟨o, s1⟩
  rw [hi] at h hs
  cases o with
  | exn e => simp at h
  | abort m => simp at h
  | ok p =>
    obtain ⟨ans, out⟩ := p
    simp only at h
    cases ans with
    | done k =>
      simp only [Prod.mk.injEq, Option.some.injEq, Out.ok.injEq] at h
      obtain ⟨h1, h2⟩ := h
      subst h1; subst h2
      right
      exact ⟨k, hs.2.2.1 _ _ rfl⟩
    | _ =>
      simp only at h
      split at h
      · simp at h
      · simp at h
      · simp only [Prod.mk.injEq, Option.some.injEq, Out.ok.injEq] at h
        left; exact h.1.symm
      · split at h <;> simp at h

theorem readLoop_ok {W : World ω} (C : Cfg) (E : Engine σ) (Q : SslAns → Bytes → σ → Prop)
    (size : Nat) (hq : ∀ s, AllLeaves Q (E.sslRead s size)) :
    ∀ (i : Nat) (s s' : St σ ω) (bs : Bytes), readLoop C W E size i s = (.ok bs, s') →
      bs = [] ∨ ∃ k, Q (.done k) bs s'.e := by
  intro i
  induction i with
  | zero => intro s s' bs h; simp only [readLoop, Prod.mk.injEq, Out.ok.injEq] at h; left; exact h.1.symm
  | succ i ih =>
    intro s s' bs h
    unfold readLoop at h
    split at h
    · rename_i o s1 heq
      simp only [Prod.mk.injEq] at h
      obtain ⟨rfl, rfl⟩ := h
      exact readRound_ok C E Q size hq i s _ bs heq
    · rename_i s1 heq
      exact ih s1 s' bs h

theorem tlsRead_ok {W : World ω} (C : Cfg) (E : Engine σ) (Q : SslAns → Bytes → σ → Prop)
    (size : Nat) (hq : ∀ s, AllLeaves Q (E.sslRead s size)) (s s' : St σ ω) (bs : Bytes)
    (h : tlsRead C W E s size = (.ok bs, s')) : bs = [] ∨ ∃ k, Q (.done k) bs s'.e := by
  unfold tlsRead at h
  split at h
  · exact readLoop_ok C E Q size hq _ _ s' bs h
  · simp only [Prod.mk.injEq, Out.ok.injEq] at h; left; exact h.1.symm
  · simp at h
  · simp at h

/-- "application data is exchanged only after a completed handshake": whenever `Receive` (with
any timeout) or the driver-mode `Receive` hands bytes to the caller, the engine has finished the
handshake - while `¬ init_finished` they deliver nothing. -/
theorem no_appdata_before_handshake {W : World ω} (C : Cfg) (E : Engine σ) (hE : DoneImpliesInit E)
    (s s' : St σ ω) (size : Nat) (bs : Bytes) (hbs : bs ≠ []) :
    (∀ t, receiveT C W E s size t = (.ok bs, s') → E.initFinished s'.e = true) ∧
    (receiveReadable C W E s size = (.ok bs, s') → E.initFinished s'.e = true) := by
  constructor
  · intro t h
    unfold receiveT at h
    split at h
    · split at h
      · simp at h
      · split at h <;> (simp only [Prod.mk.injEq, Out.ok.injEq] at h; exact absurd h.1.symm hbs)
    · rename_i hne
      rcases tlsRead_ok C E _ size (fun s => hE s size) _ s' bs h with h0 | ⟨k, hk⟩
      · exact absurd h0 hbs
      · exact hk rfl
  · intro h
    unfold receiveReadable at h
    split at h
    · split at h <;> (simp only [Prod.mk.injEq, Out.ok.injEq] at h; exact absurd h.1.symm hbs)
    · rcases tlsRead_ok C E _ size (fun s => hE s size) _ s' bs h with h0 | ⟨k, hk⟩
      · exact absurd h0 hbs
      · exact hk rfl

/-- the same for the asynchronous socket: the receive handler is invoked only with a non-empty
buffer and only once the handshake is finished -/
theorem no_handler_before_handshake {W : World ω} (C : Cfg) (E : Engine σ) (hE : DoneImpliesInit E)
    (rx : Nat) (x : ASt σ ω) :
    (aReadable C W E rx x).2.a.delivered = x.a.delivered ∨
    ∃ bs, bs ≠ [] ∧ (aReadable C W E rx x).2.a.delivered = bs :: x.a.delivered ∧
      E.initFinished (aReadable C W E rx x).2.s.e = true := by
  unfold aReadable
  split
  · left; rfl
  · rename_i bs s' hne heq
    right
    exact ⟨bs, hne, rfl, (no_appdata_before_handshake C E hE x.s s' rx bs hne).2 heq⟩
  · split
    · left; rfl
    · left; rfl
  · left; rfl

/-! ## "talking to a non-TLS peer fails with an exception instead of delivering bytes" -/

/-- the engine facing a peer that does not speak TLS: whatever arrives is not a TLS record, every
`ssl_read` ends in `SSL_ERROR_SSL` (it may first try to read, write an alert, ...) -/
def ReadRejects (E : Engine σ) : Prop := ∀ s n, AllLeaves (fun a _ _ => a = .sslErr) (E.sslRead s n)
def WriteRejects (E : Engine σ) : Prop := ∀ s d, AllLeaves (fun a _ _ => a = .sslErr) (E.sslWrite s d)

theorem readRound_rejects {W : World ω} (C : Cfg) (E : Engine σ) (hE : ReadRejects E) (size i : Nat) (s : St σ ω) :
    ∃ e s', readRound C W E size i s = (some (.exn e), s') := by
  have hs := interp_spec (W := W) _ _ (hE s.e size) s
  unfold readRound
  rcases hi : interp W s (E.sslRead s.e size) with ⟨o, s1⟩
  rw [hi] at hs
  cases o with
  | exn e => exact ⟨e, s1, rfl⟩
  | abort m => exact absurd rfl (hs.2.1 m)
  | ok p =>
    obtain ⟨ans, out⟩ := p
    have ha : ans = .sslErr := hs.2.2.1 ans out rfl
    subst ha
    obtain ⟨e, s', hr⟩ := handleResult_fatal (W := W) (noteCall E s1 true [] .sslErr) .sslErr (Or.inr (Or.inr rfl))
    exact ⟨e, s', by simp [hr]⟩

/-- `Receive` (any timeout, any receive-buffer size) against a peer that is not a TLS peer:
always an exception, never a value - zero bytes are delivered.  (Whatever the world does: data,
segmentation, errors, timeouts; the exception may also come from the descriptor itself.) -/
theorem non_tls_peer_rejected_receive {W : World ω} (C : Cfg) (E : Engine σ) (hE : ReadRejects E)
    (hpos : 0 < C.stepsMax) (s : St σ ω) (hfresh : s.g.lastError = .none) (size : Nat) (t : Int) :
    (∃ e s', receiveT C W E s size t = (.exn e, s')) ∧
    (∃ e s', receiveReadable C W E s size = (.exn e, s')) := by
  have key : ∀ s0 : St σ ω, s0.g.lastError = .none → ∃ e s', tlsRead C W E s0 size = (.exn e, s') := by
    intro s0 h0
    unfold tlsRead handleLastError
    rw [h0]
    simp only [handleError]
    obtain ⟨i, hi⟩ : ∃ i, C.stepsMax = i + 1 := ⟨C.stepsMax - 1, by omega⟩
    rw [hi]
    unfold readLoop
    obtain ⟨e, s', hr⟩ := readRound_rejects C E hE size i (setLastError s0 .none)
    rw [hr]
    exact ⟨e, s', rfl⟩
  constructor
  · obtain ⟨e, s', h⟩ := key (setTimeout s t) hfresh
    exact ⟨e, s', by unfold receiveT; rw [h]⟩
  · obtain ⟨e, s', h⟩ := key (prepReadable s) (by simp [prepReadable, hfresh])
    exact ⟨e, s', by unfold receiveReadable; rw [h]⟩

theorem writeRound_rejects {W : World ω} (C : Cfg) (E : Engine σ) (hE : WriteRejects E) (i' : Nat) (rest : Bytes)
    (s : St σ ω) (hp : s.g.pendingSend = []) : ∃ e s', writeRound C W E i' rest s = (.stop (.exn e), s') := by
  have hs := interp_spec (W := W) _ _ (hE s.e rest) s
  unfold writeRound
  rw [if_neg (by simp [hp])]
  rcases hi : interp W s (E.sslWrite s.e rest) with ⟨o, s1⟩
  rw [hi] at hs
  cases o with
  | exn e => exact ⟨e, s1, rfl⟩
  | abort m => exact absurd rfl (hs.2.1 m)
  | ok p =>
    obtain ⟨ans, out⟩ := p
    have ha : ans = .sslErr := hs.2.2.1 ans out rfl
    subst ha
    obtain ⟨e, s', hr⟩ := handleResult_fatal (W := W) (setPending (noteCall E s1 false rest .sslErr) rest) .sslErr
      (Or.inr (Or.inr rfl))
    exact ⟨e, s', by simp [writeRetry, hr]⟩

/-- `Send` of a non-empty buffer against a peer that is not a TLS peer: an exception, and by
`plaintext_only_via_engine` nothing of the buffer reached the wire -/
theorem non_tls_peer_rejected_send {W : World ω} (C : Cfg) (E : Engine σ) (hE : WriteRejects E)
    (hpos : 0 < C.stepsMax) (s : St σ ω) (hfresh : s.g.lastError = .none) (hp : s.g.pendingSend = [])
    (data : Bytes) (hd : data ≠ []) (t : Int) :
    ∃ e s', sendT C W E s data t = (.exn e, s') := by
  have key : ∀ s0 : St σ ω, s0.g.lastError = .none → s0.g.pendingSend = [] →
      ∃ e s', tlsWrite C W E s0 data = (.exn e, s') := by
    intro s0 h0 hp0
    unfold tlsWrite handleLastError
    rw [h0]
    simp only [handleError]
    obtain ⟨i, hi⟩ : ∃ i, C.stepsMax = i + 1 := ⟨C.stepsMax - 1, by omega⟩
    rw [hi]
    unfold writeLoop
    rw [if_neg hd]
    obtain ⟨e, s', hr⟩ := writeRound_rejects (W := W) C E hE i data (setLastError s0 .none) (by simp [setLastError, hp0])
    rw [hr]
    exact ⟨e, s', rfl⟩
  obtain ⟨e, s', h⟩ := key (setTimeout s t) hfresh hp
  exact ⟨e, s', by unfold sendT; rw [h]⟩

/-- once the engine has reported `SSL_ERROR_SSL`, every later call throws without touching engine or
descriptor: no way to get bytes out of (or into) a connection that failed its handshake -/
theorem fatal_is_sticky {W : World ω} (C : Cfg) (E : Engine σ) (s : St σ ω) (h : s.g.lastError = .ssl) :
    (∀ n t, receiveT C W E s n t = (.exn .sslError, setTimeout s t)) ∧
    (∀ n, receiveReadable C W E s n = (.exn .sslError, prepReadable s)) ∧
    (∀ d t, sendT C W E s d t = (.exn .sslError, setTimeout s t)) ∧
    (∀ d, sendSomeWritable C W E s d = (.exn .sslError, prepWritable s)) := by
  refine ⟨?_, ?_, ?_, ?_⟩
  · intro n t
    simp [receiveT, tlsRead, handleLastError, setTimeout, h, handleError]
  · intro n
    simp [receiveReadable, tlsRead, handleLastError, prepReadable, h, handleError]
  · intro d t
    simp [sendT, tlsWrite, handleLastError, setTimeout, h, handleError]
  · intro d
    simp [sendSomeWritable, tlsWrite, handleLastError, prepWritable, h, handleError]

/-! ## the POLLOUT protocol of the driver-operated TLS socket -/

/-- what `DriverQuery` does to the POLLOUT bit, clause by clause:
requested while the handshake wants to write, suppressed (and remembered) while it wants to
read, restored once the handshake is finished, untouched otherwise -/
theorem driverQuery_protocol (E : Engine σ) (s : St σ ω) (po : Bool) :
    (E.initFinished s.e = false → s.g.lastError = .wantWrite →
      (driverQuery E s po).1 = true ∧ (driverQuery E s po).2 = s) ∧
    (E.initFinished s.e = false → s.g.lastError = .wantRead →
      (driverQuery E s po).1 = false ∧
      (driverQuery E s po).2.g.driverSendSuppressed = (s.g.driverSendSuppressed || po)) ∧
    (E.initFinished s.e = true → s.g.driverSendSuppressed = true →
      (driverQuery E s po).1 = true ∧ (driverQuery E s po).2.g.driverSendSuppressed = false) ∧
    (E.initFinished s.e = true → s.g.driverSendSuppressed = false →
      (driverQuery E s po).1 = po ∧ (driverQuery E s po).2 = s) := by
  refine ⟨?_, ?_, ?_, ?_⟩
  · intro hi hl; simp [driverQuery, hi, hl]
  · intro hi hl; simp [driverQuery, hi, hl]
  · intro hi hs; simp [driverQuery, hi, hs]
  · intro hi hs; simp [driverQuery, hi, hs]

/-- the invariant that carries C02's "queued data is armed" through the handshake: while the socket
is registered, a non-empty send queue is either polled for POLLOUT or remembered as suppressed -/
def Armed (x : ASt σ ω) : Prop :=
  x.a.registered = true → x.a.sendQ ≠ [] → (x.a.pollOut = true ∨ x.s.g.driverSendSuppressed = true)

theorem suppressed_frame (W : World ω) (b : Bool) : Frame W (fun s : St σ ω => s.g.driverSendSuppressed = b) where
  core := fun h hc => hc.2.2.2.trans h
  wait := fun _ _ h => h
  bioRead := by intro s n h; rw [(bioRead_core (W := W) s n).2.2.1]; exact h
  bioWrite := by intro s bs h; rw [(bioWrite_ctl (W := W) s bs).1.2.2.2]; exact h

theorem armed_enqueue (x : ASt σ ω) (buf : Bytes) (h : Armed x) : Armed (enqueue x buf) := by
  intro hreg hq
  simp only [enqueue] at hreg hq ⊢
  by_cases he : x.a.sendQ.isEmpty = true
  · left; simp [he, hreg]
  · have hne : x.a.sendQ ≠ [] := by intro h0; apply he; simp [h0]
    rcases h hreg hne with h1 | h1
    · left; simp [he, h1]
    · right; exact h1

theorem armed_query (E : Engine σ) (x : ASt σ ω) (h : Armed x) : Armed (aQuery E x) := by
  unfold aQuery
  split
  · exact h
  · rename_i hreg
    intro _ hq
    have hreg' : x.a.registered = true := by simpa using hreg
    have h0 := h hreg' hq
    simp only [driverQuery]
    split
    · split
      · left; rfl
      · split
        · right; rcases h0 with h1 | h1 <;> simp [h1]
        · exact h0
    · split
      · left; rfl
      · exact h0

theorem armed_task {W : World ω} (C : Cfg) (E : Engine σ) (rx : Nat) (x : ASt σ ω) (rev : REvents) (h : Armed x) :
    Armed (aTask C W E rx x rev).2 := by
  unfold aTask
  split
  · exact h
  · rename_i hreg
    have hreg' : x.a.registered = true := by simpa using hreg
    split
    · -- readable
      have hsup := (suppressed_frame W x.s.g.driverSendSuppressed).receiveReadable C E x.s rx rfl
      unfold aReadable
      split
      · rename_i s' heq; rw [heq] at hsup
        intro _ hq; rcases h hreg' hq with h1 | h1
        · left; exact h1
        · right; exact hsup.trans h1
      · rename_i bs s' _ heq; rw [heq] at hsup
        intro _ hq; rcases h hreg' hq with h1 | h1
        · left; exact h1
        · right; exact hsup.trans h1
      · rename_i e s' heq; rw [heq] at hsup
        split
        · intro hr; simp [aDisconnect] at hr
        · intro _ hq; rcases h hreg' hq with h1 | h1
          · left; exact h1
          · right; exact hsup.trans h1
      · rename_i m s' heq; rw [heq] at hsup
        intro _ hq; rcases h hreg' hq with h1 | h1
        · left; exact h1
        · right; exact hsup.trans h1
    · split
      · -- writable (and POLLOUT was requested)
        rename_i _ hw
        have hpo : x.a.pollOut = true := hw.2
        unfold aWritable
        split
        · rename_i hq0
          split
          · intro _ hq; simp [hq0] at hq
          · intro _ hq; exact absurd hq0 hq
          · intro _ hq; exact absurd hq0 hq
        · rename_i buf rest hq0
          split
          · split
            · intro _ hq
              simp only at hq ⊢
              left
              have : rest.isEmpty = false := by cases rest <;> simp_all
              simp [this, hpo]
            · intro _ _; left; exact hpo
          · split
            · intro _ hq
              simp only at hq ⊢
              left
              have : rest.isEmpty = false := by cases rest <;> simp_all
              simp [this, hpo]
            · intro _ _; left; exact hpo
          · intro _ _; left; exact hpo
      · split
        · intro hr; simp [aDisconnect] at hr
        · exact h

/-- **pollout_protocol**: for every sequence of enqueue / driver-step events (each step = `DriverQuery`,
then whatever `poll` reported: readable, writable, HUP/ERR or nothing), every engine, every world: queued data
is always armed or remembered as suppressed - it cannot get stuck behind the handshake. -/
theorem pollout_protocol {W : World ω} (C : Cfg) (E : Engine σ) (rx : Nat) (evs : List AEv) :
    ∀ (x : ASt σ ω), Armed x → Armed (aRun C W E rx x evs) := by
  induction evs with
  | nil => intro x h; exact h
  | cons ev evs ih =>
    intro x h
    apply ih
    cases ev with
    | enq buf => exact armed_enqueue x buf h
    | step rev => exact armed_task C E rx _ rev (armed_query E x h)
    | stepFirst rev => exact armed_task C E rx _ _ (armed_query E x h)

/-- "restored once init_finished": after the `DriverQuery` of any step that finds the handshake
finished, a registered socket with queued data is polled for POLLOUT -/
theorem pollout_restored (E : Engine σ) (x : ASt σ ω) (h : Armed x) (hinit : E.initFinished x.s.e = true)
    (hreg : x.a.registered = true) (hq : x.a.sendQ ≠ []) : (aQuery E x).a.pollOut = true := by
  unfold aQuery
  rw [if_neg (by simp [hreg])]
  simp only [driverQuery, hinit]
  rcases h hreg hq with h1 | h1
  · by_cases hs : x.s.g.driverSendSuppressed = true
    · simp [hs]
    · simp [hs, h1]
  · simp [h1]

/-! ## decrypted data held inside the engine is served (F8) -/

theorem driverQuery_engine (E : Engine σ) (s : St σ ω) (po : Bool) : (driverQuery E s po).2.e = s.e := by
  unfold driverQuery
  repeat' split
  all_goals rfl

/-- `DriverQuery` leaves the engine and the registration alone -/
theorem aQuery_engine (E : Engine σ) (x : ASt σ ω) :
    (aQuery E x).s.e = x.s.e ∧ (aQuery E x).a.registered = x.a.registered := by
  by_cases h : x.a.registered = true
  · have : aQuery E x = { a := { x.a with pollOut := (driverQuery E x.s x.a.pollOut).1 }, s := (driverQuery E x.s x.a.pollOut).2 } := by
      simp [aQuery, h]
    rw [this]
    exact ⟨driverQuery_engine E x.s x.a.pollOut, rfl⟩
  · have : aQuery E x = x := by simp [aQuery, h]
    rw [this]
    exact ⟨rfl, rfl⟩

/-- **received_is_served** (after C03: "the receive handler gets every byte the peer sent"): a registered
asynchronous TLS socket whose engine holds decrypted data (`SSL_pending() > 0`: the receive buffer was smaller
than the record) is served as READABLE by the step in which `QuerySockets` returns it - whatever `poll`
reported, in particular when it reported nothing because the descriptor is empty.  For every engine, world,
state and reported events. -/
theorem received_is_served {W : World ω} (C : Cfg) (E : Engine σ) (rx : Nat) (x : ASt σ ω) (rev : REvents)
    (hr : x.a.registered = true) (hp : E.pending x.s.e = true) :
    aApply C W E rx x (.stepFirst rev) = (aReadable C W E rx (aQuery E x)).2 := by
  have hq := aQuery_engine E x
  have hforced : forcedRev E (aQuery E x) rev = { rev with rd := true } := by
    unfold forcedRev driverReceived
    rw [hq.1, hq.2]
    simp [hr, hp]
  simp only [aApply, hforced, aTask]
  rw [if_neg (by rw [hq.2]; simp [hr])]
  simp

/-- the driver before the repair of F8 (`DoOneSocketTask()` acting on the reported events only): when the
descriptor is empty `poll` reports nothing for the socket and the step hands nothing to the receive handler,
although the engine holds data - with no further traffic from the peer, for ever (witness of the open
finding F8 of the earlier sessions, kept as the negative counterpart of `received_is_served`) -/
theorem legacy_pending_stalls {W : World ω} (C : Cfg) (E : Engine σ) (rx : Nat) (x : ASt σ ω) (n : Nat) :
    (aRun C W E rx x (List.replicate n (.step {}))).a.delivered = x.a.delivered := by
  induction n generalizing x with
  | zero => rfl
  | succ k ih =>
    simp only [List.replicate_succ, aRun, List.foldl_cons]
    have h1 : (aApply C W E rx x (.step {})).a.delivered = x.a.delivered := by
      simp only [aApply, aTask]
      have hd : (aQuery E x).a.delivered = x.a.delivered := by
        unfold aQuery
        split
        · rfl
        · rfl
      split
      · exact hd
      · simp [hd]
    have := ih (aApply C W E rx x (.step {}))
    simp only [aRun] at this
    rw [this, h1]

/-! ## `Write`: count and retry discipline (what C01/C02 need from the TLS socket) -/

def pendingAssert : String := "assert(pendingSend.empty() || pendingSend.size() == remaining.size())"

/-- loop invariant of `Write`: the calls logged so far form a chain that leaves `rest`; `pendingSend`
is empty or equal to what will be passed next -/
def WInv (data : Bytes) (old : List EngCall) (rest : Bytes) (s : St σ ω) : Prop :=
  ∃ cs, s.g.engCalls = cs.reverse ++ old ∧ WriteChain data cs rest ∧
    (s.g.pendingSend = [] ∨ s.g.pendingSend = rest)

def WPost (data : Bytes) (old : List EngCall) (o : Out Bytes) (s : St σ ω) : Prop :=
  ∃ cs rest, s.g.engCalls = cs.reverse ++ old ∧ WriteChain data cs rest ∧
    (∀ r, o = .ok r → r = rest ∧ (s.g.pendingSend = [] ∨ s.g.pendingSend = rest)) ∧
    o ≠ .abort pendingAssert

theorem writeRetry_chain {W : World ω} (C : Cfg) (data : Bytes) (old : List EngCall) (i' : Nat) (rest : Bytes)
    (s2 : St σ ω) (ans : SslAns) (cs : List EngCall)
    (hlog : s2.g.engCalls = cs.reverse ++ old) (hchain : WriteChain data cs rest) (hp : s2.g.pendingSend = rest) :
    (∀ o s', writeRetry C W i' rest s2 ans = (.stop o, s') → WPost data old o s') ∧
    (∀ j rest' s', writeRetry C W i' rest s2 ans = (.again j rest', s') → WInv data old rest' s') := by
  have hk := handleResult_keeps (W := W) s2 ans
  unfold writeRetry
  rcases hh : handleResult W s2 ans with ⟨o, s3⟩
  rw [hh] at hk
  obtain ⟨hk1, hk2, _, hk4⟩ := hk
  cases o with
  | exn e =>
    constructor
    · intro o s' heq
      simp only [Prod.mk.injEq, Next.stop.injEq] at heq
      obtain ⟨rfl, rfl⟩ := heq
      exact ⟨cs, rest, by rw [hk2]; exact hlog, hchain, (by intro r hr; cases hr), by simp⟩
    · intro j rest' s' heq; simp at heq
  | abort m => exact absurd rfl (hk4 m)
  | ok b =>
    cases b with
    | false =>
      constructor
      · intro o s' heq
        simp only [Prod.mk.injEq, Next.stop.injEq] at heq
        obtain ⟨rfl, rfl⟩ := heq
        refine ⟨cs, rest, by rw [hk2]; exact hlog, hchain, ?_, by simp⟩
        intro r hr
        simp only [Out.ok.injEq] at hr
        exact ⟨hr.symm, Or.inr (by rw [hk1]; exact hp)⟩
      · intro j rest' s' heq; simp at heq
    | true =>
      simp only
      constructor
      · intro o s' heq
        split at heq
        · simp only [Prod.mk.injEq, Next.stop.injEq] at heq
          obtain ⟨rfl, rfl⟩ := heq
          exact ⟨cs, rest, by rw [hk2]; exact hlog, hchain, (by intro r hr; cases hr), by simp [pendingAssert]⟩
        · simp at heq
      · intro j rest' s' heq
        split at heq
        · simp at heq
        · simp only [Prod.mk.injEq, Next.again.injEq] at heq
          obtain ⟨⟨_, rfl⟩, rfl⟩ := heq
          exact ⟨cs, by rw [hk2]; exact hlog, hchain, Or.inr (by rw [hk1]; exact hp)⟩

theorem writeRound_chain {W : World ω} (C : Cfg) (E : Engine σ) (data : Bytes) (old : List EngCall)
    (i' : Nat) (rest : Bytes) (s : St σ ω) (h : WInv data old rest s) :
    (∀ o s', writeRound C W E i' rest s = (.stop o, s') → WPost data old o s') ∧
    (∀ j rest' s', writeRound C W E i' rest s = (.again j rest', s') → WInv data old rest' s') := by
  obtain ⟨cs, hcalls, hchain, hpend⟩ := h
  have hctl := interp_ctl (W := W) s (E.sslWrite s.e rest)
  have hna := interp_no_abort (W := W) s (E.sslWrite s.e rest)
  unfold writeRound
  rw [if_neg (by intro hc; exact hc.2 (hpend.imp id (congrArg List.length)))]
  rcases hi : interp W s (E.sslWrite s.e rest) with ⟨o, s1⟩
  rw [hi] at hctl hna
  obtain ⟨_, hps, hec, _⟩ := hctl
  cases o with
  | exn e =>
    constructor
    · intro o s' heq
      simp only [Prod.mk.injEq, Next.stop.injEq] at heq
      obtain ⟨rfl, rfl⟩ := heq
      exact ⟨cs, rest, by rw [show s1.g.engCalls = s.g.engCalls from hec, hcalls], hchain,
        (by intro r hr; cases hr), by simp⟩
    · intro j rest' s' heq; simp at heq
  | abort m => exact absurd rfl (hna m)
  | ok p =>
    obtain ⟨ans, out⟩ := p
    -- the call is logged
    have hlog : (noteCall E s1 false rest ans).g.engCalls
        = (cs ++ [EngCall.mk false rest ans (E.initFinished s1.e)]).reverse ++ old := by
      simp only [noteCall, List.reverse_append, List.reverse_cons, List.reverse_nil, List.nil_append,
        List.singleton_append, List.cons_append]
      rw [show s1.g.engCalls = s.g.engCalls from hec, hcalls]
    have hchain' : WriteChain data (cs ++ [EngCall.mk false rest ans (E.initFinished s1.e)]) (afterAns ans rest) :=
      WriteChain.snoc (EngCall.mk false rest ans (E.initFinished s1.e)) hchain rfl rfl
    have retry : ∀ a : SslAns, afterAns a rest = rest → a = ans →
        (∀ o s', writeRetry C W i' rest (setPending (noteCall E s1 false rest ans) rest) a = (.stop o, s') → WPost data old o s') ∧
        (∀ j rest' s', writeRetry C W i' rest (setPending (noteCall E s1 false rest ans) rest) a = (.again j rest', s') →
          WInv data old rest' s') := by
      intro a ha hae
      subst hae
      rw [ha] at hchain'
      exact writeRetry_chain C data old i' rest _ a _ hlog hchain' rfl
    cases ans with
    | done k =>
      simp only [afterAns] at hchain'
      simp only
      constructor
      · intro o s' heq
        split at heq
        · simp at heq
        · split at heq
          · simp only [Prod.mk.injEq, Next.stop.injEq] at heq
            obtain ⟨rfl, rfl⟩ := heq
            exact ⟨_, _, hlog, hchain', (by intro r hr; cases hr), by simp [pendingAssert]⟩
          · simp at heq
      · intro j rest' s' heq
        split at heq
        · simp only [Prod.mk.injEq, Next.again.injEq] at heq
          obtain ⟨⟨_, rfl⟩, rfl⟩ := heq
          exact ⟨_, hlog, hchain', Or.inl rfl⟩
        · split at heq
          · simp at heq
          · simp only [Prod.mk.injEq, Next.again.injEq] at heq
            obtain ⟨⟨_, rfl⟩, rfl⟩ := heq
            exact ⟨_, hlog, hchain', Or.inl rfl⟩
    | wantRead => exact retry .wantRead rfl rfl
    | wantWrite => exact retry .wantWrite rfl rfl
    | zeroReturn => exact retry .zeroReturn rfl rfl
    | syscallErr => exact retry .syscallErr rfl rfl
    | sslErr => exact retry .sslErr rfl rfl

/-- **tlsWrite_retry_same_data**.  For every engine, world and starting state in which the caller
respects the retry rule (`pendingSend` is empty, or he passes the buffer that is pending):
* every `ssl_write` call of this `Write(data)` is handed exactly the then-unsent suffix of `data`
  (`WriteChain`): after `want_read`/`want_write` the *same bytes* are passed again - the retry
  contract of `SSL_write`, and what the `assert` at socket_tls_impl.cpp:393 demands;
* that assert never fires;
* on return `pendingSend` is empty or equals the unsent remainder `data.drop n`, so a caller who
  retries with the remainder (as the API requires) respects the rule again. -/
theorem tlsWrite_retry_same_data {W : World ω} (C : Cfg) (E : Engine σ) (s : St σ ω) (data : Bytes)
    (hp : s.g.pendingSend = [] ∨ s.g.pendingSend = data) :
    ∃ cs rest, (tlsWrite C W E s data).2.g.engCalls = cs.reverse ++ s.g.engCalls ∧ WriteChain data cs rest ∧
      (∀ n, (tlsWrite C W E s data).1 = .ok n →
        n = data.length - rest.length ∧ rest = data.drop n ∧
        ((tlsWrite C W E s data).2.g.pendingSend = [] ∨ (tlsWrite C W E s data).2.g.pendingSend = data.drop n)) ∧
      (tlsWrite C W E s data).1 ≠ .abort pendingAssert := by
  have hk := handleError_keeps (W := W) s s.g.lastError
  unfold tlsWrite handleLastError
  rcases hh : handleError W s s.g.lastError with ⟨o, s0⟩
  rw [hh] at hk
  obtain ⟨⟨_, hps, hec, _⟩, _, hna⟩ := hk
  have hrest0 : ∀ (n : Nat), n = data.length - data.length → data = data.drop n := by
    intro n hn; simp at hn; subst hn; simp
  cases o with
  | abort m => exact absurd rfl (hna m)
  | exn e =>
    exact ⟨[], data, by simpa using hec, .nil, (by intro n hn; cases hn), by simp⟩
  | ok b =>
    cases b with
    | false =>
      refine ⟨[], data, by simpa using hec, .nil, ?_, by simp⟩
      intro n hn
      simp only [Out.ok.injEq] at hn
      subst hn
      simp only [Nat.sub_self, List.drop_zero, true_and]
      rw [hps]; exact hp
    | true =>
      simp only
      have hinv : WInv data s.g.engCalls data (setLastError s0 .none) :=
        ⟨[], by simpa [setLastError] using hec, .nil, by
          have hps' : s0.g.pendingSend = s.g.pendingSend := hps
          simpa [setLastError, hps'] using hp⟩
      have hpost := writeLoop_rule C W E (fun _ => WInv data s.g.engCalls) (WPost data s.g.engCalls)
        (by intro i rest s h _
            obtain ⟨cs, h1, h2, h3⟩ := h
            exact ⟨cs, rest, h1, h2, by intro r hr; simp only [Out.ok.injEq] at hr; exact ⟨hr.symm, h3⟩, by simp⟩)
        (by intro i' rest s o s' h _ heq; exact (writeRound_chain C E data _ i' rest s h).1 o s' heq)
        (by intro i' rest s j rest' s' h _ heq; exact (writeRound_chain C E data _ i' rest s h).2 j rest' s' heq)
        C.stepsMax data (setLastError s0 .none) hinv
      rcases hl : writeLoop C W E C.stepsMax data (setLastError s0 .none) with ⟨o, s'⟩
      rw [hl] at hpost
      obtain ⟨cs, rest, h1, h2, h3, h4⟩ := hpost
      cases o with
      | ok r =>
        obtain ⟨hr, hpd⟩ := h3 r rfl
        subst hr
        refine ⟨cs, r, h1, h2, ?_, by simp⟩
        intro n hn
        simp only [Out.ok.injEq] at hn
        have hre := h2.rest_eq
        have hlen : r.length = data.length - consumed cs := by rw [hre]; simp
        have hdrop : r = data.drop n := by
          rw [← hn, hlen, hre]
          by_cases hc : consumed cs ≤ data.length
          · congr 1; omega
          · rw [List.drop_eq_nil_of_le (by omega), List.drop_eq_nil_of_le (by omega)]
        exact ⟨hn.symm, hdrop, by rw [← hdrop]; exact hpd⟩
      | exn e => exact ⟨cs, rest, h1, h2, (by intro n hn; cases hn), by simp⟩
      | abort m => exact ⟨cs, rest, h1, h2, (by intro n hn; cases hn), by simpa using h4⟩

/-- **tlsWrite_count**: the count `Write` returns is the number of plaintext bytes the engine
reported as written by its `done` answers (capped at the size of the buffer, which a well-formed
engine never exceeds), never more than the buffer - so the sum over retries is exact. -/
theorem tlsWrite_count {W : World ω} (C : Cfg) (E : Engine σ) (s : St σ ω) (data : Bytes)
    (hp : s.g.pendingSend = [] ∨ s.g.pendingSend = data) (n : Nat) (h : (tlsWrite C W E s data).1 = .ok n) :
    n ≤ data.length ∧
    ∃ cs, (tlsWrite C W E s data).2.g.engCalls = cs.reverse ++ s.g.engCalls ∧ n = min (consumed cs) data.length := by
  obtain ⟨cs, rest, h1, h2, h3, _⟩ := tlsWrite_retry_same_data C E s data hp
  obtain ⟨hn, _, _⟩ := h3 n h
  refine ⟨by omega, cs, h1, ?_⟩
  rw [hn, h2.rest_eq]
  simp only [List.length_drop]
  omega

/-! ## `Read`: bounds -/

/-- A-SSL: `SSL_read(n)` that succeeds hands out between 1 and `n` bytes -/
def ReadSized (E : Engine σ) : Prop :=
  ∀ s n, AllLeaves (fun a o _ => ∀ k, a = .done k → o.length = k ∧ 1 ≤ k ∧ k ≤ n) (E.sslRead s n)

/-- **tlsRead_bounds**: a `Receive` that reports data reports between 1 and `size` bytes - never a
zero-length success; "nothing" (`[]` = `std::nullopt` / handshake only) is the only other normal result -/
theorem tlsRead_bounds {W : World ω} (C : Cfg) (E : Engine σ) (hE : ReadSized E) (s s' : St σ ω) (size : Nat) (bs : Bytes) :
    (∀ t, receiveT C W E s size t = (.ok bs, s') → bs = [] ∨ (1 ≤ bs.length ∧ bs.length ≤ size)) ∧
    (receiveReadable C W E s size = (.ok bs, s') → bs = [] ∨ (1 ≤ bs.length ∧ bs.length ≤ size)) := by
  have key : ∀ s0 s1 : St σ ω, tlsRead C W E s0 size = (.ok bs, s1) → bs = [] ∨ (1 ≤ bs.length ∧ bs.length ≤ size) := by
    intro s0 s1 h
    rcases tlsRead_ok C E _ size (fun s => hE s size) s0 s1 bs h with h0 | ⟨k, hk⟩
    · left; exact h0
    · right
      obtain ⟨h1, h2, h3⟩ := hk k rfl
      omega
  constructor
  · intro t h
    unfold receiveT at h
    split at h
    · split at h
      · simp at h
      · split at h <;> (simp only [Prod.mk.injEq, Out.ok.injEq] at h; left; exact h.1.symm)
    · exact key _ _ h
  · intro h
    unfold receiveReadable at h
    split at h
    · split at h <;> (simp only [Prod.mk.injEq, Out.ok.injEq] at h; left; exact h.1.symm)
    · exact key _ _ h

/-! ## after the handshake the TLS socket behaves like the plain one (what C01/C07 need):
the three repairs, each with the pre-fix variant refuted -/

/-- (319faf2) A `Receive` that finds no user data within its timeout on an established connection
leaves no cached WANT_READ behind: the next `Send` goes straight to the engine instead of first
waiting for the socket to become readable. -/
theorem receive_leaves_no_stale_want_read {W : World ω} (C : Cfg) (hfix : C.fixRecvReset = true) (E : Engine σ)
    (s s' : St σ ω) (size : Nat) (t : Int) (h : receiveT C W E s size t = (.ok [], s'))
    (hinit : E.initFinished s'.e = true) : s'.g.lastError ≠ .wantRead := by
  unfold receiveT at h
  split at h
  · rename_i s1 heq
    split at h
    · simp at h
    · split at h
      · simp only [Prod.mk.injEq, true_and] at h
        subst h; simp [setLastError]
      · rename_i hc
        simp only [Prod.mk.injEq, true_and] at h
        subst h
        intro hl
        exact hc ⟨hfix, hl, hinit⟩
  · rename_i hne
    exact absurd h (hne s')

/-- (ee81033) the mirror image for `Send`: on an established connection a `Send` that could not
write everything within its timeout leaves no cached WANT_WRITE behind, so the next `Receive` reads
what is there instead of first waiting for the socket to become writable. -/
theorem send_leaves_no_stale_want_write {W : World ω} (C : Cfg) (hfix : C.fixSendReset = true) (E : Engine σ)
    (s s' : St σ ω) (data : Bytes) (t : Int) (n : Nat) (h : sendT C W E s data t = (.ok n, s'))
    (hinit : E.initFinished s'.e = true) : s'.g.lastError ≠ .wantWrite := by
  unfold sendT at h
  split at h
  · rename_i n1 s1 heq
    split at h
    · simp only [Prod.mk.injEq] at h
      obtain ⟨_, rfl⟩ := h; simp [setLastError]
    · rename_i hc
      simp only [Prod.mk.injEq] at h
      obtain ⟨_, rfl⟩ := h
      intro hl
      exact hc ⟨hfix, hl, hinit⟩
  · rename_i hne
    exact absurd h (hne n s')

/-- A-SSL for a blocking write: every `ssl_write` makes progress -/
def WriteProgress (E : Engine σ) : Prop :=
  ∀ s d, AllLeaves (fun a _ _ => ∃ k, a = .done k ∧ 0 < k) (E.sslWrite s d)

/-- (e3dfab5) However many records a buffer needs: as long as every `ssl_write` makes progress
(which is what OpenSSL does under an unlimited timeout, where the BIO callbacks block), `Write`
ends with the whole buffer taken (result `data.length`) or with an exception - the round limit
`handshakeStepsMax` no longer cuts a long `Send` short, and its `assert` does not fire. -/
theorem tlsWrite_complete {W : World ω} (C : Cfg) (hfix : C.fixRoundReset = true) (hpos : 0 < C.stepsMax)
    (E : Engine σ) (hE : WriteProgress E) (s : St σ ω) (data : Bytes)
    (hl : s.g.lastError = .none) (hp : s.g.pendingSend = [] ∨ s.g.pendingSend = data) :
    (∃ s', tlsWrite C W E s data = (.ok data.length, s')) ∨ (∃ e s', tlsWrite C W E s data = (.exn e, s')) := by
  have round : ∀ i' rest (s0 : St σ ω), (s0.g.pendingSend = [] ∨ s0.g.pendingSend = rest) → rest ≠ [] →
      (∃ e s', writeRound C W E i' rest s0 = (.stop (.exn e), s')) ∨
      (∃ k s', writeRound C W E i' rest s0 = (.again C.stepsMax (rest.drop k), s') ∧ s'.g.pendingSend = []) := by
    intro i' rest s0 hp0 _
    have hs := interp_spec (W := W) _ _ (hE s0.e rest) s0
    unfold writeRound
    rw [if_neg (by intro hc; exact hc.2 (hp0.imp id (congrArg List.length)))]
    rcases hi : interp W s0 (E.sslWrite s0.e rest) with ⟨o, s1⟩
    rw [hi] at hs
    cases o with
    | exn e => left; exact ⟨e, s1, rfl⟩
    | abort m => exact absurd rfl (hs.2.1 m)
    | ok p =>
      obtain ⟨ans, out⟩ := p
      obtain ⟨k, hk, hk0⟩ := hs.2.2.1 ans out rfl
      subst hk
      right
      refine ⟨k, setPending (noteCall E s1 false rest (.done k)) [], ?_, rfl⟩
      simp only
      rw [if_pos ⟨hk0, hfix⟩]
  have hloop := writeLoop_rule C W E
    (fun i rest s0 => 0 < i ∧ (s0.g.pendingSend = [] ∨ s0.g.pendingSend = rest))
    (fun o _ => o = .ok [] ∨ ∃ e, o = .exn e)
    (by intro i rest s0 h hex
        rcases hex with h0 | h0
        · omega
        · left; rw [h0])
    (by intro i' rest s0 o s' h hne heq
        rcases round i' rest s0 h.2 hne with ⟨e, s'', hr⟩ | ⟨k, s'', hr, _⟩
        · rw [hr] at heq
          simp only [Prod.mk.injEq, Next.stop.injEq] at heq
          right; exact ⟨e, heq.1.symm⟩
        · rw [hr] at heq; simp at heq)
    (by intro i' rest s0 j rest' s' h hne heq
        rcases round i' rest s0 h.2 hne with ⟨e, s'', hr⟩ | ⟨k, s'', hr, hpd⟩
        · rw [hr] at heq; simp at heq
        · rw [hr] at heq
          simp only [Prod.mk.injEq, Next.again.injEq] at heq
          obtain ⟨⟨rfl, _⟩, rfl⟩ := heq
          exact ⟨hpos, Or.inl hpd⟩)
  unfold tlsWrite handleLastError
  rw [hl]
  simp only [handleError]
  have h1 := hloop C.stepsMax data (setLastError s .none) ⟨hpos, by simpa [setLastError] using hp⟩
  rcases hw : writeLoop C W E C.stepsMax data (setLastError s .none) with ⟨o, s'⟩
  rw [hw] at h1
  rcases h1 with h1 | ⟨e, h1⟩
  · simp only at h1; subst h1
    left; exact ⟨s', by simp⟩
  · simp only at h1; subst h1
    right; exact ⟨e, s', rfl⟩

/-! ### the pre-fix variants violate these statements (kept so that the defects cannot return unnoticed;
the same histories are replayed on the implementation by the polling schedules of the harness) -/

/-- an engine with an established connection and nothing to read; writes are buffered inside
the engine one byte per call (a legal, if slow, behaviour under SSL_MODE_ENABLE_PARTIAL_WRITE) -/
def idleEngine : Engine Unit where
  sslRead _ _ := .ret .wantRead [] ()
  sslWrite _ _ := .ret (.done 1) [] ()
  initFinished _ := true

/-- a healthy, silent peer: never readable, always writable -/
def quietWorld : Script := { dead := false }

/-- **F7, pre-319faf2.**  History: established connection; `Receive(buf, n, 0)` finds nothing;
`Send([1,2,3], T)`.  The pre-fix glue leaves WANT_READ cached and the `Send` returns 0 without ever
calling the engine although the socket is writable - with `T = -1` it would wait for *readable*
forever.  (Contradicts `receive_leaves_no_stale_want_read`, which holds for the current code.) -/
theorem legacy_recv_reset_violates :
    let C := Cfg.legacyRecvReset
    let s0 : St Unit Script := { g := {}, e := (), w := quietWorld }
    let s1 := (receiveT C Script.world idleEngine s0 100 0).2
    (receiveT C Script.world idleEngine s0 100 0).1 = .ok [] ∧
    s1.g.lastError = .wantRead ∧
    (sendT C Script.world idleEngine s1 [1, 2, 3] 0).1 = .ok 0 ∧
    (sendT C Script.world idleEngine s1 [1, 2, 3] 0).2.g.engCalls.length = s1.g.engCalls.length := by
  decide

/-- an engine whose write BIO is congested: `ssl_write` wants to write -/
def congestedEngine : Engine Unit where
  sslRead _ _ := .ret (.done 3) [7, 8, 9] ()
  sslWrite _ _ := .ret .wantWrite [] ()
  initFinished _ := true

/-- a peer that has sent data but does not drain ours: readable, not writable -/
def fullWorld : Script := { dead := false, waits := [⟨false, 0⟩, ⟨false, 0⟩, ⟨false, 0⟩, ⟨false, 0⟩] }

/-- **F10, pre-ee81033.**  History: established connection whose send buffer is full;
`Send([1,2,3], 0)` cannot write (returns 0); then `Receive(buf, 100, 0)` although the engine has three
bytes of user data ready.  The pre-fix glue leaves WANT_WRITE cached and the `Receive` returns nothing
without ever calling the engine, because it first waits for the socket to become *writable* - two
peers in this state never drain each other.  (Contradicts `send_leaves_no_stale_want_write`.) -/
theorem legacy_send_reset_violates :
    let C := Cfg.legacySendReset
    let s0 : St Unit Script := { g := {}, e := (), w := fullWorld }
    let s1 := (sendT C Script.world congestedEngine s0 [1, 2, 3] 0).2
    (sendT C Script.world congestedEngine s0 [1, 2, 3] 0).1 = .ok 0 ∧
    s1.g.lastError = .wantWrite ∧
    (receiveT C Script.world congestedEngine s1 100 0).1 = .ok [] ∧
    (receiveT C Script.world congestedEngine s1 100 0).2.g.engCalls.length = s1.g.engCalls.length := by
  have hs : sendT Cfg.legacySendReset Script.world congestedEngine { g := {}, e := (), w := fullWorld } [1, 2, 3] 0
      = (.ok 0, { g := { lastError := .wantWrite, pendingSend := [1, 2, 3],
                         engCalls := [⟨false, [1, 2, 3], .wantWrite, true⟩] },
                  e := (),
                  w := { fullWorld with waits := [⟨false, 0⟩, ⟨false, 0⟩, ⟨false, 0⟩],
                                        calls := [.wait .wr 0 false] } }) := by
    simp [sendT, tlsWrite, handleLastError, handleError, setTimeout, setLastError, Cfg.legacySendReset, Cfg.current,
      stepsMaxConst, SockModel.Consts.handshakeStepsMax, writeLoop, writeRound, writeRetry, interp, congestedEngine,
      noteCall, setPending, handleResult, SslAns.toErr, waitUnder, Script.world, fullWorld, underDeadline]
  simp only [hs]
  decide

/-- **F9, pre-e3dfab5.**  An engine that takes one byte per `ssl_write` (any engine that needs more than
`handshakeStepsMax` successful partial writes for the buffer - OpenSSL does for more than 9 records of
16 KiB): the pre-fix loop counts successful writes as handshake rounds and stops after `stepsMax` of
them.  In the NDEBUG build `Send(data, -1)` returns `stepsMax` although every call made progress
(contradicts `tlsWrite_complete`); in the build with asserts it aborts instead. -/
theorem legacy_round_limit_violates {W : World ω} (C : Cfg) (hfix : C.fixRoundReset = false) (hna : C.asserts = false)
    (s : St Unit ω) (hl : s.g.lastError = .none) (data : Bytes) :
    (tlsWrite C W idleEngine s data).1 = .ok (min C.stepsMax data.length) := by
  have loop : ∀ i rest (s0 : St Unit ω), (writeLoop C W idleEngine i rest s0).1 = .ok (rest.drop i) := by
    intro i
    induction i with
    | zero => intro rest s0; unfold writeLoop; simp
    | succ i' ih =>
      intro rest s0
      unfold writeLoop
      split
      · rename_i h0; simp [h0]
      · rename_i hne
        have hr : writeRound C W idleEngine i' rest s0
            = (.again i' (rest.drop 1), setPending (noteCall idleEngine s0 false rest (.done 1)) []) := by
          simp [writeRound, hna, hfix, idleEngine, interp]
        rw [hr]
        simp only
        have hdec : roundDecreases rest i' (rest.drop 1) i' := by
          left
          have : 0 < rest.length := List.length_pos_iff.mpr hne
          simp only [List.length_drop]; omega
        rw [dif_pos hdec, ih]
        simp [List.drop_drop, Nat.add_comm]
  unfold tlsWrite handleLastError
  rw [hl]
  simp only [handleError]
  have h1 := loop C.stepsMax data (setLastError s .none)
  rcases hw : writeLoop C W idleEngine C.stepsMax data (setLastError s .none) with ⟨o, s'⟩
  rw [hw] at h1
  simp only at h1
  subst h1
  simp only [List.length_drop, Out.ok.injEq]
  omega

example : WriteProgress idleEngine := by
  intro s d; exact .ret ⟨1, rfl, by decide⟩

end SockModel.Tls

/-! ## "the handshake ... completes for every combination of sync/async endpoints, timeout modes and order of calls"

FULL STATEMENT (not proved; DESIGN §5 C18):

  theorem handshake_completes : for every pairing of {sync, async} endpoints, every timeout mode on each side
  (unlimited, zero, limited), every order in which the two sides first send or receive, every segmentation of the
  flights on the wire and every behaviour of the kernel's send buffers (partial / refused writes), after finitely many
  calls / driver steps of a fair schedule both engines are `init_finished`, and thereafter `tlsRead`/`tlsWrite`
  refine the plain `receive`/`send` (so that C01, C02, C03, C07, C15 hold unchanged).

PROVED below: `handshake_completes_partial` - the restriction to
  * both endpoints **synchronous**, every call with **timeout 0**,
  * the **round-robin polling schedule** `[c.Send(dc,0), s.Receive(n,0), s.Send(ds,0), c.Receive(n,0)]` (the call
    shape on which the pre-319faf2 / pre-ee81033 code stalled after the handshake),
  * the **reference engine** `Hs.engine` (three flights of arbitrary positive sizes `k1 k2 k3`),
  * a **healthy channel**: two FIFO byte counters, every write accepted in full, reads cut by an arbitrary
    segmentation oracle (any list of cut points),
for the REAL glue model (`Tls.sendT` / `Tls.receiveT` with their retry loops, `HandleLastError` gating, `pendingSend`
rule - not a simplification), any `Cfg` with at least two handshake rounds (in particular the current code and all
three legacy variants: the repairs concern the payload phase, see the `legacy_*_violates` theorems above).
(Superseded in part by the section "handshake completion beyond the polling schedule" at the end of this file and
`Props/C18Hs.lean`: every fair schedule of zero-timeout calls, per-call timeouts `T ≥ 0`, one side blocking with an
unlimited timeout, an asynchronous endpoint with a polling peer are theorems now.)  Still resting on the exhaustive
implementation matrix of `./check C18` only: async/async pairings, an asynchronous endpoint with a blocking peer, both
sides blocking, concurrency finer than one call, short / refused writes, and the agreement of `Hs.engine` with OpenSSL. -/
namespace SockModel.Hs
open SockModel.Net SockModel.Tls

/-- (a) progress: one round of the polling schedule keeps the invariant, never increases the measure
`mu` = work left on both sides, and strictly decreases it while the handshake is unfinished; stages only advance. -/
theorem round_progress (C : Cfg) (hC : 1 < C.stepsMax) (P : HsP) (dc ds : Bytes) (hdc : dc ≠ []) (hds : ds ≠ [])
    (n : Nat) (hn : 1 ≤ n) (y : Sys) (hinv : SysInv P dc ds y) :
    SysInv P dc ds (y.round C P dc ds n) ∧ mu P (y.round C P dc ds n) ≤ mu P y ∧
    (¬ y.bothFinished → mu P (y.round C P dc ds n) < mu P y) ∧
    y.ec.stage ≤ (y.round C P dc ds n).ec.stage ∧ y.es.stage ≤ (y.round C P dc ds n).es.stage := by
  obtain ⟨i1, e1, w1, p1, c1, s1⟩ := stepC_spec C hC P dc ds hdc n hn y hinv (.send dc) (Or.inl rfl)
  obtain ⟨i2, e2, w2, p2, c2, s2⟩ := stepS_spec C hC P dc ds hds n hn _ i1 (.recv n) (Or.inr rfl)
  obtain ⟨i3, e3, w3, p3, c3, s3⟩ := stepS_spec C hC P dc ds hds n hn _ i2 (.send ds) (Or.inl rfl)
  obtain ⟨i4, e4, w4, p4, c4, s4⟩ := stepC_spec C hC P dc ds hdc n hn _ i3 (.recv n) (Or.inr rfl)
  have q4 := congrArg (work P) e4; have q3 := congrArg (work P) e3
  have q2 := congrArg (work P) e2; have q1 := congrArg (work P) e1
  have t4 := congrArg Hs.stage e4; have t3 := congrArg Hs.stage e3
  have t2 := congrArg Hs.stage e2; have t1 := congrArg Hs.stage e1
  unfold Sys.round mu
  refine ⟨i4, by omega, ?_, by omega, by omega⟩
  intro hnf
  rcases can_progress P dc ds y hinv hnf with hc | hs
  · have := p1 hc; omega
  · have hs' : CanProg false (y.step C P true (.send dc)).es (y.step C P true (.send dc)).ch := by
      rw [e1]
      obtain ⟨h1, h2⟩ := hs
      refine ⟨h1, ?_⟩
      rcases h2 with h2 | h2
      · exact Or.inl h2
      · right; simp only [Chan.inb, Bool.false_eq_true, if_false] at h2 ⊢; omega
    have := p2 hs'
    omega

theorem rounds_progress (C : Cfg) (hC : 1 < C.stepsMax) (P : HsP) (dc ds : Bytes) (hdc : dc ≠ []) (hds : ds ≠ [])
    (n : Nat) (hn : 1 ≤ n) : ∀ (k : Nat) (y : Sys), SysInv P dc ds y →
      SysInv P dc ds (Sys.rounds C P dc ds n k y) ∧
      ((Sys.rounds C P dc ds n k y).bothFinished ∨ mu P (Sys.rounds C P dc ds n k y) + k ≤ mu P y) ∧
      (y.bothFinished → (Sys.rounds C P dc ds n k y).bothFinished) := by
  intro k
  induction k with
  | zero => intro y h; exact ⟨h, Or.inr (by simp [Sys.rounds]), fun h => h⟩
  | succ k ih =>
    intro y h
    obtain ⟨r1, r2, r3, r4, r5⟩ := round_progress C hC P dc ds hdc hds n hn y h
    obtain ⟨j1, j2, j3⟩ := ih _ r1
    have keep : y.bothFinished → (y.round C P dc ds n).bothFinished := by
      intro hb; exact ⟨by have := hb.1; omega, by have := hb.2; omega⟩
    refine ⟨j1, ?_, fun hb => j3 (keep hb)⟩
    simp only [Sys.rounds]
    rcases j2 with j2 | j2
    · exact Or.inl j2
    · by_cases hb : y.bothFinished
      · exact Or.inl (j3 (keep hb))
      · right; have := r3 hb; omega

/-- **handshake_completes_partial** (restriction: both endpoints synchronous, timeout 0, round-robin polling
schedule, reference engine, healthy channel - see the section comment for the full statement).
For all flight sizes, all payloads (non-empty), all receive sizes ≥ 1, **every segmentation** of the wire, and every
glue configuration with at least two handshake rounds: after at most `2·(k1+k2+k3+3)` rounds of
`[c.Send(dc,0), s.Receive(n,0), s.Send(ds,0), c.Receive(n,0)]` - and after any larger number - both engines are
`init_finished`, and (b) **no call on the way threw or hit an assert** (`faults = 0`). -/
theorem handshake_completes_partial (C : Cfg) (hC : 1 < C.stepsMax) (P : HsP) (dc ds : Bytes) (hdc : dc ≠ [])
    (hds : ds ≠ []) (n : Nat) (hn : 1 ≤ n) (segs : List Nat) (m : Nat) (hm : 2 * (P.k1 + P.k2 + P.k3 + 3) ≤ m) :
    (Sys.rounds C P dc ds n m (Sys.init P segs)).bothFinished ∧
    (Sys.rounds C P dc ds n m (Sys.init P segs)).faults = 0 := by
  obtain ⟨h1, h2, _⟩ := rounds_progress C hC P dc ds hdc hds n hn m _ (sysInv_init P dc ds segs)
  refine ⟨?_, h1.2.2.2.2.2.2⟩
  rcases h2 with h2 | h2
  · exact h2
  · have hmu : mu P (Sys.init P segs) = 2 * (P.k1 + P.k2 + P.k3 + 3) := by
      simp only [mu, Sys.init, work_init]; omega
    rw [hmu] at h2
    have h0 : mu P (Sys.rounds C P dc ds n m (Sys.init P segs)) = 0 := by omega
    have zero_fin : ∀ h : Hs, work P h = 0 → 3 ≤ h.stage := by
      intro h hw
      unfold work at hw
      by_cases a0 : h.stage = 0
      · simp [a0] at hw
      · by_cases a1 : h.stage = 1
        · simp [a1] at hw
        · by_cases a2 : h.stage = 2
          · simp [a2] at hw
          · omega
    unfold mu at h0
    exact ⟨zero_fin _ (by omega), zero_fin _ (by omega)⟩

/-! ### after the handshake: the polling call order keeps working (current code), and stalls for ever before 319faf2 -/

/-- "... after which C01 ... hold unchanged", for the call order that exposed F7: on an established connection
(reference engine finished), a `Receive(n, 0)` that finds nothing followed by `Send(data, 0)` hands the **whole
buffer** to the engine - with the current code (319faf2 in), for every state the composition can be in. -/
theorem send_after_idle_receive_flows (C : Cfg) (hC : 1 < C.stepsMax) (hfix : C.fixRecvReset = true) (P : HsP)
    (r : Bool) (data : Bytes) (hd : data ≠ []) (n : Nat) (hn : 1 ≤ n) (s : St Hs Chan) (hi : SideInv P r data s)
    (hfin : 3 ≤ s.e.stage) (s1 : St Hs Chan) (hrecv : receiveT C (chanWorld r) (engine P) s n 0 = (.ok [], s1)) :
    ∃ s2, sendT C (chanWorld r) (engine P) s1 data 0 = (.ok data.length, s2) := by
  have hres := recv_spec C (by omega) P r data n hn s hi
  simp only [callOn, hrecv] at hres
  obtain ⟨_, hside, ht, _⟩ := hres
  have hfin1 : 3 ≤ s1.e.stage := by have := ht.st; simp only at this; omega
  have hne := receive_leaves_no_stale_want_read C hfix (engine P) s s1 n 0 hrecv (by simp [engine, hfin1])
  have hle : s1.g.lastError = .none := by
    rcases hside.2.2.2.2.2.1 with h | h
    · exact h
    · exact absurd h hne
  obtain ⟨s2, h2, _⟩ := send_flows C hC P r data hd s1 hside hfin1 hle
  exact ⟨s2, h2⟩

/-- the state in which the pre-319faf2 code ends up on the polling schedule: both engines finished, both channels
empty, and both endpoints with WANT_READ cached (left behind by the `Receive` that completed the handshake and then
found no user data).  It is reached in round 2: round 1 `c.Send` writes C1 and waits for S1; `s.Receive` reads C1,
writes S1, waits for C2; `s.Send` is gated; `c.Receive` reads S1, writes C2, is finished, finds no data - WANT_READ;
round 2 `c.Send` is gated; `s.Receive` reads C2, is finished, finds no data - WANT_READ. -/
def Stalled (P : HsP) (dc ds : Bytes) (y : Sys) : Prop :=
  SysInv P dc ds y ∧ y.bothFinished ∧ y.ch.cs = 0 ∧ y.ch.sc = 0 ∧
  y.gc.lastError = .wantRead ∧ y.gs.lastError = .wantRead

theorem stalled_step (C : Cfg) (hleg : C.fixRecvReset = false) (P : HsP) (dc ds : Bytes) (n : Nat) (y : Sys)
    (h : Stalled P dc ds y) (client : Bool) (c : Call) (hc : c = .send (if client then dc else ds) ∨ c = .recv n) :
    Stalled P dc ds (y.step C P client c) := by
  obtain ⟨⟨ic, is, a1, a2, a3, a4, af⟩, hb, hcs, hsc, hlc, hls⟩ := h
  cases client with
  | true =>
    have key : ∃ s', callOn C P true ⟨y.gc, y.ec, y.ch⟩ c = (true, s') ∧ SideInv P true dc s' ∧ s'.e = y.ec ∧
        s'.w = y.ch ∧ s'.g.lastError = .wantRead := by
      rcases hc with rfl | rfl
      · obtain ⟨s', e, i, ee, w, l⟩ := gated_send C P true dc ⟨y.gc, y.ec, y.ch⟩ ic hlc (by simpa [Chan.inb] using hsc)
        exact ⟨s', by simp [callOn, e, isOk], i, ee, w, l⟩
      · obtain ⟨s', e, i, ee, w, l⟩ := gated_recv_legacy C hleg P true dc n ⟨y.gc, y.ec, y.ch⟩ ic hlc (by simpa [Chan.inb] using hsc)
        exact ⟨s', by simp [callOn, e, isOk], i, ee, w, l⟩
    obtain ⟨s', hcall, hi', hee, hw, hl⟩ := key
    have hstep : y.step C P true c = { y with gc := s'.g, ec := s'.e, ch := s'.w, faults := y.faults + 0 } := by
      simp [Sys.step, hcall]
    rw [hstep]
    refine ⟨⟨hi', ?_, ?_, ?_, ?_, ?_, ?_⟩, ?_, ?_, ?_, hl, hls⟩
    · show SideInv P false ds ⟨y.gs, y.es, s'.w⟩; rw [hw]; exact is
    · show s'.e.stage < 3 → s'.w.cs + rcvd P y.es = sent P s'.e; rw [hee, hw]; exact a1
    · show sent P s'.e ≤ s'.w.cs + rcvd P y.es; rw [hee, hw]; exact a2
    · show y.es.stage < 3 → s'.w.sc + rcvd P s'.e = sent P y.es; rw [hee, hw]; exact a3
    · show sent P y.es ≤ s'.w.sc + rcvd P s'.e; rw [hee, hw]; exact a4
    · show y.faults + 0 = 0; omega
    · show 3 ≤ s'.e.stage ∧ 3 ≤ y.es.stage; rw [hee]; exact hb
    · show s'.w.cs = 0; rw [hw]; exact hcs
    · show s'.w.sc = 0; rw [hw]; exact hsc
  | false =>
    have key : ∃ s', callOn C P false ⟨y.gs, y.es, y.ch⟩ c = (true, s') ∧ SideInv P false ds s' ∧ s'.e = y.es ∧
        s'.w = y.ch ∧ s'.g.lastError = .wantRead := by
      rcases hc with rfl | rfl
      · obtain ⟨s', e, i, ee, w, l⟩ := gated_send C P false ds ⟨y.gs, y.es, y.ch⟩ is hls (by simpa [Chan.inb] using hcs)
        exact ⟨s', by simp [callOn, e, isOk], i, ee, w, l⟩
      · obtain ⟨s', e, i, ee, w, l⟩ := gated_recv_legacy C hleg P false ds n ⟨y.gs, y.es, y.ch⟩ is hls (by simpa [Chan.inb] using hcs)
        exact ⟨s', by simp [callOn, e, isOk], i, ee, w, l⟩
    obtain ⟨s', hcall, hi', hee, hw, hl⟩ := key
    have hstep : y.step C P false c = { y with gs := s'.g, es := s'.e, ch := s'.w, faults := y.faults + 0 } := by
      simp [Sys.step, hcall]
    rw [hstep]
    refine ⟨⟨?_, hi', ?_, ?_, ?_, ?_, ?_⟩, ?_, ?_, ?_, hlc, hl⟩
    · show SideInv P true dc ⟨y.gc, y.ec, s'.w⟩; rw [hw]; exact ic
    · show y.ec.stage < 3 → s'.w.cs + rcvd P s'.e = sent P y.ec; rw [hee, hw]; exact a1
    · show sent P y.ec ≤ s'.w.cs + rcvd P s'.e; rw [hee, hw]; exact a2
    · show s'.e.stage < 3 → s'.w.sc + rcvd P y.ec = sent P s'.e; rw [hee, hw]; exact a3
    · show sent P s'.e ≤ s'.w.sc + rcvd P y.ec; rw [hee, hw]; exact a4
    · show y.faults + 0 = 0; omega
    · show 3 ≤ y.ec.stage ∧ 3 ≤ s'.e.stage; rw [hee]; exact hb
    · show s'.w.cs = 0; rw [hw]; exact hcs
    · show s'.w.sc = 0; rw [hw]; exact hsc

/-- (c) **the pre-319faf2 glue is refuted on the same schedule**: once it is in the `Stalled` state (reached in
round 2, see there), every further round of `[c.Send(dc,0), s.Receive(n,0), s.Send(ds,0), c.Receive(n,0)]` leaves it
there: the handshake is complete on both sides, both sides call `Send` with a non-empty buffer in every round, and not
a single payload byte ever enters a channel - the measure "payload still to deliver" stops decreasing for ever.
(With 319faf2 the state is unreachable - `receive_leaves_no_stale_want_read` - and `send_after_idle_receive_flows`
shows the `Send` going through.) -/
theorem legacy_polling_schedule_stalls (C : Cfg) (hleg : C.fixRecvReset = false) (P : HsP) (dc ds : Bytes) (n : Nat) :
    ∀ (m : Nat) (y : Sys), Stalled P dc ds y →
      Stalled P dc ds (Sys.rounds C P dc ds n m y) ∧
      (Sys.rounds C P dc ds n m y).ch.cs = 0 ∧ (Sys.rounds C P dc ds n m y).ch.sc = 0 := by
  intro m
  induction m with
  | zero => intro y h; exact ⟨h, h.2.2.1, h.2.2.2.1⟩
  | succ m ih =>
    intro y h
    have h1 := stalled_step C hleg P dc ds n y h true (.send dc) (Or.inl rfl)
    have h2 := stalled_step C hleg P dc ds n _ h1 false (.recv n) (Or.inr rfl)
    have h3 := stalled_step C hleg P dc ds n _ h2 false (.send ds) (Or.inl rfl)
    have h4 := stalled_step C hleg P dc ds n _ h3 true (.recv n) (Or.inr rfl)
    exact ih _ h4

/-- the smallest instance: three flights of one byte each -/
def tinyP : HsP := ⟨1, 1, 1, by decide, by decide, by decide⟩

set_option maxRecDepth 8000 in
/-- the `Stalled` state IS reached by the pre-319faf2 glue: two rounds of the polling schedule from the initial
state (evaluated in the kernel for the smallest instance; the trace in the docstring of `Stalled` is independent of
the flight sizes) -/
theorem legacy_stall_state_reached :
    Stalled tinyP [1] [2] (Sys.rounds Cfg.legacyRecvReset tinyP [1] [2] 4 2 (Sys.init tinyP [])) := by
  simp [Stalled, SysInv, SideInv, Sys.bothFinished, Sys.rounds, Sys.round, WF, sent, rcvd,
    Sys.step, Sys.init, callOn, sendT, tlsWrite, handleLastError, handleError, setTimeout, setLastError, Cfg.legacyRecvReset,
    Cfg.current, stepsMaxConst, SockModel.Consts.handshakeStepsMax, writeLoop, writeRound, writeRetry, interp, engine, hsRun, fuel, tinyP,
    Hs.init, Hs.writes, Hs.next, HsP.flight, appWrite, appRead, bioWrite, bioRead, sendTry, sendNow, receive, recvNow, noteWrite, chanWorld,
    noteCall, setPending, handleResult, SslAns.toErr, waitUnder, underDeadline, zeros, Chan.addOut, Chan.inb, Chan.takeIn, pick,
    receiveT, tlsRead, readLoop, readRound, isOk]

/-- **F7 in the composed system** (pre-319faf2): the handshake completes in two rounds of the polling schedule, and
from then on - for every number `m` of further rounds - both channels stay empty: neither `Send([1])` of the client
nor `Send([2])` of the server ever gets a byte out.  The same schedule with the current code delivers
(`send_after_idle_receive_flows`). -/
theorem legacy_recv_reset_stalls_composition (m : Nat) :
    let y2 := Sys.rounds Cfg.legacyRecvReset tinyP [1] [2] 4 2 (Sys.init tinyP [])
    y2.bothFinished ∧ (Sys.rounds Cfg.legacyRecvReset tinyP [1] [2] 4 m y2).ch.cs = 0 ∧
    (Sys.rounds Cfg.legacyRecvReset tinyP [1] [2] 4 m y2).ch.sc = 0 := by
  intro y2
  have h := legacy_stall_state_reached
  have := legacy_polling_schedule_stalls Cfg.legacyRecvReset rfl tinyP [1] [2] 4 m y2 h
  exact ⟨h.2.1, this.2.1, this.2.2⟩

/-- the theorem applies to the code as it is (`handshakeStepsMax` as extracted from the source on this run) -/
example : 1 < Cfg.current.stepsMax := by decide

end SockModel.Hs

/-! ## C07 for the TLS glue: the timeout budget

"... with T < 0 it returns only with a result, never 'nothing'; with T = 0 it never blocks; with T > 0 it ...
blocks no longer than T in total, however many internal waits, partial sends or TLS handshake rounds it needs"
(C07), which C18 demands "unchanged" of TLS sockets - for `Receive(timeout)` / `Send(timeout)` of the TLS glue,
the handshake rounds that run inside them included.

"Every wait issued during the call" is read off the **logging world** `logWorld W` (Model/TlsLog.lean): any
world `W`, wrapped so that each `wait` is recorded (`WaitRec`: direction, timeout argument, clock when issued).
`logging_is_transparent`: the wrapper changes nothing the model does.  The theorems quantify over every
configuration `C` (round limit, asserts on/off, the legacy variants), every world `W`, every engine `E` (any
interaction tree), every starting state `s` (any `lastError`, flags, `pendingSend`, log so far) and every
buffer/size, unless a hypothesis says otherwise.  Hypotheses used, and only where stated:
* `ZeroFree W` / `ClockOk W` (A-CLOCK) and `UnlimitedReady W` (A-POLL) - about the world (Model/TlsBudget.lean);
* `Engine.FailStop E`, `BlockingRead E`, `WriteProgress E` (A-SSL) - about the engine; each is shown to be
  needed by a witness (`stale_budget_after_callback_failure`, `stale_budget_after_empty_write`,
  `unlimited_receive_needs_blocking_engine`). -/
namespace SockModel.Tls
open SockModel.Net

variable {σ ω : Type}

/-- logging does not change behaviour: the result of a call on the logging world is the result on the plain
world, and so is the state once the log is forgotten - for single calls and for whole histories -/
theorem logging_is_transparent (C : Cfg) (W : World ω) (E : Engine σ) (s : St σ ω) (l : List WaitRec) :
    (∀ n t, (receiveT C (logWorld W) E (withLog s l) n t).1 = (receiveT C W E s n t).1 ∧
            unlog (receiveT C (logWorld W) E (withLog s l) n t).2 = (receiveT C W E s n t).2) ∧
    (∀ d t, (sendT C (logWorld W) E (withLog s l) d t).1 = (sendT C W E s d t).1 ∧
            unlog (sendT C (logWorld W) E (withLog s l) d t).2 = (sendT C W E s d t).2) ∧
    (∀ ops, unlog (run C (logWorld W) E (withLog s l) ops) = run C W E s ops) :=
  ⟨fun n t => receiveT_unlog C W E (withLog s l) n t, fun d t => sendT_unlog C W E (withLog s l) d t,
   fun ops => run_unlog C W E (withLog s l) ops⟩

/-- **(T1) `T = 0`: "it never blocks".**  `Receive(…, 0)` and `Send(…, 0)` on a TLS socket issue only waits with
the argument 0 - in the glue's own `HandleError` waits, inside `BioRead` (`Receive(fd, …, 0)`) and inside `BioWrite`
(`SendTry`) - however many rounds and BIO calls the engine makes; the budget is still 0 afterwards; and in a world
where a zero wait, `send` and `recv` take no time, no time passes at all. -/
theorem tls_zero_never_blocks (C : Cfg) (W : World ω) (E : Engine σ) (s : LSt σ ω) :
    (∀ n, (receiveT C (logWorld W) E s n 0).2.g.remainingTime = 0 ∧
      (∃ new, logOf (receiveT C (logWorld W) E s n 0).2 = new ++ logOf s ∧ ∀ r ∈ new, r.timeout = 0) ∧
      (ZeroFree W → W.now (receiveT C (logWorld W) E s n 0).2.w.1 = W.now s.w.1)) ∧
    (∀ data, (sendT C (logWorld W) E s data 0).2.g.remainingTime = 0 ∧
      (∃ new, logOf (sendT C (logWorld W) E s data 0).2 = new ++ logOf s ∧ ∀ r ∈ new, r.timeout = 0) ∧
      (ZeroFree W → W.now (sendT C (logWorld W) E s data 0).2.w.1 = W.now s.w.1)) := by
  have F := zeroFrame (σ := σ) W E (logOf s) (W.now s.w.1)
  have h0 : ZeroInv W (logOf s) (W.now s.w.1) (setTimeout s 0) := ⟨rfl, LogAll.refl _, fun _ => rfl⟩
  exact ⟨fun n => post_same (F.receiveT C s n 0 h0), fun data => post_same (F.sendT C s data 0 h0)⟩

/-- **(T2a) `T < 0`: every wait is unlimited.**  With a negative timeout every wait issued has the argument `T`
itself (the glue's waits, `Receive(fd, …, T)`) or -1 (`SendAll`), and the budget is still `T` afterwards: no path
turns "as long as it takes" into a bounded wait. -/
theorem tls_unlimited_waits (C : Cfg) (W : World ω) (E : Engine σ) (s : LSt σ ω) (T : Int) (hT : T < 0) :
    (∀ n, (receiveT C (logWorld W) E s n T).2.g.remainingTime = T ∧
      ∃ new, logOf (receiveT C (logWorld W) E s n T).2 = new ++ logOf s ∧ ∀ r ∈ new, r.timeout = T ∨ r.timeout = -1) ∧
    (∀ data, (sendT C (logWorld W) E s data T).2.g.remainingTime = T ∧
      ∃ new, logOf (sendT C (logWorld W) E s data T).2 = new ++ logOf s ∧ ∀ r ∈ new, r.timeout = T ∨ r.timeout = -1) := by
  have F := unlFrame (σ := σ) W E T hT (logOf s)
  have h0 : UnlInv T (logOf s) (setTimeout s T) := ⟨rfl, LogAll.refl _⟩
  exact ⟨fun n => post_same (F.receiveT C s n T h0), fun data => post_same (F.sendT C s data T h0)⟩

/-- A-SSL for an unlimited budget: the BIO callbacks block until they have something (or throw), so `SSL_read`
never answers WANT_READ / WANT_WRITE, and a success hands out at least one byte -/
def BlockingRead (E : Engine σ) : Prop :=
  ∀ s n, AllLeaves (fun a o _ => a ≠ .wantRead ∧ a ≠ .wantWrite ∧ (a.isDone = true → o ≠ [])) (E.sslRead s n)

/-- `HandleLastError` under an unlimited budget, in a world whose unlimited waits only come back ready: it never
answers "timed out" -/
theorem handleLastError_unlimited {W : World ω} (hW : UnlimitedReady W) (s : St σ ω) (hneg : s.g.remainingTime < 0) :
    (∃ s', handleLastError W s = (.ok true, s') ∧ s'.g.remainingTime < 0) ∨ (∃ e s', handleLastError W s = (.exn e, s')) := by
  unfold handleLastError
  cases hl : s.g.lastError with
  | none => left; exact ⟨_, rfl, hneg⟩
  | wantRead =>
    left
    have hr := hW s.w .rd _ hneg
    refine ⟨setLastError (waitUnder W s .rd).2 .none, ?_, ?_⟩
    · simp only [handleError, waitUnder, hr]
    · show underDeadline _ _ _ < 0
      rw [underDeadline_nonpos (by omega)]; exact hneg
  | wantWrite =>
    left
    have hr := hW s.w .wr _ hneg
    refine ⟨setLastError (waitUnder W s .wr).2 .none, ?_, ?_⟩
    · simp only [handleError, waitUnder, hr]
    · show underDeadline _ _ _ < 0
      rw [underDeadline_nonpos (by omega)]; exact hneg
  | zeroReturn => right; exact ⟨_, _, rfl⟩
  | syscall => right; exact ⟨_, _, rfl⟩
  | ssl => right; exact ⟨_, _, rfl⟩

/-- **(T2b) `T < 0`: "it returns only with a result, never 'nothing'" - `Receive`.**  For every starting state
(whatever `lastError` an earlier call left behind): in a world whose unlimited waits only come back ready (A-POLL),
with an engine that does not answer WANT_READ / WANT_WRITE when its callbacks block (A-SSL, `BlockingRead`),
`Receive(…, T<0)` returns at least one byte or throws - never `nullopt`, and the `assert(timeout >= 0)` does not
fire.  What the model allows otherwise is `unlimited_receive_needs_blocking_engine`. -/
theorem tls_unlimited_receive_never_nothing (C : Cfg) (hpos : 0 < C.stepsMax) {W : World ω} (hW : UnlimitedReady W)
    (E : Engine σ) (hE : BlockingRead E) (s : St σ ω) (n : Nat) (T : Int) (hT : T < 0) :
    (∃ bs s', bs ≠ [] ∧ receiveT C W E s n T = (.ok bs, s')) ∨ (∃ e s', receiveT C W E s n T = (.exn e, s')) := by
  have key : (∃ bs s', bs ≠ [] ∧ tlsRead C W E (setTimeout s T) n = (.ok bs, s')) ∨
      (∃ e s', tlsRead C W E (setTimeout s T) n = (.exn e, s')) := by
    unfold tlsRead
    rcases handleLastError_unlimited hW (setTimeout s T) hT with ⟨s1, h1, _⟩ | ⟨e, s1, h1⟩
    · rw [h1]
      simp only
      obtain ⟨i, hi⟩ : ∃ i, C.stepsMax = i + 1 := ⟨C.stepsMax - 1, by omega⟩
      rw [hi]
      unfold readLoop
      have hs := interp_spec (W := W) _ _ (hE s1.e n) s1
      unfold readRound
      rcases hint : interp W s1 (E.sslRead s1.e n) with ⟨o, s2⟩
      rw [hint] at hs
      cases o with
      | exn e => exact absurd rfl (hs.2.2.2 e)
      | abort m => exact absurd rfl (hs.2.1 m)
      | ok p =>
        obtain ⟨ans, out⟩ := p
        obtain ⟨hnr, hnw, hdone⟩ := hs.2.2.1 ans out rfl
        cases ans with
        | done k => left; exact ⟨out, _, hdone rfl, rfl⟩
        | wantRead => exact absurd rfl hnr
        | wantWrite => exact absurd rfl hnw
        | zeroReturn =>
          obtain ⟨e, s', hr⟩ := handleResult_fatal (W := W) (noteCall E s2 true [] .zeroReturn) .zeroReturn (Or.inl rfl)
          right; exact ⟨e, s', by simp [hr]⟩
        | syscallErr =>
          obtain ⟨e, s', hr⟩ := handleResult_fatal (W := W) (noteCall E s2 true [] .syscallErr) .syscallErr (Or.inr (Or.inl rfl))
          right; exact ⟨e, s', by simp [hr]⟩
        | sslErr =>
          obtain ⟨e, s', hr⟩ := handleResult_fatal (W := W) (noteCall E s2 true [] .sslErr) .sslErr (Or.inr (Or.inr rfl))
          right; exact ⟨e, s', by simp [hr]⟩
    · rw [h1]; right; exact ⟨e, s1, rfl⟩
  unfold receiveT
  rcases key with ⟨bs, s', hne, h⟩ | ⟨e, s', h⟩
  · left
    refine ⟨bs, s', hne, ?_⟩
    rw [h]
    cases bs with
    | nil => exact absurd rfl hne
    | cons b bs => rfl
  · right; exact ⟨e, s', by rw [h]⟩

/-- **(T2c) `T < 0`: "never 'nothing'" - `Send`.**  For every starting state that respects the retry rule: in a
world whose unlimited waits only come back ready, with an engine whose every `ssl_write` makes progress when its
callbacks block (`WriteProgress`, the A-SSL hypothesis of `tlsWrite_complete`), `Send(data, T<0)` reports the whole
buffer or throws - never a short count. -/
theorem tls_unlimited_send_complete (C : Cfg) (hfix : C.fixRoundReset = true) (hpos : 0 < C.stepsMax) {W : World ω}
    (hW : UnlimitedReady W) (E : Engine σ) (hE : WriteProgress E) (s : St σ ω) (data : Bytes)
    (hp : s.g.pendingSend = [] ∨ s.g.pendingSend = data) (T : Int) (hT : T < 0) :
    (∃ s', sendT C W E s data T = (.ok data.length, s')) ∨ (∃ e s', sendT C W E s data T = (.exn e, s')) := by
  have key : (∃ s', tlsWrite C W E (setTimeout s T) data = (.ok data.length, s')) ∨
      (∃ e s', tlsWrite C W E (setTimeout s T) data = (.exn e, s')) := by
    rcases handleLastError_unlimited hW (setTimeout s T) hT with ⟨s1, h1, _⟩ | ⟨e, s1, h1⟩
    · -- after the gate the call is the call from a state without a cached error
      have hk := handleError_keeps (W := W) (setTimeout s T) (setTimeout s T).g.lastError
      have hl1 : s1.g.lastError = .none ∧ s1.g.pendingSend = s.g.pendingSend := by
        unfold handleLastError at h1
        rcases hh : handleError W (setTimeout s T) (setTimeout s T).g.lastError with ⟨o, s0⟩
        rw [hh] at h1 hk
        cases o with
        | ok b =>
          cases b with
          | true =>
            simp only [Prod.mk.injEq, true_and] at h1
            subst h1
            exact ⟨rfl, hk.1.2.1⟩
          | false => simp at h1
        | exn e => simp at h1
        | abort m => simp at h1
      have heq : tlsWrite C W E (setTimeout s T) data = tlsWrite C W E s1 data := by
        have h2 : handleLastError W s1 = (.ok true, s1) := by
          unfold handleLastError
          rw [hl1.1]
          simp only [handleError]
          congr 1
          cases s1 with
          | mk g e w =>
            cases g
            simp only [setLastError] at hl1 ⊢
            simp_all
        unfold tlsWrite
        rw [h1, h2]
      rw [heq]
      exact tlsWrite_complete C hfix hpos E hE s1 data hl1.1 (by rw [hl1.2]; exact hp)
    · right
      exact ⟨e, s1, by unfold tlsWrite; rw [h1]⟩
  unfold sendT
  rcases key with ⟨s', h⟩ | ⟨e, s', h⟩
  · left
    rw [h]
    simp only
    split <;> exact ⟨_, rfl⟩
  · right; exact ⟨e, s', by rw [h]⟩

/-- **"must not turn timeout >= 0 into < 0"** (wait.h).  For `T ≥ 0`, in EVERY world - whatever its clock does,
backwards included - and for every engine: no wait is ever issued with a negative (= unlimited) argument, and the
budget left behind is non-negative. -/
theorem tls_budget_never_negative (C : Cfg) (W : World ω) (E : Engine σ) (s : LSt σ ω) (T : Int) (hT : 0 ≤ T) :
    (∀ n, 0 ≤ (receiveT C (logWorld W) E s n T).2.g.remainingTime ∧
      ∃ new, logOf (receiveT C (logWorld W) E s n T).2 = new ++ logOf s ∧ ∀ r ∈ new, 0 ≤ r.timeout) ∧
    (∀ data, 0 ≤ (sendT C (logWorld W) E s data T).2.g.remainingTime ∧
      ∃ new, logOf (sendT C (logWorld W) E s data T).2 = new ++ logOf s ∧ ∀ r ∈ new, 0 ≤ r.timeout) := by
  have F := nonnegFrame (σ := σ) W E (logOf s)
  have h0 : NonnegInv (logOf s) (setTimeout s T) := ⟨hT, LogAll.refl _⟩
  exact ⟨fun n => post_same (F.receiveT C s n T h0), fun data => post_same (F.sendT C s data T h0)⟩

/-- what a limited call guarantees, with `t0` the clock at entry: every wait issued has an argument `t` with
`0 ≤ t ≤ T - (clock at that wait - t0)`; the call returns no later than `t0 + T`; the budget left is non-negative;
no callback failure is left stashed; and unless the call ends with an exception the budget left is what is left
of `T` -/
def LimitedOk (W : World ω) (T : Int) (s : LSt σ ω) {α : Type} (r : Out α × LSt σ ω) : Prop :=
  (∃ new, logOf r.2 = new ++ logOf s ∧
    ∀ w ∈ new, 0 ≤ w.timeout ∧ w.timeout ≤ T - (w.before - W.now s.w.1)) ∧
  W.now r.2.w.1 ≤ W.now s.w.1 + T ∧
  0 ≤ r.2.g.remainingTime ∧
  r.2.g.pendingError = none ∧
  ((∃ e, r.1 = .exn e) ∨ r.2.g.remainingTime ≤ T - (W.now r.2.w.1 - W.now s.w.1))

theorem limitedOk_of_post {W : World ω} {T : Int} {s : LSt σ ω} {α : Type} {r : Out α × LSt σ ω}
    (h : Post (LimGood W (W.now s.w.1 + T) (logOf s)) (LimWeak W (W.now s.w.1 + T) (logOf s)) r.1 r.2) :
    LimitedOk W T s r := by
  have conv : ∀ l, LogAll (InBudget (W.now s.w.1 + T)) (logOf s) l →
      ∃ new, l = new ++ logOf s ∧ ∀ w ∈ new, 0 ≤ w.timeout ∧ w.timeout ≤ T - (w.before - W.now s.w.1) := by
    intro l ⟨new, h1, h2⟩
    refine ⟨new, h1, ?_⟩
    intro w hw
    obtain ⟨a, b⟩ := h2 w hw
    exact ⟨a, by omega⟩
  rcases h with ⟨h1, h2, h3, h4⟩ | ⟨⟨h1, h2, h3⟩, h4, e, he⟩
  · exact ⟨conv _ h3, by omega, h1, h4, Or.inr (by omega)⟩
  · exact ⟨conv _ h3, h2, h1, h4, Or.inl ⟨e, he⟩⟩

/-- **(T3) `T > 0`: "blocks no longer than T in total, however many internal waits, partial sends or TLS handshake
rounds it needs".**  Under A-CLOCK (`ClockOk W`: the clock does not run backwards, a wait with argument `t ≥ 0`
comes back after at most `t` ms, `send`/`recv` take no time), for every engine that stops after a failed callback
and never writes zero bytes (A-SSL, `Engine.FailStop`), from every state in which no callback failure is stashed (an
invariant of every call history on such an engine: `no_failure_left_stashed`, and the conclusion here), for every number of rounds (`C.stepsMax` is arbitrary), BIO reads and writes, partial
sends and WANT_READ / WANT_WRITE answers: every wait of `Receive(…, T)` / `Send(…, T)` has an argument `t` with
`0 ≤ t ≤ T - (now at that wait - now at entry)`, hence the call returns no later than entry + T; the budget never
becomes negative. -/
theorem tls_limited_budget (C : Cfg) {W : World ω} (hc : ClockOk W) (E : Engine σ) (hE : E.FailStop) (s : LSt σ ω)
    (hp : s.g.pendingError = none) (T : Int) (hT : 0 < T) :
    (∀ n, LimitedOk W T s (receiveT C (logWorld W) E s n T)) ∧
    (∀ data, LimitedOk W T s (sendT C (logWorld W) E s data T)) := by
  have F := limFrame (σ := σ) hc E hE (W.now s.w.1 + T) (logOf s)
  have h0 : LimGood W (W.now s.w.1 + T) (logOf s) (setTimeout s T) :=
    ⟨Int.le_of_lt hT, Int.le_refl _, LogAll.refl _, hp⟩
  exact ⟨fun n => limitedOk_of_post (F.receiveT C s n T h0), fun data => limitedOk_of_post (F.sendT C s data T h0)⟩

/-- the entry condition of (T3), "no callback failure is stashed", is an invariant of every history of `Receive` /
`Send` calls with ANY timeouts on a socket whose engine is fail-stop: a fresh socket has none, and no call leaves one
behind (it is rethrown by `HandleResult` within the same call) -/
theorem no_failure_left_stashed (C : Cfg) (W : World ω) (E : Engine σ) (hE : E.FailStop) (s : St σ ω)
    (hp : s.g.pendingError = none) :
    (∀ n t, (receiveT C W E s n t).2.g.pendingError = none) ∧ (∀ d t, (sendT C W E s d t).2.g.pendingError = none) := by
  have F := noStashFrame W E hE
  have fin : ∀ {α : Type} {o : Out α} {s' : St σ ω},
      Post (fun s : St σ ω => s.g.pendingError = none) (fun _ => True) o s' → s'.g.pendingError = none := by
    intro α o s' h
    rcases h with h | ⟨_, h, _⟩ <;> exact h
  exact ⟨fun n t => fin (F.receiveT C s n t hp), fun d t => fin (F.sendT C s d t hp)⟩

end SockModel.Tls

namespace SockModel.Tls
open SockModel.Net

/-! ### (T4) the negative counterpart, and why each engine hypothesis is needed

Everything below is about COUNTER-MODELS (`Seeded.*`: the glue with the seeded change; engines that break the
A-SSL hypotheses).  None of it is used by a driver. -/

/-- an engine that reads once from its BIO and, whatever it got, wants more -/
def wantsMoreEngine : Engine Unit where
  sslRead _ n := .bioRead n (fun _ => .ret .wantRead [] ())
  sslWrite _ d := .ret (.done d.length) [] ()
  initFinished _ := true

/-- a fresh socket over the scripted world `w` (Model/TlsBudget.lean: `TW`, a world that satisfies A-CLOCK by
construction; with an empty script nothing ever becomes ready and every wait sits out its timeout), logging from now on -/
def freshOn {σ : Type} (e : σ) (w : TW) : LSt σ TW := withLog { g := {}, e := e, w := w }

/-- the glue as it is, on the history of `seeded_bioRead_doubles_the_wait`: `BioRead` waits `T` and writes the budget
0 back, `HandleError(WANT_READ)` waits 0: the call returns at `T` -/
theorem wantsMore_within_budget (C : Cfg) (hpos : 0 < C.stepsMax) (n : Nat) (T : Int) (hT : 0 < T) :
    (receiveT C (logWorld TW.world) wantsMoreEngine (freshOn () {}) n T).1 = .ok [] ∧
    logOf (receiveT C (logWorld TW.world) wantsMoreEngine (freshOn () {}) n T).2 = [⟨.rd, 0, T⟩, ⟨.rd, T, 0⟩] ∧
    (receiveT C (logWorld TW.world) wantsMoreEngine (freshOn () {}) n T).2.w.1.clock = T := by
  obtain ⟨i, hi⟩ : ∃ i, C.stepsMax = i + 1 := ⟨C.stepsMax - 1, by omega⟩
  have h1 : ¬ (T < 0) := by omega
  have h2 : ¬ (T ≤ 0) := by omega
  simp [receiveT, tlsRead, handleLastError, handleError, setTimeout, freshOn, withLog, hi, readLoop, readRound, interp,
    wantsMoreEngine, bioRead, receive, logWorld, TW.world, TW.elapsed, h1, h2, noteCall, handleResult, SslAns.toErr,
    setLastError, waitUnder, underDeadline, remainingMs, logOf]
  cases C.fixRecvReset <;> simp

/-- **(T4) the seeded change `seeded/C07_r4_agentH` violates (T3).**  `BioRead` without the write-back
(`Seeded.bioRead`), an engine that answers WANT_READ after one BIO read, a world that is never ready: for every
`T > 0` and every receive size, `Receive(…, T)` waits `T` inside `BioRead` and then `T` again in
`HandleError(WANT_READ)` - it returns "nothing" at `2·T`, and the second wait is issued at clock `T` with the
argument `T` although nothing is left of the budget.  (`FailStop`, A-CLOCK and the starting state are as (T3) asks:
see the examples below; `wantsMore_within_budget` is the same history on the glue as it is.) -/
theorem seeded_bioRead_doubles_the_wait (C : Cfg) (hpos : 0 < C.stepsMax) (n : Nat) (T : Int) (hT : 0 < T) :
    (Seeded.receiveT C (logWorld TW.world) wantsMoreEngine (freshOn () {}) n T).1 = .ok [] ∧
    logOf (Seeded.receiveT C (logWorld TW.world) wantsMoreEngine (freshOn () {}) n T).2 = [⟨.rd, T, T⟩, ⟨.rd, T, 0⟩] ∧
    (Seeded.receiveT C (logWorld TW.world) wantsMoreEngine (freshOn () {}) n T).2.w.1.clock = 2 * T ∧
    ¬ LimitedOk TW.world T (freshOn () {}) (Seeded.receiveT C (logWorld TW.world) wantsMoreEngine (freshOn () {}) n T) := by
  obtain ⟨i, hi⟩ : ∃ i, C.stepsMax = i + 1 := ⟨C.stepsMax - 1, by omega⟩
  have h1 : ¬ (T < 0) := by omega
  have h2 : ¬ (T ≤ 0) := by omega
  have hr : Seeded.receiveT C (logWorld TW.world) wantsMoreEngine (freshOn () {}) n T
      = (.ok [], { g := { lastError := if C.fixRecvReset then .none else .wantRead, remainingTime := 0,
                          engCalls := [⟨true, [], .wantRead, true⟩] },
                   e := (), w := ({ clock := T + T }, [⟨.rd, T, T⟩, ⟨.rd, T, 0⟩]) }) := by
    simp [Seeded.receiveT, Seeded.tlsRead, handleLastError, handleError, setTimeout, freshOn, withLog, hi, Seeded.readLoop,
      Seeded.readRound, Seeded.interp, Seeded.bioRead, wantsMoreEngine, bioRead, receive, logWorld, TW.world, TW.elapsed,
      h1, h2, noteCall, handleResult, SslAns.toErr, setLastError, waitUnder, underDeadline, remainingMs]
    cases C.fixRecvReset <;> simp
  rw [hr]
  refine ⟨rfl, rfl, by show T + T = 2 * T; omega, ?_⟩
  intro h
  have := h.2.1
  simp only [freshOn, withLog, TW.world] at this
  omega

end SockModel.Tls

namespace SockModel.Tls
set_option linter.unusedSimpArgs false
open SockModel.Net

/-- an engine that calls its read BIO AGAIN after the callback reported a failure (libssl does not) -/
def retryingEngine : Engine Unit where
  sslRead _ n := .bioRead n (fun r => match r with
    | none => .bioRead n (fun _ => .ret .wantRead [] ())
    | some _ => .ret .wantRead [] ())
  sslWrite _ d := .ret (.done d.length) [] ()
  initFinished _ := true

/-- **`FailStop` is needed (its first half), and the library relies on it.**  `UnderDeadline` does not write the budget
back when the socket call throws (`auto res = fn(); deadline.Tick(); timeout = deadline.Remaining();`).  History:
`Receive(…, 50)`; the descriptor is reported ready after 40 ms (POLLERR), `recv` fails (ECONNRESET), `BioRead` throws,
the failure is stashed and -1 returned; an engine that now calls the read BIO again waits with the STALE budget 50 at
clock 40, sits it out, and the call ends (with the stashed exception) at 90 > 50.  libssl returns at once with
SSL_ERROR_SYSCALL after such a failure, so the real library does not get here; a write-back on the exception path
would make the glue independent of that. -/
theorem stale_budget_after_callback_failure :
    let r := receiveT Cfg.current (logWorld TW.world) retryingEngine
      (freshOn () { waits := [(true, 40)], recvs := [.fail 104] }) 16 50
    r.1 = .exn (.system 104) ∧ logOf r.2 = [⟨.rd, 50, 40⟩, ⟨.rd, 50, 0⟩] ∧ r.2.w.1.clock = 90 ∧
    ¬ Tls.FailStop (retryingEngine.sslRead () 16) := by
  refine ⟨by decide, by decide, by decide, ?_⟩
  intro h
  cases h with
  | bioRead _ hnone =>
    obtain ⟨a, o, s, hk, _⟩ := hnone
    simp at hk

/-- an engine that invokes the write BIO with zero bytes before it reads (`BIO_write` never does: it returns early
for `dlen <= 0`) -/
def emptyWriteEngine : Engine Unit where
  sslRead _ n := .bioWrite [] (fun _ => .bioRead n (fun _ => .ret .wantRead [] ()))
  sslWrite _ d := .ret (.done d.length) [] ()
  initFinished _ := true

/-- **`FailStop` is needed (its second half).**  `BioWrite(data, 0)` with a limited budget: `SendSome` waits for
"writable", times out, `sent == size` holds trivially and `remainingTime = deadline.Remaining()` is computed from a
deadline that was never ticked: the full budget again.  History: `Receive(…, 50)` in a world that is never ready; the
zero-byte write waits 50, the read waits 50 again: the call returns at 100. -/
theorem stale_budget_after_empty_write :
    (receiveT Cfg.current (logWorld TW.world) emptyWriteEngine (freshOn () {}) 16 50).1 = .ok [] ∧
    logOf (receiveT Cfg.current (logWorld TW.world) emptyWriteEngine (freshOn () {}) 16 50).2
      = [⟨.rd, 0, 100⟩, ⟨.rd, 50, 50⟩, ⟨.wr, 50, 0⟩] ∧
    (receiveT Cfg.current (logWorld TW.world) emptyWriteEngine (freshOn () {}) 16 50).2.w.1.clock = 100 ∧
    ¬ Tls.FailStop (emptyWriteEngine.sslRead () 16) := by
  refine ⟨?_, ?_, ?_, ?_⟩
  · simp [emptyWriteEngine, receiveT, sendT, tlsRead, tlsWrite, handleLastError, handleError, setTimeout, freshOn, withLog, readLoop, readRound, writeLoop, writeRound, writeRetry, roundDecreases, setPending, interp, bioRead, bioWrite, noteWrite, Net.sendSome, Net.sendAll, sendTry, sendNow, receive, recvNow, logWorld, TW.world, TW.elapsed, noteCall, handleResult, SslAns.toErr, setLastError, waitUnder, underDeadline, remainingMs, logOf, stash, Cfg.current, stepsMaxConst, SockModel.Consts.handshakeStepsMax]
  · simp [emptyWriteEngine, receiveT, sendT, tlsRead, tlsWrite, handleLastError, handleError, setTimeout, freshOn, withLog, readLoop, readRound, writeLoop, writeRound, writeRetry, roundDecreases, setPending, interp, bioRead, bioWrite, noteWrite, Net.sendSome, Net.sendAll, sendTry, sendNow, receive, recvNow, logWorld, TW.world, TW.elapsed, noteCall, handleResult, SslAns.toErr, setLastError, waitUnder, underDeadline, remainingMs, logOf, stash, Cfg.current, stepsMaxConst, SockModel.Consts.handshakeStepsMax]
  · simp [emptyWriteEngine, receiveT, sendT, tlsRead, tlsWrite, handleLastError, handleError, setTimeout, freshOn, withLog, readLoop, readRound, writeLoop, writeRound, writeRetry, roundDecreases, setPending, interp, bioRead, bioWrite, noteWrite, Net.sendSome, Net.sendAll, sendTry, sendNow, receive, recvNow, logWorld, TW.world, TW.elapsed, noteCall, handleResult, SslAns.toErr, setLastError, waitUnder, underDeadline, remainingMs, logOf, stash, Cfg.current, stepsMaxConst, SockModel.Consts.handshakeStepsMax]
  · intro h
    cases h with
    | bioWrite hne _ _ => exact hne rfl

/-- an engine that answers WANT_READ without having been told "retry" by its BIO -/
def alwaysWantsRead : Engine Unit where
  sslRead _ _ := .ret .wantRead [] ()
  sslWrite _ d := .ret (.done d.length) [] ()
  initFinished _ := false

/-- the `-DNDEBUG` build of the code as it is -/
def Cfg.ndebug : Cfg := { Cfg.current with asserts := false }

/-- **`BlockingRead` is needed.**  What the model (and the code) does when the engine keeps answering WANT_READ under
an unlimited timeout: `HandleError` waits (unlimited, comes back ready) and the loop goes round; after
`handshakeStepsMax` rounds `Read` gives up: `assert(i < handshakeStepsMax)` in builds with assertions, and with
`-DNDEBUG` `Receive(…, -1)` returns `nullopt` - "nothing" although the timeout is unlimited.  (Compare F9, where the
same round limit cut a long `Send` short.)  With OpenSSL this needs WANT_READ from a blocking BIO, which
SSL_MODE_AUTO_RETRY (the default since 1.1.1) rules out. -/
theorem unlimited_receive_needs_blocking_engine :
    (receiveT Cfg.ndebug (logWorld TW.world) alwaysWantsRead (freshOn () {}) 16 (-1)).1 = .ok [] ∧
    (logOf (receiveT Cfg.ndebug (logWorld TW.world) alwaysWantsRead (freshOn () {}) 16 (-1)).2).length = Cfg.current.stepsMax ∧
    (receiveT Cfg.current (logWorld TW.world) alwaysWantsRead (freshOn () {}) 16 (-1)).1
      = .abort "assert(i < handshakeStepsMax) in Read" ∧
    ¬ BlockingRead alwaysWantsRead := by
  refine ⟨by decide, by decide, by decide, ?_⟩
  intro h
  have := h () 16
  cases this with
  | ret hp => exact hp.1 rfl

/-! ### the hypotheses are satisfiable: a scripted world and a two-round engine -/

/-- a small handshake: round 1 writes a hello and reads the reply (WANT_READ until it is there), later rounds read
application data; after a failed callback it answers SSL_ERROR_SYSCALL at once; it never writes zero bytes -/
def twoRoundEngine : Engine Nat where
  sslRead st n :=
    if st = 0 then
      .bioWrite [22, 3, 1] (fun r => match r with
        | none => .ret .syscallErr [] st
        | some _ => .bioRead n (fun r => match r with
          | none => .ret .syscallErr [] st
          | some [] => .ret .wantRead [] st
          | some _ => .ret .wantRead [] 1))
    else
      .bioRead n (fun r => match r with
        | none => .ret .syscallErr [] st
        | some [] => .ret .wantRead [] st
        | some bs => .ret (.done bs.length) bs st)
  sslWrite st d :=
    if d = [] then .ret (.done 0) [] st
    else .bioWrite d (fun r => match r with
      | none => .ret .syscallErr [] st
      | some 0 => .ret .wantWrite [] st
      | some m => .ret (.done m) [] st)
  initFinished st := st != 0

example : twoRoundEngine.FailStop := by
  constructor
  · intro s n
    unfold twoRoundEngine
    simp only
    split
    · refine .bioWrite (by simp) ?_ ⟨_, _, _, rfl, rfl⟩
      intro m
      refine .bioRead ?_ ⟨_, _, _, rfl, rfl⟩
      intro bs; cases bs <;> exact .ret
    · refine .bioRead ?_ ⟨_, _, _, rfl, rfl⟩
      intro bs; cases bs <;> exact .ret
  · intro s d
    unfold twoRoundEngine
    simp only
    split
    · exact .ret
    · rename_i hd
      refine .bioWrite hd ?_ ⟨_, _, _, rfl, rfl⟩
      intro m; cases m <;> exact .ret

example : ClockOk TW.world := TW.clockOk
example : ZeroFree TW.world := TW.clockOk.zeroFree
example : UnlimitedReady TW.world := TW.unlimitedReady
example : BlockingRead idleEngine → False := fun h => by have := h () 0; cases this with | ret hp => exact hp.1 rfl

/-- (T3) at work: `Receive(16 bytes, 50 ms)` through the handshake.  The hello is written (writable after 3 ms), the
reply arrives after 10 more ms; round 1 ends in WANT_READ and `HandleError` waits with what is left, 37 (the
descriptor is ready at once); round 2 reads the application data (ready after 5 ms): four waits with the arguments
50, 47, 37, 37, each within `50 - elapsed`; the call returns at 18 ≤ 50 with the budget 32 left. -/
example :
    (receiveT Cfg.current (logWorld TW.world) twoRoundEngine
      (freshOn 0 { waits := [(true, 3), (true, 10), (true, 0), (true, 5)], recvs := [.data [22, 3, 2], .data [7, 8, 9]] }) 16 50)
    = (.ok [7, 8, 9],
       { g := { remainingTime := 32, wire := [22, 3, 1], bioWrites := [⟨[22, 3, 1], 3⟩],
                engCalls := [⟨true, [], .done 3, true⟩, ⟨true, [], .wantRead, true⟩] },
         e := 1,
         w := ({ clock := 18 }, [⟨.rd, 37, 13⟩, ⟨.rd, 37, 13⟩, ⟨.rd, 47, 3⟩, ⟨.wr, 50, 0⟩]) }) := by
  simp [twoRoundEngine, Int.min_def, receiveT, sendT, tlsRead, tlsWrite, handleLastError, handleError, setTimeout, freshOn, withLog, readLoop, readRound, writeLoop, writeRound, writeRetry, roundDecreases, setPending, interp, bioRead, bioWrite, noteWrite, Net.sendSome, Net.sendAll, sendTry, sendNow, receive, recvNow, logWorld, TW.world, TW.elapsed, noteCall, handleResult, SslAns.toErr, setLastError, waitUnder, underDeadline, remainingMs, logOf, stash, Cfg.current, stepsMaxConst, SockModel.Consts.handshakeStepsMax]

/-- (T1) at work: the same history with timeout 0 - every wait has the argument 0 and the clock does not move -/
example :
    let r := receiveT Cfg.current (logWorld TW.world) twoRoundEngine
      (freshOn 0 { waits := [(true, 3), (false, 10)], recvs := [] }) 16 0
    r.1 = .ok [] ∧ logOf r.2 = [⟨.rd, 0, 0⟩, ⟨.rd, 0, 0⟩, ⟨.wr, 0, 0⟩] ∧ r.2.w.1.clock = 0 := by decide

/-- (T2) at work: unlimited timeout, a short write: `SendAll` waits twice, both times with -1 -/
example :
    logOf (sendT Cfg.current (logWorld TW.world) twoRoundEngine
      (freshOn 1 { waits := [(true, 3), (true, 4)], sends := [.accept 2] }) [1, 2, 3] (-1)).2
      = [⟨.wr, -1, 3⟩, ⟨.wr, -1, 0⟩] ∧
    (sendT Cfg.current (logWorld TW.world) twoRoundEngine
      (freshOn 1 { waits := [(true, 3), (true, 4)], sends := [.accept 2] }) [1, 2, 3] (-1)).1 = .ok 3 := by
  constructor <;> simp [twoRoundEngine, Int.min_def, receiveT, sendT, tlsRead, tlsWrite, handleLastError, handleError, setTimeout, freshOn, withLog, readLoop, readRound, writeLoop, writeRound, writeRetry, roundDecreases, setPending, interp, bioRead, bioWrite, noteWrite, Net.sendSome, Net.sendAll, sendTry, sendNow, receive, recvNow, logWorld, TW.world, TW.elapsed, noteCall, handleResult, SslAns.toErr, setLastError, waitUnder, underDeadline, remainingMs, logOf, stash, Cfg.current, stepsMaxConst, SockModel.Consts.handshakeStepsMax]

end SockModel.Tls

/-! ## the run-time oracle is a theorem of the model -/
namespace SockModel.Tls
open SockModel.Net

/-- **spec_holds_on_model_partial** (`_partial`: the event-by-event clauses; the end-of-case clauses `Spec.specFinal` -
wire format, payload round trip, completion, "a non-TLS peer is reported" - are statements about both engines, the
channel and the schedule, see the comment after `Spec.model_satisfies_spec_partial` in `Spec/C18.lean`).
The predicate `./check C18` (and the TLS slices of `./check C01`, `./check C07`) evaluate event by event on the
implementation's transcript - `Spec.specRun` of `Spec/C18.lean`; the driver calls exactly these functions - accepts
every trace the glue MODEL can produce: for every glue configuration, every kernel with the harness's virtual clock
(`Spec.VClock`), every engine under the contract `Spec.EngOk` (plaintext only after `init_finished` and never from a
non-TLS peer; fail-stop), every fresh pair of endpoints (synchronous / asynchronous / absent, TLS or plain peer) and
every history of any length - `Send` / `Receive` with any timeout, `Send(buffer)` and driver steps with any `poll`
result, in any interleaving - in which no `assert` of the glue fires (a firing assert is a crash, which the predicate
rejects: `example` at the end of `Spec/C18.lean`).  Hence the C07 budget clauses (unlimited / zero / within `T` in
sum), "nothing delivered before the engine answered `done` with the handshake finished", "nothing from a non-TLS peer",
"no empty buffer to the handler", "disconnect handler at most once" and MSG_NOSIGNAL are consequences of the model for
all these histories; a `spec` verdict of these clauses on the implementation is a difference between implementation
and model, and the oracle is never stricter than the model. -/
theorem spec_holds_on_model_partial {σ ω : Type} (V : Spec.Env σ ω) (hW : Spec.VClock V.W) (m0 : Spec.Sys σ ω)
    (hE : Spec.EngOk V.E m0.plain) (h0 : m0.Fresh) (history : List Spec.Op)
    (hna : ∀ o ∈ Spec.modelTrace V m0 history, o.isAbort = false) :
    ∃ s, Spec.specRun {} (Spec.modelTrace V m0 history) = .ok s :=
  Spec.model_satisfies_spec_partial V hW m0 hE h0 history hna

/-- the hypotheses are satisfiable by a non-trivial history (13 operations on a synchronous client and an asynchronous
server, 58 observations; more examples, including traces the predicate rejects, at the end of `Spec/C18.lean`) -/
example : Spec.VClock TW.world := Spec.TW.vclock
example : Spec.EngOk Spec.demoEngine false := Spec.demoEngine_ok

end SockModel.Tls
/-! ## handshake completion beyond the polling schedule

Re-exports of `Props/C18Hs.lean` (statements, hypotheses and examples are documented there): the handshake of the
two-endpoint composition completes under **every** schedule of calls - any order of the two sides' calls, any mix of
`Send` and `Receive`, any receive sizes - as long as no side is starved. -/
namespace SockModel.Hs
open SockModel.Net SockModel.Tls

theorem call_progress (C : Cfg) (hC : 1 < C.stepsMax) (P : HsP) (dc ds : Bytes) (hdc : dc ≠ []) (hds : ds ≠ [])
    (y : Sys) (hinv : SysInv P dc ds y) (a : Act) (ha : a.ok) :
    SysInv P dc ds (y.act C P dc ds a) ∧ (y.act C P dc ds a).faults = 0 ∧
    mu P (y.act C P dc ds a) ≤ mu P y ∧
    (y.canProg a.client → mu P (y.act C P dc ds a) < mu P y) ∧
    y.ec.stage ≤ (y.act C P dc ds a).ec.stage ∧ y.es.stage ≤ (y.act C P dc ds a).es.stage ∧
    (y.canProg (!a.client) → (y.act C P dc ds a).canProg (!a.client)) :=
  C18Hs.call_progress C hC P dc ds hdc hds y hinv a ha

theorem some_side_can_progress (P : HsP) (dc ds : Bytes) (y : Sys) (hinv : SysInv P dc ds y)
    (hnf : ¬ y.bothFinished) : y.canProg true ∨ y.canProg false :=
  C18Hs.some_side_can_progress P dc ds y hinv hnf

theorem schedule_progress (C : Cfg) (hC : 1 < C.stepsMax) (P : HsP) (dc ds : Bytes) (hdc : dc ≠ []) (hds : ds ≠ [])
    (l : List Act) (hok : ∀ a ∈ l, a.ok) (y : Sys) (hinv : SysInv P dc ds y) :
    SysInv P dc ds (Sys.run C P dc ds l y) ∧ (Sys.run C P dc ds l y).faults = 0 ∧
    mu P (Sys.run C P dc ds l y) + progCalls C P dc ds l y ≤ mu P y ∧
    y.ec.stage ≤ (Sys.run C P dc ds l y).ec.stage ∧ y.es.stage ≤ (Sys.run C P dc ds l y).es.stage :=
  C18Hs.schedule_progress C hC P dc ds hdc hds l hok y hinv

theorem handshake_completes_counting (C : Cfg) (hC : 1 < C.stepsMax) (P : HsP) (dc ds : Bytes) (hdc : dc ≠ [])
    (hds : ds ≠ []) (segs : List Nat) (l : List Act) (hok : ∀ a ∈ l, a.ok)
    (hcount : P.total ≤ progCalls C P dc ds l (Sys.init P segs)) :
    (Sys.run C P dc ds l (Sys.init P segs)).bothFinished ∧ (Sys.run C P dc ds l (Sys.init P segs)).faults = 0 :=
  C18Hs.handshake_completes_counting C hC P dc ds hdc hds segs l hok hcount

theorem handshake_completes_prog_fair (C : Cfg) (hC : 1 < C.stepsMax) (P : HsP) (dc ds : Bytes) (hdc : dc ≠ [])
    (hds : ds ≠ []) (segs : List Nat) (w : Nat) (l : List Act) (hok : ∀ a ∈ l, a.ok)
    (hf : ProgFair C P dc ds w l (Sys.init P segs)) (j : Nat) (hj : j ≤ l.length) :
    (Sys.run C P dc ds (l.take j) (Sys.init P segs)).faults = 0 ∧
    (P.total * w ≤ j → (Sys.run C P dc ds (l.take j) (Sys.init P segs)).bothFinished) :=
  C18Hs.handshake_completes_prog_fair C hC P dc ds hdc hds segs w l hok hf j hj

theorem handshake_completes_any_schedule (C : Cfg) (hC : 1 < C.stepsMax) (P : HsP) (dc ds : Bytes) (hdc : dc ≠ [])
    (hds : ds ≠ []) (segs : List Nat) (w : Nat) (l : List Act) (hok : ∀ a ∈ l, a.ok) (hf : SideFair w l)
    (j : Nat) (hj : j ≤ l.length) :
    (Sys.run C P dc ds (l.take j) (Sys.init P segs)).faults = 0 ∧
    (P.total * w ≤ j → (Sys.run C P dc ds (l.take j) (Sys.init P segs)).bothFinished) ∧
    (∀ i, i ≤ j →
      (Sys.run C P dc ds (l.take i) (Sys.init P segs)).ec.stage ≤ (Sys.run C P dc ds (l.take j) (Sys.init P segs)).ec.stage ∧
      (Sys.run C P dc ds (l.take i) (Sys.init P segs)).es.stage ≤ (Sys.run C P dc ds (l.take j) (Sys.init P segs)).es.stage) :=
  C18Hs.handshake_completes_any_schedule C hC P dc ds hdc hds segs w l hok hf j hj

theorem handshake_completes_any_infinite_schedule (C : Cfg) (hC : 1 < C.stepsMax) (P : HsP) (dc ds : Bytes)
    (hdc : dc ≠ []) (hds : ds ≠ []) (segs : List Nat) (w : Nat) (σ : Nat → Act) (hok : ∀ i, (σ i).ok)
    (hf : SideFairInf w σ) (k : Nat) :
    (Sys.runTo C P dc ds σ k (Sys.init P segs)).faults = 0 ∧
    (P.total * w ≤ k → (Sys.runTo C P dc ds σ k (Sys.init P segs)).bothFinished) :=
  C18Hs.handshake_completes_any_infinite_schedule C hC P dc ds hdc hds segs w σ hok hf k

theorem starved_server_never_completes (C : Cfg) (P : HsP) (dc ds : Bytes) (segs : List Nat) (l : List Act)
    (hl : C18Hs.OnlySide true l) :
    (Sys.run C P dc ds l (Sys.init P segs)).es = Hs.init P false ∧
    ¬ (Sys.run C P dc ds l (Sys.init P segs)).bothFinished :=
  C18Hs.starved_server_never_completes C P dc ds segs l hl

theorem starved_client_never_completes (C : Cfg) (P : HsP) (dc ds : Bytes) (segs : List Nat) (l : List Act)
    (hl : C18Hs.OnlySide false l) :
    (Sys.run C P dc ds l (Sys.init P segs)).ec = Hs.init P true ∧
    ¬ (Sys.run C P dc ds l (Sys.init P segs)).bothFinished :=
  C18Hs.starved_client_never_completes C P dc ds segs l hl

/-! ### limited timeouts `T ≥ 0` under virtual time (`chanWorldT`) -/

theorem chanWorldT_clockOk (r : Bool) : ClockOk (chanWorldT r) := C18Hs.chanWorldT_clockOk r

theorem timed_call_is_zero_call {σ : Type} (C : Cfg) (r : Bool) (E : Engine σ) (s : St σ ChanT) (T : Int) (hT : 0 ≤ T) :
    (∀ n, receiveT C (chanWorld r) E (proj s) n 0 =
        ((receiveT C (chanWorldT r) E s n T).1, proj (receiveT C (chanWorldT r) E s n T).2) ∧
      0 ≤ (receiveT C (chanWorldT r) E s n T).2.g.remainingTime ∧
      (receiveT C (chanWorldT r) E s n T).2.w.clock + (receiveT C (chanWorldT r) E s n T).2.g.remainingTime = s.w.clock + T) ∧
    (∀ data, sendT C (chanWorld r) E (proj s) data 0 =
        ((sendT C (chanWorldT r) E s data T).1, proj (sendT C (chanWorldT r) E s data T).2) ∧
      0 ≤ (sendT C (chanWorldT r) E s data T).2.g.remainingTime ∧
      (sendT C (chanWorldT r) E s data T).2.w.clock + (sendT C (chanWorldT r) E s data T).2.g.remainingTime = s.w.clock + T) :=
  C18Hs.timed_call_is_zero_call C r E s T hT

theorem timed_schedule_is_zero_schedule (C : Cfg) (P : HsP) (dc ds : Bytes) (l : List ActT)
    (hT : ∀ a ∈ l, 0 ≤ a.timeout) (y : SysT) :
    (SysT.run C P dc ds l y).untimed = Sys.run C P dc ds (l.map ActT.act) y.untimed ∧
    (SysT.run C P dc ds l y).clock ≤ y.clock + budgetSum l :=
  C18Hs.timed_schedule_is_zero_schedule C P dc ds l hT y

theorem handshake_completes_any_timeouts (C : Cfg) (hC : 1 < C.stepsMax) (P : HsP) (dc ds : Bytes) (hdc : dc ≠ [])
    (hds : ds ≠ []) (segs : List Nat) (w : Nat) (l : List ActT) (hok : ∀ a ∈ l, a.act.ok)
    (hT : ∀ a ∈ l, 0 ≤ a.timeout) (hf : SideFair w (l.map ActT.act)) (j : Nat) (hj : j ≤ l.length) :
    (SysT.run C P dc ds (l.take j) (SysT.init P segs)).faults = 0 ∧
    (P.total * w ≤ j → (SysT.run C P dc ds (l.take j) (SysT.init P segs)).bothFinished) ∧
    (SysT.run C P dc ds (l.take j) (SysT.init P segs)).clock ≤ budgetSum (l.take j) :=
  C18Hs.handshake_completes_any_timeouts C hC P dc ds hdc hds segs w l hok hT hf j hj

/-! ### an unlimited timeout on one side, the other side polls (`blockWorld`) -/

theorem blocked_wait_is_released (C : Cfg) (hC : 1 < C.stepsMax) (P : HsP) (u : Bool) (dc ds : Bytes) (hdc : dc ≠ [])
    (hds : ds ≠ []) (T : Int) (hT : T < 0) (g : Glue) (h : Hs) (w : PeerW)
    (hinv : SysInv P dc ds (mkSys u g h w)) (hok : ProgOk w) (hs : h.stage < 3) (hr : h.writes = false)
    (hen : Enough P w) :
    ((blockWorld C P u dc ds).wait w .rd T).1 = true ∧ 0 < ((blockWorld C P u dc ds).wait w .rd T).2.ch.inb u ∧
    SysInv P dc ds (mkSys u g h ((blockWorld C P u dc ds).wait w .rd T).2) ∧
    ProgOk ((blockWorld C P u dc ds).wait w .rd T).2 ∧ Enough P ((blockWorld C P u dc ds).wait w .rd T).2 :=
  C18Hs.blocked_wait_is_released C hC P u dc ds hdc hds T hT g h w hinv hok hs hr hen

theorem unlimited_send_completes_handshake (C : Cfg) (hC : 1 < C.stepsMax) (P : HsP) (u : Bool) (dc ds : Bytes)
    (hdc : dc ≠ []) (hds : ds ≠ []) (T : Int) (hT : T < 0) (s : St Hs PeerW) (hr : ReadyU (ownPay u dc ds) s)
    (hinv : SysInv P dc ds (mkSys u s.g s.e s.w)) (hok : ProgOk s.w) (hen : s.e.stage < 3 → Enough P s.w) :
    ∃ s', sendT C (blockWorld C P u dc ds) (engine P) s (ownPay u dc ds) T = (.ok (ownPay u dc ds).length, s') ∧
      ReadyU (ownPay u dc ds) s' ∧ SysInv P dc ds (mkSys u s'.g s'.e s'.w) ∧ ProgOk s'.w ∧ 3 ≤ s'.e.stage ∧
      work P s'.w.e ≤ work P s.w.e ∧ s.w.e.stage ≤ s'.w.e.stage :=
  C18Hs.unlimited_send_completes_handshake C hC P u dc ds hdc hds T hT s hr hinv hok hen

theorem unlimited_receive_completes_handshake (C : Cfg) (hC : 1 < C.stepsMax) (P : HsP) (u : Bool) (dc ds : Bytes)
    (hdc : dc ≠ []) (hds : ds ≠ []) (T : Int) (hT : T < 0) (n : Nat) (hn : 1 ≤ n) (s : St Hs PeerW)
    (hr : ReadyU (ownPay u dc ds) s) (hinv : SysInv P dc ds (mkSys u s.g s.e s.w)) (hok : ProgOk s.w)
    (hen : s.e.stage < 3 → Enough P s.w) :
    SysInv P dc ds (mkSys u (receiveT C (blockWorld C P u dc ds) (engine P) s n T).2.g
      (receiveT C (blockWorld C P u dc ds) (engine P) s n T).2.e (receiveT C (blockWorld C P u dc ds) (engine P) s n T).2.w) ∧
    3 ≤ (receiveT C (blockWorld C P u dc ds) (engine P) s n T).2.e.stage ∧
    ((receiveT C (blockWorld C P u dc ds) (engine P) s n T).2.w.prog = [] ∨
     (∃ out, (receiveT C (blockWorld C P u dc ds) (engine P) s n T).1 = .ok out ∧ out ≠ [] ∧
        ReadyU (ownPay u dc ds) (receiveT C (blockWorld C P u dc ds) (engine P) s n T).2)) :=
  C18Hs.unlimited_receive_completes_handshake C hC P u dc ds hdc hds T hT n hn s hr hinv hok hen

theorem handshake_completes_one_side_unlimited (C : Cfg) (hC : 1 < C.stepsMax) (P : HsP) (u : Bool) (dc ds : Bytes)
    (hdc : dc ≠ []) (hds : ds ≠ []) (T : Int) (hT : T < 0) (segs : List Nat) (prog : List Kind)
    (hprog : ∀ k ∈ prog, k.ok) (pre post : List ActU) (kb : Kind) (hpre : ∀ a ∈ pre, a = .poll) (hkb : kb.ok)
    (hpost : ∀ a ∈ post, a.okU) (hlen : pre.length + P.half ≤ prog.length) :
    SysInv P dc ds (mkSys u (SysU.run C P u dc ds T (pre ++ .block kb :: post) (SysU.init P u segs prog)).g
      (SysU.run C P u dc ds T (pre ++ .block kb :: post) (SysU.init P u segs prog)).e
      (SysU.run C P u dc ds T (pre ++ .block kb :: post) (SysU.init P u segs prog)).w) ∧
    3 ≤ (SysU.run C P u dc ds T (pre ++ .block kb :: post) (SysU.init P u segs prog)).e.stage ∧
    ((SysU.run C P u dc ds T (pre ++ .block kb :: post) (SysU.init P u segs prog)).w.prog ≠ [] →
      (SysU.run C P u dc ds T (pre ++ .block kb :: post) (SysU.init P u segs prog)).faults = 0 ∧
      (P.half ≤ polls post →
        3 ≤ (SysU.run C P u dc ds T (pre ++ .block kb :: post) (SysU.init P u segs prog)).w.e.stage)) :=
  C18Hs.handshake_completes_one_side_unlimited C hC P u dc ds hdc hds T hT segs prog hprog pre post kb hpre hkb hpost hlen

theorem blocking_side_must_call (C : Cfg) (hC : 1 < C.stepsMax) (P : HsP) (u : Bool) (dc ds : Bytes)
    (hdc : dc ≠ []) (hds : ds ≠ []) (T : Int) (hT : T < 0) (segs : List Nat) (prog : List Kind)
    (hprog : ∀ k ∈ prog, k.ok) (pre : List ActU) (hpre : ∀ a ∈ pre, a = .poll) :
    (SysU.run C P u dc ds T pre (SysU.init P u segs prog)).e = Hs.init P u ∧
    ¬ 3 ≤ (SysU.run C P u dc ds T pre (SysU.init P u segs prog)).e.stage :=
  C18Hs.blocking_side_must_call C hC P u dc ds hdc hds T hT segs prog hprog pre hpre

theorem peer_never_faults (P : HsP) (u : Bool) (dc ds : Bytes) (g : Glue) (h : Hs) (w : PeerW)
    (hinv : SysInv P dc ds (mkSys u g h w)) : w.faults = 0 :=
  C18Hs.peer_never_faults P u dc ds g h w hinv

/-! ### an asynchronous (driver-operated) server and a polling synchronous client -/

theorem deemed_flags_are_harmless {σ : Type} (C : Cfg) (r : Bool) (E : Engine σ) (s : St σ Chan) (hfl : Fl r s) :
    (∀ n, tlsRead C (chanWorld r) E (nf s) n = ((tlsRead C (chanWorld r) E s n).1, nf (tlsRead C (chanWorld r) E s n).2)) ∧
    (∀ d, tlsWrite C (chanWorld r) E (nf s) d = ((tlsWrite C (chanWorld r) E s d).1, nf (tlsWrite C (chanWorld r) E s d).2)) :=
  C18Hs.deemed_flags_are_harmless C r E s hfl

theorem readable_task_progress (C : Cfg) (hC : 0 < C.stepsMax) (P : HsP) (r : Bool) (data : Bytes) (rx : Nat)
    (hrx : 1 ≤ rx) (s : St Hs Chan) (hi : SideInv P r data (nf s)) (hin : 0 < s.w.inb r) :
    ∃ bs s', receiveReadable C (chanWorld r) (engine P) s rx = (.ok bs, s') ∧ SideInv P r data (nf s') ∧
      Tr P r s.e s.w s'.e s'.w ∧ (CanProg r s.e s.w → work P s'.e < work P s.e) ∧ Tight (nf s') ∧
      (3 ≤ s'.e.stage → s'.g.lastError = .none) :=
  C18Hs.readable_task_progress C hC P r data rx hrx s hi hin

theorem handshake_completes_async_server (C : Cfg) (hC : 1 < C.stepsMax) (P : HsP) (dc ds : Bytes) (hdc : dc ≠ [])
    (rx : Nat) (hrx : 1 ≤ rx) (segs : List Nat) (w : Nat) (l : List ActA) (hok : ∀ a ∈ l, a.okA)
    (hf : C18Hs.AFair w l) (j : Nat) (hj : j ≤ l.length) :
    (SysAS.run C P dc rx (l.take j) (SysAS.init P segs)).faults = 0 ∧
    (SysAS.run C P dc rx (l.take j) (SysAS.init P segs)).x.a.pollOut = false ∧
    (P.total * w ≤ j → (SysAS.run C P dc rx (l.take j) (SysAS.init P segs)).bothFinished) :=
  C18Hs.handshake_completes_async_server C hC P dc ds hdc rx hrx segs w l hok hf j hj

theorem undriven_server_never_completes (C : Cfg) (P : HsP) (dc : Bytes) (rx : Nat) (segs : List Nat) (l : List ActA)
    (hl : ∀ a ∈ l, a ≠ ActA.drive) :
    (SysAS.run C P dc rx l (SysAS.init P segs)).x.s.e = Hs.init P false ∧
    ¬ (SysAS.run C P dc rx l (SysAS.init P segs)).bothFinished :=
  C18Hs.undriven_server_never_completes C P dc rx segs l hl

/-! ### an asynchronous endpoint of either role with a send queue (readable AND writable tasks, `POLLOUT` protocol) -/

theorem readable_task_clears_flag (C : Cfg) (hC : 0 < C.stepsMax) (P : HsP) (r : Bool) (rx : Nat) (s : St Hs Chan)
    (hw : WF P s.e) (hle : s.g.lastError = .none ∨ s.g.lastError = .wantRead) :
    (receiveReadable C (chanWorld r) (engine P) s rx).2.g.isReadable = false :=
  C18Hs.readable_task_clears_flag C hC P r rx s hw hle

theorem writable_task_progress (C : Cfg) (hC : 1 < C.stepsMax) (P : HsP) (r : Bool) (buf : Bytes) (hb : buf ≠ [])
    (s : St Hs Chan) (hi : SideInv P r buf (nf s)) (hir : s.g.isReadable = false) :
    ∃ k s', sendSomeWritable C (chanWorld r) (engine P) s buf = (.ok k, s') ∧ SideInv P r buf (nf s') ∧
      Tr P r s.e s.w s'.e s'.w ∧ (CanProg r s.e s.w → work P s'.e < work P s.e) ∧ Tight (nf s') ∧
      s'.g.isReadable = false ∧
      ((k = buf.length ∧ 3 ≤ s'.e.stage ∧ s'.g.lastError = .none ∧ s'.g.pendingSend = []) ∨ k = 0) :=
  C18Hs.writable_task_progress C hC P r buf hb s hi hir

theorem handshake_completes_async_endpoint (C : Cfg) (hC : 1 < C.stepsMax) (P : HsP) (u : Bool) (dc ds : Bytes)
    (hdc : dc ≠ []) (hds : ds ≠ []) (rx : Nat) (hrx : 1 ≤ rx) (segs : List Nat) (q : List Bytes)
    (hq : ∀ b ∈ q, b ≠ []) (hfed : u = true → q ≠ []) (w : Nat) (l : List ActG) (hok : ∀ a ∈ l, a.okG)
    (hf : C18Hs.GFair w l) (j : Nat) (hj : j ≤ l.length) :
    (SysAG.run C P u dc ds rx (l.take j) (SysAG.init P u segs q)).faults = 0 ∧
    ((SysAG.run C P u dc ds rx (l.take j) (SysAG.init P u segs q)).x.a.sendQ ≠ [] ↔
      ((SysAG.run C P u dc ds rx (l.take j) (SysAG.init P u segs q)).x.a.pollOut = true ∨
       (SysAG.run C P u dc ds rx (l.take j) (SysAG.init P u segs q)).x.s.g.driverSendSuppressed = true)) ∧
    (P.total * w ≤ j → (SysAG.run C P u dc ds rx (l.take j) (SysAG.init P u segs q)).bothFinished) :=
  C18Hs.handshake_completes_async_endpoint C hC P u dc ds hdc hds rx hrx segs q hq hfed w l hok hf j hj

end SockModel.Hs


/-! ## "after which ... C15 hold unchanged": the orderly close of a TLS socket reads what the peer has sent  (DESIGN.md §0.22)

`Shutdown()` is what the destructor runs.  Closing a TCP descriptor with unread input makes the kernel answer with a reset
and discard what is still queued for sending - bytes earlier `Send` calls reported as sent (C15: "the complete stream for an
orderly close").  So whenever the first `SSL_shutdown` does not report both alerts as exchanged - in particular when it FAILS
because the alert cannot be written through a congested connection - the input has to be read before the descriptor goes. -/
namespace SockModel.Tls
open SockModel.Net

variable {σ ω : Type}

/-- For every engine, every world and every state: `Shutdown()` starts its engine calls with a budget of one second and no
stale readiness; if the first `SSL_shutdown` reports the exchange as complete nothing else happens; otherwise, and unless
an exception ends it, it performs `reads` calls of `SSL_read` (and nothing else that the engine-call log records) with
`1 ≤ reads ≤ handshakeStepsMax`, and it stops reading before the round limit only when the newest `SSL_read` delivered
NOTHING (end of stream, or a failure `HandleResult` gives up on: budget used up, nothing more arrived) - every delivery is
followed by another read. -/
theorem shutdown_reads_before_close (C : Cfg) (hC : 0 < C.stepsMax) (W : World ω) (E : Engine σ) (s : St σ ω) :
    (shutdownPrep s).g.remainingTime = 1000 ∧ (shutdownPrep s).g.isReadable = false ∧ (shutdownPrep s).g.isWritable = false ∧
    (∀ ans s1, shutCall W E (shutdownPrep s) = (.ok ans, s1) →
      (ans.shutDone = true → tlsShutdown C W E s = (.ok (), s1)) ∧
      (ans.shutDone = false → (tlsShutdown C W E s).1 = .ok () →
        ∃ reads : List EngCall, (tlsShutdown C W E s).2.g.engCalls = reads ++ s.g.engCalls ∧
          reads ≠ [] ∧ reads.length ≤ C.stepsMax ∧ (∀ c ∈ reads, c.isRead = true ∧ c.arg = []) ∧
          (reads.length < C.stepsMax → ∃ c rest, reads = c :: rest ∧ c.ans.isDone = false))) := by
  refine ⟨rfl, rfl, rfl, ?_⟩
  intro ans s1 h1
  have hk : s1.g.engCalls = s.g.engCalls := by
    have := shutCall_keeps (W := W) E (shutdownPrep s)
    rw [h1] at this
    exact this
  constructor
  · intro hd
    simp [tlsShutdown, h1, hd]
  · intro hd hok
    simp only [tlsShutdown, h1, hd] at hok ⊢
    obtain ⟨reads, e1, e2, e3, e4, e5⟩ := drainLoop_drains (W := W) E C.stepsMax s1 hok
    exact ⟨reads, by rw [← hk]; simpa using e1, e4 hC, e2, e3, e5⟩

/-- the hypotheses are met, and the drain is real: an engine whose `SSL_shutdown` fails (the alert cannot be written)
and that holds two records of unread input has BOTH read before the end of stream is seen - three `SSL_read` calls. -/
example :
    let E : Engine Nat :=
      { sslRead := fun n _ => if n = 0 then .ret .zeroReturn [] 0 else .ret (.done 1) [7] (n - 1),
        sslWrite := fun n _ => .ret .sslErr [] n,
        initFinished := fun _ => true,
        sslShutdown := fun n => .ret .sslErr [] n }
    let W : World Unit := { now := fun _ => 0, wait := fun w _ _ => (false, w), send := fun w _ => (.fail 32, w),
                            recv := fun w _ => (.fail 104, w) }
    let s : St Nat Unit := { g := {}, e := 2, w := () }
    (tlsShutdown Cfg.current W E s).1 = .ok () ∧ (tlsShutdown Cfg.current W E s).2.e = 0 ∧
    ((tlsShutdown Cfg.current W E s).2.g.engCalls.map (·.ans)) = [.zeroReturn, .done 1, .done 1] := by
  decide

end SockModel.Tls

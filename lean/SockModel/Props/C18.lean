import SockModel.Model.Tls
namespace SockModel.Tls
/-- placeholder while the pipeline is brought up -/
theorem stub_toErr_done (k : Nat) : (SslAns.done k).toErr = .none := rfl
end SockModel.Tls

import SockModel.Model.LocksLemmas
/-! Executable form of the transition relation (for the trace validator of C04/C05/C08) and its
soundness: whatever the validator accepts is a path of `Tr`, hence stays inside `Reach`. -/
namespace SockModel.Locks

/-- names of the transitions -/
inductive L where
  | dRunEnter | dRunExit | dRunGo | dStepEnter | dLockStep | dToPoll | dPollPipe | dPollOther
  | dUnlockStep | dLockPause | dUnlockPause | dStop
  | uTryOk (t : Tid) | uTryFail (t : Tid) | uLockPause (t : Tid) | uBump (t : Tid) | uLockStep (t : Tid)
  | uRelPause (t : Tid) | uUnlock (t : Tid) | uStopSet (t : Tid) | uStopBump (t : Tid)
  deriving Repr

def DPc.run? : DPc → Bool
  | .wantStep r | .inStep r | .atPoll r | .woke r | .wantPause r | .holdPause r => r
  | _ => false

/-- fire transition `l` if it is enabled -/
def apply (s : St) : L → Option St
  | .dRunEnter => if s.d = .idle then some { s with d := .r0 } else none
  | .dRunExit => if s.d = .r0 ∧ s.stop = true then some { s with stop := false, d := .idle, runs := s.runs + 1 } else none
  | .dRunGo => if s.d = .r0 ∧ s.stop = false then some { s with d := .wantStep true } else none
  | .dStepEnter => if s.d = .idle then some { s with d := .wantStep false } else none
  | .dLockStep =>
    match s.d with
    | .wantStep r => if s.step = .none then some { s with step := .drv, d := .inStep r } else none
    | _ => none
  | .dToPoll => match s.d with | .inStep r => some { s with d := .atPoll r } | _ => none
  | .dPollPipe =>
    match s.d with
    | .atPoll r => if 0 < s.pipe then some { s with pipe := s.pipe - 1, d := .woke r } else none
    | _ => none
  | .dPollOther =>
    match s.d with
    | .atPoll r => if s.pipe = 0 then some { s with d := .woke r } else none
    | _ => none
  | .dUnlockStep => match s.d with | .woke r => some { s with step := .none, d := .wantPause r } | _ => none
  | .dLockPause =>
    match s.d with
    | .wantPause r => if s.pause = .none then some { s with pause := .drv, d := .holdPause r } else none
    | _ => none
  | .dUnlockPause =>
    match s.d with
    | .holdPause r => some { s with pause := .none, d := if r then .r0 else .idle }
    | _ => none
  | .dStop => some { s with stop := true, pipe := s.pipe + 1, stops := s.stops + 1 }
  | .uTryOk t => if s.u t = .idle ∧ s.step = .none then some ({ s with step := .usr t }.setU t .crit) else none
  | .uTryFail t => if s.u t = .idle ∧ s.step ≠ .none then some (s.setU t .wantPause) else none
  | .uLockPause t => if s.u t = .wantPause ∧ s.pause = .none then some ({ s with pause := .usr t }.setU t .bump) else none
  | .uBump t => if s.u t = .bump then some ({ s with pipe := s.pipe + 1 }.setU t .waitStep) else none
  | .uLockStep t => if s.u t = .waitStep ∧ s.step = .none then some ({ s with step := .usr t }.setU t .relPause) else none
  | .uRelPause t => if s.u t = .relPause then some ({ s with pause := .none }.setU t .crit) else none
  | .uUnlock t => if s.u t = .crit then some ({ s with step := .none }.setU t .idle) else none
  | .uStopSet t => if s.u t = .idle then some ({ s with stop := true }.setU t .stopBump) else none
  | .uStopBump t => if s.u t = .stopBump then some ({ s with pipe := s.pipe + 1, stops := s.stops + 1 }.setU t .idle) else none

theorem apply_sound {s s' : St} {l : L} (h : apply s l = some s') : ∃ b, Tr s b s' := by
  cases l with
  | dRunEnter => simp only [apply] at h; split at h <;> cases h; exact ⟨_, Tr.dRunEnter (by assumption)⟩
  | dRunExit => simp only [apply] at h; split at h <;> cases h; rename_i hc; exact ⟨_, Tr.dRunExit hc.1 hc.2⟩
  | dRunGo => simp only [apply] at h; split at h <;> cases h; rename_i hc; exact ⟨_, Tr.dRunGo hc.1 hc.2⟩
  | dStepEnter => simp only [apply] at h; split at h <;> cases h; exact ⟨_, Tr.dStepEnter (by assumption)⟩
  | dLockStep =>
    simp only [apply] at h; split at h
    · split at h <;> cases h; rename_i r hd hs; exact ⟨_, Tr.dLockStep hd hs⟩
    · cases h
  | dToPoll => simp only [apply] at h; split at h <;> cases h; rename_i r hd; exact ⟨_, Tr.dToPoll hd⟩
  | dPollPipe =>
    simp only [apply] at h; split at h
    · split at h <;> cases h; rename_i r hd hp; exact ⟨_, Tr.dPollPipe hd hp⟩
    · cases h
  | dPollOther =>
    simp only [apply] at h; split at h
    · split at h <;> cases h; rename_i r hd hp; exact ⟨_, Tr.dPollOther hd hp⟩
    · cases h
  | dUnlockStep => simp only [apply] at h; split at h <;> cases h; rename_i r hd; exact ⟨_, Tr.dUnlockStep hd⟩
  | dLockPause =>
    simp only [apply] at h; split at h
    · split at h <;> cases h; rename_i r hd hp; exact ⟨_, Tr.dLockPause hd hp⟩
    · cases h
  | dUnlockPause => simp only [apply] at h; split at h <;> cases h; rename_i r hd; exact ⟨_, Tr.dUnlockPause hd⟩
  | dStop => simp only [apply] at h; cases h; exact ⟨_, Tr.dStop⟩
  | uTryOk t => simp only [apply] at h; split at h <;> cases h; rename_i hc; exact ⟨_, Tr.uTryOk hc.1 hc.2⟩
  | uTryFail t => simp only [apply] at h; split at h <;> cases h; rename_i hc; exact ⟨_, Tr.uTryFail hc.1 hc.2⟩
  | uLockPause t => simp only [apply] at h; split at h <;> cases h; rename_i hc; exact ⟨_, Tr.uLockPause hc.1 hc.2⟩
  | uBump t => simp only [apply] at h; split at h <;> cases h; exact ⟨_, Tr.uBump (by assumption)⟩
  | uLockStep t => simp only [apply] at h; split at h <;> cases h; rename_i hc; exact ⟨_, Tr.uLockStep hc.1 hc.2⟩
  | uRelPause t => simp only [apply] at h; split at h <;> cases h; exact ⟨_, Tr.uRelPause (by assumption)⟩
  | uUnlock t => simp only [apply] at h; split at h <;> cases h; exact ⟨_, Tr.uUnlock (by assumption)⟩
  | uStopSet t => simp only [apply] at h; split at h <;> cases h; exact ⟨_, Tr.uStopSet (by assumption)⟩
  | uStopBump t => simp only [apply] at h; split at h <;> cases h; exact ⟨_, Tr.uStopBump (by assumption)⟩

/-- fire a list of transitions -/
def applyAll (s : St) : List L → Option St
  | [] => some s
  | l :: ls => match apply s l with | some s' => applyAll s' ls | none => none

/-- the validator never leaves the reachable states the theorems are about -/
theorem applyAll_reach {s s' : St} {ls : List L} (hr : Reach s) (h : applyAll s ls = some s') : Reach s' := by
  induction ls generalizing s with
  | nil => simp only [applyAll] at h; cases h; exact hr
  | cons l ls ih =>
    simp only [applyAll] at h
    cases ha : apply s l with
    | none => rw [ha] at h; cases h
    | some s1 =>
      rw [ha] at h
      obtain ⟨b, tr⟩ := apply_sound ha
      exact ih (Reach.step hr tr) h

end SockModel.Locks

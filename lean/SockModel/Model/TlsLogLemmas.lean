import SockModel.Model.TlsLog
import SockModel.Model.TlsLemmas
/-!
The logging world is transparent: running any function of the TLS glue model on `logWorld W` and then
forgetting the log (`unlog`) is the same as running it on `W` from the unlogged state.
-/
namespace SockModel.Tls
open SockModel.Net
variable {σ ω : Type}
set_option linter.unusedSimpArgs false

/-! ### socket layer -/

def RecvRes.unlog : RecvRes (ω × List WaitRec) → RecvRes ω
  | .got bs w => .got bs w.1
  | .nothing w => .nothing w.1
  | .exn e w => .exn e w.1

def SendRes.unlog (r : SendRes (ω × List WaitRec)) : SendRes ω := ⟨r.sent, r.exn, r.w.1⟩

@[simp] theorem SendRes.unlog_sent (r : SendRes (ω × List WaitRec)) : (SendRes.unlog r).sent = r.sent := rfl
@[simp] theorem SendRes.unlog_exn (r : SendRes (ω × List WaitRec)) : (SendRes.unlog r).exn = r.exn := rfl
@[simp] theorem SendRes.unlog_w (r : SendRes (ω × List WaitRec)) : (SendRes.unlog r).w = r.w.1 := rfl

theorem logWorld_send_eq (W : World ω) (x : ω × List WaitRec) (bs : Bytes) :
    (logWorld W).send x bs = ((W.send x.1 bs).1, ((W.send x.1 bs).2, x.2)) := rfl
theorem logWorld_recv_eq (W : World ω) (x : ω × List WaitRec) (n : Nat) :
    (logWorld W).recv x n = ((W.recv x.1 n).1, ((W.recv x.1 n).2, x.2)) := rfl
theorem logWorld_wait_eq (W : World ω) (x : ω × List WaitRec) (d : Dir) (t : Int) :
    (logWorld W).wait x d t = ((W.wait x.1 d t).1, ((W.wait x.1 d t).2, ⟨d, t, W.now x.1⟩ :: x.2)) := rfl

theorem sendNow_unlog (W : World ω) (x : ω × List WaitRec) (bs : Bytes) :
    SendRes.unlog (sendNow (logWorld W) x bs) = sendNow W x.1 bs := by
  unfold sendNow
  rw [logWorld_send_eq]
  rcases h : W.send x.1 bs with ⟨a, w'⟩
  cases a with
  | fail e => rfl
  | accept k =>
    simp only
    split <;> rfl

theorem recvNow_unlog (W : World ω) (x : ω × List WaitRec) (n : Nat) :
    RecvRes.unlog (recvNow (logWorld W) x n) = recvNow W x.1 n := by
  unfold recvNow
  rw [logWorld_recv_eq]
  rcases h : W.recv x.1 n with ⟨a, w'⟩
  cases a with
  | fail e => rfl
  | data bs =>
    simp only
    split <;> rfl

theorem receive_unlog (W : World ω) (x : ω × List WaitRec) (n : Nat) (t : Int) :
    RecvRes.unlog (receive (logWorld W) x n t) = receive W x.1 n t := by
  unfold receive
  rw [logWorld_wait_eq]
  rcases h : W.wait x.1 .rd t with ⟨a, w'⟩
  cases a with
  | false => rfl
  | true => exact recvNow_unlog W _ n

theorem sendAll_unlog (W : World ω) (x : ω × List WaitRec) (bs : Bytes) (acc : Nat) :
    SendRes.unlog (sendAll (logWorld W) x bs acc) = sendAll W x.1 bs acc := by
  fun_induction Net.sendAll (logWorld W) x bs acc with
  | case1 x bs acc r hx =>
    have hr : sendNow W (W.wait x.1 .wr (-1)).2 bs = SendRes.unlog r := (sendNow_unlog W ((logWorld W).wait x .wr (-1)).2 bs).symm
    rw [Net.sendAll]
    simp only [hr, SendRes.unlog_exn, SendRes.unlog_sent, SendRes.unlog_w, hx, if_true]
    rfl
  | case2 x bs acc r hx hrest =>
    have hr : sendNow W (W.wait x.1 .wr (-1)).2 bs = SendRes.unlog r := (sendNow_unlog W ((logWorld W).wait x .wr (-1)).2 bs).symm
    rw [Net.sendAll]
    simp only [hr, SendRes.unlog_exn, SendRes.unlog_sent, SendRes.unlog_w, hx, hrest, dite_true]
    rfl
  | case3 x bs acc r hx hrest hpos ih =>
    have hr : sendNow W (W.wait x.1 .wr (-1)).2 bs = SendRes.unlog r := (sendNow_unlog W ((logWorld W).wait x .wr (-1)).2 bs).symm
    rw [ih]
    conv => rhs; rw [Net.sendAll]
    simp only [hr, SendRes.unlog_exn, SendRes.unlog_sent, SendRes.unlog_w, hx, hrest, hpos, dite_true, dite_false]
    rfl
  | case4 x bs acc r hx hrest hpos =>
    have hr : sendNow W (W.wait x.1 .wr (-1)).2 bs = SendRes.unlog r := (sendNow_unlog W ((logWorld W).wait x .wr (-1)).2 bs).symm
    rw [Net.sendAll]
    simp only [hr, SendRes.unlog_exn, SendRes.unlog_sent, SendRes.unlog_w, hx, hrest, hpos, dite_false]
    rfl

theorem sendTry_unlog (W : World ω) (x : ω × List WaitRec) (bs : Bytes) :
    SendRes.unlog (sendTry (logWorld W) x bs) = sendTry W x.1 bs := by
  unfold sendTry
  rw [logWorld_wait_eq]
  rcases h : W.wait x.1 .wr 0 with ⟨a, w'⟩
  cases a with
  | false => rfl
  | true => exact sendNow_unlog W _ bs

/-- forget the log in the result of `sendSome` -/
def unlogS (p : SendRes (ω × List WaitRec) × Int) : SendRes ω × Int := (SendRes.unlog p.1, p.2)

theorem sendSome_unlog (W : World ω) (x : ω × List WaitRec) (bs : Bytes) (dl tick : Int) (acc : Nat) :
    unlogS (sendSome (logWorld W) x bs dl tick acc) = sendSome W x.1 bs dl tick acc := by
  fun_induction Net.sendSome (logWorld W) x bs dl tick acc with
  | case1 x bs tick acc wt hw =>
    have hw' : (W.wait x.1 .wr (remainingMs dl tick)).1 = false := hw
    rw [Net.sendSome]
    simp only [hw', if_true]
    rfl
  | case2 x bs tick acc wt hw tick' r hx =>
    have hw' : ¬ (W.wait x.1 .wr (remainingMs dl tick)).1 = false := hw
    have hr : sendNow W (W.wait x.1 .wr (remainingMs dl tick)).2 bs = SendRes.unlog r :=
      (sendNow_unlog W ((logWorld W).wait x .wr (remainingMs dl tick)).2 bs).symm
    rw [Net.sendSome]
    simp only [hw', if_false, hr, SendRes.unlog_exn, SendRes.unlog_sent, SendRes.unlog_w, hx, if_true]
    rfl
  | case3 x bs tick acc wt hw tick' r hx hrest =>
    have hw' : ¬ (W.wait x.1 .wr (remainingMs dl tick)).1 = false := hw
    have hr : sendNow W (W.wait x.1 .wr (remainingMs dl tick)).2 bs = SendRes.unlog r :=
      (sendNow_unlog W ((logWorld W).wait x .wr (remainingMs dl tick)).2 bs).symm
    rw [Net.sendSome]
    simp only [hw', if_false, hr, SendRes.unlog_exn, SendRes.unlog_sent, SendRes.unlog_w, hx, hrest, dite_true]
    rfl
  | case4 x bs tick acc wt hw tick' r hx hrest hlt hpos ih =>
    have hw' : ¬ (W.wait x.1 .wr (remainingMs dl tick)).1 = false := hw
    have hr : sendNow W (W.wait x.1 .wr (remainingMs dl tick)).2 bs = SendRes.unlog r :=
      (sendNow_unlog W ((logWorld W).wait x .wr (remainingMs dl tick)).2 bs).symm
    have hlt' : W.now (W.wait x.1 .wr (remainingMs dl tick)).2 < dl := hlt
    rw [ih]
    conv => rhs; rw [Net.sendSome]
    simp only [hw', if_false, hr, SendRes.unlog_exn, SendRes.unlog_sent, SendRes.unlog_w, hx, hrest, hpos, hlt',
      dite_true, dite_false, if_true]
    rfl
  | case5 x bs tick acc wt hw tick' r hx hrest hlt hpos =>
    have hw' : ¬ (W.wait x.1 .wr (remainingMs dl tick)).1 = false := hw
    have hr : sendNow W (W.wait x.1 .wr (remainingMs dl tick)).2 bs = SendRes.unlog r :=
      (sendNow_unlog W ((logWorld W).wait x .wr (remainingMs dl tick)).2 bs).symm
    have hlt' : W.now (W.wait x.1 .wr (remainingMs dl tick)).2 < dl := hlt
    rw [Net.sendSome]
    simp only [hw', if_false, hr, SendRes.unlog_exn, SendRes.unlog_sent, SendRes.unlog_w, hx, hrest, hpos, hlt',
      dite_true, dite_false, if_true]
    rfl
  | case6 x bs tick acc wt hw tick' r hx hrest hlt =>
    have hw' : ¬ (W.wait x.1 .wr (remainingMs dl tick)).1 = false := hw
    have hr : sendNow W (W.wait x.1 .wr (remainingMs dl tick)).2 bs = SendRes.unlog r :=
      (sendNow_unlog W ((logWorld W).wait x .wr (remainingMs dl tick)).2 bs).symm
    have hlt' : ¬ W.now (W.wait x.1 .wr (remainingMs dl tick)).2 < dl := hlt
    rw [Net.sendSome]
    simp only [hw', if_false, hr, SendRes.unlog_exn, SendRes.unlog_sent, SendRes.unlog_w, hx, hrest, hlt',
      dite_true, dite_false, if_false]
    rfl

/-! ### glue layer -/

/-- forget the log in the state component of a result -/
def unlogP {α : Type} (p : α × St σ (ω × List WaitRec)) : α × St σ ω := (p.1, unlog p.2)

theorem unlogP_cases {α : Type} {X : α × St σ (ω × List WaitRec)} {Y : α × St σ ω} (h : unlogP X = Y) :
    ∃ a s', X = (a, s') ∧ Y = (a, unlog s') := ⟨X.1, X.2, rfl, h.symm⟩

theorem waitUnder_unlog (W : World ω) (s : St σ (ω × List WaitRec)) (d : Dir) :
    unlogP (waitUnder (logWorld W) s d) = waitUnder W (unlog s) d := rfl

theorem handleError_unlog (W : World ω) (s : St σ (ω × List WaitRec)) (err : SslErr) :
    unlogP (handleError (logWorld W) s err) = handleError W (unlog s) err := by
  cases err <;> rfl

theorem handleLastError_unlog (W : World ω) (s : St σ (ω × List WaitRec)) :
    unlogP (handleLastError (logWorld W) s) = handleLastError W (unlog s) := by
  obtain ⟨a, s', hL, hR⟩ : ∃ a s', handleError (logWorld W) s s.g.lastError = (a, s') ∧
      handleError W (unlog s) (unlog s).g.lastError = (a, unlog s') := unlogP_cases (handleError_unlog W s _)
  unfold handleLastError
  rw [hL, hR]
  rcases a with (_|_)|_|_ <;> rfl

theorem handleResult_unlog (W : World ω) (s : St σ (ω × List WaitRec)) (ans : SslAns) :
    unlogP (handleResult (logWorld W) s ans) = handleResult W (unlog s) ans := by
  rcases s with ⟨⟨le, ps, rt, ir, iw, dss, pe, wire, bw, ec⟩, e, w⟩
  cases pe with
  | some x => rfl
  | none => exact handleLastError_unlog W _

theorem bioRead_unlog (W : World ω) (s : St σ (ω × List WaitRec)) (n : Nat) :
    unlogP (bioRead (logWorld W) s n) = bioRead W (unlog s) n := by
  rcases s with ⟨⟨le, ps, rt, ir, iw, dss, pe, wire, bw, ec⟩, e, w⟩
  cases ir with
  | true =>
    have h := recvNow_unlog W w n
    simp only [bioRead, unlog, if_true]
    cases hL : recvNow (logWorld W) w n with
    | got bs w' => rw [hL] at h; rw [← h]; rfl
    | nothing w' => rw [hL] at h; rw [← h]; rfl
    | exn e w' => rw [hL] at h; rw [← h]; rfl
  | false =>
    have h := receive_unlog W w n rt
    simp only [bioRead, unlog, Bool.false_eq_true, if_false]
    cases hL : receive (logWorld W) w n rt with
    | got bs w' => rw [hL] at h; rw [← h]; rfl
    | nothing w' => rw [hL] at h; rw [← h]; rfl
    | exn e w' => rw [hL] at h; rw [← h]; rfl

theorem noteWrite_unlog (s : St σ (ω × List WaitRec)) (bs : Bytes) (r : SendRes (ω × List WaitRec)) (rem : Int) :
    unlogP (noteWrite s bs r rem) = noteWrite (unlog s) bs (SendRes.unlog r) rem := by
  rcases r with ⟨k, x, w⟩
  cases x <;> rfl

theorem bioWrite_unlog (W : World ω) (s : St σ (ω × List WaitRec)) (bs : Bytes) :
    unlogP (bioWrite (logWorld W) s bs) = bioWrite W (unlog s) bs := by
  rcases s with ⟨⟨le, ps, rt, ir, iw, dss, pe, wire, bw, ec⟩, e, w⟩
  cases iw with
  | true =>
    show unlogP (bioWrite (logWorld W) ⟨⟨le, ps, rt, ir, true, dss, pe, wire, bw, ec⟩, e, w⟩ bs) =
      bioWrite W ⟨⟨le, ps, rt, ir, true, dss, pe, wire, bw, ec⟩, e, w.1⟩ bs
    simp only [bioWrite, if_true]
    rw [noteWrite_unlog, sendNow_unlog]
    rfl
  | false =>
    show unlogP (bioWrite (logWorld W) ⟨⟨le, ps, rt, ir, false, dss, pe, wire, bw, ec⟩, e, w⟩ bs) =
      bioWrite W ⟨⟨le, ps, rt, ir, false, dss, pe, wire, bw, ec⟩, e, w.1⟩ bs
    simp only [bioWrite, Bool.false_eq_true, if_false]
    by_cases h1 : rt < 0
    · rw [if_pos h1, if_pos h1, noteWrite_unlog, sendAll_unlog]; rfl
    · rw [if_neg h1, if_neg h1]
      by_cases h2 : rt = 0
      · rw [if_pos h2, if_pos h2, noteWrite_unlog, sendTry_unlog]; rfl
      · rw [if_neg h2, if_neg h2]
        have h := sendSome_unlog W w bs (W.now w.1 + rt) (W.now w.1) 0
        rw [noteWrite_unlog]
        rw [← h]
        rfl

theorem interp_unlog (W : World ω) (s : St σ (ω × List WaitRec)) (p : EngProg σ) :
    unlogP (interp (logWorld W) s p) = interp W (unlog s) p := by
  induction p generalizing s with
  | ret ans out e' => rfl
  | bioRead n k ih =>
    obtain ⟨a, s', hL, hR⟩ := unlogP_cases (bioRead_unlog W s n)
    unfold interp
    rw [hL, hR]
    cases a with
    | ok bs => exact ih (some bs) s'
    | exn e => exact ih none (stash s' e)
    | abort m => rfl
  | bioWrite bs k ih =>
    obtain ⟨a, s', hL, hR⟩ := unlogP_cases (bioWrite_unlog W s bs)
    unfold interp
    rw [hL, hR]
    cases a with
    | ok n => exact ih (some n) s'
    | exn e => exact ih none (stash s' e)
    | abort m => rfl

theorem readRound_unlog (C : Cfg) (W : World ω) (E : Engine σ) (size i : Nat) (s : St σ (ω × List WaitRec)) :
    unlogP (readRound C (logWorld W) E size i s) = readRound C W E size i (unlog s) := by
  obtain ⟨a, s', hL, hR⟩ : ∃ a s', interp (logWorld W) s (E.sslRead s.e size) = (a, s') ∧
      interp W (unlog s) (E.sslRead (unlog s).e size) = (a, unlog s') :=
    unlogP_cases (interp_unlog W s _)
  unfold readRound
  rw [hL, hR]
  rcases a with ⟨ans, out⟩ | e | m
  · obtain ⟨b, s2, hL2, hR2⟩ : ∃ b s2, handleResult (logWorld W) (noteCall E s' true [] ans) ans = (b, s2) ∧
        handleResult W (noteCall E (unlog s') true [] ans) ans = (b, unlog s2) :=
      unlogP_cases (handleResult_unlog W _ ans)
    cases ans <;> dsimp only <;> first
      | rfl
      | (rw [hL2, hR2]
         rcases b with (_|_)|_|_
         · rfl
         · dsimp only
           split <;> rfl
         · rfl
         · rfl)
  · rfl
  · rfl

theorem unlogP_ite {α : Type} (c : Prop) [Decidable c] (x y : α × St σ (ω × List WaitRec)) :
    unlogP (if c then x else y) = if c then unlogP x else unlogP y := by
  split <;> rfl

theorem readLoop_unlog (C : Cfg) (W : World ω) (E : Engine σ) (size i : Nat) (s : St σ (ω × List WaitRec)) :
    unlogP (readLoop C (logWorld W) E size i s) = readLoop C W E size i (unlog s) := by
  induction i generalizing s with
  | zero => rfl
  | succ i ih =>
    obtain ⟨a, s', hL, hR⟩ := unlogP_cases (readRound_unlog C W E size i s)
    simp only [readLoop]
    rw [hL, hR]
    cases a with
    | some o => rfl
    | none => exact ih s'

theorem tlsRead_unlog (C : Cfg) (W : World ω) (E : Engine σ) (s : St σ (ω × List WaitRec)) (size : Nat) :
    unlogP (tlsRead C (logWorld W) E s size) = tlsRead C W E (unlog s) size := by
  obtain ⟨a, s', hL, hR⟩ := unlogP_cases (handleLastError_unlog W s)
  unfold tlsRead
  rw [hL, hR]
  rcases a with (_|_)|_|_
  · rfl
  · exact readLoop_unlog C W E size C.stepsMax s'
  · rfl
  · rfl

theorem writeRetry_unlog (C : Cfg) (W : World ω) (i' : Nat) (rest : Bytes) (s : St σ (ω × List WaitRec))
    (ans : SslAns) :
    unlogP (writeRetry C (logWorld W) i' rest s ans) = writeRetry C W i' rest (unlog s) ans := by
  obtain ⟨a, s', hL, hR⟩ := unlogP_cases (handleResult_unlog W s ans)
  unfold writeRetry
  rw [hL, hR]
  rcases a with (_|_)|_|_
  · rfl
  · dsimp only
    split <;> rfl
  · rfl
  · rfl

theorem writeRound_unlog (C : Cfg) (W : World ω) (E : Engine σ) (i' : Nat) (rest : Bytes)
    (s : St σ (ω × List WaitRec)) :
    unlogP (writeRound C (logWorld W) E i' rest s) = writeRound C W E i' rest (unlog s) := by
  obtain ⟨a, s', hL, hR⟩ : ∃ a s', interp (logWorld W) s (E.sslWrite s.e rest) = (a, s') ∧
      interp W (unlog s) (E.sslWrite (unlog s).e rest) = (a, unlog s') :=
    unlogP_cases (interp_unlog W s _)
  unfold writeRound
  rw [hL, hR, unlogP_ite]
  rcases a with ⟨ans, out⟩ | e | m
  · cases ans <;> dsimp only <;> first
      | (simp only [unlogP_ite]; rfl)
      | (rw [writeRetry_unlog]; rfl)
  · rfl
  · rfl

theorem writeLoop_unlog (C : Cfg) (W : World ω) (E : Engine σ) (i : Nat) (rest : Bytes)
    (s : St σ (ω × List WaitRec)) :
    unlogP (writeLoop C (logWorld W) E i rest s) = writeLoop C W E i rest (unlog s) := by
  fun_induction Tls.writeLoop C (logWorld W) E i rest s with
  | case1 rest s => rw [Tls.writeLoop]; rfl
  | case2 s i' => rw [Tls.writeLoop]; rfl
  | case3 rest s i' hne o s' heq =>
    have hR : writeRound C W E i' rest (unlog s) = (.stop o, unlog s') := by
      rw [← writeRound_unlog, heq]; rfl
    rw [Tls.writeLoop]
    simp only [hne, if_false, hR]
    rfl
  | case4 rest s i' hne j rest' s' heq hdec ih =>
    have hR : writeRound C W E i' rest (unlog s) = (.again j rest', unlog s') := by
      rw [← writeRound_unlog, heq]; rfl
    rw [ih]
    conv => rhs; rw [Tls.writeLoop]
    simp only [hne, if_false, hR, hdec, dite_true]
  | case5 rest s i' hne j rest' s' heq hdec =>
    have hR : writeRound C W E i' rest (unlog s) = (.again j rest', unlog s') := by
      rw [← writeRound_unlog, heq]; rfl
    rw [Tls.writeLoop]
    simp only [hne, if_false, hR, hdec, dite_false]
    rfl

theorem tlsWrite_unlog (C : Cfg) (W : World ω) (E : Engine σ) (s : St σ (ω × List WaitRec)) (data : Bytes) :
    unlogP (tlsWrite C (logWorld W) E s data) = tlsWrite C W E (unlog s) data := by
  obtain ⟨a, s', hL, hR⟩ := unlogP_cases (handleLastError_unlog W s)
  unfold tlsWrite
  rw [hL, hR]
  rcases a with (_|_)|_|_
  · rfl
  · dsimp only
    obtain ⟨b, s2, hL2, hR2⟩ := unlogP_cases (writeLoop_unlog C W E C.stepsMax data s')
    rw [hL2, hR2]
    cases b <;> rfl
  · rfl
  · rfl

/-! ### entry points -/

theorem receiveT_unlogP (C : Cfg) (W : World ω) (E : Engine σ) (s : St σ (ω × List WaitRec)) (n : Nat) (t : Int) :
    unlogP (receiveT C (logWorld W) E s n t) = receiveT C W E (unlog s) n t := by
  obtain ⟨a, s', hL, hR⟩ : ∃ a s', tlsRead C (logWorld W) E (setTimeout s t) n = (a, s') ∧
      tlsRead C W E (setTimeout (unlog s) t) n = (a, unlog s') :=
    unlogP_cases (tlsRead_unlog C W E (setTimeout s t) n)
  unfold receiveT
  rw [hL, hR]
  rcases a with (_|⟨b, bs⟩)|_|_
  · simp only [unlogP_ite]; rfl
  · rfl
  · rfl
  · rfl

theorem receiveReadable_unlogP (C : Cfg) (W : World ω) (E : Engine σ) (s : St σ (ω × List WaitRec)) (n : Nat) :
    unlogP (receiveReadable C (logWorld W) E s n) = receiveReadable C W E (unlog s) n := by
  obtain ⟨a, s', hL, hR⟩ : ∃ a s', tlsRead C (logWorld W) E (prepReadable s) n = (a, s') ∧
      tlsRead C W E (prepReadable (unlog s)) n = (a, unlog s') :=
    unlogP_cases (tlsRead_unlog C W E (prepReadable s) n)
  unfold receiveReadable
  rw [hL, hR]
  rcases a with (_|⟨b, bs⟩)|_|_
  · simp only [unlogP_ite]; rfl
  · rfl
  · rfl
  · rfl

theorem sendT_unlogP (C : Cfg) (W : World ω) (E : Engine σ) (s : St σ (ω × List WaitRec)) (data : Bytes) (t : Int) :
    unlogP (sendT C (logWorld W) E s data t) = sendT C W E (unlog s) data t := by
  obtain ⟨a, s', hL, hR⟩ : ∃ a s', tlsWrite C (logWorld W) E (setTimeout s t) data = (a, s') ∧
      tlsWrite C W E (setTimeout (unlog s) t) data = (a, unlog s') :=
    unlogP_cases (tlsWrite_unlog C W E (setTimeout s t) data)
  unfold sendT
  rw [hL, hR]
  rcases a with _|_|_
  · simp only [unlogP_ite]; rfl
  · rfl
  · rfl

theorem sendSomeWritable_unlogP (C : Cfg) (W : World ω) (E : Engine σ) (s : St σ (ω × List WaitRec)) (data : Bytes) :
    unlogP (sendSomeWritable C (logWorld W) E s data) = sendSomeWritable C W E (unlog s) data :=
  tlsWrite_unlog C W E (prepWritable s) data

theorem driverQuery_unlogP (E : Engine σ) (s : St σ (ω × List WaitRec)) (po : Bool) :
    unlogP (driverQuery E s po) = driverQuery E (unlog s) po := by
  simp only [driverQuery, unlogP_ite]
  rfl

theorem driverPending_unlogP (C : Cfg) (W : World ω) (E : Engine σ) (s : St σ (ω × List WaitRec)) :
    unlogP (driverPending C (logWorld W) E s) = driverPending C W E (unlog s) := by
  obtain ⟨a, s', hL, hR⟩ : ∃ a s', tlsRead C (logWorld W) E (prepWritable s) 64 = (a, s') ∧
      tlsRead C W E (prepWritable (unlog s)) 64 = (a, unlog s') :=
    unlogP_cases (tlsRead_unlog C W E (prepWritable s) 64)
  unfold driverPending
  rw [hL, hR, unlogP_ite]
  rcases a with (_|⟨b, bs⟩)|_|_ <;> rfl

theorem receiveT_unlog (C : Cfg) (W : World ω) (E : Engine σ) (s : St σ (ω × List WaitRec)) (n : Nat) (t : Int) :
    (receiveT C (logWorld W) E s n t).1 = (receiveT C W E (unlog s) n t).1 ∧
    unlog (receiveT C (logWorld W) E s n t).2 = (receiveT C W E (unlog s) n t).2 :=
  ⟨congrArg Prod.fst (receiveT_unlogP C W E s n t), congrArg Prod.snd (receiveT_unlogP C W E s n t)⟩

theorem sendT_unlog (C : Cfg) (W : World ω) (E : Engine σ) (s : St σ (ω × List WaitRec)) (data : Bytes) (t : Int) :
    (sendT C (logWorld W) E s data t).1 = (sendT C W E (unlog s) data t).1 ∧
    unlog (sendT C (logWorld W) E s data t).2 = (sendT C W E (unlog s) data t).2 :=
  ⟨congrArg Prod.fst (sendT_unlogP C W E s data t), congrArg Prod.snd (sendT_unlogP C W E s data t)⟩

theorem receiveReadable_unlog (C : Cfg) (W : World ω) (E : Engine σ) (s : St σ (ω × List WaitRec)) (n : Nat) :
    (receiveReadable C (logWorld W) E s n).1 = (receiveReadable C W E (unlog s) n).1 ∧
    unlog (receiveReadable C (logWorld W) E s n).2 = (receiveReadable C W E (unlog s) n).2 :=
  ⟨congrArg Prod.fst (receiveReadable_unlogP C W E s n), congrArg Prod.snd (receiveReadable_unlogP C W E s n)⟩

theorem sendSomeWritable_unlog (C : Cfg) (W : World ω) (E : Engine σ) (s : St σ (ω × List WaitRec)) (data : Bytes) :
    (sendSomeWritable C (logWorld W) E s data).1 = (sendSomeWritable C W E (unlog s) data).1 ∧
    unlog (sendSomeWritable C (logWorld W) E s data).2 = (sendSomeWritable C W E (unlog s) data).2 :=
  ⟨congrArg Prod.fst (sendSomeWritable_unlogP C W E s data), congrArg Prod.snd (sendSomeWritable_unlogP C W E s data)⟩

theorem driverQuery_unlog (E : Engine σ) (s : St σ (ω × List WaitRec)) (po : Bool) :
    (driverQuery E s po).1 = (driverQuery E (unlog s) po).1 ∧
    unlog (driverQuery E s po).2 = (driverQuery E (unlog s) po).2 :=
  ⟨congrArg Prod.fst (driverQuery_unlogP E s po), congrArg Prod.snd (driverQuery_unlogP E s po)⟩

theorem driverPending_unlog (C : Cfg) (W : World ω) (E : Engine σ) (s : St σ (ω × List WaitRec)) :
    (driverPending C (logWorld W) E s).1 = (driverPending C W E (unlog s)).1 ∧
    unlog (driverPending C (logWorld W) E s).2 = (driverPending C W E (unlog s)).2 :=
  ⟨congrArg Prod.fst (driverPending_unlogP C W E s), congrArg Prod.snd (driverPending_unlogP C W E s)⟩

theorem apply_unlog (C : Cfg) (W : World ω) (E : Engine σ) (s : St σ (ω × List WaitRec)) (op : Op) :
    unlog (apply C (logWorld W) E s op) = apply C W E (unlog s) op := by
  cases op with
  | recvT n t => exact (receiveT_unlog C W E s n t).2
  | recvReadable n => exact (receiveReadable_unlog C W E s n).2
  | sendT d t => exact (sendT_unlog C W E s d t).2
  | sendWritable d => exact (sendSomeWritable_unlog C W E s d).2
  | query po => exact (driverQuery_unlog E s po).2
  | pending => exact (driverPending_unlog C W E s).2

theorem run_unlog (C : Cfg) (W : World ω) (E : Engine σ) (s : St σ (ω × List WaitRec)) (ops : List Op) :
    unlog (run C (logWorld W) E s ops) = run C W E (unlog s) ops := by
  induction ops generalizing s with
  | nil => rfl
  | cons op ops ih =>
    show unlog (run C (logWorld W) E (apply C (logWorld W) E s op) ops) = run C W E (apply C W E (unlog s) op) ops
    rw [ih, apply_unlog]

/-- the log is write-only: nothing the wrapped world answers depends on it -/
theorem logWorld_transparent (W : World ω) (x : ω × List WaitRec) :
    (∀ d t, ((logWorld W).wait x d t).1 = (W.wait x.1 d t).1 ∧ ((logWorld W).wait x d t).2.1 = (W.wait x.1 d t).2) ∧
    (∀ bs, ((logWorld W).send x bs).1 = (W.send x.1 bs).1 ∧ ((logWorld W).send x bs).2.1 = (W.send x.1 bs).2) ∧
    (∀ n, ((logWorld W).recv x n).1 = (W.recv x.1 n).1 ∧ ((logWorld W).recv x n).2.1 = (W.recv x.1 n).2) ∧
    (logWorld W).now x = W.now x.1 :=
  ⟨fun _ _ => ⟨rfl, rfl⟩, fun _ => ⟨rfl, rfl⟩, fun _ => ⟨rfl, rfl⟩, rfl⟩

end SockModel.Tls

import SockModel.Model.HsEngine
import SockModel.Model.TlsLemmas
/-! Lemmas for the reference engine and the two-endpoint composition (`handshake_completes_partial`). -/
namespace SockModel.Hs
open SockModel.Net SockModel.Tls

/-! ### bookkeeping -/

/-- handshake bytes this endpoint has written so far -/
def sent (P : HsP) (h : Hs) : Nat :=
  if h.client then
    (if h.stage = 0 then P.k1 - h.need else if h.stage = 1 then P.k1 else if h.stage = 2 then P.k1 + (P.k3 - h.need) else P.k1 + P.k3)
  else
    (if h.stage = 0 then 0 else if h.stage = 1 then P.k2 - h.need else P.k2)

/-- handshake bytes this endpoint has read so far -/
def rcvd (P : HsP) (h : Hs) : Nat :=
  if h.client then
    (if h.stage = 0 then 0 else if h.stage = 1 then P.k2 - h.need else P.k2)
  else
    (if h.stage = 0 then P.k1 - h.need else if h.stage = 1 then P.k1 else if h.stage = 2 then P.k1 + (P.k3 - h.need) else P.k1 + P.k3)

/-- what is left to do: bytes of the current and the later flights, plus the stages themselves -/
def work (P : HsP) (h : Hs) : Nat :=
  if h.stage = 0 then h.need + P.k2 + P.k3 + 3 else if h.stage = 1 then h.need + P.k3 + 2
  else if h.stage = 2 then h.need + 1 else 0

def WF (P : HsP) (h : Hs) : Prop :=
  (h.stage < 3 → 1 ≤ h.need ∧ h.need ≤ P.flight h.stage) ∧ (3 ≤ h.stage → h.need = 0)

theorem wf_init (P : HsP) (c : Bool) : WF P (Hs.init P c) := by
  have := P.h1
  simp [WF, Hs.init, HsP.flight]; omega

theorem work_init (P : HsP) (c : Bool) : work P (Hs.init P c) = P.k1 + P.k2 + P.k3 + 3 := by
  simp [work, Hs.init]

theorem work_lt_fuel (P : HsP) (h : Hs) (hw : WF P h) : work P h < fuel P := by
  obtain ⟨w1, w2⟩ := hw
  unfold work fuel
  by_cases h0 : h.stage = 0
  · have := w1 (by omega); simp only [h0, HsP.flight] at this; simp [h0]; omega
  · by_cases h1 : h.stage = 1
    · have := w1 (by omega); simp only [h1, HsP.flight] at this; simp [h1]; omega
    · by_cases h2 : h.stage = 2
      · have := w1 (by omega); simp only [h2, HsP.flight] at this; simp [h2]; omega
      · simp [h0, h1, h2]

/-- the effect of completing the current flight -/
theorem next_facts (P : HsP) (h : Hs) (hw : WF P h) (hs : h.stage < 3) :
    WF P (h.next P) ∧ (h.next P).client = h.client ∧ (h.next P).stage = h.stage + 1 ∧
    work P (h.next P) + h.need + 1 = work P h ∧
    (h.writes = true → sent P (h.next P) = sent P h + h.need ∧ rcvd P (h.next P) = rcvd P h) ∧
    (h.writes = false → rcvd P (h.next P) = rcvd P h + h.need ∧ sent P (h.next P) = sent P h) := by
  obtain ⟨w1, _⟩ := hw
  have hn := w1 hs
  have := P.h1; have := P.h2; have := P.h3
  rcases h with ⟨c, st, nd⟩
  simp only at hs hn
  have hst : st = 0 ∨ st = 1 ∨ st = 2 := by omega
  rcases hst with rfl | rfl | rfl <;> cases c <;>
    simp [WF, Hs.next, HsP.flight, work, sent, rcvd, Hs.writes] at hn ⊢ <;> omega

/-- the effect of reading `k` more bytes (not all) of the current flight -/
theorem part_facts (P : HsP) (h : Hs) (hw : WF P h) (hs : h.stage < 3) (hr : h.writes = false) (k : Nat)
    (hk1 : 1 ≤ k) (hk2 : k < h.need) :
    WF P { h with need := h.need - k } ∧ work P { h with need := h.need - k } + k = work P h ∧
    rcvd P { h with need := h.need - k } = rcvd P h + k ∧ sent P { h with need := h.need - k } = sent P h := by
  obtain ⟨w1, _⟩ := hw
  have hn := w1 hs
  rcases h with ⟨c, st, nd⟩
  simp only at hs hn hk2 hr
  have hst : st = 0 ∨ st = 1 ∨ st = 2 := by omega
  rcases hst with rfl | rfl | rfl <;> cases c <;>
    simp [WF, HsP.flight, work, sent, rcvd, Hs.writes] at hn hr ⊢ <;> omega

/-! ### the channel world -/

theorem pick_bounds (o : Option Nat) (want : Nat) (h : 1 ≤ want) : 1 ≤ pick o want ∧ pick o want ≤ want := by
  unfold pick
  split
  · split <;> omega
  · omega

@[simp] theorem out_addOut (c : Chan) (r : Bool) (n : Nat) : (c.addOut r n).out r = c.out r + n := by
  cases r <;> simp [Chan.addOut, Chan.out]
@[simp] theorem inb_addOut (c : Chan) (r : Bool) (n : Nat) : (c.addOut r n).inb r = c.inb r := by
  cases r <;> simp [Chan.addOut, Chan.inb]
@[simp] theorem out_takeIn (c : Chan) (r : Bool) (n : Nat) : (c.takeIn r n).out r = c.out r := by
  cases r <;> simp [Chan.takeIn, Chan.out]
@[simp] theorem inb_takeIn (c : Chan) (r : Bool) (n : Nat) : (c.takeIn r n).inb r = c.inb r - n := by
  cases r <;> simp [Chan.takeIn, Chan.inb]

/-- the glue fields a synchronous zero-timeout call finds and leaves -/
def Calm (s : St Hs Chan) : Prop :=
  s.g.remainingTime = 0 ∧ s.g.isReadable = false ∧ s.g.isWritable = false ∧ s.g.pendingError = none

theorem zeros_length (n : Nat) : (zeros n).length = n := by simp [zeros]

theorem bioWrite_chan (r : Bool) (s : St Hs Chan) (hc : Calm s) (bs : Bytes) :
    ∃ s', bioWrite (chanWorld r) s bs = (.ok bs.length, s') ∧ Calm s' ∧ s'.e = s.e ∧
      s'.w = s.w.addOut r bs.length ∧ s'.g.lastError = s.g.lastError ∧ s'.g.pendingSend = s.g.pendingSend := by
  obtain ⟨h1, h2, h3, h4⟩ := hc
  by_cases hb : bs = []
  · subst hb
    simp [bioWrite, h3, h1, sendTry, chanWorld, sendNow, noteWrite, Calm, h2, h4]
  · have hl : bs.length ≠ 0 := by simpa using hb
    simp [bioWrite, h3, h1, sendTry, chanWorld, sendNow, noteWrite, Calm, h2, h4, hb, hl]

theorem bioRead_chan_empty (r : Bool) (s : St Hs Chan) (hc : Calm s) (n : Nat) (he : s.w.inb r = 0) :
    ∃ s', bioRead (chanWorld r) s n = (.ok [], s') ∧ Calm s' ∧ s'.e = s.e ∧ s'.w = s.w ∧
      s'.g.lastError = s.g.lastError ∧ s'.g.pendingSend = s.g.pendingSend := by
  obtain ⟨h1, h2, h3, h4⟩ := hc
  simp [bioRead, h2, h1, receive, chanWorld, he, Calm, h3, h4, underDeadline]

theorem bioRead_chan_data (r : Bool) (s : St Hs Chan) (hc : Calm s) (n : Nat) (hn : 1 ≤ n) (he : 0 < s.w.inb r) :
    ∃ k s', bioRead (chanWorld r) s n = (.ok (zeros k), s') ∧ 1 ≤ k ∧ k ≤ n ∧ k ≤ s.w.inb r ∧ Calm s' ∧ s'.e = s.e ∧
      s'.w = s.w.takeIn r k ∧ s'.g.lastError = s.g.lastError ∧ s'.g.pendingSend = s.g.pendingSend := by
  obtain ⟨h1, h2, h3, h4⟩ := hc
  have hp := pick_bounds s.w.segs.head? (min n (s.w.inb r)) (by omega)
  generalize hkdef : pick s.w.segs.head? (min n (s.w.inb r)) = k at hp
  have hk : 1 ≤ k := hp.1
  have hk2 : k ≤ n := by omega
  have htake : (zeros k).take n = zeros k := List.take_of_length_le (by rw [zeros_length]; exact hk2)
  have hne : zeros k ≠ [] := by
    intro h0
    have := congrArg List.length h0
    rw [zeros_length] at this
    simp at this; omega
  refine ⟨k, { s with w := s.w.takeIn r k, g := { s.g with remainingTime := 0 } }, ?_, hk, hk2, by omega, ?_, rfl, rfl, rfl, rfl⟩
  · simp only [bioRead, h2, Bool.false_eq_true, if_false, receive, chanWorld, he, decide_true, recvNow, hkdef, htake, h1,
      if_neg hne, underDeadline]
    simp
  · simp [Calm, h2, h3, h4]

/-! ### one engine call against the channel world -/

/-- how engine state and channels of endpoint `r` may move: forward only, and bytes are conserved
(exactly while the handshake is in progress; application records only add to the outgoing channel and
only take from the incoming one) -/
structure Tr (P : HsP) (r : Bool) (h0 : Hs) (w0 : Chan) (h : Hs) (w : Chan) : Prop where
  cl : h.client = h0.client
  st : h0.stage ≤ h.stage
  wk : work P h ≤ work P h0
  wf : WF P h
  outGe : w0.out r + sent P h ≤ w.out r + sent P h0
  outEq : h.stage < 3 → w.out r + sent P h0 = w0.out r + sent P h
  inGe : w.inb r + rcvd P h ≤ w0.inb r + rcvd P h0
  inEq : h.stage < 3 → w0.inb r + rcvd P h0 = w.inb r + rcvd P h
  outLe : w0.out r ≤ w.out r
  inLe : w.inb r ≤ w0.inb r

theorem Tr.refl (P : HsP) (r : Bool) (h : Hs) (w : Chan) (hw : WF P h) : Tr P r h w h w :=
  ⟨rfl, Nat.le_refl _, Nat.le_refl _, hw, Nat.le_refl _, fun _ => rfl, Nat.le_refl _, fun _ => rfl, Nat.le_refl _, Nat.le_refl _⟩

theorem Tr.trans {P : HsP} {r : Bool} {h0 h1 h2 : Hs} {w0 w1 w2 : Chan}
    (a : Tr P r h0 w0 h1 w1) (b : Tr P r h1 w1 h2 w2) : Tr P r h0 w0 h2 w2 := by
  refine ⟨b.cl.trans a.cl, Nat.le_trans a.st b.st, Nat.le_trans b.wk a.wk, b.wf, ?_, ?_, ?_, ?_,
    Nat.le_trans a.outLe b.outLe, Nat.le_trans b.inLe a.inLe⟩
  · have := a.outGe; have := b.outGe; omega
  · intro h
    have h1' : h1.stage < 3 := by have := b.st; omega
    have := a.outEq h1'; have := b.outEq h; omega
  · have := a.inGe; have := b.inGe; omega
  · intro h
    have h1' : h1.stage < 3 := by have := b.st; omega
    have := a.inEq h1'; have := b.inEq h; omega

def AnsOK (D : Nat → Bytes → Prop) (R : Hs → Prop) (r : Bool) (ans : SslAns) (out : Bytes) (h : Hs) (w : Chan) : Prop :=
  match ans with
  | .wantRead => w.inb r = 0 ∧ (h.stage < 3 → h.writes = false) ∧ R h
  | .done k => 3 ≤ h.stage ∧ D k out
  | _ => False

/-- what one engine call (or the rest of one) does, seen from state `s` with the engine at `h0` -/
def Res (P : HsP) (D : Nat → Bytes → Prop) (R : Hs → Prop) (r : Bool) (s : St Hs Chan) (h0 : Hs)
    (res : Out (SslAns × Bytes) × St Hs Chan) : Prop :=
  ∃ ans out s', res = (.ok (ans, out), s') ∧ Calm s' ∧ s'.g.lastError = s.g.lastError ∧
    s'.g.pendingSend = s.g.pendingSend ∧ Tr P r h0 s.w s'.e s'.w ∧ AnsOK D R r ans out s'.e s'.w ∧
    (h0.stage < 3 → (h0.writes = true ∨ 0 < s.w.inb r) → work P s'.e < work P h0)

theorem Res.chain {P : HsP} {D : Nat → Bytes → Prop} {R : Hs → Prop} {r : Bool} {s s1 : St Hs Chan} {h h1 : Hs}
    {res : Out (SslAns × Bytes) × St Hs Chan}
    (hle : s1.g.lastError = s.g.lastError) (hpe : s1.g.pendingSend = s.g.pendingSend)
    (t : Tr P r h s.w h1 s1.w) (hprog : work P h1 < work P h)
    (hr : Res P D R r s1 h1 res) : Res P D R r s h res := by
  obtain ⟨ans, out, s', e1, c1, l1, p1, t1, a1, _⟩ := hr
  refine ⟨ans, out, s', e1, c1, l1.trans hle, p1.trans hpe, t.trans t1, a1, ?_⟩
  intro _ _
  have := t1.wk
  omega

theorem hsRun_spec (P : HsP) (D : Nat → Bytes → Prop) (R : Hs → Prop) (hR : ∀ h, h.stage < 3 → R h) (r : Bool)
    (k : Hs → EngProg Hs)
    (hk : ∀ s1 h1, Calm s1 → 3 ≤ h1.stage → h1.client = r → WF P h1 → Res P D R r s1 h1 (interp (chanWorld r) s1 (k h1))) :
    ∀ (f : Nat) (h : Hs) (s : St Hs Chan), work P h < f → WF P h → h.client = r → Calm s →
      Res P D R r s h (interp (chanWorld r) s (hsRun P f h k)) := by
  intro f
  induction f with
  | zero => intro h s hf; omega
  | succ f ih =>
    intro h s hf hw hcl hc
    unfold hsRun
    by_cases hfin : 3 ≤ h.stage
    · rw [if_pos hfin]
      exact hk s h hc hfin hcl hw
    · rw [if_neg hfin]
      have hs3 : h.stage < 3 := by omega
      have hneed := hw.1 hs3
      obtain ⟨nwf, ncl, nst, nwork, nwr, nrd⟩ := next_facts P h hw hs3
      by_cases hwr : h.writes = true
      · -- a flight to write: the channel takes all of it
        rw [if_pos hwr]
        obtain ⟨s1, e1, c1, ee1, w1, l1, p1⟩ := bioWrite_chan r s hc (zeros h.need)
        rw [zeros_length] at e1 w1
        simp only [interp, e1, Nat.le_refl, if_true]
        obtain ⟨hs1, hs2⟩ := nwr hwr
        have t : Tr P r h s.w (h.next P) s1.w := by
          rw [w1]
          refine ⟨ncl, by omega, by omega, nwf, by simp; omega, by intro _; simp; omega, by simp; omega, by intro _; simp; omega, by simp, by simp⟩
        exact Res.chain l1 p1 t (by omega) (ih (h.next P) s1 (by omega) nwf (ncl.trans hcl) c1)
      · -- a flight to read
        have hwr' : h.writes = false := by simpa using hwr
        rw [if_neg hwr]
        obtain ⟨hr1, hr2⟩ := nrd hwr'
        by_cases hin : s.w.inb r = 0
        · obtain ⟨s1, e1, c1, ee1, w1, l1, p1⟩ := bioRead_chan_empty r s hc h.need hin
          simp only [interp, e1, List.length_nil, if_true]
          refine ⟨.wantRead, [], { s1 with e := h }, rfl, c1, l1, p1, ?_, ?_, ?_⟩
          · simp only; rw [w1]; exact Tr.refl P r h s.w hw
          · simp only [AnsOK]; rw [w1]; exact ⟨hin, fun _ => hwr', hR h hs3⟩
          · intro _ hor
            rcases hor with h1 | h1
            · rw [hwr'] at h1; cases h1
            · omega
        · have hin' : 0 < s.w.inb r := by omega
          obtain ⟨k0, s1, e1, k1, k2, k3, c1, ee1, w1, l1, p1⟩ := bioRead_chan_data r s hc h.need hneed.1 hin'
          have hk00 : k0 ≠ 0 := by omega
          simp only [interp, e1, zeros_length, hk00, if_false]
          by_cases hall : h.need ≤ k0
          · rw [if_pos hall]
            have hk0 : k0 = h.need := by omega
            have t : Tr P r h s.w (h.next P) s1.w := by
              rw [w1, hk0]
              refine ⟨ncl, by omega, by omega, nwf, by simp; omega, by intro _; simp; omega, by simp; omega, by intro _; simp; omega, by simp, by simp⟩
            exact Res.chain l1 p1 t (by omega) (ih (h.next P) s1 (by omega) nwf (ncl.trans hcl) c1)
          · rw [if_neg hall]
            obtain ⟨pwf, pwork, prc, psn⟩ := part_facts P h hw hs3 hwr' k0 k1 (by omega)
            have t : Tr P r h s.w { h with need := h.need - k0 } s1.w := by
              rw [w1]
              refine ⟨rfl, Nat.le_refl _, by omega, pwf, by simp; omega, by intro _; simp; omega, by simp; omega, by intro _; simp; omega, by simp, by simp⟩
            exact Res.chain l1 p1 t (by omega) (ih { h with need := h.need - k0 } s1 (by omega) pwf hcl c1)

theorem sslWrite_spec (P : HsP) (r : Bool) (s : St Hs Chan) (d : Bytes) (hd : d ≠ []) (hc : Calm s)
    (hw : WF P s.e) (hcl : s.e.client = r) :
    Res P (fun k _ => k = d.length) (fun h => h.stage < 3) r s s.e (interp (chanWorld r) s ((engine P).sslWrite s.e d)) := by
  apply hsRun_spec P _ _ (fun _ h => h) r (appWrite d) _ (fuel P) s.e s (work_lt_fuel P s.e hw) hw hcl hc
  intro s1 h1 c1 hfin _ hw1
  obtain ⟨s2, e2, c2, _, w2, l2, p2⟩ := bioWrite_chan r s1 c1 d
  have hl : d.length ≠ 0 := by simpa using hd
  simp only [appWrite, interp, e2, hl, if_false]
  refine ⟨.done d.length, [], { s2 with e := h1 }, rfl, c2, l2, p2, ?_, ⟨hfin, rfl⟩, by intro h; omega⟩
  simp only; rw [w2]
  exact ⟨rfl, Nat.le_refl _, Nat.le_refl _, hw1, by simp, by intro h; omega, by simp, by intro h; omega, by simp, by simp⟩

theorem sslRead_spec (P : HsP) (r : Bool) (s : St Hs Chan) (n : Nat) (hn : 1 ≤ n) (hc : Calm s)
    (hw : WF P s.e) (hcl : s.e.client = r) :
    Res P (fun k out => 1 ≤ k ∧ out ≠ []) (fun _ => True) r s s.e (interp (chanWorld r) s ((engine P).sslRead s.e n)) := by
  apply hsRun_spec P _ _ (fun _ _ => trivial) r (appRead n) _ (fuel P) s.e s (work_lt_fuel P s.e hw) hw hcl hc
  intro s1 h1 c1 hfin _ hw1
  by_cases hin : s1.w.inb r = 0
  · obtain ⟨s2, e2, c2, _, w2, l2, p2⟩ := bioRead_chan_empty r s1 c1 n hin
    simp only [appRead, interp, e2, List.length_nil, if_true]
    refine ⟨.wantRead, [], { s2 with e := h1 }, rfl, c2, l2, p2, ?_, ?_, by intro h; omega⟩
    · simp only; rw [w2]; exact Tr.refl P r h1 s1.w hw1
    · simp only [AnsOK]; rw [w2]; exact ⟨hin, (by intro h; omega), trivial⟩
  · obtain ⟨k0, s2, e2, k1, k2, k3, c2, _, w2, l2, p2⟩ := bioRead_chan_data r s1 c1 n hn (by omega)
    have hk00 : k0 ≠ 0 := by omega
    simp only [appRead, interp, e2, zeros_length, hk00, if_false]
    have hne : zeros k0 ≠ [] := by
      intro h0; have := congrArg List.length h0; rw [zeros_length] at this; simp at this; omega
    refine ⟨.done k0, zeros k0, { s2 with e := h1 }, rfl, c2, l2, p2, ?_, ⟨hfin, k1, hne⟩, by intro h; omega⟩
    simp only; rw [w2]
    exact ⟨rfl, Nat.le_refl _, Nat.le_refl _, hw1, by simp, by intro h; omega, by simp, by intro h; omega, by simp, by simp⟩

/-! ### one API call (timeout 0) of an endpoint -/

/-- what a synchronous endpoint looks like between calls -/
def SideInv (P : HsP) (r : Bool) (data : Bytes) (s : St Hs Chan) : Prop :=
  s.g.isReadable = false ∧ s.g.isWritable = false ∧ s.g.pendingError = none ∧ s.e.client = r ∧ WF P s.e ∧
  (s.g.lastError = .none ∨ s.g.lastError = .wantRead) ∧
  (s.g.lastError = .wantRead → s.e.stage < 3 → s.e.writes = false) ∧
  (s.g.pendingSend = [] ∨ s.g.pendingSend = data)

/-- the endpoint can move its handshake on: it has a flight to write, or bytes to read are there -/
def CanProg (r : Bool) (h : Hs) (w : Chan) : Prop := h.stage < 3 ∧ (h.writes = true ∨ 0 < w.inb r)

def CallRes (P : HsP) (r : Bool) (data : Bytes) (s0 : St Hs Chan) (res : Bool × St Hs Chan) : Prop :=
  res.1 = true ∧ SideInv P r data res.2 ∧ Tr P r s0.e s0.w res.2.e res.2.w ∧
  (CanProg r s0.e s0.w → work P res.2.e < work P s0.e)

/-- `HandleLastError` at the start of a call with timeout 0: either the call goes on (state calm, no error
cached), or it is over at once - which happens only when a read is awaited and nothing is there -/
theorem gate (P : HsP) (r : Bool) (data : Bytes) (s : St Hs Chan) (hi : SideInv P r data s) :
    (∃ s1, handleLastError (chanWorld r) (setTimeout s 0) = (.ok true, s1) ∧ Calm s1 ∧ s1.e = s.e ∧ s1.w = s.w ∧
      s1.g.lastError = .none ∧ s1.g.pendingSend = s.g.pendingSend) ∨
    (∃ s1, handleLastError (chanWorld r) (setTimeout s 0) = (.ok false, s1) ∧ SideInv P r data s1 ∧ s1.e = s.e ∧
      s1.w = s.w ∧ s.g.lastError = .wantRead ∧ s.w.inb r = 0) := by
  obtain ⟨h1, h2, h3, h4, h5, h6, h7, h8⟩ := hi
  rcases h6 with hl | hl
  · left
    refine ⟨setLastError (setTimeout s 0) .none, ?_, ⟨rfl, h1, h2, h3⟩, rfl, rfl, rfl, rfl⟩
    simp [handleLastError, setTimeout, hl, handleError]
  · have hw : (waitUnder (chanWorld r) (setTimeout s 0) .rd).1 = decide (0 < s.w.inb r) := rfl
    by_cases hin : 0 < s.w.inb r
    · left
      refine ⟨setLastError (waitUnder (chanWorld r) (setTimeout s 0) .rd).2 .none, ?_, ?_, rfl, rfl, rfl, rfl⟩
      · have : handleError (chanWorld r) (setTimeout s 0) .wantRead
            = (.ok true, (waitUnder (chanWorld r) (setTimeout s 0) .rd).2) := by
          simp only [handleError]
          rw [show (waitUnder (chanWorld r) (setTimeout s 0) .rd) = ((waitUnder (chanWorld r) (setTimeout s 0) .rd).1,
            (waitUnder (chanWorld r) (setTimeout s 0) .rd).2) from rfl, hw]
          simp [hin]
        simp only [handleLastError]
        rw [show (setTimeout s 0).g.lastError = .wantRead from hl, this]
      · simp [Calm, setLastError, waitUnder, setTimeout, underDeadline, h1, h2, h3]
    · right
      have hin0 : s.w.inb r = 0 := by omega
      refine ⟨(waitUnder (chanWorld r) (setTimeout s 0) .rd).2, ?_, ?_, rfl, rfl, hl, hin0⟩
      · have : handleError (chanWorld r) (setTimeout s 0) .wantRead
            = (.ok false, (waitUnder (chanWorld r) (setTimeout s 0) .rd).2) := by
          simp only [handleError]
          rw [show (waitUnder (chanWorld r) (setTimeout s 0) .rd) = ((waitUnder (chanWorld r) (setTimeout s 0) .rd).1,
            (waitUnder (chanWorld r) (setTimeout s 0) .rd).2) from rfl, hw]
          simp [hin]
        simp only [handleLastError]
        rw [show (setTimeout s 0).g.lastError = .wantRead from hl, this]
      · exact ⟨h1, h2, h3, h4, h5, Or.inr hl, h7, h8⟩

theorem handleResult_blocked (r : Bool) (s : St Hs Chan) (hc : Calm s) (hin : s.w.inb r = 0) :
    ∃ s', handleResult (chanWorld r) s .wantRead = (.ok false, s') ∧ Calm s' ∧ s'.e = s.e ∧ s'.w = s.w ∧
      s'.g.lastError = .wantRead ∧ s'.g.pendingSend = s.g.pendingSend := by
  obtain ⟨h1, h2, h3, h4⟩ := hc
  have hno : ¬ (0 < s.w.inb r) := by omega
  refine ⟨(waitUnder (chanWorld r) (setLastError s .wantRead) .rd).2, ?_, ?_, rfl, rfl, rfl, rfl⟩
  · have hw : (waitUnder (chanWorld r) (setLastError s .wantRead) .rd).1 = decide (0 < s.w.inb r) := rfl
    have : handleError (chanWorld r) (setLastError s .wantRead) .wantRead
        = (.ok false, (waitUnder (chanWorld r) (setLastError s .wantRead) .rd).2) := by
      simp only [handleError]
      rw [show (waitUnder (chanWorld r) (setLastError s .wantRead) .rd) = ((waitUnder (chanWorld r) (setLastError s .wantRead) .rd).1,
        (waitUnder (chanWorld r) (setLastError s .wantRead) .rd).2) from rfl, hw]
      simp [hno]
    simp only [handleResult, h4, handleLastError, SslAns.toErr]
    rw [show (setLastError s SslErr.wantRead).g.lastError = .wantRead from rfl, this]
  · simp [Calm, setLastError, waitUnder, underDeadline, h1, h2, h3, h4]

theorem sideInv_setNone (P : HsP) (r : Bool) (data : Bytes) (s : St Hs Chan) (hi : SideInv P r data s) :
    SideInv P r data (setLastError s .none) := by
  obtain ⟨h1, h2, h3, h4, h5, _, _, h8⟩ := hi
  exact ⟨h1, h2, h3, h4, h5, Or.inl rfl, (by intro h; cases h), h8⟩

/-- the tail of `Receive(timeout 0)` after `Read` found nothing -/
theorem recv_tail (C : Cfg) (P : HsP) (r : Bool) (data : Bytes) (s0 s1 : St Hs Chan)
    (hi : SideInv P r data s1) (ht : Tr P r s0.e s0.w s1.e s1.w)
    (hp : CanProg r s0.e s0.w → work P s1.e < work P s0.e) :
    CallRes P r data s0
      (isOk (if (0 : Int) < 0 ∧ C.asserts then (Out.abort "assert(timeout.count() >= 0) in Receive", s1)
          else if C.fixRecvReset ∧ s1.g.lastError = .wantRead ∧ (engine P).initFinished s1.e then
            ((Out.ok ([] : Bytes)), setLastError s1 .none)
          else (Out.ok [], s1)).1,
       (if (0 : Int) < 0 ∧ C.asserts then (Out.abort "assert(timeout.count() >= 0) in Receive", s1)
          else if C.fixRecvReset ∧ s1.g.lastError = .wantRead ∧ (engine P).initFinished s1.e then
            ((Out.ok ([] : Bytes)), setLastError s1 .none)
          else (Out.ok [], s1)).2) := by
  rw [if_neg (by intro h; exact absurd h.1 (by decide))]
  split
  · exact ⟨rfl, sideInv_setNone P r data s1 hi, ht, hp⟩
  · exact ⟨rfl, hi, ht, hp⟩

theorem recv_spec (C : Cfg) (hC : 0 < C.stepsMax) (P : HsP) (r : Bool) (data : Bytes) (n : Nat) (hn : 1 ≤ n)
    (s : St Hs Chan) (hi : SideInv P r data s) : CallRes P r data s (callOn C P r s (.recv n)) := by
  obtain ⟨i, hi1⟩ : ∃ i, C.stepsMax = i + 1 := ⟨C.stepsMax - 1, by omega⟩
  simp only [callOn, receiveT, tlsRead]
  rcases gate P r data s hi with ⟨s1, e1, c1, ee1, w1, l1, p1⟩ | ⟨s1, e1, i1, ee1, w1, l1, hin⟩
  · -- the call goes on: one round of the read loop
    rw [e1, hi1]
    simp only [readLoop, readRound]
    obtain ⟨ans, out, s2, e2, c2, l2, p2, t2, a2, g2⟩ := sslRead_spec P r s1 n hn c1 (by rw [ee1]; exact hi.2.2.2.2.1) (by rw [ee1]; exact hi.2.2.2.1)
    rw [e2]
    rw [ee1, w1] at t2 g2
    have hcl2 : s2.e.client = r := t2.cl.trans hi.2.2.2.1
    have hpend : s2.g.pendingSend = [] ∨ s2.g.pendingSend = data := by rw [p2, p1]; exact hi.2.2.2.2.2.2.2
    cases ans with
    | done k =>
      obtain ⟨hfin, _, hne⟩ := a2
      have hside : SideInv P r data (noteCall (engine P) s2 true [] (.done k)) :=
        ⟨c2.2.1, c2.2.2.1, c2.2.2.2, hcl2, t2.wf, Or.inl (by show s2.g.lastError = _; rw [l2, l1]),
          (by intro h; have : s2.g.lastError = .wantRead := h; rw [l2, l1] at this; cases this), hpend⟩
      cases out with
      | nil => exact absurd rfl hne
      | cons b bs =>
        simp only
        exact ⟨rfl, hside, t2, fun hcp => g2 hcp.1 hcp.2⟩
    | wantRead =>
      obtain ⟨hin2, hnw, _⟩ := a2
      obtain ⟨s3, e3, c3, ee3, w3, l3, p3⟩ := handleResult_blocked r (noteCall (engine P) s2 true [] .wantRead) c2 hin2
      simp only [e3]
      have hside : SideInv P r data s3 :=
        ⟨c3.2.1, c3.2.2.1, c3.2.2.2, by rw [ee3]; exact hcl2, by rw [ee3]; exact t2.wf, Or.inr l3,
          by intro _; rw [ee3]; exact hnw, by rw [p3]; exact hpend⟩
      have ht : Tr P r s.e s.w s3.e s3.w := by rw [ee3, w3]; exact t2
      exact recv_tail C P r data s s3 hside ht (fun hcp => by rw [ee3]; exact g2 hcp.1 hcp.2)
    | wantWrite => exact absurd a2 (by simp [AnsOK])
    | zeroReturn => exact absurd a2 (by simp [AnsOK])
    | syscallErr => exact absurd a2 (by simp [AnsOK])
    | sslErr => exact absurd a2 (by simp [AnsOK])
  · -- nothing to read and a read is awaited: the call is over at once
    rw [e1]
    simp only
    have ht : Tr P r s.e s.w s1.e s1.w := by rw [ee1, w1]; exact Tr.refl P r s.e s.w hi.2.2.2.2.1
    refine recv_tail C P r data s s1 i1 ht ?_
    intro hcp
    exfalso
    rcases hcp.2 with hwr | hpos
    · have := hi.2.2.2.2.2.2.1 l1 hcp.1; rw [this] at hwr; cases hwr
    · omega

/-- what a call has achieved so far, relative to its entry state `s0` -/
def Good (P : HsP) (r : Bool) (data : Bytes) (s0 s' : St Hs Chan) : Prop :=
  SideInv P r data s' ∧ Tr P r s0.e s0.w s'.e s'.w ∧ (CanProg r s0.e s0.w → work P s'.e < work P s0.e)

/-- the first (and only effective) round of `Write` of a zero-timeout `Send` -/
theorem writeRound_hs (C : Cfg) (P : HsP) (r : Bool) (data : Bytes) (hd : data ≠ []) (s0 s1 : St Hs Chan)
    (hi : SideInv P r data s0) (c1 : Calm s1) (ee1 : s1.e = s0.e) (w1 : s1.w = s0.w) (l1 : s1.g.lastError = .none)
    (p1 : s1.g.pendingSend = s0.g.pendingSend) (i' : Nat) (hi' : 1 ≤ i') :
    (∃ j s2, writeRound C (chanWorld r) (engine P) i' data s1 = (.again j [], s2) ∧ Good P r data s0 s2) ∨
    (∃ s3, writeRound C (chanWorld r) (engine P) i' data s1 = (.stop (.ok data), s3) ∧ Good P r data s0 s3 ∧
      s0.e.stage < 3) := by
  have hp0 : s1.g.pendingSend = [] ∨ s1.g.pendingSend = data := by rw [p1]; exact hi.2.2.2.2.2.2.2
  unfold writeRound
  rw [if_neg (by intro h; exact h.2 (hp0.imp id (congrArg List.length)))]
  obtain ⟨ans, out, s2, e2, c2, l2, p2, t2, a2, g2⟩ :=
    sslWrite_spec P r s1 data hd c1 (by rw [ee1]; exact hi.2.2.2.2.1) (by rw [ee1]; exact hi.2.2.2.1)
  rw [e2]
  rw [ee1, w1] at t2 g2
  have hcl2 : s2.e.client = r := t2.cl.trans hi.2.2.2.1
  cases ans with
  | done k =>
    obtain ⟨hfin, hk⟩ := a2
    left
    have hdrop : data.drop k = [] := by rw [hk]; simp
    have hgood : Good P r data s0 (setPending (noteCall (engine P) s2 false data (.done k)) []) :=
      ⟨⟨c2.2.1, c2.2.2.1, c2.2.2.2, hcl2, t2.wf, Or.inl (by show s2.g.lastError = _; rw [l2, l1]),
        (by intro h; have : s2.g.lastError = .wantRead := h; rw [l2, l1] at this; cases this), Or.inl rfl⟩,
       t2, fun hcp => g2 hcp.1 hcp.2⟩
    simp only
    by_cases hb : 0 < k ∧ C.fixRoundReset = true
    · rw [if_pos hb, hdrop]; exact ⟨_, _, rfl, hgood⟩
    · rw [if_neg hb, if_neg (by intro h; omega), hdrop]; exact ⟨_, _, rfl, hgood⟩
  | wantRead =>
    obtain ⟨hin2, hnw, hlt⟩ := a2
    right
    obtain ⟨s3, e3, c3, ee3, w3, l3, p3⟩ :=
      handleResult_blocked r (setPending (noteCall (engine P) s2 false data .wantRead) data) c2 hin2
    simp only [writeRetry, e3]
    refine ⟨s3, rfl, ⟨⟨c3.2.1, c3.2.2.1, c3.2.2.2, by rw [ee3]; exact hcl2, by rw [ee3]; exact t2.wf, Or.inr l3,
      by intro _; rw [ee3]; exact hnw, Or.inr (by rw [p3]; rfl)⟩, by rw [ee3, w3]; exact t2,
      fun hcp => by rw [ee3]; exact g2 hcp.1 hcp.2⟩, ?_⟩
    have := t2.st
    have hlt' : s2.e.stage < 3 := hlt
    omega
  | wantWrite => exact absurd a2 (by simp [AnsOK])
  | zeroReturn => exact absurd a2 (by simp [AnsOK])
  | syscallErr => exact absurd a2 (by simp [AnsOK])
  | sslErr => exact absurd a2 (by simp [AnsOK])

theorem send_spec (C : Cfg) (hC : 1 < C.stepsMax) (P : HsP) (r : Bool) (data : Bytes) (hd : data ≠ [])
    (s : St Hs Chan) (hi : SideInv P r data s) : CallRes P r data s (callOn C P r s (.send data)) := by
  simp only [callOn, sendT, tlsWrite]
  rcases gate P r data s hi with ⟨s1, e1, c1, ee1, w1, l1, p1⟩ | ⟨s1, e1, i1, ee1, w1, l1, hin⟩
  · rw [e1]
    simp only
    have hloop := writeLoop_rule C (chanWorld r) (engine P)
      (fun i rest s' => (rest = data ∧ s' = s1 ∧ 1 < i) ∨ (rest = [] ∧ Good P r data s s'))
      (fun o s' => (∃ rest, o = .ok rest) ∧ Good P r data s s')
      (by intro i rest s' h hex
          rcases h with ⟨h1, _, h3⟩ | ⟨h1, h2⟩
          · rcases hex with h0 | h0
            · omega
            · exact absurd (h1 ▸ h0) hd
          · exact ⟨⟨rest, rfl⟩, h2⟩)
      (by intro i' rest s' o s'' h hne heq
          rcases h with ⟨h1, h2, h3⟩ | ⟨h1, _⟩
          · subst h1; subst h2
            rcases writeRound_hs C P r rest hd s s' hi c1 ee1 w1 l1 p1 i' (by omega) with ⟨j, s2, hr, _⟩ | ⟨s3, hr, hg, _⟩
            · rw [hr] at heq; simp at heq
            · rw [hr] at heq
              simp only [Prod.mk.injEq, Next.stop.injEq] at heq
              obtain ⟨rfl, rfl⟩ := heq
              exact ⟨⟨rest, rfl⟩, hg⟩
          · exact absurd h1 hne)
      (by intro i' rest s' j rest' s'' h hne heq
          rcases h with ⟨h1, h2, h3⟩ | ⟨h1, _⟩
          · subst h1; subst h2
            rcases writeRound_hs C P r rest hd s s' hi c1 ee1 w1 l1 p1 i' (by omega) with ⟨j2, s2, hr, hg⟩ | ⟨s3, hr, _, _⟩
            · rw [hr] at heq
              simp only [Prod.mk.injEq, Next.again.injEq] at heq
              obtain ⟨⟨_, rfl⟩, rfl⟩ := heq
              exact Or.inr ⟨rfl, hg⟩
            · rw [hr] at heq; simp at heq
          · exact absurd h1 hne)
      C.stepsMax data s1 (Or.inl ⟨rfl, rfl, hC⟩)
    rcases hw : writeLoop C (chanWorld r) (engine P) C.stepsMax data s1 with ⟨o, s''⟩
    rw [hw] at hloop
    obtain ⟨⟨rest, ho⟩, hside, ht, hp⟩ := hloop
    simp only at ho
    subst ho
    simp only
    have hnw : s''.g.lastError ≠ .wantWrite := by
      rcases hside.2.2.2.2.2.1 with h | h <;> rw [h] <;> simp
    rw [if_neg (by intro h; exact hnw h.2.1)]
    exact ⟨rfl, hside, ht, hp⟩
  · rw [e1]
    simp only
    have hnw : s1.g.lastError ≠ .wantWrite := by
      rcases i1.2.2.2.2.2.1 with h | h <;> rw [h] <;> simp
    rw [if_neg (by intro h; exact hnw h.2.1)]
    refine ⟨rfl, i1, by rw [ee1, w1]; exact Tr.refl P r s.e s.w hi.2.2.2.2.1, ?_⟩
    intro hcp
    exfalso
    rcases hcp.2 with hwr | hpos
    · have := hi.2.2.2.2.2.2.1 l1 hcp.1; rw [this] at hwr; cases hwr
    · omega

/-- after the handshake, with no error cached, `Send(data, 0)` hands the whole buffer to the engine -/
theorem send_flows (C : Cfg) (hC : 1 < C.stepsMax) (P : HsP) (r : Bool) (data : Bytes) (hd : data ≠ [])
    (s : St Hs Chan) (hi : SideInv P r data s) (hfin : 3 ≤ s.e.stage) (hle : s.g.lastError = .none) :
    ∃ s', sendT C (chanWorld r) (engine P) s data 0 = (.ok data.length, s') ∧ SideInv P r data s' := by
  simp only [sendT, tlsWrite]
  rcases gate P r data s hi with ⟨s1, e1, c1, ee1, w1, l1, p1⟩ | ⟨s1, _, _, _, _, l1, _⟩
  · rw [e1]
    simp only
    have hloop := writeLoop_rule C (chanWorld r) (engine P)
      (fun i rest s' => (rest = data ∧ s' = s1 ∧ 1 < i) ∨ (rest = [] ∧ SideInv P r data s'))
      (fun o s' => o = .ok [] ∧ SideInv P r data s')
      (by intro i rest s' h hex
          rcases h with ⟨h1, _, h3⟩ | ⟨h1, h2⟩
          · rcases hex with h0 | h0
            · omega
            · exact absurd (h1 ▸ h0) hd
          · exact ⟨by rw [h1], h2⟩)
      (by intro i' rest s' o s'' h hne heq
          rcases h with ⟨h1, h2, h3⟩ | ⟨h1, _⟩
          · subst h1; subst h2
            rcases writeRound_hs C P r rest hd s s' hi c1 ee1 w1 l1 p1 i' (by omega) with ⟨j, s2, hr, _⟩ | ⟨s3, hr, _, hlt⟩
            · rw [hr] at heq; simp at heq
            · omega
          · exact absurd h1 hne)
      (by intro i' rest s' j rest' s'' h hne heq
          rcases h with ⟨h1, h2, h3⟩ | ⟨h1, _⟩
          · subst h1; subst h2
            rcases writeRound_hs C P r rest hd s s' hi c1 ee1 w1 l1 p1 i' (by omega) with ⟨j2, s2, hr, hg⟩ | ⟨s3, hr, _, hlt⟩
            · rw [hr] at heq
              simp only [Prod.mk.injEq, Next.again.injEq] at heq
              obtain ⟨⟨_, rfl⟩, rfl⟩ := heq
              exact Or.inr ⟨rfl, hg.1⟩
            · omega
          · exact absurd h1 hne)
      C.stepsMax data s1 (Or.inl ⟨rfl, rfl, hC⟩)
    rcases hw : writeLoop C (chanWorld r) (engine P) C.stepsMax data s1 with ⟨o, s''⟩
    rw [hw] at hloop
    obtain ⟨ho, hside⟩ := hloop
    simp only at ho
    subst ho
    simp only [List.length_nil, Nat.sub_zero]
    have hnw : s''.g.lastError ≠ .wantWrite := by
      rcases hside.2.2.2.2.2.1 with h | h <;> rw [h] <;> simp
    rw [if_neg (by intro h; exact hnw h.2.1)]
    exact ⟨s'', rfl, hside⟩
  · rw [hle] at l1; cases l1

/-- a call that awaits a read while nothing is there is over at once, without touching engine or channel -/
theorem gate_blocked (P : HsP) (r : Bool) (data : Bytes) (s : St Hs Chan) (hi : SideInv P r data s)
    (hl : s.g.lastError = .wantRead) (hin : s.w.inb r = 0) :
    ∃ s1, handleLastError (chanWorld r) (setTimeout s 0) = (.ok false, s1) ∧ SideInv P r data s1 ∧ s1.e = s.e ∧
      s1.w = s.w ∧ s1.g.lastError = .wantRead := by
  obtain ⟨h1, h2, h3, h4, h5, h6, h7, h8⟩ := hi
  have hw : (waitUnder (chanWorld r) (setTimeout s 0) .rd).1 = decide (0 < s.w.inb r) := rfl
  have hno : ¬ (0 < s.w.inb r) := by omega
  refine ⟨(waitUnder (chanWorld r) (setTimeout s 0) .rd).2, ?_, ?_, rfl, rfl, hl⟩
  · have : handleError (chanWorld r) (setTimeout s 0) .wantRead
        = (.ok false, (waitUnder (chanWorld r) (setTimeout s 0) .rd).2) := by
      simp only [handleError]
      rw [show (waitUnder (chanWorld r) (setTimeout s 0) .rd) = ((waitUnder (chanWorld r) (setTimeout s 0) .rd).1,
        (waitUnder (chanWorld r) (setTimeout s 0) .rd).2) from rfl, hw]
      simp [hno]
    simp only [handleLastError]
    rw [show (setTimeout s 0).g.lastError = .wantRead from hl, this]
  · exact ⟨h1, h2, h3, h4, h5, Or.inr hl, h7, h8⟩

theorem gated_send (C : Cfg) (P : HsP) (r : Bool) (data : Bytes) (s : St Hs Chan) (hi : SideInv P r data s)
    (hl : s.g.lastError = .wantRead) (hin : s.w.inb r = 0) :
    ∃ s', sendT C (chanWorld r) (engine P) s data 0 = (.ok 0, s') ∧ SideInv P r data s' ∧ s'.e = s.e ∧ s'.w = s.w ∧
      s'.g.lastError = .wantRead := by
  obtain ⟨s1, e1, i1, ee1, w1, l1⟩ := gate_blocked P r data s hi hl hin
  simp only [sendT, tlsWrite, e1]
  rw [if_neg (by intro h; rw [l1] at h; exact absurd h.2.1 (by simp))]
  exact ⟨s1, rfl, i1, ee1, w1, l1⟩

/-- before 319faf2 -/
theorem gated_recv_legacy (C : Cfg) (hleg : C.fixRecvReset = false) (P : HsP) (r : Bool) (data : Bytes) (n : Nat)
    (s : St Hs Chan) (hi : SideInv P r data s) (hl : s.g.lastError = .wantRead) (hin : s.w.inb r = 0) :
    ∃ s', receiveT C (chanWorld r) (engine P) s n 0 = (.ok [], s') ∧ SideInv P r data s' ∧ s'.e = s.e ∧ s'.w = s.w ∧
      s'.g.lastError = .wantRead := by
  obtain ⟨s1, e1, i1, ee1, w1, l1⟩ := gate_blocked P r data s hi hl hin
  simp only [receiveT, tlsRead, e1]
  rw [if_neg (by intro h; exact absurd h.1 (by decide)), if_neg (by intro h; rw [hleg] at h; exact absurd h.1 (by simp))]
  exact ⟨s1, rfl, i1, ee1, w1, l1⟩

/-! ### the two endpoints together -/

theorem rcvd_fin (P : HsP) (h : Hs) (hf : 3 ≤ h.stage) : rcvd P h = if h.client then P.k2 else P.k1 + P.k3 := by
  have h0 : h.stage ≠ 0 := by omega
  have h1 : h.stage ≠ 1 := by omega
  have h2 : h.stage ≠ 2 := by omega
  cases hc : h.client <;> simp [rcvd, hc, h0, h1, h2]

theorem sent_le (P : HsP) (h : Hs) : sent P h ≤ if h.client then P.k1 + P.k3 else P.k2 := by
  unfold sent
  cases h.client <;> simp <;> (repeat' split) <;> omega

/-- invariant of the composition: both endpoints are as between calls, and on each channel the
bytes in flight are exactly the handshake bytes written and not yet read (plus application records once
the writer has finished) -/
def SysInv (P : HsP) (dc ds : Bytes) (y : Sys) : Prop :=
  SideInv P true dc ⟨y.gc, y.ec, y.ch⟩ ∧ SideInv P false ds ⟨y.gs, y.es, y.ch⟩ ∧
  (y.ec.stage < 3 → y.ch.cs + rcvd P y.es = sent P y.ec) ∧ sent P y.ec ≤ y.ch.cs + rcvd P y.es ∧
  (y.es.stage < 3 → y.ch.sc + rcvd P y.ec = sent P y.es) ∧ sent P y.es ≤ y.ch.sc + rcvd P y.ec ∧
  y.faults = 0

theorem sysInv_init (P : HsP) (dc ds : Bytes) (segs : List Nat) : SysInv P dc ds (Sys.init P segs) := by
  have w1 := wf_init P true
  have w2 := wf_init P false
  refine ⟨⟨rfl, rfl, rfl, rfl, w1, Or.inl rfl, (by intro h; cases h), Or.inl rfl⟩,
    ⟨rfl, rfl, rfl, rfl, w2, Or.inl rfl, (by intro h; cases h), Or.inl rfl⟩, ?_, ?_, ?_, ?_, rfl⟩ <;>
  simp [Sys.init, Hs.init, sent, rcvd]

def mu (P : HsP) (y : Sys) : Nat := work P y.ec + work P y.es

/-- a call of the client -/
theorem stepC_spec (C : Cfg) (hC : 1 < C.stepsMax) (P : HsP) (dc ds : Bytes) (hdc : dc ≠ []) (n : Nat) (hn : 1 ≤ n)
    (y : Sys) (hinv : SysInv P dc ds y) (c : Call) (hc : c = .send dc ∨ c = .recv n) :
    SysInv P dc ds (y.step C P true c) ∧ (y.step C P true c).es = y.es ∧
    work P (y.step C P true c).ec ≤ work P y.ec ∧
    (CanProg true y.ec y.ch → work P (y.step C P true c).ec < work P y.ec) ∧
    y.ch.cs ≤ (y.step C P true c).ch.cs ∧ y.ec.stage ≤ (y.step C P true c).ec.stage := by
  obtain ⟨ic, is, a1, a2, a3, a4, af⟩ := hinv
  have hres : CallRes P true dc ⟨y.gc, y.ec, y.ch⟩ (callOn C P true ⟨y.gc, y.ec, y.ch⟩ c) := by
    rcases hc with rfl | rfl
    · exact send_spec C hC P true dc hdc _ ic
    · exact recv_spec C (by omega) P true dc n hn _ ic
  rcases hcall : callOn C P true ⟨y.gc, y.ec, y.ch⟩ c with ⟨ok, s'⟩
  rw [hcall] at hres
  obtain ⟨hok, hside, ht, hp⟩ := hres
  have hstep : y.step C P true c
      = { y with gc := s'.g, ec := s'.e, ch := s'.w, faults := y.faults + (if ok then 0 else 1) } := by
    simp only [Sys.step, if_true, hcall]
  rw [hstep]
  have hoe := ht.outEq; have hog := ht.outGe; have hie := ht.inEq; have hig := ht.inGe
  have hol := ht.outLe; have hst := ht.st; have hwk := ht.wk
  simp only [Chan.out, Chan.inb, if_true] at hoe hog hie hig hol hst hwk hok hp
  have hsl := sent_le P y.es
  have hscl : y.es.client = false := is.2.2.2.1
  rw [hscl] at hsl
  simp only [Bool.false_eq_true, if_false] at hsl
  have hcl' : s'.e.client = true := hside.2.2.2.1
  have hrf : 3 ≤ s'.e.stage → rcvd P s'.e = P.k2 := by
    intro h3; have := rcvd_fin P s'.e h3; rw [hcl'] at this; simpa using this
  refine ⟨⟨hside, ?_, ?_, ?_, ?_, ?_, ?_⟩, rfl, hwk, hp, hol, hst⟩
  · obtain ⟨s1, s2, s3, s4, s5, s6, s7, s8⟩ := is
    exact ⟨s1, s2, s3, s4, s5, s6, s7, s8⟩
  · dsimp only
    intro h3
    have := a1 (by omega)
    have := hoe h3
    omega
  · dsimp only; omega
  · dsimp only
    intro h3
    have hI := a3 h3
    by_cases hf : s'.e.stage < 3
    · have := hie hf; omega
    · have := hrf (by omega); omega
  · dsimp only
    by_cases hf : s'.e.stage < 3
    · have := hie hf; omega
    · have := hrf (by omega); omega
  · dsimp only; rw [hok, af]; rfl

/-- a call of the server -/
theorem stepS_spec (C : Cfg) (hC : 1 < C.stepsMax) (P : HsP) (dc ds : Bytes) (hds : ds ≠ []) (n : Nat) (hn : 1 ≤ n)
    (y : Sys) (hinv : SysInv P dc ds y) (c : Call) (hc : c = .send ds ∨ c = .recv n) :
    SysInv P dc ds (y.step C P false c) ∧ (y.step C P false c).ec = y.ec ∧
    work P (y.step C P false c).es ≤ work P y.es ∧
    (CanProg false y.es y.ch → work P (y.step C P false c).es < work P y.es) ∧
    y.ch.sc ≤ (y.step C P false c).ch.sc ∧ y.es.stage ≤ (y.step C P false c).es.stage := by
  obtain ⟨ic, is, a1, a2, a3, a4, af⟩ := hinv
  have hres : CallRes P false ds ⟨y.gs, y.es, y.ch⟩ (callOn C P false ⟨y.gs, y.es, y.ch⟩ c) := by
    rcases hc with rfl | rfl
    · exact send_spec C hC P false ds hds _ is
    · exact recv_spec C (by omega) P false ds n hn _ is
  rcases hcall : callOn C P false ⟨y.gs, y.es, y.ch⟩ c with ⟨ok, s'⟩
  rw [hcall] at hres
  obtain ⟨hok, hside, ht, hp⟩ := hres
  have hstep : y.step C P false c
      = { y with gs := s'.g, es := s'.e, ch := s'.w, faults := y.faults + (if ok then 0 else 1) } := by
    simp only [Sys.step, Bool.false_eq_true, if_false, hcall]
  rw [hstep]
  have hoe := ht.outEq; have hog := ht.outGe; have hie := ht.inEq; have hig := ht.inGe
  have hol := ht.outLe; have hst := ht.st; have hwk := ht.wk
  simp only [Chan.out, Chan.inb, Bool.false_eq_true, if_false] at hoe hog hie hig hol hst hwk hok hp
  have hsl := sent_le P y.ec
  have hccl : y.ec.client = true := ic.2.2.2.1
  rw [hccl] at hsl
  simp only [if_true] at hsl
  have hcl' : s'.e.client = false := hside.2.2.2.1
  have hrf : 3 ≤ s'.e.stage → rcvd P s'.e = P.k1 + P.k3 := by
    intro h3; have := rcvd_fin P s'.e h3; rw [hcl'] at this; simpa using this
  refine ⟨⟨?_, hside, ?_, ?_, ?_, ?_, ?_⟩, rfl, hwk, hp, hol, hst⟩
  · obtain ⟨s1, s2, s3, s4, s5, s6, s7, s8⟩ := ic
    exact ⟨s1, s2, s3, s4, s5, s6, s7, s8⟩
  · dsimp only
    intro h3
    have hI := a1 h3
    by_cases hf : s'.e.stage < 3
    · have := hie hf; omega
    · have := hrf (by omega); omega
  · dsimp only
    by_cases hf : s'.e.stage < 3
    · have := hie hf; omega
    · have := hrf (by omega); omega
  · dsimp only
    intro h3
    have := a3 (by omega)
    have := hoe h3
    omega
  · dsimp only; omega
  · dsimp only; rw [hok, af]; rfl

/-- no deadlock: while the handshake is not finished on both sides, at least one endpoint can move on -/
theorem can_progress (P : HsP) (dc ds : Bytes) (y : Sys) (hinv : SysInv P dc ds y) (hnf : ¬ y.bothFinished) :
    CanProg true y.ec y.ch ∨ CanProg false y.es y.ch := by
  obtain ⟨ic, is, a1, a2, a3, a4, _⟩ := hinv
  have hcc : y.ec.client = true := ic.2.2.2.1
  have hsc : y.es.client = false := is.2.2.2.1
  have wc := ic.2.2.2.2.1
  have ws := is.2.2.2.2.1
  have := P.h1; have := P.h2; have := P.h3
  rcases hec : y.ec with ⟨cc, cst, cnd⟩
  rcases hes : y.es with ⟨sc', sst, snd⟩
  rw [hec] at hcc wc a1 a2 a3 a4
  rw [hes] at hsc ws a1 a2 a3 a4
  simp only at hcc hsc
  subst hcc; subst hsc
  simp only [Sys.bothFinished, hec, hes] at hnf
  simp only [CanProg, Chan.inb, if_true, Bool.false_eq_true, if_false, Hs.writes]
  have hcn := wc.1; have hcz := wc.2
  have hsn := ws.1; have hsz := ws.2
  simp only at hcn hcz hsn hsz
  by_cases hcf : cst < 3
  · have hc1 := hcn hcf
    have hcst : cst = 0 ∨ cst = 1 ∨ cst = 2 := by omega
    rcases hcst with rfl | rfl | rfl
    · left; simp
    · -- the client reads S1
      by_cases hsc0 : 0 < y.ch.sc
      · left; simp [hsc0]
      · right
        have hsst : sst = 0 ∨ sst = 1 ∨ 2 ≤ sst := by omega
        rcases hsst with rfl | rfl | h2
        · have hs1 := hsn (by omega)
          have hI := a1 (by omega)
          simp [sent, rcvd, HsP.flight] at hI hs1 hc1 ⊢
          omega
        · simp
        · exfalso
          have h2' : sst ≠ 0 := by omega
          have h2'' : sst ≠ 1 := by omega
          simp [sent, rcvd, HsP.flight, h2', h2''] at a4 hc1
          omega
    · left; simp
  · right
    have hsf : sst < 3 := by omega
    have hs1 := hsn hsf
    have hsst : sst = 0 ∨ sst = 1 ∨ sst = 2 := by omega
    have c0 : cst ≠ 0 := by omega
    have c1 : cst ≠ 1 := by omega
    have c2 : cst ≠ 2 := by omega
    rcases hsst with rfl | rfl | rfl
    · simp [sent, rcvd, HsP.flight, c0, c1, c2] at a2 hs1 ⊢
      omega
    · simp
    · simp [sent, rcvd, HsP.flight, c0, c1, c2] at a2 hs1 ⊢
      omega

end SockModel.Hs

import SockModel.Model.Net
import SockModel.Generated.Consts
/-
Model of the library's TLS *glue* (src/socket_tls_impl.cpp): `lastError`,
`pendingSend`, `remainingTime`, `isReadable/isWritable`, `driverSendSuppressed`;
the `Read`/`Write` retry loops, `HandleError`/`HandleLastError`/`HandleResult`,
the BIO tunnel (`BioRead`/`BioWrite`), `DriverQuery`, `DriverPending` and the four
entry points `Receive(timeout)`, `Receive()` (driver: readable), `Send(timeout)`,
`SendSome()` (driver: writable) - over

* an abstract **engine** (OpenSSL): `ssl_read`/`ssl_write` are *programs* that may call
  the BIO callbacks any number of times, adaptively, before answering
  `SslAns = done k | wantRead | wantWrite | zeroReturn | syscallErr | sslErr`
  (`EngProg`, an interaction tree), plus `init_finished`;
* an abstract **world** (the OS below the descriptor, `Net.World`).

The code modelled is /repo as it is NOW, including the repairs
  319faf2 (Receive(timeout) resets a stale WANT_READ once the handshake is finished),
  e3dfab5 (successful partial writes do not count as handshake rounds),
  ee81033 (Send(timeout) resets a stale WANT_WRITE once the handshake is finished),
  b68eb89 (no session tickets: engine configuration, invisible to the glue),
  d6dcd55 (a socket failure inside a BIO callback is stashed in `pendingError`, the callback returns -1,
           `HandleResult` makes the failure sticky and rethrows it - no C++ exception crosses libssl);
the first three are flags of `Cfg`, the pre-fix behaviour is `Cfg.legacy…` (Props/C18.lean proves
that each pre-fix variant violates the property on a concrete history).
-/
namespace SockModel.Tls
open SockModel.Net

/-- values of `lastError` (SSL_ERROR_*) -/
inductive SslErr where
  | none | wantRead | wantWrite | zeroReturn | syscall | ssl
  deriving DecidableEq, Repr

/-- what `SSL_read` / `SSL_write_ex` + `SSL_get_error` tell the glue -/
inductive SslAns where
  | done (k : Nat)      -- success: k plaintext bytes read / written
  | wantRead | wantWrite | zeroReturn | syscallErr | sslErr
  deriving DecidableEq, Repr

def SslAns.toErr : SslAns → SslErr
  | .done _ => .none
  | .wantRead => .wantRead
  | .wantWrite => .wantWrite
  | .zeroReturn => .zeroReturn
  | .syscallErr => .syscall
  | .sslErr => .ssl

def SslAns.isDone : SslAns → Bool
  | .done _ => true
  | _ => false

/-- one call into the engine: it may call the BIO callbacks (and look at what they return)
before it answers.  `out` of `ret` is the plaintext an `SSL_read` hands to the caller. -/
inductive EngProg (σ : Type) where
  | ret (ans : SslAns) (out : Bytes) (s : σ)
  | bioRead (n : Nat) (k : Option Bytes → EngProg σ)    -- `some []` = returned 0 (retry-read set); `none` = returned -1
  | bioWrite (bs : Bytes) (k : Option Nat → EngProg σ)  -- the callback's return value; `none` = -1 (socket failure)

structure Engine (σ : Type) where
  sslRead : σ → Nat → EngProg σ
  sslWrite : σ → Bytes → EngProg σ
  initFinished : σ → Bool
  /-- `SSL_pending() > 0`: decrypted application data of a record that was only partly read is held
  inside the engine (no further wire event will announce it) -/
  pending : σ → Bool := fun _ => false
  /-- `SSL_shutdown()`: sends the close_notify alert through the write BIO (if that has not happened yet) and looks for the
  peer's.  `.done (k+1)` = both alerts exchanged (returns 1), `.done 0` = ours is out, the peer's is not in yet (returns 0),
  anything else = failure (returns -1: the alert could not be written, or a fatal error) -/
  sslShutdown : σ → EngProg σ := fun s => .ret (.done 1) [] s

/-- every way the program can end satisfies `P` -/
inductive AllLeaves {σ : Type} (P : SslAns → Bytes → σ → Prop) : EngProg σ → Prop where
  | ret {a o s} : P a o s → AllLeaves P (.ret a o s)
  | bioRead {n k} : (∀ r, AllLeaves P (k r)) → AllLeaves P (.bioRead n k)
  | bioWrite {bs k} : (∀ r, AllLeaves P (k r)) → AllLeaves P (.bioWrite bs k)

structure Cfg where
  stepsMax : Nat := 10
  /-- `assert`s compiled in (the `asan`/`tls` flavours) or out (`-DNDEBUG`) -/
  asserts : Bool := true
  /-- 319faf2 -/
  fixRecvReset : Bool := true
  /-- e3dfab5 -/
  fixRoundReset : Bool := true
  /-- ee81033 -/
  fixSendReset : Bool := true

/-- `handshakeStepsMax` as extracted from the source on this run -/
def stepsMaxConst : Nat := (SockModel.Consts.handshakeStepsMax.getD 10).toNat

def Cfg.current : Cfg := { stepsMax := stepsMaxConst }
def Cfg.legacyRecvReset : Cfg := { Cfg.current with fixRecvReset := false }
def Cfg.legacyRoundReset : Cfg := { Cfg.current with fixRoundReset := false }
def Cfg.legacySendReset : Cfg := { Cfg.current with fixSendReset := false }

/-- ghost record of one BIO write: the buffer the engine offered and how much of it reached the kernel -/
structure BioW where
  buf : Bytes
  accepted : Nat
  deriving DecidableEq, Repr

/-- ghost record of one engine call -/
structure EngCall where
  isRead : Bool
  arg : Bytes          -- the plaintext passed to `ssl_write` (`[]` for reads)
  ans : SslAns
  initAfter : Bool
  deriving DecidableEq, Repr

structure Glue where
  lastError : SslErr := .none
  pendingSend : Bytes := []
  remainingTime : Int := 0
  isReadable : Bool := false
  isWritable : Bool := false
  driverSendSuppressed : Bool := false
  /-- a socket failure raised inside a BIO callback, to be rethrown once the engine has returned -/
  pendingError : Option Exn := none
  -- ghost state (never read by the model's control flow)
  wire : Bytes := []               -- every byte the raw `send` accepted, in order
  bioWrites : List BioW := []      -- newest first
  engCalls : List EngCall := []    -- newest first

/-- what a call can end with -/
inductive Out (α : Type) where
  | ok (a : α)
  | exn (e : Exn)
  | abort (why : String)       -- a failing `assert` (asserts flavour only)
  deriving Repr, DecidableEq

structure St (σ ω : Type) where
  g : Glue
  e : σ
  w : ω

variable {σ ω : Type}

def setTimeout (s : St σ ω) (t : Int) : St σ ω := { s with g := { s.g with remainingTime := t } }
def setLastError (s : St σ ω) (e : SslErr) : St σ ω := { s with g := { s.g with lastError := e } }
def setPending (s : St σ ω) (p : Bytes) : St σ ω := { s with g := { s.g with pendingSend := p } }
/-- "we have been deemed readable": zero budget, `isReadable`, a cached WANT_READ is forgotten -/
def prepReadable (s : St σ ω) : St σ ω :=
  { s with g := { s.g with remainingTime := 0, isReadable := true,
                           lastError := if s.g.lastError = .wantRead then .none else s.g.lastError } }
/-- "we have been deemed writable" -/
def prepWritable (s : St σ ω) : St σ ω :=
  { s with g := { s.g with remainingTime := 0, isWritable := true,
                           lastError := if s.g.lastError = .wantWrite then .none else s.g.lastError } }

/-- `UnderDeadline`: a positive budget shrinks by the time that passed, never below 0 -/
def underDeadline (t : Int) (before after : Int) : Int :=
  if t ≤ 0 then t else remainingMs (before + t) after

/-- `WaitReadable/WaitWritable(fd, remainingTime)` under `UnderDeadline` -/
def waitUnder (W : World ω) (s : St σ ω) (d : Dir) : Bool × St σ ω :=
  let t := s.g.remainingTime
  let (r, w') := W.wait s.w d t
  (r, { s with w := w', g := { s.g with remainingTime := underDeadline t (W.now s.w) (W.now w') } })

/-- `HandleError(error)` -/
def handleError (W : World ω) (s : St σ ω) (err : SslErr) : Out Bool × St σ ω :=
  match err with
  | .none => (.ok true, s)
  | .wantRead => let (r, s') := waitUnder W s .rd; (.ok r, s')
  | .wantWrite => let (r, s') := waitUnder W s .wr; (.ok r, s')
  | .ssl => (.exn .sslError, s)
  | .syscall => (.exn (.system 0), s)
  | .zeroReturn => (.exn .closed, s)

/-- `HandleLastError()` -/
def handleLastError (W : World ω) (s : St σ ω) : Out Bool × St σ ω :=
  match handleError W s s.g.lastError with
  | (.ok true, s') => (.ok true, setLastError s' .none)
  | r => r

/-- `HandleResult(res)`: `lastError = SSL_get_error(...)`; a failure stashed by a BIO callback makes the
session unusable (`lastError = SSL_ERROR_SYSCALL`, sticky) and is rethrown; else `HandleLastError()` -/
def handleResult (W : World ω) (s : St σ ω) (ans : SslAns) : Out Bool × St σ ω :=
  match s.g.pendingError with
  | some e => (.exn e, { s with g := { s.g with lastError := .syscall, pendingError := none } })
  | none => handleLastError W (setLastError s ans.toErr)

/-- `BioRead(data, size)`: what the read BIO hands to the engine (`[]` = 0 bytes, retry) -/
def bioRead (W : World ω) (s : St σ ω) (n : Nat) : Out Bytes × St σ ω :=
  if s.g.isReadable then
    let s := { s with g := { s.g with isReadable := false } }
    match recvNow W s.w n with
    | .got bs w' => (.ok bs, { s with w := w' })
    | .nothing w' => (.ok [], { s with w := w' })
    | .exn e w' => (.exn e, { s with w := w' })
  else
    let t := s.g.remainingTime
    let before := W.now s.w
    match receive W s.w n t with
    | .got bs w' => (.ok bs, { s with w := w', g := { s.g with remainingTime := underDeadline t before (W.now w') } })
    | .nothing w' => (.ok [], { s with w := w', g := { s.g with remainingTime := underDeadline t before (W.now w') } })
    | .exn e w' => (.exn e, { s with w := w' })

/-- bookkeeping shared by all branches of `BioWrite` -/
def noteWrite (s : St σ ω) (bs : Bytes) (r : SendRes ω) (rem : Int) : Out Nat × St σ ω :=
  let g := { s.g with wire := s.g.wire ++ bs.take r.sent, bioWrites := ⟨bs, r.sent⟩ :: s.g.bioWrites }
  match r.exn with
  | some e => (.exn e, { s with g := g, w := r.w })     -- thrown before `remainingTime` is written back
  | none => (.ok r.sent, { s with g := { g with remainingTime := rem }, w := r.w })

/-- `BioWrite(data, size)`: routed by `isWritable` and the sign of `remainingTime` -/
def bioWrite (W : World ω) (s : St σ ω) (bs : Bytes) : Out Nat × St σ ω :=
  if s.g.isWritable then
    let s := { s with g := { s.g with isWritable := false } }
    noteWrite s bs (sendNow W s.w bs) s.g.remainingTime
  else if s.g.remainingTime < 0 then
    noteWrite s bs (sendAll W s.w bs) s.g.remainingTime
  else if s.g.remainingTime = 0 then
    noteWrite s bs (sendTry W s.w bs) s.g.remainingTime
  else
    let now := W.now s.w
    let deadline := now + s.g.remainingTime
    let (r, tick) := sendSome W s.w bs deadline now
    noteWrite s bs r (if r.sent = bs.length then remainingMs deadline tick else 0)

def stash (s : St σ ω) (e : Exn) : St σ ω := { s with g := { s.g with pendingError := some e } }

/-- run one engine call: the glue answers the engine's BIO calls.  A socket failure inside a callback does
not unwind through the engine: it is stashed, the callback returns -1 and the engine goes on (d6dcd55). -/
def interp (W : World ω) (s : St σ ω) : EngProg σ → Out (SslAns × Bytes) × St σ ω
  | .ret ans out e' => (.ok (ans, out), { s with e := e' })
  | .bioRead n k =>
    match bioRead W s n with
    | (.ok bs, s') => interp W s' (k (some bs))
    | (.exn e, s') => interp W (stash s' e) (k none)
    | (.abort m, s') => (.abort m, s')
  | .bioWrite bs k =>
    match bioWrite W s bs with
    | (.ok n, s') => interp W s' (k (some n))
    | (.exn e, s') => interp W (stash s' e) (k none)
    | (.abort m, s') => (.abort m, s')

def noteCall (E : Engine σ) (s : St σ ω) (isRead : Bool) (arg : Bytes) (ans : SslAns) : St σ ω :=
  { s with g := { s.g with engCalls := ⟨isRead, arg, ans, E.initFinished s.e⟩ :: s.g.engCalls } }

/-- how one round of a retry loop ends -/
inductive Next where
  | stop (o : Out Bytes)                 -- the loop ends with this result
  | again (i : Nat) (rest : Bytes)       -- next round with `i` rounds left and `rest` unsent
  deriving Repr

/-- one round of the loop of `Read(data, size)` with `i` rounds left after this one;
`none` = go round again -/
def readRound (C : Cfg) (W : World ω) (E : Engine σ) (size : Nat) (i : Nat) (s : St σ ω) : Option (Out Bytes) × St σ ω :=
  match interp W s (E.sslRead s.e size) with
  | (.exn e, s') => (some (.exn e), s')
  | (.abort m, s') => (some (.abort m), s')
  | (.ok (ans, out), s1) =>
    let s1 := noteCall E s1 true [] ans
    match ans with
    | .done _ => (some (.ok out), s1)
    | _ =>
      match handleResult W s1 ans with
      | (.exn e, s2) => (some (.exn e), s2)
      | (.abort m, s2) => (some (.abort m), s2)
      | (.ok false, s2) => (some (.ok []), s2)
      | (.ok true, s2) =>
        if i = 0 ∧ C.asserts then (some (.abort "assert(i < handshakeStepsMax) in Read"), s2)
        else (none, s2)

/-- the loop of `Read(data, size)`; `i` counts from `stepsMax` down -/
def readLoop (C : Cfg) (W : World ω) (E : Engine σ) (size : Nat) : Nat → St σ ω → Out Bytes × St σ ω
  | 0, s => (.ok [], s)
  | i + 1, s =>
    match readRound C W E size i s with
    | (some o, s') => (o, s')
    | (none, s') => readLoop C W E size i s'

/-! ### `Shutdown()` (run by the destructor unless the last error was fatal; whatever it throws is swallowed there) -/

/-- "`SSL_shutdown` returned 1": both close_notify alerts are exchanged -/
def SslAns.shutDone : SslAns → Bool
  | .done (_ + 1) => true
  | _ => false

/-- what `SSL_shutdown` returns -/
def shutRes (ans : SslAns) : Int :=
  match ans with
  | .done (_ + 1) => 1
  | .done 0 => 0
  | _ => -1

/-- the size of the local buffer `Shutdown` drains into -/
def shutdownBuf : Nat := 1024

/-- one `SSL_shutdown()`: one run of the engine -/
def shutCall (W : World ω) (E : Engine σ) (s : St σ ω) : Out SslAns × St σ ω :=
  match interp W s (E.sslShutdown s.e) with
  | (.ok (ans, _), s1) => (.ok ans, s1)
  | (.exn e, s1) => (.exn e, s1)
  | (.abort m, s1) => (.abort m, s1)

/-- the second `(void)SSL_shutdown()` after the drain loop -/
def shutFinish (W : World ω) (E : Engine σ) (s : St σ ω) : Out Unit × St σ ω :=
  match shutCall W E s with
  | (.ok _, s1) => (.ok (), s1)
  | (.exn e, s1) => (.exn e, s1)
  | (.abort m, s1) => (.abort m, s1)

/-- the drain loop of `Shutdown` with `i` rounds left: whatever the peer has sent is READ (and thrown away) until the
peer's close_notify / end of stream (`SSL_read` returns 0), a failure `HandleResult` does not want retried (budget used up,
nothing more to come) or `handshakeStepsMax` rounds; then the second `SSL_shutdown`.  Reading is what keeps the kernel
from answering the close that follows with a reset, which would discard data still queued for sending (C15). -/
def drainLoop (W : World ω) (E : Engine σ) : Nat → St σ ω → Out Unit × St σ ω
  | 0, s => shutFinish W E s
  | i + 1, s =>
    match interp W s (E.sslRead s.e shutdownBuf) with
    | (.exn e, s') => (.exn e, s')
    | (.abort m, s') => (.abort m, s')
    | (.ok (ans, _), s1) =>
      let s1 := noteCall E s1 true [] ans
      match ans with
      | .done _ => drainLoop W E i s1
      | .zeroReturn => shutFinish W E s1
      | _ =>
        match handleResult W s1 ans with
        | (.exn e, s2) => (.exn e, s2)
        | (.abort m, s2) => (.abort m, s2)
        | (.ok false, s2) => shutFinish W E s2
        | (.ok true, s2) => drainLoop W E i s2

/-- the state `Shutdown` starts its engine calls in: no stale readiness, a budget of one second for all of it -/
def shutdownPrep (s : St σ ω) : St σ ω :=
  setTimeout { s with g := { s.g with isReadable := false, isWritable := false } } 1000

/-- `Shutdown()` -/
def tlsShutdown (C : Cfg) (W : World ω) (E : Engine σ) (s : St σ ω) : Out Unit × St σ ω :=
  match shutCall W E (shutdownPrep s) with
  | (.exn e, s1) => (.exn e, s1)
  | (.abort m, s1) => (.abort m, s1)
  | (.ok ans, s1) => if ans.shutDone then (.ok (), s1) else drainLoop W E C.stepsMax s1

/-- `Read(data, size)` -/
def tlsRead (C : Cfg) (W : World ω) (E : Engine σ) (s : St σ ω) (size : Nat) : Out Bytes × St σ ω :=
  match handleLastError W s with
  | (.ok true, s') => readLoop C W E size C.stepsMax s'
  | (.ok false, s') => (.ok [], s')
  | (.exn e, s') => (.exn e, s')
  | (.abort m, s') => (.abort m, s')

/-- the `res <= 0` branch of a round of `Write`: `pendingSend = remaining` was just set; `HandleResult` decides
whether to go round again with the same bytes -/
def writeRetry (C : Cfg) (W : World ω) (i' : Nat) (rest : Bytes) (s2 : St σ ω) (ans : SslAns) : Next × St σ ω :=
  match handleResult W s2 ans with
  | (.exn e, s3) => (.stop (.exn e), s3)
  | (.abort m, s3) => (.stop (.abort m), s3)
  | (.ok false, s3) => (.stop (.ok rest), s3)
  | (.ok true, s3) =>
    if i' = 0 ∧ C.asserts then (.stop (.abort "assert(i < handshakeStepsMax) in Write"), s3)
    else (.again i' rest, s3)

/-- one round of the loop of `Write(data, size)`: `rest` (non-empty) is the unsent suffix, `i'` rounds are
left after this one.  Since e3dfab5 a successful partial write makes the full budget available again. -/
def writeRound (C : Cfg) (W : World ω) (E : Engine σ) (i' : Nat) (rest : Bytes) (s : St σ ω) : Next × St σ ω :=
  if C.asserts ∧ ¬ (s.g.pendingSend = [] ∨ s.g.pendingSend.length = rest.length) then
    (.stop (.abort "assert(pendingSend.empty() || pendingSend.size() == remaining.size())"), s)
  else
    match interp W s (E.sslWrite s.e rest) with
    | (.exn e, s') => (.stop (.exn e), s')
    | (.abort m, s') => (.stop (.abort m), s')
    | (.ok (ans, _), s1) =>
      let s1 := noteCall E s1 false rest ans
      match ans with
      | .done k =>
        let s2 := setPending s1 []
        if 0 < k ∧ C.fixRoundReset then (.again C.stepsMax (rest.drop k), s2)   -- `i = 0;` then `++i`
        else if i' = 0 ∧ C.asserts then (.stop (.abort "assert(i < handshakeStepsMax) in Write"), s2)
        else (.again i' (rest.drop k), s2)
      | _ => writeRetry C W i' rest (setPending s1 rest) ans

/-- the measure of the write loop: bytes left, then rounds left -/
def roundDecreases (rest : Bytes) (i' : Nat) (rest' : Bytes) (j : Nat) : Prop :=
  rest'.length < rest.length ∨ (rest'.length = rest.length ∧ j ≤ i')

instance (rest : Bytes) (i' : Nat) (rest' : Bytes) (j : Nat) : Decidable (roundDecreases rest i' rest' j) := by
  unfold roundDecreases; exact inferInstance

/-- the loop of `Write(data, size)`; returns the unsent suffix.  The `else` branch of the progress
test is unreachable (`writeRound_decreases` in TlsLemmas); it only makes the termination argument local. -/
def writeLoop (C : Cfg) (W : World ω) (E : Engine σ) (i : Nat) (rest : Bytes) (s : St σ ω) : Out Bytes × St σ ω :=
  match i with
  | 0 => (.ok rest, s)
  | i' + 1 =>
    if rest = [] then (.ok rest, s)
    else
      match writeRound C W E i' rest s with
      | (.stop o, s') => (o, s')
      | (.again j rest', s') =>
        if h : roundDecreases rest i' rest' j then writeLoop C W E j rest' s'
        else (.abort "unreachable", s')
termination_by (rest.length, i)
decreasing_by
  rcases h with h | ⟨h1, h2⟩
  · exact Prod.Lex.left _ _ h
  · rw [h1]; exact Prod.Lex.right _ (by omega)

/-- `Write(data, size)`: returns the number of plaintext bytes the engine took -/
def tlsWrite (C : Cfg) (W : World ω) (E : Engine σ) (s : St σ ω) (data : Bytes) : Out Nat × St σ ω :=
  match handleLastError W s with
  | (.ok true, s') =>
    match writeLoop C W E C.stepsMax data s' with
    | (.ok rest, s'') => (.ok (data.length - rest.length), s'')
    | (.exn e, s'') => (.exn e, s'')
    | (.abort m, s'') => (.abort m, s'')
  | (.ok false, s') => (.ok 0, s')
  | (.exn e, s') => (.exn e, s')
  | (.abort m, s') => (.abort m, s')

/-! ### entry points -/

/-- `Receive(data, size, timeout)`; `.ok []` is `std::nullopt` -/
def receiveT (C : Cfg) (W : World ω) (E : Engine σ) (s : St σ ω) (size : Nat) (timeout : Int) : Out Bytes × St σ ω :=
  match tlsRead C W E (setTimeout s timeout) size with
  | (.ok [], s') =>
    if timeout < 0 ∧ C.asserts then (.abort "assert(timeout.count() >= 0) in Receive", s')
    else if C.fixRecvReset ∧ s'.g.lastError = .wantRead ∧ E.initFinished s'.e then
      (.ok [], setLastError s' .none)
    else (.ok [], s')
  | r => r

/-- `Receive(data, size)`: the driver has deemed the socket readable -/
def receiveReadable (C : Cfg) (W : World ω) (E : Engine σ) (s : St σ ω) (size : Nat) : Out Bytes × St σ ω :=
  match tlsRead C W E (prepReadable s) size with
  | (.ok [], s') =>
    if E.initFinished s'.e then (.ok [], setLastError s' .none)
    else (.ok [], s')
  | r => r

/-- `Send(data, size, timeout)` -/
def sendT (C : Cfg) (W : World ω) (E : Engine σ) (s : St σ ω) (data : Bytes) (timeout : Int) : Out Nat × St σ ω :=
  match tlsWrite C W E (setTimeout s timeout) data with
  | (.ok n, s') =>
    if C.fixSendReset ∧ s'.g.lastError = .wantWrite ∧ E.initFinished s'.e then
      (.ok n, setLastError s' .none)
    else (.ok n, s')
  | r => r

/-- `SendSome(data, size)`: the driver has deemed the socket writable -/
def sendSomeWritable (C : Cfg) (W : World ω) (E : Engine σ) (s : St σ ω) (data : Bytes) : Out Nat × St σ ω :=
  tlsWrite C W E (prepWritable s) data

/-- `DriverQuery(events)`: only the POLLOUT bit of `events` is touched -/
def driverQuery (E : Engine σ) (s : St σ ω) (pollOut : Bool) : Bool × St σ ω :=
  if ¬ E.initFinished s.e then
    if s.g.lastError = .wantWrite then (true, s)
    else if s.g.lastError = .wantRead then
      (false, { s with g := { s.g with driverSendSuppressed := s.g.driverSendSuppressed || pollOut } })
    else (pollOut, s)
  else if s.g.driverSendSuppressed then
    (true, { s with g := { s.g with driverSendSuppressed := false } })
  else (pollOut, s)

/-- the return value of `DriverQuery` (since the repair of F8): received data is held already, the driver
must not wait for the descriptor and must treat this socket as readable -/
def driverReceived (E : Engine σ) (s : St σ ω) : Bool := E.pending s.e

/-- `DriverPending()`: writable with nothing queued - advance the handshake -/
def driverPending (C : Cfg) (W : World ω) (E : Engine σ) (s : St σ ω) : Out Unit × St σ ω :=
  if E.initFinished s.e then (.ok (), s)
  else
    match tlsRead C W E (prepWritable s) 64 with
    | (.ok [], s') => (.ok (), s')
    | (.ok _, s') => (.exn (.logic "unexpected recceive"), s')
    | (.exn e, s') => (.exn e, s')
    | (.abort m, s') => (.abort m, s')

/-! ### histories of calls on one (synchronous or driver-operated) TLS socket -/

inductive Op where
  | recvT (size : Nat) (timeout : Int)     -- Receive(data, size, timeout)
  | recvReadable (size : Nat)              -- Receive(data, size)   [driver: readable]
  | sendT (data : Bytes) (timeout : Int)   -- Send(data, size, timeout)
  | sendWritable (data : Bytes)            -- SendSome(data, size)  [driver: writable]
  | query (pollOut : Bool)                 -- DriverQuery(events)
  | pending                                -- DriverPending()
  deriving Repr

/-- perform one call; only the state is kept (results are the business of the per-call theorems) -/
def apply (C : Cfg) (W : World ω) (E : Engine σ) (s : St σ ω) : Op → St σ ω
  | .recvT n t => (receiveT C W E s n t).2
  | .recvReadable n => (receiveReadable C W E s n).2
  | .sendT d t => (sendT C W E s d t).2
  | .sendWritable d => (sendSomeWritable C W E s d).2
  | .query po => (driverQuery E s po).2
  | .pending => (driverPending C W E s).2

def run (C : Cfg) (W : World ω) (E : Engine σ) (s : St σ ω) (ops : List Op) : St σ ω :=
  ops.foldl (apply C W E) s

/-! ### the asynchronous socket on top (src/socket_async_impl.cpp, src/driver_impl.cpp), as far as
the TLS glue is concerned: the send queue, the POLLOUT bit of the socket's `pollfd`, the handlers -/

inductive FutRes where
  | ok | exn
  deriving DecidableEq, Repr

structure Async where
  sendQ : List Bytes := []        -- front first; a partly sent front buffer holds its rest
  pollOut : Bool := false         -- POLLOUT in pfd.events
  registered : Bool := true       -- still in the driver's socket list
  futures : List FutRes := []     -- resolved promises, newest first (ghost)
  delivered : List Bytes := []    -- buffers handed to onReceive, newest first (ghost)
  disconnects : Nat := 0          -- invocations of the disconnect handler (ghost)

structure ASt (σ ω : Type) where
  a : Async
  s : St σ ω

/-- `SocketAsyncImpl::Send(buffer)`: enqueue; `AsyncWantSend` if the queue was empty -/
def enqueue (x : ASt σ ω) (buf : Bytes) : ASt σ ω :=
  let wasEmpty := x.a.sendQ.isEmpty
  { x with a := { x.a with sendQ := x.a.sendQ ++ [buf],
                           pollOut := if wasEmpty ∧ x.a.registered then true else x.a.pollOut } }

/-- `DriverQuery` through `QuerySockets` -/
def aQuery (E : Engine σ) (x : ASt σ ω) : ASt σ ω :=
  if ¬ x.a.registered then x else
  let (po, s') := driverQuery E x.s x.a.pollOut
  { a := { x.a with pollOut := po }, s := s' }

/-- `onError` of a TCP socket = `DriverDisconnect`: unregister, call the handler -/
def aDisconnect (x : ASt σ ω) : ASt σ ω :=
  { x with a := { x.a with registered := false, disconnects := x.a.disconnects + 1 } }

/-- `DriverOnReadable` = `DriverReceive`.  The result is what leaves `Driver::Step`
(`.exn` only for exceptions that are not `std::runtime_error`s). -/
def aReadable (C : Cfg) (W : World ω) (E : Engine σ) (rxSize : Nat) (x : ASt σ ω) : Out Unit × ASt σ ω :=
  match receiveReadable C W E x.s rxSize with
  | (.ok [], s') => (.ok (), { x with s := s' })
  | (.ok bs, s') => (.ok (), { a := { x.a with delivered := bs :: x.a.delivered }, s := s' })
  | (.exn e, s') =>
    if e.isRuntime then (.ok (), aDisconnect { x with s := s' }) else (.exn e, { x with s := s' })
  | (.abort m, s') => (.abort m, { x with s := s' })

/-- `DriverOnWritable` = `DriverSend`, followed by DoOneSocketTask's `events &= ~POLLOUT` when it returns true -/
def aWritable (C : Cfg) (W : World ω) (E : Engine σ) (x : ASt σ ω) : Out Unit × ASt σ ω :=
  match x.a.sendQ with
  | [] =>
    match driverPending C W E x.s with
    | (.ok (), s') => (.ok (), { a := { x.a with pollOut := false }, s := s' })
    | (.exn e, s') => (.exn e, { x with s := s' })       -- not inside the try block: leaves Step
    | (.abort m, s') => (.abort m, { x with s := s' })
  | buf :: rest =>
    match sendSomeWritable C W E x.s buf with
    | (.ok n, s') =>
      if n = buf.length then
        (.ok (), { a := { x.a with sendQ := rest, futures := .ok :: x.a.futures,
                                   pollOut := if rest.isEmpty then false else x.a.pollOut }, s := s' })
      else (.ok (), { a := { x.a with sendQ := buf.drop n :: rest }, s := s' })
    | (.exn e, s') =>
      if e.isRuntime then
        (.ok (), { a := { x.a with sendQ := rest, futures := .exn :: x.a.futures,
                                   pollOut := if rest.isEmpty then false else x.a.pollOut }, s := s' })
      else (.exn e, { x with s := s' })
    | (.abort m, s') => (.abort m, { x with s := s' })

/-- what `poll` reported for the socket -/
structure REvents where
  rd : Bool := false
  wr : Bool := false
  hupErr : Bool := false
  deriving DecidableEq, Repr

/-- `DoOneSocketTask` for this socket: POLLIN, else POLLOUT, else HUP|ERR -/
def aTask (C : Cfg) (W : World ω) (E : Engine σ) (rxSize : Nat) (x : ASt σ ω) (rev : REvents) : Out Unit × ASt σ ω :=
  if ¬ x.a.registered then (.ok (), x)
  else if rev.rd then aReadable C W E rxSize x
  else if rev.wr ∧ x.a.pollOut then aWritable C W E x
  else if rev.hupErr then (.ok (), aDisconnect x)
  else (.ok (), x)

/-- events in the life of an asynchronous TLS socket: the user enqueues a buffer; the driver steps
(`DriverQuery`, `poll`, then at most one task for what `poll` reported) -/
inductive AEv where
  | enq (buf : Bytes)
  | step (rev : REvents)
  /-- a step in which this socket is the one `QuerySockets` returns (the first socket whose `DriverQuery`
  answered "received data is held already", if it did): `DoOneSocketTask(received)` treats it as readable
  whatever `poll` (called with timeout 0) reported -/
  | stepFirst (rev : REvents)
  deriving Repr

/-- the revents `DoOneSocketTask(received)` acts on for the socket `QuerySockets` returned -/
def forcedRev (E : Engine σ) (x : ASt σ ω) (rev : REvents) : REvents :=
  if x.a.registered ∧ driverReceived E x.s then { rev with rd := true } else rev

def aApply (C : Cfg) (W : World ω) (E : Engine σ) (rxSize : Nat) (x : ASt σ ω) : AEv → ASt σ ω
  | .enq buf => enqueue x buf
  | .step rev => (aTask C W E rxSize (aQuery E x) rev).2
  | .stepFirst rev => (aTask C W E rxSize (aQuery E x) (forcedRev E (aQuery E x) rev)).2

def aRun (C : Cfg) (W : World ω) (E : Engine σ) (rxSize : Nat) (x : ASt σ ω) (evs : List AEv) : ASt σ ω :=
  evs.foldl (aApply C W E rxSize) x

end SockModel.Tls

import SockModel.Model.SendLoop
/-! Helper lemmas about the blocking socket layer model: what each primitive does to
`wire`, to the clock and to the list of poll arguments. -/
namespace SockModel.SendLoop
open SockModel.Deadline

def callBytes : Call → Bytes
  | .send _ acc => acc
  | _ => []

theorem wire_eq (os : Os) : wire os = (os.calls.reverse.map callBytes).flatten := by
  unfold wire callBytes; rfl

theorem wire_cons (os : Os) (c : Call) (os' : Os) (h : os'.calls = c :: os.calls) :
    wire os' = wire os ++ callBytes c := by
  rw [wire_eq, wire_eq, h]; simp

/-! ### pollOnce -/

theorem pollOnce_calls {t : Int} {os os' : Os} {a : PollAns} (h : pollOnce t os = some (a, os')) :
    os'.calls = .poll t :: os.calls ∧ os'.sends = os.sends ∧ os'.recvs = os.recvs ∧
    os'.polls.length + 1 = os.polls.length := by
  unfold pollOnce at h
  split at h
  · cases h
  · rename_i a0 rest hp
    simp only at h
    split at h
    · split at h <;> (cases h; simp [hp])
    · split at h <;> (cases h; simp [hp])
    · cases h; split <;> simp [hp]
    · cases h; simp [hp]

theorem pollOnce_wire {t : Int} {os os' : Os} {a : PollAns} (h : pollOnce t os = some (a, os')) :
    wire os' = wire os := by
  rw [wire_cons os (.poll t) os' (pollOnce_calls h).1]; simp [callBytes]

/-- the clock never runs backwards in a poll, and a poll with timeout `t ≥ 0` advances it by at most `t` ms -/
theorem pollOnce_now {t : Int} {os os' : Os} {a : PollAns} (h : pollOnce t os = some (a, os')) :
    os.now ≤ os'.now ∧ (0 ≤ t → os'.now ≤ os.now + t * nsPerMs) ∧
    (a = .timedOut → 0 ≤ t → os'.now = os.now + t * nsPerMs) := by
  unfold pollOnce at h
  split at h
  · cases h
  · rename_i a0 rest hp
    simp only at h
    have hns : (0 : Int) < nsPerMs := by decide
    split at h
    · rename_i d
      split at h
      · rename_i hc
        cases h
        simp only
        refine ⟨?_, ?_, ?_⟩
        · have := Int.mul_nonneg hc.1 (Int.le_of_lt hns); omega
        · intro _; omega
        · intro _ _; first | rfl | trivial
      · rename_i hc
        cases h
        simp only
        have hd : (0 : Int) ≤ (d : Int) * nsPerMs := Int.mul_nonneg (Int.natCast_nonneg d) (Int.le_of_lt hns)
        refine ⟨by omega, ?_, by intro h; cases h⟩
        intro ht
        have hdt : (d : Int) ≤ t := by
          by_cases hh : (d : Int) > t
          · exact absurd ⟨ht, hh⟩ hc
          · omega
        have := Int.mul_le_mul_of_nonneg_right hdt (Int.le_of_lt hns)
        omega
    · rename_i d
      split at h
      · rename_i hc
        cases h
        simp only
        refine ⟨?_, ?_, ?_⟩
        · have := Int.mul_nonneg hc.1 (Int.le_of_lt hns); omega
        · intro _; omega
        · intro _ _; first | rfl | trivial
      · rename_i hc
        cases h
        simp only
        have hd : (0 : Int) ≤ (d : Int) * nsPerMs := Int.mul_nonneg (Int.natCast_nonneg d) (Int.le_of_lt hns)
        refine ⟨by omega, ?_, by intro h; cases h⟩
        intro ht
        have hdt : (d : Int) ≤ t := by
          by_cases hh : (d : Int) > t
          · exact absurd ⟨ht, hh⟩ hc
          · omega
        have := Int.mul_le_mul_of_nonneg_right hdt (Int.le_of_lt hns)
        omega
    · cases h
      split
      · rename_i hpos
        simp only
        have := Int.mul_nonneg (Int.le_of_lt hpos) (Int.le_of_lt hns)
        exact ⟨by omega, fun _ => by omega, fun _ _ => by first | rfl | trivial⟩
      · rename_i hnp
        refine ⟨Int.le_refl _, ?_, ?_⟩
        · intro ht; have := Int.mul_nonneg ht (Int.le_of_lt hns); simp only; omega
        · intro _ ht
          have : t = 0 := by omega
          subst this; simp
    · cases h
      refine ⟨Int.le_refl _, ?_, by intro h; cases h⟩
      intro ht; have := Int.mul_nonneg ht (Int.le_of_lt hns); simp only; omega


theorem pollOnce_pollArgs {t : Int} {os os' : Os} {a : PollAns} (h : pollOnce t os = some (a, os')) :
    pollArgs os' = pollArgs os ++ [t] := by
  unfold pollArgs
  rw [(pollOnce_calls h).1]
  simp

/-- properties every wait preserves / establishes; `P` constrains the poll arguments it adds -/
structure WaitFacts (P : Int → Prop) (os os' : Os) : Prop where
  wire : wire os' = wire os
  sends : os'.sends = os.sends
  recvs : os'.recvs = os.recvs
  mono : os.now ≤ os'.now
  args : ∀ p ∈ pollArgs os', p ∈ pollArgs os ∨ P p
  fewer : os'.polls.length ≤ os.polls.length

theorem WaitFacts.refl (P : Int → Prop) (os : Os) : WaitFacts P os os :=
  ⟨rfl, rfl, rfl, Int.le_refl _, fun _ h => Or.inl h, Nat.le_refl _⟩

theorem WaitFacts.step {P : Int → Prop} {t : Int} {os os1 os2 : Os} {a : PollAns}
    (h1 : pollOnce t os = some (a, os1)) (hP : P t) (h2 : WaitFacts P os1 os2) : WaitFacts P os os2 := by
  have hc := pollOnce_calls h1
  refine ⟨by rw [h2.wire, pollOnce_wire h1], by rw [h2.sends, hc.2.1], by rw [h2.recvs, hc.2.2.1],
    Int.le_trans (pollOnce_now h1).1 h2.mono, ?_, by have := h2.fewer; omega⟩
  intro p hp
  rcases h2.args p hp with hp | hp
  · rw [pollOnce_pollArgs h1] at hp
    rcases List.mem_append.mp hp with hp | hp
    · exact Or.inl hp
    · simp at hp; subst hp; exact Or.inr hP
  · exact Or.inr hp

theorem waitFixed_facts (t : Int) (fuel : Nat) (os : Os) :
    WaitFacts (· = t) os (waitFixed t fuel os).2 := by
  induction fuel generalizing os with
  | zero => exact WaitFacts.refl _ _
  | succ fuel ih =>
    unfold waitFixed
    cases hp : pollOnce t os with
    | none => exact WaitFacts.refl _ _
    | some r =>
      obtain ⟨a, os1⟩ := r
      cases a with
      | ready d => exact WaitFacts.step hp rfl (WaitFacts.refl _ _)
      | timedOut => exact WaitFacts.step hp rfl (WaitFacts.refl _ _)
      | eintr d => exact WaitFacts.step hp rfl (ih os1)
      | fail e => exact WaitFacts.step hp rfl (WaitFacts.refl _ _)

/-- with timeout 0 the clock does not move at all -/
theorem waitFixed_zero_now (fuel : Nat) (os : Os) : (waitFixed 0 fuel os).2.now = os.now := by
  induction fuel generalizing os with
  | zero => rfl
  | succ fuel ih =>
    unfold waitFixed
    cases hp : pollOnce 0 os with
    | none => rfl
    | some r =>
      obtain ⟨a, os1⟩ := r
      have hn := pollOnce_now hp
      have h0 : os1.now = os.now := by
        have := hn.2.1 (Int.le_refl 0); have := hn.1; omega
      cases a with
      | ready d => exact h0
      | timedOut => exact h0
      | eintr d => simp only; rw [ih os1, h0]
      | fail e => exact h0

theorem toMs_mul (k : Int) : toMs (k * nsPerMs) = k := by
  unfold toMs nsPerMs
  exact Int.mul_tdiv_cancel k (by decide)

theorem remaining_of_multiple (now deadline : Int) (k : Nat) (h : deadline - now = (k : Int) * nsPerMs) :
    (Deadline.limited now deadline).remaining = k := by
  show (if toMs (deadline - now) < 0 then 0 else toMs (deadline - now)) = (k : Int)
  rw [h, toMs_mul]
  have : ¬ ((k : Int) < 0) := by omega
  rw [if_neg this]

theorem toMsec_small {k : Int} (h0 : 0 ≤ k) (h : k ≤ intMax) : toMsec k = k := by
  unfold toMsec
  have h1 : ¬ (k > intMax) := by omega
  have h2 : ¬ (k < -intMax) := by unfold intMax; omega
  rw [if_neg h1, if_neg h2]

/-- `waitLimited`: never past the deadline, never a negative or over-budget poll argument, and
`false` (timeout) exactly at the deadline -/
theorem waitLimited_facts (deadline : Int) (fuel : Nat) (os : Os) (k : Nat)
    (hk : deadline - os.now = (k : Int) * nsPerMs) (hmax : (k : Int) ≤ intMax) :
    WaitFacts (fun p => 0 ≤ p ∧ p ≤ k) os (waitLimited deadline fuel os).2 ∧
    (waitLimited deadline fuel os).2.now ≤ deadline ∧
    ((waitLimited deadline fuel os).1 = .ok false → (waitLimited deadline fuel os).2.now = deadline) := by
  have hns : (0 : Int) < nsPerMs := by decide
  induction fuel generalizing os k with
  | zero =>
    refine ⟨WaitFacts.refl _ _, ?_, by intro h; cases h⟩
    simp only [waitLimited]
    have := Int.mul_nonneg (Int.natCast_nonneg k) (Int.le_of_lt hns); omega
  | succ fuel ih =>
    unfold waitLimited
    rw [remaining_of_multiple os.now deadline k hk, toMsec_small (Int.natCast_nonneg k) hmax]
    have hkn := Int.mul_nonneg (Int.natCast_nonneg k) (Int.le_of_lt hns)
    cases hp : pollOnce (k : Int) os with
    | none =>
      exact ⟨WaitFacts.refl _ _, by simp only; omega, by intro h; cases h⟩
    | some r =>
      obtain ⟨a, os1⟩ := r
      have hn := pollOnce_now hp
      have hle : os1.now ≤ deadline := by have := hn.2.1 (Int.natCast_nonneg k); omega
      have hP : (fun p : Int => 0 ≤ p ∧ p ≤ (k : Int)) (k : Int) := ⟨Int.natCast_nonneg k, Int.le_refl _⟩
      cases a with
      | ready d => exact ⟨WaitFacts.step hp hP (WaitFacts.refl _ _), hle, by intro h; cases h⟩
      | timedOut =>
        refine ⟨WaitFacts.step hp hP (WaitFacts.refl _ _), hle, ?_⟩
        intro _
        have := hn.2.2 rfl (Int.natCast_nonneg k)
        simp only; omega
      | fail e => exact ⟨WaitFacts.step hp hP (WaitFacts.refl _ _), hle, by intro h; cases h⟩
      | eintr d =>
        -- the clock advanced by d ms with d ≤ k: the remaining budget is k - d whole ms
        have hd : os1.now = os.now + (d : Int) * nsPerMs ∧ d ≤ k := by
          unfold pollOnce at hp
          split at hp
          · cases hp
          · rename_i a0 rest hpl
            simp only at hp
            split at hp
            · split at hp <;> cases hp
            · rename_i d'
              split at hp
              · cases hp
              · rename_i hc
                cases hp
                refine ⟨rfl, ?_⟩
                have : ¬ ((d : Int) > (k : Int)) := fun hh => hc ⟨Int.natCast_nonneg k, hh⟩
                omega
            · cases hp
            · cases hp
        have hk' : deadline - os1.now = ((k - d : Nat) : Int) * nsPerMs := by
          rw [hd.1]
          have : ((k - d : Nat) : Int) = (k : Int) - (d : Int) := by omega
          rw [this, Int.sub_mul]; omega
        have hmax' : ((k - d : Nat) : Int) ≤ intMax := by omega
        obtain ⟨f1, f2, f3⟩ := ih os1 (k - d) hk' hmax'
        simp only
        refine ⟨WaitFacts.step hp hP ?_, f2, f3⟩
        refine ⟨f1.wire, f1.sends, f1.recvs, f1.mono, ?_, f1.fewer⟩
        intro p hpp
        rcases f1.args p hpp with h | h
        · exact Or.inl h
        · exact Or.inr ⟨h.1, by have := h.2; omega⟩


/-- an unlimited wait reports "timeout" only if the OS itself answers an unlimited poll with 0 -/
theorem waitFixed_neg_false {t : Int} (ht : t < 0) (fuel : Nat) (os : Os)
    (hs : ∀ a ∈ os.polls, a ≠ .timedOut) : (waitFixed t fuel os).1 ≠ .ok false := by
  induction fuel generalizing os with
  | zero => simp [waitFixed]
  | succ fuel ih =>
    unfold waitFixed
    cases hp : pollOnce t os with
    | none => simp
    | some r =>
      obtain ⟨a, os1⟩ := r
      -- which scripted answer was consumed
      unfold pollOnce at hp
      split at hp
      · cases hp
      · rename_i a0 rest hpl
        have hrest : ∀ a ∈ rest, a ≠ .timedOut := fun a ha => hs a (by rw [hpl]; exact List.mem_cons_of_mem _ ha)
        have ha0 : a0 ≠ .timedOut := hs a0 (by rw [hpl]; exact List.mem_cons_self)
        simp only at hp
        split at hp
        · rw [if_neg (by omega)] at hp; cases hp; simp
        · rw [if_neg (by omega)] at hp; cases hp
          simp only
          exact ih _ (by simpa using hrest)
        · exact absurd rfl ha0
        · cases hp; simp

/-! ### sendNow -/

theorem sendNow_facts {data : Bytes} {os os' : Os} {r : Res Nat} (h : sendNow data os = (r, os')) :
    os'.polls = os.polls ∧ os'.recvs = os.recvs ∧ os'.now = os.now ∧ pollArgs os' = pollArgs os ∧
    os'.sends.length ≤ os.sends.length ∧
    (r ≠ .exn .exhausted → os'.sends.length + 1 = os.sends.length) ∧
    ∃ n, n ≤ data.length ∧ wire os' = wire os ++ data.take n ∧
      (∀ m, r = .ok m → m = n ∧ (0 < data.length → 0 < m)) := by
  unfold sendNow at h
  cases hs : os.sends with
  | nil =>
    rw [hs] at h; cases h
    exact ⟨rfl, rfl, rfl, rfl, by simp [hs], by simp, 0, by omega, by simp, by intro m h; cases h⟩
  | cons a rest =>
    rw [hs] at h
    cases a with
    | accept k =>
      simp only at h
      have hw : wire { os with sends := rest, calls := .send data.length (data.take (min k data.length)) :: os.calls }
          = wire os ++ data.take (min k data.length) := by
        rw [wire_cons os (.send data.length (data.take (min k data.length))) _ rfl]; rfl
      have hpa : pollArgs { os with sends := rest, calls := .send data.length (data.take (min k data.length)) :: os.calls }
          = pollArgs os := by
        unfold pollArgs; simp
      split at h
      · cases h
        exact ⟨rfl, rfl, rfl, hpa, by simp, by simp, min k data.length, Nat.min_le_right _ _, hw, by intro m h; cases h⟩
      · rename_i hc
        cases h
        refine ⟨rfl, rfl, rfl, hpa, by simp, by simp, min k data.length, Nat.min_le_right _ _, hw, ?_⟩
        intro m h
        cases h
        refine ⟨rfl, ?_⟩
        intro hpos
        by_cases h0 : min k data.length = 0
        · exact absurd ⟨h0, hpos⟩ hc
        · omega
    | fail e =>
      simp only at h
      cases h
      have hw : wire { os with sends := rest, calls := .send data.length [] :: os.calls } = wire os ++ data.take 0 := by
        rw [wire_cons os (.send data.length []) _ rfl]; simp [callBytes]
      have hpa : pollArgs { os with sends := rest, calls := .send data.length [] :: os.calls } = pollArgs os := by
        unfold pollArgs; simp
      exact ⟨rfl, rfl, rfl, hpa, by simp, by simp, 0, by omega, hw, by intro m h; cases h⟩

theorem take_drop_take (l : Bytes) (a b : Nat) : l.take a ++ (l.drop a).take b = l.take (a + b) := by
  rw [List.take_add]


/-- what the timeout argument of an operation allows the poll arguments to be -/
def ArgOk (T : Int) (p : Int) : Prop :=
  if T < 0 then p = T else if T = 0 then p = 0 else 0 ≤ p ∧ p ≤ T

/-- summary of `wait` for a timeout in the documented domain `|T| < 2^31` -/
theorem wait_spec {T : Int} {os os' : Os} {r : Res Bool} (h : wait T os = (r, os'))
    (hlo : -intMax ≤ T) (hhi : T ≤ intMax) :
    wire os' = wire os ∧ os'.sends = os.sends ∧ os'.recvs = os.recvs ∧ os.now ≤ os'.now ∧
    os'.polls.length ≤ os.polls.length ∧
    (∀ p ∈ pollArgs os', p ∈ pollArgs os ∨ ArgOk T p) ∧
    (T = 0 → os'.now = os.now) ∧
    (0 < T → os'.now ≤ os.now + T * nsPerMs ∧ (r = .ok false → os'.now = os.now + T * nsPerMs)) ∧
    (T < 0 → (∀ a ∈ os.polls, a ≠ .timedOut) → r ≠ .ok false) := by
  unfold wait at h
  split at h
  · rename_i hle
    have hm : toMsec T = T := by
      unfold toMsec
      rw [if_neg (by omega), if_neg (by omega)]
    rw [hm] at h
    have hf := waitFixed_facts T (os.polls.length + 1) os
    have h1 : (waitFixed T (os.polls.length + 1) os).1 = r := by rw [h]
    have h2 : (waitFixed T (os.polls.length + 1) os).2 = os' := by rw [h]
    rw [h2] at hf
    refine ⟨hf.wire, hf.sends, hf.recvs, hf.mono, hf.fewer, ?_, ?_, ?_, ?_⟩
    · intro p hp
      rcases hf.args p hp with hp | hp
      · exact Or.inl hp
      · right; unfold ArgOk
        by_cases hn : T < 0
        · rw [if_pos hn]; exact hp
        · have : T = 0 := by omega
          rw [if_neg hn, if_pos this]; rw [hp, this]
    · intro h0; subst h0
      have := waitFixed_zero_now (os.polls.length + 1) os
      rw [h2] at this; exact this
    · intro hpos; omega
    · intro hn hs
      have := waitFixed_neg_false hn (os.polls.length + 1) os hs
      rw [h1] at this; exact this
  · rename_i hgt
    have hTpos : 0 < T := by omega
    have hk : (os.now + T * nsPerMs) - os.now = ((T.toNat : Nat) : Int) * nsPerMs := by
      rw [Int.toNat_of_nonneg (by omega)]; omega
    have hmax : ((T.toNat : Nat) : Int) ≤ intMax := by rw [Int.toNat_of_nonneg (by omega)]; exact hhi
    obtain ⟨f1, f2, f3⟩ := waitLimited_facts (os.now + T * nsPerMs) (os.polls.length + 1) os T.toNat hk hmax
    have h1 : (waitLimited (os.now + T * nsPerMs) (os.polls.length + 1) os).1 = r := by rw [h]
    have h2 : (waitLimited (os.now + T * nsPerMs) (os.polls.length + 1) os).2 = os' := by rw [h]
    rw [h2] at f1 f2 f3
    rw [h1] at f3
    refine ⟨f1.wire, f1.sends, f1.recvs, f1.mono, f1.fewer, ?_, by intro h0; omega, fun _ => ⟨f2, f3⟩, by intro hn; omega⟩
    intro p hp
    rcases f1.args p hp with hp | hp
    · exact Or.inl hp
    · right; unfold ArgOk
      rw [if_neg (by omega), if_neg (by omega)]
      rw [Int.toNat_of_nonneg (by omega)] at hp
      exact hp


/-! ### the clock moves in whole milliseconds -/

def Mult (a b : Int) : Prop := ∃ j : Nat, b = a + (j : Int) * nsPerMs

theorem Mult.refl (a : Int) : Mult a a := ⟨0, by simp⟩
theorem Mult.trans {a b c : Int} (h1 : Mult a b) (h2 : Mult b c) : Mult a c := by
  obtain ⟨j1, h1⟩ := h1; obtain ⟨j2, h2⟩ := h2
  refine ⟨j1 + j2, ?_⟩
  rw [h2, h1]; simp only [Int.natCast_add, Int.add_mul]; omega

theorem pollOnce_mult {t : Int} {os os' : Os} {a : PollAns} (h : pollOnce t os = some (a, os')) :
    Mult os.now os'.now := by
  unfold pollOnce at h
  split at h
  · cases h
  · rename_i a0 rest hpl
    simp only at h
    split at h
    · rename_i d
      split at h
      · rename_i hc; cases h; exact ⟨t.toNat, by simp only; rw [Int.toNat_of_nonneg hc.1]⟩
      · cases h; exact ⟨d, rfl⟩
    · rename_i d
      split at h
      · rename_i hc; cases h; exact ⟨t.toNat, by simp only; rw [Int.toNat_of_nonneg hc.1]⟩
      · cases h; exact ⟨d, rfl⟩
    · cases h
      split
      · rename_i hp; exact ⟨t.toNat, by simp only; rw [Int.toNat_of_nonneg (by omega)]⟩
      · exact Mult.refl _
    · cases h; exact Mult.refl _

theorem waitFixed_mult (t : Int) (fuel : Nat) (os : Os) : Mult os.now (waitFixed t fuel os).2.now := by
  induction fuel generalizing os with
  | zero => exact Mult.refl _
  | succ fuel ih =>
    unfold waitFixed
    cases hp : pollOnce t os with
    | none => exact Mult.refl _
    | some r =>
      obtain ⟨a, os1⟩ := r
      cases a with
      | ready d => exact pollOnce_mult hp
      | timedOut => exact pollOnce_mult hp
      | eintr d => exact (pollOnce_mult hp).trans (ih os1)
      | fail e => exact pollOnce_mult hp

theorem waitLimited_mult (dl : Int) (fuel : Nat) (os : Os) : Mult os.now (waitLimited dl fuel os).2.now := by
  induction fuel generalizing os with
  | zero => exact Mult.refl _
  | succ fuel ih =>
    unfold waitLimited
    cases hp : pollOnce (toMsec (Deadline.limited os.now dl).remaining) os with
    | none => exact Mult.refl _
    | some r =>
      obtain ⟨a, os1⟩ := r
      cases a with
      | ready d => exact pollOnce_mult hp
      | timedOut => exact pollOnce_mult hp
      | eintr d => exact (pollOnce_mult hp).trans (ih os1)
      | fail e => exact pollOnce_mult hp

theorem wait_mult {T : Int} {os os' : Os} {r : Res Bool} (h : wait T os = (r, os')) : Mult os.now os'.now := by
  unfold wait at h
  split at h
  · have := waitFixed_mult (toMsec T) (os.polls.length + 1) os; rw [h] at this; exact this
  · have := waitLimited_mult (os.now + T * nsPerMs) (os.polls.length + 1) os; rw [h] at this; exact this

/-- signals alone never make a wait fail: an exception needs a failing `poll` answer -/
theorem waitFixed_no_fail (t : Int) (fuel : Nat) (os : Os) (hs : ∀ a ∈ os.polls, ∀ e, a ≠ .fail e) :
    ∀ e, (waitFixed t fuel os).1 ≠ .exn (.system e) := by
  induction fuel generalizing os with
  | zero => intro e; simp [waitFixed]
  | succ fuel ih =>
    intro e
    unfold waitFixed
    cases hp : pollOnce t os with
    | none => simp
    | some r =>
      obtain ⟨a, os1⟩ := r
      unfold pollOnce at hp
      split at hp
      · cases hp
      · rename_i a0 rest hpl
        have hrest : ∀ a ∈ rest, ∀ e, a ≠ .fail e := fun a ha => hs a (by rw [hpl]; exact List.mem_cons_of_mem _ ha)
        have ha0 : ∀ e, a0 ≠ .fail e := hs a0 (by rw [hpl]; exact List.mem_cons_self)
        simp only at hp
        split at hp
        · split at hp <;> (cases hp; simp)
        · split at hp
          · cases hp; simp
          · cases hp; simp only; exact ih _ (by simpa using hrest) e
        · cases hp; simp
        · rename_i e0; exact absurd rfl (ha0 e0)

theorem waitLimited_no_fail (dl : Int) (fuel : Nat) (os : Os) (hs : ∀ a ∈ os.polls, ∀ e, a ≠ .fail e) :
    ∀ e, (waitLimited dl fuel os).1 ≠ .exn (.system e) := by
  induction fuel generalizing os with
  | zero => intro e; simp [waitLimited]
  | succ fuel ih =>
    intro e
    unfold waitLimited
    cases hp : pollOnce (toMsec (Deadline.limited os.now dl).remaining) os with
    | none => simp
    | some r =>
      obtain ⟨a, os1⟩ := r
      unfold pollOnce at hp
      split at hp
      · cases hp
      · rename_i a0 rest hpl
        have hrest : ∀ a ∈ rest, ∀ e, a ≠ .fail e := fun a ha => hs a (by rw [hpl]; exact List.mem_cons_of_mem _ ha)
        have ha0 : ∀ e, a0 ≠ .fail e := hs a0 (by rw [hpl]; exact List.mem_cons_self)
        simp only at hp
        split at hp
        · split at hp <;> (cases hp; simp)
        · split at hp
          · cases hp; simp
          · cases hp; simp only; exact ih _ (by simpa using hrest) e
        · cases hp; simp
        · rename_i e0; exact absurd rfl (ha0 e0)

/-! ### the send loops: what reaches the OS is a prefix of the caller's buffer, and the count returned is its length
(used by `Props/C01.lean` and by `Spec/C01.lean`) -/

/-- loop invariant of `SendAll` -/
theorem sendAllLoop_inv (fuel : Nat) (rem : Bytes) (sent : Nat) (os os' : Os) (r : Res Nat)
    (h : sendAllLoop fuel rem sent os = (r, os')) :
    ∃ n, n ≤ rem.length ∧ wire os' = wire os ++ rem.take n ∧
      (∀ m, r = .ok m → m = sent + rem.length ∧ n = rem.length) := by
  induction fuel generalizing rem sent os with
  | zero => cases h; exact ⟨0, by omega, by simp, by intro m h; cases h⟩
  | succ fuel ih =>
    unfold sendAllLoop at h
    cases hw : wait (-1) os with
    | mk rw osw =>
      rw [hw] at h
      have hwf := wait_spec hw (by decide) (by decide)
      cases rw with
      | exn e => cases h; exact ⟨0, by omega, by simp [hwf.1], by intro m h; cases h⟩
      | ok b =>
        simp only at h
        cases hs : sendNow rem osw with
        | mk rs oss =>
          rw [hs] at h
          obtain ⟨_, _, _, _, _, _, n, hn, hwire, hok⟩ := sendNow_facts hs
          cases rs with
          | exn e =>
            cases h
            exact ⟨n, hn, by rw [hwire, hwf.1], by intro m h; cases h⟩
          | ok k =>
            simp only at h
            have hk := (hok k rfl).1
            subst hk
            split at h
            · rename_i hemp
              cases h
              have hlen : rem.length ≤ k := by simpa using hemp
              have hkl : k = rem.length := by omega
              refine ⟨k, hn, by rw [hwire, hwf.1], ?_⟩
              intro m hm; cases hm
              exact ⟨by omega, hkl⟩
            · obtain ⟨n2, hn2, hwire2, hok2⟩ := ih (rem.drop k) (sent + k) oss h
              refine ⟨k + n2, ?_, ?_, ?_⟩
              · simp only [List.length_drop] at hn2; omega
              · rw [hwire2, hwire, hwf.1, List.append_assoc, take_drop_take]
              · intro m hm
                obtain ⟨h1, h2⟩ := hok2 m hm
                simp only [List.length_drop] at h1 h2
                exact ⟨by omega, by omega⟩

/-- `SendTry` (timeout 0): `0 ≤ n ≤ size`, and exactly the first n bytes reached the OS -/
theorem sendTry_inv (data : Bytes) (os os' : Os) (r : Res Nat) (h : sendTry data os = (r, os')) :
    ∃ n, n ≤ data.length ∧ wire os' = wire os ++ data.take n ∧ (∀ m, r = .ok m → m = n) := by
  unfold sendTry at h
  cases hw : wait 0 os with
  | mk rw osw =>
    rw [hw] at h
    have hwf := wait_spec hw (by decide) (by decide)
    cases rw with
    | exn e => cases h; exact ⟨0, by omega, by simp [hwf.1], by intro m h; cases h⟩
    | ok b =>
      cases b with
      | false => cases h; exact ⟨0, by omega, by simp [hwf.1], by intro m h; cases h; rfl⟩
      | true =>
        simp only at h
        obtain ⟨_, _, _, _, _, _, n, hn, hwire, hok⟩ := sendNow_facts h
        exact ⟨n, hn, by rw [hwire, hwf.1], fun m hm => (hok m hm).1⟩

/-- loop invariant of `SendSome` -/
theorem sendSomeLoop_inv (deadline : Int) (fuel : Nat) (rem : Bytes) (sent : Nat) (dnow : Int) (os os' : Os)
    (r : Res Nat) (h : sendSomeLoop deadline fuel rem sent dnow os = (r, os')) :
    ∃ n, n ≤ rem.length ∧ wire os' = wire os ++ rem.take n ∧ (∀ m, r = .ok m → m = sent + n) := by
  induction fuel generalizing rem sent dnow os with
  | zero => cases h; exact ⟨0, by omega, by simp, by intro m h; cases h⟩
  | succ fuel ih =>
    unfold sendSomeLoop at h
    cases hw : wait (Deadline.limited dnow deadline).remaining os with
    | mk rw osw =>
      rw [hw] at h
      -- `wait` never touches the wire (no bound on the timeout needed for that)
      have hwire0 : wire osw = wire os := by
        unfold wait at hw
        split at hw
        · have := (waitFixed_facts (toMsec (Deadline.limited dnow deadline).remaining) (os.polls.length + 1) os).wire
          rw [hw] at this; exact this
        · have : ∀ (dl : Int) (fuel : Nat) (o : Os), wire (waitLimited dl fuel o).2 = wire o := by
            intro dl fuel
            induction fuel with
            | zero => intro o; rfl
            | succ fuel ih2 =>
              intro o
              unfold waitLimited
              cases hp : pollOnce (toMsec (Deadline.limited o.now dl).remaining) o with
              | none => rfl
              | some x =>
                obtain ⟨a, o1⟩ := x
                cases a with
                | ready d => exact pollOnce_wire hp
                | timedOut => exact pollOnce_wire hp
                | fail e => exact pollOnce_wire hp
                | eintr d => simp only; rw [ih2 o1, pollOnce_wire hp]
          have := this (os.now + (Deadline.limited dnow deadline).remaining * nsPerMs) (os.polls.length + 1) os
          rw [hw] at this; exact this
      cases rw with
      | exn e => cases h; exact ⟨0, by omega, by simp [hwire0], by intro m h; cases h⟩
      | ok b =>
        cases b with
        | false => cases h; exact ⟨0, by omega, by simp [hwire0], by intro m h; cases h; rfl⟩
        | true =>
          simp only at h
          cases hs : sendNow rem osw with
          | mk rs oss =>
            rw [hs] at h
            obtain ⟨_, _, _, _, _, _, n, hn, hwire, hok⟩ := sendNow_facts hs
            cases rs with
            | exn e => cases h; exact ⟨n, hn, by rw [hwire, hwire0], by intro m h; cases h⟩
            | ok k =>
              simp only at h
              have hk := (hok k rfl).1
              subst hk
              split at h
              · cases h
                exact ⟨k, hn, by rw [hwire, hwire0], by intro m hm; cases hm; rfl⟩
              · obtain ⟨n2, hn2, hwire2, hok2⟩ := ih (rem.drop k) (sent + k) osw.now oss h
                refine ⟨k + n2, ?_, ?_, ?_⟩
                · simp only [List.length_drop] at hn2; omega
                · rw [hwire2, hwire, hwire0, List.append_assoc, take_drop_take]
                · intro m hm; have := hok2 m hm; omega

/-- every timeout mode of `Send`: exactly a prefix of the buffer reaches the OS; a returned count is its length -/
theorem send_prefix (data : Bytes) (T : Int) (os os' : Os) (r : Res Nat) (h : send data T os = (r, os')) :
    ∃ n, n ≤ data.length ∧ wire os' = wire os ++ data.take n ∧
      (∀ m, r = .ok m → m = n ∧ (T < 0 → m = data.length)) := by
  unfold send at h
  split at h
  · obtain ⟨n, hn, hw, hok⟩ := sendAllLoop_inv _ data 0 os os' r h
    refine ⟨n, hn, hw, ?_⟩
    intro m hm
    obtain ⟨h1, h2⟩ := hok m hm
    exact ⟨by omega, fun _ => by omega⟩
  · split at h
    · obtain ⟨n, hn, hw, hok⟩ := sendTry_inv data os os' r h
      exact ⟨n, hn, hw, fun m hm => ⟨hok m hm, fun hT => by omega⟩⟩
    · obtain ⟨n, hn, hw, hok⟩ := sendSomeLoop_inv _ _ data 0 os.now os os' r h
      exact ⟨n, hn, hw, fun m hm => ⟨by have := hok m hm; omega, fun hT => by omega⟩⟩


end SockModel.SendLoop

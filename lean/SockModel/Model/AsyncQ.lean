/-
Model of the asynchronous TCP send pipeline
(src/socket_async_impl.cpp:76-207, src/driver_impl.cpp:221-228,261-286).

One `SocketTcpAsync` attached to a driver.  State = the `SendQ`, the `POLLOUT`
bit of the socket's `pollfd`, whether the socket is (still) registered, the
bytes the OS accepted so far (`wire`), the state of every future and the
buffers that went back to their pool.

Atomic actions = critical sections of `sendQMtx` / `stepMtx`:

* `enq t id bytes` - `DoSendEnqueue` on thread `t` (under `sendQMtx`): push,
  remember `wasEmpty` as `t ∈ pendingArm`;
* `arm t` - `AsyncWantSend` on thread `t` (under `stepMtx`, via `PauseGuard`):
  sets `POLLOUT` if the descriptor is still in `pfds` (no-op otherwise, fix F3);
  because it needs `stepMtx` it cannot happen while the driver is inside
  `DoOneSocketTask` (`drvDisarm`);
* `writable ans` - `DriverOnWritable` (under `sendQMtx`, the driver holds
  `stepMtx`): exactly one `send` attempt on the front buffer with answer `ans`;
* `disarm` - `pfd.events &= ~POLLOUT` after `DriverOnWritable` returned true
  (still under `stepMtx`; producers may have run `enq` in between, not `arm`);
* `unregister` - `AsyncUnregister` (peer disconnected; under `stepMtx`);
* `destroy` - `~SocketAsyncImpl`: unregister, then the queue is destroyed:
  pending promises break, buffers are recycled.

Every interleaving of any number of producer threads with the driver thread is
a list of such actions; an action that is not enabled in a state (e.g. `arm`
while the driver holds `stepMtx`) leaves the state unchanged.

Ghost state (not in the code, used to state the theorems): `enqd` (everything
ever enqueued, in `enq` order), `Elem.sent` (the prefix of the front buffer that
`buffer->erase(0, sent)` already removed), `done` (popped elements).
-/
namespace SockModel.AsyncQ

abbrev Bytes := List UInt8

inductive Fut where
  | none      -- no such future (id never enqueued)
  | pending
  | value
  | exn
  | broken
  deriving DecidableEq, Repr

def Fut.resolved : Fut → Bool
  | .value | .exn | .broken => true
  | _ => false

/-- queue element: promise `id` + buffer.  `rest` is the buffer's content (the
unsent remainder); `sent` is ghost: what was erased from its front. -/
structure Elem where
  id : Nat
  sent : Bytes
  rest : Bytes
  deriving Repr

def Elem.full (e : Elem) : Bytes := e.sent ++ e.rest

/-- ghost record of a popped element: `sent` reached the wire, `dropped` never will -/
structure Done where
  id : Nat
  sent : Bytes
  dropped : Bytes
  how : Fut
  deriving Repr

def Done.full (d : Done) : Bytes := d.sent ++ d.dropped

/-- answer of the OS to the one `send` of a `DriverSend` -/
inductive Ans where
  | accept (k : Nat)   -- `send` returned `k` (at most the size offered)
  | fail               -- `send` returned -1: `system_error` (a `runtime_error`)
  deriving Repr, DecidableEq

inductive Action where
  | enq (t : Nat) (id : Nat) (bytes : Bytes)
  | arm (t : Nat)
  | writable (a : Ans)
  | disarm
  | unregister
  | destroy
  deriving Repr

structure St where
  q : List Elem := []
  armed : Bool := false            -- POLLOUT bit in pfds
  registered : Bool := true        -- descriptor present in sockets / pfds
  destroyed : Bool := false
  drvDisarm : Bool := false        -- driver between `DriverOnWritable() == true` and `events &= ~POLLOUT`
  wire : Bytes := []               -- bytes accepted by the OS, in order
  fut : Nat → Fut := fun _ => .none
  returned : List Nat := []        -- buffers back in their pool, in return order
  pendingArm : List Nat := []      -- threads that saw `wasEmpty` and have not yet called AsyncWantSend
  enqd : List (Nat × Bytes) := []  -- ghost
  done : List Done := []           -- ghost

def upd (f : Nat → Fut) (i : Nat) (v : Fut) : Nat → Fut := fun x => if x = i then v else f x

@[simp] theorem upd_same (f : Nat → Fut) (i v) : upd f i v i = v := by simp [upd]
theorem upd_other (f : Nat → Fut) (i v x) (h : x ≠ i) : upd f i v x = f x := by simp [upd, h]

/-- `DriverSend` on a non-empty queue with front `e` -/
def driverSend (s : St) (e : Elem) (rest : List Elem) : Ans → St
  | .accept k =>
    if e.rest.length ≤ k then
      -- sent == buffer->size(): set_value, pop, return (sendQSize == 1)
      { s with q := rest, wire := s.wire ++ e.rest, fut := upd s.fut e.id .value,
               returned := s.returned ++ [e.id],
               done := s.done ++ [⟨e.id, e.sent ++ e.rest, [], .value⟩],
               drvDisarm := rest.isEmpty }
    else if k = 0 then
      -- `SendNow`: sent == 0 with size > 0 is a logic_error; it is not caught, nothing changes
      s
    else
      -- partial: buffer->erase(0, sent); return false (stays armed)
      { s with q := { e with sent := e.sent ++ e.rest.take k, rest := e.rest.drop k } :: rest,
               wire := s.wire ++ e.rest.take k }
  | .fail =>
    -- set_exception, pop, return (sendQSize == 1)
    { s with q := rest, fut := upd s.fut e.id .exn,
             returned := s.returned ++ [e.id],
             done := s.done ++ [⟨e.id, e.sent, e.rest, .exn⟩],
             drvDisarm := rest.isEmpty }

def step (s : St) : Action → St
  | .enq t id bytes =>
    if s.destroyed ∨ s.fut id ≠ .none ∨ t ∈ s.pendingArm then s
    else
      { s with q := s.q ++ [⟨id, [], bytes⟩],
               fut := upd s.fut id .pending,
               enqd := s.enqd ++ [(id, bytes)],
               pendingArm := if s.q.isEmpty then t :: s.pendingArm else s.pendingArm }
  | .arm t =>
    if s.destroyed ∨ s.drvDisarm ∨ t ∉ s.pendingArm then s
    else { s with pendingArm := s.pendingArm.erase t, armed := s.armed || s.registered }
  | .writable a =>
    if s.destroyed ∨ ¬ s.registered ∨ ¬ s.armed ∨ s.drvDisarm then s
    else
      match s.q with
      | [] => { s with drvDisarm := true }   -- TLS handshake branch: DriverPending(); return true
      | e :: rest => driverSend s e rest a
  | .disarm =>
    if s.drvDisarm then { s with armed := false, drvDisarm := false } else s
  | .unregister =>
    if s.destroyed ∨ s.drvDisarm then s else { s with registered := false, armed := false }
  | .destroy =>
    if s.destroyed ∨ s.drvDisarm then s
    else
      { s with destroyed := true, registered := false, armed := false, q := [],
               fut := fun i => if s.fut i = .pending then .broken else s.fut i,
               returned := s.returned ++ s.q.map (·.id),
               done := s.done ++ s.q.map (fun e => ⟨e.id, e.sent, e.rest, .broken⟩),
               pendingArm := [] }

def run (s : St) (acts : List Action) : St := acts.foldl step s

def flat (l : List Bytes) : Bytes := l.flatten

/-- Σ|unsent bytes| + |q| : what the driver still has to do -/
def measure (s : St) : Nat := (s.q.map (fun e => e.rest.length + 1)).sum

end SockModel.AsyncQ

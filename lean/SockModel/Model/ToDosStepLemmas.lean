import SockModel.Model.ToDosLemmas
/-! Lemmas about the timeout `Driver::Step` hands to the socket wait (`StepTodos` + `MinDuration` + `ToMsec`):
moved here from `Props/C07.lean` so that `Spec/C07.lean` can use them; the property theorems `step_bounded`,
`step_not_past_todo` of `Props/C07.lean` are these statements. -/
namespace SockModel.ToDos
open SockModel.Deadline

theorem foldl_applyOp_now_mono (ops : List BodyOp) (s0 : St) : s0.now ≤ (ops.foldl applyOp s0).now := by
  induction ops generalizing s0 with
  | nil => exact Int.le_refl _
  | cons op ops ih =>
    simp only [List.foldl_cons]
    have h1 : s0.now ≤ (applyOp s0 op).now := by
      cases op with
      | shift id w => simp only [applyOp]; split <;> exact Int.le_refl _
      | shiftd id ms => simp only [applyOp]; split <;> exact Int.le_refl _
      | cancel id => simp only [applyOp]; split <;> exact Int.le_refl _
      | newAt id w => simp only [applyOp]; split <;> exact Int.le_refl _
      | newIn id ms => simp only [applyOp]; split <;> exact Int.le_refl _
      | drop id => exact Int.le_refl _
      | adv ns => simp only [applyOp]; omega
      | stop => exact Int.le_refl _
    exact Int.le_trans h1 (ih _)

/-- facts about the timeout `StepTodos` hands to the socket wait -/
theorem stepTodos_wait (fuel : Nat) (d : Deadline) (s : St) (hd : d.now = s.now) (ms : Int) (s' : St)
    (h : stepTodos fuel d s = (ms, s')) :
    s.now ≤ s'.now ∧
    (∀ f rest, s'.todos = f :: rest → 0 ≤ ms ∧ (s'.now < f.when → ms * nsPerMs ≤ f.when - s'.now)) := by
  induction fuel generalizing d s with
  | zero =>
    simp only [stepTodos] at h
    cases h
    exact ⟨Int.le_refl _, by intro f rest _; exact ⟨Int.le_refl _, by intro hh; simp only at hh ⊢; omega⟩⟩
  | succ fuel ih =>
    unfold stepTodos at h
    cases ht : s.todos with
    | nil =>
      rw [ht] at h; cases h
      exact ⟨Int.le_refl _, by intro f rest h; rw [ht] at h; cases h⟩
    | cons front rest0 =>
      rw [ht] at h
      simp only at h
      split at h
      · rename_i hnot
        cases h
        refine ⟨Int.le_refl _, ?_⟩
        intro f rest h
        rw [ht] at h
        cases h
        have hu : 0 ≤ front.when - d.now := by omega
        have h1 := toMs_nonneg hu
        have h2 := toMs_mul_le hu
        unfold minDuration
        split
        · exact ⟨h1, by intro _; rw [← hd]; exact h2⟩
        · rename_i hr
          have hmin : min (toMs (front.when - d.now)) d.remaining ≤ toMs (front.when - d.now) := Int.min_le_left _ _
          have hr0 : 0 ≤ d.remaining := by omega
          refine ⟨by omega, ?_⟩
          intro _
          rw [← hd]
          have hns : (0 : Int) < nsPerMs := by decide
          have := Int.mul_le_mul_of_nonneg_right hmin (Int.le_of_lt hns)
          omega
      · -- the front task runs; time may pass in its body (adv ≥ 0)
        have hm := foldl_applyOp_now_mono (s.body front.id)
          { s with todos := rest0, log := .ran front.id front.when d.now rest0 front.seq :: s.log }
        simp only at hm
        split at h
        · rename_i hemp
          cases h
          refine ⟨hm, ?_⟩
          intro f rest h
          have : ((s.body front.id).foldl applyOp
              { s with todos := rest0, log := .ran front.id front.when d.now rest0 front.seq :: s.log }).todos = [] := by
            simpa using hemp
          rw [this] at h; cases h
        · split at h
          · have htick : (d.tick ((s.body front.id).foldl applyOp
                { s with todos := rest0, log := .ran front.id front.when d.now rest0 front.seq :: s.log }).now).now
                = ((s.body front.id).foldl applyOp
                { s with todos := rest0, log := .ran front.id front.when d.now rest0 front.seq :: s.log }).now := by
              cases d <;> rfl
            have := ih _ _ htick h
            exact ⟨Int.le_trans hm this.1, this.2⟩
          · cases h
            refine ⟨hm, ?_⟩
            intro f rest _
            exact ⟨Int.le_refl _, by intro _; omega⟩

/-- "it never sleeps past the due time of the earliest pending ToDo": when a ToDo is still pending
after the tasks of this step ran, the timeout passed to the socket wait is non-negative (never
unlimited) and ends no later than that ToDo's due time.  Holds for every timeout `T`, every due
time (also ≥ 2^31 ms ahead, thanks to the clamp of fix F6) and every task behaviour. -/
theorem stepTodos_not_past (fuel : Nat) (T : Int) (s : St) (ms : Int) (s' : St)
    (hst : stepTodos fuel (Deadline.make T s.now) s = (ms, s')) :
    ∀ f rest, s'.todos = f :: rest →
      0 ≤ toMsec ms ∧ (s'.now < f.when → toMsec ms * nsPerMs ≤ f.when - s'.now) := by
  intro f rest h
  have hmake : (Deadline.make T s.now).now = s.now := by
    unfold Deadline.make; split
    · rfl
    · split <;> rfl
  obtain ⟨_, h2⟩ := stepTodos_wait fuel (Deadline.make T s.now) s hmake ms s' hst
  obtain ⟨h0, hle⟩ := h2 f rest h
  have hns : (0 : Int) < nsPerMs := by decide
  have hcl : 0 ≤ toMsec ms ∧ toMsec ms ≤ ms := by
    unfold toMsec
    split
    · unfold intMax at *; omega
    · split
      · unfold intMax at *; omega
      · omega
  refine ⟨hcl.1, ?_⟩
  intro hlt
  have := Int.mul_le_mul_of_nonneg_right hcl.2 (Int.le_of_lt hns)
  have := hle hlt
  omega

/-- the deadline object of a `Step(T)`, `T ≥ 0`, never promises more than `T` -/
def DBound (T : Int) : Deadline → Prop
  | .unlimited _ => T < 0
  | .zero _ => T = 0
  | .limited n dl => 0 < T ∧ dl - n ≤ T * nsPerMs

theorem DBound_make (T now : Int) : DBound T (Deadline.make T now) := by
  unfold Deadline.make
  split
  · assumption
  · split
    · assumption
    · exact ⟨by omega, by omega⟩

theorem DBound_tick {T : Int} {d : Deadline} (h : DBound T d) (n' : Int) (hn : d.now ≤ n') : DBound T (d.tick n') := by
  cases d with
  | unlimited n => exact h
  | zero n => exact h
  | limited n dl =>
    simp only [Deadline.tick, DBound, Deadline.now] at *
    exact ⟨h.1, by omega⟩

theorem DBound_remaining {T : Int} {d : Deadline} (h : DBound T d) (hT : 0 ≤ T) : d.remaining ≤ T ∧ 0 ≤ d.remaining := by
  cases d with
  | unlimited n => simp only [DBound] at h; omega
  | zero n => simp only [DBound] at h; simp only [Deadline.remaining]; omega
  | limited n dl =>
    simp only [DBound] at h
    show (if toMs (dl - n) < 0 then 0 else toMs (dl - n)) ≤ T ∧ 0 ≤ (if toMs (dl - n) < 0 then 0 else toMs (dl - n))
    split
    · omega
    · rename_i hge
      refine ⟨?_, by omega⟩
      by_cases hx : 0 ≤ dl - n
      · have := toMs_mul_le hx
        unfold nsPerMs at *
        omega
      · have : toMs (dl - n) ≤ 0 := by
          unfold toMs nsPerMs
          have h1 : (dl - n) = -(n - dl) := by omega
          rw [h1, Int.neg_tdiv]
          have := Int.tdiv_nonneg (a := n - dl) (b := 1000000) (by omega) (by decide)
          omega
        omega

/-- "Driver::Step is bounded by T from above in the same way": for `T ≥ 0` the timeout handed to the
socket wait after the due tasks ran is within `[0, T]`, whatever the tasks did and however long they
took. -/
theorem stepTodos_bounded (fuel : Nat) (T : Int) (hT : 0 ≤ T) (d : Deadline) (s : St) (hd : d.now = s.now)
    (hb : DBound T d) (ms : Int) (s' : St) (h : stepTodos fuel d s = (ms, s')) : 0 ≤ ms ∧ ms ≤ T := by
  induction fuel generalizing d s with
  | zero => simp only [stepTodos] at h; cases h; exact ⟨Int.le_refl _, hT⟩
  | succ fuel ih =>
    unfold stepTodos at h
    cases ht : s.todos with
    | nil => rw [ht] at h; cases h; have := DBound_remaining hb hT; exact ⟨this.2, this.1⟩
    | cons front rest0 =>
      rw [ht] at h
      simp only at h
      split at h
      · rename_i hnot
        cases h
        have hr := DBound_remaining hb hT
        have hu : 0 ≤ front.when - d.now := by omega
        have h1 := toMs_nonneg hu
        unfold minDuration
        split
        · omega
        · have hmin : min (toMs (front.when - d.now)) d.remaining ≤ d.remaining := Int.min_le_right _ _
          have hmin2 : 0 ≤ min (toMs (front.when - d.now)) d.remaining := by
            rcases Int.min_def (toMs (front.when - d.now)) d.remaining with _
            omega
          exact ⟨hmin2, by omega⟩
      · have hm := foldl_applyOp_now_mono (s.body front.id)
          { s with todos := rest0, log := .ran front.id front.when d.now rest0 front.seq :: s.log }
        simp only at hm
        have hb' := DBound_tick hb ((s.body front.id).foldl applyOp
          { s with todos := rest0, log := .ran front.id front.when d.now rest0 front.seq :: s.log }).now (by omega)
        split at h
        · cases h; have := DBound_remaining hb' hT; exact ⟨this.2, this.1⟩
        · split at h
          · have htick : (d.tick ((s.body front.id).foldl applyOp
                { s with todos := rest0, log := .ran front.id front.when d.now rest0 front.seq :: s.log }).now).now
                = ((s.body front.id).foldl applyOp
                { s with todos := rest0, log := .ran front.id front.when d.now rest0 front.seq :: s.log }).now := by
              cases d <;> rfl
            exact ih _ _ htick hb' h
          · cases h; exact ⟨Int.le_refl _, hT⟩

end SockModel.ToDos

import SockModel.Model.Deadline
/-
Model of the blocking socket layer: `Wait` (src/wait.cpp, with the EINTR retry of
fix F2), `ReceiveNow`/`Receive`/`SendNow`/`SendAll`/`SendTry`/`SendSome`
(src/socket_impl.cpp:306-382), `SocketImpl::Send` dispatch, UDP `SendTo` /
`ReceiveFrom`, and `Accept(timeout)`.

The operating system is an argument: three answer queues (`polls`, `sends`,
`recvs`) consumed in call order, and a virtual clock `now` (ns) that advances only
inside `poll` (by whole milliseconds - the granularity of its timeout argument).
Every call the library makes is appended to `calls` (newest first), so that the
theorems can speak about the *arguments* the library passes.
-/
namespace SockModel.SendLoop
open SockModel.Deadline

abbrev Bytes := List UInt8

/-- what a `poll` does.  `after` = virtual milliseconds that pass before the event;
an event later than the timeout budget is a timeout. -/
inductive PollAns where
  | ready (after : Nat)      -- the awaited readiness (or HUP/ERR: any positive result) arrives
  | timedOut                 -- nothing happens within the timeout
  | eintr (after : Nat)      -- a handled signal interrupts the wait
  | fail (errno : Nat)       -- any other failure
  deriving Repr, DecidableEq

inductive SendAns where
  | accept (k : Nat)         -- the kernel takes k bytes (k ≤ len; 0 on a non-empty buffer is "unexpected")
  | fail (errno : Nat)
  deriving Repr, DecidableEq

inductive RecvAns where
  | got (bs : Bytes)         -- the kernel hands over these bytes (at most the buffer size is taken)
  | eof
  | fail (errno : Nat)
  deriving Repr, DecidableEq

inductive Call where
  | poll (timeoutMs : Int)
  | send (len : Nat) (accepted : Bytes)   -- bytes really handed to the OS by this call
  | recv (size : Nat)
  deriving Repr, DecidableEq

structure Os where
  polls : List PollAns := []
  sends : List SendAns := []
  recvs : List RecvAns := []
  now : Int := 0
  calls : List Call := []

inductive Exn where
  | system (errno : Nat)     -- std::system_error carrying the OS error
  | logic                    -- std::logic_error ("unexpected send result")
  | closed                   -- std::runtime_error("connection closed")
  | exhausted                -- the script ran out (not an outcome of the code; an unfinished run)
  deriving Repr, DecidableEq

inductive Res (α : Type) where
  | ok (v : α)
  | exn (e : Exn)
  deriving Repr, DecidableEq

/-- `DoPoll` with timeout `t` (ms, as passed to poll): consumes one answer, advances the clock -/
def pollOnce (t : Int) (os : Os) : Option (PollAns × Os) :=
  match os.polls with
  | [] => none
  | a :: rest =>
    let os := { os with polls := rest, calls := .poll t :: os.calls }
    match a with
    | .ready d =>
      if t ≥ 0 ∧ (d : Int) > t then some (.timedOut, { os with now := os.now + t * nsPerMs })
      else some (.ready d, { os with now := os.now + d * nsPerMs })
    | .eintr d =>
      if t ≥ 0 ∧ (d : Int) > t then some (.timedOut, { os with now := os.now + t * nsPerMs })
      else some (.eintr d, { os with now := os.now + d * nsPerMs })
    | .timedOut => some (.timedOut, if t > 0 then { os with now := os.now + t * nsPerMs } else os)
    | .fail e => some (.fail e, os)

/-- `DoPollUninterrupted` for `timeout ≤ 0` (unlimited or zero stay as they are on retry).
Structural recursion on the number of scripted answers. -/
def waitFixed (t : Int) : Nat → Os → Res Bool × Os
  | 0, os => (.exn .exhausted, os)
  | fuel + 1, os =>
    match pollOnce t os with
    | none => (.exn .exhausted, os)
    | some (.ready _, os') => (.ok true, os')
    | some (.timedOut, os') => (.ok false, os')
    | some (.eintr _, os') => waitFixed t fuel os'
    | some (.fail e, os') => (.exn (.system e), os')

/-- `DoPollUninterrupted` for `timeout > 0`: retry with the time remaining until the deadline -/
def waitLimited (deadline : Int) : Nat → Os → Res Bool × Os
  | 0, os => (.exn .exhausted, os)
  | fuel + 1, os =>
    match pollOnce (toMsec (Deadline.limited os.now deadline).remaining) os with
    | none => (.exn .exhausted, os)
    | some (.ready _, os') => (.ok true, os')
    | some (.timedOut, os') => (.ok false, os')
    | some (.eintr _, os') => waitLimited deadline fuel os'
    | some (.fail e, os') => (.exn (.system e), os')

/-- `Wait(fd, events, timeout)`: true = ready, false = timeout exceeded -/
def wait (timeoutMs : Int) (os : Os) : Res Bool × Os :=
  if timeoutMs ≤ 0 then waitFixed (toMsec timeoutMs) (os.polls.length + 1) os
  else waitLimited (os.now + timeoutMs * nsPerMs) (os.polls.length + 1) os

/-- `SendNow` -/
def sendNow (data : Bytes) (os : Os) : Res Nat × Os :=
  match os.sends with
  | [] => (.exn .exhausted, os)
  | a :: rest =>
    match a with
    | .accept k =>
      let k := min k data.length
      let os := { os with sends := rest, calls := .send data.length (data.take k) :: os.calls }
      if k = 0 ∧ data.length > 0 then (.exn .logic, os) else (.ok k, os)
    | .fail e => (.exn (.system e), { os with sends := rest, calls := .send data.length [] :: os.calls })

/-- `ReceiveNow` -/
def recvNow (size : Nat) (os : Os) : Res Bytes × Os :=
  match os.recvs with
  | [] => (.exn .exhausted, os)
  | a :: rest =>
    let os := { os with recvs := rest, calls := .recv size :: os.calls }
    match a with
    | .got bs => if (bs.take size).isEmpty then (.exn .closed, os) else (.ok (bs.take size), os)
    | .eof => (.exn .closed, os)
    | .fail e => (.exn (.system e), os)

/-- `Receive(fd, data, size, timeout)`: `none` = timeout exceeded -/
def receive (size : Nat) (timeoutMs : Int) (os : Os) : Res (Option Bytes) × Os :=
  match wait timeoutMs os with
  | (.exn e, os) => (.exn e, os)
  | (.ok false, os) => (.ok none, os)
  | (.ok true, os) =>
    match recvNow size os with
    | (.ok bs, os) => (.ok (some bs), os)
    | (.exn e, os) => (.exn e, os)

/-- `SendAll`: do { wait(-1); sendNow; } while(!remaining.empty()) - recursion on the unsent
suffix is not structural when the kernel accepts 0 bytes of an empty buffer, so fuel = the
number of scripted send answers + 1 -/
def sendAllLoop : Nat → Bytes → Nat → Os → Res Nat × Os
  | 0, _, _, os => (.exn .exhausted, os)
  | fuel + 1, remaining, sent, os =>
    match wait (-1) os with
    | (.exn e, os) => (.exn e, os)
    | (.ok _, os) =>        -- (void)WaitWritable: the result is ignored
      match sendNow remaining os with
      | (.exn e, os) => (.exn e, os)
      | (.ok k, os) =>
        let remaining' := remaining.drop k
        if remaining'.isEmpty then (.ok (sent + k), os)
        else sendAllLoop fuel remaining' (sent + k) os

def sendAll (data : Bytes) (os : Os) : Res Nat × Os :=
  sendAllLoop (os.sends.length + 1) data 0 os

/-- `SendTry` -/
def sendTry (data : Bytes) (os : Os) : Res Nat × Os :=
  match wait 0 os with
  | (.exn e, os) => (.exn e, os)
  | (.ok false, os) => (.ok 0, os)
  | (.ok true, os) => sendNow data os

/-- `SendSome(fd, data, size, deadline)` -/
def sendSomeLoop (deadline : Int) : Nat → Bytes → Nat → Int → Os → Res Nat × Os
  | 0, _, _, _, os => (.exn .exhausted, os)
  | fuel + 1, remaining, sent, dnow, os =>
    match wait (Deadline.limited dnow deadline).remaining os with
    | (.exn e, os) => (.exn e, os)
    | (.ok false, os) => (.ok sent, os)
    | (.ok true, os) =>
      let dnow' := os.now         -- deadline.Tick()
      match sendNow remaining os with
      | (.exn e, os) => (.exn e, os)
      | (.ok k, os) =>
        let remaining' := remaining.drop k
        if remaining'.isEmpty ∨ ¬ (dnow' < deadline) then (.ok (sent + k), os)
        else sendSomeLoop deadline fuel remaining' (sent + k) dnow' os

def sendSome (data : Bytes) (timeoutMs : Int) (os : Os) : Res Nat × Os :=
  sendSomeLoop (os.now + timeoutMs * nsPerMs) (os.sends.length + 1) data 0 os.now os

/-- `SocketImpl::Send(data, size, timeout)` -/
def send (data : Bytes) (timeoutMs : Int) (os : Os) : Res Nat × Os :=
  if timeoutMs < 0 then sendAll data os
  else if timeoutMs = 0 then sendTry data os
  else sendSome data timeoutMs os

/-- UDP `SendTo(data, size, dst, timeout)`: one wait, one `sendto`; all or nothing -/
def sendTo (data : Bytes) (timeoutMs : Int) (os : Os) : Res Nat × Os :=
  match wait timeoutMs os with
  | (.exn e, os) => (.exn e, os)
  | (.ok false, os) => (.ok 0, os)
  | (.ok true, os) =>
    match os.sends with
    | [] => (.exn .exhausted, os)
    | a :: rest =>
      match a with
      | .accept k =>
        let os := { os with sends := rest, calls := .send data.length (data.take (min k data.length)) :: os.calls }
        if k ≠ data.length then (.exn .logic, os) else (.ok k, os)
      | .fail e => (.exn (.system e), { os with sends := rest, calls := .send data.length [] :: os.calls })

/-- UDP `ReceiveFrom(data, size, timeout)`: one wait, one `recvfrom`; an empty datagram is a value -/
def receiveFrom (size : Nat) (timeoutMs : Int) (os : Os) : Res (Option Bytes) × Os :=
  match wait timeoutMs os with
  | (.exn e, os) => (.exn e, os)
  | (.ok false, os) => (.ok none, os)
  | (.ok true, os) =>
    match os.recvs with
    | [] => (.exn .exhausted, os)
    | a :: rest =>
      let os := { os with recvs := rest, calls := .recv size :: os.calls }
      match a with
      | .got bs => (.ok (some (bs.take size)), os)
      | .eof => (.ok (some []), os)
      | .fail e => (.exn (.system e), os)

/-- `Accept(timeout)` / `Acceptor::Listen(timeout)`: one wait, then `accept` (a `recvs` answer:
`got _` = a connection, `fail e` = accept failed) -/
def acceptT (timeoutMs : Int) (os : Os) : Res (Option Unit) × Os :=
  match wait timeoutMs os with
  | (.exn e, os) => (.exn e, os)
  | (.ok false, os) => (.ok none, os)
  | (.ok true, os) =>
    match os.recvs with
    | [] => (.exn .exhausted, os)
    | a :: rest =>
      let os := { os with recvs := rest, calls := .recv 0 :: os.calls }
      match a with
      | .fail e => (.exn (.system e), os)
      | _ => (.ok (some ()), os)

/-- bytes handed to the OS so far, in order -/
def wire (os : Os) : Bytes :=
  (os.calls.reverse.map fun c => match c with | .send _ acc => acc | _ => []).flatten

/-- timeouts passed to `poll`, oldest first -/
def pollArgs (os : Os) : List Int :=
  os.calls.reverse.filterMap fun c => match c with | .poll t => some t | _ => none

end SockModel.SendLoop

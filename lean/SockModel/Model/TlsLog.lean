import SockModel.Model.Tls
/-!
The *logging world*: any `World ω` wrapped so that every `wait` it is asked to perform is recorded
(direction, timeout argument, clock reading when the wait was issued).  The C07 theorems for the TLS
glue (Props/C18.lean, "C07 for the TLS glue") talk about "every wait issued during the call" through
this log.  The log is write-only: nothing the wrapped world answers depends on it
(`logWorld_transparent` in `Model/TlsLogLemmas.lean`).
-/
namespace SockModel.Tls
open SockModel.Net

/-- one `WaitReadable/WaitWritable(fd, timeout)` as the kernel saw it -/
structure WaitRec where
  dir : Dir
  timeout : Int
  /-- `now` when the wait was issued -/
  before : Int
  deriving DecidableEq, Repr

variable {σ ω : Type}

/-- `W` with a log of its waits, newest first -/
def logWorld (W : World ω) : World (ω × List WaitRec) where
  wait x d t := ((W.wait x.1 d t).1, ((W.wait x.1 d t).2, ⟨d, t, W.now x.1⟩ :: x.2))
  send x bs := ((W.send x.1 bs).1, ((W.send x.1 bs).2, x.2))
  recv x n := ((W.recv x.1 n).1, ((W.recv x.1 n).2, x.2))
  now x := W.now x.1

/-- forget the log -/
def unlog (s : St σ (ω × List WaitRec)) : St σ ω := { g := s.g, e := s.e, w := s.w.1 }

/-- start logging: the state `s` over the logged world, with the log `l` so far -/
def withLog (s : St σ ω) (l : List WaitRec := []) : St σ (ω × List WaitRec) := { g := s.g, e := s.e, w := (s.w, l) }

/-- the log of a state of the logged world -/
def logOf (s : St σ (ω × List WaitRec)) : List WaitRec := s.w.2

@[simp] theorem unlog_withLog (s : St σ ω) (l : List WaitRec) : unlog (withLog s l) = s := rfl
@[simp] theorem logOf_withLog (s : St σ ω) (l : List WaitRec) : logOf (withLog s l) = l := rfl

@[simp] theorem logWorld_now (W : World ω) (x : ω × List WaitRec) : (logWorld W).now x = W.now x.1 := rfl
@[simp] theorem logWorld_wait_ans (W : World ω) (x : ω × List WaitRec) (d : Dir) (t : Int) :
    ((logWorld W).wait x d t).1 = (W.wait x.1 d t).1 := rfl
@[simp] theorem logWorld_wait_world (W : World ω) (x : ω × List WaitRec) (d : Dir) (t : Int) :
    ((logWorld W).wait x d t).2 = ((W.wait x.1 d t).2, ⟨d, t, W.now x.1⟩ :: x.2) := rfl
@[simp] theorem logWorld_send_ans (W : World ω) (x : ω × List WaitRec) (bs : Bytes) :
    ((logWorld W).send x bs).1 = (W.send x.1 bs).1 := rfl
@[simp] theorem logWorld_send_world (W : World ω) (x : ω × List WaitRec) (bs : Bytes) :
    ((logWorld W).send x bs).2 = ((W.send x.1 bs).2, x.2) := rfl
@[simp] theorem logWorld_recv_ans (W : World ω) (x : ω × List WaitRec) (n : Nat) :
    ((logWorld W).recv x n).1 = (W.recv x.1 n).1 := rfl
@[simp] theorem logWorld_recv_world (W : World ω) (x : ω × List WaitRec) (n : Nat) :
    ((logWorld W).recv x n).2 = ((W.recv x.1 n).2, x.2) := rfl

end SockModel.Tls

/-
Model of `BufferPool` (src/socket_buffered.cpp:25-91) and of the receive-buffer
discipline of the buffered / async sockets (src/socket_buffered_impl.cpp).

* `idle` is the `std::stack` (head = top), `busy` the `std::deque` in
  `emplace_back` order, `maxM1` is `m_maxCount = maxCount - 1` in `size_t`
  arithmetic (so `maxCount = 0` becomes `2^64 - 1`, the "unlimited" encoding).
* buffers are identified by an allocation counter; `len`/`cap` are the
  `size()` and (a lower bound of) the `capacity()` of each buffer.
-/
namespace SockModel.Pool

/-- buffers are named by allocation order (plain `Nat`, so `omega` sees through it) -/
notation "BufId" => Nat

def sizeMax : Nat := 2 ^ 64

structure Pool where
  maxM1 : Nat
  idle  : List BufId
  busy  : List BufId
  next  : BufId
  len   : BufId → Nat
  cap   : BufId → Nat

def upd (f : BufId → Nat) (b : BufId) (v : Nat) : BufId → Nat :=
  fun x => if x = b then v else f x

@[simp] theorem upd_same (f : BufId → Nat) (b v) : upd f b v b = v := by simp [upd]
@[simp] theorem upd_other (f : BufId → Nat) (b v x) (h : x ≠ b) : upd f b v x = f x := by
  simp [upd, h]

/-- `BufferPool(maxCount, reserveSize)`: pushes `maxCount` buffers, each with
`reserve(reserveSize)`; the last one pushed is on top. -/
def create (n reserve : Nat) : Pool where
  maxM1 := (n + sizeMax - 1) % sizeMax
  idle  := (List.range n).reverse
  busy  := []
  next  := n
  len   := fun _ => 0
  cap   := fun b => if b < n then reserve else 0

inductive GetRes where
  | ok (b : BufId) (p : Pool)
  | outOfBuffers

/-- `BufferPool::Get` -/
def get (p : Pool) : GetRes :=
  match p.idle with
  | [] =>
    if p.busy.length ≤ p.maxM1 then
      .ok p.next { p with busy := p.busy ++ [p.next], next := p.next + 1,
                          len := upd p.len p.next 0, cap := upd p.cap p.next 0 }
    else .outOfBuffers
  | b :: rest =>
    .ok b { p with idle := rest, busy := p.busy ++ [b], len := upd p.len b 0 }

/-- `BufferPool::Recycle`; `none` = "returned invalid buffer" (logic_error out of a deleter) -/
def recycle (p : Pool) (b : BufId) : Option Pool :=
  if b ∈ p.busy then some { p with idle := b :: p.idle, busy := p.busy.erase b } else none

/-- the user writes into a buffer it holds (`resize`/`assign`): size becomes `n`,
capacity never shrinks -/
def fill (p : Pool) (b : BufId) (n : Nat) : Pool :=
  if b ∈ p.busy then { p with len := upd p.len b n, cap := upd p.cap b (max (p.cap b) n) } else p

inductive Op where
  | get
  | rel (b : BufId)
  | fill (b : BufId) (n : Nat)

/-- one user operation; failing operations leave the pool unchanged -/
def step (p : Pool) : Op → Pool
  | .get => match get p with | .ok _ p' => p' | .outOfBuffers => p
  | .rel b => match recycle p b with | some p' => p' | none => p
  | .fill b n => fill p b n

def run (p : Pool) (ops : List Op) : Pool := ops.foldl step p

/-! ### receive-buffer discipline of the sockets

`SocketBufferedImpl::Receive(timeout)`, `Receive()`, `ReceiveFrom(...)` and
`SocketAsyncImpl::DriverReceive*`: `GetBuffer()` takes a pooled buffer and
resizes it to `rxBufSize`; on a value it is resized to the received count and
handed to the caller, on `nullopt` and on an exception the RAII holder gives it
back before the call returns. -/

inductive RxOutcome where
  | value (n : Nat)     -- n bytes received, buffer handed to the user
  | nothing             -- timeout
  | exn                 -- receive failed / peer closed

inductive RxRes where
  | value (b : BufId) (p : Pool)
  | nothing (p : Pool)
  | exn (p : Pool)
  | outOfBuffers

def rx (p : Pool) (rxBufSize : Nat) (o : RxOutcome) : RxRes :=
  match get p with
  | .outOfBuffers => .outOfBuffers
  | .ok b p1 =>
    let p2 := fill p1 b rxBufSize
    match o with
    | .value n => .value b (fill p2 b n)
    | .nothing => match recycle p2 b with | some p3 => .nothing p3 | none => .outOfBuffers
    | .exn => match recycle p2 b with | some p3 => .exn p3 | none => .outOfBuffers

def RxRes.pool (p : Pool) : RxRes → Pool
  | .value _ q => q
  | .nothing q => q
  | .exn q => q
  | .outOfBuffers => p

end SockModel.Pool

namespace SockModel.Pool

/-! socket receive histories: the user performs receives (with every outcome)
and drops buffers it holds, in any order -/
inductive RxOp where
  | rx (o : RxOutcome)
  | drop (b : BufId)

structure RxState where
  pool : Pool
  held : List BufId     -- buffers the user currently owns, oldest first

def rxStep (size : Nat) (s : RxState) : RxOp → RxState
  | .rx o => match rx s.pool size o with
    | .value b q => { pool := q, held := s.held ++ [b] }
    | .nothing q => { s with pool := q }
    | .exn q => { s with pool := q }
    | .outOfBuffers => s
  | .drop b =>
    if b ∈ s.held then
      match recycle s.pool b with
      | some q => { pool := q, held := s.held.erase b }
      | none => s
    else s

def rxRun (size : Nat) (s : RxState) (ops : List RxOp) : RxState := ops.foldl (rxStep size) s

end SockModel.Pool

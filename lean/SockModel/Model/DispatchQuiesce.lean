import SockModel.Model.DispatchLemmas
/-!
Data-level quiescence of the dispatch model (used by C04 and C17): once a socket has been
unregistered (`~SocketAsyncImpl` → `AsyncUnregister`, or the library's own `DriverDisconnect`),
no later operation of ANY history appends a handler invocation of that socket to the log.

`Gone s i`: socket `i` was registered at some time and is not registered now.  Socket ids are
never reused (`DInv.idsLt`, `DInv.blFresh`), so `Gone` is stable, and every handler invocation is
appended for a socket that is registered at that moment.
-/
namespace SockModel.Dispatch
open SockModel.AsyncQ (Bytes)

def Gone (s : St) (i : Nat) : Prop := i ∈ s.created.map (·.id) ∧ i ∉ s.socks.map (·.id)

/-- the handler invocations of socket `i` in a log -/
def evOf (i : Nat) (l : List Event) : List Event := l.filter (fun e => e.sock = i)

theorem evOf_append_ne {i : Nat} (l : List Event) {e : Event} (h : e.sock ≠ i) : evOf i (l ++ [e]) = evOf i l := by
  simp [evOf, List.filter_append, h]

theorem gone_of_sublist {s s' : St} {i : Nat} (hc : s'.created = s.created) (hs : s'.socks.Sublist s.socks)
    (h : Gone s i) : Gone s' i := by
  refine ⟨hc ▸ h.1, fun hm => h.2 ?_⟩
  exact (hs.map (·.id)).subset hm

theorem gone_destroyAll {s : St} {i : Nat} (ids : List Nat) (h : Gone s i) : Gone (destroyAll s ids) i :=
  gone_of_sublist (destroyAll_fields s ids).2.2.2.2.2.1 (destroyAll_fields s ids).2.2.2.2.2.2.2 h

theorem id_ne_of_mem {s : St} {i : Nat} (h : Gone s i) {k : Sock} (hk : k ∈ s.socks) : k.id ≠ i := by
  intro he
  exact h.2 (List.mem_map.mpr ⟨k, hk, he⟩)

/-- `DriverDisconnect` of a registered socket `k` leaves `i` gone and adds nothing of `i` -/
theorem disconnect_gone {s : St} {i : Nat} (hg : Gone s i) {k : Sock} (hk : k ∈ s.socks) (r : Reason) (hdl : List Nat) :
    Gone (disconnect s k r hdl) i ∧ evOf i (disconnect s k r hdl).log = evOf i s.log := by
  have hne := id_ne_of_mem hg hk
  unfold disconnect
  constructor
  · apply gone_destroyAll
    exact gone_of_sublist (s := s) rfl (by rw [unregister_socks]; exact List.filter_sublist) hg
  · rw [(destroyAll_fields _ hdl).2.2.2.2.1]
    simp only [unregister_log]
    exact evOf_append_ne _ hne

theorem doTask_gone {s : St} (h : DInv s) {i : Nat} (hg : Gone s i) {k : Sock} (hk : k ∈ s.socks) (t : Task)
    (chunk rx : Nat) (hdl : List Nat) :
    Gone (doTask s k t chunk rx hdl) i ∧ evOf i (doTask s k t chunk rx hdl).log = evOf i s.log := by
  have hne := id_ne_of_mem hg hk
  cases t with
  | readable =>
    cases hkind : k.kind with
    | tcp =>
      simp only [doTask, hkind, driverReceive]
      split
      · exact disconnect_gone hg hk _ hdl
      · constructor
        · apply gone_destroyAll
          exact gone_of_sublist (s := s) rfl (List.Sublist.refl _) hg
        · rw [(destroyAll_fields _ hdl).2.2.2.2.1]
          exact evOf_append_ne _ hne
    | acceptor =>
      simp only [doTask, hkind, driverConnect]
      split
      · exact ⟨hg, rfl⟩
      · rename_i c addr rest hb
        have hfresh := (h.blFresh k.id (c, addr) (by rw [hb]; simp)).2
        have hci : c ≠ i := fun he => hfresh (he ▸ hg.1)
        constructor
        · apply gone_destroyAll
          refine ⟨?_, ?_⟩
          · simp only [List.map_append, List.mem_append]
            exact Or.inl hg.1
          · simp only [List.map_append, List.mem_append, List.map_cons, List.map_nil, List.mem_singleton]
            rintro (hm | hm)
            · exact hg.2 hm
            · exact hci hm.symm
        · rw [(destroyAll_fields _ hdl).2.2.2.2.1]
          exact evOf_append_ne _ hne
  | writable =>
    simp only [doTask]
    exact ⟨⟨hg.1, hg.2⟩, trivial⟩
  | error =>
    cases hkind : k.kind with
    | tcp =>
      simp only [doTask, hkind]
      exact disconnect_gone hg hk _ hdl
    | acceptor =>
      simp only [doTask, hkind]
      exact ⟨hg, trivial⟩

theorem newSock_gone {s : St} (h : DInv s) {i : Nat} (hg : Gone s i) (new : Sock) (hid : new.id = s.nextId) :
    Gone { s with socks := s.socks ++ [new], created := s.created ++ [new], nextId := s.nextId + 1 } i := by
  have hlt := lt_of_mem_created h hg.1
  refine ⟨?_, ?_⟩
  · simp only [List.map_append, List.mem_append]
    exact Or.inl hg.1
  · simp only [List.map_append, List.mem_append, List.map_cons, List.map_nil, List.mem_singleton]
    rintro (hm | hm)
    · exact hg.2 hm
    · omega

/-- one operation of any kind: `i` stays gone and its handler log does not grow -/
theorem apply_gone {order : List Nat} {s : St} (h : DInv s) {i : Nat} (hg : Gone s i) (op : Op) :
    Gone (apply order s op) i ∧ evOf i (apply order s op).log = evOf i s.log := by
  cases op with
  | newClient addr rx => exact ⟨newSock_gone h hg _ rfl, rfl⟩
  | newAcceptor => exact ⟨newSock_gone h hg _ rfl, rfl⟩
  | peerConnect a addr =>
    simp only [apply]
    split
    · exact ⟨⟨hg.1, hg.2⟩, rfl⟩
    · exact ⟨hg, rfl⟩
  | peerSend c bytes =>
    simp only [apply]
    split
    · exact ⟨hg, rfl⟩
    · exact ⟨⟨hg.1, hg.2⟩, rfl⟩
  | peerClose c => exact ⟨⟨hg.1, hg.2⟩, rfl⟩
  | peerRst c => exact ⟨⟨hg.1, hg.2⟩, rfl⟩
  | wantSend j =>
    simp only [apply]
    split
    · exact ⟨⟨hg.1, hg.2⟩, rfl⟩
    · exact ⟨hg, rfl⟩
  | destroy j =>
    simp only [apply]
    exact ⟨gone_of_sublist (s := s) rfl (by rw [unregister_socks]; exact List.filter_sublist) hg, rfl⟩
  | step pipe chunk rx hdl =>
    simp only [apply, stepSockets]
    split
    · exact ⟨hg, rfl⟩
    · split
      · exact ⟨hg, rfl⟩
      · rename_i k t hf
        exact doTask_gone h hg (firstTask_spec hf).1 t chunk rx hdl

/-- any continuation: `i` stays gone and none of its handlers is ever invoked again -/
theorem run_gone {order : List Nat} {s : St} (h : DInv s) {i : Nat} (hg : Gone s i) (ops : List Op) :
    Gone (run order s ops) i ∧ evOf i (run order s ops).log = evOf i s.log := by
  induction ops generalizing s with
  | nil => exact ⟨hg, rfl⟩
  | cons op ops ih =>
    have h1 := apply_gone (order := order) h hg op
    have := ih (inv_apply h op) h1.1
    simp only [run, List.foldl_cons] at this ⊢
    exact ⟨this.1, this.2.trans h1.2⟩

/-- destroying a registered socket (outside a handler) makes it gone -/
theorem gone_after_destroy {order : List Nat} {s : St} (h : DInv s) {i : Nat} (hi : i ∈ s.socks.map (·.id)) :
    Gone (apply order s (.destroy i)) i := by
  obtain ⟨k, hk, rfl⟩ := List.mem_map.mp hi
  refine ⟨List.mem_map.mpr ⟨k, h.sub k hk, rfl⟩, ?_⟩
  simp only [apply, unregister_socks, List.mem_map, List.mem_filter]
  rintro ⟨x, ⟨_, hx⟩, hxe⟩
  simp [hxe] at hx

end SockModel.Dispatch

import SockModel.Model.Lifecycle
/-! Invariants of the lifecycle machine (`Model/Lifecycle.lean`). -/
namespace SockModel.Lifecycle

theorem erasePfd_map (l : List (Nat × Bool)) (fd : Nat) :
    (erasePfd l fd).map (·.1) = (l.map (·.1)).erase fd := by
  induction l with
  | nil => rfl
  | cons p ps ih =>
    simp only [erasePfd, List.map_cons, List.erase_cons]
    by_cases h : p.1 = fd
    · simp [h]
    · simp [h, ih]

theorem setOut_map (l : List (Nat × Bool)) (fd : Nat) (v : Bool) :
    (setOut l fd v).map (·.1) = l.map (·.1) := by
  induction l with
  | nil => rfl
  | cons p ps ih =>
    simp only [setOut]
    by_cases h : p.1 = fd
    · simp [h]
    · simp [h, ih]

@[simp] theorem setDrv_same (s : St) (d : Nat) (v : Drv) : (s.setDrv d v).drv d = v := by simp [St.setDrv]
theorem setDrv_other (s : St) {d x : Nat} (v : Drv) (h : x ≠ d) : (s.setDrv d v).drv x = s.drv x := by simp [St.setDrv, h]
@[simp] theorem setSock_same (s : St) (i : Nat) (v : Sock) : (s.setSock i v).sock i = v := by simp [St.setSock]
theorem setSock_other (s : St) {i x : Nat} (v : Sock) (h : x ≠ i) : (s.setSock i v).sock x = s.sock x := by simp [St.setSock, h]

/-- the invariant behind `legal_never_ub` -/
structure LInv (s : St) : Prop where
  ub : s.ub = none
  par : ∀ d, (s.drv d).pfds.map (·.1) = (s.drv d).sockets
  reg : ∀ d x, (s.drv d).alive = true → x ∈ (s.drv d).sockets → (s.sock x).alive = true ∧ (s.sock x).drv = d
  nodup : ∀ d, (s.drv d).sockets.Nodup
  sockPresent : ∀ x, (s.sock x).alive = true → (s.sock x).present = true
  drvPresent : ∀ d, (s.drv d).alive = true → (s.drv d).present = true
  cfg : ∀ x, (s.sock x).selfDestroyInRecv = false ∧ ((s.sock x).onDisc = true → (s.sock x).holdRx = false) ∧
    ((s.sock x).held > 0 → (s.sock x).holdRx = true)
  q : ∀ x id, id ∈ (s.sock x).sendQ → s.futs id = some (x, .pending)
  qnodup : ∀ x, (s.sock x).sendQ.Nodup
  poolq : s.poolAlive = false → ∀ j, s.isPoolPending j = false
  nf : ∀ j, s.futs j ≠ none → j < s.nfut

theorem LInv.init : LInv {} :=
  { ub := rfl, par := fun _ => rfl, reg := fun _ _ h => by simp at h, nodup := fun _ => List.nodup_nil,
    sockPresent := fun _ h => by simp at h, drvPresent := fun _ h => by simp at h,
    cfg := fun _ => ⟨rfl, by simp, by simp⟩, q := fun _ _ h => by simp at h, qnodup := fun _ => List.nodup_nil,
    poolq := fun h => by simp at h, nf := fun _ h => by simp at h }

theorem LInv.setDrv' {s : St} (h : LInv s) (d : Nat) (v : Drv)
    (hpar : v.pfds.map (·.1) = v.sockets) (hnd : v.sockets.Nodup)
    (hreg : v.alive = true → ∀ x ∈ v.sockets, (s.sock x).alive = true ∧ (s.sock x).drv = d)
    (hpr : v.alive = true → v.present = true) :
    LInv (s.setDrv d v) :=
  { ub := h.ub
    par := fun d' => by
      by_cases hd : d' = d
      · subst hd; simpa using hpar
      · rw [setDrv_other s v hd]; exact h.par d'
    reg := fun d' x ha hx => by
      by_cases hd : d' = d
      · subst hd
        simp only [setDrv_same] at ha hx
        exact hreg ha x hx
      · rw [setDrv_other s v hd] at ha hx; exact h.reg d' x ha hx
    nodup := fun d' => by
      by_cases hd : d' = d
      · subst hd; simpa using hnd
      · rw [setDrv_other s v hd]; exact h.nodup d'
    sockPresent := h.sockPresent
    drvPresent := fun d' ha => by
      by_cases hd : d' = d
      · subst hd; simp only [setDrv_same] at ha ⊢; exact hpr ha
      · rw [setDrv_other s v hd] at ha ⊢; exact h.drvPresent d' ha
    cfg := h.cfg, q := h.q, qnodup := h.qnodup, poolq := h.poolq, nf := h.nf }

/-- replacing a driver record by one that lists a sub-list of its sockets, still in step with `pfds` -/
theorem LInv.setDrv {s : St} (h : LInv s) (d : Nat) (v : Drv)
    (hpar : v.pfds.map (·.1) = v.sockets) (hsub : ∀ x ∈ v.sockets, x ∈ (s.drv d).sockets)
    (hnd : v.sockets.Nodup) (hal : v.alive = true → (s.drv d).alive = true) (hpr : v.alive = true → v.present = true) :
    LInv (s.setDrv d v) :=
  h.setDrv' d v hpar hnd (fun ha x hx => h.reg d x (hal ha) (hsub x hx)) hpr

theorem LInv.emit {s : St} (h : LInv s) (e : Ev) : LInv (s.emit e) :=
  { ub := h.ub, par := h.par, reg := h.reg, nodup := h.nodup, sockPresent := h.sockPresent, drvPresent := h.drvPresent,
    cfg := h.cfg, q := h.q, qnodup := h.qnodup, poolq := h.poolq, nf := h.nf }

theorem LInv.unregister {s : St} (h : LInv s) (d i : Nat) : LInv (s.setDrv d ((s.drv d).unregister i)) := by
  apply h.setDrv
  · simp only [Drv.unregister]; rw [erasePfd_map, h.par d]
  · intro x hx; exact List.mem_of_mem_erase hx
  · exact (h.nodup d).erase i
  · exact id
  · exact h.drvPresent d

/-- changing only the POLLOUT flags -/
theorem LInv.setOut {s : St} (h : LInv s) (d i : Nat) (v : Bool) :
    LInv (s.setDrv d { (s.drv d) with pfds := setOut (s.drv d).pfds i v }) := by
  apply h.setDrv
  · simp only; rw [setOut_map, h.par d]
  · exact fun x hx => hx
  · exact h.nodup d
  · exact id
  · exact h.drvPresent d

theorem LInv.setTodos {s : St} (h : LInv s) (d : Nat) (l : List Nat) :
    LInv (s.setDrv d { (s.drv d) with todos := l }) := by
  apply h.setDrv
  · exact h.par d
  · exact fun x hx => hx
  · exact h.nodup d
  · exact id
  · exact h.drvPresent d

/-- a change to a socket record that keeps identity, configuration and queue -/
theorem LInv.setSockLight {s : St} (h : LInv s) (i : Nat) (k : Sock)
    (ha : k.alive = (s.sock i).alive) (hd : k.drv = (s.sock i).drv) (hp : k.present = (s.sock i).present)
    (hs : k.selfDestroyInRecv = (s.sock i).selfDestroyInRecv) (ho : k.onDisc = (s.sock i).onDisc)
    (hh : k.holdRx = (s.sock i).holdRx) (hq : k.sendQ = (s.sock i).sendQ) (hheld : k.held > 0 → k.holdRx = true) :
    LInv (s.setSock i k) :=
  { ub := h.ub, par := h.par, nodup := h.nodup, drvPresent := h.drvPresent, poolq := h.poolq, nf := h.nf
    reg := fun d x hal hx => by
      by_cases hxi : x = i
      · subst hxi; simp only [setSock_same]; rw [ha, hd]; exact h.reg d x hal hx
      · rw [setSock_other s k hxi]; exact h.reg d x hal hx
    sockPresent := fun x hal => by
      by_cases hxi : x = i
      · subst hxi; simp only [setSock_same] at hal ⊢; rw [hp]; rw [ha] at hal; exact h.sockPresent x hal
      · rw [setSock_other s k hxi] at hal ⊢; exact h.sockPresent x hal
    cfg := fun x => by
      by_cases hxi : x = i
      · subst hxi; simp only [setSock_same]; rw [hs, ho, hh]; exact ⟨(h.cfg x).1, (h.cfg x).2.1, by rw [← hh]; exact hheld⟩
      · rw [setSock_other s k hxi]; exact h.cfg x
    q := fun x id hid => by
      by_cases hxi : x = i
      · subst hxi; simp only [setSock_same] at hid; rw [hq] at hid; exact h.q x id hid
      · rw [setSock_other s k hxi] at hid; exact h.q x id hid
    qnodup := fun x => by
      by_cases hxi : x = i
      · subst hxi; simp only [setSock_same]; rw [hq]; exact h.qnodup x
      · rw [setSock_other s k hxi]; exact h.qnodup x }

theorem isPending_iff (s : St) (j : Nat) : s.isPending j = true ↔ ∃ x, s.futs j = some (x, .pending) := by
  unfold St.isPending
  constructor
  · intro h
    split at h
    · rename_i x heq; exact ⟨x, heq⟩
    · cases h
  · intro ⟨x, hx⟩; rw [hx]

theorem isPoolPending_iff (s : St) (j : Nat) : s.isPoolPending j = true ↔ s.isPending j = true ∧ s.echo j = false := by
  unfold St.isPoolPending
  simp

/-- `~SocketAsyncImpl` of a live socket whose receive buffers were all returned -/
theorem LInv.destroySockObj {s : St} (h : LInv s) (i : Nat) (hal : (s.sock i).alive = true) (hheld : (s.sock i).held = 0) :
    LInv (s.destroySockObj i) := by
  unfold St.destroySockObj
  simp only [hheld, Nat.lt_irrefl, ↓reduceIte]
  -- step 1: unregister
  have h1 : LInv (if (s.drv (s.sock i).drv).alive = true then s.setDrv (s.sock i).drv ((s.drv (s.sock i).drv).unregister i) else s) := by
    split
    · exact h.unregister _ _
    · exact h
  have hsock1 : ∀ x, (if (s.drv (s.sock i).drv).alive = true then s.setDrv (s.sock i).drv ((s.drv (s.sock i).drv).unregister i) else s).sock x = s.sock x := by
    intro x; split <;> rfl
  have hfut1 : (if (s.drv (s.sock i).drv).alive = true then s.setDrv (s.sock i).drv ((s.drv (s.sock i).drv).unregister i) else s).futs = s.futs := by
    split <;> rfl
  have hpool1 : (if (s.drv (s.sock i).drv).alive = true then s.setDrv (s.sock i).drv ((s.drv (s.sock i).drv).unregister i) else s).poolAlive = s.poolAlive := by
    split <;> rfl
  have hecho1 : (if (s.drv (s.sock i).drv).alive = true then s.setDrv (s.sock i).drv ((s.drv (s.sock i).drv).unregister i) else s).echo = s.echo := by
    split <;> rfl
  -- after step 1 the socket is in no list of a live driver
  have hnot : ∀ d, ((if (s.drv (s.sock i).drv).alive = true then s.setDrv (s.sock i).drv ((s.drv (s.sock i).drv).unregister i) else s).drv d).alive = true →
      i ∉ ((if (s.drv (s.sock i).drv).alive = true then s.setDrv (s.sock i).drv ((s.drv (s.sock i).drv).unregister i) else s).drv d).sockets := by
    intro d hda hin
    by_cases hdrv : (s.drv (s.sock i).drv).alive = true
    · simp only [hdrv, ↓reduceIte] at hda hin
      by_cases hd : d = (s.sock i).drv
      · subst hd
        simp only [setDrv_same, Drv.unregister] at hin
        exact (List.Nodup.mem_erase_iff (h.nodup _)).mp hin |>.1 rfl
      · rw [setDrv_other s _ hd] at hda hin
        exact hd (h.reg d i hda hin).2.symm
    · simp only [hdrv] at hda hin
      have := (h.reg d i hda hin).2
      rw [← this] at hda
      exact hdrv hda
  generalize hs1 : (if (s.drv (s.sock i).drv).alive = true then s.setDrv (s.sock i).drv ((s.drv (s.sock i).drv).unregister i) else s) = s1 at h1 hsock1 hfut1 hpool1 hecho1 hnot
  -- step 2: the pool check cannot fire
  have hq0 : ¬ ((s.sock i).sendQ.any (fun id => !s.echo id) = true ∧ ¬ s1.poolAlive = true) := by
    intro ⟨hany, hp⟩
    have hp' : s1.poolAlive = false := by simpa using hp
    obtain ⟨id, hid, hne⟩ := List.any_eq_true.mp hany
    have := h.q i id hid
    have hpen := h1.poolq hp' id
    have hpt : s1.isPoolPending id = true := by
      rw [isPoolPending_iff, isPending_iff]
      exact ⟨⟨i, by rw [hfut1]; exact this⟩, by rw [hecho1]; simpa using hne⟩
    rw [hpen] at hpt; cases hpt
  simp only [hq0, ↓reduceIte]
  exact
  { ub := h1.ub, par := h1.par, nodup := h1.nodup, drvPresent := h1.drvPresent
    reg := fun d x hda hx => by
      have hxi : x ≠ i := fun e => hnot d hda (e ▸ hx)
      have := h1.reg d x hda hx
      rw [hsock1] at this
      show ((St.setSock _ i _).sock x).alive = true ∧ _
      rw [setSock_other _ _ hxi]
      exact (hsock1 x).symm ▸ this
    sockPresent := fun x hxa => by
      by_cases hxi : x = i
      · subst hxi; simp at hxa
      · rw [setSock_other _ _ hxi] at hxa ⊢
        have := h1.sockPresent x
        exact this hxa
    cfg := fun x => by
      by_cases hxi : x = i
      · subst hxi
        simp only [setSock_same]
        have := h.cfg x
        exact ⟨this.1, this.2.1, by simp⟩
      · rw [setSock_other _ _ hxi]; exact h1.cfg x
    q := fun x id hid => by
      by_cases hxi : x = i
      · subst hxi; simp at hid
      · rw [setSock_other _ _ hxi] at hid
        have hx := h1.q x id hid
        have hnotin : id ∉ (s.sock i).sendQ := by
          intro hin
          have h2 := h.q i id hin
          rw [hfut1] at hx
          rw [hx] at h2
          cases h2
          exact hxi rfl
        show (if id ∈ (s.sock i).sendQ then _ else s1.futs id) = _
        rw [if_neg hnotin]; exact hx
    qnodup := fun x => by
      by_cases hxi : x = i
      · subst hxi; simp
      · rw [setSock_other _ _ hxi]; exact h1.qnodup x
    poolq := fun hp j => by
      have := h1.poolq hp j
      cases hpj : St.isPoolPending _ j with
      | false => rfl
      | true =>
        exfalso
        obtain ⟨hpen, hech⟩ := (isPoolPending_iff _ j).mp hpj
        have hech' : s1.echo j = false := hech
        obtain ⟨x, hx⟩ := (isPending_iff _ j).mp hpen
        have hx' : (if j ∈ (s.sock i).sendQ then (s1.futs j).map (fun (p : Nat × Fut) => (p.1, Fut.broken)) else s1.futs j) = some (x, .pending) := hx
        split at hx'
        · cases hf : s1.futs j with
          | none => rw [hf] at hx'; cases hx'
          | some p => rw [hf] at hx'; simp at hx'
        · have : s1.isPoolPending j = true := (isPoolPending_iff _ j).mpr ⟨(isPending_iff _ j).mpr ⟨x, hx'⟩, hech'⟩
          rw [‹s1.isPoolPending j = false›] at this; cases this
    nf := fun j hj => by
      apply h1.nf j
      intro hnone
      apply hj
      show (if j ∈ (s.sock i).sendQ then (s1.futs j).map _ else s1.futs j) = none
      rw [hnone]; split <;> rfl }

theorem LInv.disconnect {s : St} (h : LInv s) (i : Nat) (hal : (s.sock i).alive = true) : LInv (s.disconnect i) := by
  unfold St.disconnect
  have h1 : LInv (if (s.drv (s.sock i).drv).alive = true then s.setDrv (s.sock i).drv ((s.drv (s.sock i).drv).unregister i) else s) := by
    split
    · exact h.unregister _ _
    · exact h
  have hsock1 : (if (s.drv (s.sock i).drv).alive = true then s.setDrv (s.sock i).drv ((s.drv (s.sock i).drv).unregister i) else s).sock i = s.sock i := by
    split <;> rfl
  simp only
  generalize (if (s.drv (s.sock i).drv).alive = true then s.setDrv (s.sock i).drv ((s.drv (s.sock i).drv).unregister i) else s) = s1 at h1 hsock1 ⊢
  have h2 : LInv (s1.emit (.disc i)) := h1.emit _
  split
  · rename_i hod
    apply h2.destroySockObj i
    · show (s1.sock i).alive = true; rw [hsock1]; exact hal
    · show (s1.sock i).held = 0
      rw [hsock1]
      have hc := h.cfg i
      cases hh : (s.sock i).held with
      | zero => rfl
      | succ n =>
        have := hc.2.2 (by omega)
        rw [hc.2.1 hod] at this; cases this
  · exact h2

theorem LInv.onReadable {s : St} (h : LInv s) (i : Nat) (hal : (s.sock i).alive = true) : LInv (s.onReadable i) := by
  unfold St.onReadable
  have hc := h.cfg i
  simp only
  split
  · -- tcp
    split
    · split
      · exact h.disconnect i hal
      · simp only [hc.1, Bool.false_eq_true, ↓reduceIte]
        apply (h.emit _).setSockLight i <;> try (first | rfl | exact hc.1.symm)
        intro hgt
        simp only at hgt ⊢
        by_cases hh : (s.sock i).holdRx = true
        · exact hh
        · simp only [hh, Bool.false_eq_true, ↓reduceIte] at hgt
          exact hc.2.2 hgt
    · exact h.disconnect i hal
  · -- udp
    split
    · exact h
    · simp only [hc.1, Bool.false_eq_true, ↓reduceIte]
      apply (h.emit _).setSockLight i <;> try (first | rfl | exact hc.1.symm)
      intro hgt
      simp only at hgt ⊢
      by_cases hh : (s.sock i).holdRx = true
      · exact hh
      · simp only [hh, Bool.false_eq_true, ↓reduceIte] at hgt
        exact hc.2.2 hgt
  · -- acceptor
    apply (h.emit _).setSockLight i <;> try (first | rfl | exact hc.1.symm)
    exact hc.2.2

theorem LInv.resolveFront {s : St} (h : LInv s) (i id : Nat) (rest : List Nat) (v : Fut) (hv : v ≠ .pending)
    (hq : (s.sock i).sendQ = id :: rest) (fs : Bool) :
    LInv ((s.resolve id v).setSock i { (s.sock i) with sendQ := rest, failSend := fs }) := by
  have hnd := h.qnodup i
  rw [hq] at hnd
  have hidrest : id ∉ rest := (List.nodup_cons.mp hnd).1
  exact
  { ub := h.ub, par := h.par, nodup := h.nodup, drvPresent := h.drvPresent
    reg := fun d x hda hx => by
      by_cases hxi : x = i
      · subst hxi; simp only [setSock_same]; exact h.reg d x hda hx
      · rw [setSock_other _ _ hxi]; exact h.reg d x hda hx
    sockPresent := fun x hxa => by
      by_cases hxi : x = i
      · subst hxi; simp only [setSock_same] at hxa ⊢; exact h.sockPresent x hxa
      · rw [setSock_other _ _ hxi] at hxa ⊢; exact h.sockPresent x hxa
    cfg := fun x => by
      by_cases hxi : x = i
      · subst hxi; simp only [setSock_same]; exact h.cfg x
      · rw [setSock_other _ _ hxi]; exact h.cfg x
    q := fun x j hj => by
      have hne : j ≠ id := by
        by_cases hxi : x = i
        · subst hxi
          simp only [setSock_same] at hj
          intro e; exact hidrest (e ▸ hj)
        · rw [setSock_other _ _ hxi] at hj
          intro e
          subst e
          have h1 := h.q x j hj
          have h2 := h.q i j (by rw [hq]; simp)
          rw [h1] at h2; cases h2; exact hxi rfl
      show (if j = id then _ else s.futs j) = _
      rw [if_neg hne]
      by_cases hxi : x = i
      · subst hxi
        simp only [setSock_same] at hj
        exact h.q x j (by rw [hq]; exact List.mem_cons_of_mem _ hj)
      · rw [setSock_other _ _ hxi] at hj; exact h.q x j hj
    qnodup := fun x => by
      by_cases hxi : x = i
      · subst hxi; simp only [setSock_same]; exact (List.nodup_cons.mp hnd).2
      · rw [setSock_other _ _ hxi]; exact h.qnodup x
    poolq := fun hp j => by
      have := h.poolq hp j
      cases hpj : St.isPoolPending _ j with
      | false => rfl
      | true =>
        exfalso
        obtain ⟨hpen, hech⟩ := (isPoolPending_iff _ j).mp hpj
        have hech' : s.echo j = false := hech
        obtain ⟨x, hx⟩ := (isPending_iff _ j).mp hpen
        have hx' : (if j = id then (s.futs id).map (fun (p : Nat × Fut) => (p.1, v)) else s.futs j) = some (x, .pending) := hx
        split at hx'
        · cases hf : s.futs id with
          | none => rw [hf] at hx'; cases hx'
          | some p =>
            rw [hf] at hx'
            simp only [Option.map_some, Option.some.injEq, Prod.mk.injEq] at hx'
            exact hv hx'.2
        · have hp2 : s.isPoolPending j = true := (isPoolPending_iff _ j).mpr ⟨(isPending_iff _ j).mpr ⟨x, hx'⟩, hech'⟩
          rw [this] at hp2; cases hp2
    nf := fun j hj => by
      apply h.nf j
      intro hnone
      apply hj
      show (if j = id then (s.futs id).map _ else s.futs j) = none
      split
      · rename_i e; subst e; rw [hnone]; rfl
      · exact hnone }

theorem LInv.onWritable {s : St} (h : LInv s) (i : Nat) : LInv (s.onWritable i) := by
  unfold St.onWritable
  simp only
  split
  · exact h
  · rename_i id rest hq
    have hv : (if (s.sock i).kind = .tcp ∧ (s.sock i).failSend = true then Fut.exn
        else if (s.sock i).kind = .tcp ∧ (s.sock i).peer ≠ .up then Fut.either else Fut.value) ≠ .pending := by
      split
      · simp
      · split <;> simp
    have h1 := h.resolveFront i id rest _ hv hq (if (s.sock i).kind = .tcp then false else (s.sock i).failSend)
    split
    · exact h1.setOut _ _ _
    · exact h1

theorem scan_ok (sock : Nat → Sock) : ∀ (l : List Nat) (p : List (Nat × Bool)), p.map (·.1) = l →
    (∀ x ∈ l, (sock x).alive = true) →
    ∃ r, scan sock l p = .ok r ∧ ∀ i, (r = some (.read i) ∨ r = some (.write i)) → i ∈ l := by
  intro l
  induction l with
  | nil =>
    intro p hp _
    cases p with
    | nil => exact ⟨none, rfl, by intro i h; cases h <;> rename_i h <;> cases h⟩
    | cons a as => simp at hp
  | cons x xs ih =>
    intro p hp hal
    cases p with
    | nil => simp at hp
    | cons a as =>
      simp only [List.map_cons, List.cons.injEq] at hp
      unfold scan
      have hx := hal x (by simp)
      simp only [hp.1, ne_eq, not_true_eq_false, ↓reduceIte, hx]
      split
      · exact ⟨_, rfl, by intro i h; cases h <;> rename_i h <;> cases h; simp⟩
      · split
        · exact ⟨_, rfl, by intro i h; cases h <;> rename_i h <;> cases h; simp⟩
        · obtain ⟨r, hr, hi⟩ := ih as hp.2 (fun y hy => hal y (by simp [hy]))
          exact ⟨r, hr, fun i h => by simp [hi i h]⟩

theorem LInv.runTodo {s : St} (h : LInv s) (d : Nat) : LInv (s.runTodo d) := by
  unfold St.runTodo
  split
  · exact h
  · exact (h.setTodos d _).emit _

theorem runTodo_alive (s : St) (d : Nat) : ((s.runTodo d).drv d).alive = (s.drv d).alive := by
  unfold St.runTodo
  split
  · rfl
  · simp [St.emit]

theorem LInv.stepSockets {s : St} (h : LInv s) (d : Nat) (hda : (s.drv d).alive = true) : LInv (s.stepSockets d) := by
  unfold St.stepSockets
  obtain ⟨r, hr, hmem⟩ := scan_ok s.sock (s.drv d).sockets (s.drv d).pfds (h.par d)
    (fun x hx => (h.reg d x hda hx).1)
  rw [hr]
  cases r with
  | none => exact h
  | some t =>
    cases t with
    | read i => exact h.onReadable i (h.reg d i hda (hmem i (.inl rfl))).1
    | write i => exact h.onWritable i

theorem LInv.step {s : St} (h : LInv s) (d : Nat) (hda : (s.drv d).alive = true) : LInv (s.step d) :=
  (h.runTodo d).stepSockets d (by rw [runTodo_alive]; exact hda)

/-- a new live socket object that is not (yet) registered anywhere -/
theorem LInv.newSock {s : St} (h : LInv s) (i : Nat) (k : Sock) (hnp : (s.sock i).present = false)
    (hp : k.present = true) (hs : k.selfDestroyInRecv = false) (ho : k.onDisc = true → k.holdRx = false)
    (hheld : k.held > 0 → k.holdRx = true) (hq : k.sendQ = []) : LInv (s.setSock i k) :=
  have hfresh : ∀ d, (s.drv d).alive = true → i ∉ (s.drv d).sockets := by
    intro d hd hin
    have := h.sockPresent i (h.reg d i hd hin).1
    rw [hnp] at this; cases this
  { ub := h.ub, par := h.par, nodup := h.nodup, drvPresent := h.drvPresent, poolq := h.poolq, nf := h.nf
    reg := fun d x hal hx => by
      have hxi : x ≠ i := fun e => hfresh d hal (e ▸ hx)
      rw [setSock_other s k hxi]; exact h.reg d x hal hx
    sockPresent := fun x hal => by
      by_cases hxi : x = i
      · subst hxi; simp only [setSock_same]; exact hp
      · rw [setSock_other s k hxi] at hal ⊢; exact h.sockPresent x hal
    cfg := fun x => by
      by_cases hxi : x = i
      · subst hxi; simp only [setSock_same]; exact ⟨hs, ho, hheld⟩
      · rw [setSock_other s k hxi]; exact h.cfg x
    q := fun x id hid => by
      by_cases hxi : x = i
      · subst hxi; simp only [setSock_same] at hid; rw [hq] at hid; cases hid
      · rw [setSock_other s k hxi] at hid; exact h.q x id hid
    qnodup := fun x => by
      by_cases hxi : x = i
      · subst hxi; simp only [setSock_same]; rw [hq]; exact List.nodup_nil
      · rw [setSock_other s k hxi]; exact h.qnodup x }

theorem LInv.setTodo {s : St} (h : LInv s) (t : Nat) (v : Todo) : LInv (s.setTodo t v) :=
  { ub := h.ub, par := h.par, reg := h.reg, nodup := h.nodup, sockPresent := h.sockPresent, drvPresent := h.drvPresent,
    cfg := h.cfg, q := h.q, qnodup := h.qnodup, poolq := h.poolq, nf := h.nf }

theorem LInv.wantSend {s : St} (h : LInv s) (i : Nat) : LInv (St.wantSend .fixed s i) := by
  unfold St.wantSend
  simp only
  split
  · exact h
  · split
    · exact h.setOut _ _ _
    · exact h

theorem poolBusy_zero {s : St} (hnf : ∀ j, s.futs j ≠ none → j < s.nfut) (h0 : s.poolBusy = 0) (j : Nat) :
    s.isPoolPending j = false := by
  cases hp : s.isPoolPending j with
  | false => rfl
  | true =>
    exfalso
    obtain ⟨x, hx⟩ := (isPending_iff s j).mp ((isPoolPending_iff s j).mp hp).1
    have hlt : j < s.nfut := hnf j (by rw [hx]; simp)
    unfold St.poolBusy at h0
    have hnil := List.eq_nil_of_length_eq_zero h0
    have : j ∈ (List.range s.nfut).filter s.isPoolPending := List.mem_filter.mpr ⟨List.mem_range.mpr hlt, hp⟩
    rw [hnil] at this
    cases this

theorem LInv.enqueue {s : St} (h : LInv s) (i : Nat) (e : Bool) (hal : (s.sock i).alive = true)
    (hpa : e = false → s.poolAlive = true) : LInv (s.enqueue i e) := by
    unfold St.enqueue
    have hfreshId : ∀ x, s.nfut ∉ (s.sock x).sendQ := by
      intro x hin
      have := h.nf s.nfut (by rw [h.q x _ hin]; simp)
      omega
    exact
      { ub := h.ub, par := h.par, nodup := h.nodup, drvPresent := h.drvPresent
        reg := fun d x hda hx => by
          by_cases hxi : x = i
          · subst hxi; show ((St.setSock s x _).sock x).alive = true ∧ _; simp only [setSock_same]; exact h.reg d x hda hx
          · show ((St.setSock s i _).sock x).alive = true ∧ _; rw [setSock_other _ _ hxi]; exact h.reg d x hda hx
        sockPresent := fun x hxa => by
          by_cases hxi : x = i
          · subst hxi; show ((St.setSock s x _).sock x).present = true; simp only [setSock_same]; exact h.sockPresent x hal
          · have hxa' : ((St.setSock s i _).sock x).alive = true := hxa
            show ((St.setSock s i _).sock x).present = true
            rw [setSock_other _ _ hxi] at hxa' ⊢; exact h.sockPresent x hxa'
        cfg := fun x => by
          by_cases hxi : x = i
          · subst hxi; show ((St.setSock s x _).sock x).selfDestroyInRecv = false ∧ _; simp only [setSock_same]; exact h.cfg x
          · show ((St.setSock s i _).sock x).selfDestroyInRecv = false ∧ _; rw [setSock_other _ _ hxi]; exact h.cfg x
        q := fun x id hid => by
          show (if id = s.nfut then some (i, Fut.pending) else s.futs id) = some (x, Fut.pending)
          by_cases hxi : x = i
          · subst hxi
            have hid' : id ∈ ((St.setSock s x _).sock x).sendQ := hid
            simp only [setSock_same, List.mem_append, List.mem_singleton] at hid'
            cases hid' with
            | inl hm =>
              have : id ≠ s.nfut := fun e => hfreshId x (e ▸ hm)
              rw [if_neg this]; exact h.q x id hm
            | inr he => rw [if_pos he]
          · have hid' : id ∈ ((St.setSock s i _).sock x).sendQ := hid
            rw [setSock_other _ _ hxi] at hid'
            have : id ≠ s.nfut := fun e => hfreshId x (e ▸ hid')
            rw [if_neg this]; exact h.q x id hid'
        qnodup := fun x => by
          by_cases hxi : x = i
          · subst hxi
            show ((St.setSock s x _).sock x).sendQ.Nodup
            simp only [setSock_same]
            apply List.nodup_append.mpr
            refine ⟨h.qnodup x, by simp, ?_⟩
            intro a ha b hb
            simp only [List.mem_singleton] at hb
            subst hb
            intro e; subst e; exact hfreshId x ha
          · show ((St.setSock s i _).sock x).sendQ.Nodup
            rw [setSock_other _ _ hxi]; exact h.qnodup x
        poolq := fun hp j => by
          have hp' : s.poolAlive = false := hp
          cases hpj : St.isPoolPending _ j with
          | false => rfl
          | true =>
            exfalso
            obtain ⟨hpen, hech⟩ := (isPoolPending_iff _ j).mp hpj
            have hech' : (if j = s.nfut then e else s.echo j) = false := hech
            obtain ⟨x, hx⟩ := (isPending_iff _ j).mp hpen
            have hx' : (if j = s.nfut then some (i, Fut.pending) else s.futs j) = some (x, Fut.pending) := hx
            by_cases hj : j = s.nfut
            · rw [if_pos hj] at hech'
              have := hpa hech'
              rw [hp'] at this; cases this
            · rw [if_neg hj] at hech' hx'
              have h1 : s.isPoolPending j = true := (isPoolPending_iff _ j).mpr ⟨(isPending_iff _ j).mpr ⟨x, hx'⟩, hech'⟩
              rw [h.poolq hp' j] at h1; cases h1
        nf := fun j hj => by
          show j < s.nfut + 1
          by_cases hjn : j = s.nfut
          · omega
          · have : s.futs j ≠ none := by
              intro hnone; apply hj
              show (if j = s.nfut then some (i, Fut.pending) else s.futs j) = none
              rw [if_neg hjn]; exact hnone
            have := h.nf j this
            omega }

theorem LInv.exec {s : St} (h : LInv s) (op : Op) (hl : legalOp s op = true) : LInv (exec .fixed s op) := by
  unfold Lifecycle.exec
  rw [if_neg (by rw [h.ub]; simp)]
  cases op with
  | mkDriver d =>
    simp only [legalOp, Bool.not_eq_eq_eq_not, Bool.not_true] at hl
    simp only [hl, Bool.false_eq_true, ↓reduceIte]
    exact h.setDrv' d _ rfl List.nodup_nil (fun _ x hx => by cases hx) (fun _ => rfl)
  | mkSock i k d onDisc holdRx sdr =>
    simp only [legalOp, Bool.and_eq_true, Bool.not_eq_eq_eq_not, Bool.not_true] at hl
    obtain ⟨⟨⟨hnp, hda⟩, hsdr⟩, hcfg⟩ := hl
    simp only [hnp, Bool.false_eq_true, ↓reduceIte, hda, not_true_eq_false]
    subst hsdr
    have h1 := h.newSock i { present := true, alive := true, kind := k, drv := d, onDisc := onDisc, holdRx := holdRx }
      hnp rfl rfl (by intro ho; subst ho; simpa using hcfg) (by simp) rfl
    have hfresh : i ∉ (s.drv d).sockets := by
      intro hin
      have := h.sockPresent i (h.reg d i hda hin).1
      rw [hnp] at this; cases this
    apply h1.setDrv' d
    · show ((s.drv d).pfds ++ [(i, false)]).map (·.1) = (s.drv d).sockets ++ [i]
      rw [List.map_append, h.par d]; rfl
    · show ((s.drv d).sockets ++ [i]).Nodup
      apply List.nodup_append.mpr
      refine ⟨h.nodup d, by simp, ?_⟩
      intro a ha b hb
      simp only [List.mem_singleton] at hb
      subst hb
      intro e; subst e; exact hfresh ha
    · intro _ x hx
      have hx' : x ∈ (s.drv d).sockets ++ [i] := hx
      simp only [List.mem_append, List.mem_singleton] at hx'
      cases hx' with
      | inl hm =>
        have hxi : x ≠ i := fun e => hfresh (e ▸ hm)
        rw [setSock_other _ _ hxi]; exact h.reg d x hda hm
      | inr he => subst he; simp
    · intro _; exact h.drvPresent d hda
  | send i =>
    simp only [legalOp, Bool.and_eq_true, bne_iff_ne, ne_eq, decide_eq_true_eq] at hl
    obtain ⟨⟨⟨hal, _⟩, hpa⟩, _⟩ := hl
    simp only [hal, not_true_eq_false, ↓reduceIte, hpa]
    have h1 := h.enqueue i false hal (fun _ => hpa)
    split
    · exact h1.wantSend i
    · exact h1
  | echo i =>
    simp only [legalOp, Bool.and_eq_true, bne_iff_ne, ne_eq, decide_eq_true_eq] at hl
    obtain ⟨⟨hal, _⟩, hheld⟩ := hl
    have hne : ¬ (s.sock i).held = 0 := by omega
    simp only [hal, not_true_eq_false, ↓reduceIte, hne]
    have h1 : LInv (s.setSock i { (s.sock i) with held := (s.sock i).held - 1 }) :=
      h.setSockLight i _ rfl rfl rfl rfl rfl rfl rfl (fun hgt => (h.cfg i).2.2 (by simp only at hgt; omega))
    have h2 := h1.enqueue i true (by simp [hal]) (fun e => by cases e)
    simp only [hal] at h2
    split
    · exact h2.wantSend i
    · exact h2
  | step d =>
    simp only [legalOp] at hl
    simp only [hl, not_true_eq_false, ↓reduceIte]
    exact h.step d hl
  | peerSend i => exact h.setSockLight i _ rfl rfl rfl rfl rfl rfl rfl (h.cfg i).2.2
  | peerConnect i => exact h.setSockLight i _ rfl rfl rfl rfl rfl rfl rfl (h.cfg i).2.2
  | peerClose i => exact h.setSockLight i _ rfl rfl rfl rfl rfl rfl rfl (h.cfg i).2.2
  | peerReset i => exact h.setSockLight i _ rfl rfl rfl rfl rfl rfl rfl (h.cfg i).2.2
  | sendFail i => exact h.setSockLight i _ rfl rfl rfl rfl rfl rfl rfl (h.cfg i).2.2
  | release i => exact h.setSockLight i _ rfl rfl rfl rfl rfl rfl rfl (by simp)
  | destroySock i =>
    simp only [legalOp, Bool.and_eq_true, beq_iff_eq] at hl
    simp only [hl.1, not_true_eq_false, ↓reduceIte]
    exact h.destroySockObj i hl.1 hl.2
  | destroyDriver d =>
    simp only [legalOp] at hl
    simp only [hl, not_true_eq_false, ↓reduceIte]
    exact h.setDrv' d _ (h.par d) (h.nodup d) (fun ha => by simp at ha) (fun ha => by simp at ha)
  | mkTodo t d scheduled =>
    simp only [legalOp, Bool.and_eq_true, Bool.not_eq_eq_eq_not, Bool.not_true] at hl
    simp only [hl.1, Bool.false_eq_true, ↓reduceIte, hl.2, not_true_eq_false]
    split
    · exact (h.setTodo t _).setTodos d _
    · exact h.setTodo t _
  | cancel t =>
    simp only [legalOp] at hl
    simp only [hl, not_true_eq_false, ↓reduceIte]
    split
    · exact h.setTodos _ _
    · exact h
  | shift t =>
    simp only [legalOp] at hl
    simp only [hl, not_true_eq_false, ↓reduceIte]
    split
    · exact h.setTodos _ _
    · exact h
  | dropTodo t =>
    simp only [legalOp] at hl
    simp only [hl, not_true_eq_false, ↓reduceIte]
    exact h.setTodo t _
  | destroyPool =>
    simp only [legalOp, Bool.and_eq_true, beq_iff_eq] at hl
    simp only [hl.1, not_true_eq_false, ↓reduceIte, hl.2, Nat.lt_irrefl]
    exact
    { ub := h.ub, par := h.par, reg := h.reg, nodup := h.nodup, sockPresent := h.sockPresent, drvPresent := h.drvPresent,
      cfg := h.cfg, q := h.q, qnodup := h.qnodup, nf := h.nf
      poolq := fun _ j => poolBusy_zero h.nf hl.2 j }

theorem LInv.run {s : St} (h : LInv s) : ∀ (ops : List Op), legalFrom .fixed s ops = true → LInv (run .fixed s ops) := by
  intro ops
  induction ops generalizing s with
  | nil => intro _; exact h
  | cons op rest ih =>
    intro hl
    simp only [legalFrom, Bool.and_eq_true] at hl
    exact ih (h.exec op hl.1) hl.2

/-! ### futures never dangle (every history, legal or not, both variants) -/

structure FInv (s : St) : Prop where
  fd : ∀ j x, s.futs j = some (x, .pending) → (s.sock x).alive = true ∧ j ∈ (s.sock x).sendQ
  nf : ∀ j, s.futs j ≠ none → j < s.nfut
  pres : ∀ x, (s.sock x).alive = true → (s.sock x).present = true

theorem FInv.init : FInv {} := ⟨fun _ _ h => by simp at h, fun _ h => by simp at h, fun _ h => by simp at h⟩

theorem FInv.same {s s' : St} (h : FInv s) (hs : s'.sock = s.sock) (hf : s'.futs = s.futs) (hn : s'.nfut = s.nfut) : FInv s' :=
  ⟨fun j x hj => by rw [hf] at hj; rw [hs]; exact h.fd j x hj, fun j hj => by rw [hf] at hj; rw [hn]; exact h.nf j hj,
   fun x hx => by rw [hs] at hx ⊢; exact h.pres x hx⟩

theorem FInv.fail {s : St} (h : FInv s) (why : String) : FInv (s.fail why) := h.same rfl rfl rfl
theorem FInv.emit {s : St} (h : FInv s) (e : Ev) : FInv (s.emit e) := h.same rfl rfl rfl
theorem FInv.setDrv {s : St} (h : FInv s) (d : Nat) (v : Drv) : FInv (s.setDrv d v) := h.same rfl rfl rfl
theorem FInv.setTodo {s : St} (h : FInv s) (t : Nat) (v : Todo) : FInv (s.setTodo t v) := h.same rfl rfl rfl

theorem FInv.setSockKeep {s : St} (h : FInv s) (i : Nat) (k : Sock) (ha : k.alive = (s.sock i).alive)
    (hq : k.sendQ = (s.sock i).sendQ) (hp : k.present = (s.sock i).present) : FInv (s.setSock i k) :=
  ⟨fun j x hj => by
      by_cases hxi : x = i
      · subst hxi; simp only [setSock_same]; rw [ha, hq]; exact h.fd j x hj
      · rw [setSock_other s k hxi]; exact h.fd j x hj,
   h.nf,
   fun x hx => by
      by_cases hxi : x = i
      · subst hxi; simp only [setSock_same] at hx ⊢; rw [hp]; rw [ha] at hx; exact h.pres x hx
      · rw [setSock_other s k hxi] at hx ⊢; exact h.pres x hx⟩

theorem FInv.destroySockObj {s : St} (h : FInv s) (i : Nat) : FInv (s.destroySockObj i) := by
  unfold St.destroySockObj
  simp only
  -- everything before the futures are broken keeps sock / futs
  generalize hs0 : (if (s.sock i).held > 0 then s.fail "socket destroyed while receive buffers of its pool are still held" else s) = s0
  have h0 : FInv s0 := by subst hs0; split; exact h.fail _; exact h
  have e0 : s0.sock = s.sock ∧ s0.futs = s.futs ∧ s0.nfut = s.nfut := by subst hs0; split <;> exact ⟨rfl, rfl, rfl⟩
  generalize hs1 : (if (s0.drv (s.sock i).drv).alive = true then s0.setDrv (s.sock i).drv ((s0.drv (s.sock i).drv).unregister i) else s0) = s1
  have h1 : FInv s1 := by subst hs1; split; exact h0.setDrv _ _; exact h0
  have e1 : s1.sock = s.sock ∧ s1.futs = s.futs ∧ s1.nfut = s.nfut := by subst hs1; split <;> exact e0
  generalize hs2 : (if (s.sock i).sendQ.any (fun id => !s.echo id) = true ∧ ¬s1.poolAlive = true then s1.fail "send buffer returned to a destroyed pool" else s1) = s2
  have h2 : FInv s2 := by subst hs2; split; exact h1.fail _; exact h1
  have e2 : s2.sock = s.sock ∧ s2.futs = s.futs ∧ s2.nfut = s.nfut := by subst hs2; split <;> exact e1
  refine ⟨?_, ?_, ?_⟩
  · intro j x hj
    have hj' : (if j ∈ (s.sock i).sendQ then (s2.futs j).map (fun (p : Nat × Fut) => (p.1, Fut.broken)) else s2.futs j) = some (x, .pending) := hj
    split at hj'
    · cases hf : s2.futs j with
      | none => rw [hf] at hj'; cases hj'
      | some p => rw [hf] at hj'; simp at hj'
    · rename_i hnotin
      rw [e2.2.1] at hj'
      have := h.fd j x hj'
      by_cases hxi : x = i
      · subst hxi; exact absurd this.2 hnotin
      · show ((St.setSock _ i _).sock x).alive = true ∧ j ∈ ((St.setSock _ i _).sock x).sendQ
        rw [setSock_other _ _ hxi]
        show (s2.sock x).alive = true ∧ j ∈ (s2.sock x).sendQ
        rw [e2.1]; exact this
  · intro j hj
    show j < s2.nfut
    rw [e2.2.2]
    apply h.nf j
    intro hnone
    apply hj
    show (if j ∈ (s.sock i).sendQ then (s2.futs j).map _ else s2.futs j) = none
    rw [e2.2.1, hnone]; split <;> rfl
  · intro x hx
    by_cases hxi : x = i
    · subst hxi
      have : ((St.setSock _ x _).sock x).alive = true := hx
      simp at this
    · have hx' : ((St.setSock _ i _).sock x).alive = true := hx
      show ((St.setSock _ i _).sock x).present = true
      rw [setSock_other _ _ hxi] at hx' ⊢
      have hx'' : (s2.sock x).alive = true := hx'
      show (s2.sock x).present = true
      rw [e2.1] at hx'' ⊢; exact h.pres x hx''

theorem FInv.disconnect {s : St} (h : FInv s) (i : Nat) : FInv (s.disconnect i) := by
  unfold St.disconnect
  simp only
  generalize hs1 : (if (s.drv (s.sock i).drv).alive = true then s.setDrv (s.sock i).drv ((s.drv (s.sock i).drv).unregister i) else s) = s1
  have h1 : FInv s1 := by subst hs1; split; exact h.setDrv _ _; exact h
  split
  · exact (h1.emit _).destroySockObj i
  · exact h1.emit _

theorem FInv.onReadable {s : St} (h : FInv s) (i : Nat) : FInv (s.onReadable i) := by
  unfold St.onReadable
  simp only
  split
  · split
    · split
      · exact h.disconnect i
      · split
        · exact (h.emit _).fail _
        · exact (h.emit _).setSockKeep i _ rfl rfl rfl
    · exact h.disconnect i
  · split
    · exact h
    · split
      · exact (h.emit _).fail _
      · exact (h.emit _).setSockKeep i _ rfl rfl rfl
  · exact (h.emit _).setSockKeep i _ rfl rfl rfl

theorem FInv.onWritable {s : St} (h : FInv s) (i : Nat) : FInv (s.onWritable i) := by
  unfold St.onWritable
  simp only
  split
  · exact h
  · rename_i id rest hq
    have hv : (if (s.sock i).kind = .tcp ∧ (s.sock i).failSend = true then Fut.exn
        else if (s.sock i).kind = .tcp ∧ (s.sock i).peer ≠ .up then Fut.either else Fut.value) ≠ .pending := by
      split
      · simp
      · split <;> simp
    generalize (if (s.sock i).kind = .tcp ∧ (s.sock i).failSend = true then Fut.exn
        else if (s.sock i).kind = .tcp ∧ (s.sock i).peer ≠ .up then Fut.either else Fut.value) = v at hv
    generalize (if (s.sock i).kind = .tcp then false else (s.sock i).failSend) = fs
    have h1 : FInv ((s.resolve id v).setSock i { (s.sock i) with sendQ := rest, failSend := fs }) := by
      refine ⟨?_, ?_, ?_⟩
      · intro j x hj
        have hj' : (if j = id then (s.futs id).map (fun (p : Nat × Fut) => (p.1, v)) else s.futs j) = some (x, .pending) := hj
        split at hj'
        · cases hf : s.futs id with
          | none => rw [hf] at hj'; cases hj'
          | some p =>
            rw [hf] at hj'
            simp only [Option.map_some, Option.some.injEq, Prod.mk.injEq] at hj'
            exact absurd hj'.2 hv
        · rename_i hne
          have := h.fd j x hj'
          by_cases hxi : x = i
          · subst hxi
            simp only [setSock_same]
            refine ⟨this.1, ?_⟩
            have hm := this.2
            rw [hq] at hm
            simp only [List.mem_cons] at hm
            cases hm with
            | inl e => exact absurd e hne
            | inr m => exact m
          · rw [setSock_other _ _ hxi]; exact this
      · intro j hj
        apply h.nf j
        intro hnone
        apply hj
        show (if j = id then (s.futs id).map _ else s.futs j) = none
        split
        · rename_i e; subst e; rw [hnone]; rfl
        · exact hnone
      · intro x hx
        by_cases hxi : x = i
        · subst hxi; simp only [setSock_same] at hx ⊢; exact h.pres x hx
        · rw [setSock_other _ _ hxi] at hx ⊢; exact h.pres x hx
    split
    · exact h1.setDrv _ _
    · exact h1

theorem FInv.step {s : St} (h : FInv s) (d : Nat) : FInv (s.step d) := by
  unfold St.step
  have h1 : FInv (s.runTodo d) := by
    unfold St.runTodo
    split
    · exact h
    · exact (h.setDrv _ _).emit _
  unfold St.stepSockets
  split
  · exact h1.fail _
  · exact h1
  · exact h1.onReadable _
  · exact h1.onWritable _

theorem FInv.wantSend {s : St} (h : FInv s) (v : Variant) (i : Nat) : FInv (St.wantSend v s i) := by
  unfold St.wantSend
  simp only
  split
  · exact h
  · split
    · exact h.setDrv _ _
    · cases v
      · exact h
      · exact h.fail _

theorem FInv.enqueue {s : St} (h : FInv s) (i : Nat) (e : Bool) (hal : (s.sock i).alive = true) : FInv (s.enqueue i e) := by
  unfold St.enqueue
  refine ⟨?_, ?_, ?_⟩
  · intro j x hj
    have hj' : (if j = s.nfut then some (i, Fut.pending) else s.futs j) = some (x, .pending) := hj
    split at hj'
    · rename_i e
      cases hj'
      show ((St.setSock s i _).sock i).alive = true ∧ j ∈ ((St.setSock s i _).sock i).sendQ
      simp [hal, e]
    · have := h.fd j x hj'
      by_cases hxi : x = i
      · subst hxi
        show ((St.setSock s x _).sock x).alive = true ∧ j ∈ ((St.setSock s x _).sock x).sendQ
        simp only [setSock_same, List.mem_append]
        exact ⟨this.1, .inl this.2⟩
      · show ((St.setSock s i _).sock x).alive = true ∧ j ∈ ((St.setSock s i _).sock x).sendQ
        rw [setSock_other _ _ hxi]; exact this
  · intro j hj
    show j < s.nfut + 1
    by_cases hjn : j = s.nfut
    · omega
    · have : s.futs j ≠ none := by
        intro hnone; apply hj
        show (if j = s.nfut then some (i, Fut.pending) else s.futs j) = none
        rw [if_neg hjn]; exact hnone
      have := h.nf j this
      omega
  · intro x hx
    by_cases hxi : x = i
    · subst hxi
      show ((St.setSock s x _).sock x).present = true
      simp only [setSock_same]; exact h.pres x hal
    · have hx' : ((St.setSock s i _).sock x).alive = true := hx
      show ((St.setSock s i _).sock x).present = true
      rw [setSock_other _ _ hxi] at hx' ⊢; exact h.pres x hx'

theorem FInv.exec {s : St} (h : FInv s) (v : Variant) (op : Op) : FInv (exec v s op) := by
  unfold Lifecycle.exec
  split
  · exact h
  · cases op with
    | mkDriver d => simp only; split; exact h.fail _; exact h.setDrv _ _
    | mkSock i k d onDisc holdRx sdr =>
      simp only
      split
      · exact h.fail _
      · rename_i hnp
        split
        · exact h.fail _
        · apply FInv.setDrv
          have hna : (s.sock i).alive = false := by
            cases ha : (s.sock i).alive with
            | false => rfl
            | true => exact absurd (h.pres i ha) hnp
          refine ⟨?_, h.nf, ?_⟩
          · intro j x hj
            have := h.fd j x hj
            by_cases hxi : x = i
            · subst hxi; rw [hna] at this; cases this.1
            · rw [setSock_other _ _ hxi]; exact this
          · intro x hx
            by_cases hxi : x = i
            · subst hxi; simp
            · rw [setSock_other _ _ hxi] at hx ⊢; exact h.pres x hx
    | send i =>
      simp only
      split
      · exact h.fail _
      · rename_i hal
        have hal' : (s.sock i).alive = true := by simpa using hal
        split
        · exact h.fail _
        · split
          · exact (h.enqueue i false hal').wantSend v i
          · exact h.enqueue i false hal'
    | echo i =>
      simp only
      split
      · exact h.fail _
      · rename_i hal
        have hal' : (s.sock i).alive = true := by simpa using hal
        split
        · exact h.fail _
        · have h1 : FInv (s.setSock i { (s.sock i) with held := (s.sock i).held - 1 }) := h.setSockKeep i _ rfl rfl rfl
          have h2 := h1.enqueue i true (by simp [hal'])
          split
          · exact h2.wantSend v i
          · exact h2
    | step d => simp only; split; exact h.fail _; exact h.step d
    | peerSend i => exact h.setSockKeep i _ rfl rfl rfl
    | peerConnect i => exact h.setSockKeep i _ rfl rfl rfl
    | peerClose i => exact h.setSockKeep i _ rfl rfl rfl
    | peerReset i => exact h.setSockKeep i _ rfl rfl rfl
    | sendFail i => exact h.setSockKeep i _ rfl rfl rfl
    | release i => exact h.setSockKeep i _ rfl rfl rfl
    | destroySock i => simp only; split; exact h.fail _; exact h.destroySockObj i
    | destroyDriver d => simp only; split; exact h.fail _; exact h.setDrv _ _
    | mkTodo t d scheduled =>
      simp only
      split
      · exact h.fail _
      · split
        · exact h.fail _
        · split
          · exact (h.setTodo _ _).setDrv _ _
          · exact h.setTodo _ _
    | cancel t =>
      simp only
      split
      · exact h.fail _
      · split
        · exact h.setDrv _ _
        · exact h
    | shift t =>
      simp only
      split
      · exact h.fail _
      · split
        · exact h.setDrv _ _
        · exact h
    | dropTodo t => simp only; split; exact h.fail _; exact h.setTodo _ _
    | destroyPool =>
      simp only
      split
      · exact h.fail _
      · split
        · exact h.fail _
        · exact h.same rfl rfl rfl

theorem FInv.run {s : St} (h : FInv s) (v : Variant) : ∀ ops : List Op, FInv (run v s ops) := by
  intro ops
  induction ops generalizing s with
  | nil => exact h
  | cons op rest ih => exact ih (h.exec v op)

/-! ### destruction in any order (helpers of `Props/C17.lean: destroy_any_order` and of `Spec/C17.lean`) -/

def isDestroy : Op → Bool
  | .destroySock _ | .destroyDriver _ | .dropTodo _ => true
  | _ => false

theorem legalFrom_append (v : Variant) (s : St) (a b : List Op) :
    legalFrom v s (a ++ b) = (legalFrom v s a && legalFrom v (run v s a) b) := by
  induction a generalizing s with
  | nil => simp [legalFrom, run]
  | cons op rest ih => simp [legalFrom, run, ih, Bool.and_assoc]

theorem run_append (v : Variant) (s : St) (a b : List Op) : run v s (a ++ b) = run v (run v s a) b := by
  induction a generalizing s with
  | nil => rfl
  | cons op rest ih => simp [run, ih]

theorem destroySockObj_other (s : St) (i : Nat) :
    (∀ j, j ≠ i → (s.destroySockObj i).sock j = s.sock j) ∧
    (∀ d, ((s.destroySockObj i).drv d).alive = (s.drv d).alive) ∧ (s.destroySockObj i).todo = s.todo := by
  unfold St.destroySockObj
  simp only
  refine ⟨?_, ?_, ?_⟩
  · intro j hj
    rw [setSock_other _ _ hj]
    split <;> split <;> split <;> rfl
  · intro d
    show ((St.setSock _ i _).drv d).alive = _
    split <;> split <;> split <;> first
      | rfl
      | (simp only [St.fail, St.setSock, St.setDrv]
         by_cases hd : d = (s.sock i).drv
         · subst hd; simp [Drv.unregister]
         · simp [hd])
  · split <;> split <;> split <;> rfl

/-- a destroy operation does not take away the legality of a different destroy operation -/
theorem destroy_preserves_legal (s : St) (op op' : Op) (hne : op ≠ op') (hd : isDestroy op = true) (hd' : isDestroy op' = true)
    (hl : legalOp s op' = true) : legalOp (exec .fixed s op) op' = true := by
  unfold Lifecycle.exec
  split
  · exact hl
  · cases op with
    | destroySock i =>
      simp only
      split
      · exact hl
      · obtain ⟨h1, h2, h3⟩ := destroySockObj_other s i
        cases op' with
        | destroySock j =>
          have hji : j ≠ i := fun e => hne (by rw [e])
          simp only [legalOp] at hl ⊢
          rw [h1 j hji]; exact hl
        | destroyDriver d => simp only [legalOp] at hl ⊢; rw [h2 d]; exact hl
        | dropTodo t => simp only [legalOp] at hl ⊢; rw [h3]; exact hl
        | _ => cases hd'
    | destroyDriver d =>
      simp only
      split
      · exact hl
      · cases op' with
        | destroySock j => exact hl
        | destroyDriver d' =>
          have hdd : d' ≠ d := fun e => hne (by rw [e])
          simp only [legalOp] at hl ⊢
          rw [setDrv_other _ _ hdd]; exact hl
        | dropTodo t => exact hl
        | _ => cases hd'
    | dropTodo t =>
      simp only
      split
      · exact hl
      · cases op' with
        | destroySock j => exact hl
        | destroyDriver d' => exact hl
        | dropTodo t' =>
          have htt : t' ≠ t := fun e => hne (by rw [e])
          simp only [legalOp, St.setTodo] at hl ⊢
          simp only [htt, ↓reduceIte]; exact hl
        | _ => cases hd'
    | _ => cases hd

theorem legalFrom_destroy_tail : ∀ (tail : List Op) (s : St), tail.Nodup → (∀ op ∈ tail, isDestroy op = true) →
    (∀ op ∈ tail, legalOp s op = true) → legalFrom .fixed s tail = true := by
  intro tail
  induction tail with
  | nil => intro _ _ _ _; rfl
  | cons op rest ih =>
    intro s hnd hk hl
    simp only [legalFrom, Bool.and_eq_true]
    refine ⟨hl op (by simp), ih _ (List.nodup_cons.mp hnd).2 (fun o ho => hk o (by simp [ho])) ?_⟩
    intro o ho
    have hne : op ≠ o := fun e => (List.nodup_cons.mp hnd).1 (e ▸ ho)
    exact destroy_preserves_legal s op o hne (hk op (by simp)) (hk o (by simp [ho])) (hl o (by simp [ho]))

end SockModel.Lifecycle

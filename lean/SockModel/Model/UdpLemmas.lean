import SockModel.Model.Udp
/-! Invariants of the datagram network and of the async `SendToQ` (`Model/Udp.lean`). -/
namespace SockModel.Udp
open SockModel.AsyncQ (Bytes Fut upd upd_same upd_other)

@[simp] theorem updL_same {α} (f : Nat → List α) (i : Nat) (v : List α) : updL f i v i = v := by simp [updL]
theorem updL_other {α} (f : Nat → List α) (i : Nat) (v : List α) (x : Nat) (h : x ≠ i) : updL f i v x = f x := by
  simp [updL, h]

/-- the deliveries addressed to `r`, in the order they took effect -/
def deliveredTo (r : Nat) : List NetOp → List Dgram
  | [] => []
  | .deliver s d p :: ops => if d = r then ⟨p, s⟩ :: deliveredTo r ops else deliveredTo r ops
  | .recv _ _ :: ops => deliveredTo r ops

structure NetInv (n : Net) : Prop where
  arrived : ∀ r, n.arrived r = (n.removed r).map (·.1) ++ n.chan r
  reports : ∀ r, n.reports r = (n.removed r).map (fun x => receiveFrom x.1 x.2)

theorem netInv_init : NetInv {} := ⟨fun _ => rfl, fun _ => rfl⟩

theorem netInv_step {n : Net} (h : NetInv n) (op : NetOp) : NetInv (netStep n op) := by
  cases op with
  | deliver s d p =>
    simp only [netStep]
    refine ⟨fun r => ?_, h.reports⟩
    dsimp only
    by_cases hr : r = d
    · subst hr; simp [h.arrived r]
    · rw [updL_other _ _ _ _ hr, updL_other _ _ _ _ hr]; exact h.arrived r
  | recv r size =>
    simp only [netStep]
    split
    · exact h
    · rename_i d rest hc
      refine ⟨fun x => ?_, fun x => ?_⟩ <;> dsimp only
      · by_cases hx : x = r
        · subst hx; simp [h.arrived x, hc]
        · rw [updL_other _ _ _ _ hx, updL_other _ _ _ _ hx]; exact h.arrived x
      · by_cases hx : x = r
        · subst hx; simp [h.reports x]
        · rw [updL_other _ _ _ _ hx, updL_other _ _ _ _ hx]; exact h.reports x

theorem netInv_run {n : Net} (h : NetInv n) (ops : List NetOp) : NetInv (netRun n ops) := by
  induction ops generalizing n with
  | nil => exact h
  | cons a as ih => exact ih (netInv_step h a)

theorem arrived_run (n : Net) (ops : List NetOp) (r : Nat) :
    (netRun n ops).arrived r = n.arrived r ++ deliveredTo r ops := by
  induction ops generalizing n with
  | nil => simp [netRun, deliveredTo]
  | cons a as ih =>
    simp only [netRun, List.foldl_cons]
    have := ih (netStep n a)
    simp only [netRun] at this
    rw [this]
    cases a with
    | deliver s d p =>
      simp only [netStep, deliveredTo]
      by_cases hr : d = r
      · subst hr; simp
      · rw [updL_other _ _ _ _ (fun h => hr h.symm)]; simp [hr]
    | recv x size =>
      simp only [netStep, deliveredTo]
      split <;> rfl

/-! ### SendToQ -/

structure TInv (s : TQ) : Prop where
  enqd : s.enqd = s.done.map (·.1) ++ s.q
  sent : s.sent = (s.done.filter (fun d => d.2 = .value)).map (·.1)
  ret : s.returned = s.done.map (·.1.id)
  nodup : (s.enqd.map (·.id)).Nodup
  futq : ∀ e ∈ s.q, s.fut e.id = .pending
  futd : ∀ d ∈ s.done, s.fut d.1.id = d.2 ∧ d.2.resolved = true
  futn : ∀ id, id ∉ s.enqd.map (·.id) → s.fut id = .none
  armedInv : s.destroyed = false → (s.armed = true ↔ s.q ≠ [])
  destr : s.destroyed = true → s.q = []

theorem tInv_init : TInv {} := by
  refine ⟨rfl, rfl, rfl, by simp, ?_, ?_, ?_, ?_, ?_⟩ <;> simp

theorem TInv.ids {s : TQ} (h : TInv s) : s.enqd.map (·.id) = s.done.map (·.1.id) ++ s.q.map (·.id) := by
  rw [h.enqd]; simp [Function.comp_def]

theorem TInv.done_ne_q {s : TQ} (h : TInv s) {d : TElem × Fut} {e : TElem} (hd : d ∈ s.done) (he : e ∈ s.q) :
    d.1.id ≠ e.id := by
  have hn := h.nodup
  rw [h.ids] at hn
  exact (List.nodup_append.mp hn).2.2 d.1.id (List.mem_map_of_mem (f := fun x => x.1.id) hd) e.id
    (List.mem_map_of_mem (f := fun x => x.id) he)

theorem TInv.fresh {s : TQ} (h : TInv s) {id : Nat} (hn : s.fut id = .none) : id ∉ s.enqd.map (·.id) := by
  rw [h.ids]
  intro hm
  rcases List.mem_append.mp hm with hm | hm
  · obtain ⟨d, hd, rfl⟩ := List.mem_map.mp hm
    have := h.futd d hd
    rw [hn] at this
    have h2 := this.2; rw [← this.1] at h2; simp [Fut.resolved] at h2
  · obtain ⟨e, he, rfl⟩ := List.mem_map.mp hm
    have := h.futq e he
    rw [hn] at this; cases this

theorem tInv_step {s : TQ} (h : TInv s) (a : TAct) : TInv (tqStep s a) := by
  cases a with
  | enq id p dst =>
    simp only [tqStep]
    split
    · exact h
    · rename_i hc
      simp only [not_or, Decidable.not_not] at hc
      obtain ⟨hd, hf⟩ := hc
      have hfresh := h.fresh hf
      refine ⟨?_, h.sent, h.ret, ?_, ?_, ?_, ?_, ?_, ?_⟩ <;> dsimp only
      · rw [h.enqd]; simp
      · simp only [List.map_append, List.map_cons, List.map_nil]
        rw [List.nodup_append]
        refine ⟨h.nodup, by simp, ?_⟩
        intro a ha b hb
        simp at hb; subst hb
        intro hab; subst hab; exact hfresh ha
      · intro e he
        simp only [List.mem_append, List.mem_singleton] at he
        rcases he with he | rfl
        · by_cases hid : e.id = id
          · simp [hid]
          · rw [upd_other _ _ _ _ hid]; exact h.futq e he
        · simp
      · intro d hd'
        have hdd := h.futd d hd'
        have : d.1.id ≠ id := by
          intro heq
          have h1 := hdd.1; rw [heq, hf] at h1
          have h2 := hdd.2; rw [← h1] at h2; simp [Fut.resolved] at h2
        rw [upd_other _ _ _ _ this]; exact hdd
      · intro id' hid'
        simp only [List.map_append, List.map_cons, List.map_nil, List.mem_append, List.mem_singleton, not_or] at hid'
        rw [upd_other _ _ _ _ hid'.2]; exact h.futn id' hid'.1
      · intro _; simp
      · intro hdes; simp [hd] at hdes
  | destroy =>
    simp only [tqStep]
    split
    · exact h
    · rename_i hc
      refine ⟨?_, ?_, ?_, h.nodup, ?_, ?_, ?_, ?_, ?_⟩ <;> dsimp only
      · rw [h.enqd]; simp [Function.comp_def]
      · rw [h.sent]; simp [List.filter_append, List.filter_map, Function.comp_def]
      · rw [h.ret]; simp [Function.comp_def]
      · intro e he; simp at he
      · intro d hd
        rcases List.mem_append.mp hd with hd | hd
        · have hdd := h.futd d hd
          have hne : s.fut d.1.id ≠ .pending := by
            rw [hdd.1]; intro hp; have := hdd.2; rw [hp] at this; simp [Fut.resolved] at this
          rw [if_neg hne]; exact hdd
        · obtain ⟨e, he, rfl⟩ := List.mem_map.mp hd
          simp [h.futq e he, Fut.resolved]
      · intro id hid
        rw [h.futn id hid]; simp
      · intro hf; cases hf
      · intro _; rfl
  | writable an =>
    simp only [tqStep]
    split
    · exact h
    · rename_i hc
      simp only [not_or, Decidable.not_not] at hc
      obtain ⟨hdes, harm⟩ := hc
      split
      · exact h
      · rename_i e rest hq
        have hemem : e ∈ s.q := by rw [hq]; simp
        have hrest : ∀ x ∈ rest, x ∈ s.q := by intro x hx; rw [hq]; simp [hx]
        have hne : ∀ x ∈ rest, x.id ≠ e.id := by
          intro x hx
          have hn := h.nodup
          rw [h.ids, hq] at hn
          have := (List.nodup_append.mp hn).2.1
          simp only [List.map_cons, List.nodup_cons, List.mem_map, not_exists, not_and] at this
          exact this.1 x hx
        have heid : e.id ∈ s.enqd.map (·.id) := by
          rw [h.ids]; exact List.mem_append_right _ (List.mem_map_of_mem (f := fun x => x.id) hemem)
        have pop : ∀ (how : Fut) (snt : List TElem), how.resolved = true →
            snt = ((s.done ++ [(e, how)]).filter (fun d => d.2 = .value)).map (·.1) →
            TInv { s with q := rest, fut := upd s.fut e.id how, sent := snt, returned := s.returned ++ [e.id],
                          done := s.done ++ [(e, how)], armed := !rest.isEmpty } := by
          intro how snt hres hsnt
          refine ⟨?_, hsnt, ?_, h.nodup, ?_, ?_, ?_, ?_, ?_⟩ <;> dsimp only
          · rw [h.enqd, hq]; simp
          · rw [h.ret]; simp
          · intro x hx
            rw [upd_other _ _ _ _ (hne x hx)]; exact h.futq x (hrest x hx)
          · intro d hd
            rcases List.mem_append.mp hd with hd | hd
            · rw [upd_other _ _ _ _ (h.done_ne_q hd hemem)]; exact h.futd d hd
            · simp only [List.mem_singleton] at hd; subst hd
              exact ⟨by simp, hres⟩
          · intro id hid
            have : id ≠ e.id := by intro heq; subst heq; exact hid heid
            rw [upd_other _ _ _ _ this]; exact h.futn id hid
          · intro _; cases rest <;> simp
          · intro hd'; exact absurd hd' hdes
        cases an with
        | ok => exact pop .value _ rfl (by rw [h.sent]; simp [List.filter_append])
        | fail => exact pop .exn _ rfl (by rw [h.sent]; simp [List.filter_append])

theorem tInv_run {s : TQ} (h : TInv s) (acts : List TAct) : TInv (tqRun s acts) := by
  induction acts generalizing s with
  | nil => exact h
  | cons a as ih => exact ih (tInv_step h a)

end SockModel.Udp

import SockModel.Model.Tls
/-!
Helper lemmas for C18 (and the TLS half of C15).

`Frame P`: a predicate on glue states that is kept by the three primitive actions (wait,
BIO read, BIO write) and does not look at the control fields of the glue or at the engine
state.  `Frame` predicates are kept by *every* composite function of the model - proved once
(`Frame.interp`, `Frame.readLoop`, `Frame.writeLoop`, ... `Frame.aTask`), used for several
invariants.
-/
namespace SockModel.Tls
open SockModel.Net

variable {σ ω : Type}

/-- states that agree on the world and on the glue fields a frame predicate may depend on -/
def SameCore (s s' : St σ ω) : Prop :=
  s'.w = s.w ∧ s'.g.wire = s.g.wire ∧ s'.g.bioWrites = s.g.bioWrites ∧
  s'.g.driverSendSuppressed = s.g.driverSendSuppressed

theorem SameCore.refl (s : St σ ω) : SameCore s s := ⟨rfl, rfl, rfl, rfl⟩

structure Frame (W : World ω) (P : St σ ω → Prop) : Prop where
  core : ∀ {s s'}, P s → SameCore s s' → P s'
  wait : ∀ s d, P s → P (waitUnder W s d).2
  bioRead : ∀ s n, P s → P (bioRead W s n).2
  bioWrite : ∀ s bs, P s → P (bioWrite W s bs).2

namespace Frame
variable {W : World ω} {P : St σ ω → Prop}

theorem handleError (F : Frame W P) (s : St σ ω) (err : SslErr) (h : P s) : P (handleError W s err).2 := by
  cases err <;> simp only [Tls.handleError] <;> first | exact h | exact F.wait _ _ h

theorem handleLastError (F : Frame W P) (s : St σ ω) (h : P s) : P (handleLastError W s).2 := by
  have h1 := F.handleError s s.g.lastError h
  unfold Tls.handleLastError
  split
  · rename_i s' heq
    rw [heq] at h1
    exact F.core h1 ⟨rfl, rfl, rfl, rfl⟩
  · exact h1

theorem handleResult (F : Frame W P) (s : St σ ω) (ans : SslAns) (h : P s) : P (handleResult W s ans).2 := by
  unfold Tls.handleResult
  exact F.handleLastError _ (F.core h ⟨rfl, rfl, rfl, rfl⟩)

theorem interp (F : Frame W P) (prog : EngProg σ) : ∀ (s : St σ ω), P s → P (interp W s prog).2 := by
  induction prog with
  | ret ans out e' => intro s h; exact F.core h ⟨rfl, rfl, rfl, rfl⟩
  | bioRead n k ih =>
    intro s h
    have h1 := F.bioRead s n h
    unfold Tls.interp
    split
    · rename_i bs s' heq; rw [heq] at h1; exact ih bs s' h1
    · rename_i e s' heq; rw [heq] at h1; exact h1
    · rename_i m s' heq; rw [heq] at h1; exact h1
  | bioWrite bs k ih =>
    intro s h
    have h1 := F.bioWrite s bs h
    unfold Tls.interp
    split
    · rename_i n s' heq; rw [heq] at h1; exact ih n s' h1
    · rename_i e s' heq; rw [heq] at h1; exact h1
    · rename_i m s' heq; rw [heq] at h1; exact h1

theorem noteCall (F : Frame W P) (E : Engine σ) (s : St σ ω) (r : Bool) (a : Bytes) (ans : SslAns) (h : P s) :
    P (noteCall E s r a ans) := F.core h ⟨rfl, rfl, rfl, rfl⟩

theorem readRound (F : Frame W P) (C : Cfg) (E : Engine σ) (size i : Nat) (s : St σ ω) (h : P s) :
    P (readRound C W E size i s).2 := by
  have h1 := F.interp (E.sslRead s.e size) s h
  unfold Tls.readRound
  split
  · rename_i e s' heq; rw [heq] at h1; exact h1
  · rename_i m s' heq; rw [heq] at h1; exact h1
  · rename_i ans out s1 heq
    rw [heq] at h1
    have h2 := F.noteCall E s1 true [] ans h1
    simp only
    split
    · exact h2
    · have h3 := F.handleResult (Tls.noteCall E s1 true [] ans) ans h2
      split
      · rename_i e s2 heq2; rw [heq2] at h3; exact h3
      · rename_i m s2 heq2; rw [heq2] at h3; exact h3
      · rename_i s2 heq2; rw [heq2] at h3; exact h3
      · rename_i s2 heq2
        rw [heq2] at h3
        split <;> exact h3

theorem readLoop (F : Frame W P) (C : Cfg) (E : Engine σ) (size : Nat) :
    ∀ (i : Nat) (s : St σ ω), P s → P (readLoop C W E size i s).2 := by
  intro i
  induction i with
  | zero => intro s h; exact h
  | succ i ih =>
    intro s h
    have h1 := F.readRound C E size i s h
    unfold Tls.readLoop
    split
    · rename_i o s' heq; rw [heq] at h1; exact h1
    · rename_i s' heq; rw [heq] at h1; exact ih s' h1

theorem tlsRead (F : Frame W P) (C : Cfg) (E : Engine σ) (s : St σ ω) (size : Nat) (h : P s) :
    P (tlsRead C W E s size).2 := by
  have h1 := F.handleLastError s h
  unfold Tls.tlsRead
  split
  · rename_i s' heq; rw [heq] at h1; exact F.readLoop C E size _ s' h1
  · rename_i s' heq; rw [heq] at h1; exact h1
  · rename_i e s' heq; rw [heq] at h1; exact h1
  · rename_i m s' heq; rw [heq] at h1; exact h1

theorem writeRound (F : Frame W P) (C : Cfg) (E : Engine σ) (i' : Nat) (rest : Bytes) (s : St σ ω) (h : P s) :
    P (writeRound C W E i' rest s).2 := by
  have h1 := F.interp (E.sslWrite s.e rest) s h
  unfold Tls.writeRound
  split
  · exact h
  · split
    · rename_i e s' heq; rw [heq] at h1; exact h1
    · rename_i m s' heq; rw [heq] at h1; exact h1
    · rename_i ans out s1 heq
      rw [heq] at h1
      have h2 := F.noteCall E s1 false rest ans h1
      simp only
      split
      · split
        · exact F.core h2 ⟨rfl, rfl, rfl, rfl⟩
        · split <;> exact F.core h2 ⟨rfl, rfl, rfl, rfl⟩
      · have h4 := F.handleResult (setPending (Tls.noteCall E s1 false rest ans) rest) ans (F.core h2 ⟨rfl, rfl, rfl, rfl⟩)
        split
        · rename_i e s3 heq3; rw [heq3] at h4; exact h4
        · rename_i m s3 heq3; rw [heq3] at h4; exact h4
        · rename_i s3 heq3; rw [heq3] at h4; exact h4
        · rename_i s3 heq3
          rw [heq3] at h4
          split <;> exact h4

end Frame

/-- a round that goes on either consumed bytes or consumed a round -/
theorem writeRound_decreases (C : Cfg) (W : World ω) (E : Engine σ) (i' : Nat) (rest : Bytes) (s : St σ ω)
    (hne : rest ≠ []) (j : Nat) (rest' : Bytes) (s' : St σ ω)
    (h : writeRound C W E i' rest s = (.again j rest', s')) : roundDecreases rest i' rest' j := by
  have hl : 0 < rest.length := List.length_pos_iff.mpr hne
  unfold writeRound at h
  split at h
  · cases h
  · split at h
    · cases h
    · cases h
    · simp only at h
      split at h
      · rename_i k
        split at h
        · rename_i hk
          cases h
          left; simp only [List.length_drop]; omega
        · split at h
          · cases h
          · cases h
            unfold roundDecreases
            simp only [List.length_drop]
            omega
      · split at h
        · cases h
        · cases h
        · cases h
        · split at h
          · cases h
          · cases h
            right; exact ⟨rfl, Nat.le_refl _⟩

/-- loop rule for `writeLoop`: an invariant at the loop head that every round keeps, and a
postcondition that every way of leaving the loop establishes -/
theorem writeLoop_rule (C : Cfg) (W : World ω) (E : Engine σ)
    (Inv : Nat → Bytes → St σ ω → Prop) (Post : Out Bytes → St σ ω → Prop)
    (hexit : ∀ i rest s, Inv i rest s → (i = 0 ∨ rest = []) → Post (.ok rest) s)
    (hstop : ∀ i' rest s o s', Inv (i' + 1) rest s → rest ≠ [] →
      writeRound C W E i' rest s = (.stop o, s') → Post o s')
    (hagain : ∀ i' rest s j rest' s', Inv (i' + 1) rest s → rest ≠ [] →
      writeRound C W E i' rest s = (.again j rest', s') → Inv j rest' s')
    (i : Nat) (rest : Bytes) (s : St σ ω) (h : Inv i rest s) :
    Post (writeLoop C W E i rest s).1 (writeLoop C W E i rest s).2 := by
  fun_induction Tls.writeLoop C W E i rest s with
  | case1 rest s => exact hexit 0 rest s h (Or.inl rfl)
  | case2 s i' => exact hexit _ _ s h (Or.inr rfl)
  | case3 rest s i' hne o s' heq => exact hstop i' rest s o s' h hne heq
  | case4 rest s i' hne j rest' s' heq hdec ih => exact ih (hagain i' rest s j rest' s' h hne heq)
  | case5 rest s i' hne j rest' s' heq hdec =>
    exact absurd (writeRound_decreases C W E i' rest s hne j rest' s' heq) hdec

namespace Frame
variable {W : World ω} {P : St σ ω → Prop}

theorem writeLoop (F : Frame W P) (C : Cfg) (E : Engine σ) (i : Nat) (rest : Bytes) (s : St σ ω) (h : P s) :
    P (writeLoop C W E i rest s).2 :=
  writeLoop_rule C W E (fun _ _ s => P s) (fun _ s => P s)
    (fun _ _ _ h _ => h)
    (fun i' rest s o s' h _ heq => by have := F.writeRound C E i' rest s h; rw [heq] at this; exact this)
    (fun i' rest s j rest' s' h _ heq => by have := F.writeRound C E i' rest s h; rw [heq] at this; exact this)
    i rest s h

theorem tlsWrite (F : Frame W P) (C : Cfg) (E : Engine σ) (s : St σ ω) (data : Bytes) (h : P s) :
    P (tlsWrite C W E s data).2 := by
  have h1 := F.handleLastError s h
  unfold Tls.tlsWrite
  split
  · rename_i s' heq
    rw [heq] at h1
    have h2 := F.writeLoop C E C.stepsMax data s' h1
    split
    · rename_i r s'' heq2; rw [heq2] at h2; exact h2
    · rename_i r s'' heq2; rw [heq2] at h2; exact h2
    · rename_i r s'' heq2; rw [heq2] at h2; exact h2
  · rename_i s' heq; rw [heq] at h1; exact h1
  · rename_i e s' heq; rw [heq] at h1; exact h1
  · rename_i m s' heq; rw [heq] at h1; exact h1

theorem receiveT (F : Frame W P) (C : Cfg) (E : Engine σ) (s : St σ ω) (size : Nat) (t : Int) (h : P s) :
    P (receiveT C W E s size t).2 := by
  have h1 := F.tlsRead C E (setTimeout s t) size (F.core h ⟨rfl, rfl, rfl, rfl⟩)
  unfold Tls.receiveT
  split
  · rename_i s' heq
    rw [heq] at h1
    split
    · exact h1
    · split
      · exact F.core h1 ⟨rfl, rfl, rfl, rfl⟩
      · exact h1
  · exact h1

theorem receiveReadable (F : Frame W P) (C : Cfg) (E : Engine σ) (s : St σ ω) (size : Nat) (h : P s) :
    P (receiveReadable C W E s size).2 := by
  have h1 := F.tlsRead C E (prepReadable s) size (F.core h ⟨rfl, rfl, rfl, rfl⟩)
  unfold Tls.receiveReadable
  split
  · rename_i s' heq
    rw [heq] at h1
    split
    · exact F.core h1 ⟨rfl, rfl, rfl, rfl⟩
    · exact h1
  · exact h1

theorem sendT (F : Frame W P) (C : Cfg) (E : Engine σ) (s : St σ ω) (data : Bytes) (t : Int) (h : P s) :
    P (sendT C W E s data t).2 := by
  have h1 := F.tlsWrite C E (setTimeout s t) data (F.core h ⟨rfl, rfl, rfl, rfl⟩)
  unfold Tls.sendT
  split
  · rename_i n s' heq
    rw [heq] at h1
    split
    · exact F.core h1 ⟨rfl, rfl, rfl, rfl⟩
    · exact h1
  · exact h1

theorem sendSomeWritable (F : Frame W P) (C : Cfg) (E : Engine σ) (s : St σ ω) (data : Bytes) (h : P s) :
    P (sendSomeWritable C W E s data).2 := by
  unfold Tls.sendSomeWritable
  exact F.tlsWrite C E _ data (F.core h ⟨rfl, rfl, rfl, rfl⟩)

theorem driverPending (F : Frame W P) (C : Cfg) (E : Engine σ) (s : St σ ω) (h : P s) :
    P (driverPending C W E s).2 := by
  unfold Tls.driverPending
  split
  · exact h
  · have h1 := F.tlsRead C E (prepWritable s) 64 (F.core h ⟨rfl, rfl, rfl, rfl⟩)
    split
    · rename_i s' heq; rw [heq] at h1; exact h1
    · rename_i bs s' _ heq; rw [heq] at h1; exact h1
    · rename_i e s' heq; rw [heq] at h1; exact h1
    · rename_i m s' heq; rw [heq] at h1; exact h1

end Frame

end SockModel.Tls

import SockModel.Model.Tls
import SockModel.Model.NetLemmas
/-!
Helper lemmas for C18 (and the TLS half of C15).

`Frame P`: a predicate on glue states that is kept by the three primitive actions (wait,
BIO read, BIO write) and does not look at the control fields of the glue or at the engine
state.  `Frame` predicates are kept by *every* composite function of the model - proved once
(`Frame.interp`, `Frame.readLoop`, `Frame.writeLoop`, ... `Frame.aTask`), used for several
invariants.
-/
namespace SockModel.Tls
open SockModel.Net

variable {σ ω : Type}

/-- states that agree on the world and on the glue fields a frame predicate may depend on -/
def SameCore (s s' : St σ ω) : Prop :=
  s'.w = s.w ∧ s'.g.wire = s.g.wire ∧ s'.g.bioWrites = s.g.bioWrites ∧
  s'.g.driverSendSuppressed = s.g.driverSendSuppressed

theorem SameCore.refl (s : St σ ω) : SameCore s s := ⟨rfl, rfl, rfl, rfl⟩

structure Frame (W : World ω) (P : St σ ω → Prop) : Prop where
  core : ∀ {s s'}, P s → SameCore s s' → P s'
  wait : ∀ s d, P s → P (waitUnder W s d).2
  bioRead : ∀ s n, P s → P (bioRead W s n).2
  bioWrite : ∀ s bs, P s → P (bioWrite W s bs).2

namespace Frame
variable {W : World ω} {P : St σ ω → Prop}

theorem handleError (F : Frame W P) (s : St σ ω) (err : SslErr) (h : P s) : P (handleError W s err).2 := by
  cases err <;> simp only [Tls.handleError] <;> first | exact h | exact F.wait _ _ h

theorem handleLastError (F : Frame W P) (s : St σ ω) (h : P s) : P (handleLastError W s).2 := by
  have h1 := F.handleError s s.g.lastError h
  unfold Tls.handleLastError
  split
  · rename_i s' heq
    rw [heq] at h1
    exact F.core h1 ⟨rfl, rfl, rfl, rfl⟩
  · exact h1

theorem handleResult (F : Frame W P) (s : St σ ω) (ans : SslAns) (h : P s) : P (handleResult W s ans).2 := by
  unfold Tls.handleResult
  split
  · exact F.core h ⟨rfl, rfl, rfl, rfl⟩
  · exact F.handleLastError _ (F.core h ⟨rfl, rfl, rfl, rfl⟩)

theorem interp (F : Frame W P) (prog : EngProg σ) : ∀ (s : St σ ω), P s → P (interp W s prog).2 := by
  induction prog with
  | ret ans out e' => intro s h; exact F.core h ⟨rfl, rfl, rfl, rfl⟩
  | bioRead n k ih =>
    intro s h
    have h1 := F.bioRead s n h
    unfold Tls.interp
    split
    · rename_i bs s' heq; rw [heq] at h1; exact ih _ s' h1
    · rename_i e s' heq; rw [heq] at h1; exact ih _ _ (F.core h1 ⟨rfl, rfl, rfl, rfl⟩)
    · rename_i m s' heq; rw [heq] at h1; exact h1
  | bioWrite bs k ih =>
    intro s h
    have h1 := F.bioWrite s bs h
    unfold Tls.interp
    split
    · rename_i n s' heq; rw [heq] at h1; exact ih _ s' h1
    · rename_i e s' heq; rw [heq] at h1; exact ih _ _ (F.core h1 ⟨rfl, rfl, rfl, rfl⟩)
    · rename_i m s' heq; rw [heq] at h1; exact h1

theorem noteCall (F : Frame W P) (E : Engine σ) (s : St σ ω) (r : Bool) (a : Bytes) (ans : SslAns) (h : P s) :
    P (noteCall E s r a ans) := F.core h ⟨rfl, rfl, rfl, rfl⟩

theorem readRound (F : Frame W P) (C : Cfg) (E : Engine σ) (size i : Nat) (s : St σ ω) (h : P s) :
    P (readRound C W E size i s).2 := by
  have h1 := F.interp (E.sslRead s.e size) s h
  unfold Tls.readRound
  split
  · rename_i e s' heq; rw [heq] at h1; exact h1
  · rename_i m s' heq; rw [heq] at h1; exact h1
  · rename_i ans out s1 heq
    rw [heq] at h1
    have h2 := F.noteCall E s1 true [] ans h1
    simp only
    split
    · exact h2
    · have h3 := F.handleResult (Tls.noteCall E s1 true [] ans) ans h2
      split
      · rename_i e s2 heq2; rw [heq2] at h3; exact h3
      · rename_i m s2 heq2; rw [heq2] at h3; exact h3
      · rename_i s2 heq2; rw [heq2] at h3; exact h3
      · rename_i s2 heq2
        rw [heq2] at h3
        split <;> exact h3

theorem readLoop (F : Frame W P) (C : Cfg) (E : Engine σ) (size : Nat) :
    ∀ (i : Nat) (s : St σ ω), P s → P (readLoop C W E size i s).2 := by
  intro i
  induction i with
  | zero => intro s h; exact h
  | succ i ih =>
    intro s h
    have h1 := F.readRound C E size i s h
    unfold Tls.readLoop
    split
    · rename_i o s' heq; rw [heq] at h1; exact h1
    · rename_i s' heq; rw [heq] at h1; exact ih s' h1

theorem tlsRead (F : Frame W P) (C : Cfg) (E : Engine σ) (s : St σ ω) (size : Nat) (h : P s) :
    P (tlsRead C W E s size).2 := by
  have h1 := F.handleLastError s h
  unfold Tls.tlsRead
  split
  · rename_i s' heq; rw [heq] at h1; exact F.readLoop C E size _ s' h1
  · rename_i s' heq; rw [heq] at h1; exact h1
  · rename_i e s' heq; rw [heq] at h1; exact h1
  · rename_i m s' heq; rw [heq] at h1; exact h1

theorem writeRound (F : Frame W P) (C : Cfg) (E : Engine σ) (i' : Nat) (rest : Bytes) (s : St σ ω) (h : P s) :
    P (writeRound C W E i' rest s).2 := by
  have h1 := F.interp (E.sslWrite s.e rest) s h
  unfold Tls.writeRound
  split
  · exact h
  · split
    · rename_i e s' heq; rw [heq] at h1; exact h1
    · rename_i m s' heq; rw [heq] at h1; exact h1
    · rename_i ans out s1 heq
      rw [heq] at h1
      have h2 := F.noteCall E s1 false rest ans h1
      simp only
      split
      · split
        · exact F.core h2 ⟨rfl, rfl, rfl, rfl⟩
        · split <;> exact F.core h2 ⟨rfl, rfl, rfl, rfl⟩
      · have h4 := F.handleResult (setPending (Tls.noteCall E s1 false rest ans) rest) ans (F.core h2 ⟨rfl, rfl, rfl, rfl⟩)
        unfold Tls.writeRetry
        split
        · rename_i e s3 heq3; rw [heq3] at h4; exact h4
        · rename_i m s3 heq3; rw [heq3] at h4; exact h4
        · rename_i s3 heq3; rw [heq3] at h4; exact h4
        · rename_i s3 heq3
          rw [heq3] at h4
          split <;> exact h4

end Frame

/-- a round that goes on either consumed bytes or consumed a round -/
theorem writeRound_decreases (C : Cfg) (W : World ω) (E : Engine σ) (i' : Nat) (rest : Bytes) (s : St σ ω)
    (hne : rest ≠ []) (j : Nat) (rest' : Bytes) (s' : St σ ω)
    (h : writeRound C W E i' rest s = (.again j rest', s')) : roundDecreases rest i' rest' j := by
  have hl : 0 < rest.length := List.length_pos_iff.mpr hne
  unfold writeRound at h
  split at h
  · cases h
  · split at h
    · cases h
    · cases h
    · simp only at h
      split at h
      · rename_i k
        split at h
        · rename_i hk
          cases h
          left; simp only [List.length_drop]; omega
        · split at h
          · cases h
          · cases h
            unfold roundDecreases
            simp only [List.length_drop]
            omega
      · unfold writeRetry at h
        split at h
        · cases h
        · cases h
        · cases h
        · split at h
          · cases h
          · cases h
            right; exact ⟨rfl, Nat.le_refl _⟩

/-- loop rule for `writeLoop`: an invariant at the loop head that every round keeps, and a
postcondition that every way of leaving the loop establishes -/
theorem writeLoop_rule (C : Cfg) (W : World ω) (E : Engine σ)
    (Inv : Nat → Bytes → St σ ω → Prop) (Post : Out Bytes → St σ ω → Prop)
    (hexit : ∀ i rest s, Inv i rest s → (i = 0 ∨ rest = []) → Post (.ok rest) s)
    (hstop : ∀ i' rest s o s', Inv (i' + 1) rest s → rest ≠ [] →
      writeRound C W E i' rest s = (.stop o, s') → Post o s')
    (hagain : ∀ i' rest s j rest' s', Inv (i' + 1) rest s → rest ≠ [] →
      writeRound C W E i' rest s = (.again j rest', s') → Inv j rest' s')
    (i : Nat) (rest : Bytes) (s : St σ ω) (h : Inv i rest s) :
    Post (writeLoop C W E i rest s).1 (writeLoop C W E i rest s).2 := by
  fun_induction Tls.writeLoop C W E i rest s with
  | case1 rest s => exact hexit 0 rest s h (Or.inl rfl)
  | case2 s i' => exact hexit _ _ s h (Or.inr rfl)
  | case3 rest s i' hne o s' heq => exact hstop i' rest s o s' h hne heq
  | case4 rest s i' hne j rest' s' heq hdec ih => exact ih (hagain i' rest s j rest' s' h hne heq)
  | case5 rest s i' hne j rest' s' heq hdec =>
    exact absurd (writeRound_decreases C W E i' rest s hne j rest' s' heq) hdec

namespace Frame
variable {W : World ω} {P : St σ ω → Prop}

theorem writeLoop (F : Frame W P) (C : Cfg) (E : Engine σ) (i : Nat) (rest : Bytes) (s : St σ ω) (h : P s) :
    P (writeLoop C W E i rest s).2 :=
  writeLoop_rule C W E (fun _ _ s => P s) (fun _ s => P s)
    (fun _ _ _ h _ => h)
    (fun i' rest s o s' h _ heq => by have := F.writeRound C E i' rest s h; rw [heq] at this; exact this)
    (fun i' rest s j rest' s' h _ heq => by have := F.writeRound C E i' rest s h; rw [heq] at this; exact this)
    i rest s h

theorem tlsWrite (F : Frame W P) (C : Cfg) (E : Engine σ) (s : St σ ω) (data : Bytes) (h : P s) :
    P (tlsWrite C W E s data).2 := by
  have h1 := F.handleLastError s h
  unfold Tls.tlsWrite
  split
  · rename_i s' heq
    rw [heq] at h1
    have h2 := F.writeLoop C E C.stepsMax data s' h1
    split
    · rename_i r s'' heq2; rw [heq2] at h2; exact h2
    · rename_i r s'' heq2; rw [heq2] at h2; exact h2
    · rename_i r s'' heq2; rw [heq2] at h2; exact h2
  · rename_i s' heq; rw [heq] at h1; exact h1
  · rename_i e s' heq; rw [heq] at h1; exact h1
  · rename_i m s' heq; rw [heq] at h1; exact h1

theorem receiveT (F : Frame W P) (C : Cfg) (E : Engine σ) (s : St σ ω) (size : Nat) (t : Int) (h : P s) :
    P (receiveT C W E s size t).2 := by
  have h1 := F.tlsRead C E (setTimeout s t) size (F.core h ⟨rfl, rfl, rfl, rfl⟩)
  unfold Tls.receiveT
  split
  · rename_i s' heq
    rw [heq] at h1
    split
    · exact h1
    · split
      · exact F.core h1 ⟨rfl, rfl, rfl, rfl⟩
      · exact h1
  · exact h1

theorem receiveReadable (F : Frame W P) (C : Cfg) (E : Engine σ) (s : St σ ω) (size : Nat) (h : P s) :
    P (receiveReadable C W E s size).2 := by
  have h1 := F.tlsRead C E (prepReadable s) size (F.core h ⟨rfl, rfl, rfl, rfl⟩)
  unfold Tls.receiveReadable
  split
  · rename_i s' heq
    rw [heq] at h1
    split
    · exact F.core h1 ⟨rfl, rfl, rfl, rfl⟩
    · exact h1
  · exact h1

theorem sendT (F : Frame W P) (C : Cfg) (E : Engine σ) (s : St σ ω) (data : Bytes) (t : Int) (h : P s) :
    P (sendT C W E s data t).2 := by
  have h1 := F.tlsWrite C E (setTimeout s t) data (F.core h ⟨rfl, rfl, rfl, rfl⟩)
  unfold Tls.sendT
  split
  · rename_i n s' heq
    rw [heq] at h1
    split
    · exact F.core h1 ⟨rfl, rfl, rfl, rfl⟩
    · exact h1
  · exact h1

theorem sendSomeWritable (F : Frame W P) (C : Cfg) (E : Engine σ) (s : St σ ω) (data : Bytes) (h : P s) :
    P (sendSomeWritable C W E s data).2 := by
  unfold Tls.sendSomeWritable
  exact F.tlsWrite C E _ data (F.core h ⟨rfl, rfl, rfl, rfl⟩)

theorem driverPending (F : Frame W P) (C : Cfg) (E : Engine σ) (s : St σ ω) (h : P s) :
    P (driverPending C W E s).2 := by
  unfold Tls.driverPending
  split
  · exact h
  · have h1 := F.tlsRead C E (prepWritable s) 64 (F.core h ⟨rfl, rfl, rfl, rfl⟩)
    split
    · rename_i s' heq; rw [heq] at h1; exact h1
    · rename_i bs s' _ heq; rw [heq] at h1; exact h1
    · rename_i e s' heq; rw [heq] at h1; exact h1
    · rename_i m s' heq; rw [heq] at h1; exact h1

end Frame

namespace Frame
variable {W : World ω} {P : St σ ω → Prop}

theorem driverQuery (F : Frame W P) (E : Engine σ) (s : St σ ω) (po : Bool)
    (hsup : ∀ s b, P s → P { s with g := { s.g with driverSendSuppressed := b } }) (h : P s) :
    P (driverQuery E s po).2 := by
  unfold Tls.driverQuery
  split
  · split
    · exact h
    · split
      · exact hsup _ _ h
      · exact h
  · split
    · exact hsup _ _ h
    · exact h

/-- a frame predicate that also ignores `driverSendSuppressed` survives every history of calls -/
theorem run (F : Frame W P) (C : Cfg) (E : Engine σ)
    (hsup : ∀ s b, P s → P { s with g := { s.g with driverSendSuppressed := b } })
    (ops : List Op) : ∀ (s : St σ ω), P s → P (run C W E s ops) := by
  induction ops with
  | nil => intro s h; exact h
  | cons op ops ih =>
    intro s h
    apply ih
    cases op with
    | recvT n t => exact F.receiveT C E s n t h
    | recvReadable n => exact F.receiveReadable C E s n h
    | sendT d t => exact F.sendT C E s d t h
    | sendWritable d => exact F.sendSomeWritable C E s d h
    | query po => exact F.driverQuery E s po hsup h
    | pending => exact F.driverPending C E s h

end Frame

/-! ### what reaches the wire -/

/-- the bytes the BIO write callbacks put on the wire, oldest first -/
def bioWire (g : Glue) : Bytes := (g.bioWrites.reverse.map fun c => c.buf.take c.accepted).flatten

theorem bioWire_cons (g : Glue) (c : BioW) (w : Bytes) :
    bioWire { g with bioWrites := c :: g.bioWrites, wire := w } = bioWire g ++ c.buf.take c.accepted := by
  simp [bioWire]

/-- (a) the ghost `wire` is exactly the concatenation of what the BIO write callbacks got accepted;
(b) it is exactly what the kernel saw. -/
def WireOk (wire : ω → Bytes) (s : St σ ω) : Prop :=
  wire s.w = s.g.wire ∧ s.g.wire = bioWire s.g ∧ ∀ c ∈ s.g.bioWrites, c.accepted ≤ c.buf.length

theorem noteWrite_wireOk {W : World ω} {wire : ω → Bytes} (s : St σ ω) (bs : Bytes) (r : SendRes ω) (rem : Int)
    (h : WireOk wire s) (hw : wire r.w = wire s.w ++ bs.take r.sent) (hle : r.sent ≤ bs.length) :
    WireOk wire (noteWrite s bs r rem).2 := by
  obtain ⟨h1, h2, h3⟩ := h
  unfold noteWrite
  split <;>
  · refine ⟨?_, ?_, ?_⟩
    · simp only; rw [hw, h1]
    · simp only [bioWire, List.reverse_cons, List.map_append, List.map_cons, List.map_nil, List.flatten_append,
        List.flatten_cons, List.flatten_nil, List.append_nil]
      rw [h2]; rfl
    · intro c hc
      simp only [List.mem_cons] at hc
      rcases hc with rfl | hc
      · exact hle
      · exact h3 c hc

theorem sendAll_le {W : World ω} (w : ω) (bs : Bytes) (acc : Nat) : (sendAll W w bs acc).sent ≤ acc + bs.length := by
  fun_induction Net.sendAll W w bs acc with
  | case1 w bs acc r hx => have hh : r.sent ≤ bs.length := sendNow_le W _ bs; simp only; omega
  | case2 w bs acc r hx hrest => have hh : r.sent ≤ bs.length := sendNow_le W _ bs; simp only; omega
  | case3 w bs acc r hx hrest hpos ih =>
    have hh : r.sent ≤ bs.length := sendNow_le W _ bs
    simp only [List.length_drop] at ih
    omega
  | case4 w bs acc r hx hrest hpos => have hh : r.sent ≤ bs.length := sendNow_le W _ bs; simp only; omega

theorem sendTry_le {W : World ω} (w : ω) (bs : Bytes) : (sendTry W w bs).sent ≤ bs.length := by
  unfold Net.sendTry
  split
  · simp
  · exact sendNow_le W _ bs

theorem sendSome_le {W : World ω} (w : ω) (bs : Bytes) (deadline tick : Int) (acc : Nat) :
    (sendSome W w bs deadline tick acc).1.sent ≤ acc + bs.length := by
  fun_induction Net.sendSome W w bs deadline tick acc with
  | case1 w bs tick acc wt hw => simp
  | case2 w bs tick acc wt hw tick' r hx => have hh : r.sent ≤ bs.length := sendNow_le W _ bs; simp only; omega
  | case3 w bs tick acc wt hw tick' r hx hrest => have hh : r.sent ≤ bs.length := sendNow_le W _ bs; simp only; omega
  | case4 w bs tick acc wt hw tick' r hx hrest hlt hpos ih =>
    have hh : r.sent ≤ bs.length := sendNow_le W _ bs
    simp only [List.length_drop] at ih
    omega
  | case5 w bs tick acc wt hw tick' r hx hrest hlt hpos => have hh : r.sent ≤ bs.length := sendNow_le W _ bs; simp only; omega
  | case6 w bs tick acc wt hw tick' r hx hrest hlt => have hh : r.sent ≤ bs.length := sendNow_le W _ bs; simp only; omega

/-- `BioRead` leaves the ghost fields alone and moves the world by one `recvNow` or one `receive` -/
theorem bioRead_core {W : World ω} (s : St σ ω) (n : Nat) :
    (bioRead W s n).2.g.wire = s.g.wire ∧ (bioRead W s n).2.g.bioWrites = s.g.bioWrites ∧
    (bioRead W s n).2.g.driverSendSuppressed = s.g.driverSendSuppressed ∧
    (bioRead W s n).2.g.lastError = s.g.lastError ∧ (bioRead W s n).2.g.pendingSend = s.g.pendingSend ∧
    (bioRead W s n).2.g.engCalls = s.g.engCalls ∧ (bioRead W s n).2.e = s.e ∧
    ((bioRead W s n).2.w = (recvNow W s.w n).world ∨ (bioRead W s n).2.w = (receive W s.w n s.g.remainingTime).world) := by
  unfold Tls.bioRead
  split
  · simp only
    cases recvNow W s.w n <;> simp [RecvRes.world]
  · simp only
    cases receive W s.w n s.g.remainingTime <;> simp [RecvRes.world]

/-- `WireOk` is a frame predicate in every world that logs its wire -/
theorem wireOk_frame {W : World ω} {wire : ω → Bytes} (L : WireLog W wire) : Frame W (WireOk (σ := σ) wire) where
  core := by
    intro s s' h ⟨hw, hwire, hbw, _⟩
    obtain ⟨h1, h2, h3⟩ := h
    refine ⟨by rw [hw, hwire]; exact h1, ?_, by rw [hbw]; exact h3⟩
    rw [hwire, h2]; simp [bioWire, hbw]
  wait := by
    intro s d h
    obtain ⟨h1, h2, h3⟩ := h
    exact ⟨by simp only [waitUnder]; rw [L.wait]; exact h1, h2, h3⟩
  bioRead := by
    intro s n h
    obtain ⟨h1, h2, h3⟩ := h
    obtain ⟨c1, c2, _, _, _, _, _, cw⟩ := bioRead_core (W := W) s n
    refine ⟨?_, ?_, by rw [c2]; exact h3⟩
    · rw [c1]
      rcases cw with cw | cw
      · rw [cw, L.recvNow]; exact h1
      · rw [cw, L.receive]; exact h1
    · rw [c1, h2]; simp [bioWire, c2]
  bioWrite := by
    intro s bs h
    unfold Tls.bioWrite
    split
    · apply noteWrite_wireOk (W := W)
      · exact ⟨h.1, h.2.1, h.2.2⟩
      · exact L.sendNow s.w bs
      · exact sendNow_le W s.w bs
    · split
      · apply noteWrite_wireOk (W := W) _ _ _ _ h
        · have := (L.sendAll s.w bs 0).2; simpa using this
        · have := sendAll_le (W := W) s.w bs 0; omega
      · split
        · apply noteWrite_wireOk (W := W) _ _ _ _ h
          · exact L.sendTry s.w bs
          · exact sendTry_le s.w bs
        · apply noteWrite_wireOk (W := W) _ _ _ _ h
          · have := (L.sendSome s.w bs (W.now s.w + s.g.remainingTime) (W.now s.w) 0).2; simpa using this
          · have := sendSome_le (W := W) s.w bs (W.now s.w + s.g.remainingTime) (W.now s.w) 0; omega

/-! ### control fields: what the primitive actions leave alone -/

/-- `s'` differs from `s` at most in world, timers, readiness flags and ghost wire fields -/
def CtlEq (s s' : St σ ω) : Prop :=
  s'.g.lastError = s.g.lastError ∧ s'.g.pendingSend = s.g.pendingSend ∧ s'.g.engCalls = s.g.engCalls ∧
  s'.g.driverSendSuppressed = s.g.driverSendSuppressed

theorem CtlEq.refl (s : St σ ω) : CtlEq s s := ⟨rfl, rfl, rfl, rfl⟩
theorem CtlEq.trans {a b c : St σ ω} (h1 : CtlEq a b) (h2 : CtlEq b c) : CtlEq a c :=
  ⟨h2.1.trans h1.1, h2.2.1.trans h1.2.1, h2.2.2.1.trans h1.2.2.1, h2.2.2.2.trans h1.2.2.2⟩

theorem waitUnder_ctl {W : World ω} (s : St σ ω) (d : Dir) : CtlEq s (waitUnder W s d).2 ∧ (waitUnder W s d).2.e = s.e :=
  ⟨⟨rfl, rfl, rfl, rfl⟩, rfl⟩

theorem bioRead_ctl {W : World ω} (s : St σ ω) (n : Nat) : CtlEq s (bioRead W s n).2 ∧ (bioRead W s n).2.e = s.e := by
  obtain ⟨_, _, c3, c4, c5, c6, c7, _⟩ := bioRead_core (W := W) s n
  exact ⟨⟨c4, c5, c6, c3⟩, c7⟩

theorem noteWrite_ctl (s : St σ ω) (bs : Bytes) (r : SendRes ω) (rem : Int) :
    CtlEq s (noteWrite s bs r rem).2 ∧ (noteWrite s bs r rem).2.e = s.e := by
  unfold noteWrite; split <;> exact ⟨⟨rfl, rfl, rfl, rfl⟩, rfl⟩

theorem bioWrite_ctl {W : World ω} (s : St σ ω) (bs : Bytes) : CtlEq s (bioWrite W s bs).2 ∧ (bioWrite W s bs).2.e = s.e := by
  unfold Tls.bioWrite
  split
  · exact noteWrite_ctl _ _ _ _
  · split
    · exact noteWrite_ctl _ _ _ _
    · split <;> exact noteWrite_ctl _ _ _ _

theorem bioRead_no_abort {W : World ω} (s : St σ ω) (n : Nat) (m : String) (s' : St σ ω) :
    bioRead W s n ≠ (.abort m, s') := by
  unfold Tls.bioRead
  split
  · simp only; cases recvNow W s.w n <;> simp
  · simp only; cases receive W s.w n s.g.remainingTime <;> simp

theorem noteWrite_no_abort (s : St σ ω) (bs : Bytes) (r : SendRes ω) (rem : Int) (m : String) (s' : St σ ω) :
    noteWrite s bs r rem ≠ (.abort m, s') := by
  unfold noteWrite; split <;> simp

theorem bioWrite_no_abort {W : World ω} (s : St σ ω) (bs : Bytes) (m : String) (s' : St σ ω) :
    bioWrite W s bs ≠ (.abort m, s') := by
  unfold Tls.bioWrite
  split
  · exact noteWrite_no_abort _ _ _ _ _ _
  · split
    · exact noteWrite_no_abort _ _ _ _ _ _
    · split <;> exact noteWrite_no_abort _ _ _ _ _ _

/-- an engine call leaves the control fields alone, never aborts, never throws (d6dcd55), and ends in one
of its leaves -/
theorem interp_spec {W : World ω} (Q : SslAns → Bytes → σ → Prop) (prog : EngProg σ) (hq : AllLeaves Q prog) :
    ∀ (s : St σ ω), CtlEq s (interp W s prog).2 ∧
      (∀ m, (interp W s prog).1 ≠ .abort m) ∧
      (∀ a o, (interp W s prog).1 = .ok (a, o) → Q a o (interp W s prog).2.e) ∧
      (∀ e, (interp W s prog).1 ≠ .exn e) := by
  induction prog with
  | ret ans out e' =>
    intro s
    cases hq with
    | ret hp =>
      refine ⟨⟨rfl, rfl, rfl, rfl⟩, by intro m; simp [Tls.interp], ?_, by intro e; simp [Tls.interp]⟩
      intro a o h
      simp only [Tls.interp, Out.ok.injEq, Prod.mk.injEq] at h
      obtain ⟨rfl, rfl⟩ := h
      exact hp
  | bioRead n k ih =>
    intro s
    cases hq with
    | bioRead hk =>
      have hc := bioRead_ctl (W := W) s n
      have hna := bioRead_no_abort (W := W) s n
      unfold Tls.interp
      split
      · rename_i bs s' heq
        rw [heq] at hc
        obtain ⟨i1, i2, i3, i4⟩ := ih _ (hk _) s'
        exact ⟨hc.1.trans i1, i2, i3, i4⟩
      · rename_i e s' heq
        rw [heq] at hc
        obtain ⟨i1, i2, i3, i4⟩ := ih _ (hk none) (stash s' e)
        exact ⟨(hc.1.trans ⟨rfl, rfl, rfl, rfl⟩).trans i1, i2, i3, i4⟩
      · rename_i m s' heq
        exact absurd heq (hna m s')
  | bioWrite bs k ih =>
    intro s
    cases hq with
    | bioWrite hk =>
      have hc := bioWrite_ctl (W := W) s bs
      have hna := bioWrite_no_abort (W := W) s bs
      unfold Tls.interp
      split
      · rename_i n s' heq
        rw [heq] at hc
        obtain ⟨i1, i2, i3, i4⟩ := ih _ (hk _) s'
        exact ⟨hc.1.trans i1, i2, i3, i4⟩
      · rename_i e s' heq
        rw [heq] at hc
        obtain ⟨i1, i2, i3, i4⟩ := ih _ (hk none) (stash s' e)
        exact ⟨(hc.1.trans ⟨rfl, rfl, rfl, rfl⟩).trans i1, i2, i3, i4⟩
      · rename_i m s' heq
        exact absurd heq (hna m s')

theorem allLeaves_true (prog : EngProg σ) : AllLeaves (fun _ _ _ => True) prog := by
  induction prog with
  | ret a o s => exact .ret trivial
  | bioRead n k ih => exact .bioRead ih
  | bioWrite bs k ih => exact .bioWrite ih

theorem interp_ctl {W : World ω} (s : St σ ω) (prog : EngProg σ) : CtlEq s (interp W s prog).2 :=
  (interp_spec (W := W) _ prog (allLeaves_true prog) s).1

theorem interp_no_abort {W : World ω} (s : St σ ω) (prog : EngProg σ) (m : String) : (interp W s prog).1 ≠ .abort m :=
  (interp_spec (W := W) _ prog (allLeaves_true prog) s).2.1 m

/-! ### the engine-call log of `Write` -/

theorem handleError_keeps {W : World ω} (s : St σ ω) (err : SslErr) :
    CtlEq s (handleError W s err).2 ∧ (handleError W s err).2.e = s.e ∧ ∀ m, (handleError W s err).1 ≠ .abort m := by
  cases err <;> simp [Tls.handleError, CtlEq, waitUnder]

theorem handleResult_keeps {W : World ω} (s : St σ ω) (ans : SslAns) :
    (handleResult W s ans).2.g.pendingSend = s.g.pendingSend ∧ (handleResult W s ans).2.g.engCalls = s.g.engCalls ∧
    (handleResult W s ans).2.e = s.e ∧ ∀ m, (handleResult W s ans).1 ≠ .abort m := by
  unfold Tls.handleResult
  split
  · exact ⟨rfl, rfl, rfl, by intro m; simp⟩
  · unfold Tls.handleLastError
    have h := handleError_keeps (W := W) (setLastError s ans.toErr) (setLastError s ans.toErr).g.lastError
    rcases hh : Tls.handleError W (setLastError s ans.toErr) (setLastError s ans.toErr).g.lastError with ⟨o, s'⟩
    rw [hh] at h
    obtain ⟨⟨_, h2, h3, _⟩, h5, h6⟩ := h
    cases o with
    | ok b => cases b <;> simp_all [setLastError]
    | exn e => simp_all [setLastError]
    | abort m => exact absurd rfl (h6 m)

/-- a fatal answer of the engine always ends in an exception: the stashed socket failure if there is
one, else the TLS error -/
theorem handleResult_fatal {W : World ω} (s : St σ ω) (ans : SslAns)
    (hf : ans = .zeroReturn ∨ ans = .syscallErr ∨ ans = .sslErr) : ∃ e s', handleResult W s ans = (.exn e, s') := by
  unfold Tls.handleResult
  split
  · exact ⟨_, _, rfl⟩
  · rcases hf with h | h | h <;> subst h <;> exact ⟨_, _, rfl⟩

/-- what the next `ssl_write` is given after an answer -/
def afterAns (ans : SslAns) (rest : Bytes) : Bytes :=
  match ans with
  | .done k => rest.drop k
  | _ => rest

/-- the `ssl_write` calls of one `Write(data)`, oldest first, and the unsent suffix they leave:
every call is handed exactly the current unsent suffix - after `want*` the same bytes again -/
inductive WriteChain (data : Bytes) : List EngCall → Bytes → Prop where
  | nil : WriteChain data [] data
  | snoc {cs : List EngCall} {rest : Bytes} (c : EngCall) : WriteChain data cs rest → c.isRead = false → c.arg = rest →
      WriteChain data (cs ++ [c]) (afterAns c.ans rest)

/-- plaintext bytes the engine reported as taken -/
def consumed : List EngCall → Nat
  | [] => 0
  | c :: cs => (match c.ans with | .done k => k | _ => 0) + consumed cs

theorem consumed_append (a b : List EngCall) : consumed (a ++ b) = consumed a + consumed b := by
  induction a with
  | nil => simp [consumed]
  | cons c cs ih => simp [consumed, ih]; omega

theorem WriteChain.rest_eq {data : Bytes} {cs : List EngCall} {rest : Bytes} (h : WriteChain data cs rest) :
    rest = data.drop (consumed cs) := by
  induction h with
  | nil => simp [consumed]
  | snoc c hc hr ha ih =>
    rw [consumed_append]
    cases hans : c.ans <;> simp [afterAns, consumed, hans, ih, List.drop_drop]

end SockModel.Tls

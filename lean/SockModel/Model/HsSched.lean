import SockModel.Model.HsLemmas
/-!
Arbitrary schedules of zero-timeout calls on the two-endpoint composition of `Model/HsEngine.lean`
(`Props/C18Hs.lean`, "handshake completion beyond the polling schedule").

A schedule is a list (or an infinite sequence) of `Act`s: which side calls, and whether it calls `Send` (with that
side's payload) or `Receive(size)`.  Nothing is assumed about the order; what a schedule needs in order to complete
the handshake is counted by `progCalls`: the number of calls made by a side that could move its handshake on at
that moment (`CanProg`).
-/
namespace SockModel.Hs
open SockModel.Net SockModel.Tls

/-- `Send(payload of the calling side, 0)` or `Receive(size, 0)` -/
inductive Kind where
  | send
  | recv (size : Nat)
  deriving DecidableEq, Repr

/-- one call of a schedule -/
structure Act where
  client : Bool
  kind : Kind
  deriving DecidableEq, Repr

/-- the client / the server calls `Send` / `Receive(n)` -/
abbrev Act.cSend : Act := ⟨true, .send⟩
abbrev Act.cRecv (n : Nat) : Act := ⟨true, .recv n⟩
abbrev Act.sSend : Act := ⟨false, .send⟩
abbrev Act.sRecv (n : Nat) : Act := ⟨false, .recv n⟩

/-- receive sizes are at least 1 (a `Receive` into an empty buffer is outside the property) -/
def Act.ok (a : Act) : Prop :=
  match a.kind with
  | .send => True
  | .recv n => 1 ≤ n

instance (a : Act) : Decidable a.ok := by
  unfold Act.ok
  cases a.kind <;> exact inferInstance

def Act.call (dc ds : Bytes) (a : Act) : Call :=
  match a.kind with
  | .send => .send (if a.client then dc else ds)
  | .recv n => .recv n

/-- perform one call of the schedule -/
def Sys.act (C : Cfg) (P : HsP) (dc ds : Bytes) (y : Sys) (a : Act) : Sys := y.step C P a.client (a.call dc ds)

/-- perform a finite schedule -/
def Sys.run (C : Cfg) (P : HsP) (dc ds : Bytes) (l : List Act) (y : Sys) : Sys := l.foldl (Sys.act C P dc ds) y

/-- the first `k` calls of an infinite schedule -/
def Sys.runTo (C : Cfg) (P : HsP) (dc ds : Bytes) (σ : Nat → Act) (k : Nat) (y : Sys) : Sys :=
  Sys.run C P dc ds ((List.range k).map σ) y

/-- the engine of one side -/
def Sys.eng (y : Sys) (client : Bool) : Hs := if client then y.ec else y.es

/-- side `client` can move its handshake on: a flight to write, or bytes to read are in flight towards it -/
def Sys.canProg (y : Sys) (client : Bool) : Prop := CanProg client (y.eng client) y.ch

instance (r : Bool) (h : Hs) (w : Chan) : Decidable (CanProg r h w) := by
  unfold CanProg; exact inferInstance

instance (y : Sys) (client : Bool) : Decidable (y.canProg client) := by
  unfold Sys.canProg; exact inferInstance

instance (y : Sys) : Decidable y.bothFinished := by
  unfold Sys.bothFinished; exact inferInstance

/-- the number of calls of the schedule made by a side that could progress when it called -/
def progCalls (C : Cfg) (P : HsP) (dc ds : Bytes) : List Act → Sys → Nat
  | [], _ => 0
  | a :: l, y => (if y.canProg a.client then 1 else 0) + progCalls C P dc ds l (y.act C P dc ds a)

/-- both sides call at least once -/
def BothSides (v : List Act) : Prop := (∃ a ∈ v, a.client = true) ∧ (∃ a ∈ v, a.client = false)

instance (v : List Act) : Decidable (BothSides v) := by
  unfold BothSides; exact inferInstance

/-- **fairness, syntactic form**: every window of `w` consecutive calls of the schedule contains a call of the
client and a call of the server (of whatever kind, in whatever order) -/
def SideFair (w : Nat) (l : List Act) : Prop :=
  ∀ i, i < l.length + 1 - w → BothSides ((l.drop i).take w)

instance (w : Nat) (l : List Act) : Decidable (SideFair w l) := by
  unfold SideFair; exact inferInstance

/-- **fairness, semantic form** (weaker): whenever the handshake is unfinished after `i` calls, one of the next `w`
calls is made by a side that can progress at that moment.  (Some side always can: `can_progress`.) -/
def ProgFair (C : Cfg) (P : HsP) (dc ds : Bytes) (w : Nat) (l : List Act) (y : Sys) : Prop :=
  ∀ i, i + w ≤ l.length → ¬ (Sys.run C P dc ds (l.take i) y).bothFinished →
    1 ≤ progCalls C P dc ds ((l.drop i).take w) (Sys.run C P dc ds (l.take i) y)

/-- the same for an infinite schedule -/
def SideFairInf (w : Nat) (σ : Nat → Act) : Prop :=
  ∀ i, (∃ j, j < w ∧ (σ (i + j)).client = true) ∧ (∃ j, j < w ∧ (σ (i + j)).client = false)

/-- the bound: twice the work of one side = the measure `mu` of the initial state -/
def HsP.total (P : HsP) : Nat := 2 * (P.k1 + P.k2 + P.k3 + 3)

/-! ### one call -/

theorem run_nil (C : Cfg) (P : HsP) (dc ds : Bytes) (y : Sys) : Sys.run C P dc ds [] y = y := rfl

theorem run_cons (C : Cfg) (P : HsP) (dc ds : Bytes) (a : Act) (l : List Act) (y : Sys) :
    Sys.run C P dc ds (a :: l) y = Sys.run C P dc ds l (y.act C P dc ds a) := rfl

theorem run_append (C : Cfg) (P : HsP) (dc ds : Bytes) (l1 l2 : List Act) (y : Sys) :
    Sys.run C P dc ds (l1 ++ l2) y = Sys.run C P dc ds l2 (Sys.run C P dc ds l1 y) := by
  simp [Sys.run, List.foldl_append]

theorem mu_init (P : HsP) (segs : List Nat) : mu P (Sys.init P segs) = P.total := by
  simp only [mu, Sys.init, work_init, HsP.total]; omega

theorem work_zero_fin (P : HsP) (h : Hs) (hw : work P h = 0) : 3 ≤ h.stage := by
  unfold work at hw
  by_cases a0 : h.stage = 0
  · simp [a0] at hw
  · by_cases a1 : h.stage = 1
    · simp [a1] at hw
    · by_cases a2 : h.stage = 2
      · simp [a2] at hw
      · omega

theorem mu_zero_fin (P : HsP) (y : Sys) (h : mu P y = 0) : y.bothFinished := by
  unfold mu at h
  exact ⟨work_zero_fin P _ (by omega), work_zero_fin P _ (by omega)⟩

/-- what every call of a schedule does, whoever makes it and whatever it is -/
structure ActRes (P : HsP) (dc ds : Bytes) (y y' : Sys) (a : Act) : Prop where
  inv : SysInv P dc ds y'
  muLe : mu P y' ≤ mu P y
  muLt : y.canProg a.client → mu P y' < mu P y
  stC : y.ec.stage ≤ y'.ec.stage
  stS : y.es.stage ≤ y'.es.stage
  /-- the other side's ability to progress is not taken away -/
  keep : y.canProg (!a.client) → y'.canProg (!a.client)

theorem act_spec (C : Cfg) (hC : 1 < C.stepsMax) (P : HsP) (dc ds : Bytes) (hdc : dc ≠ []) (hds : ds ≠ [])
    (y : Sys) (hinv : SysInv P dc ds y) (a : Act) (ha : a.ok) : ActRes P dc ds y (y.act C P dc ds a) a := by
  rcases a with ⟨cl, k⟩
  cases cl with
  | true =>
    have hc : ∃ n, 1 ≤ n ∧ ((Act.mk true k).call dc ds = .send dc ∨ (Act.mk true k).call dc ds = .recv n) := by
      cases k with
      | send => exact ⟨1, Nat.le_refl _, Or.inl rfl⟩
      | recv n => exact ⟨n, ha, Or.inr rfl⟩
    obtain ⟨n, hn, hc⟩ := hc
    obtain ⟨i1, e1, w1, p1, c1, s1⟩ := stepC_spec C hC P dc ds hdc n hn y hinv _ hc
    have q1 := congrArg (work P) e1
    have t1 := congrArg Hs.stage e1
    refine ⟨i1, ?_, ?_, s1, ?_, ?_⟩
    · show work P _ + work P _ ≤ work P _ + work P _
      simp only [Sys.act] at *; omega
    · intro hp
      have := p1 hp
      show work P _ + work P _ < work P _ + work P _
      simp only [Sys.act] at *; omega
    · simp only [Sys.act] at *; omega
    · intro hp
      obtain ⟨h1, h2⟩ := hp
      simp only [Sys.canProg, Sys.eng, Bool.not_true, Bool.false_eq_true, if_false, CanProg, Sys.act] at h1 h2 ⊢
      rw [e1]
      refine ⟨h1, ?_⟩
      rcases h2 with h2 | h2
      · exact Or.inl h2
      · right; simp only [Chan.inb, Bool.false_eq_true, if_false] at h2 ⊢; omega
  | false =>
    have hc : ∃ n, 1 ≤ n ∧ ((Act.mk false k).call dc ds = .send ds ∨ (Act.mk false k).call dc ds = .recv n) := by
      cases k with
      | send => exact ⟨1, Nat.le_refl _, Or.inl rfl⟩
      | recv n => exact ⟨n, ha, Or.inr rfl⟩
    obtain ⟨n, hn, hc⟩ := hc
    obtain ⟨i1, e1, w1, p1, c1, s1⟩ := stepS_spec C hC P dc ds hds n hn y hinv _ hc
    have q1 := congrArg (work P) e1
    have t1 := congrArg Hs.stage e1
    refine ⟨i1, ?_, ?_, ?_, s1, ?_⟩
    · show work P _ + work P _ ≤ work P _ + work P _
      simp only [Sys.act] at *; omega
    · intro hp
      have := p1 hp
      show work P _ + work P _ < work P _ + work P _
      simp only [Sys.act] at *; omega
    · simp only [Sys.act] at *; omega
    · intro hp
      obtain ⟨h1, h2⟩ := hp
      simp only [Sys.canProg, Sys.eng, Bool.not_false, if_true, CanProg, Sys.act] at h1 h2 ⊢
      rw [e1]
      refine ⟨h1, ?_⟩
      rcases h2 with h2 | h2
      · exact Or.inl h2
      · right; simp only [Chan.inb, if_true] at h2 ⊢; omega

/-! ### a finite schedule -/

theorem progCalls_append (C : Cfg) (P : HsP) (dc ds : Bytes) (l1 l2 : List Act) (y : Sys) :
    progCalls C P dc ds (l1 ++ l2) y = progCalls C P dc ds l1 y + progCalls C P dc ds l2 (Sys.run C P dc ds l1 y) := by
  induction l1 generalizing y with
  | nil => simp [progCalls, run_nil]
  | cons a l ih =>
    simp only [List.cons_append, progCalls, run_cons, ih]
    omega

/-- every schedule: the invariant is kept (so no call throws or asserts), stages only advance, and the measure
falls by at least the number of calls made by a side that could progress -/
theorem run_spec (C : Cfg) (hC : 1 < C.stepsMax) (P : HsP) (dc ds : Bytes) (hdc : dc ≠ []) (hds : ds ≠ []) :
    ∀ (l : List Act) (y : Sys), SysInv P dc ds y → (∀ a ∈ l, a.ok) →
      SysInv P dc ds (Sys.run C P dc ds l y) ∧
      mu P (Sys.run C P dc ds l y) + progCalls C P dc ds l y ≤ mu P y ∧
      y.ec.stage ≤ (Sys.run C P dc ds l y).ec.stage ∧ y.es.stage ≤ (Sys.run C P dc ds l y).es.stage := by
  intro l
  induction l with
  | nil => intro y h _; exact ⟨h, by simp [progCalls, run_nil], Nat.le_refl _, Nat.le_refl _⟩
  | cons a l ih =>
    intro y h hok
    have r := act_spec C hC P dc ds hdc hds y h a (hok a (List.mem_cons_self ..))
    obtain ⟨j1, j2, j3, j4⟩ := ih _ r.inv (fun b hb => hok b (List.mem_cons_of_mem _ hb))
    rw [run_cons]
    refine ⟨j1, ?_, Nat.le_trans r.stC j3, Nat.le_trans r.stS j4⟩
    simp only [progCalls]
    by_cases hp : y.canProg a.client
    · have := r.muLt hp; rw [if_pos hp]; omega
    · have := r.muLe; rw [if_neg hp]; omega

theorem finished_kept (C : Cfg) (hC : 1 < C.stepsMax) (P : HsP) (dc ds : Bytes) (hdc : dc ≠ []) (hds : ds ≠ [])
    (l : List Act) (y : Sys) (hinv : SysInv P dc ds y) (hok : ∀ a ∈ l, a.ok) (hb : y.bothFinished) :
    (Sys.run C P dc ds l y).bothFinished := by
  obtain ⟨_, _, h3, h4⟩ := run_spec C hC P dc ds hdc hds l y hinv hok
  exact ⟨Nat.le_trans hb.1 h3, Nat.le_trans hb.2 h4⟩

/-- a side that can progress and calls somewhere in `v` makes a progressing call in `v` (calls of the other side
before it do not take its ability away) -/
theorem progCalls_pos_of_side (C : Cfg) (hC : 1 < C.stepsMax) (P : HsP) (dc ds : Bytes) (hdc : dc ≠ []) (hds : ds ≠ [])
    (r : Bool) : ∀ (v : List Act) (y : Sys), SysInv P dc ds y → (∀ a ∈ v, a.ok) → y.canProg r →
      (∃ a ∈ v, a.client = r) → 1 ≤ progCalls C P dc ds v y := by
  intro v
  induction v with
  | nil => intro y _ _ _ h; obtain ⟨a, ha, _⟩ := h; cases ha
  | cons b v ih =>
    intro y hinv hok hp hex
    simp only [progCalls]
    by_cases hb : b.client = r
    · rw [hb, if_pos hp]; omega
    · have res := act_spec C hC P dc ds hdc hds y hinv b (hok b (List.mem_cons_self ..))
      have hr : r = !b.client := by cases r <;> cases hbc : b.client <;> simp_all
      have hp' : (y.act C P dc ds b).canProg r := by rw [hr]; exact res.keep (hr ▸ hp)
      have hex' : ∃ a ∈ v, a.client = r := by
        obtain ⟨a, ha, hac⟩ := hex
        rcases List.mem_cons.mp ha with rfl | ha
        · exact absurd hac hb
        · exact ⟨a, ha, hac⟩
      have := ih _ res.inv (fun a ha => hok a (List.mem_cons_of_mem _ ha)) hp' hex'
      omega

/-- a block of calls in which both sides call contains a progressing call, while the handshake is unfinished -/
theorem block_progress (C : Cfg) (hC : 1 < C.stepsMax) (P : HsP) (dc ds : Bytes) (hdc : dc ≠ []) (hds : ds ≠ [])
    (v : List Act) (y : Sys) (hinv : SysInv P dc ds y) (hok : ∀ a ∈ v, a.ok) (hv : BothSides v)
    (hnf : ¬ y.bothFinished) : 1 ≤ progCalls C P dc ds v y := by
  rcases can_progress P dc ds y hinv hnf with hc | hs
  · exact progCalls_pos_of_side C hC P dc ds hdc hds true v y hinv hok hc hv.1
  · exact progCalls_pos_of_side C hC P dc ds hdc hds false v y hinv hok hs hv.2

theorem sideFair_progFair (C : Cfg) (hC : 1 < C.stepsMax) (P : HsP) (dc ds : Bytes) (hdc : dc ≠ []) (hds : ds ≠ [])
    (w : Nat) (l : List Act) (y : Sys) (hinv : SysInv P dc ds y) (hok : ∀ a ∈ l, a.ok) (hf : SideFair w l) :
    ProgFair C P dc ds w l y := by
  intro i hi hnf
  have hinv' := (run_spec C hC P dc ds hdc hds (l.take i) y hinv (fun a ha => hok a (List.mem_of_mem_take ha))).1
  refine block_progress C hC P dc ds hdc hds _ _ hinv' ?_ (hf i (by omega)) hnf
  intro a ha
  exact hok a (List.mem_of_mem_drop (List.mem_of_mem_take ha))

/-- under the semantic fairness: after `m` windows the measure has fallen by `m`, or the handshake is finished -/
theorem progFair_windows (C : Cfg) (hC : 1 < C.stepsMax) (P : HsP) (dc ds : Bytes) (hdc : dc ≠ []) (hds : ds ≠ [])
    (w : Nat) (l : List Act) (y : Sys) (hinv : SysInv P dc ds y) (hok : ∀ a ∈ l, a.ok)
    (hf : ProgFair C P dc ds w l y) :
    ∀ m, m * w ≤ l.length → (Sys.run C P dc ds (l.take (m * w)) y).bothFinished ∨
      mu P (Sys.run C P dc ds (l.take (m * w)) y) + m ≤ mu P y := by
  intro m
  induction m with
  | zero => intro _; right; simp [run_nil]
  | succ m ih =>
    intro hm
    have hmw : (m + 1) * w = m * w + w := Nat.succ_mul m w
    have hm' : m * w ≤ l.length := by omega
    have hsplit : l.take ((m + 1) * w) = l.take (m * w) ++ (l.drop (m * w)).take w := by
      rw [hmw, List.take_add]
    have hok1 : ∀ a ∈ l.take (m * w), a.ok := fun a ha => hok a (List.mem_of_mem_take ha)
    have hok2 : ∀ a ∈ (l.drop (m * w)).take w, a.ok :=
      fun a ha => hok a (List.mem_of_mem_drop (List.mem_of_mem_take ha))
    have hinv1 := (run_spec C hC P dc ds hdc hds _ y hinv hok1).1
    rw [hsplit, run_append]
    obtain ⟨_, k2, _, _⟩ := run_spec C hC P dc ds hdc hds _ _ hinv1 hok2
    rcases ih hm' with hb | hmu
    · exact Or.inl (finished_kept C hC P dc ds hdc hds _ _ hinv1 hok2 hb)
    · by_cases hb : (Sys.run C P dc ds (l.take (m * w)) y).bothFinished
      · exact Or.inl (finished_kept C hC P dc ds hdc hds _ _ hinv1 hok2 hb)
      · right
        have := hf (m * w) (by omega) hb
        omega

end SockModel.Hs

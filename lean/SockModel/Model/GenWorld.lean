import SockModel.Model.SendLoop
import SockModel.Basic.GenEffects
/-
The model's operating system (`SendLoop.Os`: answer queues, virtual clock, call log) as a `Gen.World`, so that the
functions generated from the C++ source (Generated/Loops.lean) can be run against exactly the environment the
hand-written model `SendLoop.*` is defined on.  Hand-written, independent of /repo.

What the C++ code sees of an answer (this is where the model's answer constructors get their C meaning):
* `poll`: `ready` = the positive result 1 (one descriptor), `timedOut` = 0, `eintr` = -1 with
  `errno == EINTR`, `fail e` = -1 with `errno == e`;
* `send(off, len)`: offers the bytes `(data.drop off).take len` of the caller's buffer; `accept a` = `min a len`,
  `fail e` = -1 with `errno == e`;
* `recv(size)`: `got bs` = `(bs.take size).length`, `eof` = 0, `fail e` = -1 with `errno == e`;
* an exhausted script stops the computation (`halted`), as `Exn.exhausted` does in the model.
-/
namespace SockModel.GenWorld
open SockModel SockModel.SendLoop

/-- the model's OS plus the two things the C++ code reads after a failed call -/
structure WSt where
  os : Os
  intr : Bool      -- `errno == EINTR`
  errno : Nat      -- the value `SocketError()` wraps

def osWorld (data : Bytes) : Gen.World WSt where
  doPoll t w :=
    match pollOnce t w.os with
    | none => (.halted, w)
    | some (.ready _, os') => (.ok 1, { w with os := os' })
    | some (.timedOut, os') => (.ok 0, { w with os := os' })
    | some (.eintr _, os') => (.ok (-1), { os := os', intr := true, errno := 4 })
    | some (.fail e, os') => (.ok (-1), { os := os', intr := false, errno := e })
  interrupted w := (.ok w.intr, w)
  clockNow w := (.ok w.os.now, w)
  socketError w := (.ok (w.errno : Int), w)
  send off len w :=
    let d := (data.drop off.toNat).take len.toNat
    match w.os.sends with
    | [] => (.halted, w)
    | .accept a :: rest =>
      (.ok ((min a d.length : Nat) : Int),
       { w with os := { w.os with sends := rest, calls := .send d.length (d.take (min a d.length)) :: w.os.calls } })
    | .fail e :: rest =>
      (.ok (-1), { os := { w.os with sends := rest, calls := .send d.length [] :: w.os.calls }, intr := false, errno := e })
  recv size w :=
    match w.os.recvs with
    | [] => (.halted, w)
    | a :: rest =>
      let os' := { w.os with recvs := rest, calls := .recv size.toNat :: w.os.calls }
      match a with
      | .got bs => (.ok (((bs.take size.toNat).length : Nat) : Int), { w with os := os' })
      | .eof => (.ok 0, { w with os := os' })
      | .fail e => (.ok (-1), { os := os', intr := false, errno := e })

/-! the fields, one equation each (the proofs rewrite with these and never unfold `osWorld` as a whole) -/
theorem doPoll_eq (data : Bytes) (t : Int) (w : WSt) :
    (osWorld data).doPoll t w =
      match pollOnce t w.os with
      | none => (.halted, w)
      | some (.ready _, os') => (.ok 1, { w with os := os' })
      | some (.timedOut, os') => (.ok 0, { w with os := os' })
      | some (.eintr _, os') => (.ok (-1), { os := os', intr := true, errno := 4 })
      | some (.fail e, os') => (.ok (-1), { os := os', intr := false, errno := e }) := rfl
@[simp] theorem interrupted_eq (data : Bytes) (w : WSt) : (osWorld data).interrupted w = (.ok w.intr, w) := rfl
@[simp] theorem clockNow_eq (data : Bytes) (w : WSt) : (osWorld data).clockNow w = (.ok w.os.now, w) := rfl
@[simp] theorem socketError_eq (data : Bytes) (w : WSt) : (osWorld data).socketError w = (.ok (w.errno : Int), w) := rfl
theorem send_eq (data : Bytes) (off len : Int) (w : WSt) :
    (osWorld data).send off len w =
      match w.os.sends with
      | [] => (.halted, w)
      | .accept a :: rest =>
        (.ok ((min a ((data.drop off.toNat).take len.toNat).length : Nat) : Int),
         { w with os := { w.os with sends := rest,
                                    calls := .send ((data.drop off.toNat).take len.toNat).length
                                      (((data.drop off.toNat).take len.toNat).take
                                        (min a ((data.drop off.toNat).take len.toNat).length)) :: w.os.calls } })
      | .fail e :: rest =>
        (.ok (-1), { os := { w.os with sends := rest,
                                       calls := .send ((data.drop off.toNat).take len.toNat).length [] :: w.os.calls },
                     intr := false, errno := e }) := rfl
theorem recv_eq (data : Bytes) (size : Int) (w : WSt) :
    (osWorld data).recv size w =
      match w.os.recvs with
      | [] => (.halted, w)
      | a :: rest =>
        match a with
        | .got bs => (.ok (((bs.take size.toNat).length : Nat) : Int),
                      { w with os := { w.os with recvs := rest, calls := .recv size.toNat :: w.os.calls } })
        | .eof => (.ok 0, { w with os := { w.os with recvs := rest, calls := .recv size.toNat :: w.os.calls } })
        | .fail e => (.ok (-1), { os := { w.os with recvs := rest, calls := .recv size.toNat :: w.os.calls },
                                  intr := false, errno := e }) := rfl

/-- the model's name for a C++ exception -/
def exnOf (e : Gen.Thrown) : Exn :=
  match e.cls with
  | .system_error => .system e.code.toNat
  | .runtime_error => .closed
  | .logic_error => .logic

/-- the model's name for an outcome of generated code -/
def resOf {α β : Type} (f : α → β) : Gen.Res α → Res β
  | .ok v => .ok (f v)
  | .thrown e => .exn (exnOf e)
  | .halted => .exn .exhausted

end SockModel.GenWorld

/-
Model of the driver's locking protocol (src/driver_impl.cpp:43-98 StepGuard / PauseGuard,
168-180 Run / Stop, 230-244 Bump / Unbump) as a labelled transition system over ONE
driver thread and an ARBITRARY set of user threads (`Tid → UPc`, no bound).

* `step`  : owner of the recursive `stepMtx`
* `pause` : owner of `pauseMtx`
* `pipe`  : datagrams queued on the signalling pipe
* `stop`  : the `shouldStop` flag (after fix F1: consumed by `Run` on exit)

Driver thread: `Run` = loop { test-and-clear flag ; Step(-1) }, or single `Step` calls.
`Step` = lock step ; [tasks / QuerySockets] ; poll ; (Unbump | one socket task) ;
unlock step ; lock pause ; unlock pause.   Management calls issued from inside a task or
handler re-enter `PauseGuard` on the thread that already owns the recursive `stepMtx`:
their `try_lock` succeeds and changes nothing here.  `Stop` from a task, a handler or a
signal handler running on the driver thread is `dStop` (flag and datagram; nothing
else of the driver thread can run in between).

User thread: management call (`PauseGuard`) = try_lock step ? crit : (lock pause ; Bump ;
lock step ; unlock pause ; crit) ; unlock step.   `Stop` = set flag ; Bump.
-/
namespace SockModel.Locks

abbrev Tid := Nat

inductive Owner where
  | none | drv | usr (t : Tid)
  deriving DecidableEq, Repr

/-- driver program counter; the flag says whether the current step was started by `Run` -/
inductive DPc where
  | idle
  | r0                         -- Run: about to test (and clear) the stop flag
  | wantStep (run : Bool)      -- StepGuard(): blocking lock of stepMtx
  | inStep (run : Bool)        -- owns stepMtx: due tasks run, sockets are queried
  | atPoll (run : Bool)        -- blocked in poll (owns stepMtx)
  | woke (run : Bool)          -- poll returned: Unbump happened, or one handler runs
  | wantPause (run : Bool)     -- ~StepGuard: stepMtx released, about to lock pauseMtx
  | holdPause (run : Bool)
  deriving DecidableEq, Repr

inductive UPc where
  | idle
  | wantPause                  -- try_lock failed: about to lock pauseMtx
  | bump                       -- owns pauseMtx: about to send the wake-up datagram
  | waitStep                   -- owns pauseMtx, datagram sent: blocking lock of stepMtx
  | relPause                   -- owns both: about to release pauseMtx
  | crit                       -- owns stepMtx: mutates sockets / pfds / todos
  | stopBump                   -- Stop(): flag set, about to Bump
  deriving DecidableEq, Repr

structure St where
  step : Owner := .none
  pause : Owner := .none
  pipe : Nat := 0
  stop : Bool := false
  d : DPc := .idle
  u : Tid → UPc := fun _ => .idle
  stops : Nat := 0     -- ghost: completed Stop() calls
  runs : Nat := 0      -- ghost: returns of Run()

def St.setU (s : St) (t : Tid) (p : UPc) : St := { s with u := fun x => if x = t then p else s.u x }

@[simp] theorem setU_same (s : St) (t : Tid) (p : UPc) : (s.setU t p).u t = p := by simp [St.setU]
@[simp] theorem setU_other (s : St) (t x : Tid) (p : UPc) (h : x ≠ t) : (s.setU t p).u x = s.u x := by
  simp [St.setU, h]
@[simp] theorem setU_step (s : St) (t : Tid) (p : UPc) : (s.setU t p).step = s.step := rfl
@[simp] theorem setU_pause (s : St) (t : Tid) (p : UPc) : (s.setU t p).pause = s.pause := rfl
@[simp] theorem setU_pipe (s : St) (t : Tid) (p : UPc) : (s.setU t p).pipe = s.pipe := rfl
@[simp] theorem setU_stop (s : St) (t : Tid) (p : UPc) : (s.setU t p).stop = s.stop := rfl
@[simp] theorem setU_d (s : St) (t : Tid) (p : UPc) : (s.setU t p).d = s.d := rfl
@[simp] theorem setU_stops (s : St) (t : Tid) (p : UPc) : (s.setU t p).stops = s.stops := rfl
@[simp] theorem setU_runs (s : St) (t : Tid) (p : UPc) : (s.setU t p).runs = s.runs := rfl

/-- `spont = true`: the start of a new API call or an event of the environment (socket readiness,
poll timeout); `false`: a step every thread takes on its own once the call is under way -/
inductive Tr : St → Bool → St → Prop where
  -- driver thread
  | dRunEnter {s} : s.d = .idle → Tr s true { s with d := .r0 }
  | dRunExit {s} : s.d = .r0 → s.stop = true → Tr s false { s with stop := false, d := .idle, runs := s.runs + 1 }
  | dRunGo {s} : s.d = .r0 → s.stop = false → Tr s false { s with d := .wantStep true }
  | dStepEnter {s} : s.d = .idle → Tr s true { s with d := .wantStep false }
  | dLockStep {s r} : s.d = .wantStep r → s.step = .none → Tr s false { s with step := .drv, d := .inStep r }
  | dToPoll {s r} : s.d = .inStep r → Tr s false { s with d := .atPoll r }
  | dPollPipe {s r} : s.d = .atPoll r → 0 < s.pipe → Tr s false { s with pipe := s.pipe - 1, d := .woke r }
  | dPollOther {s r} : s.d = .atPoll r → s.pipe = 0 → Tr s true { s with d := .woke r }
  | dUnlockStep {s r} : s.d = .woke r → Tr s false { s with step := .none, d := .wantPause r }
  | dLockPause {s r} : s.d = .wantPause r → s.pause = .none → Tr s false { s with pause := .drv, d := .holdPause r }
  | dUnlockPause {s r} : s.d = .holdPause r →
      Tr s false { s with pause := .none, d := if r then .r0 else .idle }
  | dStop {s} : Tr s true { s with stop := true, pipe := s.pipe + 1, stops := s.stops + 1 }   -- Stop() on the driver thread
  -- user threads
  | uTryOk {s t} : s.u t = .idle → s.step = .none → Tr s true ({ s with step := .usr t }.setU t .crit)
  | uTryFail {s t} : s.u t = .idle → s.step ≠ .none → Tr s true (s.setU t .wantPause)
  | uLockPause {s t} : s.u t = .wantPause → s.pause = .none → Tr s false ({ s with pause := .usr t }.setU t .bump)
  | uBump {s t} : s.u t = .bump → Tr s false ({ s with pipe := s.pipe + 1 }.setU t .waitStep)
  | uLockStep {s t} : s.u t = .waitStep → s.step = .none → Tr s false ({ s with step := .usr t }.setU t .relPause)
  | uRelPause {s t} : s.u t = .relPause → Tr s false ({ s with pause := .none }.setU t .crit)
  | uUnlock {s t} : s.u t = .crit → Tr s false ({ s with step := .none }.setU t .idle)
  | uStopSet {s t} : s.u t = .idle → Tr s true ({ s with stop := true }.setU t .stopBump)
  | uStopBump {s t} : s.u t = .stopBump → Tr s false ({ s with pipe := s.pipe + 1, stops := s.stops + 1 }.setU t .idle)

def DPc.ownsStep : DPc → Bool
  | .inStep _ | .atPoll _ | .woke _ => true
  | _ => false

def DPc.ownsPause : DPc → Bool
  | .holdPause _ => true
  | _ => false

def UPc.ownsStep : UPc → Bool
  | .relPause | .crit => true
  | _ => false

def UPc.ownsPause : UPc → Bool
  | .bump | .waitStep | .relPause => true
  | _ => false

/-- the driver has consumed its wake-up and is on its way out of the step -/
def DPc.leaving : DPc → Bool
  | .woke _ | .wantPause _ => true
  | _ => false

/-- the driver is inside a step started by `Run`, before the poll returned -/
def DPc.runBeforeWake : DPc → Bool
  | .wantStep true | .inStep true | .atPoll true => true
  | _ => false

structure LInv (s : St) : Prop where
  stepD  : s.d.ownsStep = true ↔ s.step = .drv
  stepU  : ∀ t, (s.u t).ownsStep = true ↔ s.step = .usr t
  pauseD : s.d.ownsPause = true ↔ s.pause = .drv
  pauseU : ∀ t, (s.u t).ownsPause = true ↔ s.pause = .usr t
  /-- no lost wake-up: a user that sent its datagram and waits for stepMtx is seen by the driver -/
  wake   : ∀ t, s.u t = .waitStep → s.d.leaving = true ∨ 0 < s.pipe
  /-- a completed Stop is seen by a running `Run` -/
  stopW  : s.stop = true → (∀ t, s.u t ≠ .stopBump) → s.d.runBeforeWake = true → 0 < s.pipe

/-- a Stop that was issued is not lost: the flag stays up until some Run has returned -/
def Kept (s : St) : Prop := (0 < s.stops ∨ ∃ t, s.u t = .stopBump) → s.stop = true ∨ 0 < s.runs

def init : St := {}

/-- reachability -/
inductive Reach : St → Prop where
  | init : Reach init
  | step {s s' b} : Reach s → Tr s b s' → Reach s'


/-- an execution fragment: consecutive states, each a transition of the system -/
inductive Path : St → List St → Prop where
  | nil (s) : Path s []
  | cons {s s' b rest} : Tr s b s' → Path s' rest → Path s (s' :: rest)

end SockModel.Locks

import SockModel.Model.Dispatch
/-! Invariants of the dispatch / receive / disconnect / connect model (`Model/Dispatch.lean`). -/
namespace SockModel.Dispatch
open SockModel.AsyncQ (Bytes)

/-! ### `unregister` / `destroyAll` only shrink `socks` -/

@[simp] theorem unregister_conn (s : St) (i : Nat) : (unregister s i).conn = s.conn := rfl
@[simp] theorem unregister_backlog (s : St) (i : Nat) : (unregister s i).backlog = s.backlog := rfl
@[simp] theorem unregister_wantOut (s : St) (i : Nat) : (unregister s i).wantOut = s.wantOut := rfl
@[simp] theorem unregister_nextId (s : St) (i : Nat) : (unregister s i).nextId = s.nextId := rfl
@[simp] theorem unregister_log (s : St) (i : Nat) : (unregister s i).log = s.log := rfl
@[simp] theorem unregister_created (s : St) (i : Nat) : (unregister s i).created = s.created := rfl
@[simp] theorem unregister_made (s : St) (i : Nat) : (unregister s i).made = s.made := rfl
theorem unregister_socks (s : St) (i : Nat) : (unregister s i).socks = s.socks.filter (·.id ≠ i) := rfl

theorem destroyAll_fields (s : St) (ids : List Nat) :
    (destroyAll s ids).conn = s.conn ∧ (destroyAll s ids).backlog = s.backlog ∧
    (destroyAll s ids).wantOut = s.wantOut ∧ (destroyAll s ids).nextId = s.nextId ∧
    (destroyAll s ids).log = s.log ∧ (destroyAll s ids).created = s.created ∧
    (destroyAll s ids).made = s.made ∧ (destroyAll s ids).socks.Sublist s.socks := by
  induction ids generalizing s with
  | nil => exact ⟨rfl, rfl, rfl, rfl, rfl, rfl, rfl, List.Sublist.refl _⟩
  | cons i is ih =>
    have := ih (unregister s i)
    simp only [destroyAll, List.foldl_cons] at this ⊢
    obtain ⟨h1, h2, h3, h4, h5, h6, h7, h8⟩ := this
    exact ⟨h1, h2, h3, h4, h5, h6, h7, h8.trans List.filter_sublist⟩

theorem mem_unregister {s : St} {i : Nat} {k : Sock} (h : k ∈ (unregister s i).socks) : k ∈ s.socks ∧ k.id ≠ i := by
  rw [unregister_socks] at h
  simpa using h

theorem mem_destroyAll {s : St} {ids : List Nat} {k : Sock} (h : k ∈ (destroyAll s ids).socks) : k ∈ s.socks :=
  (destroyAll_fields s ids).2.2.2.2.2.2.2.subset h

/-! ### `pick` / `firstTask` -/

theorem pick_readable {order : List Nat} {r : Rev} (h : pick order r = some .readable) : r.pin = true := by
  induction order with
  | nil => cases h
  | cons x xs ih =>
    match x with
    | 0 => simp only [pick] at h; split at h; assumption; exact ih h
    | 1 => simp only [pick] at h; split at h; cases h; exact ih h
    | 2 => simp only [pick] at h; split at h; cases h; exact ih h
    | n + 3 => simp only [pick] at h; exact ih h

theorem pick_writable {order : List Nat} {r : Rev} (h : pick order r = some .writable) : r.pout = true := by
  induction order with
  | nil => cases h
  | cons x xs ih =>
    match x with
    | 0 => simp only [pick] at h; split at h; cases h; exact ih h
    | 1 => simp only [pick] at h; split at h; assumption; exact ih h
    | 2 => simp only [pick] at h; split at h; cases h; exact ih h
    | n + 3 => simp only [pick] at h; exact ih h

theorem pick_error {order : List Nat} {r : Rev} (h : pick order r = some .error) : r.perr = true := by
  induction order with
  | nil => cases h
  | cons x xs ih =>
    match x with
    | 0 => simp only [pick] at h; split at h; cases h; exact ih h
    | 1 => simp only [pick] at h; split at h; cases h; exact ih h
    | 2 => simp only [pick] at h; split at h; assumption; exact ih h
    | n + 3 => simp only [pick] at h; exact ih h

theorem firstTask_spec {order : List Nat} {s : St} {l : List Sock} {k : Sock} {t : Task}
    (h : firstTask order s l = some (k, t)) : k ∈ l ∧ pick order (s.revents k) = some t := by
  induction l with
  | nil => cases h
  | cons x xs ih =>
    simp only [firstTask] at h
    split at h
    · rename_i t' hp
      cases h
      exact ⟨by simp, hp⟩
    · have := ih h
      exact ⟨by simp [this.1], this.2⟩

def NotAfterDisconnect (e1 e2 : Event) : Prop := ∀ s a r, e1 = .disconnect s a r → e2.sock ≠ s

structure DInv (s : St) : Prop where
  idsLt : ∀ k ∈ s.created, k.id < s.nextId
  createdNodup : (s.created.map (·.id)).Nodup
  sub : ∀ k ∈ s.socks, k ∈ s.created
  rxPos : ∀ k ∈ s.created, 1 ≤ k.rxSize
  rstEnded : ∀ c, (s.conn c).rst = true → (s.conn c).ended = true
  blFresh : ∀ a x, x ∈ s.backlog a → x.1 < s.nextId ∧ x.1 ∉ s.created.map (·.id)
  blNodup : ∀ a, ((s.backlog a).map (·.1)).Nodup
  blDisj : ∀ a b, a ≠ b → ∀ x ∈ s.backlog a, ∀ y ∈ s.backlog b, x.1 ≠ y.1
  dataInv : ∀ i, dataOf i s.log ++ (s.conn i).inbox = (s.conn i).stream
  chunkOk : ∀ i b rx, Event.data i b rx ∈ s.log →
    1 ≤ b.length ∧ b.length ≤ rx ∧ ∃ k ∈ s.created, k.id = i ∧ k.rxSize = rx ∧ k.kind = .tcp
  addrOk : ∀ i a r, Event.disconnect i a r ∈ s.log →
    (∃ k ∈ s.created, k.id = i ∧ k.peerAddr = a ∧ k.kind = .tcp) ∧ i ∉ s.socks.map (·.id)
  evSock : ∀ e ∈ s.log, e.sock ∈ s.created.map (·.id)
  shape : s.log.Pairwise NotAfterDisconnect
  connInv : ∀ a, connectsOf a s.log ++ s.backlog a = (s.made.filter (fun m => m.1 = a)).map (·.2)
  madeLt : ∀ m ∈ s.made, m.2.1 < s.nextId
  madeNodup : (s.made.map (·.2.1)).Nodup

theorem inv_init : DInv {} := by
  refine ⟨?_, ?_, ?_, ?_, ?_, ?_, ?_, ?_, ?_, ?_, ?_, ?_, ?_, ?_, ?_, ?_⟩ <;> simp [dataOf, connectsOf]

theorem dataOf_append (i : Nat) (l₁ l₂ : List Event) : dataOf i (l₁ ++ l₂) = dataOf i l₁ ++ dataOf i l₂ := by
  induction l₁ with
  | nil => rfl
  | cons e es ih =>
    cases e with
    | data s b rx =>
      simp only [List.cons_append, dataOf]
      split <;> simp [ih]
    | disconnect s a r => simpa [dataOf] using ih
    | connect a c addr => simpa [dataOf] using ih

theorem connectsOf_append (a : Nat) (l₁ l₂ : List Event) :
    connectsOf a (l₁ ++ l₂) = connectsOf a l₁ ++ connectsOf a l₂ := by
  induction l₁ with
  | nil => rfl
  | cons e es ih =>
    cases e with
    | data s b rx => simpa [connectsOf] using ih
    | disconnect s x r => simpa [connectsOf] using ih
    | connect x c addr =>
      simp only [List.cons_append, connectsOf]
      split <;> simp [ih]

/-- removing sockets from the list preserves the invariant -/
theorem inv_unregister {s : St} (h : DInv s) (i : Nat) : DInv (unregister s i) := by
  refine ⟨h.idsLt, h.createdNodup, ?_, h.rxPos, h.rstEnded, h.blFresh, h.blNodup, h.blDisj, h.dataInv, h.chunkOk,
    ?_, h.evSock, h.shape, h.connInv, h.madeLt, h.madeNodup⟩
  · intro k hk; exact h.sub k (mem_unregister hk).1
  · intro j a r hm
    refine ⟨(h.addrOk j a r hm).1, ?_⟩
    intro hin
    obtain ⟨k, hk, rfl⟩ := List.mem_map.mp hin
    exact (h.addrOk k.id a r hm).2 (List.mem_map_of_mem (mem_unregister hk).1)

theorem inv_destroyAll {s : St} (h : DInv s) (ids : List Nat) : DInv (destroyAll s ids) := by
  induction ids generalizing s with
  | nil => exact h
  | cons i is ih => exact ih (inv_unregister h i)

theorem updC_same (f : Nat → Conn) (i : Nat) (v : Conn) : updC f i v i = v := by simp [updC]
theorem updC_other (f : Nat → Conn) (i : Nat) (v : Conn) (x : Nat) (h : x ≠ i) : updC f i v x = f x := by simp [updC, h]
theorem updB_same {α} (f : Nat → α) (i : Nat) (v : α) : updB f i v i = v := by simp [updB]
theorem updB_other {α} (f : Nat → α) (i : Nat) (v : α) (x : Nat) (h : x ≠ i) : updB f i v x = f x := by simp [updB, h]

theorem chunkLen_bounds {chunk rx avail : Nat} (hrx : 1 ≤ rx) (ha : 1 ≤ avail) :
    1 ≤ chunkLen chunk rx avail ∧ chunkLen chunk rx avail ≤ rx ∧ chunkLen chunk rx avail ≤ avail := by
  unfold chunkLen; omega

/-- appending an event of a registered socket keeps "nothing after disconnect" -/
theorem shape_append {s : St} (h : DInv s) {e : Event} (he : e.sock ∈ s.socks.map (·.id)) :
    (s.log ++ [e]).Pairwise NotAfterDisconnect := by
  rw [List.pairwise_append]
  refine ⟨h.shape, by simp, ?_⟩
  intro a ha b hb
  simp only [List.mem_singleton] at hb; subst hb
  intro i x r heq
  subst heq
  intro hs
  exact (h.addrOk i x r ha).2 (hs ▸ he)

theorem inv_data {s : St} (h : DInv s) {k : Sock} (hk : k ∈ s.socks) (hkind : k.kind = .tcp)
    (hne : (s.conn k.id).inbox ≠ []) (chunk : Nat) :
    DInv { s with conn := updC s.conn k.id { s.conn k.id with
                      inbox := (s.conn k.id).inbox.drop (chunkLen chunk k.rxSize (s.conn k.id).inbox.length) },
                  log := s.log ++ [.data k.id ((s.conn k.id).inbox.take (chunkLen chunk k.rxSize (s.conn k.id).inbox.length)) k.rxSize] } := by
  have hkc := h.sub k hk
  have hlen : 1 ≤ (s.conn k.id).inbox.length := by
    cases hx : (s.conn k.id).inbox with
    | nil => exact absurd hx hne
    | cons a as => simp
  have hb := chunkLen_bounds (chunk := chunk) (h.rxPos k hkc) hlen
  refine ⟨h.idsLt, h.createdNodup, h.sub, h.rxPos, ?_, h.blFresh, h.blNodup, h.blDisj, ?_, ?_, ?_, ?_, ?_, ?_,
    h.madeLt, h.madeNodup⟩ <;> dsimp only
  · intro c
    by_cases hc : c = k.id
    · subst hc; rw [updC_same]; exact h.rstEnded _
    · rw [updC_other _ _ _ _ hc]; exact h.rstEnded c
  · intro i
    rw [dataOf_append]
    by_cases hi : i = k.id
    · subst hi
      rw [updC_same]
      simp only [dataOf, ↓reduceIte, List.append_nil]
      rw [List.append_assoc, List.take_append_drop]
      exact h.dataInv _
    · rw [updC_other _ _ _ _ hi]
      have : dataOf i [Event.data k.id (List.take (chunkLen chunk k.rxSize (s.conn k.id).inbox.length) (s.conn k.id).inbox) k.rxSize] = [] := by
        have hne' : ¬ k.id = i := fun heq => hi heq.symm
        simp only [dataOf, hne', ↓reduceIte]
      rw [this, List.append_nil]; exact h.dataInv i
  · intro i b rx hm
    rcases List.mem_append.mp hm with hm | hm
    · exact h.chunkOk i b rx hm
    · simp only [List.mem_singleton, Event.data.injEq] at hm
      obtain ⟨rfl, rfl, rfl⟩ := hm
      refine ⟨?_, ?_, k, hkc, rfl, rfl, hkind⟩
      · rw [List.length_take]; omega
      · rw [List.length_take]; omega
  · intro i a r hm
    rcases List.mem_append.mp hm with hm | hm
    · exact h.addrOk i a r hm
    · simp at hm
  · intro e he
    rcases List.mem_append.mp he with he | he
    · exact h.evSock e he
    · simp only [List.mem_singleton] at he; subst he
      exact List.mem_map_of_mem hkc
  · exact shape_append h (e := .data k.id _ k.rxSize) (List.mem_map_of_mem hk)
  · intro a
    rw [connectsOf_append]
    simpa [connectsOf] using h.connInv a

theorem inv_disconnect {s : St} (h : DInv s) {k : Sock} (hk : k ∈ s.socks) (hkind : k.kind = .tcp) (r : Reason) :
    DInv { unregister s k.id with log := (unregister s k.id).log ++ [.disconnect k.id k.peerAddr r] } := by
  have hkc := h.sub k hk
  refine ⟨h.idsLt, h.createdNodup, ?_, h.rxPos, h.rstEnded, h.blFresh, h.blNodup, h.blDisj, ?_, ?_, ?_, ?_, ?_, ?_,
    h.madeLt, h.madeNodup⟩ <;> dsimp only [unregister]
  · intro x hx
    exact h.sub x (List.mem_filter.mp hx).1
  · intro i
    rw [dataOf_append]
    simpa [dataOf] using h.dataInv i
  · intro i b rx hm
    rcases List.mem_append.mp hm with hm | hm
    · exact h.chunkOk i b rx hm
    · simp at hm
  · intro i a r' hm
    rcases List.mem_append.mp hm with hm | hm
    · refine ⟨(h.addrOk i a r' hm).1, ?_⟩
      intro hin
      obtain ⟨x, hx, rfl⟩ := List.mem_map.mp hin
      exact (h.addrOk x.id a r' hm).2 (List.mem_map_of_mem (List.mem_filter.mp hx).1)
    · simp only [List.mem_singleton, Event.disconnect.injEq] at hm
      obtain ⟨rfl, rfl, rfl⟩ := hm
      refine ⟨⟨k, hkc, rfl, rfl, hkind⟩, ?_⟩
      intro hin
      obtain ⟨x, hx, hxe⟩ := List.mem_map.mp hin
      have := (List.mem_filter.mp hx).2
      simp [hxe] at this
  · intro e he
    rcases List.mem_append.mp he with he | he
    · exact h.evSock e he
    · simp only [List.mem_singleton] at he; subst he
      exact List.mem_map_of_mem hkc
  · exact shape_append h (e := .disconnect k.id k.peerAddr r) (List.mem_map_of_mem hk)
  · intro a
    rw [connectsOf_append]
    simpa [connectsOf] using h.connInv a

theorem inv_connect {s : St} (h : DInv s) {k : Sock} (hk : k ∈ s.socks) {c addr : Nat} {rest : List (Nat × Nat)}
    (hb : s.backlog k.id = (c, addr) :: rest) (rx : Nat) :
    DInv { s with backlog := updB s.backlog k.id rest,
                  socks := s.socks ++ [⟨c, .tcp, max 1 rx, addr⟩], created := s.created ++ [⟨c, .tcp, max 1 rx, addr⟩],
                  log := s.log ++ [.connect k.id c addr] } := by
  have hkc := h.sub k hk
  have hfresh := h.blFresh k.id (c, addr) (by rw [hb]; simp)
  have hnd := h.blNodup k.id
  rw [hb] at hnd
  simp only [List.map_cons, List.nodup_cons] at hnd
  have hbl : ∀ b x, x ∈ updB s.backlog k.id rest b → x ∈ s.backlog b ∧ x.1 ≠ c := by
    intro b x hx
    by_cases hbk : b = k.id
    · subst hbk
      rw [updB_same] at hx
      refine ⟨by rw [hb]; simp [hx], ?_⟩
      intro heq
      exact hnd.1 (heq ▸ List.mem_map_of_mem hx)
    · rw [updB_other _ _ _ _ hbk] at hx
      refine ⟨hx, ?_⟩
      exact h.blDisj b k.id hbk x hx (c, addr) (by rw [hb]; simp)
  refine ⟨?_, ?_, ?_, ?_, h.rstEnded, ?_, ?_, ?_, ?_, ?_, ?_, ?_, ?_, ?_, h.madeLt, h.madeNodup⟩ <;> dsimp only
  · intro x hx
    rcases List.mem_append.mp hx with hx | hx
    · exact h.idsLt x hx
    · simp only [List.mem_singleton] at hx; subst hx; exact hfresh.1
  · simp only [List.map_append, List.map_cons, List.map_nil]
    rw [List.nodup_append]
    refine ⟨h.createdNodup, by simp, ?_⟩
    intro a ha b hb'
    simp only [List.mem_singleton] at hb'; subst hb'
    intro heq; subst heq; exact hfresh.2 ha
  · intro x hx
    rcases List.mem_append.mp hx with hx | hx
    · exact List.mem_append_left _ (h.sub x hx)
    · exact List.mem_append_right _ hx
  · intro x hx
    rcases List.mem_append.mp hx with hx | hx
    · exact h.rxPos x hx
    · simp only [List.mem_singleton] at hx; subst hx; exact Nat.le_max_left _ _
  · intro b x hx
    have := hbl b x hx
    have hf := h.blFresh b x this.1
    refine ⟨hf.1, ?_⟩
    simp only [List.map_append, List.map_cons, List.map_nil, List.mem_append, List.mem_singleton, not_or]
    exact ⟨hf.2, this.2⟩
  · intro b
    by_cases hbk : b = k.id
    · subst hbk; rw [updB_same]; exact hnd.2
    · rw [updB_other _ _ _ _ hbk]; exact h.blNodup b
  · intro a b hab x hx y hy
    exact h.blDisj a b hab x (hbl a x hx).1 y (hbl b y hy).1
  · intro i
    rw [dataOf_append]
    simpa [dataOf] using h.dataInv i
  · intro i b rx' hm
    rcases List.mem_append.mp hm with hm | hm
    · obtain ⟨h1, h2, x, hx, h3⟩ := h.chunkOk i b rx' hm
      exact ⟨h1, h2, x, List.mem_append_left _ hx, h3⟩
    · simp at hm
  · intro i a r hm
    rcases List.mem_append.mp hm with hm | hm
    · obtain ⟨⟨x, hx, h3⟩, hnot⟩ := h.addrOk i a r hm
      refine ⟨⟨x, List.mem_append_left _ hx, h3⟩, ?_⟩
      simp only [List.map_append, List.map_cons, List.map_nil, List.mem_append, List.mem_singleton, not_or]
      refine ⟨hnot, ?_⟩
      intro heq
      exact hfresh.2 (heq ▸ h3.1 ▸ List.mem_map_of_mem hx)
    · simp at hm
  · intro e he
    simp only [List.map_append, List.mem_append]
    rcases List.mem_append.mp he with he | he
    · exact Or.inl (h.evSock e he)
    · simp only [List.mem_singleton] at he; subst he
      exact Or.inl (List.mem_map_of_mem hkc)
  · exact shape_append h (e := .connect k.id c addr) (List.mem_map_of_mem hk)
  · intro a
    rw [connectsOf_append]
    by_cases ha : a = k.id
    · subst ha
      rw [updB_same]
      have := h.connInv k.id
      rw [hb] at this
      simp only [connectsOf, ↓reduceIte]
      rw [← this]; simp
    · rw [updB_other _ _ _ _ ha]
      have hne : ¬ k.id = a := fun h' => ha h'.symm
      simp only [connectsOf, hne, ↓reduceIte, List.append_nil]
      exact h.connInv a

theorem inv_doTask {order : List Nat} {s : St} (h : DInv s) {k : Sock} {t : Task} (hk : k ∈ s.socks)
    (hp : pick order (s.revents k) = some t) (chunk rx : Nat) (hdl : List Nat) :
    DInv (doTask s k t chunk rx hdl) := by
  cases t with
  | readable =>
    have hpin := pick_readable hp
    cases hkind : k.kind with
    | tcp =>
      simp only [doTask, hkind, driverReceive]
      split
      · exact inv_destroyAll (inv_disconnect h hk hkind _) hdl
      · rename_i hne
        exact inv_destroyAll (inv_data h hk hkind (by simpa using hne) chunk) hdl
    | acceptor =>
      simp only [doTask, hkind, driverConnect]
      split
      · exact h
      · rename_i c addr rest hb
        exact inv_destroyAll (inv_connect h hk hb rx) hdl
  | writable =>
    simp only [doTask]
    exact ⟨h.idsLt, h.createdNodup, h.sub, h.rxPos, h.rstEnded, h.blFresh, h.blNodup, h.blDisj, h.dataInv, h.chunkOk,
      h.addrOk, h.evSock, h.shape, h.connInv, h.madeLt, h.madeNodup⟩
  | error =>
    cases hkind : k.kind with
    | tcp =>
      simp only [doTask, hkind]
      exact inv_destroyAll (inv_disconnect h hk hkind _) hdl
    | acceptor =>
      simp only [doTask, hkind]
      exact h

theorem inv_step {order : List Nat} {s : St} (h : DInv s) (pipe : Bool) (chunk rx : Nat) (hdl : List Nat) :
    DInv (stepSockets order s pipe chunk rx hdl) := by
  unfold stepSockets
  split
  · exact h
  · split
    · exact h
    · rename_i k t hf
      have := firstTask_spec hf
      exact inv_doTask h this.1 this.2 chunk rx hdl

theorem lt_of_mem_created {s : St} (h : DInv s) {i : Nat} (hi : i ∈ s.created.map (·.id)) : i < s.nextId := by
  obtain ⟨k, hk, rfl⟩ := List.mem_map.mp hi
  exact h.idsLt k hk

theorem inv_newSock {s : St} (h : DInv s) (kind : Kind) (rx addr : Nat) (hrx : 1 ≤ rx) :
    DInv { s with socks := s.socks ++ [⟨s.nextId, kind, rx, addr⟩], created := s.created ++ [⟨s.nextId, kind, rx, addr⟩],
                  nextId := s.nextId + 1 } := by
  refine ⟨?_, ?_, ?_, ?_, h.rstEnded, ?_, h.blNodup, h.blDisj, h.dataInv, ?_, ?_, ?_, h.shape, h.connInv, ?_, h.madeNodup⟩ <;> dsimp only
  · intro x hx
    rcases List.mem_append.mp hx with hx | hx
    · exact Nat.lt_succ_of_lt (h.idsLt x hx)
    · simp only [List.mem_singleton] at hx; subst hx; exact Nat.lt_succ_self _
  · simp only [List.map_append, List.map_cons, List.map_nil]
    rw [List.nodup_append]
    refine ⟨h.createdNodup, by simp, ?_⟩
    intro a ha b hb
    simp only [List.mem_singleton] at hb; subst hb
    have := lt_of_mem_created h ha
    omega
  · intro x hx
    rcases List.mem_append.mp hx with hx | hx
    · exact List.mem_append_left _ (h.sub x hx)
    · exact List.mem_append_right _ hx
  · intro x hx
    rcases List.mem_append.mp hx with hx | hx
    · exact h.rxPos x hx
    · simp only [List.mem_singleton] at hx; subst hx; exact hrx
  · intro a x hx
    have hf := h.blFresh a x hx
    refine ⟨Nat.lt_succ_of_lt hf.1, ?_⟩
    simp only [List.map_append, List.map_cons, List.map_nil, List.mem_append, List.mem_singleton, not_or]
    exact ⟨hf.2, by omega⟩
  · intro i b rx' hm
    obtain ⟨h1, h2, x, hx, h3⟩ := h.chunkOk i b rx' hm
    exact ⟨h1, h2, x, List.mem_append_left _ hx, h3⟩
  · intro i a r hm
    obtain ⟨⟨x, hx, h3⟩, hnot⟩ := h.addrOk i a r hm
    refine ⟨⟨x, List.mem_append_left _ hx, h3⟩, ?_⟩
    simp only [List.map_append, List.map_cons, List.map_nil, List.mem_append, List.mem_singleton, not_or]
    refine ⟨hnot, ?_⟩
    have := h.idsLt x hx
    rw [h3.1] at this
    omega
  · intro e he
    simp only [List.map_append, List.mem_append]
    exact Or.inl (h.evSock e he)
  · intro m hm
    exact Nat.lt_succ_of_lt (h.madeLt m hm)

theorem inv_apply {order : List Nat} {s : St} (h : DInv s) (op : Op) : DInv (apply order s op) := by
  cases op with
  | newClient addr rx => exact inv_newSock h .tcp (max 1 rx) addr (Nat.le_max_left _ _)
  | newAcceptor => exact inv_newSock h .acceptor 1 0 (Nat.le_refl _)
  | peerConnect a addr =>
    simp only [apply]
    split
    · refine ⟨?_, h.createdNodup, h.sub, h.rxPos, h.rstEnded, ?_, ?_, ?_, h.dataInv, h.chunkOk, h.addrOk, h.evSock,
        h.shape, ?_, ?_, ?_⟩ <;> dsimp only
      · intro x hx; exact Nat.lt_succ_of_lt (h.idsLt x hx)
      · intro b x hx
        by_cases hb : b = a
        · subst hb
          rw [updB_same] at hx
          rcases List.mem_append.mp hx with hx | hx
          · exact ⟨Nat.lt_succ_of_lt (h.blFresh b x hx).1, (h.blFresh b x hx).2⟩
          · simp only [List.mem_singleton] at hx; subst hx
            refine ⟨Nat.lt_succ_self _, ?_⟩
            intro hin
            have := lt_of_mem_created h hin
            omega
        · rw [updB_other _ _ _ _ hb] at hx
          exact ⟨Nat.lt_succ_of_lt (h.blFresh b x hx).1, (h.blFresh b x hx).2⟩
      · intro b
        by_cases hb : b = a
        · subst hb
          rw [updB_same]
          simp only [List.map_append, List.map_cons, List.map_nil]
          rw [List.nodup_append]
          refine ⟨h.blNodup b, by simp, ?_⟩
          intro x hx y hy
          simp only [List.mem_singleton] at hy; subst hy
          obtain ⟨z, hz, rfl⟩ := List.mem_map.mp hx
          have := (h.blFresh b z hz).1
          omega
        · rw [updB_other _ _ _ _ hb]; exact h.blNodup b
      · intro b c hbc x hx y hy
        have hx' : x ∈ s.backlog b ∨ x.1 = s.nextId := by
          by_cases hb : b = a
          · subst hb; rw [updB_same] at hx
            rcases List.mem_append.mp hx with hx | hx
            · exact Or.inl hx
            · simp only [List.mem_singleton] at hx; subst hx; exact Or.inr rfl
          · rw [updB_other _ _ _ _ hb] at hx; exact Or.inl hx
        have hy' : y ∈ s.backlog c ∨ y.1 = s.nextId := by
          by_cases hc : c = a
          · subst hc; rw [updB_same] at hy
            rcases List.mem_append.mp hy with hy | hy
            · exact Or.inl hy
            · simp only [List.mem_singleton] at hy; subst hy; exact Or.inr rfl
          · rw [updB_other _ _ _ _ hc] at hy; exact Or.inl hy
        rcases hx' with hx' | hx' <;> rcases hy' with hy' | hy'
        · exact h.blDisj b c hbc x hx' y hy'
        · have := (h.blFresh b x hx').1; omega
        · have := (h.blFresh c y hy').1; omega
        · -- both are the new entry: then b = a = c
          exfalso
          have hb : b = a := by
            apply Classical.byContradiction; intro hb
            rw [updB_other _ _ _ _ hb] at hx
            have := (h.blFresh b x hx).1; omega
          have hc : c = a := by
            apply Classical.byContradiction; intro hc
            rw [updB_other _ _ _ _ hc] at hy
            have := (h.blFresh c y hy).1; omega
          exact hbc (hb.trans hc.symm)
      · intro b
        by_cases hb : b = a
        · subst hb
          rw [updB_same, List.filter_append, List.map_append, ← List.append_assoc, h.connInv b]
          simp
        · rw [updB_other _ _ _ _ hb, List.filter_append, List.map_append, h.connInv b]
          have : ¬ a = b := fun h' => hb h'.symm
          simp [this]
      · intro m hm
        rcases List.mem_append.mp hm with hm | hm
        · exact Nat.lt_succ_of_lt (h.madeLt m hm)
        · simp only [List.mem_singleton] at hm; subst hm; exact Nat.lt_succ_self _
      · simp only [List.map_append, List.map_cons, List.map_nil]
        rw [List.nodup_append]
        refine ⟨h.madeNodup, by simp, ?_⟩
        intro x hx y hy
        simp only [List.mem_singleton] at hy; subst hy
        obtain ⟨m, hm, rfl⟩ := List.mem_map.mp hx
        have := h.madeLt m hm
        omega
    · exact h
  | peerSend c bytes =>
    simp only [apply]
    split
    · exact h
    · refine ⟨h.idsLt, h.createdNodup, h.sub, h.rxPos, ?_, h.blFresh, h.blNodup, h.blDisj, ?_, h.chunkOk, h.addrOk,
        h.evSock, h.shape, h.connInv, h.madeLt, h.madeNodup⟩ <;> dsimp only
      · intro x
        by_cases hx : x = c
        · subst hx; rw [updC_same]; exact h.rstEnded x
        · rw [updC_other _ _ _ _ hx]; exact h.rstEnded x
      · intro i
        by_cases hi : i = c
        · subst hi; rw [updC_same]; dsimp only
          rw [← List.append_assoc, h.dataInv i]
        · rw [updC_other _ _ _ _ hi]; exact h.dataInv i
  | peerClose c =>
    simp only [apply]
    refine ⟨h.idsLt, h.createdNodup, h.sub, h.rxPos, ?_, h.blFresh, h.blNodup, h.blDisj, ?_, h.chunkOk, h.addrOk,
      h.evSock, h.shape, h.connInv, h.madeLt, h.madeNodup⟩ <;> dsimp only
    · intro x
      by_cases hx : x = c
      · subst hx; rw [updC_same]; intro _; rfl
      · rw [updC_other _ _ _ _ hx]; exact h.rstEnded x
    · intro i
      by_cases hi : i = c
      · subst hi; rw [updC_same]; exact h.dataInv i
      · rw [updC_other _ _ _ _ hi]; exact h.dataInv i
  | peerRst c =>
    simp only [apply]
    refine ⟨h.idsLt, h.createdNodup, h.sub, h.rxPos, ?_, h.blFresh, h.blNodup, h.blDisj, ?_, h.chunkOk, h.addrOk,
      h.evSock, h.shape, h.connInv, h.madeLt, h.madeNodup⟩ <;> dsimp only
    · intro x
      by_cases hx : x = c
      · subst hx; rw [updC_same]; intro _; rfl
      · rw [updC_other _ _ _ _ hx]; exact h.rstEnded x
    · intro i
      by_cases hi : i = c
      · subst hi; rw [updC_same]; exact h.dataInv i
      · rw [updC_other _ _ _ _ hi]; exact h.dataInv i
  | wantSend i =>
    simp only [apply]
    split
    · exact ⟨h.idsLt, h.createdNodup, h.sub, h.rxPos, h.rstEnded, h.blFresh, h.blNodup, h.blDisj, h.dataInv, h.chunkOk,
        h.addrOk, h.evSock, h.shape, h.connInv, h.madeLt, h.madeNodup⟩
    · exact h
  | destroy i => exact inv_unregister h i
  | step pipe chunk rx hdl => exact inv_step h pipe chunk rx hdl

theorem inv_run {order : List Nat} {s : St} (h : DInv s) (ops : List Op) : DInv (run order s ops) := by
  induction ops generalizing s with
  | nil => exact h
  | cons a as ih => exact ih (inv_apply h a)

/-! ### facts about the extracted order of the readiness tests -/

theorem pick_consts_readable_first (r : Rev) (h : r.pin = true) : pick Consts.dispatchOrder r = some .readable := by
  obtain ⟨a, b, c⟩ := r
  cases a <;> cases b <;> cases c <;> simp_all [Consts.dispatchOrder, pick]

theorem pick_consts_error_no_pin (r : Rev) (h : pick Consts.dispatchOrder r = some .error) : r.pin = false := by
  obtain ⟨a, b, c⟩ := r
  cases a <;> cases b <;> cases c <;> simp_all [Consts.dispatchOrder, pick]

theorem pick_consts_some (r : Rev) (h : r.pin = true ∨ r.pout = true ∨ r.perr = true) :
    (pick Consts.dispatchOrder r).isSome = true := by
  obtain ⟨a, b, c⟩ := r
  cases a <;> cases b <;> cases c <;> simp_all [Consts.dispatchOrder, pick]

/-- every disconnect in the log happened on a drained, ended connection -/
def Drained (s : St) : Prop :=
  ∀ i a r, Event.disconnect i a r ∈ s.log → (s.conn i).inbox = [] ∧ (s.conn i).ended = true

theorem drained_destroyAll {s : St} (h : Drained s) (ids : List Nat) : Drained (destroyAll s ids) := by
  have hf := destroyAll_fields s ids
  intro i a r hm
  rw [hf.2.2.2.2.1] at hm
  rw [hf.1]
  exact h i a r hm

theorem drained_doTask {s : St} (h : DInv s) (hd : Drained s) {k : Sock} {t : Task} (hk : k ∈ s.socks)
    (hp : pick Consts.dispatchOrder (s.revents k) = some t) (chunk rx : Nat) (hdl : List Nat) :
    Drained (doTask s k t chunk rx hdl) := by
  have noDisc : ∀ i a r, Event.disconnect i a r ∈ s.log → i ≠ k.id := by
    intro i a r hm heq
    exact (h.addrOk i a r hm).2 (heq ▸ List.mem_map_of_mem hk)
  cases t with
  | readable =>
    have hpin := pick_readable hp
    cases hkind : k.kind with
    | tcp =>
      simp only [St.revents, hkind, Bool.or_eq_true, Bool.not_eq_true'] at hpin
      simp only [doTask, hkind, driverReceive]
      split
      · rename_i hemp
        apply drained_destroyAll
        intro i a r hm
        dsimp only [unregister] at hm ⊢
        rcases List.mem_append.mp hm with hm | hm
        · exact hd i a r hm
        · simp only [List.mem_singleton, Event.disconnect.injEq] at hm
          obtain ⟨rfl, _, _⟩ := hm
          refine ⟨by simpa using hemp, ?_⟩
          rcases hpin with hpin | hpin
          · rw [hemp] at hpin; cases hpin
          · exact hpin
      · apply drained_destroyAll
        intro i a r hm
        dsimp only at hm ⊢
        rcases List.mem_append.mp hm with hm | hm
        · rw [updC_other _ _ _ _ (noDisc i a r hm)]; exact hd i a r hm
        · simp at hm
    | acceptor =>
      simp only [doTask, hkind, driverConnect]
      split
      · exact hd
      · apply drained_destroyAll
        intro i a r hm
        dsimp only at hm ⊢
        rcases List.mem_append.mp hm with hm | hm
        · exact hd i a r hm
        · simp at hm
  | writable => simp only [doTask]; exact hd
  | error =>
    have hnp := pick_consts_error_no_pin _ hp
    have hperr := pick_error hp
    cases hkind : k.kind with
    | tcp =>
      exfalso
      simp only [St.revents, hkind] at hnp hperr
      have := h.rstEnded k.id hperr
      simp [this] at hnp
    | acceptor => simp only [doTask, hkind]; exact hd

theorem drained_apply {s : St} (h : DInv s) (hd : Drained s) (op : Op) : Drained (apply Consts.dispatchOrder s op) := by
  cases op with
  | newClient addr rx => exact hd
  | newAcceptor => exact hd
  | peerConnect a addr => simp only [apply]; split <;> exact hd
  | peerSend c bytes =>
    simp only [apply]
    split
    · exact hd
    · rename_i hne
      intro i a r hm
      dsimp only at hm ⊢
      have := hd i a r hm
      have hic : i ≠ c := by
        intro heq; subst heq; rw [this.2] at hne; exact hne rfl
      rw [updC_other _ _ _ _ hic]; exact this
  | peerClose c =>
    simp only [apply]
    intro i a r hm
    dsimp only at hm ⊢
    by_cases hic : i = c
    · subst hic; rw [updC_same]; exact ⟨(hd i a r hm).1, rfl⟩
    · rw [updC_other _ _ _ _ hic]; exact hd i a r hm
  | peerRst c =>
    simp only [apply]
    intro i a r hm
    dsimp only at hm ⊢
    by_cases hic : i = c
    · subst hic; rw [updC_same]; exact ⟨(hd i a r hm).1, rfl⟩
    · rw [updC_other _ _ _ _ hic]; exact hd i a r hm
  | wantSend i => simp only [apply]; split <;> exact hd
  | destroy i => exact hd
  | step pipe chunk rx hdl =>
    simp only [apply, stepSockets]
    split
    · exact hd
    · split
      · exact hd
      · rename_i k t hf
        have := firstTask_spec hf
        exact drained_doTask h hd this.1 this.2 chunk rx hdl

theorem drained_run {s : St} (h : DInv s) (hd : Drained s) (ops : List Op) :
    Drained (run Consts.dispatchOrder s ops) := by
  induction ops generalizing s with
  | nil => exact hd
  | cons a as ih => exact ih (inv_apply h a) (drained_apply h hd a)

/-! ### progress measure -/

def connWork (s : St) (c : Nat) : Nat := (s.conn c).inbox.length + (if (s.conn c).ended then 1 else 0)

/-- what the driver still owes socket `k`: undelivered bytes, an unreported close, a requested
write, unaccepted connections (and what those will owe once accepted) -/
def work (s : St) (k : Sock) : Nat :=
  match k.kind with
  | .tcp => connWork s k.id + (if s.wantOut k.id then 1 else 0)
  | .acceptor => ((s.backlog k.id).map (fun x => 1 + connWork s x.1)).sum

def measure (s : St) : Nat := (s.socks.map (work s)).sum

/-- POLLOUT is only ever requested for sockets that were registered -/
def WInv (s : St) : Prop := ∀ i, s.wantOut i = true → i ∈ s.created.map (·.id)

theorem sum_map_le {α} (l : List α) (f g : α → Nat) (h : ∀ x ∈ l, f x ≤ g x) : (l.map f).sum ≤ (l.map g).sum := by
  induction l with
  | nil => simp
  | cons a as ih =>
    simp only [List.map_cons, List.sum_cons]
    have := h a (by simp)
    have := ih (fun x hx => h x (by simp [hx]))
    omega

theorem sum_map_lt {α} (l : List α) (f g : α → Nat) (d : Nat) (h : ∀ x ∈ l, f x ≤ g x) {k : α} (hk : k ∈ l)
    (hd : f k + d ≤ g k) : (l.map f).sum + d ≤ (l.map g).sum := by
  induction l with
  | nil => cases hk
  | cons a as ih =>
    simp only [List.map_cons, List.sum_cons]
    rcases List.mem_cons.mp hk with rfl | hk'
    · have := sum_map_le as f g (fun x hx => h x (by simp [hx]))
      omega
    · have := h a (by simp)
      have := ih (fun x hx => h x (by simp [hx])) hk'
      omega

theorem sum_filter_le {α} (l : List α) (p : α → Bool) (f : α → Nat) : ((l.filter p).map f).sum ≤ (l.map f).sum := by
  induction l with
  | nil => simp
  | cons a as ih =>
    simp only [List.filter_cons]
    split <;> simp only [List.map_cons, List.sum_cons] <;> omega

theorem sum_filter_remove {α} (l : List α) (p : α → Bool) (f : α → Nat) {k : α} (hk : k ∈ l) (hp : p k = false) :
    ((l.filter p).map f).sum + f k ≤ (l.map f).sum := by
  induction l with
  | nil => cases hk
  | cons a as ih =>
    simp only [List.filter_cons]
    rcases List.mem_cons.mp hk with rfl | hk'
    · rw [hp]
      simp only [Bool.false_eq_true, ↓reduceIte, List.map_cons, List.sum_cons]
      have := sum_filter_le as p f
      omega
    · have := ih hk'
      split <;> simp only [List.map_cons, List.sum_cons] <;> omega

theorem measure_destroyAll_le (s : St) (ids : List Nat) : measure (destroyAll s ids) ≤ measure s := by
  induction ids generalizing s with
  | nil => exact Nat.le_refl _
  | cons i is ih =>
    have h1 := ih (unregister s i)
    simp only [destroyAll, List.foldl_cons] at h1 ⊢
    refine Nat.le_trans h1 ?_
    have hw : work (unregister s i) = work s := by
      funext k; rfl
    simp only [measure, hw, unregister_socks]
    exact sum_filter_le _ _ _

theorem firstTask_some {order : List Nat} {s : St} {l : List Sock} {k : Sock} (hk : k ∈ l)
    (hp : (pick order (s.revents k)).isSome = true) : (firstTask order s l).isSome = true := by
  induction l with
  | nil => cases hk
  | cons x xs ih =>
    simp only [firstTask]
    split
    · rfl
    · rename_i hnone
      rcases List.mem_cons.mp hk with rfl | hk'
      · rw [hnone] at hp; cases hp
      · exact ih hk'

theorem exists_work_pos {l : List Sock} {f : Sock → Nat} (h : 0 < (l.map f).sum) : ∃ k ∈ l, 0 < f k := by
  induction l with
  | nil => simp at h
  | cons a as ih =>
    simp only [List.map_cons, List.sum_cons] at h
    by_cases ha : 0 < f a
    · exact ⟨a, by simp, ha⟩
    · have : 0 < (as.map f).sum := by omega
      obtain ⟨k, hk, hf⟩ := ih this
      exact ⟨k, by simp [hk], hf⟩

theorem work_flag {s : St} {k : Sock} (h : 0 < work s k) :
    (s.revents k).pin = true ∨ (s.revents k).pout = true ∨ (s.revents k).perr = true := by
  unfold work at h
  cases hkind : k.kind with
  | tcp =>
    simp only [hkind, connWork] at h
    simp only [St.revents, hkind]
    by_cases hw : s.wantOut k.id = true
    · exact Or.inr (Or.inl hw)
    · left
      simp only [hw, Bool.false_eq_true, ↓reduceIte, Nat.add_zero] at h
      cases he : (s.conn k.id).ended with
      | true => simp
      | false =>
        simp only [he, Bool.false_eq_true, ↓reduceIte, Nat.add_zero] at h
        cases hi : (s.conn k.id).inbox with
        | nil => rw [hi] at h; simp at h
        | cons a as => simp
  | acceptor =>
    simp only [hkind] at h
    simp only [St.revents, hkind]
    left
    cases hb : s.backlog k.id with
    | nil => rw [hb] at h; simp at h
    | cons a as => simp

theorem connWork_congr {s s' : St} (h : s'.conn = s.conn) (c : Nat) : connWork s' c = connWork s c := by
  simp only [connWork, h]

theorem work_congr {s s' : St} (hc : s'.conn = s.conn) (hb : s'.backlog = s.backlog) (hw : s'.wantOut = s.wantOut) :
    work s' = work s := by
  funext k
  simp only [work, connWork, hc, hb, hw]

theorem progress_disconnect {s : St} {k : Sock} (hk : k ∈ s.socks) (hkind : k.kind = .tcp)
    (hend : (s.conn k.id).ended = true) (r : Reason) (hdl : List Nat) :
    measure (disconnect s k r hdl) < measure s := by
  unfold disconnect
  refine Nat.lt_of_le_of_lt (measure_destroyAll_le _ hdl) ?_
  have hw : work { unregister s k.id with log := (unregister s k.id).log ++ [.disconnect k.id k.peerAddr r] } = work s :=
    work_congr rfl rfl rfl
  have hm : measure { unregister s k.id with log := (unregister s k.id).log ++ [.disconnect k.id k.peerAddr r] }
      = ((s.socks.filter (fun x => decide (x.id ≠ k.id))).map (work s)).sum := by
    simp only [measure, hw]; rfl
  rw [hm]
  have := sum_filter_remove s.socks (fun x => decide (x.id ≠ k.id)) (work s) hk (by simp)
  have hwk : 1 ≤ work s k := by
    simp only [work, hkind, connWork, hend, ↓reduceIte]; omega
  simp only [measure]
  omega

/-- a receive that takes `n ≥ 1` bytes from the inbox of `k` -/
theorem progress_data {s s1 : St} {k : Sock} (hk : k ∈ s.socks) (hkind : k.kind = .tcp) (v : Conn) (n : Nat)
    (hs : s1.socks = s.socks) (hb : s1.backlog = s.backlog) (hw : s1.wantOut = s.wantOut)
    (hc : s1.conn = updC s.conn k.id v) (hlen : v.inbox.length + n = (s.conn k.id).inbox.length)
    (hend : v.ended = (s.conn k.id).ended) : measure s1 + n ≤ measure s := by
  have hcw : ∀ c, connWork s1 c ≤ connWork s c := by
    intro c
    simp only [connWork, hc]
    by_cases hcc : c = k.id
    · subst hcc; simp only [updC_same, hend]; omega
    · simp only [updC_other _ _ _ _ hcc]; exact Nat.le_refl _
  have hck : connWork s1 k.id + n = connWork s k.id := by
    simp only [connWork, hc, updC_same, hend]; omega
  simp only [measure, hs]
  apply sum_map_lt s.socks (work s1) (work s) n ?_ hk ?_
  · intro x _
    simp only [work, hb, hw]
    cases x.kind with
    | tcp => have := hcw x.id; simp only; omega
    | acceptor =>
      simp only
      apply sum_map_le
      intro y _
      have := hcw y.1; omega
  · simp only [work, hkind, hw]
    omega

/-- accepting the front connection `c` of acceptor `k` -/
theorem progress_accept {s s1 : St} {k new : Sock} (hk : k ∈ s.socks) (hkind : k.kind = .acceptor)
    {c addr : Nat} {rest : List (Nat × Nat)} (hbl : s.backlog k.id = (c, addr) :: rest)
    (hnew : new.id = c ∧ new.kind = .tcp) (hwc : s.wantOut c = false)
    (hs : s1.socks = s.socks ++ [new]) (hb : s1.backlog = updB s.backlog k.id rest) (hw : s1.wantOut = s.wantOut)
    (hc : s1.conn = s.conn) : measure s1 + 1 ≤ measure s := by
  have hcw : ∀ y, connWork s1 y = connWork s y := connWork_congr hc
  simp only [measure, hs, List.map_append, List.map_cons, List.map_nil, List.sum_append, List.sum_cons, List.sum_nil]
  have hn : work s1 new = connWork s c := by
    simp only [work, hnew.2, hnew.1, hcw, hw, hwc]; simp
  rw [hn]
  have := sum_map_lt s.socks (work s1) (work s) (1 + connWork s c) ?_ hk ?_
  · omega
  · intro x _
    simp only [work, hw, hcw]
    cases x.kind with
    | tcp => exact Nat.le_refl _
    | acceptor =>
      simp only [hb]
      by_cases hx : x.id = k.id
      · rw [hx, updB_same, hbl]
        simp only [List.map_cons, List.sum_cons]; omega
      · rw [updB_other _ _ _ _ hx]; exact Nat.le_refl _
  · simp only [work, hkind, hb, hcw]
    rw [updB_same, hbl]
    simp only [List.map_cons, List.sum_cons]; omega

theorem progress_writable {s s1 : St} {k : Sock} (hk : k ∈ s.socks) (hkind : k.kind = .tcp)
    (hwant : s.wantOut k.id = true)
    (hs : s1.socks = s.socks) (hb : s1.backlog = s.backlog) (hw : s1.wantOut = updB s.wantOut k.id false)
    (hc : s1.conn = s.conn) : measure s1 + 1 ≤ measure s := by
  have hcw : ∀ y, connWork s1 y = connWork s y := connWork_congr hc
  simp only [measure, hs]
  apply sum_map_lt s.socks _ (work s) 1 ?_ hk ?_
  · intro x _
    simp only [work, hcw, hb, hw]
    cases x.kind with
    | tcp =>
      simp only
      by_cases hx : x.id = k.id
      · simp only [hx, updB_same]; simp
      · simp only [updB_other _ _ _ _ hx]; exact Nat.le_refl _
    | acceptor => exact Nat.le_refl _
  · simp only [work, hkind, hcw, hw, updB_same, hwant]; simp

theorem progress_doTask {order : List Nat} {s : St} (h : DInv s) (hw : WInv s) {k : Sock} {t : Task}
    (hk : k ∈ s.socks) (hp : pick order (s.revents k) = some t) (chunk rx : Nat) (hdl : List Nat) :
    measure (doTask s k t chunk rx hdl) < measure s := by
  cases t with
  | readable =>
    have hpin := pick_readable hp
    cases hkind : k.kind with
    | tcp =>
      simp only [St.revents, hkind, Bool.or_eq_true, Bool.not_eq_true'] at hpin
      simp only [doTask, hkind, driverReceive]
      split
      · rename_i hemp
        apply progress_disconnect hk hkind
        rcases hpin with hpin | hpin
        · rw [hemp] at hpin; cases hpin
        · exact hpin
      · rename_i hne
        refine Nat.lt_of_le_of_lt (measure_destroyAll_le _ hdl) ?_
        have hlen : 1 ≤ (s.conn k.id).inbox.length := by
          cases hx : (s.conn k.id).inbox with
          | nil => simp [hx] at hne
          | cons a as => simp
        have hb := chunkLen_bounds (chunk := chunk) (h.rxPos k (h.sub k hk)) hlen
        show _ + 1 ≤ _
        refine Nat.le_trans (Nat.add_le_add_left hb.1 _) ?_
        exact progress_data hk hkind _ _ rfl rfl rfl rfl (by simp only [List.length_drop]; omega) rfl
    | acceptor =>
      simp only [St.revents, hkind] at hpin
      simp only [doTask, hkind, driverConnect]
      split
      · rename_i hb; rw [hb] at hpin; simp at hpin
      · rename_i c addr rest hb
        refine Nat.lt_of_le_of_lt (measure_destroyAll_le _ hdl) ?_
        have hfresh := h.blFresh k.id (c, addr) (by rw [hb]; simp)
        have hwc : s.wantOut c = false := by
          cases hx : s.wantOut c with
          | false => rfl
          | true => exact absurd (hw c hx) hfresh.2
        exact progress_accept (new := ⟨c, .tcp, max 1 rx, addr⟩) hk hkind hb ⟨rfl, rfl⟩ hwc rfl rfl rfl rfl
  | writable =>
    have hpout := pick_writable hp
    cases hkind : k.kind with
    | acceptor => simp [St.revents, hkind] at hpout
    | tcp =>
      simp only [St.revents, hkind] at hpout
      simp only [doTask]
      exact progress_writable hk hkind hpout rfl rfl rfl rfl
  | error =>
    have hperr := pick_error hp
    cases hkind : k.kind with
    | acceptor => simp [St.revents, hkind] at hperr
    | tcp =>
      simp only [St.revents, hkind] at hperr
      simp only [doTask, hkind]
      exact progress_disconnect hk hkind (h.rstEnded k.id hperr) _ hdl

theorem doTask_wantOut {s : St} {k : Sock} {t : Task} (chunk rx : Nat) (hdl : List Nat) (j : Nat)
    (hj : (doTask s k t chunk rx hdl).wantOut j = true) : s.wantOut j = true := by
  cases t with
  | readable =>
    cases hkind : k.kind with
    | tcp =>
      simp only [doTask, hkind, driverReceive, disconnect] at hj
      split at hj <;> (rw [(destroyAll_fields _ hdl).2.2.1] at hj; exact hj)
    | acceptor =>
      simp only [doTask, hkind, driverConnect] at hj
      split at hj
      · exact hj
      · rw [(destroyAll_fields _ hdl).2.2.1] at hj; exact hj
  | writable =>
    simp only [doTask] at hj
    by_cases hjk : j = k.id
    · subst hjk; simp only [updB_same] at hj; cases hj
    · simp only [updB_other _ _ _ _ hjk] at hj; exact hj
  | error =>
    cases hkind : k.kind with
    | tcp =>
      simp only [doTask, hkind, disconnect] at hj
      rw [(destroyAll_fields _ hdl).2.2.1] at hj; exact hj
    | acceptor => simp only [doTask, hkind] at hj; exact hj

theorem doTask_created {s : St} {k : Sock} {t : Task} (chunk rx : Nat) (hdl : List Nat) (x : Sock)
    (hx : x ∈ s.created) : x ∈ (doTask s k t chunk rx hdl).created := by
  cases t with
  | readable =>
    cases hkind : k.kind with
    | tcp =>
      simp only [doTask, hkind, driverReceive, disconnect]
      split <;> (rw [(destroyAll_fields _ hdl).2.2.2.2.2.1]; exact hx)
    | acceptor =>
      simp only [doTask, hkind, driverConnect]
      split
      · exact hx
      · rw [(destroyAll_fields _ hdl).2.2.2.2.2.1]; exact List.mem_append_left _ hx
  | writable => exact hx
  | error =>
    cases hkind : k.kind with
    | tcp =>
      simp only [doTask, hkind, disconnect]
      rw [(destroyAll_fields _ hdl).2.2.2.2.2.1]; exact hx
    | acceptor => simp only [doTask, hkind]; exact hx

theorem winv_apply {order : List Nat} {s : St} (h : DInv s) (hw : WInv s) (op : Op) : WInv (apply order s op) := by
  have mono : ∀ s' : St, s'.wantOut = s.wantOut → (∀ x ∈ s.created, x ∈ s'.created) → WInv s' := by
    intro s' h1 h2 i hi
    rw [h1] at hi
    obtain ⟨x, hx, rfl⟩ := List.mem_map.mp (hw i hi)
    exact List.mem_map_of_mem (h2 x hx)
  cases op with
  | newClient addr rx => exact mono _ rfl (fun x hx => List.mem_append_left _ hx)
  | newAcceptor => exact mono _ rfl (fun x hx => List.mem_append_left _ hx)
  | peerConnect a addr => simp only [apply]; split <;> exact mono _ rfl (fun x hx => hx)
  | peerSend c bytes => simp only [apply]; split <;> exact mono _ rfl (fun x hx => hx)
  | peerClose c => exact mono _ rfl (fun x hx => hx)
  | peerRst c => exact mono _ rfl (fun x hx => hx)
  | wantSend i =>
    simp only [apply]
    split
    · rename_i hany
      intro j hj
      dsimp only at hj ⊢
      by_cases hji : j = i
      · subst hji
        simp only [List.any_eq_true, decide_eq_true_eq] at hany
        obtain ⟨x, hx, rfl⟩ := hany
        exact List.mem_map_of_mem (h.sub x hx)
      · simp only [updB_other _ _ _ _ hji] at hj; exact hw j hj
    · exact hw
  | destroy i => exact mono _ rfl (fun x hx => hx)
  | step pipe chunk rx hdl =>
    simp only [apply, stepSockets]
    split
    · exact hw
    · split
      · exact hw
      · rename_i k t hf
        intro i hi
        obtain ⟨x, hx, rfl⟩ := List.mem_map.mp (hw i (doTask_wantOut chunk rx hdl i hi))
        exact List.mem_map_of_mem (doTask_created chunk rx hdl x hx)

theorem winv_run {order : List Nat} {s : St} (h : DInv s) (hw : WInv s) (ops : List Op) : WInv (run order s ops) := by
  induction ops generalizing s with
  | nil => exact hw
  | cons a as ih => exact ih (inv_apply h a) (winv_apply h hw a)

end SockModel.Dispatch

import SockModel.Model.Locks
/-! The inductive invariant of the locking protocol. -/
namespace SockModel.Locks

theorem inv_init : LInv init := by
  refine ⟨by simp [init, DPc.ownsStep], by intro t; simp [init, UPc.ownsStep], by simp [init, DPc.ownsPause],
    by intro t; simp [init, UPc.ownsPause], by intro t h; simp [init] at h, by intro h; simp [init] at h⟩

/-- frame lemma: a user transition of thread `t` that leaves the mutex ownership of `t` unchanged -/
theorem frameU {s : St} {t : Tid} {p : UPc} (f : Tid → Bool) (g : UPc → Bool) (o : Owner)
    (hold : ∀ x, g (s.u x) = true ↔ o = .usr x) (hsame : g p = g (s.u t)) :
    ∀ x, g ((s.setU t p).u x) = true ↔ o = .usr x := by
  intro x
  by_cases hx : x = t
  · subst hx; rw [setU_same, hsame]; exact hold x
  · rw [setU_other _ _ _ _ hx]; exact hold x

theorem inv_step {s s' : St} {b : Bool} (h : LInv s) (tr : Tr s b s') : LInv s' := by
  obtain ⟨hsD, hsU, hpD, hpU, hw, hst⟩ := h
  cases tr with
  | dRunEnter hd =>
    refine ⟨?_, hsU, ?_, hpU, ?_, ?_⟩
    · simp only [DPc.ownsStep]; rw [hd] at hsD; simpa [DPc.ownsStep] using hsD
    · simp only [DPc.ownsPause]; rw [hd] at hpD; simpa [DPc.ownsPause] using hpD
    · intro t ht; have := hw t ht; rw [hd] at this; simpa [DPc.leaving] using this
    · intro _ _ hr; simp [DPc.runBeforeWake] at hr
  | dRunExit hd hs =>
    refine ⟨?_, hsU, ?_, hpU, ?_, ?_⟩
    · simp only [DPc.ownsStep]; rw [hd] at hsD; simpa [DPc.ownsStep] using hsD
    · simp only [DPc.ownsPause]; rw [hd] at hpD; simpa [DPc.ownsPause] using hpD
    · intro t ht; have := hw t ht; rw [hd] at this; simpa [DPc.leaving] using this
    · intro h; simp at h
  | dRunGo hd hs =>
    refine ⟨?_, hsU, ?_, hpU, ?_, ?_⟩
    · simp only [DPc.ownsStep]; rw [hd] at hsD; simpa [DPc.ownsStep] using hsD
    · simp only [DPc.ownsPause]; rw [hd] at hpD; simpa [DPc.ownsPause] using hpD
    · intro t ht; have := hw t ht; rw [hd] at this; simpa [DPc.leaving] using this
    · intro h; simp only at h; rw [hs] at h; cases h
  | dStepEnter hd =>
    refine ⟨?_, hsU, ?_, hpU, ?_, ?_⟩
    · simp only [DPc.ownsStep]; rw [hd] at hsD; simpa [DPc.ownsStep] using hsD
    · simp only [DPc.ownsPause]; rw [hd] at hpD; simpa [DPc.ownsPause] using hpD
    · intro t ht; have := hw t ht; rw [hd] at this; simpa [DPc.leaving] using this
    · intro _ _ hr; simp [DPc.runBeforeWake] at hr
  | dLockStep hd hs =>
    rename_i r
    refine ⟨by simp [DPc.ownsStep], ?_, ?_, hpU, ?_, ?_⟩
    · intro t; simp only
      have := hsU t; rw [hs] at this
      constructor
      · intro h'; exact absurd (this.mp h') (by simp)
      · intro h'; cases h'
    · simp only [DPc.ownsPause]; rw [hd] at hpD; simpa [DPc.ownsPause] using hpD
    · intro t ht; have := hw t ht; rw [hd] at this; simpa [DPc.leaving] using this
    · intro h1 h2 h3
      simp only at h1 h3
      apply hst h1 h2
      rw [hd]; cases r <;> simp_all [DPc.runBeforeWake]
  | dToPoll hd =>
    rename_i r
    refine ⟨?_, hsU, ?_, hpU, ?_, ?_⟩
    · simp only [DPc.ownsStep]; rw [hd] at hsD; simpa [DPc.ownsStep] using hsD
    · simp only [DPc.ownsPause]; rw [hd] at hpD; simpa [DPc.ownsPause] using hpD
    · intro t ht; have := hw t ht; rw [hd] at this; simpa [DPc.leaving] using this
    · intro h1 h2 h3
      simp only at h1 h3
      apply hst h1 h2
      rw [hd]; cases r <;> simp_all [DPc.runBeforeWake]
  | dPollPipe hd hp =>
    refine ⟨?_, hsU, ?_, hpU, ?_, ?_⟩
    · simp only [DPc.ownsStep]; rw [hd] at hsD; simpa [DPc.ownsStep] using hsD
    · simp only [DPc.ownsPause]; rw [hd] at hpD; simpa [DPc.ownsPause] using hpD
    · intro t _; left; simp [DPc.leaving]
    · intro _ _ hr; simp [DPc.runBeforeWake] at hr
  | dPollOther hd hp =>
    refine ⟨?_, hsU, ?_, hpU, ?_, ?_⟩
    · simp only [DPc.ownsStep]; rw [hd] at hsD; simpa [DPc.ownsStep] using hsD
    · simp only [DPc.ownsPause]; rw [hd] at hpD; simpa [DPc.ownsPause] using hpD
    · intro t _; left; simp [DPc.leaving]
    · intro _ _ hr; simp [DPc.runBeforeWake] at hr
  | dUnlockStep hd =>
    refine ⟨by simp [DPc.ownsStep], ?_, ?_, hpU, ?_, ?_⟩
    · intro t; simp only
      have hdrv : s.step = .drv := hsD.mp (by rw [hd]; rfl)
      have := hsU t; rw [hdrv] at this
      constructor
      · intro h'; exact absurd (this.mp h') (by simp)
      · intro h'; cases h'
    · simp only [DPc.ownsPause]; rw [hd] at hpD; simpa [DPc.ownsPause] using hpD
    · intro t _; left; simp [DPc.leaving]
    · intro _ _ hr; simp [DPc.runBeforeWake] at hr
  | dLockPause hd hp =>
    refine ⟨?_, hsU, by simp [DPc.ownsPause], ?_, ?_, ?_⟩
    · simp only [DPc.ownsStep]; rw [hd] at hsD; simpa [DPc.ownsStep] using hsD
    · intro t; simp only
      have := hpU t; rw [hp] at this
      constructor
      · intro h'; exact absurd (this.mp h') (by simp)
      · intro h'; cases h'
    · intro t ht
      have := (hpU t).mp (by rw [ht]; rfl)
      rw [hp] at this; cases this
    · intro _ _ hr; simp [DPc.runBeforeWake] at hr
  | dUnlockPause hd =>
    rename_i r
    have hdrv : s.pause = .drv := hpD.mp (by rw [hd]; rfl)
    refine ⟨?_, hsU, ?_, ?_, ?_, ?_⟩
    · simp only; rw [hd] at hsD
      cases r <;> simpa [DPc.ownsStep] using hsD
    · simp only; cases r <;> simp [DPc.ownsPause]
    · intro t; simp only
      have := hpU t; rw [hdrv] at this
      constructor
      · intro h'; exact absurd (this.mp h') (by simp)
      · intro h'; cases h'
    · intro t ht
      have := (hpU t).mp (by rw [ht]; rfl)
      rw [hdrv] at this; cases this
    · intro _ _ hr; simp only at hr; cases r <;> simp [DPc.runBeforeWake] at hr
  | dStop =>
    refine ⟨hsD, hsU, hpD, hpU, ?_, ?_⟩
    · intro t _; right; simp
    · intro _ _ _; simp
  | uTryOk hu hs =>
    rename_i t
    refine ⟨?_, ?_, hpD, ?_, ?_, ?_⟩
    · simp only [setU_d, setU_step]
      constructor
      · intro h'; have := hsD.mp h'; rw [hs] at this; cases this
      · intro h'; cases h'
    · intro x
      by_cases hx : x = t
      · subst hx; simp [UPc.ownsStep]
      · rw [setU_other _ _ _ _ hx]; simp only [setU_step]
        have := hsU x; rw [hs] at this
        constructor
        · intro h'; exact absurd (this.mp h') (by simp)
        · intro h'; cases h'; exact absurd rfl hx
    · exact frameU (fun _ => true) UPc.ownsPause s.pause hpU (by rw [hu]; rfl)
    · intro x hx'
      by_cases hx : x = t
      · subst hx; simp at hx'
      · rw [setU_other _ _ _ _ hx] at hx'; exact hw x hx'
    · intro h1 h2 h3
      apply hst h1 _ h3
      intro x
      by_cases hx : x = t
      · subst hx; rw [hu]; simp
      · have := h2 x; rw [setU_other _ _ _ _ hx] at this; exact this
  | uTryFail hu hs =>
    rename_i t
    refine ⟨hsD, ?_, hpD, ?_, ?_, ?_⟩
    · exact frameU (fun _ => true) UPc.ownsStep s.step hsU (by rw [hu]; rfl)
    · exact frameU (fun _ => true) UPc.ownsPause s.pause hpU (by rw [hu]; rfl)
    · intro x hx'
      by_cases hx : x = t
      · subst hx; simp at hx'
      · rw [setU_other _ _ _ _ hx] at hx'; exact hw x hx'
    · intro h1 h2 h3
      apply hst h1 _ h3
      intro x
      by_cases hx : x = t
      · subst hx; rw [hu]; simp
      · have := h2 x; rw [setU_other _ _ _ _ hx] at this; exact this
  | uLockPause hu hp =>
    rename_i t
    refine ⟨hsD, ?_, ?_, ?_, ?_, ?_⟩
    · exact frameU (fun _ => true) UPc.ownsStep s.step hsU (by rw [hu]; rfl)
    · simp only [setU_d, setU_pause]
      constructor
      · intro h'; have := hpD.mp h'; rw [hp] at this; cases this
      · intro h'; cases h'
    · intro x
      by_cases hx : x = t
      · subst hx; simp [UPc.ownsPause]
      · rw [setU_other _ _ _ _ hx]; simp only [setU_pause]
        have := hpU x; rw [hp] at this
        constructor
        · intro h'; exact absurd (this.mp h') (by simp)
        · intro h'; cases h'; exact absurd rfl hx
    · intro x hx'
      by_cases hx : x = t
      · subst hx; simp at hx'
      · rw [setU_other _ _ _ _ hx] at hx'; exact hw x hx'
    · intro h1 h2 h3
      apply hst h1 _ h3
      intro x
      by_cases hx : x = t
      · subst hx; rw [hu]; simp
      · have := h2 x; rw [setU_other _ _ _ _ hx] at this; exact this
  | uBump hu =>
    rename_i t
    refine ⟨hsD, ?_, hpD, ?_, ?_, ?_⟩
    · exact frameU (fun _ => true) UPc.ownsStep s.step hsU (by rw [hu]; rfl)
    · exact frameU (fun _ => true) UPc.ownsPause s.pause hpU (by rw [hu]; rfl)
    · intro x _; right; simp
    · intro _ _ _; simp
  | uLockStep hu hs =>
    rename_i t
    refine ⟨?_, ?_, hpD, ?_, ?_, ?_⟩
    · simp only [setU_d, setU_step]
      constructor
      · intro h'; have := hsD.mp h'; rw [hs] at this; cases this
      · intro h'; cases h'
    · intro x
      by_cases hx : x = t
      · subst hx; simp [UPc.ownsStep]
      · rw [setU_other _ _ _ _ hx]; simp only [setU_step]
        have := hsU x; rw [hs] at this
        constructor
        · intro h'; exact absurd (this.mp h') (by simp)
        · intro h'; cases h'; exact absurd rfl hx
    · exact frameU (fun _ => true) UPc.ownsPause s.pause hpU (by rw [hu]; rfl)
    · intro x hx'
      by_cases hx : x = t
      · subst hx; simp at hx'
      · rw [setU_other _ _ _ _ hx] at hx'; exact hw x hx'
    · intro h1 h2 h3
      apply hst h1 _ h3
      intro x
      by_cases hx : x = t
      · subst hx; rw [hu]; simp
      · have := h2 x; rw [setU_other _ _ _ _ hx] at this; exact this
  | uRelPause hu =>
    rename_i t
    have hownP : s.pause = .usr t := (hpU t).mp (by rw [hu]; rfl)
    refine ⟨hsD, ?_, ?_, ?_, ?_, ?_⟩
    · exact frameU (fun _ => true) UPc.ownsStep s.step hsU (by rw [hu]; rfl)
    · simp only [setU_d, setU_pause]
      constructor
      · intro h'; have := hpD.mp h'; rw [hownP] at this; cases this
      · intro h'; cases h'
    · intro x
      by_cases hx : x = t
      · subst hx; simp [UPc.ownsPause]
      · rw [setU_other _ _ _ _ hx]; simp only [setU_pause]
        have := hpU x; rw [hownP] at this
        constructor
        · intro h'; have := this.mp h'; cases this; exact absurd rfl hx
        · intro h'; cases h'
    · intro x hx'
      by_cases hx : x = t
      · subst hx; simp at hx'
      · rw [setU_other _ _ _ _ hx] at hx'; exact hw x hx'
    · intro h1 h2 h3
      apply hst h1 _ h3
      intro x
      by_cases hx : x = t
      · subst hx; rw [hu]; simp
      · have := h2 x; rw [setU_other _ _ _ _ hx] at this; exact this
  | uUnlock hu =>
    rename_i t
    have hownS : s.step = .usr t := (hsU t).mp (by rw [hu]; rfl)
    refine ⟨?_, ?_, hpD, ?_, ?_, ?_⟩
    · simp only [setU_d, setU_step]
      constructor
      · intro h'; have := hsD.mp h'; rw [hownS] at this; cases this
      · intro h'; cases h'
    · intro x
      by_cases hx : x = t
      · subst hx; simp [UPc.ownsStep]
      · rw [setU_other _ _ _ _ hx]; simp only [setU_step]
        have := hsU x; rw [hownS] at this
        constructor
        · intro h'; have := this.mp h'; cases this; exact absurd rfl hx
        · intro h'; cases h'
    · exact frameU (fun _ => true) UPc.ownsPause s.pause hpU (by rw [hu]; rfl)
    · intro x hx'
      by_cases hx : x = t
      · subst hx; simp at hx'
      · rw [setU_other _ _ _ _ hx] at hx'; exact hw x hx'
    · intro h1 h2 h3
      apply hst h1 _ h3
      intro x
      by_cases hx : x = t
      · subst hx; rw [hu]; simp
      · have := h2 x; rw [setU_other _ _ _ _ hx] at this; exact this
  | uStopSet hu =>
    rename_i t
    refine ⟨hsD, ?_, hpD, ?_, ?_, ?_⟩
    · exact frameU (fun _ => true) UPc.ownsStep s.step hsU (by rw [hu]; rfl)
    · exact frameU (fun _ => true) UPc.ownsPause s.pause hpU (by rw [hu]; rfl)
    · intro x hx'
      by_cases hx : x = t
      · subst hx; simp at hx'
      · rw [setU_other _ _ _ _ hx] at hx'; exact hw x hx'
    · intro _ h2 _
      have := h2 t; simp at this
  | uStopBump hu =>
    rename_i t
    refine ⟨hsD, ?_, hpD, ?_, ?_, ?_⟩
    · exact frameU (fun _ => true) UPc.ownsStep s.step hsU (by rw [hu]; rfl)
    · exact frameU (fun _ => true) UPc.ownsPause s.pause hpU (by rw [hu]; rfl)
    · intro x _; right; simp
    · intro _ _ _; simp

theorem inv_reach {s : St} (h : Reach s) : LInv s := by
  induction h with
  | init => exact inv_init
  | step _ tr ih => exact inv_step ih tr


theorem kept_init : Kept init := by
  intro h; rcases h with h | ⟨t, h⟩ <;> simp [init] at h

theorem kept_step {s s' : St} {b : Bool} (h : Kept s) (tr : Tr s b s') : Kept s' := by
  unfold Kept at *
  cases tr with
  | dRunExit hd hs => intro _; right; simp
  | dStop => intro _; left; rfl
  | uStopSet hu => intro _; left; rfl
  | uStopBump hu =>
    rename_i t
    intro _
    have := h (Or.inr ⟨t, hu⟩)
    simpa using this
  | dRunEnter hd => simpa using h
  | dRunGo hd hs => simpa using h
  | dStepEnter hd => simpa using h
  | dLockStep hd hs => simpa using h
  | dToPoll hd => simpa using h
  | dPollPipe hd hp => simpa using h
  | dPollOther hd hp => simpa using h
  | dUnlockStep hd => simpa using h
  | dLockPause hd hp => simpa using h
  | dUnlockPause hd => simpa using h
  | uTryOk hu hs =>
    rename_i t
    intro h'
    apply h
    rcases h' with h' | ⟨x, hx⟩
    · exact Or.inl (by simpa using h')
    · right; refine ⟨x, ?_⟩
      by_cases hxt : x = t
      · subst hxt; simp at hx
      · rwa [setU_other _ _ _ _ hxt] at hx
  | uTryFail hu hs =>
    rename_i t
    intro h'
    apply h
    rcases h' with h' | ⟨x, hx⟩
    · exact Or.inl (by simpa using h')
    · right; refine ⟨x, ?_⟩
      by_cases hxt : x = t
      · subst hxt; simp at hx
      · rwa [setU_other _ _ _ _ hxt] at hx
  | uLockPause hu hp =>
    rename_i t
    intro h'
    apply h
    rcases h' with h' | ⟨x, hx⟩
    · exact Or.inl (by simpa using h')
    · right; refine ⟨x, ?_⟩
      by_cases hxt : x = t
      · subst hxt; simp at hx
      · rwa [setU_other _ _ _ _ hxt] at hx
  | uBump hu =>
    rename_i t
    intro h'
    apply h
    rcases h' with h' | ⟨x, hx⟩
    · exact Or.inl (by simpa using h')
    · right; refine ⟨x, ?_⟩
      by_cases hxt : x = t
      · subst hxt; simp at hx
      · rwa [setU_other _ _ _ _ hxt] at hx
  | uLockStep hu hs =>
    rename_i t
    intro h'
    apply h
    rcases h' with h' | ⟨x, hx⟩
    · exact Or.inl (by simpa using h')
    · right; refine ⟨x, ?_⟩
      by_cases hxt : x = t
      · subst hxt; simp at hx
      · rwa [setU_other _ _ _ _ hxt] at hx
  | uRelPause hu =>
    rename_i t
    intro h'
    apply h
    rcases h' with h' | ⟨x, hx⟩
    · exact Or.inl (by simpa using h')
    · right; refine ⟨x, ?_⟩
      by_cases hxt : x = t
      · subst hxt; simp at hx
      · rwa [setU_other _ _ _ _ hxt] at hx
  | uUnlock hu =>
    rename_i t
    intro h'
    apply h
    rcases h' with h' | ⟨x, hx⟩
    · exact Or.inl (by simpa using h')
    · right; refine ⟨x, ?_⟩
      by_cases hxt : x = t
      · subst hxt; simp at hx
      · rwa [setU_other _ _ _ _ hxt] at hx

theorem kept_reach {s : St} (h : Reach s) : Kept s := by
  induction h with
  | init => exact kept_init
  | step _ tr ih => exact kept_step ih tr

end SockModel.Locks

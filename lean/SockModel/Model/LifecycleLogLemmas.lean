import SockModel.Model.LifecycleLemmas
/-! What the lifecycle machine (`Model/Lifecycle.lean`) writes to its log, per transition: the shape of
the handler events (`Tr`), the link between logged future events and future states (`LogInv`), and the
destruction sequence at the end of a history.  Used by `Spec/C17.lean`. -/
namespace SockModel.Lifecycle

def isFutEv : Ev → Bool
  | .fut .. => true
  | _ => false

def futKey : Ev → Nat
  | .fut id _ => id
  | _ => 0

def futId? : Ev → Option Nat
  | .fut id _ => some id
  | _ => none

/-- the handler events of a piece of log -/
def hEvents (D : List Ev) : List Ev := D.filter (fun e => !isFutEv e)

theorem hEvents_append (a b : List Ev) : hEvents (a ++ b) = hEvents a ++ hEvents b := by
  simp [hEvents]

theorem hEvents_broken (l : List Nat) : hEvents (l.map fun id => Ev.fut id .broken).reverse = [] := by
  simp only [hEvents, List.filter_eq_nil_iff, List.mem_reverse, List.mem_map]
  rintro e ⟨id, _, rfl⟩
  simp [isFutEv]

/-! ### `Tr`: what one transition does to log, socket identities and futures -/

structure Tr (s s' : St) (H : List Ev) : Prop where
  /-- the log only grows; `H` = the handler events it grew by (newest first) -/
  grow : ∃ D, s'.log = D ++ s.log ∧ hEvents D = H
  frame : ∀ j, (s'.sock j).present = (s.sock j).present ∧ (s'.sock j).onDisc = (s.sock j).onDisc ∧
    ((s'.sock j).alive = true → (s.sock j).alive = true)
  futs : ∀ id x st, s.futs id = some (x, st) → ∃ st', s'.futs id = some (x, st')
  nfut : s'.nfut = s.nfut

theorem Tr.refl (s : St) : Tr s s [] :=
  ⟨⟨[], rfl, rfl⟩, fun _ => ⟨rfl, rfl, id⟩, fun _ _ st h => ⟨st, h⟩, rfl⟩

theorem Tr.trans {s s' s'' : St} {H1 H2 : List Ev} (h1 : Tr s s' H1) (h2 : Tr s' s'' H2) : Tr s s'' (H2 ++ H1) := by
  obtain ⟨D1, hl1, hh1⟩ := h1.grow
  obtain ⟨D2, hl2, hh2⟩ := h2.grow
  refine ⟨⟨D2 ++ D1, by rw [hl2, hl1, List.append_assoc], by rw [hEvents_append, hh1, hh2]⟩, ?_, ?_, ?_⟩
  · intro j
    obtain ⟨a1, b1, c1⟩ := h1.frame j
    obtain ⟨a2, b2, c2⟩ := h2.frame j
    exact ⟨a2.trans a1, b2.trans b1, fun h => c1 (c2 h)⟩
  · intro id x st h
    obtain ⟨st', h'⟩ := h1.futs id x st h
    exact h2.futs id x st' h'
  · exact h2.nfut.trans h1.nfut

theorem Tr.same {s s' : St} (hl : s'.log = s.log) (hs : s'.sock = s.sock) (hf : s'.futs = s.futs)
    (hn : s'.nfut = s.nfut) : Tr s s' [] :=
  ⟨⟨[], by simpa using hl, rfl⟩, fun j => by rw [hs]; exact ⟨rfl, rfl, id⟩, fun _ _ st h => ⟨st, by rw [hf]; exact h⟩, hn⟩

theorem Tr.fail (s : St) (why : String) : Tr s (s.fail why) [] := Tr.same rfl rfl rfl rfl
theorem Tr.setDrv (s : St) (d : Nat) (v : Drv) : Tr s (s.setDrv d v) [] := Tr.same rfl rfl rfl rfl
theorem Tr.setTodo (s : St) (t : Nat) (v : Todo) : Tr s (s.setTodo t v) [] := Tr.same rfl rfl rfl rfl

theorem Tr.emit (s : St) (e : Ev) (he : isFutEv e = false) : Tr s (s.emit e) [e] :=
  ⟨⟨[e], rfl, by simp [hEvents, he]⟩, fun _ => ⟨rfl, rfl, id⟩, fun _ _ st h => ⟨st, h⟩, rfl⟩

theorem Tr.setSock (s : St) (i : Nat) (k : Sock) (hp : k.present = (s.sock i).present)
    (ho : k.onDisc = (s.sock i).onDisc) (ha : k.alive = true → (s.sock i).alive = true) : Tr s (s.setSock i k) [] := by
  refine ⟨⟨[], rfl, rfl⟩, ?_, fun _ _ st h => ⟨st, h⟩, rfl⟩
  intro j
  by_cases hj : j = i
  · subst hj; simp only [setSock_same]; exact ⟨hp, ho, ha⟩
  · rw [setSock_other _ _ hj]; exact ⟨rfl, rfl, id⟩

theorem Tr.resolve (s : St) (id : Nat) (v : Fut) : Tr s (s.resolve id v) [] := by
  refine ⟨⟨[.fut id v], rfl, by simp [hEvents, isFutEv]⟩, fun _ => ⟨rfl, rfl, fun h => h⟩, ?_, rfl⟩
  intro j x st h
  show ∃ st', (if j = id then (s.futs id).map (fun (p : Nat × Fut) => (p.1, v)) else s.futs j) = some (x, st')
  split
  · rename_i e; subst e; rw [h]; exact ⟨v, rfl⟩
  · exact ⟨st, h⟩

theorem destroySockObj_dead (s : St) (i : Nat) : ((s.destroySockObj i).sock i).alive = false := by
  unfold St.destroySockObj
  simp

theorem Tr.destroySockObj (s : St) (i : Nat) : Tr s (s.destroySockObj i) [] := by
  unfold St.destroySockObj
  simp only
  generalize hs0 : (if (s.sock i).held > 0 then s.fail "socket destroyed while receive buffers of its pool are still held" else s) = s0
  have e0 : s0.sock = s.sock ∧ s0.futs = s.futs ∧ s0.nfut = s.nfut ∧ s0.log = s.log := by
    subst hs0; split <;> exact ⟨rfl, rfl, rfl, rfl⟩
  generalize hs1 : (if (s0.drv (s.sock i).drv).alive = true then s0.setDrv (s.sock i).drv ((s0.drv (s.sock i).drv).unregister i) else s0) = s1
  have e1 : s1.sock = s.sock ∧ s1.futs = s.futs ∧ s1.nfut = s.nfut ∧ s1.log = s.log := by
    subst hs1; split <;> exact e0
  generalize hs2 : (if (s.sock i).sendQ.any (fun id => !s.echo id) = true ∧ ¬s1.poolAlive = true then s1.fail "send buffer returned to a destroyed pool" else s1) = s2
  have e2 : s2.sock = s.sock ∧ s2.futs = s.futs ∧ s2.nfut = s.nfut ∧ s2.log = s.log := by
    subst hs2; split <;> exact e1
  refine ⟨⟨((s.sock i).sendQ.map fun id => Ev.fut id .broken).reverse, ?_, hEvents_broken _⟩, ?_, ?_, ?_⟩
  · show _ ++ s2.log = _
    rw [e2.2.2.2]
  · intro j
    by_cases hj : j = i
    · subst hj; simp
    · rw [setSock_other _ _ hj]
      show (s2.sock j).present = _ ∧ (s2.sock j).onDisc = _ ∧ ((s2.sock j).alive = true → _)
      rw [e2.1]; exact ⟨rfl, rfl, id⟩
  · intro id x st h
    show ∃ st', (if id ∈ (s.sock i).sendQ then (s2.futs id).map (fun (p : Nat × Fut) => (p.1, Fut.broken)) else s2.futs id) = some (x, st')
    rw [e2.2.1, h]
    split
    · exact ⟨.broken, rfl⟩
    · exact ⟨st, rfl⟩
  · show s2.nfut = s.nfut
    exact e2.2.2.1

theorem Tr.disconnect (s : St) (i : Nat) : Tr s (s.disconnect i) [.disc i] ∧
    ((s.sock i).onDisc = true → ((s.disconnect i).sock i).alive = false) := by
  unfold St.disconnect
  simp only
  generalize hs1 : (if (s.drv (s.sock i).drv).alive = true then s.setDrv (s.sock i).drv ((s.drv (s.sock i).drv).unregister i) else s) = s1
  have h1 : Tr s s1 [] := by subst hs1; split; exact Tr.setDrv _ _ _; exact Tr.refl _
  have h2 : Tr s (s1.emit (.disc i)) [.disc i] := by simpa using h1.trans (Tr.emit s1 (.disc i) rfl)
  split
  · refine ⟨by simpa using h2.trans (Tr.destroySockObj _ i), fun _ => destroySockObj_dead _ i⟩
  · rename_i hod
    exact ⟨h2, fun h => absurd h hod⟩

/-- the handler events of a socket task: none, or one handler of a socket -/
def SockShape (s s' : St) (i : Nat) (H : List Ev) : Prop :=
  H = [] ∨ H = [.recv i] ∨ H = [.recvFrom i] ∨ H = [.conn i] ∨
    (H = [.disc i] ∧ ((s.sock i).onDisc = true → (s'.sock i).alive = false))

theorem Tr.onReadable (s : St) (i : Nat) : ∃ H, Tr s (s.onReadable i) H ∧ SockShape s (s.onReadable i) i H := by
  unfold St.onReadable
  simp only
  have hrecv : ∀ (e : Ev) (k : Sock), isFutEv e = false → k.present = (s.sock i).present → k.onDisc = (s.sock i).onDisc →
      (k.alive = true → (s.sock i).alive = true) → Tr s ((s.emit e).setSock i k) [e] := by
    intro e k he hp ho ha
    simpa using (Tr.emit s e he).trans (Tr.setSock (s.emit e) i k hp ho ha)
  split
  · split
    · split
      · exact ⟨_, (Tr.disconnect s i).1, .inr (.inr (.inr (.inr ⟨rfl, (Tr.disconnect s i).2⟩)))⟩
      · split
        · exact ⟨_, by simpa using (Tr.emit s (.recv i) rfl).trans (Tr.fail _ _), .inr (.inl rfl)⟩
        · exact ⟨_, hrecv (.recv i) _ rfl rfl rfl id, .inr (.inl rfl)⟩
    · exact ⟨_, (Tr.disconnect s i).1, .inr (.inr (.inr (.inr ⟨rfl, (Tr.disconnect s i).2⟩)))⟩
  · split
    · exact ⟨_, Tr.refl s, .inl rfl⟩
    · split
      · exact ⟨_, by simpa using (Tr.emit s (.recvFrom i) rfl).trans (Tr.fail _ _), .inr (.inr (.inl rfl))⟩
      · exact ⟨_, hrecv (.recvFrom i) _ rfl rfl rfl id, .inr (.inr (.inl rfl))⟩
  · exact ⟨_, hrecv (.conn i) _ rfl rfl rfl id, .inr (.inr (.inr (.inl rfl)))⟩

theorem Tr.onWritable (s : St) (i : Nat) : Tr s (s.onWritable i) [] := by
  unfold St.onWritable
  simp only
  split
  · exact Tr.refl s
  · rename_i id rest hq
    generalize (if (s.sock i).kind = .tcp ∧ (s.sock i).failSend = true then Fut.exn
        else if (s.sock i).kind = .tcp ∧ (s.sock i).peer ≠ .up then Fut.either else Fut.value) = v
    generalize (if (s.sock i).kind = .tcp then false else (s.sock i).failSend) = fs
    have h1 : Tr s ((s.resolve id v).setSock i { (s.sock i) with sendQ := rest, failSend := fs }) [] := by
      simpa using (Tr.resolve s id v).trans (Tr.setSock (s.resolve id v) i { (s.sock i) with sendQ := rest, failSend := fs } rfl rfl (fun h => h))
    split
    · simpa using h1.trans (Tr.setDrv _ _ _)
    · exact h1

theorem Tr.runTodo (s : St) (d : Nat) : ∃ H, Tr s (s.runTodo d) H ∧ (H = [] ∨ ∃ t, H = [.todo t]) := by
  unfold St.runTodo
  split
  · exact ⟨_, Tr.refl s, .inl rfl⟩
  · rename_i t rest _
    exact ⟨_, by simpa using (Tr.setDrv s d _).trans (Tr.emit _ (.todo t) rfl), .inr ⟨t, rfl⟩⟩

theorem scan_read_alive (sock : Nat → Sock) : ∀ (l : List Nat) (p : List (Nat × Bool)) (i : Nat),
    scan sock l p = .ok (some (.read i)) → (sock i).alive = true := by
  intro l
  induction l with
  | nil => intro p i h; cases p <;> simp [scan] at h
  | cons x xs ih =>
    intro p i h
    cases p with
    | nil => simp [scan] at h
    | cons a as =>
      unfold scan at h
      split at h
      · cases h
      · split at h
        · cases h
        · rename_i hal
          split at h
          · cases h; simpa using hal
          · split at h
            · cases h
            · exact ih as i h

theorem Tr.stepSockets (s : St) (d : Nat) : ∃ H, Tr s (s.stepSockets d) H ∧
    (H = [] ∨ ∃ i, (s.sock i).alive = true ∧ SockShape s (s.stepSockets d) i H) := by
  unfold St.stepSockets
  split
  · exact ⟨_, Tr.fail _ _, .inl rfl⟩
  · exact ⟨_, Tr.refl _, .inl rfl⟩
  · rename_i i hsc
    obtain ⟨H, h1, h2⟩ := Tr.onReadable s i
    exact ⟨H, h1, .inr ⟨i, scan_read_alive _ _ _ _ hsc, h2⟩⟩
  · exact ⟨_, Tr.onWritable _ _, .inl rfl⟩

/-- `Step`: at most one ToDo, then at most one handler of a socket that is alive -/
theorem Tr.step (s : St) (d : Nat) : ∃ Ht Hs, Tr s (s.step d) (Hs ++ Ht) ∧ (Ht = [] ∨ ∃ t, Ht = [.todo t]) ∧
    (Hs = [] ∨ ∃ i, (s.sock i).alive = true ∧
      (Hs = [.recv i] ∨ Hs = [.recvFrom i] ∨ Hs = [.conn i] ∨
        (Hs = [.disc i] ∧ ((s.sock i).onDisc = true → ((s.step d).sock i).alive = false)))) := by
  unfold St.step
  obtain ⟨Ht, h1, ht⟩ := Tr.runTodo s d
  obtain ⟨Hs, h2, hs⟩ := Tr.stepSockets (s.runTodo d) d
  refine ⟨Ht, Hs, h1.trans h2, ht, ?_⟩
  have hsock : (s.runTodo d).sock = s.sock := by unfold St.runTodo; split <;> rfl
  rcases hs with hs | ⟨i, hal, hs | hs | hs | hs | ⟨hs, hd⟩⟩
  · exact .inl hs
  · exact .inl hs
  · exact .inr ⟨i, by rw [hsock] at hal; exact hal, .inl hs⟩
  · exact .inr ⟨i, by rw [hsock] at hal; exact hal, .inr (.inl hs)⟩
  · exact .inr ⟨i, by rw [hsock] at hal; exact hal, .inr (.inr (.inl hs))⟩
  · exact .inr ⟨i, by rw [hsock] at hal; exact hal, .inr (.inr (.inr ⟨hs, by rw [hsock] at hd; exact hd⟩))⟩

/-! ### operations -/

/-- operations that add no handler event and keep socket identities and the number of futures -/
def plainOp : Op → Bool
  | .mkSock .. | .send _ | .echo _ | .step _ => false
  | _ => true

theorem Tr.exec_plain (s : St) (op : Op) (hp : plainOp op = true) : Tr s (exec .fixed s op) [] := by
  unfold Lifecycle.exec
  split
  · exact Tr.refl s
  · cases op with
    | mkSock i k d a b c => cases hp
    | send i => cases hp
    | echo i => cases hp
    | step d => cases hp
    | mkDriver d => simp only; split; exact Tr.fail _ _; exact Tr.setDrv _ _ _
    | peerSend i => exact Tr.setSock s i _ rfl rfl (fun h => h)
    | peerConnect i => exact Tr.setSock s i _ rfl rfl (fun h => h)
    | peerClose i => exact Tr.setSock s i _ rfl rfl (fun h => h)
    | peerReset i => exact Tr.setSock s i _ rfl rfl (fun h => h)
    | sendFail i => exact Tr.setSock s i _ rfl rfl (fun h => h)
    | release i => exact Tr.setSock s i _ rfl rfl (fun h => h)
    | destroySock i => simp only; split; exact Tr.fail _ _; exact Tr.destroySockObj s i
    | destroyDriver d => simp only; split; exact Tr.fail _ _; exact Tr.setDrv _ _ _
    | mkTodo t d scheduled =>
      simp only
      split
      · exact Tr.fail _ _
      · split
        · exact Tr.fail _ _
        · split
          · simpa using (Tr.setTodo s t _).trans (Tr.setDrv _ _ _)
          · exact Tr.setTodo _ _ _
    | cancel t =>
      simp only
      split
      · exact Tr.fail _ _
      · split
        · exact Tr.setDrv _ _ _
        · exact Tr.refl _
    | shift t =>
      simp only
      split
      · exact Tr.fail _ _
      · split
        · exact Tr.setDrv _ _ _
        · exact Tr.refl _
    | dropTodo t => simp only; split; exact Tr.fail _ _; exact Tr.setTodo _ _ _
    | destroyPool =>
      simp only
      split
      · exact Tr.fail _ _
      · split
        · exact Tr.fail _ _
        · exact Tr.same rfl rfl rfl rfl

theorem exec_step {s : St} (hub : s.ub = none) {d : Nat} (hl : legalOp s (.step d) = true) :
    exec .fixed s (.step d) = s.step d := by
  simp only [legalOp] at hl
  unfold Lifecycle.exec
  simp [hub, hl]

theorem exec_destroySock {s : St} (hub : s.ub = none) {i : Nat} (hl : legalOp s (.destroySock i) = true) :
    exec .fixed s (.destroySock i) = s.destroySockObj i := by
  simp only [legalOp, Bool.and_eq_true] at hl
  unfold Lifecycle.exec
  simp [hub, hl.1]

theorem wantSend_same (s : St) (i : Nat) : (St.wantSend .fixed s i).log = s.log ∧ (St.wantSend .fixed s i).sock = s.sock ∧
    (St.wantSend .fixed s i).futs = s.futs ∧ (St.wantSend .fixed s i).nfut = s.nfut := by
  unfold St.wantSend
  simp only
  split
  · exact ⟨rfl, rfl, rfl, rfl⟩
  · split <;> exact ⟨rfl, rfl, rfl, rfl⟩

theorem enqueue_facts (s : St) (i : Nat) (e : Bool) : (s.enqueue i e).log = s.log ∧
    (∀ j, ((s.enqueue i e).sock j).present = (s.sock j).present ∧ ((s.enqueue i e).sock j).onDisc = (s.sock j).onDisc ∧
      ((s.enqueue i e).sock j).alive = (s.sock j).alive) ∧
    (s.enqueue i e).nfut = s.nfut + 1 ∧
    (∀ id, (s.enqueue i e).futs id = if id = s.nfut then some (i, .pending) else s.futs id) := by
  unfold St.enqueue
  refine ⟨rfl, ?_, rfl, fun _ => rfl⟩
  intro j
  show ((St.setSock s i _).sock j).present = _ ∧ ((St.setSock s i _).sock j).onDisc = _ ∧ ((St.setSock s i _).sock j).alive = _
  by_cases hj : j = i
  · subst hj; simp
  · rw [setSock_other _ _ hj]; exact ⟨rfl, rfl, rfl⟩

/-- a legal echo: like a `Send` - a new pending future of that socket, nothing else the observer could see -/
theorem exec_echo {s : St} (hub : s.ub = none) {i : Nat} (hl : legalOp s (.echo i) = true) :
    (exec .fixed s (.echo i)).log = s.log ∧
    (∀ j, ((exec .fixed s (.echo i)).sock j).present = (s.sock j).present ∧
      ((exec .fixed s (.echo i)).sock j).onDisc = (s.sock j).onDisc ∧
      ((exec .fixed s (.echo i)).sock j).alive = (s.sock j).alive) ∧
    (exec .fixed s (.echo i)).nfut = s.nfut + 1 ∧
    (∀ id, (exec .fixed s (.echo i)).futs id = if id = s.nfut then some (i, .pending) else s.futs id) := by
  simp only [legalOp, Bool.and_eq_true, bne_iff_ne, ne_eq, decide_eq_true_eq] at hl
  obtain ⟨⟨hal, _⟩, hheld⟩ := hl
  have hne : ¬ (s.sock i).held = 0 := by omega
  have hfacts : ∀ (k : Sock), k.present = (s.sock i).present → k.onDisc = (s.sock i).onDisc → k.alive = (s.sock i).alive →
      ((s.setSock i k).enqueue i true).log = s.log ∧
      (∀ j, (((s.setSock i k).enqueue i true).sock j).present = (s.sock j).present ∧
        (((s.setSock i k).enqueue i true).sock j).onDisc = (s.sock j).onDisc ∧
        (((s.setSock i k).enqueue i true).sock j).alive = (s.sock j).alive) ∧
      ((s.setSock i k).enqueue i true).nfut = s.nfut + 1 ∧
      (∀ id, ((s.setSock i k).enqueue i true).futs id = if id = s.nfut then some (i, .pending) else s.futs id) := by
    intro k hp ho ha
    obtain ⟨e1, e2, e3, e4⟩ := enqueue_facts (s.setSock i k) i true
    refine ⟨e1, ?_, e3, e4⟩
    intro j
    obtain ⟨a, b, c⟩ := e2 j
    rw [a, b, c]
    by_cases hj : j = i
    · subst hj; simp only [setSock_same]; exact ⟨hp, ho, ha⟩
    · rw [setSock_other _ _ hj]; exact ⟨rfl, rfl, rfl⟩
  unfold Lifecycle.exec
  simp only [hub, Option.isSome_none, Bool.false_eq_true, ↓reduceIte, hal, not_true_eq_false, hne]
  split
  · obtain ⟨w1, w2, w3, w4⟩ := wantSend_same ((s.setSock i _).enqueue i true) i
    rw [w1, w2, w3, w4]
    exact hfacts _ rfl rfl (by simp [hal])
  · exact hfacts _ rfl rfl (by simp [hal])

/-- a legal `Send`: a new pending future of that socket, nothing else the observer could see -/
theorem exec_send {s : St} (hub : s.ub = none) {i : Nat} (hl : legalOp s (.send i) = true) :
    (exec .fixed s (.send i)).log = s.log ∧
    (∀ j, ((exec .fixed s (.send i)).sock j).present = (s.sock j).present ∧
      ((exec .fixed s (.send i)).sock j).onDisc = (s.sock j).onDisc ∧
      ((exec .fixed s (.send i)).sock j).alive = (s.sock j).alive) ∧
    (exec .fixed s (.send i)).nfut = s.nfut + 1 ∧
    (∀ id, (exec .fixed s (.send i)).futs id = if id = s.nfut then some (i, .pending) else s.futs id) := by
  simp only [legalOp, Bool.and_eq_true, bne_iff_ne, ne_eq, decide_eq_true_eq] at hl
  obtain ⟨⟨⟨hal, _⟩, hpa⟩, _⟩ := hl
  have henq : (s.enqueue i).log = s.log ∧
      (∀ j, ((s.enqueue i).sock j).present = (s.sock j).present ∧ ((s.enqueue i).sock j).onDisc = (s.sock j).onDisc ∧
        ((s.enqueue i).sock j).alive = (s.sock j).alive) ∧
      (s.enqueue i).nfut = s.nfut + 1 ∧
      (∀ id, (s.enqueue i).futs id = if id = s.nfut then some (i, .pending) else s.futs id) := by
    unfold St.enqueue
    refine ⟨rfl, ?_, rfl, fun _ => rfl⟩
    intro j
    show ((St.setSock s i _).sock j).present = _ ∧ ((St.setSock s i _).sock j).onDisc = _ ∧ ((St.setSock s i _).sock j).alive = _
    by_cases hj : j = i
    · subst hj; simp
    · rw [setSock_other _ _ hj]; exact ⟨rfl, rfl, rfl⟩
  unfold Lifecycle.exec
  simp only [hub, Option.isSome_none, Bool.false_eq_true, ↓reduceIte, hal, not_true_eq_false, hpa]
  split
  · obtain ⟨w1, w2, w3, w4⟩ := wantSend_same (s.enqueue i) i
    rw [w1, w2, w3, w4]
    exact henq
  · exact henq

/-- a legal creation of a socket: a new live object, nothing else the observer could see -/
theorem exec_mkSock {s : St} (hub : s.ub = none) {i d : Nat} {k : Kind} {a b c : Bool}
    (hl : legalOp s (.mkSock i k d a b c) = true) :
    (exec .fixed s (.mkSock i k d a b c)).log = s.log ∧ (exec .fixed s (.mkSock i k d a b c)).futs = s.futs ∧
    (exec .fixed s (.mkSock i k d a b c)).nfut = s.nfut ∧
    (∀ j, j ≠ i → (exec .fixed s (.mkSock i k d a b c)).sock j = s.sock j) ∧
    ((exec .fixed s (.mkSock i k d a b c)).sock i).present = true ∧
    ((exec .fixed s (.mkSock i k d a b c)).sock i).alive = true ∧
    ((exec .fixed s (.mkSock i k d a b c)).sock i).onDisc = a ∧ (s.sock i).present = false := by
  simp only [legalOp, Bool.and_eq_true, Bool.not_eq_eq_eq_not, Bool.not_true] at hl
  obtain ⟨⟨⟨hnp, hda⟩, _⟩, _⟩ := hl
  unfold Lifecycle.exec
  simp only [hub, Option.isSome_none, Bool.false_eq_true, ↓reduceIte, hnp, hda, not_true_eq_false]
  refine ⟨rfl, rfl, rfl, ?_, ?_, ?_, ?_, trivial⟩
  · intro j hj
    show ((St.setSock s i _).sock j) = _
    exact setSock_other _ _ hj
  · show ((St.setSock s i _).sock i).present = true
    simp
  · show ((St.setSock s i _).sock i).alive = true
    simp
  · show ((St.setSock s i _).sock i).onDisc = a
    simp

/-! ### `LogInv`: logged future events are exactly the resolved futures -/

structure LogInv (s : St) : Prop where
  sound : ∀ id st, Ev.fut id st ∈ s.log → st ≠ .pending ∧ ∃ x, s.futs id = some (x, st)
  complete : ∀ id x st, s.futs id = some (x, st) → st ≠ .pending → Ev.fut id st ∈ s.log
  nodup : (s.log.filterMap futId?).Nodup

theorem LogInv.init : LogInv {} := ⟨fun _ _ h => (by cases h), fun _ _ _ h => (by cases h), List.nodup_nil⟩

theorem LogInv.same {s s' : St} (h : LogInv s) (hl : s'.log = s.log) (hf : s'.futs = s.futs) : LogInv s' :=
  ⟨fun id st hm => by rw [hl] at hm; rw [hf]; exact h.sound id st hm,
   fun id x st hfu hp => by rw [hf] at hfu; rw [hl]; exact h.complete id x st hfu hp,
   by rw [hl]; exact h.nodup⟩

theorem LogInv.emit {s : St} (h : LogInv s) (e : Ev) (he : isFutEv e = false) : LogInv (s.emit e) := by
  have hid : futId? e = none := by cases e <;> simp_all [isFutEv, futId?]
  refine ⟨?_, ?_, ?_⟩
  · intro id st hm
    have hm' : Ev.fut id st ∈ e :: s.log := hm
    rcases List.mem_cons.mp hm' with heq | hm''
    · subst heq; simp [isFutEv] at he
    · exact h.sound id st hm''
  · intro id x st hfu hp
    show Ev.fut id st ∈ e :: s.log
    exact List.mem_cons_of_mem _ (h.complete id x st hfu hp)
  · show ((e :: s.log).filterMap futId?).Nodup
    rw [List.filterMap_cons, hid]; exact h.nodup

theorem mem_futIds {l : List Ev} {id : Nat} : id ∈ l.filterMap futId? ↔ ∃ st, Ev.fut id st ∈ l := by
  simp only [List.mem_filterMap]
  constructor
  · rintro ⟨e, he, hid⟩
    cases e <;> simp [futId?] at hid
    subst hid
    exact ⟨_, he⟩
  · rintro ⟨st, h⟩
    exact ⟨_, h, rfl⟩

/-- a set of pending futures is broken at once (`~SocketAsyncImpl`) -/
theorem LogInv.breakQ {s s' : St} (h : LogInv s) (Q : List Nat) (hq : ∀ id ∈ Q, ∃ x, s.futs id = some (x, .pending))
    (hnd : Q.Nodup)
    (hf : ∀ j, s'.futs j = if j ∈ Q then (s.futs j).map (fun (p : Nat × Fut) => (p.1, Fut.broken)) else s.futs j)
    (hl : s'.log = (Q.map fun id => Ev.fut id .broken).reverse ++ s.log) : LogInv s' := by
  have hnotlogged : ∀ id ∈ Q, ∀ st, Ev.fut id st ∉ s.log := by
    intro id hid st hm
    obtain ⟨hne, x, hx⟩ := h.sound id st hm
    obtain ⟨x', hx'⟩ := hq id hid
    rw [hx'] at hx; cases hx; exact hne rfl
  refine ⟨?_, ?_, ?_⟩
  · intro id st hm
    rw [hl] at hm
    rcases List.mem_append.mp hm with hm | hm
    · simp only [List.mem_reverse, List.mem_map] at hm
      obtain ⟨id', hid', heq⟩ := hm
      cases heq
      obtain ⟨x, hx⟩ := hq id hid'
      refine ⟨by simp, x, ?_⟩
      rw [hf, if_pos hid', hx]; rfl
    · have hnq : id ∉ Q := fun hin => hnotlogged id hin st hm
      rw [hf, if_neg hnq]
      exact h.sound id st hm
  · intro id x st hfu hp
    rw [hl]
    rw [hf] at hfu
    split at hfu
    · rename_i hin
      obtain ⟨x', hx'⟩ := hq id hin
      rw [hx'] at hfu
      simp only [Option.map_some, Option.some.injEq, Prod.mk.injEq] at hfu
      obtain ⟨_, rfl⟩ := hfu
      apply List.mem_append_left
      simp only [List.mem_reverse, List.mem_map]
      exact ⟨id, hin, rfl⟩
    · exact List.mem_append_right _ (h.complete id x st hfu hp)
  · rw [hl, List.filterMap_append]
    have hids : ((Q.map fun id => Ev.fut id .broken).reverse.filterMap futId?) = Q.reverse := by
      rw [← List.map_reverse, List.filterMap_map]
      have : (futId? ∘ fun id => Ev.fut id Fut.broken) = some := by funext x; rfl
      rw [this]; simp
    rw [hids]
    apply List.nodup_append.mpr
    refine ⟨(List.reverse_perm Q).nodup_iff.mpr hnd, h.nodup, ?_⟩
    intro a ha b hb hab
    subst hab
    obtain ⟨st, hst⟩ := mem_futIds.mp hb
    exact hnotlogged a (List.mem_reverse.mp ha) st hst

/-- queued sends are pending futures of their socket, each queued once (part of `LInv`) -/
def QOK (s : St) : Prop :=
  (∀ x id, id ∈ (s.sock x).sendQ → s.futs id = some (x, .pending)) ∧ ∀ x, (s.sock x).sendQ.Nodup

theorem QOK.of_LInv {s : St} (h : LInv s) : QOK s := ⟨h.q, h.qnodup⟩

theorem QOK.same {s s' : St} (h : QOK s) (hs : s'.sock = s.sock) (hf : s'.futs = s.futs) : QOK s' := by
  unfold QOK; rw [hs, hf]; exact h

theorem LogInv.destroySockObj {s : St} (h : LogInv s) (hq : QOK s) (i : Nat) : LogInv (s.destroySockObj i) := by
  unfold St.destroySockObj
  simp only
  generalize hs0 : (if (s.sock i).held > 0 then s.fail "socket destroyed while receive buffers of its pool are still held" else s) = s0
  have e0 : s0.futs = s.futs ∧ s0.log = s.log := by subst hs0; split <;> exact ⟨rfl, rfl⟩
  generalize hs1 : (if (s0.drv (s.sock i).drv).alive = true then s0.setDrv (s.sock i).drv ((s0.drv (s.sock i).drv).unregister i) else s0) = s1
  have e1 : s1.futs = s.futs ∧ s1.log = s.log := by subst hs1; split <;> exact e0
  generalize hs2 : (if (s.sock i).sendQ.any (fun id => !s.echo id) = true ∧ ¬s1.poolAlive = true then s1.fail "send buffer returned to a destroyed pool" else s1) = s2
  have e2 : s2.futs = s.futs ∧ s2.log = s.log := by subst hs2; split <;> exact e1
  apply h.breakQ (s.sock i).sendQ (fun id hid => ⟨i, hq.1 i id hid⟩) (hq.2 i)
  · intro j
    show (if j ∈ (s.sock i).sendQ then (s2.futs j).map (fun (p : Nat × Fut) => (p.1, Fut.broken)) else s2.futs j) = _
    rw [e2.1]
  · show _ ++ s2.log = _
    rw [e2.2]

theorem LogInv.disconnect {s : St} (h : LogInv s) (hq : QOK s) (i : Nat) : LogInv (s.disconnect i) := by
  unfold St.disconnect
  simp only
  generalize hs1 : (if (s.drv (s.sock i).drv).alive = true then s.setDrv (s.sock i).drv ((s.drv (s.sock i).drv).unregister i) else s) = s1
  have h1 : LogInv s1 ∧ QOK s1 := by subst hs1; split; exact ⟨h.same rfl rfl, hq.same rfl rfl⟩; exact ⟨h, hq⟩
  have h2 : LogInv (s1.emit (.disc i)) := h1.1.emit _ rfl
  split
  · exact h2.destroySockObj (h1.2.same rfl rfl) i
  · exact h2

theorem LogInv.onReadable {s : St} (h : LogInv s) (hq : QOK s) (i : Nat) : LogInv (s.onReadable i) := by
  unfold St.onReadable
  simp only
  split
  · split
    · split
      · exact h.disconnect hq i
      · split
        · exact (h.emit _ rfl).same rfl rfl
        · exact (h.emit _ rfl).same rfl rfl
    · exact h.disconnect hq i
  · split
    · exact h
    · split
      · exact (h.emit _ rfl).same rfl rfl
      · exact (h.emit _ rfl).same rfl rfl
  · exact (h.emit _ rfl).same rfl rfl

theorem LogInv.onWritable {s : St} (h : LogInv s) (hq : QOK s) (i : Nat) : LogInv (s.onWritable i) := by
  unfold St.onWritable
  simp only
  split
  · exact h
  · rename_i id rest hqq
    have hv : (if (s.sock i).kind = .tcp ∧ (s.sock i).failSend = true then Fut.exn
        else if (s.sock i).kind = .tcp ∧ (s.sock i).peer ≠ .up then Fut.either else Fut.value) ≠ .pending := by
      split
      · simp
      · split <;> simp
    generalize (if (s.sock i).kind = .tcp ∧ (s.sock i).failSend = true then Fut.exn
        else if (s.sock i).kind = .tcp ∧ (s.sock i).peer ≠ .up then Fut.either else Fut.value) = v at hv
    generalize (if (s.sock i).kind = .tcp then false else (s.sock i).failSend) = fs
    have hpend : s.futs id = some (i, .pending) := hq.1 i id (by rw [hqq]; simp)
    have hnotlogged : ∀ st, Ev.fut id st ∉ s.log := by
      intro st hm
      obtain ⟨hne, x, hx⟩ := h.sound id st hm
      rw [hpend] at hx; cases hx; exact hne rfl
    have h1 : LogInv (s.resolve id v) := by
      refine ⟨?_, ?_, ?_⟩
      · intro j st hm
        have hm' : Ev.fut j st ∈ Ev.fut id v :: s.log := hm
        show st ≠ .pending ∧ ∃ x, (if j = id then (s.futs id).map (fun (p : Nat × Fut) => (p.1, v)) else s.futs j) = some (x, st)
        rcases List.mem_cons.mp hm' with heq | hm''
        · cases heq
          refine ⟨hv, i, ?_⟩
          rw [if_pos rfl, hpend]; rfl
        · have hne : j ≠ id := fun e => hnotlogged st (e ▸ hm'')
          rw [if_neg hne]
          exact h.sound j st hm''
      · intro j x st hfu hp
        have hfu' : (if j = id then (s.futs id).map (fun (p : Nat × Fut) => (p.1, v)) else s.futs j) = some (x, st) := hfu
        show Ev.fut j st ∈ Ev.fut id v :: s.log
        split at hfu'
        · rename_i e
          subst e
          rw [hpend] at hfu'
          simp only [Option.map_some, Option.some.injEq, Prod.mk.injEq] at hfu'
          obtain ⟨_, rfl⟩ := hfu'
          exact List.mem_cons_self
        · exact List.mem_cons_of_mem _ (h.complete j x st hfu' hp)
      · show ((Ev.fut id v :: s.log).filterMap futId?).Nodup
        rw [List.filterMap_cons]
        show (id :: s.log.filterMap futId?).Nodup
        refine List.nodup_cons.mpr ⟨?_, h.nodup⟩
        intro hm
        obtain ⟨st, hst⟩ := mem_futIds.mp hm
        exact hnotlogged st hst
    have h2 : LogInv ((s.resolve id v).setSock i { (s.sock i) with sendQ := rest, failSend := fs }) := h1.same rfl rfl
    split
    · exact h2.same rfl rfl
    · exact h2

theorem LogInv.step {s : St} (h : LogInv s) (hq : QOK s) (d : Nat) : LogInv (s.step d) := by
  unfold St.step
  have h1 : LogInv (s.runTodo d) ∧ QOK (s.runTodo d) := by
    unfold St.runTodo
    split
    · exact ⟨h, hq⟩
    · exact ⟨(h.same (s' := s.setDrv d _) rfl rfl).emit _ rfl, hq.same rfl rfl⟩
  unfold St.stepSockets
  split
  · exact h1.1.same rfl rfl
  · exact h1.1
  · exact h1.1.onReadable h1.2 _
  · exact h1.1.onWritable h1.2 _

theorem LogInv.enqueue {s : St} (h : LogInv s) (hnf : ∀ j, s.futs j ≠ none → j < s.nfut) (i : Nat) (e : Bool) :
    LogInv (s.enqueue i e) := by
  unfold St.enqueue
  refine ⟨?_, ?_, h.nodup⟩
  · intro id st hm
    obtain ⟨hne, x, hx⟩ := h.sound id st hm
    refine ⟨hne, x, ?_⟩
    show (if id = s.nfut then some (i, Fut.pending) else s.futs id) = some (x, st)
    have hlt : id < s.nfut := hnf id (by rw [hx]; simp)
    rw [if_neg (by omega)]; exact hx
  · intro id x st hfu hp
    have hfu' : (if id = s.nfut then some (i, Fut.pending) else s.futs id) = some (x, st) := hfu
    split at hfu'
    · cases hfu'; exact absurd rfl hp
    · exact h.complete id x st hfu' hp

theorem LogInv.exec {s : St} (h : LogInv s) (hL : LInv s) (op : Op) : LogInv (exec .fixed s op) := by
  have hq := QOK.of_LInv hL
  unfold Lifecycle.exec
  split
  · exact h
  · cases op with
    | mkDriver d => simp only; split <;> exact h.same rfl rfl
    | mkSock i k d a b c =>
      simp only
      split
      · exact h.same rfl rfl
      · split <;> exact h.same rfl rfl
    | send i =>
      simp only
      have henq : LogInv (s.enqueue i) := h.enqueue hL.nf i false
      split
      · exact h.same rfl rfl
      · split
        · exact h.same rfl rfl
        · split
          · obtain ⟨w1, _, w3, _⟩ := wantSend_same (s.enqueue i) i
            exact henq.same w1 w3
          · exact henq
    | echo i =>
      simp only
      have henq : LogInv ((s.setSock i { (s.sock i) with held := (s.sock i).held - 1 }).enqueue i true) :=
        LogInv.enqueue (s := s.setSock i { (s.sock i) with held := (s.sock i).held - 1 }) (h.same rfl rfl) (fun j hj => hL.nf j hj) i true
      split
      · exact h.same rfl rfl
      · split
        · exact h.same rfl rfl
        · split
          · obtain ⟨w1, _, w3, _⟩ := wantSend_same ((s.setSock i { (s.sock i) with held := (s.sock i).held - 1 }).enqueue i true) i
            exact henq.same w1 w3
          · exact henq
    | step d => simp only; split; exact h.same rfl rfl; exact h.step hq d
    | peerSend i => exact h.same rfl rfl
    | peerConnect i => exact h.same rfl rfl
    | peerClose i => exact h.same rfl rfl
    | peerReset i => exact h.same rfl rfl
    | sendFail i => exact h.same rfl rfl
    | release i => exact h.same rfl rfl
    | destroySock i => simp only; split; exact h.same rfl rfl; exact h.destroySockObj hq i
    | destroyDriver d => simp only; split <;> exact h.same rfl rfl
    | mkTodo t d scheduled =>
      simp only
      split
      · exact h.same rfl rfl
      · split
        · exact h.same rfl rfl
        · split <;> exact h.same rfl rfl
    | cancel t =>
      simp only
      split
      · exact h.same rfl rfl
      · split
        · exact h.same rfl rfl
        · exact h
    | shift t =>
      simp only
      split
      · exact h.same rfl rfl
      · split
        · exact h.same rfl rfl
        · exact h
    | dropTodo t => simp only; split <;> exact h.same rfl rfl
    | destroyPool =>
      simp only
      split
      · exact h.same rfl rfl
      · split <;> exact h.same rfl rfl

/-! ### the destruction sequence at the end of a history -/

theorem Tr.run_plain : ∀ (ops : List Op) (s : St), (∀ op ∈ ops, plainOp op = true) → Tr s (run .fixed s ops) [] := by
  intro ops
  induction ops with
  | nil => intro s _; exact Tr.refl s
  | cons op rest ih =>
    intro s h
    have h1 := Tr.exec_plain s op (h op List.mem_cons_self)
    have h2 := ih (exec .fixed s op) (fun o ho => h o (List.mem_cons_of_mem _ ho))
    show Tr s (run .fixed (exec .fixed s op) rest) []
    simpa using h1.trans h2

theorem LogInv.run {s : St} (h : LogInv s) (hL : LInv s) : ∀ (ops : List Op), legalFrom .fixed s ops = true →
    LogInv (run .fixed s ops) := by
  intro ops
  induction ops generalizing s with
  | nil => intro _; exact h
  | cons op rest ih =>
    intro hl
    simp only [legalFrom, Bool.and_eq_true] at hl
    exact ih (h.exec hL op) (hL.exec op hl.1) hl.2

theorem destroySockObj_pool (s : St) (i : Nat) : (s.destroySockObj i).poolAlive = s.poolAlive := by
  unfold St.destroySockObj
  simp only
  show (if _ then _ else _ : St).poolAlive = _
  split <;> split <;> split <;> rfl

/-- `release i ; destroy i` for every listed socket that is alive -/
theorem end_socks (alive0 : Nat → Bool) : ∀ (l : List Nat) (s : St), l.Nodup → LInv s →
    (∀ i ∈ l, (s.sock i).alive = alive0 i) →
    let ops := l.flatMap fun i => if alive0 i then [Op.release i, Op.destroySock i] else []
    legalFrom .fixed s ops = true ∧ (∀ i ∈ l, ((run .fixed s ops).sock i).alive = false) ∧
    (run .fixed s ops).todo = s.todo ∧ (∀ d, ((run .fixed s ops).drv d).alive = (s.drv d).alive) ∧
    (run .fixed s ops).poolAlive = s.poolAlive := by
  intro l
  induction l with
  | nil => intro s _ _ _; exact ⟨rfl, fun _ h => (by cases h), rfl, fun _ => rfl, rfl⟩
  | cons i rest ih =>
    intro s hnd hL hal
    obtain ⟨hirest, hndrest⟩ := List.nodup_cons.mp hnd
    have hplain : ∀ (l' : List Nat), ∀ op ∈ (l'.flatMap fun i => if alive0 i then [Op.release i, Op.destroySock i] else []),
        plainOp op = true := by
      intro l' op hop
      simp only [List.mem_flatMap] at hop
      obtain ⟨j, _, hj⟩ := hop
      split at hj
      · simp only [List.mem_cons, List.mem_nil_iff, or_false] at hj
        rcases hj with rfl | rfl <;> rfl
      · cases hj
    simp only [List.flatMap_cons]
    cases ha : alive0 i with
    | false =>
      simp only [Bool.false_eq_true, ↓reduceIte, List.nil_append]
      obtain ⟨h1, h2, h3, h4, h5⟩ := ih s hndrest hL (fun j hj => hal j (List.mem_cons_of_mem _ hj))
      refine ⟨h1, ?_, h3, h4, h5⟩
      intro j hj
      rcases List.mem_cons.mp hj with rfl | hj
      · have htr := Tr.run_plain _ s (hplain rest)
        cases h : ((run .fixed s (rest.flatMap fun i => if alive0 i then [Op.release i, Op.destroySock i] else [])).sock j).alive with
        | false => rfl
        | true =>
          have := (htr.frame j).2.2 h
          rw [hal j List.mem_cons_self, ha] at this; cases this
      · exact h2 j hj
    | true =>
      simp only [↓reduceIte, List.cons_append, List.nil_append]
      have hali : (s.sock i).alive = true := by rw [hal i List.mem_cons_self, ha]
      have hl1 : legalOp s (.release i) = true := by simp only [legalOp]; exact hL.sockPresent i hali
      have hL1 := hL.exec _ hl1
      have hub : s.ub = none := hL.ub
      have e1 : exec .fixed s (.release i) = s.setSock i { (s.sock i) with held := 0 } := by
        unfold Lifecycle.exec; simp [hub]
      have hl2 : legalOp (exec .fixed s (.release i)) (.destroySock i) = true := by
        rw [e1]; simp [legalOp, hali]
      have hL2 := hL1.exec _ hl2
      have e2 : exec .fixed (exec .fixed s (.release i)) (.destroySock i) = (exec .fixed s (.release i)).destroySockObj i :=
        exec_destroySock hL1.ub hl2
      obtain ⟨o1, o2, o3⟩ := destroySockObj_other (exec .fixed s (.release i)) i
      have hsame : ∀ j, j ≠ i → (exec .fixed (exec .fixed s (.release i)) (.destroySock i)).sock j = s.sock j := by
        intro j hj
        rw [e2, o1 j hj, e1, setSock_other _ _ hj]
      obtain ⟨h1, h2, h3, h4, h5⟩ := ih (exec .fixed (exec .fixed s (.release i)) (.destroySock i)) hndrest hL2
        (fun j hj => by
          have hji : j ≠ i := fun e => hirest (e ▸ hj)
          rw [hsame j hji]; exact hal j (List.mem_cons_of_mem _ hj))
      refine ⟨by simp only [legalFrom, hl1, hl2, h1, Bool.and_self], ?_, ?_, ?_, ?_⟩
      · intro j hj
        simp only [run]
        rcases List.mem_cons.mp hj with rfl | hj
        · have htr := Tr.run_plain _ (exec .fixed (exec .fixed s (.release j)) (.destroySock j)) (hplain rest)
          cases h : ((run .fixed (exec .fixed (exec .fixed s (.release j)) (.destroySock j))
              (rest.flatMap fun i => if alive0 i then [Op.release i, Op.destroySock i] else [])).sock j).alive with
          | false => rfl
          | true =>
            have := (htr.frame j).2.2 h
            rw [e2, destroySockObj_dead] at this; cases this
        · exact h2 j hj
      · simp only [run]; rw [h3, e2, o3, e1]; rfl
      · intro d; simp only [run]; rw [h4 d, e2, o2 d, e1]; rfl
      · simp only [run]; rw [h5, e2, destroySockObj_pool, e1]; rfl

/-- membership in a list of optional singletons -/
theorem mem_flatMap_opt {l : List Nat} {p : Nat → Bool} {f : Nat → Op} {x : Op} :
    x ∈ (l.flatMap fun t => if p t then [f t] else []) ↔ ∃ t ∈ l, p t = true ∧ x = f t := by
  simp only [List.mem_flatMap]
  constructor
  · rintro ⟨t, ht, hx⟩
    split at hx
    · rename_i hp
      simp only [List.mem_cons, List.mem_nil_iff, or_false] at hx
      exact ⟨t, ht, hp, hx⟩
    · cases hx
  · rintro ⟨t, ht, hp, rfl⟩
    exact ⟨t, ht, by simp [hp]⟩

theorem flatMap_opt_nodup (p : Nat → Bool) (f : Nat → Op) (hinj : ∀ a b, f a = f b → a = b) :
    ∀ (l : List Nat), l.Nodup → (l.flatMap fun t => if p t then [f t] else []).Nodup := by
  intro l
  induction l with
  | nil => intro _; exact List.nodup_nil
  | cons t rest ih =>
    intro hnd
    obtain ⟨htrest, hndrest⟩ := List.nodup_cons.mp hnd
    simp only [List.flatMap_cons]
    split
    · simp only [List.cons_append, List.nil_append]
      refine List.nodup_cons.mpr ⟨?_, ih hndrest⟩
      intro hm
      obtain ⟨t', ht', _, heq⟩ := mem_flatMap_opt.mp hm
      exact htrest (hinj _ _ heq ▸ ht')
    · simpa using ih hndrest

/-- ToDo handles and drivers are only dropped: sockets, futures and the pool are untouched -/
theorem run_drops_same : ∀ (ops : List Op) (s : St), (∀ op ∈ ops, (∃ t, op = .dropTodo t) ∨ ∃ d, op = .destroyDriver d) →
    (run .fixed s ops).sock = s.sock ∧ (run .fixed s ops).futs = s.futs ∧ (run .fixed s ops).nfut = s.nfut ∧
    (run .fixed s ops).poolAlive = s.poolAlive := by
  intro ops
  induction ops with
  | nil => intro s _; exact ⟨rfl, rfl, rfl, rfl⟩
  | cons op rest ih =>
    intro s h
    have h1 : (exec .fixed s op).sock = s.sock ∧ (exec .fixed s op).futs = s.futs ∧ (exec .fixed s op).nfut = s.nfut ∧
        (exec .fixed s op).poolAlive = s.poolAlive := by
      rcases h op List.mem_cons_self with ⟨t, rfl⟩ | ⟨d, rfl⟩
      · unfold Lifecycle.exec
        split
        · exact ⟨rfl, rfl, rfl, rfl⟩
        · simp only; split <;> exact ⟨rfl, rfl, rfl, rfl⟩
      · unfold Lifecycle.exec
        split
        · exact ⟨rfl, rfl, rfl, rfl⟩
        · simp only; split <;> exact ⟨rfl, rfl, rfl, rfl⟩
    obtain ⟨a, b, c, d⟩ := ih (exec .fixed s op) (fun o ho => h o (List.mem_cons_of_mem _ ho))
    simp only [run]
    exact ⟨a.trans h1.1, b.trans h1.2.1, c.trans h1.2.2.1, d.trans h1.2.2.2⟩

/-- what the harness destroys at the end of a history, in its order -/
def implicitEnd (s : St) (socks todos drvs : List Nat) : List Op :=
  (socks.flatMap fun i => if (s.sock i).alive then [Op.release i, Op.destroySock i] else []) ++
  (todos.flatMap fun t => if (s.todo t).handle then [Op.dropTodo t] else []) ++
  (drvs.flatMap fun d => if (s.drv d).alive then [Op.destroyDriver d] else []) ++
  (if s.poolAlive then [Op.destroyPool] else [])

/-- what the harness does at the end of a history (release and destroy every live socket, drop every ToDo handle,
destroy every driver, destroy the pool) is a legal continuation of any reachable state, and leaves no socket
alive and no future pending -/
theorem end_legal {s : St} (hL : LInv s) (hF : FInv s) {socks todos drvs : List Nat}
    (hnd : socks.Nodup ∧ todos.Nodup ∧ drvs.Nodup) (hcover : ∀ i, (s.sock i).alive = true → i ∈ socks) :
    legalFrom .fixed s (implicitEnd s socks todos drvs) = true ∧
    (∀ op ∈ implicitEnd s socks todos drvs, plainOp op = true) ∧
    (∀ i, ((run .fixed s (implicitEnd s socks todos drvs)).sock i).alive = false) ∧
    (∀ j, (run .fixed s (implicitEnd s socks todos drvs)).isPending j = false) := by
  unfold implicitEnd
  -- A: the sockets
  have hA := end_socks (fun i => (s.sock i).alive) socks s hnd.1 hL (fun _ _ => rfl)
  dsimp only at hA
  obtain ⟨hA1, hA2, hA3, hA4, hA5⟩ := hA
  generalize hAdef : (socks.flatMap fun i => if (s.sock i).alive then [Op.release i, Op.destroySock i] else []) = A at *
  have hAplain : ∀ op ∈ A, plainOp op = true := by
    intro op hop
    rw [← hAdef] at hop
    simp only [List.mem_flatMap] at hop
    obtain ⟨j, _, hj⟩ := hop
    split at hj
    · simp only [List.mem_cons, List.mem_nil_iff, or_false] at hj
      rcases hj with rfl | rfl <;> rfl
    · cases hj
  have hLA := hL.run A hA1
  have hFA := hF.run .fixed A
  have hAtr := Tr.run_plain A s hAplain
  have hAdead : ∀ i, ((run .fixed s A).sock i).alive = false := by
    intro i
    cases h : ((run .fixed s A).sock i).alive with
    | false => rfl
    | true =>
      have h0 := (hAtr.frame i).2.2 h
      have := hA2 i (hcover i h0)
      rw [h] at this; cases this
  -- B ++ C: ToDo handles and drivers
  generalize hBdef : (todos.flatMap fun t => if (s.todo t).handle then [Op.dropTodo t] else []) = B at *
  generalize hCdef : (drvs.flatMap fun d => if (s.drv d).alive then [Op.destroyDriver d] else []) = C at *
  have hBmem : ∀ op, op ∈ B ↔ ∃ t ∈ todos, (s.todo t).handle = true ∧ op = .dropTodo t := by
    intro op; rw [← hBdef]; exact mem_flatMap_opt
  have hCmem : ∀ op, op ∈ C ↔ ∃ d ∈ drvs, (s.drv d).alive = true ∧ op = .destroyDriver d := by
    intro op; rw [← hCdef]; exact mem_flatMap_opt
  have hBCnd : (B ++ C).Nodup := by
    apply List.nodup_append.mpr
    refine ⟨?_, ?_, ?_⟩
    · rw [← hBdef]; exact flatMap_opt_nodup _ _ (fun a b h => by cases h; rfl) todos hnd.2.1
    · rw [← hCdef]; exact flatMap_opt_nodup _ _ (fun a b h => by cases h; rfl) drvs hnd.2.2
    · intro a ha b hb hab
      obtain ⟨t, _, _, rfl⟩ := (hBmem a).mp ha
      obtain ⟨d, _, _, rfl⟩ := (hCmem b).mp hb
      cases hab
  have hBCkind : ∀ op ∈ B ++ C, (∃ t, op = .dropTodo t) ∨ ∃ d, op = .destroyDriver d := by
    intro op hop
    rcases List.mem_append.mp hop with h | h
    · obtain ⟨t, _, _, rfl⟩ := (hBmem op).mp h; exact .inl ⟨t, rfl⟩
    · obtain ⟨d, _, _, rfl⟩ := (hCmem op).mp h; exact .inr ⟨d, rfl⟩
  have hBClegal : legalFrom .fixed (run .fixed s A) (B ++ C) = true := by
    apply legalFrom_destroy_tail _ _ hBCnd
    · intro op hop
      rcases hBCkind op hop with ⟨t, rfl⟩ | ⟨d, rfl⟩ <;> rfl
    · intro op hop
      rcases List.mem_append.mp hop with h | h
      · obtain ⟨t, _, ht, rfl⟩ := (hBmem op).mp h
        simp only [legalOp]; rw [hA3]; exact ht
      · obtain ⟨d, _, hd, rfl⟩ := (hCmem op).mp h
        simp only [legalOp]; rw [hA4 d]; exact hd
  obtain ⟨hs1, hs2, hs3, hs4⟩ := run_drops_same (B ++ C) (run .fixed s A) hBCkind
  have hLBC := hLA.run (B ++ C) hBClegal
  have hFBC := hFA.run .fixed (B ++ C)
  have hBCdead : ∀ i, ((run .fixed (run .fixed s A) (B ++ C)).sock i).alive = false := by
    intro i; rw [hs1]; exact hAdead i
  have hBCpend : ∀ j, (run .fixed (run .fixed s A) (B ++ C)).isPending j = false := by
    intro j
    cases hp : (run .fixed (run .fixed s A) (B ++ C)).isPending j with
    | false => rfl
    | true =>
      obtain ⟨x, hx⟩ := (isPending_iff _ j).mp hp
      have := (hFBC.fd j x hx).1
      rw [hBCdead x] at this; cases this
  have hBCplain : ∀ op ∈ B ++ C, plainOp op = true := by
    intro op hop
    rcases hBCkind op hop with ⟨t, rfl⟩ | ⟨d, rfl⟩ <;> rfl
  -- P: the pool
  have hops : A ++ B ++ C ++ (if s.poolAlive then [Op.destroyPool] else []) =
      A ++ ((B ++ C) ++ (if s.poolAlive then [Op.destroyPool] else [])) := by
    simp only [List.append_assoc]
  rw [hops]
  have hpoolEq : (run .fixed (run .fixed s A) (B ++ C)).poolAlive = s.poolAlive := by rw [hs4, hA5]
  refine ⟨?_, ?_, ?_, ?_⟩
  · rw [legalFrom_append, hA1, Bool.true_and, legalFrom_append, hBClegal, Bool.true_and]
    split
    · rename_i hpa
      simp only [legalFrom, legalOp, Bool.and_true, Bool.and_eq_true, beq_iff_eq]
      refine ⟨by rw [hpoolEq]; exact hpa, ?_⟩
      unfold St.poolBusy
      rw [List.length_eq_zero_iff, List.filter_eq_nil_iff]
      intro j _
      simp [St.isPoolPending, hBCpend j]
    · rfl
  · intro op hop
    rcases List.mem_append.mp hop with h | h
    · exact hAplain op h
    · rcases List.mem_append.mp h with h | h
      · exact hBCplain op h
      · split at h
        · simp only [List.mem_cons, List.mem_nil_iff, or_false] at h; subst h; rfl
        · cases h
  · intro i
    rw [run_append, run_append]
    split
    · have htr := Tr.exec_plain (run .fixed (run .fixed s A) (B ++ C)) .destroyPool rfl
      simp only [run]
      cases h : ((exec .fixed (run .fixed (run .fixed s A) (B ++ C)) .destroyPool).sock i).alive with
      | false => rfl
      | true => have := (htr.frame i).2.2 h; rw [hBCdead i] at this; cases this
    · exact hBCdead i
  · intro j
    rw [run_append, run_append]
    split
    · rename_i hpa
      simp only [run]
      have hlp : legalOp (run .fixed (run .fixed s A) (B ++ C)) .destroyPool = true := by
        simp only [legalOp, Bool.and_eq_true, beq_iff_eq]
        refine ⟨by rw [hpoolEq]; exact hpa, ?_⟩
        unfold St.poolBusy
        rw [List.length_eq_zero_iff, List.filter_eq_nil_iff]
        intro j _
        simp [St.isPoolPending, hBCpend j]
      have hFP := hFBC.exec .fixed .destroyPool
      have htr := Tr.exec_plain (run .fixed (run .fixed s A) (B ++ C)) .destroyPool rfl
      cases hp : (exec .fixed (run .fixed (run .fixed s A) (B ++ C)) .destroyPool).isPending j with
      | false => rfl
      | true =>
        obtain ⟨x, hx⟩ := (isPending_iff _ j).mp hp
        have h1 := (hFP.fd j x hx).1
        have := (htr.frame x).2.2 h1
        rw [hBCdead x] at this; cases this
    · exact hBCpend j

end SockModel.Lifecycle

/-
# Lifecycle of drivers, async sockets, send futures and ToDos (C17)

One state machine over a small universe: drivers (alive / destroyed - sockets and
ToDos only hold weak references), async sockets of the three classes with their
registration in the driver's two parallel vectors `sockets` / `pfds`, the state of
the peer, send queues whose elements own a promise and a pool buffer, ToDos.
Every operation has a defined result in every state; where the C++ would be
undefined the model sets `ub := some why` (absorbing):

* `AsyncWantSend` writing through `pfds.end()` - the behaviour before fix e9c24f0, kept
  as `Variant.legacy` (driver_impl.cpp:221-229);
* `sockets` / `pfds` out of step when `DoOneSocketTask` indexes them (driver_impl.cpp:261-286);
* a `sockets` entry referring to a destroyed `SocketAsyncImpl`;
* a socket destroyed while the user still holds receive buffers of its internal pool, or the
  send pool destroyed while buffers are out (`~BufferPool`, socket_buffered.cpp:72-77);
* use of an object that does not exist (any more);
* a socket destroyed from inside its own *receive* handler (socket_async_impl.cpp:136-148: the
  buffer handed to the handler outlives the pool it must return to).

`legalOp` encodes the usage rules of the headers / tests / examples; it never looks at `ub`.
Anchors: socket_async_impl.cpp:69-121 (dtor, Send, enqueue), 123-162 (receive paths), 182-228
(send paths), 230-245 (disconnect); driver_impl.cpp:100-166 (Step), 182-229 (ToDo*, Async*);
todo_impl.cpp:32-51,76-88.
-/
namespace SockModel.Lifecycle

inductive Kind where | tcp | udp | acc
  deriving DecidableEq, Repr

inductive Peer where | up | closed | reset
  deriving DecidableEq, Repr

inductive Fut where
  | pending
  | value
  | exn
  /-- the write went to a peer that had already closed: the kernel may accept or refuse it -/
  | either
  /-- `std::future_error(broken_promise)`: the promise was destroyed with the socket -/
  | broken
  deriving DecidableEq, Repr

inductive Variant where | fixed | legacy
  deriving DecidableEq, Repr

structure Sock where
  present : Bool := false
  alive : Bool := false
  kind : Kind := .tcp
  drv : Nat := 0
  peer : Peer := .up
  /-- inbound chunks / datagrams / connections not yet delivered -/
  rx : Nat := 0
  /-- queued sends: ids of their futures, FIFO -/
  sendQ : List Nat := []
  /-- receive buffers of the internal pool still held by the user -/
  held : Nat := 0
  /-- user's disconnect handler destroys the socket (as the repo's tcp async test does) -/
  onDisc : Bool := false
  /-- user's receive handler keeps the buffer -/
  holdRx : Bool := false
  /-- user's receive handler destroys the socket (against the rules) -/
  selfDestroyInRecv : Bool := false
  /-- (environment) the next `send()` the driver issues on this socket fails (ECONNRESET/EPIPE) -/
  failSend : Bool := false
  deriving Repr

structure Drv where
  present : Bool := false
  alive : Bool := false
  /-- `sockets` (descriptor = socket id), registration order -/
  sockets : List Nat := []
  /-- `pfds` without the pipe entry: (descriptor, POLLOUT requested) -/
  pfds : List (Nat × Bool) := []
  /-- scheduled ToDos in due order (all due) -/
  todos : List Nat := []
  deriving Repr

structure Todo where
  present : Bool := false
  handle : Bool := false
  drv : Nat := 0
  deriving Repr

inductive Ev where
  | recv (s : Nat) | recvFrom (s : Nat) | conn (s : Nat) | disc (s : Nat) | todo (t : Nat)
  | fut (id : Nat) (st : Fut)
  deriving DecidableEq, Repr

/-- number of receive buffers of a socket's internal pool (`rxBufCount` in the harness) -/
def rxCap : Nat := 2
/-- size of the user's send pool -/
def poolCap : Nat := 4

structure St where
  drv : Nat → Drv := fun _ => {}
  sock : Nat → Sock := fun _ => {}
  todo : Nat → Todo := fun _ => {}
  /-- future id ↦ (socket, state) -/
  futs : Nat → Option (Nat × Fut) := fun _ => none
  /-- number of futures handed out so far (ids are `0 … nfut-1`) -/
  nfut : Nat := 0
  /-- the buffer of send `id` is a RECEIVE buffer of the socket's own internal pool that the user handed back to
  `Send` (`Op.echo`), not a buffer of the user's send pool -/
  echo : Nat → Bool := fun _ => false
  poolAlive : Bool := true
  ub : Option String := none
  log : List Ev := []      -- newest first

inductive Op where
  | mkDriver (d : Nat)
  | mkSock (s : Nat) (k : Kind) (d : Nat) (onDisc holdRx selfDestroyInRecv : Bool)
  | send (s : Nat)
  | step (d : Nat)
  | peerSend (s : Nat) | peerClose (s : Nat) | peerReset (s : Nat) | peerConnect (s : Nat)
  /-- (environment) make the next driver-side `send()` of TCP socket `s` fail -/
  | sendFail (s : Nat)
  | release (s : Nat)
  | destroySock (s : Nat)
  | destroyDriver (d : Nat)
  | mkTodo (t d : Nat) (scheduled : Bool)
  | cancel (t : Nat) | shift (t : Nat) | dropTodo (t : Nat)
  | destroyPool
  /-- the user passes the most recently received buffer it holds of socket `s` - a buffer of the socket's own
  receive pool - to `Send`/`SendTo` of the same socket (the echo idiom of the repository's performance test).
  For the model this is a `send` that takes nothing from the user's send pool and returns one held receive
  buffer to the library; the buffer stays out of the receive pool until the send is resolved or the socket
  dies.  NOTE (what the model does NOT say): that a queued receive buffer can be given back when the socket is
  destroyed rests on the order in which the C++ destroys the members of `SocketAsyncImpl` (send queue before
  `buff`, i.e. before the receive pool) - RAII below the model, "modelled, not verified".  The model has no
  notion of member destruction order and declares `destroySock` with a queued echo legal and free of UB; the
  evidence for the real code is the harness executing exactly such histories under ASan / assertions, where a
  wrong order shows as a crash (= `spec` failure, clause "crash"). -/
  | echo (s : Nat)
  deriving DecidableEq, Repr

def St.setDrv (s : St) (d : Nat) (v : Drv) : St := { s with drv := fun x => if x = d then v else s.drv x }
def St.setSock (s : St) (i : Nat) (v : Sock) : St := { s with sock := fun x => if x = i then v else s.sock x }
def St.setTodo (s : St) (t : Nat) (v : Todo) : St := { s with todo := fun x => if x = t then v else s.todo x }
def St.emit (s : St) (e : Ev) : St := { s with log := e :: s.log }
def St.fail (s : St) (why : String) : St := { s with ub := some why }

def erasePfd : List (Nat × Bool) → Nat → List (Nat × Bool)
  | [], _ => []
  | p :: ps, fd => if p.1 = fd then ps else p :: erasePfd ps fd

def setOut : List (Nat × Bool) → Nat → Bool → List (Nat × Bool)
  | [], _, _ => []
  | p :: ps, fd, v => if p.1 = fd then (fd, v) :: ps else p :: setOut ps fd v

/-- `AsyncUnregister`: both vectors tolerate an already-removed entry -/
def Drv.unregister (d : Drv) (fd : Nat) : Drv :=
  { d with sockets := d.sockets.erase fd, pfds := erasePfd d.pfds fd }

def St.isPending (s : St) (j : Nat) : Bool :=
  match s.futs j with
  | some (_, .pending) => true
  | _ => false

/-- send `j` is still pending and its buffer belongs to the user's send pool -/
def St.isPoolPending (s : St) (j : Nat) : Bool := s.isPending j && !s.echo j

/-- buffers of the user's send pool that are out: one per send (not echo) whose future is still pending -/
def St.poolBusy (s : St) : Nat := ((List.range s.nfut).filter s.isPoolPending).length

/-- receive buffers of socket record `k` that sit in its own send queue (echoed, not yet sent) -/
def St.lent (s : St) (k : Sock) : Nat := (k.sendQ.filter s.echo).length

/-- resolve future `id` -/
def St.resolve (s : St) (id : Nat) (v : Fut) : St :=
  { s with futs := fun j => if j = id then (s.futs id).map (fun (p : Nat × Fut) => (p.1, v)) else s.futs j,
           log := .fut id v :: s.log }

/-- `~SocketAsyncImpl` (+ members): unregister if the driver still exists; the queue dies with its
promises (broken) and returns its buffers to the send pool; the internal receive pool dies -/
def St.destroySockObj (s : St) (i : Nat) : St :=
  let k := s.sock i
  let ech := s.echo
  let s := if k.held > 0 then s.fail "socket destroyed while receive buffers of its pool are still held" else s
  let s := if (s.drv k.drv).alive then s.setDrv k.drv ((s.drv k.drv).unregister i) else s
  let s := if k.sendQ.any (fun id => !ech id) = true ∧ ¬ s.poolAlive then s.fail "send buffer returned to a destroyed pool" else s
  let s := { s with futs := fun j => if j ∈ k.sendQ then (s.futs j).map (fun (p : Nat × Fut) => (p.1, Fut.broken)) else s.futs j,
                    log := (k.sendQ.map fun id => Ev.fut id .broken).reverse ++ s.log }
  s.setSock i { k with alive := false, sendQ := [] }

/-- `DriverDisconnect`: unregister, then the user's handler (which may destroy the socket) -/
def St.disconnect (s : St) (i : Nat) : St :=
  let k := s.sock i
  let s := if (s.drv k.drv).alive then s.setDrv k.drv ((s.drv k.drv).unregister i) else s
  let s := s.emit (.disc i)
  if k.onDisc then s.destroySockObj i else s

def Sock.readable (k : Sock) : Bool :=
  match k.kind with
  | .tcp => k.rx > 0 || k.peer != .up
  | _ => k.rx > 0

inductive Task where | read (i : Nat) | write (i : Nat)
  deriving Repr

/-- `DoOneSocketTask`'s scan over the two vectors -/
def scan (sock : Nat → Sock) : List Nat → List (Nat × Bool) → Except String (Option Task)
  | [], [] => .ok none
  | x :: xs, p :: ps =>
    if p.1 ≠ x then .error "sockets/pfds out of step"
    else if ¬ (sock x).alive then .error "sockets entry refers to a destroyed socket"
    else if (sock x).readable then .ok (some (.read x))
    else if p.2 then .ok (some (.write x))
    else scan sock xs ps
  | _, _ => .error "sockets/pfds differ in length"

def St.onReadable (s : St) (i : Nat) : St :=
  let k := s.sock i
  match k.kind with
  | .tcp =>
    if k.rx > 0 then
      if k.held + s.lent k ≥ rxCap then s.disconnect i     -- "out of buffers" is a runtime_error: routed to onError
      else
        let s := s.emit (.recv i)
        if k.selfDestroyInRecv then s.fail "socket destroyed inside its own receive handler"
        else s.setSock i { k with rx := k.rx - 1, held := if k.holdRx then k.held + 1 else k.held }
    else s.disconnect i
  | .udp =>
    if k.held + s.lent k ≥ rxCap then s      -- out of buffers: error discarded (UDP onError is a no-op)
    else
      let s := s.emit (.recvFrom i)
      if k.selfDestroyInRecv then s.fail "socket destroyed inside its own receive handler"
      else s.setSock i { k with rx := k.rx - 1, held := if k.holdRx then k.held + 1 else k.held }
  | .acc => (s.emit (.conn i)).setSock i { k with rx := k.rx - 1 }

def St.onWritable (s : St) (i : Nat) : St :=
  let k := s.sock i
  match k.sendQ with
  | [] => s
  | id :: rest =>
    -- `DriverSend`: a failing send puts the exception into the promise; the element is popped all the same,
    -- nobody else is told (no disconnect handler, no unregister)
    let v := if k.kind = .tcp ∧ k.failSend then Fut.exn
             else if k.kind = .tcp ∧ k.peer ≠ .up then Fut.either else Fut.value
    let s := s.resolve id v
    let s := s.setSock i { k with sendQ := rest, failSend := if k.kind = .tcp then false else k.failSend }
    if rest.isEmpty then s.setDrv k.drv { (s.drv k.drv) with pfds := setOut (s.drv k.drv).pfds i false } else s

/-- `StepTodos` with a zero deadline: at most one due task -/
def St.runTodo (s : St) (d : Nat) : St :=
  match (s.drv d).todos with
  | [] => s
  | t :: rest => (s.setDrv d { (s.drv d) with todos := rest }).emit (.todo t)

/-- `StepSockets(0)`: poll, then one socket task -/
def St.stepSockets (s : St) (d : Nat) : St :=
  match scan s.sock (s.drv d).sockets (s.drv d).pfds with
  | .error why => s.fail why
  | .ok none => s
  | .ok (some (.read i)) => s.onReadable i
  | .ok (some (.write i)) => s.onWritable i

/-- `Driver::Step(Duration(0))` -/
def St.step (s : St) (d : Nat) : St := (s.runTodo d).stepSockets d

def St.wantSend (v : Variant) (s : St) (i : Nat) : St :=
  let k := s.sock i
  let d := s.drv k.drv
  if ¬ d.alive then s                     -- weak pointer expired: nothing to do
  else if d.pfds.any (·.1 = i) then s.setDrv k.drv { d with pfds := setOut d.pfds i true }
  else match v with
    | .fixed => s                         -- already unregistered after the peer disconnected
    | .legacy => s.fail "AsyncWantSend writes through pfds.end()"

/-- `DoSendEnqueue`: a new promise/future pair and the buffer go to the back of the queue
(`e`: the buffer is a receive buffer of the socket's own pool) -/
def St.enqueue (s : St) (i : Nat) (e : Bool := false) : St :=
  { s.setSock i { (s.sock i) with sendQ := (s.sock i).sendQ ++ [s.nfut] } with
      futs := fun j => if j = s.nfut then some (i, .pending) else s.futs j, nfut := s.nfut + 1,
      echo := fun j => if j = s.nfut then e else s.echo j }

def exec (v : Variant) (s : St) (op : Op) : St :=
  if s.ub.isSome then s else
  match op with
  | .mkDriver d =>
    if (s.drv d).present then s.fail "driver id reused" else s.setDrv d { present := true, alive := true }
  | .mkSock i k d onDisc holdRx sdr =>
    if (s.sock i).present then s.fail "socket id reused" else
    if ¬ (s.drv d).alive then s.fail "socket attached to a driver that does not exist" else
    let s := s.setSock i { present := true, alive := true, kind := k, drv := d, onDisc := onDisc, holdRx := holdRx,
                           selfDestroyInRecv := sdr }
    s.setDrv d { (s.drv d) with sockets := (s.drv d).sockets ++ [i], pfds := (s.drv d).pfds ++ [(i, false)] }
  | .send i =>
    let k := s.sock i
    if ¬ k.alive then s.fail "Send on a socket that does not exist (any more)" else
    if ¬ s.poolAlive then s.fail "buffer taken from a destroyed pool" else
    if k.sendQ.isEmpty then (s.enqueue i).wantSend v i else s.enqueue i
  | .echo i =>
    let k := s.sock i
    if ¬ k.alive then s.fail "Send on a socket that does not exist (any more)" else
    if k.held = 0 then s.fail "echo of a receive buffer the user does not hold" else
    let s1 := s.setSock i { k with held := k.held - 1 }
    if k.sendQ.isEmpty then (s1.enqueue i true).wantSend v i else s1.enqueue i true
  | .step d => if ¬ (s.drv d).alive then s.fail "Step on a driver that does not exist (any more)" else s.step d
  -- a TCP stream coalesces what is unread (the harness' chunks are far smaller than a receive buffer)
  | .peerSend i => s.setSock i { (s.sock i) with rx := if (s.sock i).kind = .tcp then 1 else (s.sock i).rx + 1 }
  | .peerConnect i => s.setSock i { (s.sock i) with rx := (s.sock i).rx + 1 }
  | .peerClose i => s.setSock i { (s.sock i) with peer := if (s.sock i).peer = .up then .closed else (s.sock i).peer }
  | .peerReset i => s.setSock i { (s.sock i) with peer := if (s.sock i).peer = .up then .reset else (s.sock i).peer }
  | .sendFail i => s.setSock i { (s.sock i) with failSend := true }
  | .release i => s.setSock i { (s.sock i) with held := 0 }
  | .destroySock i =>
    if ¬ (s.sock i).alive then s.fail "socket destroyed twice / never created" else s.destroySockObj i
  | .destroyDriver d =>
    if ¬ (s.drv d).alive then s.fail "driver destroyed twice / never created" else
    s.setDrv d { (s.drv d) with alive := false, todos := [] }
  | .mkTodo t d scheduled =>
    if (s.todo t).present then s.fail "ToDo id reused" else
    if ¬ (s.drv d).alive then s.fail "ToDo created on a driver that does not exist" else
    let s := s.setTodo t { present := true, handle := true, drv := d }
    if scheduled then s.setDrv d { (s.drv d) with todos := (s.drv d).todos ++ [t] } else s
  | .cancel t =>
    let td := s.todo t
    if ¬ td.handle then s.fail "use of a ToDo handle that does not exist" else
    if (s.drv td.drv).alive then s.setDrv td.drv { (s.drv td.drv) with todos := (s.drv td.drv).todos.erase t } else s
  | .shift t =>
    let td := s.todo t
    if ¬ td.handle then s.fail "use of a ToDo handle that does not exist" else
    if (s.drv td.drv).alive then s.setDrv td.drv { (s.drv td.drv) with todos := (s.drv td.drv).todos.erase t ++ [t] } else s
  | .dropTodo t =>
    if ¬ (s.todo t).handle then s.fail "ToDo handle destroyed twice" else s.setTodo t { (s.todo t) with handle := false }
  | .destroyPool =>
    if ¬ s.poolAlive then s.fail "pool destroyed twice" else
    if s.poolBusy > 0 then s.fail "pool destroyed with busy buffers" else { s with poolAlive := false }

def run (v : Variant) (s : St) : List Op → St
  | [] => s
  | op :: rest => run v (exec v s op) rest

/-- the usage rules (headers, tests, examples); looks at object existence and at what the user holds,
never at `ub` -/
def legalOp (s : St) : Op → Bool
  | .mkDriver d => ! (s.drv d).present
  | .mkSock i _ d onDisc holdRx sdr =>
    ! (s.sock i).present && (s.drv d).alive && ! sdr       -- no self-destruction in the receive handler
      && ! (onDisc && holdRx)                               -- ... nor with receive buffers in hand
  | .send i => (s.sock i).alive && (s.sock i).kind != .acc && s.poolAlive && s.poolBusy < poolCap
  -- the user holds a receive buffer of the socket (hence `holdRx`); the user's send pool is not involved
  | .echo i => (s.sock i).alive && (s.sock i).kind != .acc && (s.sock i).held > 0
  | .step d => (s.drv d).alive
  | .peerSend i => (s.sock i).present && (s.sock i).kind != .acc && (s.sock i).peer == .up
  | .peerConnect i => (s.sock i).present && (s.sock i).kind == .acc
  | .peerClose i => (s.sock i).present && (s.sock i).kind == .tcp
  -- (environment) a reset is only explored when nothing is in flight towards a live socket: what the kernel does
  -- with unread data on RST is not modelled
  | .peerReset i => (s.sock i).present && (s.sock i).kind == .tcp && (! (s.sock i).alive || (s.sock i).rx == 0)
  | .sendFail i => (s.sock i).alive && (s.sock i).kind == .tcp
  | .release i => (s.sock i).present
  | .destroySock i => (s.sock i).alive && (s.sock i).held == 0    -- the internal pool outlives its buffers
  | .destroyDriver d => (s.drv d).alive
  | .mkTodo t d _ => ! (s.todo t).present && (s.drv d).alive
  | .cancel t => (s.todo t).handle
  | .shift t => (s.todo t).handle
  | .dropTodo t => (s.todo t).handle
  | .destroyPool => s.poolAlive && s.poolBusy == 0              -- the send pool outlives its buffers

def legalFrom (v : Variant) (s : St) : List Op → Bool
  | [] => true
  | op :: rest => legalOp s op && legalFrom v (exec v s op) rest

def legal (h : List Op) : Bool := legalFrom .fixed {} h

end SockModel.Lifecycle

import SockModel.Model.Pool
/-! Helper lemmas for the C10 theorems (invariant of `BufferPool`). -/
namespace SockModel.Pool

/-- The pool invariant for a pool created as `BufferPool(n, r)`. -/
structure PoolInv (n r : Nat) (p : Pool) : Prop where
  nodup   : (p.idle ++ p.busy).Nodup
  below   : ∀ b ∈ p.idle ++ p.busy, b < p.next
  maxM1   : p.maxM1 = (n + sizeMax - 1) % sizeMax
  conserv : 0 < n → p.idle.length + p.busy.length = n ∧ p.next = n
  capRes  : 0 < n → ∀ b, b < n → r ≤ p.cap b

theorem maxM1_pos {n : Nat} (h : 0 < n) (hn : n < sizeMax) : (n + sizeMax - 1) % sizeMax = n - 1 := by
  have : n + sizeMax - 1 = (n - 1) + sizeMax := by omega
  rw [this, Nat.add_mod_right]
  exact Nat.mod_eq_of_lt (by omega)

theorem maxM1_zero : (0 + sizeMax - 1) % sizeMax = sizeMax - 1 := by
  simp [sizeMax]

theorem inv_create (n r : Nat) : PoolInv n r (create n r) := by
  refine ⟨?_, ?_, rfl, ?_, ?_⟩
  · simpa [create] using (List.reverse_perm _).nodup_iff.mpr (List.nodup_range (n := n))
  · intro b hb
    simp [create] at hb
    simpa [create] using hb
  · intro _; simp [create]
  · intro _ b hb; simp [create, hb]

theorem inv_get {n r : Nat} {p p' : Pool} {b : BufId} (hn : n < sizeMax)
    (h : PoolInv n r p) (hg : get p = .ok b p') : PoolInv n r p' := by
  unfold get at hg
  split at hg
  · -- idle empty
    rename_i hidle
    split at hg
    · rename_i hle
      cases hg
      have hnd := h.nodup
      have hbel := h.below
      simp only [hidle, List.nil_append] at hnd hbel
      refine ⟨?_, ?_, h.maxM1, ?_, ?_⟩
      · simp only [hidle, List.nil_append]
        rw [List.nodup_append]
        refine ⟨hnd, by simp, ?_⟩
        intro a ha c hc
        simp at hc; subst hc
        exact Nat.ne_of_lt (hbel a ha)
      · intro c hc
        simp only [hidle, List.nil_append, List.mem_append, List.mem_singleton] at hc
        rcases hc with hc | hc
        · exact Nat.lt_succ_of_lt (hbel c hc)
        · subst hc; exact Nat.lt_succ_self _
      · intro hpos
        -- with a positive limit and nothing idle, busy.length = n > maxM1 = n-1: contradiction
        have hc := h.conserv hpos
        have hm := h.maxM1
        rw [maxM1_pos hpos hn] at hm
        simp only [hidle, List.length_nil, Nat.zero_add] at hc
        exfalso
        have h1 := hc.1
        omega
      · intro hpos c hc
        have hc' := h.conserv hpos
        have : c ≠ p.next := by omega
        simp [upd, this]
        exact h.capRes hpos c hc
    · cases hg
  · rename_i b0 rest hidle
    cases hg
    have hnd := h.nodup
    have hbel := h.below
    simp only [hidle] at hnd hbel
    refine ⟨?_, ?_, h.maxM1, ?_, ?_⟩
    · -- (rest ++ (busy ++ [b])) is a permutation of (b :: rest ++ busy)
      have hperm : (rest ++ (p.busy ++ [b])).Perm (b :: rest ++ p.busy) := by
        have : (rest ++ (p.busy ++ [b])) = (rest ++ p.busy) ++ [b] := by simp
        rw [this]
        exact (List.perm_append_singleton b (rest ++ p.busy))
      exact hperm.nodup_iff.mpr hnd
    · intro c hc
      apply hbel
      simp only [List.mem_append, List.cons_append, List.mem_cons] at hc ⊢
      rcases hc with hc | hc | hc
      · exact Or.inr (Or.inl hc)
      · exact Or.inr (Or.inr hc)
      · rcases hc with hc | hc
        · exact Or.inl hc
        · cases hc
    · intro hpos
      have hc := h.conserv hpos
      simp only [hidle, List.length_cons] at hc
      refine ⟨?_, hc.2⟩
      have h1 := hc.1
      simp only [List.length_append, List.length_cons, List.length_nil]
      omega
    · intro hpos c hc
      exact h.capRes hpos c hc

theorem inv_recycle {n r : Nat} {p p' : Pool} {b : BufId}
    (h : PoolInv n r p) (hr : recycle p b = some p') : PoolInv n r p' := by
  unfold recycle at hr
  split at hr
  · rename_i hmem
    cases hr
    have hnd := h.nodup
    have hperm : (b :: p.idle ++ p.busy.erase b).Perm (p.idle ++ p.busy) := by
      have h1 : (b :: p.busy.erase b).Perm p.busy := (List.perm_cons_erase hmem).symm
      have h2 : (b :: p.idle ++ p.busy.erase b).Perm (p.idle ++ (b :: p.busy.erase b)) := by
        simpa using (List.perm_middle (a := b) (l₁ := p.idle) (l₂ := p.busy.erase b)).symm
      exact h2.trans (List.Perm.append_left _ h1)
    refine ⟨hperm.nodup_iff.mpr hnd, ?_, h.maxM1, ?_, h.capRes⟩
    · intro c hc
      exact h.below c (hperm.subset hc)
    · intro hpos
      have hc := h.conserv hpos
      have hl := hperm.length_eq
      refine ⟨?_, hc.2⟩
      have h1 := hc.1
      simp only [List.length_append, List.length_cons] at hl h1 ⊢
      omega
  · cases hr

theorem inv_fill {n r : Nat} {p : Pool} (b m : Nat) (h : PoolInv n r p) : PoolInv n r (fill p b m) := by
  unfold fill
  split
  · refine ⟨h.nodup, h.below, h.maxM1, h.conserv, ?_⟩
    intro hpos c hc
    by_cases hcb : c = b
    · subst hcb; simp only [upd_same]; exact Nat.le_trans (h.capRes hpos c hc) (Nat.le_max_left _ _)
    · simp [upd, hcb]; exact h.capRes hpos c hc
  · exact h

theorem inv_step {n r : Nat} {p : Pool} (hn : n < sizeMax) (h : PoolInv n r p) (op : Op) :
    PoolInv n r (step p op) := by
  cases op with
  | get =>
    simp only [step]
    cases hg : get p with
    | ok b p' => exact inv_get hn h hg
    | outOfBuffers => exact h
  | rel b =>
    simp only [step]
    cases hr : recycle p b with
    | some p' => exact inv_recycle h hr
    | none => exact h
  | fill b m => exact inv_fill b m h

theorem inv_run {n r : Nat} {p : Pool} (hn : n < sizeMax) (h : PoolInv n r p) (ops : List Op) :
    PoolInv n r (run p ops) := by
  induction ops generalizing p with
  | nil => exact h
  | cons op ops ih => exact ih (inv_step hn h op)

end SockModel.Pool

import SockModel.Generated.Consts
/-
Socket layer used by the TLS glue (C18) and the peer-failure slice (C15):
`WaitReadable/WaitWritable`, `ReceiveNow`, `Receive`, `SendNow`, `SendAll`,
`SendTry`, `SendSome` of src/socket_impl.cpp:306-382 and src/wait.cpp.

(The lead's `Model/SendLoop.lean` for C01 is written concurrently; until the two
are unified this file defines what C18/C15 need, in its own namespace.)

The operating system is an explicit argument, in the most general form a
deterministic model can take: a *world* `ω` with three answer functions and a
clock.  A list of scripted answers is one instance (`Script`, below), a pair of
TCP byte queues another (`Model/TlsHs.lean`).  Theorems quantify over every
world, i.e. every adaptive environment, not only over answer lists.

Simplifications, all named here:
* time is whole milliseconds (the virtual clock of the harness advances in ms);
  nanosecond truncation is C07's business;
* a failing `poll` (other than EINTR, which wait.cpp retries) is not modelled;
* `send` answering more than it was given is impossible for a kernel and is
  clamped (`min k len`).
-/
namespace SockModel.Net

abbrev Bytes := List UInt8

inductive Dir where
  | rd   -- POLLIN
  | wr   -- POLLOUT
  deriving DecidableEq, Repr

/-- the C++ exception classes that matter to callers: `std::system_error`
(an OS error code, or an OpenSSL error), a plain `std::runtime_error`
("connection closed", TLS zero return), and `std::logic_error` (which the
driver's `catch(std::runtime_error const &)` does NOT catch). -/
inductive Exn where
  | system (errno : Nat)     -- std::system_error(SocketError())
  | sslError                 -- std::system_error(SslError(SSL_ERROR_SSL))
  | closed                   -- std::runtime_error("connection closed") / TLS zero return
  | logic (what : String)    -- std::logic_error
  deriving DecidableEq, Repr

def Exn.isRuntime : Exn → Bool
  | .logic _ => false
  | _ => true

inductive SendAns where
  | accept (k : Nat)
  | fail (errno : Nat)
  deriving DecidableEq, Repr

inductive RecvAns where
  | data (bs : Bytes)        -- `data []` is `recv() == 0`: the peer closed
  | fail (errno : Nat)
  deriving DecidableEq, Repr

/-- the environment of one descriptor -/
structure World (ω : Type) where
  /-- `poll(fd, dir, timeoutMs)`; `true` = a positive result (readable / writable / HUP / ERR) -/
  wait : ω → Dir → Int → Bool × ω
  /-- `send(fd, bytes, MSG_NOSIGNAL)` -/
  send : ω → Bytes → SendAns × ω
  /-- `recv(fd, buf, n, 0)` -/
  recv : ω → Nat → RecvAns × ω
  /-- `steady_clock::now()` in ms -/
  now : ω → Int

/-- result of a send function: bytes accepted by the kernel so far, the raw bytes in order,
and the exception that ended the call, if any -/
structure SendRes (ω : Type) where
  sent : Nat
  exn : Option Exn
  w : ω

/-- result of a receive function -/
inductive RecvRes (ω : Type) where
  | got (bs : Bytes) (w : ω)      -- `bs` nonempty
  | nothing (w : ω)               -- timeout (`std::nullopt`)
  | exn (e : Exn) (w : ω)

def RecvRes.world {ω : Type} : RecvRes ω → ω
  | .got _ w => w
  | .nothing w => w
  | .exn _ w => w

variable {ω : Type}

/-- `SendNow`: one `send`; `< 0` => system_error, `0` on a non-empty buffer => logic_error -/
def sendNow (W : World ω) (w : ω) (bs : Bytes) : SendRes ω :=
  match W.send w bs with
  | (.fail e, w') => ⟨0, some (.system e), w'⟩
  | (.accept k, w') =>
    if k = 0 ∧ bs ≠ [] then ⟨0, some (.logic "unexpected send result"), w'⟩
    else ⟨min k bs.length, none, w'⟩

theorem sendNow_le (W : World ω) (w : ω) (bs : Bytes) : (sendNow W w bs).sent ≤ bs.length := by
  unfold sendNow
  split
  · simp
  · split
    · simp
    · exact Nat.min_le_right _ _

theorem sendNow_pos (W : World ω) (w : ω) (bs : Bytes) (h : bs ≠ []) (hx : (sendNow W w bs).exn = none) :
    0 < (sendNow W w bs).sent := by
  unfold sendNow at hx ⊢
  split
  · rename_i heq; rw [heq] at hx; simp at hx
  · rename_i k w' heq
    rw [heq] at hx
    simp only at hx ⊢
    split
    · rename_i hk; rw [if_pos hk] at hx; simp at hx
    · rename_i hk
      have hl : 0 < bs.length := List.length_pos_iff.mpr h
      have : k ≠ 0 := fun h0 => hk ⟨h0, h⟩
      show 0 < min k bs.length
      omega

/-- `ReceiveNow`: one `recv`; `< 0` => system_error, `0` => runtime_error("connection closed") -/
def recvNow (W : World ω) (w : ω) (n : Nat) : RecvRes ω :=
  match W.recv w n with
  | (.fail e, w') => .exn (.system e) w'
  | (.data bs, w') => if bs.take n = [] then .exn .closed w' else .got (bs.take n) w'

/-- `Receive(fd, data, size, timeout)`: wait, then `ReceiveNow` -/
def receive (W : World ω) (w : ω) (n : Nat) (timeout : Int) : RecvRes ω :=
  match W.wait w .rd timeout with
  | (false, w') => .nothing w'
  | (true, w') => recvNow W w' n

/-- `SendAll`: `do { (void)WaitWritable(-1); sent = SendNow(rest); rest.remove_prefix(sent); } while(!rest.empty())`.
`acc` = bytes accepted before this iteration.  (The last branch is unreachable - `SendNow` either throws or
accepts at least one byte of a non-empty buffer, `sendNow_pos` - and only keeps the termination argument local.) -/
def sendAll (W : World ω) (w : ω) (bs : Bytes) (acc : Nat := 0) : SendRes ω :=
  let r := sendNow W (W.wait w .wr (-1)).2 bs
  if r.exn.isSome then ⟨acc + r.sent, r.exn, r.w⟩
  else if hrest : bs.drop r.sent = [] then ⟨acc + r.sent, none, r.w⟩
  else if hpos : 0 < r.sent then sendAll W r.w (bs.drop r.sent) (acc + r.sent)
  else ⟨acc + r.sent, some (.logic "unreachable"), r.w⟩
termination_by bs.length
decreasing_by
  have hne : bs ≠ [] := by
    intro h; apply hrest; simp [h]
  have hl : 0 < bs.length := List.length_pos_iff.mpr hne
  have hp : 0 < (sendNow W (W.wait w .wr (-1)).2 bs).sent := hpos
  have hle := sendNow_le W (W.wait w .wr (-1)).2 bs
  simp only [List.length_drop]
  omega

/-- `SendTry`: writable right now? then one `SendNow` -/
def sendTry (W : World ω) (w : ω) (bs : Bytes) : SendRes ω :=
  match W.wait w .wr 0 with
  | (false, w') => ⟨0, none, w'⟩
  | (true, w') => sendNow W w' bs

/-- `Remaining()` of a `DeadlineLimited` whose last `Tick` read `now` -/
def remainingMs (deadline now : Int) : Int := if deadline - now < 0 then 0 else deadline - now

/-- `SendSome(fd, data, size, deadline)`:
`do { if(!WaitWritable(deadline.Remaining())) break; deadline.Tick(); sent = SendNow(rest); ... }
 while(!rest.empty() && deadline.TimeLeft())`.
Returns the result and the clock reading of the last `Tick` (for `deadline.Remaining()` afterwards). -/
def sendSome (W : World ω) (w : ω) (bs : Bytes) (deadline : Int) (tick : Int) (acc : Nat := 0) : SendRes ω × Int :=
  let wt := W.wait w .wr (remainingMs deadline tick)
  if wt.1 = false then (⟨acc, none, wt.2⟩, tick)
  else
    let tick' := W.now wt.2
    let r := sendNow W wt.2 bs
    if r.exn.isSome then (⟨acc + r.sent, r.exn, r.w⟩, tick')
    else if hrest : bs.drop r.sent = [] then (⟨acc + r.sent, none, r.w⟩, tick')
    else if tick' < deadline then
      if hpos : 0 < r.sent then sendSome W r.w (bs.drop r.sent) deadline tick' (acc + r.sent)
      else (⟨acc + r.sent, some (.logic "unreachable"), r.w⟩, tick')
    else (⟨acc + r.sent, none, r.w⟩, tick')
termination_by bs.length
decreasing_by
  have hne : bs ≠ [] := by
    intro h; apply hrest; simp [h]
  have hl : 0 < bs.length := List.length_pos_iff.mpr hne
  have hp : 0 < (sendNow W (W.wait w .wr (remainingMs deadline tick)).2 bs).sent := hpos
  have hle := sendNow_le W (W.wait w .wr (remainingMs deadline tick)).2 bs
  simp only [List.length_drop]
  omega

/-- `SocketImpl::Send(data, size, timeout)`: dispatch on the sign of the timeout -/
def send (W : World ω) (w : ω) (bs : Bytes) (timeout : Int) : SendRes ω :=
  if timeout < 0 then sendAll W w bs
  else if timeout = 0 then sendTry W w bs
  else (sendSome W w bs (W.now w + timeout) (W.now w)).1

/-! ### scripted world

Answers are taken from three lists; when a list is exhausted the *default* answers apply.
With `dead := true` the defaults are the kernel's reaction to a vanished peer (assumption
K1, DESIGN §5 C15): `poll` reports the descriptor ready (HUP/ERR count), `send` fails
(`EPIPE`), `recv` reports end of stream.  With `dead := false` the defaults are a silent,
healthy peer: nothing becomes readable, writes are accepted in full.
Every call is logged (`calls`, newest first). -/

inductive Call where
  | wait (d : Dir) (timeout : Int) (ready : Bool)
  | send (bs : Bytes) (ans : SendAns) (noSignal : Bool)   -- `noSignal`: MSG_NOSIGNAL is part of `sendFlags`
  | recv (n : Nat) (ans : RecvAns)
  deriving DecidableEq, Repr

/-- a scripted `poll` answer: readiness and the (virtual) milliseconds that passed inside it -/
structure WaitAns where
  ready : Bool
  elapsed : Nat := 0
  deriving DecidableEq, Repr

structure Script where
  waits : List WaitAns := []
  sends : List SendAns := []
  recvs : List RecvAns := []
  dead : Bool := true
  clock : Int := 0
  calls : List Call := []

def epipe : Nat := 32

/-- the single place the library's `send` flags enter the model: `sendFlags` of socket_impl.cpp, as extracted
from the source on this run (Generated/Consts.lean) -/
def sendNoSignal : Bool := SockModel.Consts.sendNoSignal

def Script.world : World Script where
  wait s d t :=
    match s.waits with
    | a :: rest => (a.ready, { s with waits := rest, clock := s.clock + a.elapsed, calls := .wait d t a.ready :: s.calls })
    | [] =>
      if s.dead then (true, { s with calls := .wait d t true :: s.calls })
      else
        let ready := (d == .wr)
        -- a silent healthy peer: never readable; the wait sits out its (non-negative) timeout
        let el : Int := if ready then 0 else if t > 0 then t else 0
        (ready, { s with clock := s.clock + el, calls := .wait d t ready :: s.calls })
  send s bs :=
    match s.sends with
    | a :: rest => (a, { s with sends := rest, calls := .send bs a sendNoSignal :: s.calls })
    | [] =>
      let a := if s.dead then SendAns.fail epipe else SendAns.accept bs.length
      (a, { s with calls := .send bs a sendNoSignal :: s.calls })
  recv s n :=
    match s.recvs with
    | a :: rest => (a, { s with recvs := rest, calls := .recv n a :: s.calls })
    | [] =>
      let a := if s.dead then RecvAns.data [] else RecvAns.fail 11
      (a, { s with calls := .recv n a :: s.calls })
  now s := s.clock

/-- the raw bytes the kernel accepted, oldest first, reconstructed from the call log -/
def wireOf : List Call → Bytes
  | [] => []
  | .send bs (.accept k) _ :: older => wireOf older ++ bs.take k
  | _ :: older => wireOf older

def Script.wire (s : Script) : Bytes := wireOf s.calls

end SockModel.Net

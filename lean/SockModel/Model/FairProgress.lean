/-!
Fair progress of a two-sided transition system, abstractly (used for the compositions of `Model/HsAsync.lean`; the
concrete development for `Sys` in `Model/HsSched.lean` is the same argument).

Two sides take steps in any order.  There is an invariant, a measure that no step increases and that a step of a side
which *can progress* strictly decreases; a step of one side does not take the other side's ability to progress away;
while the system is unfinished some side can progress; measure 0 means finished.  Then every schedule in which each
side steps at least once in every window of `w` steps finishes within `w · mu` steps.
-/
namespace SockModel.Fair

structure TS (S A : Type) where
  step : S → A → S
  inv : S → Prop
  mu : S → Nat
  /-- which side takes the step; `none` = a neutral step (e.g. the user of an asynchronous socket queues a buffer) -/
  side : A → Option Bool
  can : S → Bool → Prop
  fin : S → Prop
  ok : A → Prop
  step_ok : ∀ s a, inv s → ok a →
    inv (step s a) ∧ mu (step s a) ≤ mu s ∧ (∀ r, side a = some r → can s r → mu (step s a) < mu s) ∧
    (∀ r, side a ≠ some r → can s r → can (step s a) r) ∧ (fin s → fin (step s a))
  live : ∀ s, inv s → ¬ fin s → can s true ∨ can s false
  zero : ∀ s, inv s → mu s = 0 → fin s

variable {S A : Type}

def TS.run (T : TS S A) (l : List A) (s : S) : S := l.foldl T.step s

def TS.BothSides (T : TS S A) (v : List A) : Prop :=
  (∃ a ∈ v, T.side a = some true) ∧ (∃ a ∈ v, T.side a = some false)

/-- each side steps at least once in every window of `w` consecutive steps -/
def TS.SideFair (T : TS S A) (w : Nat) (l : List A) : Prop :=
  ∀ i, i + w ≤ l.length → T.BothSides ((l.drop i).take w)

theorem TS.run_cons (T : TS S A) (a : A) (l : List A) (s : S) : T.run (a :: l) s = T.run l (T.step s a) := rfl

theorem TS.run_append (T : TS S A) (l1 l2 : List A) (s : S) : T.run (l1 ++ l2) s = T.run l2 (T.run l1 s) := by
  simp [TS.run, List.foldl_append]

theorem TS.run_spec (T : TS S A) : ∀ (l : List A) (s : S), T.inv s → (∀ a ∈ l, T.ok a) →
    T.inv (T.run l s) ∧ T.mu (T.run l s) ≤ T.mu s ∧ (T.fin s → T.fin (T.run l s)) := by
  intro l
  induction l with
  | nil => intro s h _; exact ⟨h, Nat.le_refl _, fun h => h⟩
  | cons a l ih =>
    intro s h hok
    obtain ⟨i1, m1, _, _, f1⟩ := T.step_ok s a h (hok a (List.mem_cons_self ..))
    obtain ⟨j1, j2, j3⟩ := ih _ i1 (fun b hb => hok b (List.mem_cons_of_mem _ hb))
    rw [TS.run_cons]
    exact ⟨j1, Nat.le_trans j2 m1, fun hf => j3 (f1 hf)⟩

theorem TS.side_progress (T : TS S A) (r : Bool) : ∀ (v : List A) (s : S), T.inv s → (∀ a ∈ v, T.ok a) →
    T.can s r → (∃ a ∈ v, T.side a = some r) → T.mu (T.run v s) < T.mu s := by
  intro v
  induction v with
  | nil => intro s _ _ _ h; obtain ⟨a, ha, _⟩ := h; cases ha
  | cons b v ih =>
    intro s hinv hok hp hex
    obtain ⟨i1, m1, p1, k1, _⟩ := T.step_ok s b hinv (hok b (List.mem_cons_self ..))
    have hok' : ∀ a ∈ v, T.ok a := fun a ha => hok a (List.mem_cons_of_mem _ ha)
    rw [TS.run_cons]
    by_cases hb : T.side b = some r
    · have := p1 r hb hp
      have := (T.run_spec v _ i1 hok').2.1
      omega
    · have hp' : T.can (T.step s b) r := k1 r hb hp
      have hex' : ∃ a ∈ v, T.side a = some r := by
        obtain ⟨a, ha, hac⟩ := hex
        rcases List.mem_cons.mp ha with rfl | ha
        · exact absurd hac hb
        · exact ⟨a, ha, hac⟩
      have := ih _ i1 hok' hp' hex'
      omega

theorem TS.block_progress (T : TS S A) (v : List A) (s : S) (hinv : T.inv s) (hok : ∀ a ∈ v, T.ok a)
    (hv : T.BothSides v) (hnf : ¬ T.fin s) : T.mu (T.run v s) < T.mu s := by
  rcases T.live s hinv hnf with hc | hc
  · exact T.side_progress true v s hinv hok hc hv.1
  · exact T.side_progress false v s hinv hok hc hv.2

theorem TS.windows (T : TS S A) (w : Nat) (l : List A) (s : S) (hinv : T.inv s) (hok : ∀ a ∈ l, T.ok a)
    (hf : T.SideFair w l) : ∀ m, m * w ≤ l.length →
      T.fin (T.run (l.take (m * w)) s) ∨ T.mu (T.run (l.take (m * w)) s) + m ≤ T.mu s := by
  intro m
  induction m with
  | zero => intro _; right; simp [TS.run]
  | succ m ih =>
    intro hm
    have hmw : (m + 1) * w = m * w + w := Nat.succ_mul m w
    have hm' : m * w ≤ l.length := by omega
    have hsplit : l.take ((m + 1) * w) = l.take (m * w) ++ (l.drop (m * w)).take w := by
      rw [hmw, List.take_add]
    have hok1 : ∀ a ∈ l.take (m * w), T.ok a := fun a ha => hok a (List.mem_of_mem_take ha)
    have hok2 : ∀ a ∈ (l.drop (m * w)).take w, T.ok a :=
      fun a ha => hok a (List.mem_of_mem_drop (List.mem_of_mem_take ha))
    obtain ⟨hinv1, _, _⟩ := T.run_spec _ s hinv hok1
    rw [hsplit, TS.run_append]
    obtain ⟨_, k2, k3⟩ := T.run_spec _ _ hinv1 hok2
    rcases ih hm' with hb | hmu
    · exact Or.inl (k3 hb)
    · by_cases hb : T.fin (T.run (l.take (m * w)) s)
      · exact Or.inl (k3 hb)
      · right
        have := T.block_progress _ _ hinv1 hok2 (hf (m * w) (by omega)) hb
        omega

/-- **fair schedules finish**: within `mu s · w` steps, and stay finished -/
theorem TS.fair_completes (T : TS S A) (w : Nat) (l : List A) (s : S) (hinv : T.inv s) (hok : ∀ a ∈ l, T.ok a)
    (hf : T.SideFair w l) (j : Nat) (hj : j ≤ l.length) :
    T.inv (T.run (l.take j) s) ∧ (T.mu s * w ≤ j → T.fin (T.run (l.take j) s)) := by
  have hokj : ∀ a ∈ l.take j, T.ok a := fun a ha => hok a (List.mem_of_mem_take ha)
  refine ⟨(T.run_spec _ s hinv hokj).1, ?_⟩
  intro hB
  have hok1 : ∀ a ∈ l.take (T.mu s * w), T.ok a := fun a ha => hok a (List.mem_of_mem_take ha)
  have hinv1 := (T.run_spec _ s hinv hok1).1
  have hfin : T.fin (T.run (l.take (T.mu s * w)) s) := by
    rcases T.windows w l s hinv hok hf (T.mu s) (by omega) with h | h
    · exact h
    · exact T.zero _ hinv1 (by omega)
  have hsplit : l.take j = l.take (T.mu s * w) ++ (l.drop (T.mu s * w)).take (j - T.mu s * w) := by
    have : j = T.mu s * w + (j - T.mu s * w) := by omega
    conv => lhs; rw [this, List.take_add]
  rw [hsplit, TS.run_append]
  refine (T.run_spec _ _ hinv1 ?_).2.2 hfin
  intro a ha
  exact hok a (List.mem_of_mem_drop (List.mem_of_mem_take ha))

end SockModel.Fair

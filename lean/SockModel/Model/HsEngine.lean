import SockModel.Model.Tls
/-
A small deterministic **reference engine** for the TLS handshake, as an instance of the abstract
`Tls.Engine` interface, and the composition of two endpoints (client, server) - each the real glue
model of `Model/Tls.lean` - over two FIFO byte channels.

Handshake = three flights: C1 (client → server, `k1` bytes), S1 (server → client, `k2` bytes),
C2 (client → server, `k3` bytes); then `init_finished`.  An endpoint is at `stage` 0, 1, 2 (working on
that flight: the client writes at stages 0 and 2 and reads at stage 1, the server the other way round)
or 3 (finished); `need` = bytes of the current flight still to be written / read.  Every `ssl_read`
and `ssl_write` first drives the handshake as far as the BIO callbacks allow:
  * a flight to write goes to the write BIO; a partial or refused write ends the call with WANT_WRITE;
  * a flight to read is fetched from the read BIO, in as many calls as the segmentation of the wire
    needs (each call returns 1..n bytes); 0 bytes = WANT_READ; a failed callback = SSL_ERROR_SYSCALL;
once finished, `ssl_write(d)` puts one record (`d` itself, overhead 0) through the write BIO and
`ssl_read(n)` returns what one read-BIO call delivers.  Byte *values* play no role (all zero).
-/
namespace SockModel.Hs
open SockModel.Net SockModel.Tls

structure HsP where
  k1 : Nat
  k2 : Nat
  k3 : Nat
  h1 : 0 < k1
  h2 : 0 < k2
  h3 : 0 < k3

def HsP.flight (P : HsP) : Nat → Nat
  | 0 => P.k1
  | 1 => P.k2
  | 2 => P.k3
  | _ => 0

structure Hs where
  client : Bool
  stage : Nat
  need : Nat
  deriving DecidableEq, Repr

def Hs.init (P : HsP) (client : Bool) : Hs := ⟨client, 0, P.k1⟩
/-- the client writes flights 0 and 2, the server flight 1 -/
def Hs.writes (h : Hs) : Bool := (h.stage % 2 == 0) == h.client
def Hs.next (P : HsP) (h : Hs) : Hs := { h with stage := h.stage + 1, need := P.flight (h.stage + 1) }

def zeros (n : Nat) : Bytes := List.replicate n 0

/-- drive the handshake as far as the BIO allows, then continue with `k` -/
def hsRun (P : HsP) : Nat → Hs → (Hs → EngProg Hs) → EngProg Hs
  | 0, h, _ => .ret .sslErr [] h        -- out of fuel: unreachable (`fuel` below is large enough)
  | f + 1, h, k =>
    if 3 ≤ h.stage then k h
    else if h.writes then
      .bioWrite (zeros h.need) (fun r =>
        match r with
        | none => .ret .syscallErr [] h
        | some n => if h.need ≤ n then hsRun P f (h.next P) k
                    else .ret .wantWrite [] { h with need := h.need - n })
    else
      .bioRead h.need (fun r =>
        match r with
        | none => .ret .syscallErr [] h
        | some bs =>
          if bs.length = 0 then .ret .wantRead [] h
          else if h.need ≤ bs.length then hsRun P f (h.next P) k
          else hsRun P f { h with need := h.need - bs.length } k)

def appWrite (d : Bytes) (h : Hs) : EngProg Hs :=
  .bioWrite d (fun r =>
    match r with
    | none => .ret .syscallErr [] h
    | some n => if n = 0 then .ret .wantWrite [] h else .ret (.done n) [] h)

def appRead (n : Nat) (h : Hs) : EngProg Hs :=
  .bioRead n (fun r =>
    match r with
    | none => .ret .syscallErr [] h
    | some bs => if bs.length = 0 then .ret .wantRead [] h else .ret (.done bs.length) bs h)

def fuel (P : HsP) : Nat := P.k1 + P.k2 + P.k3 + 4

/-- the reference engine -/
def engine (P : HsP) : Engine Hs where
  sslRead h n := hsRun P (fuel P) h (appRead n)
  sslWrite h d := hsRun P (fuel P) h (appWrite d)
  initFinished h := decide (3 ≤ h.stage)

/-! ### two FIFO byte channels -/

/-- bytes in flight client→server and server→client, and the segmentation oracle: the k-th `recv`
(of either side) is cut to `segs[k]` bytes if that is between 1 and what it could get -/
structure Chan where
  cs : Nat := 0
  sc : Nat := 0
  segs : List Nat := []

def Chan.out (c : Chan) (client : Bool) : Nat := if client then c.cs else c.sc
def Chan.inb (c : Chan) (client : Bool) : Nat := if client then c.sc else c.cs
def Chan.addOut (c : Chan) (client : Bool) (n : Nat) : Chan :=
  if client then { c with cs := c.cs + n } else { c with sc := c.sc + n }
def Chan.takeIn (c : Chan) (client : Bool) (r : Nat) : Chan :=
  if client then { c with sc := c.sc - r, segs := c.segs.tail } else { c with cs := c.cs - r, segs := c.segs.tail }

def pick (o : Option Nat) (want : Nat) : Nat :=
  match o with
  | some k => if 1 ≤ k ∧ k ≤ want then k else want
  | none => want

/-- the kernel of one endpoint of a healthy connection: always writable, every write accepted in
full, readable iff bytes are in flight towards it, reads cut by the segmentation oracle -/
def chanWorld (client : Bool) : World Chan where
  wait w d _ := match d with
    | .wr => (true, w)
    | .rd => (decide (0 < w.inb client), w)
  send w bs := (.accept bs.length, w.addOut client bs.length)
  recv w n :=
    let r := pick w.segs.head? (min n (w.inb client))
    (.data (zeros r), w.takeIn client r)
  now _ := 0

/-! ### two endpoints, one schedule -/

structure Sys where
  gc : Glue := {}
  ec : Hs
  gs : Glue := {}
  es : Hs
  ch : Chan := {}
  faults : Nat := 0        -- calls that ended with an exception or a failed assert

def Sys.init (P : HsP) (segs : List Nat) : Sys :=
  { ec := Hs.init P true, es := Hs.init P false, ch := { segs := segs } }

/-- the calls of a synchronous endpoint with timeout 0 -/
inductive Call where
  | send (data : Bytes)
  | recv (size : Nat)

def isOk {α : Type} : Out α → Bool
  | .ok _ => true
  | _ => false

def callOn (C : Cfg) (P : HsP) (client : Bool) (s : St Hs Chan) : Call → Bool × St Hs Chan
  | .send d => let r := sendT C (chanWorld client) (engine P) s d 0; (isOk r.1, r.2)
  | .recv n => let r := receiveT C (chanWorld client) (engine P) s n 0; (isOk r.1, r.2)

def Sys.step (C : Cfg) (P : HsP) (y : Sys) (client : Bool) (c : Call) : Sys :=
  if client then
    let r := callOn C P true ⟨y.gc, y.ec, y.ch⟩ c
    { y with gc := r.2.g, ec := r.2.e, ch := r.2.w, faults := y.faults + (if r.1 then 0 else 1) }
  else
    let r := callOn C P false ⟨y.gs, y.es, y.ch⟩ c
    { y with gs := r.2.g, es := r.2.e, ch := r.2.w, faults := y.faults + (if r.1 then 0 else 1) }

/-- one round of the polling schedule `[c.Send(0), s.Receive(0), s.Send(0), c.Receive(0)]` -/
def Sys.round (C : Cfg) (P : HsP) (dc ds : Bytes) (n : Nat) (y : Sys) : Sys :=
  (((y.step C P true (.send dc)).step C P false (.recv n)).step C P false (.send ds)).step C P true (.recv n)

def Sys.rounds (C : Cfg) (P : HsP) (dc ds : Bytes) (n : Nat) : Nat → Sys → Sys
  | 0, y => y
  | k + 1, y => Sys.rounds C P dc ds n k (y.round C P dc ds n)

def Sys.bothFinished (y : Sys) : Prop := 3 ≤ y.ec.stage ∧ 3 ≤ y.es.stage

end SockModel.Hs

import SockModel.Model.ToDos
/-! Helper lemmas for C06 / C07: the sorted-list invariant of the ToDo deque and
the log invariant of `stepTodos`. -/
namespace SockModel.ToDos
open SockModel.Deadline

def Sorted (l : List Entry) : Prop := l.Pairwise (fun a b => a.when ≤ b.when)

def ids (l : List Entry) : List Nat := l.map (·.id)

theorem mem_insert {l : List Entry} {e x : Entry} : x ∈ insert l e ↔ x = e ∨ x ∈ l := by
  induction l with
  | nil => simp [insert]
  | cons y ys ih =>
    unfold insert
    split
    · simp
    · simp only [List.mem_cons, ih]
      constructor
      · rintro (h | h | h) <;> simp [h]
      · rintro (h | h | h) <;> simp [h]

theorem insert_sorted {l : List Entry} (e : Entry) (h : Sorted l) : Sorted (insert l e) := by
  induction l with
  | nil => simp [insert, Sorted]
  | cons y ys ih =>
    unfold insert
    have hy := List.pairwise_cons.mp h
    split
    · rename_i hlt
      apply List.pairwise_cons.mpr
      refine ⟨?_, h⟩
      intro z hz
      rcases List.mem_cons.mp hz with rfl | hz
      · omega
      · have := hy.1 z hz; omega
    · rename_i hge
      apply List.pairwise_cons.mpr
      refine ⟨?_, ih hy.2⟩
      intro z hz
      rcases mem_insert.mp hz with rfl | hz
      · omega
      · exact hy.1 z hz

theorem remove_sublist (l : List Entry) (id : Nat) : (remove l id).Sublist l := by
  induction l with
  | nil => simp [remove]
  | cons y ys ih =>
    unfold remove
    split
    · exact List.sublist_cons_self y ys
    · exact List.Sublist.cons_cons y ih

theorem remove_sorted {l : List Entry} (id : Nat) (h : Sorted l) : Sorted (remove l id) :=
  List.Pairwise.sublist (remove_sublist l id) h

theorem move_sorted {l : List Entry} (id : Nat) (w : Int) (h : Sorted l) : Sorted (move l id w) :=
  insert_sorted _ (remove_sorted id h)

theorem ids_insert_perm (l : List Entry) (e : Entry) : (ids (insert l e)).Perm (e.id :: ids l) := by
  induction l with
  | nil => simp [insert, ids]
  | cons y ys ih =>
    unfold insert
    split
    · simp [ids]
    · simp only [ids, List.map_cons] at ih ⊢
      exact (List.Perm.cons y.id ih).trans (List.Perm.swap _ _ _)

/-- with one entry per id, `remove` deletes every trace of the id -/
theorem not_mem_ids_remove {l : List Entry} (id : Nat) (h : (ids l).Nodup) : id ∉ ids (remove l id) := by
  induction l with
  | nil => simp [remove, ids]
  | cons y ys ih =>
    unfold remove
    simp only [ids, List.map_cons, List.nodup_cons] at h
    split
    · rename_i heq
      subst heq
      exact h.1
    · rename_i hne
      simp only [ids, List.map_cons, List.mem_cons, not_or]
      exact ⟨fun h' => hne h'.symm, ih h.2⟩

theorem ids_remove_sublist (l : List Entry) (id : Nat) : (ids (remove l id)).Sublist (ids l) :=
  (remove_sublist l id).map _

theorem nodup_ids_remove {l : List Entry} (id : Nat) (h : (ids l).Nodup) : (ids (remove l id)).Nodup :=
  List.Nodup.sublist (ids_remove_sublist l id) h

theorem nodup_ids_insert {l : List Entry} {e : Entry} (h : (ids l).Nodup) (hn : e.id ∉ ids l) :
    (ids (insert l e)).Nodup :=
  (ids_insert_perm l e).nodup_iff.mpr (List.nodup_cons.mpr ⟨hn, h⟩)

theorem nodup_ids_move {l : List Entry} (id : Nat) (w : Int) (h : (ids l).Nodup) : (ids (move l id w)).Nodup :=
  nodup_ids_insert (nodup_ids_remove id h) (not_mem_ids_remove id h)

theorem mem_ids_insert {l : List Entry} {e : Entry} {x : Nat} : x ∈ ids (insert l e) ↔ x = e.id ∨ x ∈ ids l := by
  rw [(ids_insert_perm l e).mem_iff]; simp

theorem mem_ids_of_remove {l : List Entry} {id x : Nat} (h : x ∈ ids (remove l id)) : x ∈ ids l :=
  (ids_remove_sublist l id).subset h

/-- stable insertion: among the entries with the same due time the new one is last -/
theorem insert_stable (l : List Entry) (e : Entry) (h : Sorted l) :
    (insert l e).filter (fun x => x.when = e.when) = l.filter (fun x => x.when = e.when) ++ [e] := by
  induction l with
  | nil => simp [insert]
  | cons y ys ih =>
    have hy := List.pairwise_cons.mp h
    unfold insert
    split
    · rename_i hlt
      -- e strictly earlier than y, hence than everything: no equal entries at all
      have hnone : ∀ z ∈ y :: ys, ¬ (z.when = e.when) := by
        intro z hz
        rcases List.mem_cons.mp hz with rfl | hz
        · omega
        · have := hy.1 z hz; omega
      have : (y :: ys).filter (fun x => x.when = e.when) = [] := by
        apply List.filter_eq_nil_iff.mpr
        intro z hz; simpa using hnone z hz
      rw [List.filter_cons_of_pos (by simp), this]; rfl
    · rename_i hge
      by_cases hye : y.when = e.when
      · rw [List.filter_cons_of_pos (by simpa using hye), List.filter_cons_of_pos (by simpa using hye), ih hy.2]
        rfl
      · rw [List.filter_cons_of_neg (by simpa using hye), List.filter_cons_of_neg (by simpa using hye), ih hy.2]

/-- everything before the inserted entry is due no later, everything after strictly later -/
theorem insert_split (l : List Entry) (e : Entry) :
    ∃ pre post, insert l e = pre ++ e :: post ∧ l = pre ++ post ∧
      (∀ x ∈ pre, x.when ≤ e.when) ∧ (∀ x, post.head? = some x → e.when < x.when) := by
  induction l with
  | nil => exact ⟨[], [], by simp [insert], rfl, by simp, by simp⟩
  | cons y ys ih =>
    unfold insert
    split
    · rename_i hlt
      exact ⟨[], y :: ys, rfl, rfl, by simp, by simpa using hlt⟩
    · rename_i hge
      obtain ⟨pre, post, h1, h2, h3, h4⟩ := ih
      refine ⟨y :: pre, post, by simp [h1], by simp [h2], ?_, h4⟩
      intro x hx
      rcases List.mem_cons.mp hx with rfl | hx
      · omega
      · exact h3 x hx

/-! ### the state invariant -/

def EvOk : Event → Prop
  | .ran id w now rest seq =>
    w ≤ now ∧ (∀ e ∈ rest, w ≤ e.when) ∧ id ∉ ids rest ∧ (∀ e ∈ rest, e.when = w → seq < e.seq)
  | _ => True

/-- among entries with the same due time, list order is scheduling order -/
def Lex (l : List Entry) : Prop := l.Pairwise (fun a b => a.when = b.when → a.seq < b.seq)

theorem insert_lex {l : List Entry} (e : Entry) (hs : Sorted l) (hl : Lex l) (hnew : ∀ x ∈ l, x.seq < e.seq) :
    Lex (insert l e) := by
  induction l with
  | nil => simp [insert, Lex]
  | cons y ys ih =>
    unfold insert
    have hy := List.pairwise_cons.mp hs
    have hly := List.pairwise_cons.mp hl
    split
    · rename_i hlt
      apply List.pairwise_cons.mpr
      refine ⟨?_, hl⟩
      intro z hz heq
      rcases List.mem_cons.mp hz with rfl | hz
      · omega
      · have := hy.1 z hz; omega
    · rename_i hge
      apply List.pairwise_cons.mpr
      refine ⟨?_, ih hy.2 hly.2 (fun x hx => hnew x (List.mem_cons_of_mem _ hx))⟩
      intro z hz heq
      rcases mem_insert.mp hz with rfl | hz
      · exact hnew y List.mem_cons_self
      · exact hly.1 z hz heq

theorem remove_lex {l : List Entry} (id : Nat) (h : Lex l) : Lex (remove l id) :=
  List.Pairwise.sublist (remove_sublist l id) h

structure TInv (s : St) : Prop where
  sorted : Sorted s.todos
  nodup  : (ids s.todos).Nodup
  known  : ∀ x ∈ ids s.todos, x ∈ s.known
  liveKnown : ∀ x ∈ s.live, x ∈ s.known
  logOk  : ∀ ev ∈ s.log, EvOk ev
  lex    : Lex s.todos
  seqLt  : ∀ e ∈ s.todos, e.seq < s.nextSeq

theorem inv_init : TInv {} :=
  ⟨List.Pairwise.nil, List.nodup_nil, by simp [ids], by simp, by simp, List.Pairwise.nil, by simp⟩

theorem mem_remove {l : List Entry} {id : Nat} {x : Entry} (h : x ∈ remove l id) : x ∈ l :=
  (remove_sublist l id).subset h

theorem inv_move {s : St} (h : TInv s) (id : Nat) (w : Int) (hl : id ∈ s.live) :
    TInv { s with todos := move s.todos id w s.nextSeq, nextSeq := s.nextSeq + 1 } := by
  refine ⟨insert_sorted _ (remove_sorted id h.sorted), nodup_ids_insert (nodup_ids_remove id h.nodup) (not_mem_ids_remove id h.nodup),
    ?_, h.liveKnown, h.logOk, ?_, ?_⟩
  · intro x hx
    rcases mem_ids_insert.mp hx with rfl | hx
    · exact h.liveKnown _ hl
    · exact h.known x (mem_ids_of_remove hx)
  · exact insert_lex _ (remove_sorted id h.sorted) (remove_lex id h.lex) (fun x hx => h.seqLt x (mem_remove hx))
  · intro e he
    rcases mem_insert.mp he with rfl | he
    · simp
    · have := h.seqLt e (mem_remove he); simp only; omega

theorem inv_new {s : St} (h : TInv s) (id : Nat) (w : Int) (hk : id ∉ s.known) :
    TInv { s with todos := insert s.todos ⟨id, w, s.nextSeq⟩, nextSeq := s.nextSeq + 1, live := id :: s.live, known := id :: s.known } := by
  refine ⟨insert_sorted _ h.sorted, nodup_ids_insert h.nodup (fun hm => hk (h.known id hm)), ?_, ?_, h.logOk,
    insert_lex _ h.sorted h.lex (fun x hx => h.seqLt x hx), ?_⟩
  rotate_left 2
  · intro e he
    rcases mem_insert.mp he with rfl | he
    · simp
    · have := h.seqLt e he; simp only; omega
  · intro x hx
    rcases mem_ids_insert.mp hx with rfl | hx
    · simp
    · exact List.mem_cons_of_mem _ (h.known x hx)
  · intro x hx
    rcases List.mem_cons.mp hx with rfl | hx
    · simp
    · exact List.mem_cons_of_mem _ (h.liveKnown x hx)

theorem inv_applyOp {s : St} (h : TInv s) (op : BodyOp) : TInv (applyOp s op) := by
  cases op with
  | shift id w =>
    simp only [applyOp]; split
    · rename_i hl; exact inv_move h id w hl
    · exact h
  | shiftd id ms =>
    simp only [applyOp]; split
    · rename_i hl; exact inv_move h id _ hl
    · exact h
  | cancel id =>
    simp only [applyOp]; split
    · refine ⟨remove_sorted id h.sorted, nodup_ids_remove id h.nodup, ?_, h.liveKnown, h.logOk, remove_lex id h.lex,
        fun e he => h.seqLt e (mem_remove he)⟩
      intro x hx; exact h.known x (mem_ids_of_remove hx)
    · exact h
  | newAt id w =>
    simp only [applyOp]; split
    · exact h
    · rename_i hk; exact inv_new h id w hk
  | newIn id ms =>
    simp only [applyOp]; split
    · exact h
    · rename_i hk; exact inv_new h id _ hk
  | drop id =>
    refine ⟨h.sorted, h.nodup, h.known, ?_, h.logOk, h.lex, h.seqLt⟩
    intro x hx
    simp only [applyOp, List.mem_filter] at hx
    exact h.liveKnown x hx.1
  | adv ns => exact ⟨h.sorted, h.nodup, h.known, h.liveKnown, h.logOk, h.lex, h.seqLt⟩
  | stop => exact ⟨h.sorted, h.nodup, h.known, h.liveKnown, h.logOk, h.lex, h.seqLt⟩

theorem inv_foldl_applyOp {s : St} (h : TInv s) (ops : List BodyOp) : TInv (ops.foldl applyOp s) := by
  induction ops generalizing s with
  | nil => exact h
  | cons op ops ih => exact ih (inv_applyOp h op)

theorem inv_stepTodos (fuel : Nat) (d : Deadline) {s : St} (h : TInv s) : TInv (stepTodos fuel d s).2 := by
  induction fuel generalizing d s with
  | zero =>
    simp only [stepTodos]
    refine ⟨h.sorted, h.nodup, h.known, h.liveKnown, ?_, h.lex, h.seqLt⟩
    intro ev hev
    rcases List.mem_cons.mp hev with rfl | hev
    · trivial
    · exact h.logOk ev hev
  | succ fuel ih =>
    unfold stepTodos
    split
    · exact h
    · rename_i front rest htodos
      split
      · exact h
      · rename_i hdue
        have hs := h.sorted; have hn := h.nodup; have hk := h.known; have hlx := h.lex; have hsq := h.seqLt
        rw [htodos] at hs hn hk hlx hsq
        have hs' := List.pairwise_cons.mp hs
        have hlx' := List.pairwise_cons.mp hlx
        simp only [ids, List.map_cons, List.nodup_cons] at hn
        have h1 : TInv { s with todos := rest, log := .ran front.id front.when d.now rest front.seq :: s.log } := by
          refine ⟨hs'.2, hn.2, ?_, h.liveKnown, ?_, hlx'.2, fun e he => hsq e (List.mem_cons_of_mem _ he)⟩
          · intro x hx; exact hk x (by simp [ids] at hx ⊢; exact Or.inr hx)
          · intro ev hev
            rcases List.mem_cons.mp hev with rfl | hev
            · exact ⟨by omega, hs'.1, hn.1, fun e he heq => hlx'.1 e he heq.symm⟩
            · exact h.logOk ev hev
        have h2 := inv_foldl_applyOp h1 (s.body front.id)
        simp only
        split
        · exact h2
        · split
          · exact ih _ h2
          · exact h2

theorem inv_pollSockets (clamp : Bool) (t : Int) {s : St} (h : TInv s) : TInv (pollSockets clamp t s) := by
  have hlog : ∀ ms, ∀ ev ∈ (Event.poll ms :: s.log), EvOk ev := by
    intro ms ev hev
    rcases List.mem_cons.mp hev with rfl | hev
    · trivial
    · exact h.logOk ev hev
  unfold pollSockets
  generalize (if clamp = true then toMsec t else toMsecLegacy t) = ms
  simp only
  split
  · exact ⟨h.sorted, h.nodup, h.known, h.liveKnown, hlog _, h.lex, h.seqLt⟩
  · split
    · exact ⟨h.sorted, h.nodup, h.known, h.liveKnown, hlog _, h.lex, h.seqLt⟩
    · exact ⟨h.sorted, h.nodup, h.known, h.liveKnown, hlog _, h.lex, h.seqLt⟩

theorem inv_step (clamp : Bool) (fuel : Nat) (t : Int) {s : St} (h : TInv s) : TInv (step clamp fuel t s) := by
  unfold step
  split
  · exact inv_pollSockets clamp t h
  · exact inv_pollSockets clamp _ (inv_stepTodos fuel _ h)

theorem inv_userOp (clamp : Bool) (fuel : Nat) {s : St} (h : TInv s) (op : Op) : TInv (userOp clamp fuel s op) := by
  cases op with
  | new id w body =>
    simp only [userOp]; split
    · exact h
    · exact inv_applyOp (s := { s with bodies := (id, body) :: s.bodies })
        ⟨h.sorted, h.nodup, h.known, h.liveKnown, h.logOk, h.lex, h.seqLt⟩ _
  | newIn id ms body =>
    simp only [userOp]; split
    · exact h
    · exact inv_applyOp (s := { s with bodies := (id, body) :: s.bodies })
        ⟨h.sorted, h.nodup, h.known, h.liveKnown, h.logOk, h.lex, h.seqLt⟩ _
  | newIdle id body =>
    simp only [userOp]; split
    · exact h
    · refine ⟨h.sorted, h.nodup, ?_, ?_, h.logOk, h.lex, h.seqLt⟩
      · intro x hx; exact List.mem_cons_of_mem _ (h.known x hx)
      · intro x hx
        rcases List.mem_cons.mp hx with rfl | hx
        · simp
        · exact List.mem_cons_of_mem _ (h.liveKnown x hx)
  | call op => exact inv_applyOp h op
  | clock ns =>
    simp only [userOp]; split
    · exact ⟨h.sorted, h.nodup, h.known, h.liveKnown, h.logOk, h.lex, h.seqLt⟩
    · exact h
  | step t => exact inv_step clamp fuel t h

theorem inv_run (clamp : Bool) (fuel : Nat) {s : St} (h : TInv s) (ops : List Op) : TInv (run clamp fuel s ops) := by
  induction ops generalizing s with
  | nil => exact h
  | cons op ops ih => exact ih (inv_userOp clamp fuel h op)

end SockModel.ToDos

import SockModel.Model.TlsLog
import SockModel.Model.TlsLemmas
/-!
Helper lemmas for "C07 for the TLS glue: the timeout budget" (Props/C18.lean).

`HFrame W E P Wk`: a Hoare-style frame for invariants that talk about the **time budget**
(`remainingTime`), the world (clock, wait log) and the stashed callback failure (`pendingError`).
`P` is the invariant at every point where the glue is in control and no BIO callback has failed;
`Wk` is what is left of it after a callback failed (the budget is then stale: `UnderDeadline` /
`BioWrite` do not write it back when the socket call throws).  Proved once for every composite
function of the model (`HFrame.tlsRead`, `HFrame.tlsWrite`, `HFrame.receiveT`, `HFrame.sendT`),
instantiated four times: zero budget, unlimited budget, non-negative budget (all three for EVERY
engine), limited budget (for engines that stop after a failed callback, `FailStop`).
-/
namespace SockModel.Tls
open SockModel.Net

variable {σ ω : Type}

/-! ### the frame -/

/-- how one engine call may end: the invariant holds, or a callback failed (the failure is stashed), the
engine answered something other than success, and the weak invariant holds -/
def EngStep (P Wk : St σ ω → Prop) (r : Out (SslAns × Bytes) × St σ ω) : Prop :=
  P r.2 ∨ (Wk r.2 ∧ r.2.g.pendingError ≠ none ∧ ∃ a o, r.1 = .ok (a, o) ∧ a.isDone = false)

/-- how a call may end: the invariant holds, or it ends with an exception and the weak invariant holds
(no failure is left stashed) -/
def Post {α : Type} (P Wk : St σ ω → Prop) (o : Out α) (s : St σ ω) : Prop :=
  P s ∨ (Wk s ∧ s.g.pendingError = none ∧ ∃ e, o = .exn e)

structure HFrame (W : World ω) (E : Engine σ) (P Wk : St σ ω → Prop) : Prop where
  /-- `P` looks at the world, the budget and `pendingError` only; clearing `pendingError` keeps it -/
  core : ∀ {s s'}, P s → s'.w = s.w → s'.g.remainingTime = s.g.remainingTime →
    (s'.g.pendingError = s.g.pendingError ∨ s'.g.pendingError = none) → P s'
  coreW : ∀ {s s'}, Wk s → s'.w = s.w → s'.g.remainingTime = s.g.remainingTime → Wk s'
  wait : ∀ s d, P s → P (waitUnder W s d).2
  engRead : ∀ s n, P s → EngStep P Wk (interp W s (E.sslRead s.e n))
  engWrite : ∀ s d, P s → EngStep P Wk (interp W s (E.sslWrite s.e d))

namespace HFrame
variable {W : World ω} {E : Engine σ} {P Wk : St σ ω → Prop}

theorem handleError (F : HFrame W E P Wk) (s : St σ ω) (err : SslErr) (h : P s) : P (handleError W s err).2 := by
  cases err <;> simp only [Tls.handleError] <;> first | exact h | exact F.wait _ _ h

theorem handleLastError (F : HFrame W E P Wk) (s : St σ ω) (h : P s) : P (handleLastError W s).2 := by
  have h1 := F.handleError s s.g.lastError h
  unfold Tls.handleLastError
  split
  · rename_i s' heq
    rw [heq] at h1
    exact F.core h1 rfl rfl (Or.inl rfl)
  · exact h1

theorem handleResult (F : HFrame W E P Wk) (s : St σ ω) (ans : SslAns) (h : P s) : P (handleResult W s ans).2 := by
  unfold Tls.handleResult
  split
  · exact F.core h rfl rfl (Or.inr rfl)
  · exact F.handleLastError _ (F.core h rfl rfl (Or.inl rfl))

/-- with a failure stashed `HandleResult` rethrows it at once: no wait, the weak invariant survives -/
theorem handleResult_failed (F : HFrame W E P Wk) (s : St σ ω) (ans : SslAns) (h : Wk s)
    (hpe : s.g.pendingError ≠ none) :
    ∃ e s', Tls.handleResult W s ans = (.exn e, s') ∧ Wk s' ∧ s'.g.pendingError = none := by
  unfold Tls.handleResult
  split
  · rename_i e heq
    exact ⟨e, _, rfl, F.coreW h rfl rfl, rfl⟩
  · rename_i heq; exact absurd heq hpe

/-- a round of `Read` -/
def RoundPost (P Wk : St σ ω → Prop) (r : Option (Out Bytes) × St σ ω) : Prop :=
  match r.1 with
  | none => P r.2
  | some o => Post P Wk o r.2

theorem readRound (F : HFrame W E P Wk) (C : Cfg) (size i : Nat) (s : St σ ω) (h : P s) :
    RoundPost P Wk (readRound C W E size i s) := by
  have h1 := F.engRead s size h
  unfold Tls.readRound
  rcases hi : interp W s (E.sslRead s.e size) with ⟨o, s1⟩
  rw [hi] at h1
  rcases h1 with h1 | ⟨hw, hpe, a, out, ho, hnd⟩
  · cases o with
    | exn e => exact Or.inl h1
    | abort m => exact Or.inl h1
    | ok p =>
      obtain ⟨ans, out⟩ := p
      have h2 : P (noteCall E s1 true [] ans) := F.core h1 rfl rfl (Or.inl rfl)
      have h3 := F.handleResult (noteCall E s1 true [] ans) ans h2
      simp only
      split
      · exact Or.inl h2
      · rcases hr : Tls.handleResult W (noteCall E s1 true [] ans) ans with ⟨o3, s3⟩
        rw [hr] at h3
        cases o3 with
        | exn e => exact Or.inl h3
        | abort m => exact Or.inl h3
        | ok b =>
          cases b with
          | false => exact Or.inl h3
          | true =>
            simp only
            split
            · exact Or.inl h3
            · exact h3
  · simp only at ho
    subst ho
    have h2 : Wk (noteCall E s1 true [] a) := F.coreW hw rfl rfl
    obtain ⟨e, s', hr, hw', hn'⟩ := F.handleResult_failed (noteCall E s1 true [] a) a h2 hpe
    simp only
    split
    · simp [SslAns.isDone] at hnd
    · rw [hr]
      exact Or.inr ⟨hw', hn', e, rfl⟩

theorem readLoop (F : HFrame W E P Wk) (C : Cfg) (size : Nat) :
    ∀ (i : Nat) (s : St σ ω), P s → Post P Wk (readLoop C W E size i s).1 (readLoop C W E size i s).2 := by
  intro i
  induction i with
  | zero => intro s h; exact Or.inl h
  | succ i ih =>
    intro s h
    have h1 := F.readRound C size i s h
    unfold Tls.readLoop
    rcases hr : Tls.readRound C W E size i s with ⟨o, s'⟩
    rw [hr] at h1
    cases o with
    | some o => exact h1
    | none => exact ih s' h1

theorem post_map {α β : Type} {o : Out α} {o' : Out β} {s : St σ ω} (h : Post P Wk o s)
    (he : ∀ e, o = .exn e → o' = .exn e) : Post P Wk o' s := by
  rcases h with h | ⟨h1, h2, e, h3⟩
  · exact Or.inl h
  · exact Or.inr ⟨h1, h2, e, he e h3⟩

theorem tlsRead (F : HFrame W E P Wk) (C : Cfg) (s : St σ ω) (size : Nat) (h : P s) :
    Post P Wk (tlsRead C W E s size).1 (tlsRead C W E s size).2 := by
  have h1 := F.handleLastError s h
  unfold Tls.tlsRead
  split
  · rename_i s' heq; rw [heq] at h1; exact F.readLoop C size _ s' h1
  · rename_i s' heq; rw [heq] at h1; exact Or.inl h1
  · rename_i e s' heq; rw [heq] at h1; exact Or.inl h1
  · rename_i m s' heq; rw [heq] at h1; exact Or.inl h1

/-- a round of `Write` -/
def NextPost (P Wk : St σ ω → Prop) (r : Next × St σ ω) : Prop :=
  match r.1 with
  | .again _ _ => P r.2
  | .stop o => Post P Wk o r.2

theorem writeRetry (F : HFrame W E P Wk) (C : Cfg) (i' : Nat) (rest : Bytes) (s : St σ ω) (ans : SslAns) (h : P s) :
    NextPost P Wk (writeRetry C W i' rest s ans) := by
  have h3 := F.handleResult s ans h
  unfold Tls.writeRetry
  rcases hr : Tls.handleResult W s ans with ⟨o3, s3⟩
  rw [hr] at h3
  cases o3 with
  | exn e => exact Or.inl h3
  | abort m => exact Or.inl h3
  | ok b =>
    cases b with
    | false => exact Or.inl h3
    | true =>
      simp only
      split
      · exact Or.inl h3
      · exact h3

theorem writeRound (F : HFrame W E P Wk) (C : Cfg) (i' : Nat) (rest : Bytes) (s : St σ ω) (h : P s) :
    NextPost P Wk (writeRound C W E i' rest s) := by
  have h1 := F.engWrite s rest h
  unfold Tls.writeRound
  split
  · exact Or.inl h
  · rcases hi : interp W s (E.sslWrite s.e rest) with ⟨o, s1⟩
    rw [hi] at h1
    rcases h1 with h1 | ⟨hw, hpe, a, out, ho, hnd⟩
    · cases o with
      | exn e => exact Or.inl h1
      | abort m => exact Or.inl h1
      | ok p =>
        obtain ⟨ans, out⟩ := p
        have h2 : P (noteCall E s1 false rest ans) := F.core h1 rfl rfl (Or.inl rfl)
        simp only
        split
        · rename_i k
          have h4 : P (setPending (noteCall E s1 false rest (.done k)) []) := F.core h2 rfl rfl (Or.inl rfl)
          split
          · exact h4
          · split
            · exact Or.inl h4
            · exact h4
        · exact F.writeRetry C i' rest _ ans (F.core h2 rfl rfl (Or.inl rfl))
    · simp only at ho
      subst ho
      have h2 : Wk (setPending (noteCall E s1 false rest a) rest) := F.coreW hw rfl rfl
      obtain ⟨e, s', hr, hw', hn'⟩ := F.handleResult_failed _ a h2 hpe
      simp only
      split
      · simp [SslAns.isDone] at hnd
      · unfold Tls.writeRetry
        rw [hr]
        exact Or.inr ⟨hw', hn', e, rfl⟩

theorem writeLoop (F : HFrame W E P Wk) (C : Cfg) (i : Nat) (rest : Bytes) (s : St σ ω) (h : P s) :
    Post P Wk (writeLoop C W E i rest s).1 (writeLoop C W E i rest s).2 :=
  writeLoop_rule C W E (fun _ _ s => P s) (fun o s => Post P Wk o s)
    (fun _ _ _ h _ => Or.inl h)
    (fun i' rest s o s' h _ heq => by have := F.writeRound C i' rest s h; rw [heq] at this; exact this)
    (fun i' rest s j rest' s' h _ heq => by have := F.writeRound C i' rest s h; rw [heq] at this; exact this)
    i rest s h

theorem tlsWrite (F : HFrame W E P Wk) (C : Cfg) (s : St σ ω) (data : Bytes) (h : P s) :
    Post P Wk (tlsWrite C W E s data).1 (tlsWrite C W E s data).2 := by
  have h1 := F.handleLastError s h
  unfold Tls.tlsWrite
  split
  · rename_i s' heq
    rw [heq] at h1
    have h2 := F.writeLoop C C.stepsMax data s' h1
    split
    · rename_i r s'' heq2; rw [heq2] at h2
      exact post_map h2 (by intro e he; cases he)
    · rename_i r s'' heq2; rw [heq2] at h2
      exact post_map h2 (by intro e he; cases he; rfl)
    · rename_i r s'' heq2; rw [heq2] at h2
      exact post_map h2 (by intro e he; cases he)
  · rename_i s' heq; rw [heq] at h1; exact Or.inl h1
  · rename_i e s' heq; rw [heq] at h1; exact Or.inl h1
  · rename_i m s' heq; rw [heq] at h1; exact Or.inl h1

theorem post_core {α β : Type} (F : HFrame W E P Wk) {o : Out α} {o' : Out β} {s s' : St σ ω} (h : Post P Wk o s)
    (hw : s'.w = s.w) (hr : s'.g.remainingTime = s.g.remainingTime) (hp : s'.g.pendingError = s.g.pendingError)
    (he : ∀ e, o = .exn e → o' = .exn e) : Post P Wk o' s' := by
  rcases h with h | ⟨h1, h2, e, h3⟩
  · exact Or.inl (F.core h hw hr (Or.inl hp))
  · exact Or.inr ⟨F.coreW h1 hw hr, by rw [hp]; exact h2, e, he e h3⟩

/-- `Receive(data, size, timeout)`: the invariant only has to hold once the budget is set -/
theorem receiveT (F : HFrame W E P Wk) (C : Cfg) (s : St σ ω) (size : Nat) (t : Int) (h : P (setTimeout s t)) :
    Post P Wk (receiveT C W E s size t).1 (receiveT C W E s size t).2 := by
  have h1 := F.tlsRead C (setTimeout s t) size h
  unfold Tls.receiveT
  split
  · rename_i s' heq
    rw [heq] at h1
    split
    · exact post_map h1 (by intro e he; cases he)
    · split
      · exact F.post_core h1 rfl rfl rfl (by intro e he; cases he)
      · exact h1
  · exact h1

/-- `Send(data, size, timeout)` -/
theorem sendT (F : HFrame W E P Wk) (C : Cfg) (s : St σ ω) (data : Bytes) (t : Int) (h : P (setTimeout s t)) :
    Post P Wk (sendT C W E s data t).1 (sendT C W E s data t).2 := by
  have h1 := F.tlsWrite C (setTimeout s t) data h
  unfold Tls.sendT
  split
  · rename_i n s' heq
    rw [heq] at h1
    split
    · exact F.post_core h1 rfl rfl rfl (by intro e he; cases he)
    · exact h1
  · exact h1

end HFrame


/-! ### engine calls -/

/-- an invariant kept by both BIO callbacks whatever they return (and blind to the control fields)
is kept by every engine call of EVERY engine -/
theorem interp_keeps {W : World ω} {Q : St σ ω → Prop}
    (hcore : ∀ {s s'}, Q s → s'.w = s.w → s'.g.remainingTime = s.g.remainingTime → Q s')
    (hr : ∀ s n, Q s → Q (bioRead W s n).2) (hw : ∀ s bs, Q s → Q (bioWrite W s bs).2)
    (prog : EngProg σ) : ∀ (s : St σ ω), Q s → Q (interp W s prog).2 := by
  induction prog with
  | ret ans out e' => intro s h; exact hcore h rfl rfl
  | bioRead n k ih =>
    intro s h
    have h1 := hr s n h
    unfold Tls.interp
    split
    · rename_i bs s' heq; rw [heq] at h1; exact ih _ s' h1
    · rename_i e s' heq; rw [heq] at h1; exact ih _ _ (hcore h1 rfl rfl)
    · rename_i m s' heq; rw [heq] at h1; exact h1
  | bioWrite bs k ih =>
    intro s h
    have h1 := hw s bs h
    unfold Tls.interp
    split
    · rename_i n s' heq; rw [heq] at h1; exact ih _ s' h1
    · rename_i e s' heq; rw [heq] at h1; exact ih _ _ (hcore h1 rfl rfl)
    · rename_i m s' heq; rw [heq] at h1; exact h1

/-- the frame of an invariant that every primitive action keeps: valid for every engine -/
theorem HFrame.ofPrim {W : World ω} (E : Engine σ) {Q : St σ ω → Prop}
    (hcore : ∀ {s s'}, Q s → s'.w = s.w → s'.g.remainingTime = s.g.remainingTime → Q s')
    (hwait : ∀ s d, Q s → Q (waitUnder W s d).2)
    (hr : ∀ s n, Q s → Q (bioRead W s n).2) (hw : ∀ s bs, Q s → Q (bioWrite W s bs).2) : HFrame W E Q Q where
  core := fun h h1 h2 _ => hcore h h1 h2
  coreW := fun h h1 h2 => hcore h h1 h2
  wait := hwait
  engRead := fun s _ h => Or.inl (interp_keeps hcore hr hw _ s h)
  engWrite := fun s _ h => Or.inl (interp_keeps hcore hr hw _ s h)

/-- for an invariant of every engine the postcondition is the invariant -/
theorem post_same {α : Type} {Q : St σ ω → Prop} {o : Out α} {s : St σ ω} (h : Post Q Q o s) : Q s := by
  rcases h with h | ⟨h, _⟩ <;> exact h

/-- **A-SSL (fail-stop).**  What the budget theorem for a *limited* timeout needs from the engine:
* once a BIO callback has reported a failure (returned -1, no retry flag) the engine makes no further
  BIO call and does not report success for this `SSL_read`/`SSL_write` (libssl: `SSL_ERROR_SYSCALL`);
* the write callback is never invoked with an empty buffer (`BIO_write` returns early for `dlen <= 0`).
Both are needed: `UnderDeadline` and `BioWrite` do not write the shrunken budget back when the socket call
throws, and a zero-length `SendSome` that times out reports "everything sent"
(`stale_budget_after_callback_failure`, `stale_budget_after_empty_write` in Props/C18.lean). -/
inductive FailStop : EngProg σ → Prop where
  | ret {a o s} : FailStop (.ret a o s)
  | bioRead {n k} : (∀ bs, FailStop (k (some bs))) → (∃ a o s, k none = .ret a o s ∧ a.isDone = false) →
      FailStop (.bioRead n k)
  | bioWrite {bs k} : bs ≠ [] → (∀ m, FailStop (k (some m))) → (∃ a o s, k none = .ret a o s ∧ a.isDone = false) →
      FailStop (.bioWrite bs k)

def Engine.FailStop (E : Engine σ) : Prop :=
  (∀ s n, Tls.FailStop (E.sslRead s n)) ∧ (∀ s d, Tls.FailStop (E.sslWrite s d))

theorem interp_failstop {W : World ω} {P Wk : St σ ω → Prop}
    (coreP : ∀ {s s'}, P s → s'.w = s.w → s'.g.remainingTime = s.g.remainingTime →
      s'.g.pendingError = s.g.pendingError → P s')
    (coreW : ∀ {s s'}, Wk s → s'.w = s.w → s'.g.remainingTime = s.g.remainingTime → Wk s')
    (hr : ∀ s n, P s → (∀ bs s', bioRead W s n = (.ok bs, s') → P s') ∧ (∀ e s', bioRead W s n = (.exn e, s') → Wk s'))
    (hw : ∀ s bs, bs ≠ [] → P s →
      (∀ m s', bioWrite W s bs = (.ok m, s') → P s') ∧ (∀ e s', bioWrite W s bs = (.exn e, s') → Wk s'))
    (prog : EngProg σ) (hfs : FailStop prog) : ∀ (s : St σ ω), P s → EngStep P Wk (interp W s prog) := by
  induction hfs with
  | ret => intro s h; exact Or.inl (coreP h rfl rfl rfl)
  | @bioRead n k hk hnone ih =>
    intro s h
    obtain ⟨h1, h2⟩ := hr s n h
    unfold Tls.interp
    split
    · rename_i bs s' heq; exact ih _ s' (h1 bs s' heq)
    · rename_i e s' heq
      obtain ⟨a, o, s0, hk0, hnd⟩ := hnone
      rw [hk0]
      exact Or.inr ⟨coreW (h2 e s' heq) rfl rfl, by simp [Tls.interp, stash], a, o, rfl, hnd⟩
    · rename_i m s' heq; exact absurd heq (bioRead_no_abort s n m s')
  | @bioWrite bs k hne hk hnone ih =>
    intro s h
    obtain ⟨h1, h2⟩ := hw s bs hne h
    unfold Tls.interp
    split
    · rename_i m s' heq; exact ih _ s' (h1 m s' heq)
    · rename_i e s' heq
      obtain ⟨a, o, s0, hk0, hnd⟩ := hnone
      rw [hk0]
      exact Or.inr ⟨coreW (h2 e s' heq) rfl rfl, by simp [Tls.interp, stash], a, o, rfl, hnd⟩
    · rename_i m s' heq; exact absurd heq (bioWrite_no_abort s bs m s')

/-! ### what the BIO callbacks do to world and budget -/

theorem bioRead_budget {W : World ω} (s : St σ ω) (n : Nat) :
    (bioRead W s n).2.g.pendingError = s.g.pendingError ∧
    ((s.g.isReadable = true ∧ (bioRead W s n).2.w = (recvNow W s.w n).world ∧
        (bioRead W s n).2.g.remainingTime = s.g.remainingTime) ∨
     (s.g.isReadable = false ∧ (bioRead W s n).2.w = (receive W s.w n s.g.remainingTime).world ∧
        ((bioRead W s n).2.g.remainingTime
            = underDeadline s.g.remainingTime (W.now s.w) (W.now (bioRead W s n).2.w) ∨
         ((bioRead W s n).2.g.remainingTime = s.g.remainingTime ∧ ∃ e, (bioRead W s n).1 = .exn e)))) := by
  unfold Tls.bioRead
  split
  · rename_i hr
    simp only
    cases recvNow W s.w n <;> simp [RecvRes.world, hr]
  · rename_i hr
    simp only
    cases receive W s.w n s.g.remainingTime <;> simp [RecvRes.world, hr]

theorem noteWrite_budget (s : St σ ω) (bs : Bytes) (r : SendRes ω) (rem : Int) :
    (noteWrite s bs r rem).2.g.pendingError = s.g.pendingError ∧ (noteWrite s bs r rem).2.w = r.w ∧
    ((r.exn = none ∧ (noteWrite s bs r rem).2.g.remainingTime = rem) ∨
     ((noteWrite s bs r rem).2.g.remainingTime = s.g.remainingTime ∧ ∃ e, (noteWrite s bs r rem).1 = .exn e)) := by
  unfold noteWrite
  split
  · rename_i e he; exact ⟨rfl, rfl, Or.inr ⟨rfl, e, rfl⟩⟩
  · rename_i he; exact ⟨rfl, rfl, Or.inl ⟨he, rfl⟩⟩

/-- the four routes of `BioWrite` -/
theorem bioWrite_budget {W : World ω} (s : St σ ω) (bs : Bytes) :
    (bioWrite W s bs).2.g.pendingError = s.g.pendingError ∧
    ((s.g.isWritable = true ∧ (bioWrite W s bs).2.w = (sendNow W s.w bs).w ∧
        (bioWrite W s bs).2.g.remainingTime = s.g.remainingTime) ∨
     (s.g.remainingTime < 0 ∧ (bioWrite W s bs).2.w = (sendAll W s.w bs).w ∧
        (bioWrite W s bs).2.g.remainingTime = s.g.remainingTime) ∨
     (s.g.remainingTime = 0 ∧ (bioWrite W s bs).2.w = (sendTry W s.w bs).w ∧
        (bioWrite W s bs).2.g.remainingTime = s.g.remainingTime) ∨
     (0 < s.g.remainingTime ∧
        (bioWrite W s bs).2.w = (sendSome W s.w bs (W.now s.w + s.g.remainingTime) (W.now s.w)).1.w ∧
        (((sendSome W s.w bs (W.now s.w + s.g.remainingTime) (W.now s.w)).1.exn = none ∧
          (bioWrite W s bs).2.g.remainingTime =
            (if (sendSome W s.w bs (W.now s.w + s.g.remainingTime) (W.now s.w)).1.sent = bs.length
             then remainingMs (W.now s.w + s.g.remainingTime) (sendSome W s.w bs (W.now s.w + s.g.remainingTime) (W.now s.w)).2
             else 0)) ∨
         ((bioWrite W s bs).2.g.remainingTime = s.g.remainingTime ∧ ∃ e, (bioWrite W s bs).1 = .exn e)))) := by
  unfold Tls.bioWrite
  split
  · rename_i hw
    obtain ⟨h1, h2, h3⟩ := noteWrite_budget { s with g := { s.g with isWritable := false } } bs (sendNow W s.w bs) s.g.remainingTime
    refine ⟨h1, Or.inl ⟨hw, h2, ?_⟩⟩
    rcases h3 with ⟨_, h3⟩ | ⟨h3, _⟩ <;> exact h3
  · split
    · rename_i hneg
      obtain ⟨h1, h2, h3⟩ := noteWrite_budget s bs (sendAll W s.w bs) s.g.remainingTime
      refine ⟨h1, Or.inr (Or.inl ⟨hneg, h2, ?_⟩)⟩
      rcases h3 with ⟨_, h3⟩ | ⟨h3, _⟩ <;> exact h3
    · split
      · rename_i hz
        obtain ⟨h1, h2, h3⟩ := noteWrite_budget s bs (sendTry W s.w bs) s.g.remainingTime
        refine ⟨h1, Or.inr (Or.inr (Or.inl ⟨hz, h2, ?_⟩))⟩
        rcases h3 with ⟨_, h3⟩ | ⟨h3, _⟩ <;> exact h3
      · rename_i hneg hz
        simp only
        obtain ⟨h1, h2, h3⟩ := noteWrite_budget s bs (sendSome W s.w bs (W.now s.w + s.g.remainingTime) (W.now s.w)).1
          (if (sendSome W s.w bs (W.now s.w + s.g.remainingTime) (W.now s.w)).1.sent = bs.length
             then remainingMs (W.now s.w + s.g.remainingTime) (sendSome W s.w bs (W.now s.w + s.g.remainingTime) (W.now s.w)).2
             else 0)
        exact ⟨h1, Or.inr (Or.inr (Or.inr ⟨by omega, h2, h3⟩))⟩


/-! ### the wait log of the socket-layer functions -/

/-- `l` extends `l0` by records that all satisfy `R` -/
def LogAll (R : WaitRec → Prop) (l0 l : List WaitRec) : Prop := ∃ new, l = new ++ l0 ∧ ∀ r ∈ new, R r

theorem LogAll.refl {R : WaitRec → Prop} (l : List WaitRec) : LogAll R l l := ⟨[], rfl, by intro r hr; cases hr⟩

theorem LogAll.cons {R : WaitRec → Prop} {l0 l : List WaitRec} (h : LogAll R l0 l) {r : WaitRec} (hr : R r) :
    LogAll R l0 (r :: l) := by
  obtain ⟨new, h1, h2⟩ := h
  refine ⟨r :: new, by rw [h1]; rfl, ?_⟩
  intro x hx
  simp only [List.mem_cons] at hx
  rcases hx with rfl | hx
  · exact hr
  · exact h2 x hx

theorem LogAll.trans {R : WaitRec → Prop} {l0 l1 l2 : List WaitRec} (h1 : LogAll R l0 l1) (h2 : LogAll R l1 l2) :
    LogAll R l0 l2 := by
  obtain ⟨n1, e1, a1⟩ := h1
  obtain ⟨n2, e2, a2⟩ := h2
  refine ⟨n2 ++ n1, by rw [e2, e1, List.append_assoc], ?_⟩
  intro x hx
  simp only [List.mem_append] at hx
  rcases hx with hx | hx
  · exact a2 x hx
  · exact a1 x hx

theorem LogAll.mono {R R' : WaitRec → Prop} {l0 l : List WaitRec} (h : LogAll R l0 l) (hm : ∀ r, R r → R' r) :
    LogAll R' l0 l := by
  obtain ⟨new, h1, h2⟩ := h
  exact ⟨new, h1, fun r hr => hm r (h2 r hr)⟩

theorem LogAll.of_eq {R : WaitRec → Prop} {l0 l l' : List WaitRec} (h : LogAll R l0 l) (he : l' = l) : LogAll R l0 l' := by
  rw [he]; exact h

variable {W : World ω}

theorem sendNow_log (x : ω × List WaitRec) (bs : Bytes) : (sendNow (logWorld W) x bs).w.2 = x.2 := by
  unfold Net.sendNow
  split
  · rename_i e w' heq
    have := congrArg (fun p => p.2.2) heq
    simpa using this.symm
  · rename_i k w' heq
    have := congrArg (fun p => p.2.2) heq
    split <;> simpa using this.symm

theorem sendNow_fst (x : ω × List WaitRec) (bs : Bytes) : (sendNow (logWorld W) x bs).w.1 = (W.send x.1 bs).2 := by
  unfold Net.sendNow
  split
  · rename_i e w' heq
    have := congrArg (fun p => p.2.1) heq
    simpa using this.symm
  · rename_i k w' heq
    have := congrArg (fun p => p.2.1) heq
    split <;> simpa using this.symm

theorem recvNow_log (x : ω × List WaitRec) (n : Nat) : (recvNow (logWorld W) x n).world.2 = x.2 := by
  unfold Net.recvNow
  split
  · rename_i e w' heq
    have := congrArg (fun p => p.2.2) heq
    simpa [RecvRes.world] using this.symm
  · rename_i k w' heq
    have := congrArg (fun p => p.2.2) heq
    split <;> simpa [RecvRes.world] using this.symm

theorem recvNow_fst (x : ω × List WaitRec) (n : Nat) : (recvNow (logWorld W) x n).world.1 = (W.recv x.1 n).2 := by
  unfold Net.recvNow
  split
  · rename_i e w' heq
    have := congrArg (fun p => p.2.1) heq
    simpa [RecvRes.world] using this.symm
  · rename_i k w' heq
    have := congrArg (fun p => p.2.1) heq
    split <;> simpa [RecvRes.world] using this.symm

/-- `Receive(fd, …, t)`: exactly one wait, with argument `t` -/
theorem receive_log (x : ω × List WaitRec) (n : Nat) (t : Int) :
    (receive (logWorld W) x n t).world.2 = ⟨.rd, t, W.now x.1⟩ :: x.2 := by
  unfold Net.receive
  split
  · rename_i w' heq
    have := congrArg (fun p => p.2.2) heq
    simpa [RecvRes.world] using this.symm
  · rename_i w' heq
    have := congrArg (fun p => p.2.2) heq
    rw [recvNow_log]
    simpa using this.symm

/-- the world `Receive` leaves is that of the wait or that of the `recv` after it -/
theorem receive_fst (x : ω × List WaitRec) (n : Nat) (t : Int) :
    (receive (logWorld W) x n t).world.1 = (W.wait x.1 .rd t).2 ∨
    (receive (logWorld W) x n t).world.1 = (W.recv (W.wait x.1 .rd t).2 n).2 := by
  unfold Net.receive
  split
  · rename_i w' heq
    have := congrArg (fun p => p.2.1) heq
    left; simpa [RecvRes.world] using this.symm
  · rename_i w' heq
    have := congrArg (fun p => p.2.1) heq
    right
    rw [recvNow_fst]
    simp only [logWorld_wait_world] at this
    rw [← this]

/-- `SendTry`: exactly one wait, with argument 0 -/
theorem sendTry_log (x : ω × List WaitRec) (bs : Bytes) :
    (sendTry (logWorld W) x bs).w.2 = ⟨.wr, 0, W.now x.1⟩ :: x.2 := by
  unfold Net.sendTry
  split
  · rename_i w' heq
    have := congrArg (fun p => p.2.2) heq
    simpa using this.symm
  · rename_i w' heq
    have := congrArg (fun p => p.2.2) heq
    rw [sendNow_log]
    simpa using this.symm

theorem sendTry_fst (x : ω × List WaitRec) (bs : Bytes) :
    (sendTry (logWorld W) x bs).w.1 = (W.wait x.1 .wr 0).2 ∨
    (sendTry (logWorld W) x bs).w.1 = (W.send (W.wait x.1 .wr 0).2 bs).2 := by
  unfold Net.sendTry
  split
  · rename_i w' heq
    have := congrArg (fun p => p.2.1) heq
    left; simpa using this.symm
  · rename_i w' heq
    have := congrArg (fun p => p.2.1) heq
    right
    rw [sendNow_fst]
    simp only [logWorld_wait_world] at this
    rw [← this]

theorem LogAll.step {R : WaitRec → Prop} {l0 l : List WaitRec} (r : WaitRec) (hr : R r) (he : l = r :: l0) :
    LogAll R l0 l := ((LogAll.refl l0).cons hr).of_eq he

/-- one wait followed by one `SendNow`: the log grows by that wait -/
theorem waitSend_log (x : ω × List WaitRec) (bs : Bytes) (t : Int) :
    (sendNow (logWorld W) ((logWorld W).wait x .wr t).2 bs).w.2 = ⟨.wr, t, W.now x.1⟩ :: x.2 := by
  rw [sendNow_log]; rfl

/-- `SendAll`: every wait has the argument -1 -/
theorem sendAll_log (x : ω × List WaitRec) (bs : Bytes) (acc : Nat) :
    LogAll (fun r => r.timeout = -1) x.2 (sendAll (logWorld W) x bs acc).w.2 := by
  fun_induction Net.sendAll (logWorld W) x bs acc with
  | case1 x bs acc r hx => exact LogAll.step ⟨.wr, -1, W.now x.1⟩ rfl (waitSend_log x bs (-1))
  | case2 x bs acc r hx hrest => exact LogAll.step ⟨.wr, -1, W.now x.1⟩ rfl (waitSend_log x bs (-1))
  | case3 x bs acc r hx hrest hpos ih =>
    exact (LogAll.step (R := fun r => r.timeout = -1) ⟨.wr, -1, W.now x.1⟩ rfl (waitSend_log x bs (-1))).trans ih
  | case4 x bs acc r hx hrest hpos => exact LogAll.step ⟨.wr, -1, W.now x.1⟩ rfl (waitSend_log x bs (-1))

theorem remainingMs_nonneg (d n : Int) : 0 ≤ remainingMs d n := by
  unfold remainingMs; split <;> omega

/-- `SendSome`: every wait has a non-negative argument (whatever the clock does) -/
theorem sendSome_log_nonneg (x : ω × List WaitRec) (bs : Bytes) (dl tick : Int) (acc : Nat) :
    LogAll (fun r => 0 ≤ r.timeout) x.2 (sendSome (logWorld W) x bs dl tick acc).1.w.2 := by
  have h0 := remainingMs_nonneg dl
  fun_induction Net.sendSome (logWorld W) x bs dl tick acc with
  | case1 x bs tick acc wt hw => exact LogAll.step ⟨.wr, remainingMs dl tick, W.now x.1⟩ (h0 _) rfl
  | case2 x bs tick acc wt hw tick' r hx =>
    exact LogAll.step ⟨.wr, remainingMs dl tick, W.now x.1⟩ (h0 _) (waitSend_log x bs _)
  | case3 x bs tick acc wt hw tick' r hx hrest =>
    exact LogAll.step ⟨.wr, remainingMs dl tick, W.now x.1⟩ (h0 _) (waitSend_log x bs _)
  | case4 x bs tick acc wt hw tick' r hx hrest hlt hpos ih =>
    exact (LogAll.step (R := fun r => 0 ≤ r.timeout) ⟨.wr, remainingMs dl tick, W.now x.1⟩ (h0 _) (waitSend_log x bs _)).trans ih
  | case5 x bs tick acc wt hw tick' r hx hrest hlt hpos =>
    exact LogAll.step ⟨.wr, remainingMs dl tick, W.now x.1⟩ (h0 _) (waitSend_log x bs _)
  | case6 x bs tick acc wt hw tick' r hx hrest hlt =>
    exact LogAll.step ⟨.wr, remainingMs dl tick, W.now x.1⟩ (h0 _) (waitSend_log x bs _)

/-! ### clock assumptions -/

/-- **A-CLOCK** (the assumptions of the limited-budget theorem, all about the world, none about the library):
* the clock never runs backwards across a wait;
* a wait with argument `t ≥ 0` returns after at most `t` ms, whether it reports ready or not
  (A-POLL; scheduling latency is not modelled - the theorems are about the arguments the library passes and
  the virtual time it observes);
* the non-blocking `send`/`recv` on the (non-blocking) descriptor take no time.  This one is NEEDED for the
  per-wait bound: the library reads the clock once after each wait (`deadline.Tick()`), time spent inside
  `send`/`recv` is noticed only at the next reading. -/
structure ClockOk (W : World ω) : Prop where
  wait_mono : ∀ w d t, W.now w ≤ W.now (W.wait w d t).2
  wait_le : ∀ w d t, 0 ≤ t → W.now (W.wait w d t).2 ≤ W.now w + t
  send_now : ∀ w bs, W.now (W.send w bs).2 = W.now w
  recv_now : ∀ w n, W.now (W.recv w n).2 = W.now w

/-- a world in which a zero-timeout wait, `send` and `recv` take no time -/
structure ZeroFree (W : World ω) : Prop where
  wait_zero : ∀ w d, W.now (W.wait w d 0).2 = W.now w
  send_now : ∀ w bs, W.now (W.send w bs).2 = W.now w
  recv_now : ∀ w n, W.now (W.recv w n).2 = W.now w

theorem ClockOk.zeroFree (h : ClockOk W) : ZeroFree W where
  wait_zero := fun w d => by have h1 := h.wait_mono w d 0; have h2 := h.wait_le w d 0 (Int.le_refl 0); omega
  send_now := h.send_now
  recv_now := h.recv_now

/-- an unlimited wait comes back only when the descriptor is ready (`poll(-1)` never returns 0) -/
def UnlimitedReady (W : World ω) : Prop := ∀ w d t, t < 0 → (W.wait w d t).1 = true

/-- the waits a limited call may issue: a non-negative argument that ends no later than the deadline `D` -/
def InBudget (D : Int) (r : WaitRec) : Prop := 0 ≤ r.timeout ∧ r.before + r.timeout ≤ D

theorem sendNow_now (hs : ∀ w bs, W.now (W.send w bs).2 = W.now w) (x : ω × List WaitRec) (bs : Bytes) :
    W.now (sendNow (logWorld W) x bs).w.1 = W.now x.1 := by
  rw [sendNow_fst, hs]

theorem recvNow_now (hr : ∀ w n, W.now (W.recv w n).2 = W.now w) (x : ω × List WaitRec) (n : Nat) :
    W.now (recvNow (logWorld W) x n).world.1 = W.now x.1 := by
  rw [recvNow_fst, hr]

theorem receive_now (hr : ∀ w n, W.now (W.recv w n).2 = W.now w) (x : ω × List WaitRec) (n : Nat) (t : Int) :
    W.now (receive (logWorld W) x n t).world.1 = W.now (W.wait x.1 .rd t).2 := by
  rcases receive_fst (W := W) x n t with h | h <;> rw [h]
  exact hr _ _

theorem sendTry_now (hs : ∀ w bs, W.now (W.send w bs).2 = W.now w) (x : ω × List WaitRec) (bs : Bytes) :
    W.now (sendTry (logWorld W) x bs).w.1 = W.now (W.wait x.1 .wr 0).2 := by
  rcases sendTry_fst (W := W) x bs with h | h <;> rw [h]
  exact hs _ _

theorem remainingMs_le (d n D : Int) (hd : d ≤ D) (hn : n ≤ D) : n + remainingMs d n ≤ D := by
  unfold remainingMs; split <;> omega

/-- `SendSome(deadline)` under A-CLOCK, entered with a fresh clock reading and a deadline within the
budget: every wait is within the budget, the clock stays within the budget, and when it reports
"everything sent" the clock reading it returns is the current one -/
theorem sendSome_limited (hc : ClockOk W) (D dl : Int) (hdl : dl ≤ D) (x : ω × List WaitRec) (bs : Bytes)
    (tick : Int) (acc : Nat) :
    bs ≠ [] → tick = W.now x.1 → W.now x.1 ≤ D →
    LogAll (InBudget D) x.2 (sendSome (logWorld W) x bs dl tick acc).1.w.2 ∧
    W.now (sendSome (logWorld W) x bs dl tick acc).1.w.1 ≤ D ∧
    W.now x.1 ≤ W.now (sendSome (logWorld W) x bs dl tick acc).1.w.1 ∧
    ((sendSome (logWorld W) x bs dl tick acc).1.exn = none →
      (sendSome (logWorld W) x bs dl tick acc).1.sent = acc + bs.length →
      (sendSome (logWorld W) x bs dl tick acc).2 = W.now (sendSome (logWorld W) x bs dl tick acc).1.w.1) := by
  have h0 := remainingMs_nonneg dl
  fun_induction Net.sendSome (logWorld W) x bs dl tick acc with
  | case1 x bs tick acc wt hw =>
    intro hne htick hnow
    subst htick
    have hb : InBudget D ⟨.wr, remainingMs dl (W.now x.1), W.now x.1⟩ := ⟨h0 _, remainingMs_le _ _ _ hdl hnow⟩
    have hle := hc.wait_le x.1 .wr _ (h0 (W.now x.1))
    have hmo := hc.wait_mono x.1 .wr (remainingMs dl (W.now x.1))
    refine ⟨LogAll.step _ hb rfl, ?_, hmo, ?_⟩
    · show W.now (W.wait x.1 .wr (remainingMs dl (W.now x.1))).2 ≤ D
      have := hb.2; simp only at this; omega
    · intro _ hs
      simp only at hs
      have : 0 < bs.length := List.length_pos_iff.mpr hne
      omega
  | case2 x bs tick acc wt hw tick' r hx =>
    intro hne htick hnow
    subst htick
    have hb : InBudget D ⟨.wr, remainingMs dl (W.now x.1), W.now x.1⟩ := ⟨h0 _, remainingMs_le _ _ _ hdl hnow⟩
    have hle := hc.wait_le x.1 .wr _ (h0 (W.now x.1))
    have hmo := hc.wait_mono x.1 .wr (remainingMs dl (W.now x.1))
    have hn : W.now r.w.1 = W.now (W.wait x.1 .wr (remainingMs dl (W.now x.1))).2 := sendNow_now hc.send_now _ bs
    refine ⟨LogAll.step _ hb (waitSend_log x bs _), ?_, ?_, ?_⟩
    · show W.now r.w.1 ≤ D
      have := hb.2; simp only at this; omega
    · show W.now x.1 ≤ W.now r.w.1
      omega
    · intro hex
      simp only at hex
      rw [hex] at hx
      simp at hx
  | case3 x bs tick acc wt hw tick' r hx hrest =>
    intro hne htick hnow
    subst htick
    have hb : InBudget D ⟨.wr, remainingMs dl (W.now x.1), W.now x.1⟩ := ⟨h0 _, remainingMs_le _ _ _ hdl hnow⟩
    have hle := hc.wait_le x.1 .wr _ (h0 (W.now x.1))
    have hmo := hc.wait_mono x.1 .wr (remainingMs dl (W.now x.1))
    have hn : W.now r.w.1 = W.now (W.wait x.1 .wr (remainingMs dl (W.now x.1))).2 := sendNow_now hc.send_now _ bs
    refine ⟨LogAll.step _ hb (waitSend_log x bs _), ?_, ?_, ?_⟩
    · show W.now r.w.1 ≤ D
      have := hb.2; simp only at this; omega
    · show W.now x.1 ≤ W.now r.w.1
      omega
    · intro _ _
      show W.now (W.wait x.1 .wr (remainingMs dl (W.now x.1))).2 = W.now r.w.1
      exact hn.symm
  | case4 x bs tick acc wt hw tick' r hx hrest hlt hpos ih =>
    intro hne htick hnow
    subst htick
    have hb : InBudget D ⟨.wr, remainingMs dl (W.now x.1), W.now x.1⟩ := ⟨h0 _, remainingMs_le _ _ _ hdl hnow⟩
    have hle := hc.wait_le x.1 .wr _ (h0 (W.now x.1))
    have hmo := hc.wait_mono x.1 .wr (remainingMs dl (W.now x.1))
    have hn : W.now r.w.1 = W.now (W.wait x.1 .wr (remainingMs dl (W.now x.1))).2 := sendNow_now hc.send_now _ bs
    have hD : W.now r.w.1 ≤ D := by have := hb.2; simp only at this; omega
    obtain ⟨i1, i2, i3, i4⟩ := ih hrest hn.symm hD
    refine ⟨(LogAll.step (R := InBudget D) _ hb (waitSend_log x bs _)).trans i1, i2, by omega, ?_⟩
    intro hex hs
    apply i4 hex
    have hle2 : r.sent ≤ bs.length := sendNow_le _ _ bs
    simp only [List.length_drop]
    omega
  | case5 x bs tick acc wt hw tick' r hx hrest hlt hpos =>
    intro hne htick hnow
    subst htick
    have hb : InBudget D ⟨.wr, remainingMs dl (W.now x.1), W.now x.1⟩ := ⟨h0 _, remainingMs_le _ _ _ hdl hnow⟩
    have hle := hc.wait_le x.1 .wr _ (h0 (W.now x.1))
    have hmo := hc.wait_mono x.1 .wr (remainingMs dl (W.now x.1))
    have hn : W.now r.w.1 = W.now (W.wait x.1 .wr (remainingMs dl (W.now x.1))).2 := sendNow_now hc.send_now _ bs
    refine ⟨LogAll.step _ hb (waitSend_log x bs _), ?_, ?_, ?_⟩
    · show W.now r.w.1 ≤ D
      have := hb.2; simp only at this; omega
    · show W.now x.1 ≤ W.now r.w.1
      omega
    · intro hex
      simp at hex
  | case6 x bs tick acc wt hw tick' r hx hrest hlt =>
    intro hne htick hnow
    subst htick
    have hb : InBudget D ⟨.wr, remainingMs dl (W.now x.1), W.now x.1⟩ := ⟨h0 _, remainingMs_le _ _ _ hdl hnow⟩
    have hle := hc.wait_le x.1 .wr _ (h0 (W.now x.1))
    have hmo := hc.wait_mono x.1 .wr (remainingMs dl (W.now x.1))
    have hn : W.now r.w.1 = W.now (W.wait x.1 .wr (remainingMs dl (W.now x.1))).2 := sendNow_now hc.send_now _ bs
    refine ⟨LogAll.step _ hb (waitSend_log x bs _), ?_, ?_, ?_⟩
    · show W.now r.w.1 ≤ D
      have := hb.2; simp only at this; omega
    · show W.now x.1 ≤ W.now r.w.1
      omega
    · intro _ hs
      simp only at hs
      exfalso
      apply hrest
      have hle2 : r.sent ≤ bs.length := sendNow_le _ _ bs
      apply List.drop_eq_nil_of_le
      omega

/-! ### the four budget invariants -/

theorem underDeadline_nonpos {t : Int} (h : t ≤ 0) (b a : Int) : underDeadline t b a = t := by
  unfold underDeadline; rw [if_pos h]

theorem underDeadline_nonneg {t : Int} (h : 0 ≤ t) (b a : Int) : 0 ≤ underDeadline t b a := by
  unfold underDeadline; split
  · exact h
  · exact remainingMs_nonneg _ _

theorem underDeadline_fresh {t b a D : Int} (h : 0 ≤ t) (hb : b + t ≤ D) (ha : a ≤ b + t) :
    a + underDeadline t b a ≤ D := by
  unfold underDeadline remainingMs; split
  · omega
  · split <;> omega

abbrev LSt (σ ω : Type) := St σ (ω × List WaitRec)

/-- zero budget: it stays zero, every wait has the argument 0, and in a world where such waits take no time
the clock stands still -/
def ZeroInv (W : World ω) (l0 : List WaitRec) (n0 : Int) (s : LSt σ ω) : Prop :=
  s.g.remainingTime = 0 ∧ LogAll (fun r => r.timeout = 0) l0 s.w.2 ∧ (ZeroFree W → W.now s.w.1 = n0)

theorem zeroFrame (W : World ω) (E : Engine σ) (l0 : List WaitRec) (n0 : Int) :
    HFrame (logWorld W) E (ZeroInv (σ := σ) W l0 n0) (ZeroInv W l0 n0) := by
  apply HFrame.ofPrim
  · intro s s' h hw hr
    unfold ZeroInv at h ⊢
    rw [hw, hr]; exact h
  · intro s d ⟨h1, h2, h3⟩
    refine ⟨?_, ?_, ?_⟩
    · show underDeadline s.g.remainingTime _ _ = 0
      rw [h1]; rfl
    · exact h2.cons (r := ⟨d, s.g.remainingTime, W.now s.w.1⟩) h1
    · intro hz
      show W.now (W.wait s.w.1 d s.g.remainingTime).2 = n0
      rw [h1, hz.wait_zero]; exact h3 hz
  · intro s n ⟨h1, h2, h3⟩
    obtain ⟨_, hb⟩ := bioRead_budget (W := logWorld W) s n
    rcases hb with ⟨_, hw, hr⟩ | ⟨_, hw, hr⟩
    · refine ⟨by rw [hr]; exact h1, by rw [hw, recvNow_log]; exact h2, ?_⟩
      intro hz; rw [hw, recvNow_now hz.recv_now]; exact h3 hz
    · refine ⟨?_, ?_, ?_⟩
      · rcases hr with hr | ⟨hr, _⟩
        · rw [hr, h1]; rfl
        · rw [hr]; exact h1
      · rw [hw, receive_log]; exact h2.cons (r := ⟨.rd, s.g.remainingTime, W.now s.w.1⟩) h1
      · intro hz; rw [hw, receive_now hz.recv_now, h1, hz.wait_zero]; exact h3 hz
  · intro s bs ⟨h1, h2, h3⟩
    obtain ⟨_, hb⟩ := bioWrite_budget (W := logWorld W) s bs
    rcases hb with ⟨_, hw, hr⟩ | ⟨hneg, _⟩ | ⟨_, hw, hr⟩ | ⟨hpos, _⟩
    · refine ⟨by rw [hr]; exact h1, by rw [hw, sendNow_log]; exact h2, ?_⟩
      intro hz; rw [hw, sendNow_now hz.send_now]; exact h3 hz
    · omega
    · refine ⟨by rw [hr]; exact h1, by rw [hw, sendTry_log]; exact h2.cons (r := ⟨.wr, 0, W.now s.w.1⟩) rfl, ?_⟩
      intro hz; rw [hw, sendTry_now hz.send_now, hz.wait_zero]; exact h3 hz
    · omega

/-- unlimited budget `T < 0`: it stays `T`; every wait has the argument `T` (the glue's own waits and
`Receive`) or -1 (`SendAll`) -/
def UnlInv (T : Int) (l0 : List WaitRec) (s : LSt σ ω) : Prop :=
  s.g.remainingTime = T ∧ LogAll (fun r => r.timeout = T ∨ r.timeout = -1) l0 s.w.2

theorem unlFrame (W : World ω) (E : Engine σ) (T : Int) (hT : T < 0) (l0 : List WaitRec) :
    HFrame (logWorld W) E (UnlInv (σ := σ) (ω := ω) T l0) (UnlInv T l0) := by
  apply HFrame.ofPrim
  · intro s s' h hw hr
    unfold UnlInv at h ⊢
    rw [hw, hr]; exact h
  · intro s d ⟨h1, h2⟩
    refine ⟨?_, ?_⟩
    · show underDeadline s.g.remainingTime _ _ = T
      rw [underDeadline_nonpos (by omega)]; exact h1
    · exact h2.cons (r := ⟨d, s.g.remainingTime, W.now s.w.1⟩) (Or.inl h1)
  · intro s n ⟨h1, h2⟩
    obtain ⟨_, hb⟩ := bioRead_budget (W := logWorld W) s n
    rcases hb with ⟨_, hw, hr⟩ | ⟨_, hw, hr⟩
    · exact ⟨by rw [hr]; exact h1, by rw [hw, recvNow_log]; exact h2⟩
    · refine ⟨?_, ?_⟩
      · rcases hr with hr | ⟨hr, _⟩
        · rw [hr, underDeadline_nonpos (by omega)]; exact h1
        · rw [hr]; exact h1
      · rw [hw, receive_log]; exact h2.cons (r := ⟨.rd, s.g.remainingTime, W.now s.w.1⟩) (Or.inl h1)
  · intro s bs ⟨h1, h2⟩
    obtain ⟨_, hb⟩ := bioWrite_budget (W := logWorld W) s bs
    rcases hb with ⟨_, hw, hr⟩ | ⟨_, hw, hr⟩ | ⟨hz, _⟩ | ⟨hpos, _⟩
    · exact ⟨by rw [hr]; exact h1, by rw [hw, sendNow_log]; exact h2⟩
    · refine ⟨by rw [hr]; exact h1, ?_⟩
      rw [hw]
      exact h2.trans ((sendAll_log s.w bs 0).mono (fun r hr => Or.inr hr))
    · omega
    · omega

/-- a non-negative budget never becomes negative ("must not turn timeout >=0 into <0"), and no wait is issued
with a negative argument - in EVERY world, whatever its clock does -/
def NonnegInv (l0 : List WaitRec) (s : LSt σ ω) : Prop :=
  0 ≤ s.g.remainingTime ∧ LogAll (fun r => 0 ≤ r.timeout) l0 s.w.2

theorem nonnegFrame (W : World ω) (E : Engine σ) (l0 : List WaitRec) :
    HFrame (logWorld W) E (NonnegInv (σ := σ) (ω := ω) l0) (NonnegInv l0) := by
  apply HFrame.ofPrim
  · intro s s' h hw hr
    unfold NonnegInv at h ⊢
    rw [hw, hr]; exact h
  · intro s d ⟨h1, h2⟩
    exact ⟨underDeadline_nonneg h1 _ _, h2.cons (r := ⟨d, s.g.remainingTime, W.now s.w.1⟩) h1⟩
  · intro s n ⟨h1, h2⟩
    obtain ⟨_, hb⟩ := bioRead_budget (W := logWorld W) s n
    rcases hb with ⟨_, hw, hr⟩ | ⟨_, hw, hr⟩
    · exact ⟨by rw [hr]; exact h1, by rw [hw, recvNow_log]; exact h2⟩
    · refine ⟨?_, ?_⟩
      · rcases hr with hr | ⟨hr, _⟩
        · rw [hr]; exact underDeadline_nonneg h1 _ _
        · rw [hr]; exact h1
      · rw [hw, receive_log]; exact h2.cons (r := ⟨.rd, s.g.remainingTime, W.now s.w.1⟩) h1
  · intro s bs ⟨h1, h2⟩
    obtain ⟨_, hb⟩ := bioWrite_budget (W := logWorld W) s bs
    rcases hb with ⟨_, hw, hr⟩ | ⟨hneg, _⟩ | ⟨_, hw, hr⟩ | ⟨hpos, hw, hr⟩
    · exact ⟨by rw [hr]; exact h1, by rw [hw, sendNow_log]; exact h2⟩
    · omega
    · exact ⟨by rw [hr]; exact h1, by rw [hw, sendTry_log]; exact h2.cons (r := ⟨.wr, 0, W.now s.w.1⟩) (Int.le_refl 0)⟩
    · refine ⟨?_, by rw [hw]; exact h2.trans (sendSome_log_nonneg s.w bs _ _ 0)⟩
      rcases hr with ⟨_, hr⟩ | ⟨hr, _⟩
      · rw [hr]; split
        · exact remainingMs_nonneg _ _
        · exact Int.le_refl 0
      · rw [hr]; exact h1

/-- limited budget, deadline `D` = entry + T: the budget is non-negative and *fresh* (clock + budget ≤ D),
every wait so far was within the budget, no callback has failed -/
def LimGood (W : World ω) (D : Int) (l0 : List WaitRec) (s : LSt σ ω) : Prop :=
  0 ≤ s.g.remainingTime ∧ W.now s.w.1 + s.g.remainingTime ≤ D ∧ LogAll (InBudget D) l0 s.w.2 ∧
  s.g.pendingError = none

/-- what is left after a callback failed: the budget may be stale, but the clock and every wait so far are
within the budget -/
def LimWeak (W : World ω) (D : Int) (l0 : List WaitRec) (s : LSt σ ω) : Prop :=
  0 ≤ s.g.remainingTime ∧ W.now s.w.1 ≤ D ∧ LogAll (InBudget D) l0 s.w.2

theorem lim_bioRead (hc : ClockOk W) (D : Int) (l0 : List WaitRec) (s : LSt σ ω) (n : Nat)
    (h : LimGood W D l0 s) :
    LimWeak W D l0 (bioRead (logWorld W) s n).2 ∧
    ((∀ e, (bioRead (logWorld W) s n).1 ≠ .exn e) → LimGood W D l0 (bioRead (logWorld W) s n).2) := by
  obtain ⟨h1, h2, h3, h4⟩ := h
  obtain ⟨hp, hb⟩ := bioRead_budget (W := logWorld W) s n
  rcases hb with ⟨_, hw, hr⟩ | ⟨_, hw, hr⟩
  · have hn : W.now (bioRead (logWorld W) s n).2.w.1 = W.now s.w.1 := by rw [hw, recvNow_now hc.recv_now]
    have hl : LogAll (InBudget D) l0 (bioRead (logWorld W) s n).2.w.2 := by rw [hw, recvNow_log]; exact h3
    exact ⟨⟨by rw [hr]; exact h1, by rw [hn]; omega, hl⟩,
      fun _ => ⟨by rw [hr]; exact h1, by rw [hn, hr]; exact h2, hl, by rw [hp]; exact h4⟩⟩
  · have hn : W.now (bioRead (logWorld W) s n).2.w.1 = W.now (W.wait s.w.1 .rd s.g.remainingTime).2 := by
      rw [hw, receive_now hc.recv_now]
    have hle := hc.wait_le s.w.1 .rd _ h1
    have hl : LogAll (InBudget D) l0 (bioRead (logWorld W) s n).2.w.2 := by
      rw [hw, receive_log]; exact h3.cons (r := ⟨.rd, s.g.remainingTime, W.now s.w.1⟩) ⟨h1, h2⟩
    refine ⟨⟨?_, by rw [hn]; omega, hl⟩, ?_⟩
    · rcases hr with hr | ⟨hr, _⟩
      · rw [hr]; exact underDeadline_nonneg h1 _ _
      · rw [hr]; exact h1
    · intro hne
      rcases hr with hr | ⟨_, e, he⟩
      · refine ⟨by rw [hr]; exact underDeadline_nonneg h1 _ _, ?_, hl, by rw [hp]; exact h4⟩
        rw [hr]
        simp only [logWorld_now]
        exact underDeadline_fresh h1 h2 (by rw [hn]; exact hle)
      · exact absurd he (hne e)

theorem lim_bioWrite (hc : ClockOk W) (D : Int) (l0 : List WaitRec) (s : LSt σ ω) (bs : Bytes) (hne : bs ≠ [])
    (h : LimGood W D l0 s) :
    LimWeak W D l0 (bioWrite (logWorld W) s bs).2 ∧
    ((∀ e, (bioWrite (logWorld W) s bs).1 ≠ .exn e) → LimGood W D l0 (bioWrite (logWorld W) s bs).2) := by
  obtain ⟨h1, h2, h3, h4⟩ := h
  obtain ⟨hp, hb⟩ := bioWrite_budget (W := logWorld W) s bs
  rcases hb with ⟨_, hw, hr⟩ | ⟨hneg, _⟩ | ⟨hz, hw, hr⟩ | ⟨hpos, hw, hr⟩
  · have hn : W.now (bioWrite (logWorld W) s bs).2.w.1 = W.now s.w.1 := by rw [hw, sendNow_now hc.send_now]
    have hl : LogAll (InBudget D) l0 (bioWrite (logWorld W) s bs).2.w.2 := by rw [hw, sendNow_log]; exact h3
    exact ⟨⟨by rw [hr]; exact h1, by rw [hn]; omega, hl⟩,
      fun _ => ⟨by rw [hr]; exact h1, by rw [hn, hr]; exact h2, hl, by rw [hp]; exact h4⟩⟩
  · omega
  · have hn : W.now (bioWrite (logWorld W) s bs).2.w.1 = W.now (W.wait s.w.1 .wr 0).2 := by
      rw [hw, sendTry_now hc.send_now]
    have hle := hc.wait_le s.w.1 .wr 0 (Int.le_refl 0)
    have hl : LogAll (InBudget D) l0 (bioWrite (logWorld W) s bs).2.w.2 := by
      rw [hw, sendTry_log]; exact h3.cons (r := ⟨.wr, 0, W.now s.w.1⟩) ⟨Int.le_refl 0, by show W.now s.w.1 + 0 ≤ D; omega⟩
    exact ⟨⟨by rw [hr]; exact h1, by rw [hn]; omega, hl⟩,
      fun _ => ⟨by rw [hr]; exact h1, by rw [hn, hr, hz]; omega, hl, by rw [hp]; exact h4⟩⟩
  · obtain ⟨q1, q2, q3, q4⟩ := sendSome_limited hc D ((logWorld W).now s.w + s.g.remainingTime) h2 s.w bs
      ((logWorld W).now s.w) 0 hne rfl (by omega)
    have hl : LogAll (InBudget D) l0 (bioWrite (logWorld W) s bs).2.w.2 := by rw [hw]; exact h3.trans q1
    have hrem : 0 ≤ (bioWrite (logWorld W) s bs).2.g.remainingTime := by
      rcases hr with ⟨_, hr⟩ | ⟨hr, _⟩
      · rw [hr]
        by_cases hs : (sendSome (logWorld W) s.w bs ((logWorld W).now s.w + s.g.remainingTime) ((logWorld W).now s.w)).1.sent = bs.length
        · rw [if_pos hs]; exact remainingMs_nonneg _ _
        · rw [if_neg hs]; exact Int.le_refl 0
      · rw [hr]; exact h1
    refine ⟨⟨hrem, by rw [hw]; exact q2, hl⟩, ?_⟩
    intro hnex
    rcases hr with ⟨hex, hr⟩ | ⟨_, e, he⟩
    · refine ⟨hrem, ?_, hl, by rw [hp]; exact h4⟩
      rw [hr, hw]
      by_cases hs : (sendSome (logWorld W) s.w bs ((logWorld W).now s.w + s.g.remainingTime) ((logWorld W).now s.w)).1.sent = bs.length
      · rw [if_pos hs, q4 hex (by omega)]
        exact remainingMs_le _ _ _ h2 q2
      · rw [if_neg hs]; omega
    · exact absurd he (hnex e)

/-- the frame of the limited budget: for engines that stop after a failed callback, under A-CLOCK -/
theorem limFrame (hc : ClockOk W) (E : Engine σ) (hE : E.FailStop) (D : Int) (l0 : List WaitRec) :
    HFrame (logWorld W) E (LimGood (σ := σ) W D l0) (LimWeak W D l0) := by
  have coreP : ∀ {s s' : LSt σ ω}, LimGood W D l0 s → s'.w = s.w → s'.g.remainingTime = s.g.remainingTime →
      s'.g.pendingError = s.g.pendingError → LimGood W D l0 s' := by
    intro s s' h hw hr hp
    unfold LimGood at h ⊢
    rw [hw, hr, hp]; exact h
  have coreW : ∀ {s s' : LSt σ ω}, LimWeak W D l0 s → s'.w = s.w → s'.g.remainingTime = s.g.remainingTime →
      LimWeak W D l0 s' := by
    intro s s' h hw hr
    unfold LimWeak at h ⊢
    rw [hw, hr]; exact h
  have hr : ∀ (s : LSt σ ω) n, LimGood W D l0 s →
      (∀ bs s', bioRead (logWorld W) s n = (.ok bs, s') → LimGood W D l0 s') ∧
      (∀ e s', bioRead (logWorld W) s n = (.exn e, s') → LimWeak W D l0 s') := by
    intro s n h
    obtain ⟨a, b⟩ := lim_bioRead hc D l0 s n h
    constructor
    · intro bs s' heq; rw [heq] at b; exact b (by intro e he; cases he)
    · intro e s' heq; rw [heq] at a; exact a
  have hw : ∀ (s : LSt σ ω) bs, bs ≠ [] → LimGood W D l0 s →
      (∀ m s', bioWrite (logWorld W) s bs = (.ok m, s') → LimGood W D l0 s') ∧
      (∀ e s', bioWrite (logWorld W) s bs = (.exn e, s') → LimWeak W D l0 s') := by
    intro s bs hne h
    obtain ⟨a, b⟩ := lim_bioWrite hc D l0 s bs hne h
    constructor
    · intro m s' heq; rw [heq] at b; exact b (by intro e he; cases he)
    · intro e s' heq; rw [heq] at a; exact a
  refine ⟨?_, coreW, ?_, ?_, ?_⟩
  · intro s s' h hw' hr' hp
    obtain ⟨h1, h2, h3, h4⟩ := h
    refine ⟨by rw [hr']; exact h1, by rw [hw', hr']; exact h2, by rw [hw']; exact h3, ?_⟩
    rcases hp with hp | hp
    · rw [hp]; exact h4
    · exact hp
  · intro s d ⟨h1, h2, h3, h4⟩
    have hle := hc.wait_le s.w.1 d _ h1
    refine ⟨underDeadline_nonneg h1 _ _, ?_, h3.cons (r := ⟨d, s.g.remainingTime, W.now s.w.1⟩) ⟨h1, h2⟩, h4⟩
    exact underDeadline_fresh h1 h2 hle
  · intro s n h; exact interp_failstop coreP coreW hr hw _ (hE.1 s.e n) s h
  · intro s d h; exact interp_failstop coreP coreW hr hw _ (hE.2 s.e d) s h

/-- with a fail-stop engine no callback failure stays stashed across calls -/
theorem noStashFrame (W : World ω) (E : Engine σ) (hE : E.FailStop) :
    HFrame W E (fun s : St σ ω => s.g.pendingError = none) (fun _ => True) := by
  have hr : ∀ (s : St σ ω) n, s.g.pendingError = none →
      (∀ bs s', bioRead W s n = (.ok bs, s') → s'.g.pendingError = none) ∧
      (∀ e s', bioRead W s n = (.exn e, s') → True) := by
    intro s n h
    refine ⟨?_, fun _ _ _ => trivial⟩
    intro bs s' heq
    have := (bioRead_budget (W := W) s n).1
    rw [heq] at this
    exact this.trans h
  have hw : ∀ (s : St σ ω) bs, bs ≠ [] → s.g.pendingError = none →
      (∀ m s', bioWrite W s bs = (.ok m, s') → s'.g.pendingError = none) ∧
      (∀ e s', bioWrite W s bs = (.exn e, s') → True) := by
    intro s bs _ h
    refine ⟨?_, fun _ _ _ => trivial⟩
    intro m s' heq
    have := (bioWrite_budget (W := W) s bs).1
    rw [heq] at this
    exact this.trans h
  refine ⟨?_, fun _ _ _ => trivial, fun s d h => h, ?_, ?_⟩
  · intro s s' h _ _ hp
    rcases hp with hp | hp
    · exact hp.trans h
    · exact hp
  · intro s n h
    exact interp_failstop (P := fun s : St σ ω => s.g.pendingError = none) (Wk := fun _ => True)
      (fun h _ _ hp => hp.trans h) (fun _ _ _ => trivial) hr hw _ (hE.1 s.e n) s h
  · intro s d h
    exact interp_failstop (P := fun s : St σ ω => s.g.pendingError = none) (Wk := fun _ => True)
      (fun h _ _ hp => hp.trans h) (fun _ _ _ => trivial) hr hw _ (hE.2 s.e d) s h

/-! ### a scripted world that satisfies the clock assumptions by construction (for the examples) -/

/-- scripted answers; when a list is exhausted: nothing ever becomes ready (a wait sits out its timeout),
`send` accepts everything, `recv` has nothing (EAGAIN) -/
structure TW where
  clock : Int := 0
  /-- readiness, and after how many ms the wait comes back when it reports ready (capped by its timeout) -/
  waits : List (Bool × Nat) := []
  sends : List SendAns := []
  recvs : List RecvAns := []
  deriving DecidableEq, Repr

def TW.elapsed (ready : Bool) (el : Nat) (t : Int) : Int :=
  if t < 0 then el else if ready then min (el : Int) t else t

def TW.world : World TW where
  wait s _ t :=
    match s.waits with
    | (rdy, el) :: rest =>
      let ready := rdy || decide (t < 0)        -- an unlimited wait only comes back ready
      (ready, { s with waits := rest, clock := s.clock + TW.elapsed ready el t })
    | [] => (decide (t < 0), { s with clock := s.clock + TW.elapsed (decide (t < 0)) 0 t })
  send s bs :=
    match s.sends with
    | a :: rest => (a, { s with sends := rest })
    | [] => (.accept bs.length, s)
  recv s _ :=
    match s.recvs with
    | a :: rest => (a, { s with recvs := rest })
    | [] => (.fail 11, s)
  now s := s.clock

theorem TW.elapsed_bounds (ready : Bool) (el : Nat) (t : Int) :
    0 ≤ TW.elapsed ready el t ∨ t < 0 ∧ 0 ≤ TW.elapsed ready el t := by
  unfold TW.elapsed
  split
  · right; exact ⟨by assumption, Int.natCast_nonneg el⟩
  · left; split <;> omega

theorem TW.clockOk : ClockOk TW.world where
  wait_mono := by
    intro w d t
    have h : ∀ r el, 0 ≤ TW.elapsed r el t := fun r el => by
      rcases TW.elapsed_bounds r el t with h | h
      · exact h
      · exact h.2
    simp only [TW.world]
    split
    · have := h (‹Bool› || decide (t < 0)) ‹Nat›; simp only; omega
    · have := h (decide (t < 0)) 0; simp only; omega
  wait_le := by
    intro w d t ht
    have h : ∀ r el, TW.elapsed r el t ≤ t := fun r el => by
      unfold TW.elapsed
      rw [if_neg (by omega)]
      split <;> omega
    simp only [TW.world]
    split
    · have := h (‹Bool› || decide (t < 0)) ‹Nat›; simp only; omega
    · have := h (decide (t < 0)) 0; simp only; omega
  send_now := by
    intro w bs
    simp only [TW.world]
    split <;> rfl
  recv_now := by
    intro w n
    simp only [TW.world]
    split <;> rfl

theorem TW.unlimitedReady : UnlimitedReady TW.world := by
  intro w d t ht
  simp only [TW.world]
  split <;> simp [ht]

/-! ### COUNTER-MODEL (not the library, not used by any driver): `BioRead` that does not write the shrunken
budget back - the seeded change `seeded/C07_r4_agentH/patch.diff`.  Everything above the callback is copied
unchanged from `Model/Tls.lean`. -/
namespace Seeded

/-- `BioRead` of the seeded change: `sockpuppet::Receive(fd, …, remainingTime)` without `UnderDeadline` -/
def bioRead (W : World ω) (s : St σ ω) (n : Nat) : Out Bytes × St σ ω :=
  let r := Tls.bioRead W s n
  (r.1, { r.2 with g := { r.2.g with remainingTime := s.g.remainingTime } })

def interp (W : World ω) (s : St σ ω) : EngProg σ → Out (SslAns × Bytes) × St σ ω
  | .ret ans out e' => (.ok (ans, out), { s with e := e' })
  | .bioRead n k =>
    match bioRead W s n with
    | (.ok bs, s') => interp W s' (k (some bs))
    | (.exn e, s') => interp W (stash s' e) (k none)
    | (.abort m, s') => (.abort m, s')
  | .bioWrite bs k =>
    match bioWrite W s bs with
    | (.ok n, s') => interp W s' (k (some n))
    | (.exn e, s') => interp W (stash s' e) (k none)
    | (.abort m, s') => (.abort m, s')

def readRound (C : Cfg) (W : World ω) (E : Engine σ) (size : Nat) (i : Nat) (s : St σ ω) : Option (Out Bytes) × St σ ω :=
  match interp W s (E.sslRead s.e size) with
  | (.exn e, s') => (some (.exn e), s')
  | (.abort m, s') => (some (.abort m), s')
  | (.ok (ans, out), s1) =>
    let s1 := noteCall E s1 true [] ans
    match ans with
    | .done _ => (some (.ok out), s1)
    | _ =>
      match handleResult W s1 ans with
      | (.exn e, s2) => (some (.exn e), s2)
      | (.abort m, s2) => (some (.abort m), s2)
      | (.ok false, s2) => (some (.ok []), s2)
      | (.ok true, s2) =>
        if i = 0 ∧ C.asserts then (some (.abort "assert(i < handshakeStepsMax) in Read"), s2)
        else (none, s2)

def readLoop (C : Cfg) (W : World ω) (E : Engine σ) (size : Nat) : Nat → St σ ω → Out Bytes × St σ ω
  | 0, s => (.ok [], s)
  | i + 1, s =>
    match readRound C W E size i s with
    | (some o, s') => (o, s')
    | (none, s') => readLoop C W E size i s'

def tlsRead (C : Cfg) (W : World ω) (E : Engine σ) (s : St σ ω) (size : Nat) : Out Bytes × St σ ω :=
  match handleLastError W s with
  | (.ok true, s') => readLoop C W E size C.stepsMax s'
  | (.ok false, s') => (.ok [], s')
  | (.exn e, s') => (.exn e, s')
  | (.abort m, s') => (.abort m, s')

def receiveT (C : Cfg) (W : World ω) (E : Engine σ) (s : St σ ω) (size : Nat) (timeout : Int) : Out Bytes × St σ ω :=
  match tlsRead C W E (setTimeout s timeout) size with
  | (.ok [], s') =>
    if timeout < 0 ∧ C.asserts then (.abort "assert(timeout.count() >= 0) in Receive", s')
    else if C.fixRecvReset ∧ s'.g.lastError = .wantRead ∧ E.initFinished s'.e then
      (.ok [], setLastError s' .none)
    else (.ok [], s')
  | r => r

end Seeded

end SockModel.Tls

/-
# Descriptor ownership under operating-system failures (C14)

A *ledger* of the descriptors the library holds, and every public constructor /
throwing operation of the library written as a small program in an
exception-and-ownership monad.  The programs mirror **which C++ object owns the
descriptor at which program point**:

* `SocketImpl(family, type, protocol)` / `SocketImpl(fd)` throw when the
  descriptor is invalid, i.e. before anything is owned (`socketImpl`, `acceptOn`);
* the public classes keep the `SocketImpl` in a `unique_ptr` member that is
  constructed first, so a throwing constructor *body* still runs `~SocketImpl`
  (`guardFd fd body` = "run `body`; if it throws, close `fd`, rethrow");
* the constructors taking an rvalue socket move the descriptor into their own
  member before the first call that can fail (`bufferedCtor`, `tcpAsyncAttach`,
  `acceptorAsyncAttach`): a failure closes the consumed descriptor;
* `Driver()` owns two pipe sockets, destroyed in reverse order;
* the driver catches `std::runtime_error` from receive / accept / send and
  routes it to the disconnect handler, to nobody (UDP, acceptor: `onError` is a
  no-op) or to the promise (`driverStep`).

Every system call is `sys c fd`; whether it fails is decided by a **fault
oracle** `Nat → Option Errno` indexed by the position of the call in the trace.
`close` is not a faultable call (DESIGN section 3: destructors are out of scope).
Source anchors: socket_impl.cpp:84-113,135-242,306-392, socket.cpp:14-21,52-59,99-120,
socket_buffered_impl.cpp:5-13, socket_async_impl.cpp:10-74,123-228, socket_async.cpp:150-157,
driver_impl.cpp:82-98,147-166,230-286, wait.cpp:64-104, address_impl.cpp:170-240.
-/
namespace SockModel.Fd

abbrev Fd := Nat
abbrev Errno := Int
abbrev Oracle := Nat → Option Errno

inductive Exn where
  /-- `std::system_error(SocketError(), …)`: carries `errno` -/
  | system (e : Errno)
  /-- `std::system_error(AddressError(code), …)`: carries the `EAI_*` code -/
  | address (e : Errno)
  /-- `std::logic_error` (unexpected result of a call) -/
  | logic
  /-- plain `std::runtime_error` ("connection closed") -/
  | runtime
  deriving DecidableEq, Repr

inductive Sys where
  | socket | bind | listen | connect | accept | fcntl | setsockopt | getsockopt | getsockname
  | getpeername | send | sendto | recv | recvfrom | poll | getaddrinfo | getnameinfo
  deriving DecidableEq, Repr

structure Call where
  step : Nat
  sys : Sys
  fd : Option Fd
  fault : Option Errno
  deriving Repr, DecidableEq

/-- what an observer of the system-call boundary sees of the model, in time order: every call with its
answer (and the descriptor a successful `socket` / `accept` returned) and every `close` -/
inductive LogItem where
  | call (c : Sys) (fd : Option Fd) (fault : Option Errno) (newfd : Option Fd)
  | close (fd : Fd)
  deriving Repr, DecidableEq

def LogItem.isClose : LogItem → Bool
  | .close _ => true
  | _ => false

structure Ledger where
  /-- descriptors currently open (in order of opening) -/
  live : List Fd := []
  /-- next descriptor number (descriptors are never reused in the model) -/
  next : Nat := 0
  closed : List Fd := []
  closedTwice : Bool := false
  closedForeign : Bool := false
  /-- position in the call trace = index into the fault oracle -/
  pos : Nat := 0
  /-- number of calls so far that the oracle made fail -/
  nfault : Nat := 0
  /-- label of the API call being executed (set by the scenario runner) -/
  step : Nat := 0
  trace : List Call := []            -- newest first
  closes : List (Nat × Fd) := []     -- (step, fd), newest first
  /-- calls and closes interleaved as they happened, newest first (ghost field: nothing reads it; it is
  what `Spec/C14.lean` takes as the observations of the model) -/
  log : List LogItem := []
  deriving Repr, DecidableEq

def M (α : Type) : Type := Oracle → Ledger → Except Exn α × Ledger

instance : Monad M where
  pure a := fun _ L => (.ok a, L)
  bind m f := fun o L =>
    match m o L with
    | (.ok a, L') => f a o L'
    | (.error e, L') => (.error e, L')

def raise {α : Type} (e : Exn) : M α := fun _ L => (.error e, L)

/-- catch: the result of `m` as a value -/
def tryM {α : Type} (m : M α) : M (Except Exn α) := fun o L =>
  match m o L with
  | (r, L') => (.ok r, L')

/-- a system call that opens nothing: its failure is the oracle's answer at this position -/
def sys (c : Sys) (fd : Option Fd := none) : M (Option Errno) := fun o L =>
  (.ok (o L.pos),
   { L with pos := L.pos + 1, nfault := L.nfault + (if (o L.pos).isSome then 1 else 0),
            trace := ⟨L.step, c, fd, o L.pos⟩ :: L.trace, log := .call c fd (o L.pos) none :: L.log })

/-- `socket` / `accept`: on success a fresh descriptor becomes live -/
def sysOpen (c : Sys) (fd : Option Fd := none) : M (Except Errno Fd) := fun o L =>
  match o L.pos with
  | some e => (.ok (.error e),
      { L with pos := L.pos + 1, nfault := L.nfault + 1, trace := ⟨L.step, c, fd, some e⟩ :: L.trace,
               log := .call c fd (some e) none :: L.log })
  | none => (.ok (.ok L.next),
      { L with pos := L.pos + 1, live := L.live ++ [L.next], next := L.next + 1,
               trace := ⟨L.step, c, fd, none⟩ :: L.trace, log := .call c fd none (some L.next) :: L.log })

def Ledger.close (L : Ledger) (fd : Fd) : Ledger :=
  if fd ∈ L.live then
    { L with live := L.live.erase fd, closed := fd :: L.closed, closes := (L.step, fd) :: L.closes,
             log := .close fd :: L.log }
  else if fd ∈ L.closed then { L with closedTwice := true, log := .close fd :: L.log }
  else { L with closedForeign := true, log := .close fd :: L.log }

/-- `::close` from a destructor: never faulted, not part of the call trace -/
def closeFd (fd : Fd) : M Unit := fun _ L => (.ok (), L.close fd)

/-- the descriptor is owned by an object whose destructor runs when `body` throws -/
def guardFd {α : Type} (fd : Fd) (body : M α) : M α := fun o L =>
  match body o L with
  | (.ok a, L') => (.ok a, L')
  | (.error e, L') => (.error e, L'.close fd)

/-- run without faults, outside the trace (scenario setup / teardown); as in the shim's quiet mode the
calls are not logged, the closes are -/
def quiet {α : Type} (m : M α) : M α := fun _ L =>
  match m (fun _ => none) L with
  | (r, L') => (r, { L' with pos := L.pos, trace := L.trace, nfault := L.nfault,
                             log := (L'.log.take (L'.log.length - L.log.length)).filter LogItem.isClose ++ L.log })

def setStep (n : Nat) : M Unit := fun _ L => (.ok (), { L with step := n })

/-! ## building blocks -/

/-- a call whose failure becomes `system_error(SocketError())` -/
def sysE (c : Sys) (fd : Fd) : M Unit := do
  match ← sys c (some fd) with
  | some e => raise (.system e)
  | none => pure ()

/-- as `sysE`, but the message contains `to_string(addr)`, which calls `getnameinfo`
(error code cached before; a failing `getnameinfo` throws its own exception) -/
def sysAddrMsg (c : Sys) (fd : Fd) : M Unit := do
  match ← sys c (some fd) with
  | some e =>
    match ← sys .getnameinfo with
    | some g => raise (.address g)
    | none => raise (.system e)
  | none => pure ()

def gai (c : Sys) : M Unit := do
  match ← sys c with
  | some e => raise (.address e)
  | none => pure ()

/-- `SocketImpl(family, type, protocol)` / `SocketImpl(fd)` around `::accept`: an invalid descriptor
throws before anything is owned -/
def openImpl (c : Sys) (arg : Option Fd) : M Fd := do
  match ← sysOpen c arg with
  | .error e => raise (.system e)
  | .ok fd => pure fd

def socketImpl : M Fd := openImpl .socket none

/-- `SetSockOptNonBlocking`: `fcntl(F_GETFL)`, `fcntl(F_SETFL)` -/
def setNonBlocking (fd : Fd) : M Unit := do
  sysE .fcntl fd
  sysE .fcntl fd

/-! ## constructors (result = descriptors owned by the new object) -/

/-- `Address(uri)`, `Address(host, serv)`, `Address(port)` -/
def addrCtor : M (List Fd) := do gai .getaddrinfo; pure []

/-- `to_string(Address)`, `Host()`, `Service()` -/
def addrPrint : M (List Fd) := do gai .getnameinfo; pure []

/-- `SocketUdp(bindAddress)` -/
def udpCtor : M (List Fd) := do
  let fd ← socketImpl
  guardFd fd do
    sysAddrMsg .bind fd
    sysE .setsockopt fd
    setNonBlocking fd
    pure [fd]

/-- `SocketTcp(connectAddress)` (`SetSockOptNoSigPipe` is empty on Linux) -/
def tcpCtor : M (List Fd) := do
  let fd ← socketImpl
  guardFd fd do
    sysAddrMsg .connect fd
    setNonBlocking fd
    pure [fd]

/-- `Acceptor(bindAddress)` -/
def acceptorCtor : M (List Fd) := do
  let fd ← socketImpl
  guardFd fd do
    sysE .setsockopt fd
    sysAddrMsg .bind fd
    setNonBlocking fd
    pure [fd]

/-- `Driver()`: `pipeFrom`, `pipeTo` are members, destroyed in reverse order -/
def driverCtor : M (List Fd) := do
  gai .getaddrinfo
  let pfrom ← socketImpl
  guardFd pfrom do
    let pto ← socketImpl
    guardFd pto do
      sysAddrMsg .bind pto
      sysE .getsockname pto
      gai .getaddrinfo
      sysAddrMsg .bind pfrom
      pure [pfrom, pto]

/-! ## constructors that consume a socket (rvalue argument) -/

/-- `SocketUdpBuffered(SocketUdp&&, n, size)` / `SocketTcpBuffered(...)`: `size = 0` queries SO_RCVBUF -/
def bufferedCtor (querySize : Bool) (fd : Fd) : M (List Fd) :=
  guardFd fd do
    if querySize then sysE .getsockopt fd
    pure [fd]

/-- `SocketTcpAsync(SocketTcpBuffered&&, driver, …)`: caches the peer address -/
def tcpAsyncAttach (fd : Fd) : M (List Fd) :=
  guardFd fd do
    sysE .getpeername fd
    pure [fd]

/-- `AcceptorAsync(Acceptor&&, driver, …)`: `Listen()` in the constructor body -/
def acceptorAsyncAttach (fd : Fd) : M (List Fd) :=
  guardFd fd do
    sysE .listen fd
    pure [fd]

/-- `SocketUdpAsync(SocketUdpBuffered&&, driver, …)`: no system call -/
def udpAsyncAttach (fd : Fd) : M (List Fd) := pure [fd]

/-! ## operations on a live object (result = descriptors newly owned by the caller) -/

/-- `SocketUdp::SendTo` (any API level; the wait is ready) -/
def udpSendTo (fd : Fd) : M (List Fd) := do
  sysE .poll fd
  sysAddrMsg .sendto fd
  pure []

def udpReceiveFrom (fd : Fd) : M (List Fd) := do
  sysE .poll fd
  sysE .recvfrom fd
  pure []

/-- `SocketTcp::Send`: `more + 1` rounds of wait-writable / send (partial writes) -/
def tcpSend (fd : Fd) : (more : Nat) → M (List Fd)
  | 0 => do sysE .poll fd; sysE .send fd; pure []
  | more + 1 => do sysE .poll fd; sysE .send fd; tcpSend fd more

def tcpReceive (fd : Fd) : M (List Fd) := do
  sysE .poll fd
  sysE .recv fd
  pure []

/-- `LocalAddress`, `PeerAddress`, `ReceiveBufferSize` -/
def query (c : Sys) (fd : Fd) : M (List Fd) := do sysE c fd; pure []

/-- `sockpuppet::Accept` + `SocketImpl(fd)` + `SocketTcp(unique_ptr&&)`: the accepted descriptor is
wrapped before the non-blocking switch can throw -/
def acceptOn (fd : Fd) : M (List Fd) := do
  let c ← openImpl .accept (some fd)
  guardFd c do
    setNonBlocking c
    pure [c]

/-- `Acceptor::Listen(timeout)` -/
def acceptorListen (ready : Bool) (fd : Fd) : M (List Fd) := do
  sysE .listen fd
  sysE .poll fd
  if ready then acceptOn fd else pure []

/-- `Driver::Stop` → `Bump`: `pipeFrom.SendTo(…, noTimeout)` -/
def driverStop (pfrom : Fd) : M (List Fd) := do
  sysE .poll pfrom
  sysAddrMsg .sendto pfrom
  pure []

/-! ## the driver: one `Step(Duration(0))` -/

inductive Kind where | tcp | udp | acc
  deriving DecidableEq, Repr

structure ASock where
  fd : Fd
  kind : Kind
  registered : Bool := true
  /-- readable events waiting (bytes chunks / datagrams / connections) -/
  rx : Nat := 0
  /-- queued sends (POLLOUT is requested iff > 0) -/
  sendQ : Nat := 0
  deriving Repr, DecidableEq

structure DSt where
  pipeFrom : Fd
  pipeTo : Fd
  bumps : Nat := 0
  socks : List ASock := []
  deriving Repr, DecidableEq

inductive Ev where
  | receive (fd : Fd) | receiveFrom (fd : Fd) | connect (fd : Fd) (client : Fd)
  | disconnect (fd : Fd) | futureValue (fd : Fd) | futureExn (fd : Fd)
  /-- the failure was dropped on purpose (UDP receive / accept: `onError` is a no-op) -/
  | discarded (fd : Fd)
  deriving Repr, DecidableEq

def Ev.reportsFailure : Ev → Bool
  | .disconnect _ | .futureExn _ | .discarded _ => true
  | _ => false

def ASock.ready (s : ASock) : Bool := s.registered && (s.rx > 0 || s.sendQ > 0)

def DSt.update (d : DSt) (s : ASock) : DSt :=
  { d with socks := d.socks.map fun x => if x.fd = s.fd then s else x }

structure StepOut where
  d : DSt
  evs : List Ev := []
  fds : List Fd := []

/-- `DoOneSocketTask` on the first ready socket (POLLIN before POLLOUT) -/
def socketTask (d : DSt) (s : ASock) : M StepOut :=
  if s.rx > 0 then
    match s.kind with
    | .tcp => do
      match ← sys .recv (some s.fd) with
      | some _ => pure { d := d.update { s with registered := false }, evs := [.disconnect s.fd] }
      | none => pure { d := d.update { s with rx := s.rx - 1 }, evs := [.receive s.fd] }
    | .udp => do
      match ← sys .recvfrom (some s.fd) with
      | some _ => pure { d := d, evs := [.discarded s.fd] }
      | none => pure { d := d.update { s with rx := s.rx - 1 }, evs := [.receiveFrom s.fd] }
    | .acc => do
      match ← sysOpen .accept (some s.fd) with
      | .error _ => pure { d := d, evs := [.discarded s.fd] }
      | .ok c =>
        -- `auto [sock, addr] = Accept(); Listen(); onConnect(std::move(sock), …)` inside try/catch
        let d' := d.update { s with rx := s.rx - 1 }
        match ← tryM (guardFd c (do setNonBlocking c; sysE .listen s.fd; pure [c])) with
        | .error _ => pure { d := d', evs := [.discarded s.fd] }
        | .ok _ => pure { d := d', evs := [.connect s.fd c], fds := [c] }
  else
    let d' := d.update { s with sendQ := s.sendQ - 1 }
    match s.kind with
    | .tcp => do
      match ← sys .send (some s.fd) with
      | some _ => pure { d := d', evs := [.futureExn s.fd] }
      | none => pure { d := d', evs := [.futureValue s.fd] }
    | .udp => do
      match ← tryM (sysAddrMsg .sendto s.fd) with
      | .error _ => pure { d := d', evs := [.futureExn s.fd] }
      | .ok _ => pure { d := d', evs := [.futureValue s.fd] }
    | .acc => pure { d := d }

/-- `Driver::Step(Duration(0))` without ToDos: `Wait(pfds)`, then `Unbump` or one socket task -/
def driverStep (d : DSt) : M StepOut := do
  sysE .poll d.pipeTo
  if d.bumps > 0 then do
    sysE .recvfrom d.pipeTo
    pure { d := { d with bumps := d.bumps - 1 } }
  else
    match d.socks.find? ASock.ready with
    | none => pure { d := d }
    | some s => socketTask d s

/-- destroy an object: close its descriptors (last member first) -/
def destroy : List Fd → M Unit
  | [] => pure ()
  | fd :: rest => do destroy rest; closeFd fd

/-! ## the scenario set -/

/-- every public constructor and throwing operation (API level), as one program; the result is the
list of descriptors the caller owns afterwards through the returned object -/
inductive Prog where
  | addrCtor | addrPrint
  | udpCtor | tcpCtor | acceptorCtor | driverCtor
  | udpSendTo (fd : Fd) | udpReceiveFrom (fd : Fd)
  | tcpSend (fd : Fd) (more : Nat) | tcpReceive (fd : Fd)
  | query (c : Sys) (fd : Fd)
  | acceptorListen (ready : Bool) (fd : Fd)
  | driverStop (pipeFrom : Fd)
  deriving Repr

def Prog.run : Prog → M (List Fd)
  | .addrCtor => Fd.addrCtor
  | .addrPrint => Fd.addrPrint
  | .udpCtor => Fd.udpCtor
  | .tcpCtor => Fd.tcpCtor
  | .acceptorCtor => Fd.acceptorCtor
  | .driverCtor => Fd.driverCtor
  | .udpSendTo fd => Fd.udpSendTo fd
  | .udpReceiveFrom fd => Fd.udpReceiveFrom fd
  | .tcpSend fd more => Fd.tcpSend fd more
  | .tcpReceive fd => Fd.tcpReceive fd
  | .query c fd => Fd.query c fd
  | .acceptorListen ready fd => Fd.acceptorListen ready fd
  | .driverStop fd => Fd.driverStop fd

/-- the constructors that take over the descriptor of an rvalue socket -/
inductive Consumer where
  | buffered (querySize : Bool) | tcpAsync | acceptorAsync | udpAsync
  deriving Repr

def Consumer.run : Consumer → Fd → M (List Fd)
  | .buffered q => bufferedCtor q
  | .tcpAsync => tcpAsyncAttach
  | .acceptorAsync => acceptorAsyncAttach
  | .udpAsync => udpAsyncAttach

end SockModel.Fd

import SockModel.Model.AsyncQ
import SockModel.Model.Udp
import SockModel.Basic.GenEffects
/-
The asynchronous send queues of the models (`AsyncQ.St` for TCP, `Udp.TQ` for UDP) as `Gen.QueueWorld`s, so that
`SocketAsyncImpl::DriverSend` / `DriverSendTo` as generated from the C++ source (Generated/Loops.lean) can be run on
the states the hand-written `AsyncQ.driverSend` / `Udp.tqStep (.writable _)` are defined on.  Hand-written,
independent of /repo.  One writable event = one answer of the OS (`ans`), consumed by the one `send` / `sendto`.

TCP: `sockSendSome len` is the socket's non-blocking `SendSome` (= `SendNow`): `accept k` hands
`min k len` bytes of the front buffer to the wire, 0 of a non-empty buffer is `SendNow`'s `logic_error` (not a
`runtime_error`), `fail` is a `system_error` (a `runtime_error`); `bufferErase n` moves `n` bytes of the front buffer
to its ghost `sent`; `promiseSetValue/Exception` resolve the front element's future; `qPop` destroys the front element:
its buffer returns to the pool and the ghost `done` records what became of it.
-/
namespace SockModel.GenWorld
open SockModel

/-! ### TCP: `AsyncQ.St` -/

structure QSt where
  s : AsyncQ.St
  ans : Option AsyncQ.Ans

open AsyncQ in
def asyncQWorld : Gen.QueueWorld QSt where
  qSize w := (.ok (w.s.q.length : Int), w)
  qEmpty w := (.ok w.s.q.isEmpty, w)
  qPop w :=
    match w.s.q with
    | [] => (.halted, w)
    | e :: rest =>
      (.ok (), { w with s := { w.s with q := rest, returned := w.s.returned ++ [e.id],
                                        done := w.s.done ++ [if w.s.fut e.id = .value then ⟨e.id, e.sent ++ e.rest, [], .value⟩
                                                             else ⟨e.id, e.sent, e.rest, w.s.fut e.id⟩] } })
  bufferSize w :=
    match w.s.q with
    | [] => (.halted, w)
    | e :: _ => (.ok (e.rest.length : Int), w)
  bufferErase n w :=
    match w.s.q with
    | [] => (.halted, w)
    | e :: rest =>
      (.ok (), { w with s := { w.s with q := { e with sent := e.sent ++ e.rest.take n.toNat, rest := e.rest.drop n.toNat } :: rest } })
  promiseSetValue w :=
    match w.s.q with
    | [] => (.halted, w)
    | e :: _ => (.ok (), { w with s := { w.s with fut := upd w.s.fut e.id .value } })
  promiseSetException w :=
    match w.s.q with
    | [] => (.halted, w)
    | e :: _ => (.ok (), { w with s := { w.s with fut := upd w.s.fut e.id .exn } })
  sockSendSome len w :=
    match w.s.q, w.ans with
    | e :: _, some (.accept k) =>
      if min k len.toNat = 0 ∧ len.toNat > 0 then (.thrown ⟨.logic_error, 0⟩, { w with ans := none })
      else (.ok ((min k len.toNat : Nat) : Int),
            { s := { w.s with wire := w.s.wire ++ e.rest.take (min k len.toNat) }, ans := none })
    | _ :: _, some .fail => (.thrown ⟨.system_error, 0⟩, { w with ans := none })
    | _, _ => (.halted, w)
  sockSendTo _ := Gen.M.halt
  sockDriverPending w := (.ok (), w)
  qEmplace := Gen.M.halt
  lock := Gen.M.halt
  unlock := Gen.M.halt
  driverLock := Gen.M.halt
  driverAsyncWantSend := Gen.M.halt

/-! the fields, one equation each -/
section
open AsyncQ
theorem q_qSize (w : QSt) : asyncQWorld.qSize w = (.ok (w.s.q.length : Int), w) := rfl
theorem q_qEmpty (w : QSt) : asyncQWorld.qEmpty w = (.ok w.s.q.isEmpty, w) := rfl
theorem q_qPop (w : QSt) : asyncQWorld.qPop w =
    match w.s.q with
    | [] => (.halted, w)
    | e :: rest =>
      (.ok (), { w with s := { w.s with q := rest, returned := w.s.returned ++ [e.id],
                                        done := w.s.done ++ [if w.s.fut e.id = .value then ⟨e.id, e.sent ++ e.rest, [], .value⟩
                                                             else ⟨e.id, e.sent, e.rest, w.s.fut e.id⟩] } }) := rfl
theorem q_bufferSize (w : QSt) : asyncQWorld.bufferSize w =
    match w.s.q with
    | [] => (.halted, w)
    | e :: _ => (.ok (e.rest.length : Int), w) := rfl
theorem q_bufferErase (n : Int) (w : QSt) : asyncQWorld.bufferErase n w =
    match w.s.q with
    | [] => (.halted, w)
    | e :: rest =>
      (.ok (), { w with s := { w.s with q := { e with sent := e.sent ++ e.rest.take n.toNat, rest := e.rest.drop n.toNat } :: rest } }) := rfl
theorem q_promiseSetValue (w : QSt) : asyncQWorld.promiseSetValue w =
    match w.s.q with
    | [] => (.halted, w)
    | e :: _ => (.ok (), { w with s := { w.s with fut := upd w.s.fut e.id .value } }) := rfl
theorem q_promiseSetException (w : QSt) : asyncQWorld.promiseSetException w =
    match w.s.q with
    | [] => (.halted, w)
    | e :: _ => (.ok (), { w with s := { w.s with fut := upd w.s.fut e.id .exn } }) := rfl
theorem q_sockSendSome (len : Int) (w : QSt) : asyncQWorld.sockSendSome len w =
    match w.s.q, w.ans with
    | e :: _, some (.accept k) =>
      if min k len.toNat = 0 ∧ len.toNat > 0 then (.thrown ⟨.logic_error, 0⟩, { w with ans := none })
      else (.ok ((min k len.toNat : Nat) : Int),
            { s := { w.s with wire := w.s.wire ++ e.rest.take (min k len.toNat) }, ans := none })
    | _ :: _, some .fail => (.thrown ⟨.system_error, 0⟩, { w with ans := none })
    | _, _ => (.halted, w) := rfl
theorem q_sockDriverPending (w : QSt) : asyncQWorld.sockDriverPending w = (.ok (), w) := rfl
end

/-! ### UDP: `Udp.TQ` -/

structure TQSt where
  s : Udp.TQ
  ans : Option Udp.TAns

open Udp AsyncQ in
def tqWorld : Gen.QueueWorld TQSt where
  qSize w := (.ok (w.s.q.length : Int), w)
  qEmpty w := (.ok w.s.q.isEmpty, w)
  qPop w :=
    match w.s.q with
    | [] => (.halted, w)
    | e :: rest =>
      (.ok (), { w with s := { w.s with q := rest, returned := w.s.returned ++ [e.id],
                                        done := w.s.done ++ [(e, w.s.fut e.id)] } })
  bufferSize w :=
    match w.s.q with
    | [] => (.halted, w)
    | e :: _ => (.ok (e.payload.length : Int), w)
  bufferErase _ := Gen.M.halt
  promiseSetValue w :=
    match w.s.q with
    | [] => (.halted, w)
    | e :: _ => (.ok (), { w with s := { w.s with fut := upd w.s.fut e.id .value } })
  promiseSetException w :=
    match w.s.q with
    | [] => (.halted, w)
    | e :: _ => (.ok (), { w with s := { w.s with fut := upd w.s.fut e.id .exn } })
  sockSendSome _ := Gen.M.halt
  sockSendTo len w :=
    match w.s.q, w.ans with
    | e :: _, some .ok => (.ok len, { s := { w.s with sent := w.s.sent ++ [e] }, ans := none })
    | _ :: _, some .fail => (.thrown ⟨.system_error, 0⟩, { w with ans := none })
    | _, _ => (.halted, w)
  sockDriverPending := Gen.M.halt
  qEmplace := Gen.M.halt
  lock := Gen.M.halt
  unlock := Gen.M.halt
  driverLock := Gen.M.halt
  driverAsyncWantSend := Gen.M.halt

/-! ### the enqueue side (TCP): `Send` on producer thread `t` with promise `id` and buffer `bytes`

`sendQMtx` is a flag: the queue may only be looked at (`qEmpty`) and changed (`qEmplace` = the model's `enq` action)
while it is held, `lock` of a held mutex and `unlock` of a free one halt; `driverAsyncWantSend` is the model's `arm`
action of that thread (it takes the driver's `stepMtx`, so it must not happen under `sendQMtx`: it halts if held). -/
structure EnqSt where
  s : AsyncQ.St
  t : Nat
  id : Nat
  bytes : AsyncQ.Bytes
  held : Bool

open AsyncQ in
def enqWorld : Gen.QueueWorld EnqSt where
  qSize := Gen.M.halt
  qEmpty w := if w.held then (.ok w.s.q.isEmpty, w) else (.halted, w)
  qPop := Gen.M.halt
  bufferSize := Gen.M.halt
  bufferErase _ := Gen.M.halt
  promiseSetValue := Gen.M.halt
  promiseSetException := Gen.M.halt
  sockSendSome _ := Gen.M.halt
  sockSendTo _ := Gen.M.halt
  sockDriverPending := Gen.M.halt
  qEmplace w := if w.held then (.ok (), { w with s := step w.s (.enq w.t w.id w.bytes) }) else (.halted, w)
  lock w := if w.held then (.halted, w) else (.ok (), { w with held := true })
  unlock w := if w.held then (.ok (), { w with held := false }) else (.halted, w)
  driverLock w := (.ok true, w)
  driverAsyncWantSend w := if w.held then (.halted, w) else (.ok (), { w with s := step w.s (.arm w.t) })

section
open AsyncQ
theorem e_qEmpty (w : EnqSt) : enqWorld.qEmpty w = if w.held then (.ok w.s.q.isEmpty, w) else (.halted, w) := rfl
theorem e_qEmplace (w : EnqSt) : enqWorld.qEmplace w =
    if w.held then (.ok (), { w with s := step w.s (.enq w.t w.id w.bytes) }) else (.halted, w) := rfl
theorem e_lock (w : EnqSt) : enqWorld.lock w = if w.held then (.halted, w) else (.ok (), { w with held := true }) := rfl
theorem e_unlock (w : EnqSt) : enqWorld.unlock w = if w.held then (.ok (), { w with held := false }) else (.halted, w) := rfl
theorem e_driverLock (w : EnqSt) : enqWorld.driverLock w = (.ok true, w) := rfl
theorem e_driverAsyncWantSend (w : EnqSt) : enqWorld.driverAsyncWantSend w =
    if w.held then (.halted, w) else (.ok (), { w with s := step w.s (.arm w.t) }) := rfl
end

section
open Udp AsyncQ
theorem t_qSize (w : TQSt) : tqWorld.qSize w = (.ok (w.s.q.length : Int), w) := rfl
theorem t_qEmpty (w : TQSt) : tqWorld.qEmpty w = (.ok w.s.q.isEmpty, w) := rfl
theorem t_qPop (w : TQSt) : tqWorld.qPop w =
    match w.s.q with
    | [] => (.halted, w)
    | e :: rest =>
      (.ok (), { w with s := { w.s with q := rest, returned := w.s.returned ++ [e.id],
                                        done := w.s.done ++ [(e, w.s.fut e.id)] } }) := rfl
theorem t_bufferSize (w : TQSt) : tqWorld.bufferSize w =
    match w.s.q with
    | [] => (.halted, w)
    | e :: _ => (.ok (e.payload.length : Int), w) := rfl
theorem t_promiseSetValue (w : TQSt) : tqWorld.promiseSetValue w =
    match w.s.q with
    | [] => (.halted, w)
    | e :: _ => (.ok (), { w with s := { w.s with fut := upd w.s.fut e.id .value } }) := rfl
theorem t_promiseSetException (w : TQSt) : tqWorld.promiseSetException w =
    match w.s.q with
    | [] => (.halted, w)
    | e :: _ => (.ok (), { w with s := { w.s with fut := upd w.s.fut e.id .exn } }) := rfl
theorem t_sockSendTo (len : Int) (w : TQSt) : tqWorld.sockSendTo len w =
    match w.s.q, w.ans with
    | e :: _, some .ok => (.ok len, { s := { w.s with sent := w.s.sent ++ [e] }, ans := none })
    | _ :: _, some .fail => (.thrown ⟨.system_error, 0⟩, { w with ans := none })
    | _, _ => (.halted, w) := rfl
end

end SockModel.GenWorld

import SockModel.Model.HsTimed
/-!
A driver-operated (asynchronous) TLS socket on the healthy channel: its driver tasks are zero-timeout calls.

`DriverOnReadable` / `DriverOnWritable` enter the glue through `Receive(data, size)` / `SendSome(data, size)` /
`DriverPending()`, which mark the socket as "deemed readable / writable" (`isReadable`, `isWritable`): the first BIO
read / write then skips the zero wait.  On `chanWorld` (always writable; readable iff bytes are in flight) that
changes nothing but the flags, for ANY engine: `*_fl` below - the glue functions commute with forgetting the flags
(`nf`), provided the budget is 0 and `isReadable` is only set while bytes are in flight (which is what the driver's
`poll` guarantees).  Hence (`receiveReadable_eq`, `sendSomeWritable_eq`): a readable task is `Receive(rx, 0)` and a
writable task is `Send(front buffer, 0)`.
-/
namespace SockModel.Hs
open SockModel.Net SockModel.Tls

variable {σ : Type}

/-- forget the "deemed readable / writable" flags -/
def nf (s : St σ Chan) : St σ Chan := { s with g := { s.g with isReadable := false, isWritable := false } }

/-- the budget is zero, and the socket is deemed readable only while bytes towards it are in flight -/
def Fl (r : Bool) (s : St σ Chan) : Prop := s.g.remainingTime = 0 ∧ (s.g.isReadable = true → 0 < s.w.inb r)

def Sim2 {α : Type} (r : Bool) (rF : α × St σ Chan) (r0 : α × St σ Chan) : Prop :=
  r0 = (rF.1, nf rF.2) ∧ Fl r rF.2

theorem Sim2.cases {α : Type} {r : Bool} {X : α × St σ Chan} {Y : α × St σ Chan} (h : Sim2 r X Y) :
    ∃ a s', X = (a, s') ∧ Y = (a, nf s') ∧ Fl r s' := ⟨X.1, X.2, rfl, h.1, h.2⟩

theorem waitUnder_fl (r : Bool) (s : St σ Chan) (d : Dir) (hb : Fl r s) :
    Sim2 r (waitUnder (chanWorld r) s d) (waitUnder (chanWorld r) (nf s) d) := by
  obtain ⟨h0, h1⟩ := hb
  cases d with
  | wr => exact ⟨rfl, by simp [waitUnder, wait0_wr, h0, underDeadline], h1⟩
  | rd => exact ⟨rfl, by simp [waitUnder, wait0_rd, h0, underDeadline], h1⟩

theorem bioRead_fl (r : Bool) (s : St σ Chan) (n : Nat) (hb : Fl r s) :
    Sim2 r (bioRead (chanWorld r) s n) (bioRead (chanWorld r) (nf s) n) := by
  rcases s with ⟨⟨le, ps, rt, ir, iw, dss, pe, wire, bw, ec⟩, e, w⟩
  obtain ⟨h0, h1⟩ := hb
  simp only at h0 h1
  subst h0
  cases ir with
  | true =>
    have hin : 0 < w.inb r := h1 rfl
    simp only [bioRead, nf, if_true, Bool.false_eq_true, if_false, receive_0, hin, recvNow_0, now_0]
    cases (recvOut r w n).1
    · exact ⟨rfl, rfl, by intro h; cases h⟩
    · exact ⟨by simp [nf, underDeadline], rfl, by intro h; cases h⟩
  | false =>
    simp only [bioRead, nf, Bool.false_eq_true, if_false, receive_0, now_0]
    by_cases hin : 0 < w.inb r
    · simp only [hin, if_true, recvNow_0]
      cases (recvOut r w n).1
      · exact ⟨rfl, rfl, by intro h; cases h⟩
      · exact ⟨rfl, by simp [underDeadline], by intro h; cases h⟩
    · simp only [hin, if_false]
      exact ⟨rfl, by simp [underDeadline], by intro h; cases h⟩

theorem bioWrite_fl (r : Bool) (s : St σ Chan) (bs : Bytes) (hb : Fl r s) :
    Sim2 r (bioWrite (chanWorld r) s bs) (bioWrite (chanWorld r) (nf s) bs) := by
  rcases s with ⟨⟨le, ps, rt, ir, iw, dss, pe, wire, bw, ec⟩, e, w⟩
  obtain ⟨h0, h1⟩ := hb
  simp only at h0 h1
  subst h0
  cases iw with
  | true =>
    simp only [bioWrite, nf, if_true, Bool.false_eq_true, if_false, Int.lt_irrefl, sendNow_0, sendTry_0, noteWrite]
    exact ⟨rfl, rfl, by intro h; have := h1 h; simpa using this⟩
  | false =>
    simp only [bioWrite, nf, Bool.false_eq_true, if_false, Int.lt_irrefl, if_true, sendTry_0, noteWrite]
    exact ⟨rfl, rfl, by intro h; have := h1 h; simpa using this⟩

theorem Fl.setLastError {r : Bool} {s : St σ Chan} (h : Fl r s) (e : SslErr) : Fl r (setLastError s e) := h
theorem Fl.noteCall {r : Bool} {s : St σ Chan} (h : Fl r s) (E : Engine σ) (b : Bool) (arg : Bytes) (ans : SslAns) :
    Fl r (noteCall E s b arg ans) := h
theorem Fl.setPending {r : Bool} {s : St σ Chan} (h : Fl r s) (p : Bytes) : Fl r (setPending s p) := h
theorem Fl.stash {r : Bool} {s : St σ Chan} (h : Fl r s) (e : Exn) : Fl r (stash s e) := h

theorem handleError_fl (r : Bool) (s : St σ Chan) (err : SslErr) (hb : Fl r s) :
    Sim2 r (handleError (chanWorld r) s err) (handleError (chanWorld r) (nf s) err) := by
  cases err with
  | none => exact ⟨rfl, hb⟩
  | wantRead =>
    obtain ⟨a, s', hL, hR, hb'⟩ := (waitUnder_fl r s .rd hb).cases
    simp only [handleError, hL, hR]
    exact ⟨rfl, hb'⟩
  | wantWrite =>
    obtain ⟨a, s', hL, hR, hb'⟩ := (waitUnder_fl r s .wr hb).cases
    simp only [handleError, hL, hR]
    exact ⟨rfl, hb'⟩
  | zeroReturn => exact ⟨rfl, hb⟩
  | syscall => exact ⟨rfl, hb⟩
  | ssl => exact ⟨rfl, hb⟩

theorem handleLastError_fl (r : Bool) (s : St σ Chan) (hb : Fl r s) :
    Sim2 r (handleLastError (chanWorld r) s) (handleLastError (chanWorld r) (nf s)) := by
  obtain ⟨a, s', hL, hR, hb'⟩ : ∃ a s', handleError (chanWorld r) s s.g.lastError = (a, s') ∧
      handleError (chanWorld r) (nf s) (nf s).g.lastError = (a, nf s') ∧ Fl r s' :=
    (handleError_fl r s s.g.lastError hb).cases
  unfold handleLastError
  rw [hL, hR]
  rcases a with (_|_)|_|_ <;> exact ⟨rfl, hb'⟩

theorem handleResult_fl (r : Bool) (s : St σ Chan) (ans : SslAns) (hb : Fl r s) :
    Sim2 r (handleResult (chanWorld r) s ans) (handleResult (chanWorld r) (nf s) ans) := by
  rcases s with ⟨⟨le, ps, rt, ir, iw, dss, pe, wire, bw, ec⟩, e, w⟩
  cases pe with
  | some x => exact ⟨rfl, hb⟩
  | none => exact handleLastError_fl r _ hb

theorem interp_fl (r : Bool) (p : EngProg σ) : ∀ (s : St σ Chan), Fl r s →
    Sim2 r (interp (chanWorld r) s p) (interp (chanWorld r) (nf s) p) := by
  induction p with
  | ret ans out e' => intro s hb; exact ⟨rfl, hb⟩
  | bioRead n k ih =>
    intro s hb
    obtain ⟨a, s', hL, hR, hb'⟩ := (bioRead_fl r s n hb).cases
    unfold interp
    rw [hL, hR]
    cases a with
    | ok bs => exact ih (some bs) s' hb'
    | exn e => exact ih none (stash s' e) (hb'.stash e)
    | abort m => exact ⟨rfl, hb'⟩
  | bioWrite bs k ih =>
    intro s hb
    obtain ⟨a, s', hL, hR, hb'⟩ := (bioWrite_fl r s bs hb).cases
    unfold interp
    rw [hL, hR]
    cases a with
    | ok n => exact ih (some n) s' hb'
    | exn e => exact ih none (stash s' e) (hb'.stash e)
    | abort m => exact ⟨rfl, hb'⟩

theorem readRound_fl (C : Cfg) (r : Bool) (E : Engine σ) (size i : Nat) (s : St σ Chan) (hb : Fl r s) :
    Sim2 r (readRound C (chanWorld r) E size i s) (readRound C (chanWorld r) E size i (nf s)) := by
  obtain ⟨a, s', hL, hR, hb'⟩ : ∃ a s', interp (chanWorld r) s (E.sslRead s.e size) = (a, s') ∧
      interp (chanWorld r) (nf s) (E.sslRead (nf s).e size) = (a, nf s') ∧ Fl r s' :=
    (interp_fl r _ s hb).cases
  unfold readRound
  rw [hL, hR]
  rcases a with ⟨ans, out⟩ | e | m
  · obtain ⟨b, s2, hL2, hR2, hb2⟩ : ∃ b s2, handleResult (chanWorld r) (noteCall E s' true [] ans) ans = (b, s2) ∧
        handleResult (chanWorld r) (noteCall E (nf s') true [] ans) ans = (b, nf s2) ∧ Fl r s2 :=
      (handleResult_fl r _ ans (hb'.noteCall E true [] ans)).cases
    cases ans <;> dsimp only <;> first
      | exact ⟨rfl, hb'⟩
      | (rw [hL2, hR2]
         rcases b with (_|_)|_|_
         · exact ⟨rfl, hb2⟩
         · dsimp only
           split <;> exact ⟨rfl, hb2⟩
         · exact ⟨rfl, hb2⟩
         · exact ⟨rfl, hb2⟩)
  · exact ⟨rfl, hb'⟩
  · exact ⟨rfl, hb'⟩

theorem readLoop_fl (C : Cfg) (r : Bool) (E : Engine σ) (size i : Nat) (s : St σ Chan) (hb : Fl r s) :
    Sim2 r (readLoop C (chanWorld r) E size i s) (readLoop C (chanWorld r) E size i (nf s)) := by
  induction i generalizing s with
  | zero => exact ⟨rfl, hb⟩
  | succ i ih =>
    obtain ⟨a, s', hL, hR, hb'⟩ := (readRound_fl C r E size i s hb).cases
    simp only [readLoop]
    rw [hL, hR]
    cases a with
    | some o => exact ⟨rfl, hb'⟩
    | none => exact ih s' hb'

theorem tlsRead_fl (C : Cfg) (r : Bool) (E : Engine σ) (s : St σ Chan) (size : Nat) (hb : Fl r s) :
    Sim2 r (tlsRead C (chanWorld r) E s size) (tlsRead C (chanWorld r) E (nf s) size) := by
  obtain ⟨a, s', hL, hR, hb'⟩ := (handleLastError_fl r s hb).cases
  unfold tlsRead
  rw [hL, hR]
  rcases a with (_|_)|_|_
  · exact ⟨rfl, hb'⟩
  · exact readLoop_fl C r E size C.stepsMax s' hb'
  · exact ⟨rfl, hb'⟩
  · exact ⟨rfl, hb'⟩

theorem writeRetry_fl (C : Cfg) (r : Bool) (i' : Nat) (rest : Bytes) (s : St σ Chan) (ans : SslAns) (hb : Fl r s) :
    Sim2 r (writeRetry C (chanWorld r) i' rest s ans) (writeRetry C (chanWorld r) i' rest (nf s) ans) := by
  obtain ⟨a, s', hL, hR, hb'⟩ := (handleResult_fl r s ans hb).cases
  unfold writeRetry
  rw [hL, hR]
  rcases a with (_|_)|_|_
  · exact ⟨rfl, hb'⟩
  · dsimp only
    split <;> exact ⟨rfl, hb'⟩
  · exact ⟨rfl, hb'⟩
  · exact ⟨rfl, hb'⟩

theorem writeRound_fl (C : Cfg) (r : Bool) (E : Engine σ) (i' : Nat) (rest : Bytes) (s : St σ Chan) (hb : Fl r s) :
    Sim2 r (writeRound C (chanWorld r) E i' rest s) (writeRound C (chanWorld r) E i' rest (nf s)) := by
  obtain ⟨a, s', hL, hR, hb'⟩ : ∃ a s', interp (chanWorld r) s (E.sslWrite s.e rest) = (a, s') ∧
      interp (chanWorld r) (nf s) (E.sslWrite (nf s).e rest) = (a, nf s') ∧ Fl r s' :=
    (interp_fl r _ s hb).cases
  unfold writeRound
  have hps : (nf s).g.pendingSend = s.g.pendingSend := rfl
  rw [hL, hR, hps]
  split
  · exact ⟨rfl, hb⟩
  · rcases a with ⟨ans, out⟩ | e | m
    · cases ans <;> dsimp only <;> first
        | ((repeat' split) <;> exact ⟨rfl, hb'⟩)
        | exact writeRetry_fl C r i' rest _ _ ((hb'.noteCall E false rest _).setPending rest)
    · exact ⟨rfl, hb'⟩
    · exact ⟨rfl, hb'⟩

theorem writeLoop_fl (C : Cfg) (r : Bool) (E : Engine σ) (i : Nat) (rest : Bytes) (s : St σ Chan) (hb : Fl r s) :
    Sim2 r (writeLoop C (chanWorld r) E i rest s) (writeLoop C (chanWorld r) E i rest (nf s)) := by
  fun_induction Tls.writeLoop C (chanWorld r) E i rest s with
  | case1 rest s => rw [Tls.writeLoop]; exact ⟨rfl, hb⟩
  | case2 s i' => rw [Tls.writeLoop]; exact ⟨rfl, hb⟩
  | case3 rest s i' hne o s' heq =>
    obtain ⟨a, s2, hL, hR, hb'⟩ := (writeRound_fl C r E i' rest s hb).cases
    rw [heq] at hL
    obtain ⟨rfl, rfl⟩ := Prod.mk.inj hL
    rw [Tls.writeLoop]
    simp only [hne, if_false, hR]
    exact ⟨rfl, hb'⟩
  | case4 rest s i' hne j rest' s' heq hdec ih =>
    obtain ⟨a, s2, hL, hR, hb'⟩ := (writeRound_fl C r E i' rest s hb).cases
    rw [heq] at hL
    obtain ⟨rfl, rfl⟩ := Prod.mk.inj hL
    have := ih hb'
    rw [Tls.writeLoop]
    simp only [hne, if_false, hR, hdec, dite_true]
    exact this
  | case5 rest s i' hne j rest' s' heq hdec =>
    obtain ⟨a, s2, hL, hR, hb'⟩ := (writeRound_fl C r E i' rest s hb).cases
    rw [heq] at hL
    obtain ⟨rfl, rfl⟩ := Prod.mk.inj hL
    rw [Tls.writeLoop]
    simp only [hne, if_false, hR, hdec, dite_false]
    exact ⟨rfl, hb'⟩

theorem tlsWrite_fl (C : Cfg) (r : Bool) (E : Engine σ) (s : St σ Chan) (data : Bytes) (hb : Fl r s) :
    Sim2 r (tlsWrite C (chanWorld r) E s data) (tlsWrite C (chanWorld r) E (nf s) data) := by
  obtain ⟨a, s', hL, hR, hb'⟩ := (handleLastError_fl r s hb).cases
  unfold tlsWrite
  rw [hL, hR]
  rcases a with (_|_)|_|_
  · exact ⟨rfl, hb'⟩
  · dsimp only
    obtain ⟨b, s2, hL2, hR2, hb2⟩ := (writeLoop_fl C r E C.stepsMax data s' hb').cases
    rw [hL2, hR2]
    cases b <;> exact ⟨rfl, hb2⟩
  · exact ⟨rfl, hb'⟩
  · exact ⟨rfl, hb'⟩


end SockModel.Hs

import SockModel.Model.HsTimed
import SockModel.Model.FairProgress
import SockModel.Model.HsBlock
/-!
A driver-operated (asynchronous) TLS socket on the healthy channel: its driver tasks are zero-timeout calls.

`DriverOnReadable` / `DriverOnWritable` enter the glue through `Receive(data, size)` / `SendSome(data, size)` /
`DriverPending()`, which mark the socket as "deemed readable / writable" (`isReadable`, `isWritable`): the first BIO
read / write then skips the zero wait.  On `chanWorld` (always writable; readable iff bytes are in flight) that
changes nothing but the flags, for ANY engine: `*_fl` below - the glue functions commute with forgetting the flags
(`nf`), provided the budget is 0 and `isReadable` is only set while bytes are in flight (which is what the driver's
`poll` guarantees).  Hence (`receiveReadable_eq`, `sendSomeWritable_eq`): a readable task is `Receive(rx, 0)` and a
writable task is `Send(front buffer, 0)`.
-/
namespace SockModel.Hs
open SockModel.Net SockModel.Tls

variable {σ : Type}

/-- forget the "deemed readable / writable" flags -/
def nf (s : St σ Chan) : St σ Chan := { s with g := { s.g with isReadable := false, isWritable := false } }

/-- the budget is zero, and the socket is deemed readable only while bytes towards it are in flight -/
def Fl (r : Bool) (s : St σ Chan) : Prop := s.g.remainingTime = 0 ∧ (s.g.isReadable = true → 0 < s.w.inb r)

def Sim2 {α : Type} (r : Bool) (rF : α × St σ Chan) (r0 : α × St σ Chan) : Prop :=
  r0 = (rF.1, nf rF.2) ∧ Fl r rF.2

theorem Sim2.cases {α : Type} {r : Bool} {X : α × St σ Chan} {Y : α × St σ Chan} (h : Sim2 r X Y) :
    ∃ a s', X = (a, s') ∧ Y = (a, nf s') ∧ Fl r s' := ⟨X.1, X.2, rfl, h.1, h.2⟩

theorem waitUnder_fl (r : Bool) (s : St σ Chan) (d : Dir) (hb : Fl r s) :
    Sim2 r (waitUnder (chanWorld r) s d) (waitUnder (chanWorld r) (nf s) d) := by
  obtain ⟨h0, h1⟩ := hb
  cases d with
  | wr => exact ⟨rfl, by simp [waitUnder, wait0_wr, h0, underDeadline], h1⟩
  | rd => exact ⟨rfl, by simp [waitUnder, wait0_rd, h0, underDeadline], h1⟩

theorem bioRead_fl (r : Bool) (s : St σ Chan) (n : Nat) (hb : Fl r s) :
    Sim2 r (bioRead (chanWorld r) s n) (bioRead (chanWorld r) (nf s) n) := by
  rcases s with ⟨⟨le, ps, rt, ir, iw, dss, pe, wire, bw, ec⟩, e, w⟩
  obtain ⟨h0, h1⟩ := hb
  simp only at h0 h1
  subst h0
  cases ir with
  | true =>
    have hin : 0 < w.inb r := h1 rfl
    simp only [bioRead, nf, if_true, Bool.false_eq_true, if_false, receive_0, hin, recvNow_0, now_0]
    cases (recvOut r w n).1
    · exact ⟨rfl, rfl, by intro h; cases h⟩
    · exact ⟨by simp [nf, underDeadline], rfl, by intro h; cases h⟩
  | false =>
    simp only [bioRead, nf, Bool.false_eq_true, if_false, receive_0, now_0]
    by_cases hin : 0 < w.inb r
    · simp only [hin, if_true, recvNow_0]
      cases (recvOut r w n).1
      · exact ⟨rfl, rfl, by intro h; cases h⟩
      · exact ⟨rfl, by simp [underDeadline], by intro h; cases h⟩
    · simp only [hin, if_false]
      exact ⟨rfl, by simp [underDeadline], by intro h; cases h⟩

theorem bioWrite_fl (r : Bool) (s : St σ Chan) (bs : Bytes) (hb : Fl r s) :
    Sim2 r (bioWrite (chanWorld r) s bs) (bioWrite (chanWorld r) (nf s) bs) := by
  rcases s with ⟨⟨le, ps, rt, ir, iw, dss, pe, wire, bw, ec⟩, e, w⟩
  obtain ⟨h0, h1⟩ := hb
  simp only at h0 h1
  subst h0
  cases iw with
  | true =>
    simp only [bioWrite, nf, if_true, Bool.false_eq_true, if_false, Int.lt_irrefl, sendNow_0, sendTry_0, noteWrite]
    exact ⟨rfl, rfl, by intro h; have := h1 h; simpa using this⟩
  | false =>
    simp only [bioWrite, nf, Bool.false_eq_true, if_false, Int.lt_irrefl, if_true, sendTry_0, noteWrite]
    exact ⟨rfl, rfl, by intro h; have := h1 h; simpa using this⟩

theorem Fl.setLastError {r : Bool} {s : St σ Chan} (h : Fl r s) (e : SslErr) : Fl r (setLastError s e) := h
theorem Fl.noteCall {r : Bool} {s : St σ Chan} (h : Fl r s) (E : Engine σ) (b : Bool) (arg : Bytes) (ans : SslAns) :
    Fl r (noteCall E s b arg ans) := h
theorem Fl.setPending {r : Bool} {s : St σ Chan} (h : Fl r s) (p : Bytes) : Fl r (setPending s p) := h
theorem Fl.stash {r : Bool} {s : St σ Chan} (h : Fl r s) (e : Exn) : Fl r (stash s e) := h

theorem handleError_fl (r : Bool) (s : St σ Chan) (err : SslErr) (hb : Fl r s) :
    Sim2 r (handleError (chanWorld r) s err) (handleError (chanWorld r) (nf s) err) := by
  cases err with
  | none => exact ⟨rfl, hb⟩
  | wantRead =>
    obtain ⟨a, s', hL, hR, hb'⟩ := (waitUnder_fl r s .rd hb).cases
    simp only [handleError, hL, hR]
    exact ⟨rfl, hb'⟩
  | wantWrite =>
    obtain ⟨a, s', hL, hR, hb'⟩ := (waitUnder_fl r s .wr hb).cases
    simp only [handleError, hL, hR]
    exact ⟨rfl, hb'⟩
  | zeroReturn => exact ⟨rfl, hb⟩
  | syscall => exact ⟨rfl, hb⟩
  | ssl => exact ⟨rfl, hb⟩

theorem handleLastError_fl (r : Bool) (s : St σ Chan) (hb : Fl r s) :
    Sim2 r (handleLastError (chanWorld r) s) (handleLastError (chanWorld r) (nf s)) := by
  obtain ⟨a, s', hL, hR, hb'⟩ : ∃ a s', handleError (chanWorld r) s s.g.lastError = (a, s') ∧
      handleError (chanWorld r) (nf s) (nf s).g.lastError = (a, nf s') ∧ Fl r s' :=
    (handleError_fl r s s.g.lastError hb).cases
  unfold handleLastError
  rw [hL, hR]
  rcases a with (_|_)|_|_ <;> exact ⟨rfl, hb'⟩

theorem handleResult_fl (r : Bool) (s : St σ Chan) (ans : SslAns) (hb : Fl r s) :
    Sim2 r (handleResult (chanWorld r) s ans) (handleResult (chanWorld r) (nf s) ans) := by
  rcases s with ⟨⟨le, ps, rt, ir, iw, dss, pe, wire, bw, ec⟩, e, w⟩
  cases pe with
  | some x => exact ⟨rfl, hb⟩
  | none => exact handleLastError_fl r _ hb

theorem interp_fl (r : Bool) (p : EngProg σ) : ∀ (s : St σ Chan), Fl r s →
    Sim2 r (interp (chanWorld r) s p) (interp (chanWorld r) (nf s) p) := by
  induction p with
  | ret ans out e' => intro s hb; exact ⟨rfl, hb⟩
  | bioRead n k ih =>
    intro s hb
    obtain ⟨a, s', hL, hR, hb'⟩ := (bioRead_fl r s n hb).cases
    unfold interp
    rw [hL, hR]
    cases a with
    | ok bs => exact ih (some bs) s' hb'
    | exn e => exact ih none (stash s' e) (hb'.stash e)
    | abort m => exact ⟨rfl, hb'⟩
  | bioWrite bs k ih =>
    intro s hb
    obtain ⟨a, s', hL, hR, hb'⟩ := (bioWrite_fl r s bs hb).cases
    unfold interp
    rw [hL, hR]
    cases a with
    | ok n => exact ih (some n) s' hb'
    | exn e => exact ih none (stash s' e) (hb'.stash e)
    | abort m => exact ⟨rfl, hb'⟩

theorem readRound_fl (C : Cfg) (r : Bool) (E : Engine σ) (size i : Nat) (s : St σ Chan) (hb : Fl r s) :
    Sim2 r (readRound C (chanWorld r) E size i s) (readRound C (chanWorld r) E size i (nf s)) := by
  obtain ⟨a, s', hL, hR, hb'⟩ : ∃ a s', interp (chanWorld r) s (E.sslRead s.e size) = (a, s') ∧
      interp (chanWorld r) (nf s) (E.sslRead (nf s).e size) = (a, nf s') ∧ Fl r s' :=
    (interp_fl r _ s hb).cases
  unfold readRound
  rw [hL, hR]
  rcases a with ⟨ans, out⟩ | e | m
  · obtain ⟨b, s2, hL2, hR2, hb2⟩ : ∃ b s2, handleResult (chanWorld r) (noteCall E s' true [] ans) ans = (b, s2) ∧
        handleResult (chanWorld r) (noteCall E (nf s') true [] ans) ans = (b, nf s2) ∧ Fl r s2 :=
      (handleResult_fl r _ ans (hb'.noteCall E true [] ans)).cases
    cases ans <;> dsimp only <;> first
      | exact ⟨rfl, hb'⟩
      | (rw [hL2, hR2]
         rcases b with (_|_)|_|_
         · exact ⟨rfl, hb2⟩
         · dsimp only
           split <;> exact ⟨rfl, hb2⟩
         · exact ⟨rfl, hb2⟩
         · exact ⟨rfl, hb2⟩)
  · exact ⟨rfl, hb'⟩
  · exact ⟨rfl, hb'⟩

theorem readLoop_fl (C : Cfg) (r : Bool) (E : Engine σ) (size i : Nat) (s : St σ Chan) (hb : Fl r s) :
    Sim2 r (readLoop C (chanWorld r) E size i s) (readLoop C (chanWorld r) E size i (nf s)) := by
  induction i generalizing s with
  | zero => exact ⟨rfl, hb⟩
  | succ i ih =>
    obtain ⟨a, s', hL, hR, hb'⟩ := (readRound_fl C r E size i s hb).cases
    simp only [readLoop]
    rw [hL, hR]
    cases a with
    | some o => exact ⟨rfl, hb'⟩
    | none => exact ih s' hb'

theorem tlsRead_fl (C : Cfg) (r : Bool) (E : Engine σ) (s : St σ Chan) (size : Nat) (hb : Fl r s) :
    Sim2 r (tlsRead C (chanWorld r) E s size) (tlsRead C (chanWorld r) E (nf s) size) := by
  obtain ⟨a, s', hL, hR, hb'⟩ := (handleLastError_fl r s hb).cases
  unfold tlsRead
  rw [hL, hR]
  rcases a with (_|_)|_|_
  · exact ⟨rfl, hb'⟩
  · exact readLoop_fl C r E size C.stepsMax s' hb'
  · exact ⟨rfl, hb'⟩
  · exact ⟨rfl, hb'⟩

theorem writeRetry_fl (C : Cfg) (r : Bool) (i' : Nat) (rest : Bytes) (s : St σ Chan) (ans : SslAns) (hb : Fl r s) :
    Sim2 r (writeRetry C (chanWorld r) i' rest s ans) (writeRetry C (chanWorld r) i' rest (nf s) ans) := by
  obtain ⟨a, s', hL, hR, hb'⟩ := (handleResult_fl r s ans hb).cases
  unfold writeRetry
  rw [hL, hR]
  rcases a with (_|_)|_|_
  · exact ⟨rfl, hb'⟩
  · dsimp only
    split <;> exact ⟨rfl, hb'⟩
  · exact ⟨rfl, hb'⟩
  · exact ⟨rfl, hb'⟩

theorem writeRound_fl (C : Cfg) (r : Bool) (E : Engine σ) (i' : Nat) (rest : Bytes) (s : St σ Chan) (hb : Fl r s) :
    Sim2 r (writeRound C (chanWorld r) E i' rest s) (writeRound C (chanWorld r) E i' rest (nf s)) := by
  obtain ⟨a, s', hL, hR, hb'⟩ : ∃ a s', interp (chanWorld r) s (E.sslWrite s.e rest) = (a, s') ∧
      interp (chanWorld r) (nf s) (E.sslWrite (nf s).e rest) = (a, nf s') ∧ Fl r s' :=
    (interp_fl r _ s hb).cases
  unfold writeRound
  have hps : (nf s).g.pendingSend = s.g.pendingSend := rfl
  rw [hL, hR, hps]
  split
  · exact ⟨rfl, hb⟩
  · rcases a with ⟨ans, out⟩ | e | m
    · cases ans <;> dsimp only <;> first
        | ((repeat' split) <;> exact ⟨rfl, hb'⟩)
        | exact writeRetry_fl C r i' rest _ _ ((hb'.noteCall E false rest _).setPending rest)
    · exact ⟨rfl, hb'⟩
    · exact ⟨rfl, hb'⟩

theorem writeLoop_fl (C : Cfg) (r : Bool) (E : Engine σ) (i : Nat) (rest : Bytes) (s : St σ Chan) (hb : Fl r s) :
    Sim2 r (writeLoop C (chanWorld r) E i rest s) (writeLoop C (chanWorld r) E i rest (nf s)) := by
  fun_induction Tls.writeLoop C (chanWorld r) E i rest s with
  | case1 rest s => rw [Tls.writeLoop]; exact ⟨rfl, hb⟩
  | case2 s i' => rw [Tls.writeLoop]; exact ⟨rfl, hb⟩
  | case3 rest s i' hne o s' heq =>
    obtain ⟨a, s2, hL, hR, hb'⟩ := (writeRound_fl C r E i' rest s hb).cases
    rw [heq] at hL
    obtain ⟨rfl, rfl⟩ := Prod.mk.inj hL
    rw [Tls.writeLoop]
    simp only [hne, if_false, hR]
    exact ⟨rfl, hb'⟩
  | case4 rest s i' hne j rest' s' heq hdec ih =>
    obtain ⟨a, s2, hL, hR, hb'⟩ := (writeRound_fl C r E i' rest s hb).cases
    rw [heq] at hL
    obtain ⟨rfl, rfl⟩ := Prod.mk.inj hL
    have := ih hb'
    rw [Tls.writeLoop]
    simp only [hne, if_false, hR, hdec, dite_true]
    exact this
  | case5 rest s i' hne j rest' s' heq hdec =>
    obtain ⟨a, s2, hL, hR, hb'⟩ := (writeRound_fl C r E i' rest s hb).cases
    rw [heq] at hL
    obtain ⟨rfl, rfl⟩ := Prod.mk.inj hL
    rw [Tls.writeLoop]
    simp only [hne, if_false, hR, hdec, dite_false]
    exact ⟨rfl, hb'⟩

theorem tlsWrite_fl (C : Cfg) (r : Bool) (E : Engine σ) (s : St σ Chan) (data : Bytes) (hb : Fl r s) :
    Sim2 r (tlsWrite C (chanWorld r) E s data) (tlsWrite C (chanWorld r) E (nf s) data) := by
  obtain ⟨a, s', hL, hR, hb'⟩ := (handleLastError_fl r s hb).cases
  unfold tlsWrite
  rw [hL, hR]
  rcases a with (_|_)|_|_
  · exact ⟨rfl, hb'⟩
  · dsimp only
    obtain ⟨b, s2, hL2, hR2, hb2⟩ := (writeLoop_fl C r E C.stepsMax data s' hb').cases
    rw [hL2, hR2]
    cases b <;> exact ⟨rfl, hb2⟩
  · exact ⟨rfl, hb'⟩
  · exact ⟨rfl, hb'⟩


/-! ### `Read` / `Write` with budget 0 against the reference engine (the cores of `recv_spec` / `send_spec`, with what
they leave in `lastError` spelled out) -/

/-- after a call, an unfinished engine is waiting for a flight, and the glue knows it -/
def Tight (s : St Hs Chan) : Prop := s.e.stage < 3 → s.g.lastError = .wantRead

theorem tlsRead_hs (C : Cfg) (hC : 0 < C.stepsMax) (P : HsP) (r : Bool) (data : Bytes) (n : Nat) (hn : 1 ≤ n)
    (s : St Hs Chan) (hi : SideInv P r data s) :
    ∃ bs s', tlsRead C (chanWorld r) (engine P) (setTimeout s 0) n = (.ok bs, s') ∧ SideInv P r data s' ∧
      Tr P r s.e s.w s'.e s'.w ∧ (CanProg r s.e s.w → work P s'.e < work P s.e) ∧ Tight s' ∧
      (bs ≠ [] → 3 ≤ s'.e.stage ∧ s'.g.lastError = .none) := by
  obtain ⟨i, hi1⟩ : ∃ i, C.stepsMax = i + 1 := ⟨C.stepsMax - 1, by omega⟩
  simp only [tlsRead]
  rcases gate P r data s hi with ⟨s1, e1, c1, ee1, w1, l1, p1⟩ | ⟨s1', e1', _, _, _, l1, hin⟩
  · rw [e1, hi1]
    simp only [readLoop, readRound]
    obtain ⟨ans, out, s2, e2, c2, l2, p2, t2, a2, g2⟩ := sslRead_spec P r s1 n hn c1 (by rw [ee1]; exact hi.2.2.2.2.1) (by rw [ee1]; exact hi.2.2.2.1)
    rw [e2]
    rw [ee1, w1] at t2 g2
    have hcl2 : s2.e.client = r := t2.cl.trans hi.2.2.2.1
    have hpend : s2.g.pendingSend = [] ∨ s2.g.pendingSend = data := by rw [p2, p1]; exact hi.2.2.2.2.2.2.2
    cases ans with
    | done k =>
      obtain ⟨hfin, _, hne⟩ := a2
      have hl2 : (noteCall (engine P) s2 true [] (.done k)).g.lastError = .none := by
        show s2.g.lastError = _; rw [l2, l1]
      have hside : SideInv P r data (noteCall (engine P) s2 true [] (.done k)) :=
        ⟨c2.2.1, c2.2.2.1, c2.2.2.2, hcl2, t2.wf, Or.inl hl2,
          (by intro h; rw [hl2] at h; cases h), hpend⟩
      exact ⟨out, _, rfl, hside, t2, fun hcp => g2 hcp.1 hcp.2, (by intro h; exact absurd (show s2.e.stage < 3 from h) (by omega)),
        fun _ => ⟨hfin, hl2⟩⟩
    | wantRead =>
      obtain ⟨hin2, hnw, _⟩ := a2
      obtain ⟨s3, e3, c3, ee3, w3, l3, p3⟩ := handleResult_blocked r (noteCall (engine P) s2 true [] .wantRead) c2 hin2
      simp only [e3]
      have hside : SideInv P r data s3 :=
        ⟨c3.2.1, c3.2.2.1, c3.2.2.2, by rw [ee3]; exact hcl2, by rw [ee3]; exact t2.wf, Or.inr l3,
          by intro _; rw [ee3]; exact hnw, by rw [p3]; exact hpend⟩
      have ht : Tr P r s.e s.w s3.e s3.w := by rw [ee3, w3]; exact t2
      exact ⟨[], s3, rfl, hside, ht, (fun hcp => by rw [ee3]; exact g2 hcp.1 hcp.2), fun _ => l3, fun h => absurd rfl h⟩
    | wantWrite => exact absurd a2 (by simp [AnsOK])
    | zeroReturn => exact absurd a2 (by simp [AnsOK])
    | syscallErr => exact absurd a2 (by simp [AnsOK])
    | sslErr => exact absurd a2 (by simp [AnsOK])
  · obtain ⟨s1, e1, i1, ee1, w1, l1'⟩ := gate_blocked P r data s hi l1 hin
    rw [e1]
    have ht : Tr P r s.e s.w s1.e s1.w := by rw [ee1, w1]; exact Tr.refl P r s.e s.w hi.2.2.2.2.1
    refine ⟨[], s1, rfl, i1, ht, ?_, fun _ => l1', fun h => absurd rfl h⟩
    intro hcp
    exfalso
    rcases hcp.2 with hwr | hpos
    · have := hi.2.2.2.2.2.2.1 l1 hcp.1; rw [this] at hwr; cases hwr
    · omega

/-- `writeRound_hs` with the outcome spelled out: the round either took the whole buffer - then the engine is finished
and no error is cached -, or stopped on WANT_READ -/
theorem writeRound_hs' (C : Cfg) (P : HsP) (r : Bool) (data : Bytes) (hd : data ≠ []) (s0 s1 : St Hs Chan)
    (hi : SideInv P r data s0) (c1 : Calm s1) (ee1 : s1.e = s0.e) (w1 : s1.w = s0.w) (l1 : s1.g.lastError = .none)
    (p1 : s1.g.pendingSend = s0.g.pendingSend) (i' : Nat) (hi' : 1 ≤ i') :
    (∃ j s2, writeRound C (chanWorld r) (engine P) i' data s1 = (.again j [], s2) ∧ Good P r data s0 s2 ∧
      3 ≤ s2.e.stage ∧ s2.g.lastError = .none ∧ s2.g.pendingSend = []) ∨
    (∃ s3, writeRound C (chanWorld r) (engine P) i' data s1 = (.stop (.ok data), s3) ∧ Good P r data s0 s3 ∧
      s3.g.lastError = .wantRead) := by
  have hp0 : s1.g.pendingSend = [] ∨ s1.g.pendingSend = data := by rw [p1]; exact hi.2.2.2.2.2.2.2
  unfold writeRound
  rw [if_neg (by intro h; exact h.2 (hp0.imp id (congrArg List.length)))]
  obtain ⟨ans, out, s2, e2, c2, l2, p2, t2, a2, g2⟩ :=
    sslWrite_spec P r s1 data hd c1 (by rw [ee1]; exact hi.2.2.2.2.1) (by rw [ee1]; exact hi.2.2.2.1)
  rw [e2]
  rw [ee1, w1] at t2 g2
  have hcl2 : s2.e.client = r := t2.cl.trans hi.2.2.2.1
  cases ans with
  | done k =>
    obtain ⟨hfin, hk⟩ := a2
    left
    have hdrop : data.drop k = [] := by rw [hk]; simp
    have hl : (setPending (noteCall (engine P) s2 false data (.done k)) []).g.lastError = .none := by
      show s2.g.lastError = _; rw [l2, l1]
    have hgood : Good P r data s0 (setPending (noteCall (engine P) s2 false data (.done k)) []) :=
      ⟨⟨c2.2.1, c2.2.2.1, c2.2.2.2, hcl2, t2.wf, Or.inl hl,
        (by intro h; rw [hl] at h; cases h), Or.inl rfl⟩,
       t2, fun hcp => g2 hcp.1 hcp.2⟩
    simp only
    by_cases hb : 0 < k ∧ C.fixRoundReset = true
    · rw [if_pos hb, hdrop]; exact ⟨_, _, rfl, hgood, hfin, hl, rfl⟩
    · rw [if_neg hb, if_neg (by intro h; omega), hdrop]; exact ⟨_, _, rfl, hgood, hfin, hl, rfl⟩
  | wantRead =>
    obtain ⟨hin2, hnw, hlt⟩ := a2
    right
    obtain ⟨s3, e3, c3, ee3, w3, l3, p3⟩ :=
      handleResult_blocked r (setPending (noteCall (engine P) s2 false data .wantRead) data) c2 hin2
    simp only [writeRetry, e3]
    exact ⟨s3, rfl, ⟨⟨c3.2.1, c3.2.2.1, c3.2.2.2, by rw [ee3]; exact hcl2, by rw [ee3]; exact t2.wf, Or.inr l3,
      by intro _; rw [ee3]; exact hnw, Or.inr (by rw [p3]; rfl)⟩, by rw [ee3, w3]; exact t2,
      fun hcp => by rw [ee3]; exact g2 hcp.1 hcp.2⟩, l3⟩
  | wantWrite => exact absurd a2 (by simp [AnsOK])
  | zeroReturn => exact absurd a2 (by simp [AnsOK])
  | syscallErr => exact absurd a2 (by simp [AnsOK])
  | sslErr => exact absurd a2 (by simp [AnsOK])

theorem tlsWrite_hs (C : Cfg) (hC : 1 < C.stepsMax) (P : HsP) (r : Bool) (data : Bytes) (hd : data ≠ [])
    (s : St Hs Chan) (hi : SideInv P r data s) :
    ∃ k s', tlsWrite C (chanWorld r) (engine P) (setTimeout s 0) data = (.ok k, s') ∧ SideInv P r data s' ∧
      Tr P r s.e s.w s'.e s'.w ∧ (CanProg r s.e s.w → work P s'.e < work P s.e) ∧ Tight s' ∧
      ((k = data.length ∧ 3 ≤ s'.e.stage ∧ s'.g.lastError = .none ∧ s'.g.pendingSend = []) ∨ k = 0) := by
  simp only [tlsWrite]
  rcases gate P r data s hi with ⟨s1, e1, c1, ee1, w1, l1, p1⟩ | ⟨s1', e1', _, _, _, l1, hin⟩
  · rw [e1]
    simp only
    have hloop := writeLoop_rule C (chanWorld r) (engine P)
      (fun i rest s' => (rest = data ∧ s' = s1 ∧ 1 < i) ∨ (rest = [] ∧ Good P r data s s' ∧ 3 ≤ s'.e.stage ∧ s'.g.lastError = .none ∧ s'.g.pendingSend = []))
      (fun o s' => Good P r data s s' ∧ ((o = .ok [] ∧ 3 ≤ s'.e.stage ∧ s'.g.lastError = .none ∧ s'.g.pendingSend = []) ∨
        (o = .ok data ∧ s'.g.lastError = .wantRead)))
      (by intro i rest s' h hex
          rcases h with ⟨h1, _, h3⟩ | ⟨h1, h2, h3⟩
          · rcases hex with h0 | h0
            · omega
            · exact absurd (h1 ▸ h0) hd
          · exact ⟨h2, Or.inl ⟨by rw [h1], h3⟩⟩)
      (by intro i' rest s' o s'' h hne heq
          rcases h with ⟨h1, h2, h3⟩ | ⟨h1, _⟩
          · subst h1; subst h2
            rcases writeRound_hs' C P r rest hd s s' hi c1 ee1 w1 l1 p1 i' (by omega) with ⟨j, s2, hr, _⟩ | ⟨s3, hr, hg, hl⟩
            · rw [hr] at heq; simp at heq
            · rw [hr] at heq
              simp only [Prod.mk.injEq, Next.stop.injEq] at heq
              obtain ⟨rfl, rfl⟩ := heq
              exact ⟨hg, Or.inr ⟨rfl, hl⟩⟩
          · exact absurd h1 hne)
      (by intro i' rest s' j rest' s'' h hne heq
          rcases h with ⟨h1, h2, h3⟩ | ⟨h1, _⟩
          · subst h1; subst h2
            rcases writeRound_hs' C P r rest hd s s' hi c1 ee1 w1 l1 p1 i' (by omega) with ⟨j2, s2, hr, hg, hf, hl, hpd⟩ | ⟨s3, hr, _, _⟩
            · rw [hr] at heq
              simp only [Prod.mk.injEq, Next.again.injEq] at heq
              obtain ⟨⟨_, rfl⟩, rfl⟩ := heq
              exact Or.inr ⟨rfl, hg, hf, hl, hpd⟩
            · rw [hr] at heq; simp at heq
          · exact absurd h1 hne)
      C.stepsMax data s1 (Or.inl ⟨rfl, rfl, hC⟩)
    rcases hw : writeLoop C (chanWorld r) (engine P) C.stepsMax data s1 with ⟨o, s''⟩
    rw [hw] at hloop
    obtain ⟨⟨hside, ht, hp⟩, hcase⟩ := hloop
    rcases hcase with ⟨ho, hf, hl, hpd⟩ | ⟨ho, hl⟩
    · simp only at ho
      subst ho
      exact ⟨_, s'', rfl, hside, ht, hp, (by intro h; have hf' : 3 ≤ s''.e.stage := hf; omega), Or.inl ⟨by simp, hf, hl, hpd⟩⟩
    · simp only at ho
      subst ho
      exact ⟨_, s'', rfl, hside, ht, hp, fun _ => hl, Or.inr (by simp)⟩
  · obtain ⟨s1, e1, i1, ee1, w1, l1'⟩ := gate_blocked P r data s hi l1 hin
    rw [e1]
    refine ⟨0, s1, rfl, i1, by rw [ee1, w1]; exact Tr.refl P r s.e s.w hi.2.2.2.2.1, ?_, fun _ => l1', Or.inr rfl⟩
    intro hcp
    exfalso
    rcases hcp.2 with hwr | hpos
    · have := hi.2.2.2.2.2.2.1 l1 hcp.1; rw [this] at hwr; cases hwr
    · omega

/-! ### the driver's readable task -/

/-- a cached WANT_READ is forgotten ("we have been deemed readable") -/
def clr (s : St Hs Chan) : St Hs Chan :=
  { s with g := { s.g with lastError := if s.g.lastError = .wantRead then .none else s.g.lastError } }

theorem sideInv_clr (P : HsP) (r : Bool) (data : Bytes) (s : St Hs Chan) (hi : SideInv P r data (nf s)) :
    SideInv P r data (nf (clr s)) := by
  by_cases hl : s.g.lastError = .wantRead
  · have : nf (clr s) = setLastError (nf s) .none := by simp [nf, clr, setLastError, hl]
    rw [this]; exact sideInv_setNone P r data _ hi
  · have : nf (clr s) = nf s := by
      rcases s with ⟨⟨le, ps, rt, ir, iw, dss, pe, wire, bw, ec⟩, e, w⟩
      simp only at hl
      simp [nf, clr, hl]
    rw [this]; exact hi

/-- **`DriverOnReadable` = `Receive(rx, 0)`** on a socket that `poll` reported readable: same engine, channel and
result as the zero-timeout call from the state without flags; afterwards a finished engine has no error cached and an
unfinished one has WANT_READ cached. -/
theorem receiveReadable_hs (C : Cfg) (hC : 0 < C.stepsMax) (P : HsP) (r : Bool) (data : Bytes) (rx : Nat)
    (hrx : 1 ≤ rx) (s : St Hs Chan) (hi : SideInv P r data (nf s)) (hin : 0 < s.w.inb r) :
    ∃ bs s', receiveReadable C (chanWorld r) (engine P) s rx = (.ok bs, s') ∧ SideInv P r data (nf s') ∧
      Tr P r s.e s.w s'.e s'.w ∧ (CanProg r s.e s.w → work P s'.e < work P s.e) ∧ Tight (nf s') ∧
      (3 ≤ s'.e.stage → s'.g.lastError = .none) := by
  have hfl : Fl r (prepReadable s) := ⟨rfl, fun _ => hin⟩
  obtain ⟨a, s1, hL, hR, _⟩ := (tlsRead_fl C r (engine P) (prepReadable s) rx hfl).cases
  have hnf : nf (prepReadable s) = setTimeout (nf (clr s)) 0 := rfl
  rw [hnf] at hR
  obtain ⟨bs, s2, e2, side2, t2, g2, tight2, fin2⟩ := tlsRead_hs C hC P r data rx hrx (nf (clr s)) (sideInv_clr P r data s hi)
  rw [e2] at hR
  obtain ⟨rfl, hs2⟩ := Prod.mk.inj hR
  have t2' : Tr P r s.e s.w s1.e s1.w := by
    have : Tr P r s.e s.w (nf s1).e (nf s1).w := by rw [← hs2]; exact t2
    exact this
  have g2' : CanProg r s.e s.w → work P s1.e < work P s.e := by
    intro h
    have : work P (nf s1).e < work P s.e := by rw [← hs2]; exact g2 h
    exact this
  simp only [receiveReadable, hL]
  cases bs with
  | nil =>
    simp only
    by_cases hf : (engine P).initFinished s1.e = true
    · rw [if_pos hf]
      refine ⟨[], _, rfl, ?_, t2', g2', ?_, fun _ => rfl⟩
      · have : nf (setLastError s1 .none) = setLastError (nf s1) .none := rfl
        rw [this, ← hs2]; exact sideInv_setNone P r data _ side2
      · intro hlt
        have h3 : 3 ≤ s1.e.stage := by simpa [engine] using hf
        exact absurd (show s1.e.stage < 3 from hlt) (by omega)
    · rw [if_neg hf]
      refine ⟨[], _, rfl, by rw [← hs2]; exact side2, t2', g2', by rw [← hs2]; exact tight2, ?_⟩
      intro h3
      exact absurd (by simpa [engine] using h3) hf
  | cons b bs =>
    simp only
    obtain ⟨f1, f2⟩ := fin2 (by simp)
    refine ⟨b :: bs, _, rfl, by rw [← hs2]; exact side2, t2', g2', by rw [← hs2]; exact tight2, ?_⟩
    intro _
    have : (nf s1).g.lastError = .none := by rw [← hs2]; exact f2
    exact this

/-! ### an asynchronous (driver-operated) SERVER and a polling synchronous client -/

/-- the asynchronous server `x` (driver-side state `x.a`, TLS glue and engine `x.s.g`, `x.s.e`; `x.s.w` are the two
channels), and the polling client -/
structure SysAS where
  x : ASt Hs Chan
  gp : Glue := {}
  ep : Hs
  /-- client calls, or driver steps, that ended with an exception or a failed assert -/
  faults : Nat := 0

/-- `drive` = one `Driver::Step` on the server's driver (`DriverQuery`, `poll`, at most one task);
`peer k` = the client calls `Send(dc, 0)` / `Receive(n, 0)` -/
inductive ActA where
  | drive
  | peer (k : Kind)
  deriving DecidableEq, Repr

/-- what `poll` reports for the server's descriptor: readable iff bytes towards the server are in flight, always
writable, never HUP/ERR (the channel is healthy) -/
def SysAS.rev (y : SysAS) : REvents := { rd := decide (0 < y.x.s.w.inb false), wr := true, hupErr := false }

def SysAS.step (C : Cfg) (P : HsP) (dc : Bytes) (rx : Nat) (y : SysAS) : ActA → SysAS
  | .drive =>
    let r := aTask C (chanWorld false) (engine P) rx (aQuery (engine P) y.x) y.rev
    { y with x := r.2, faults := y.faults + (if isOk r.1 then 0 else 1) }
  | .peer k =>
    let r := callOn C P true ⟨y.gp, y.ep, y.x.s.w⟩ (k.call dc)
    { y with gp := r.2.g, ep := r.2.e, x := { y.x with s := { y.x.s with w := r.2.w } },
             faults := y.faults + (if r.1 then 0 else 1) }

/-- `drive` is `aApply … (.step rev)` of `Model/Tls.lean` with the revents the channel dictates -/
theorem drive_is_aApply (C : Cfg) (P : HsP) (dc : Bytes) (rx : Nat) (y : SysAS) :
    (y.step C P dc rx .drive).x = aApply C (chanWorld false) (engine P) rx y.x (.step y.rev) := rfl

def SysAS.init (P : HsP) (segs : List Nat) : SysAS :=
  { x := { a := {}, s := ⟨{}, Hs.init P false, { segs := segs }⟩ }, ep := Hs.init P true }

def SysAS.run (C : Cfg) (P : HsP) (dc : Bytes) (rx : Nat) (l : List ActA) (y : SysAS) : SysAS :=
  l.foldl (SysAS.step C P dc rx) y

def SysAS.bothFinished (y : SysAS) : Prop := 3 ≤ y.ep.stage ∧ 3 ≤ y.x.s.e.stage

def ActA.okA : ActA → Prop
  | .drive => True
  | .peer k => k.ok

instance (a : ActA) : Decidable a.okA := by
  cases a <;> unfold ActA.okA <;> exact inferInstance

/-- the composition as a `Sys` (the server's glue without its flags) -/
def SysAS.sys (y : SysAS) : Sys := mkSys false (nf y.x.s).g y.x.s.e ⟨y.x.s.w, y.gp, y.ep, [], y.faults⟩

/-- between steps: the invariant of `Sys`; an unfinished server engine is waiting for a flight; nothing is queued,
`POLLOUT` is not requested and not remembered as suppressed; the socket is registered -/
structure AInv (P : HsP) (dc ds : Bytes) (y : SysAS) : Prop where
  inv : SysInv P dc ds y.sys
  reads : y.x.s.e.stage < 3 → y.x.s.e.writes = false
  po : y.x.a.pollOut = false
  reg : y.x.a.registered = true
  sup : y.x.s.g.driverSendSuppressed = false

theorem aQuery_idle (E : Engine Hs) (x : ASt Hs Chan) (hreg : x.a.registered = true) (hpo : x.a.pollOut = false)
    (hsup : x.s.g.driverSendSuppressed = false) (hle : x.s.g.lastError ≠ .wantWrite) : aQuery E x = x := by
  rcases x with ⟨⟨sendQ, po, reg, fut, del, disc⟩, ⟨⟨le, ps, rt, ir, iw, dss, pe, wire, bw, ec⟩, e, w⟩⟩
  simp only at hreg hpo hsup hle
  subst hreg; subst hpo; subst hsup
  simp only [aQuery, driverQuery, Bool.not_eq_true, not_true_eq_false, if_false, Bool.false_eq_true, Bool.or_false]
  by_cases hi : E.initFinished e = true
  · simp [hi]
  · by_cases hr : le = .wantRead
    · simp [hi, hle, hr]
    · simp [hi, hle, hr]

theorem supFrame (b : Bool) : Frame (chanWorld false) (fun s : St Hs Chan => s.g.driverSendSuppressed = b) where
  core := fun h hc => hc.2.2.2.trans h
  wait := fun _ _ h => h
  bioRead := by intro s n h; rw [(bioRead_core (W := chanWorld false) s n).2.2.1]; exact h
  bioWrite := by intro s bs h; rw [(bioWrite_ctl (W := chanWorld false) s bs).1.2.2.2]; exact h

theorem sys_peer (C : Cfg) (P : HsP) (dc : Bytes) (rx : Nat) (y : SysAS) (k : Kind) :
    (y.step C P dc rx (.peer k)).sys = y.sys.step C P true (k.call dc) := by
  simp [SysAS.sys, SysAS.step, mkSys, Sys.step, nf]

/-- one driver step of the server -/
theorem drive_spec (C : Cfg) (hC : 1 < C.stepsMax) (P : HsP) (dc ds : Bytes) (rx : Nat) (hrx : 1 ≤ rx) (y : SysAS)
    (hy : AInv P dc ds y) :
    AInv P dc ds (y.step C P dc rx .drive) ∧ (y.step C P dc rx .drive).ep = y.ep ∧
    work P (y.step C P dc rx .drive).x.s.e ≤ work P y.x.s.e ∧
    (CanProg false y.x.s.e y.x.s.w → work P (y.step C P dc rx .drive).x.s.e < work P y.x.s.e) ∧
    y.x.s.w.sc ≤ (y.step C P dc rx .drive).x.s.w.sc ∧ y.x.s.e.stage ≤ (y.step C P dc rx .drive).x.s.e.stage := by
  have hside : SideInv P false ds (nf y.x.s) := by
    have h : SideInv P false ds ⟨(nf y.x.s).g, y.x.s.e, y.x.s.w⟩ := by
      have := hy.inv.2.1
      simpa [SysAS.sys, mkSys] using this
    exact h
  have hle : y.x.s.g.lastError ≠ .wantWrite := by
    have h6 : (nf y.x.s).g.lastError = .none ∨ (nf y.x.s).g.lastError = .wantRead := hside.2.2.2.2.2.1
    have : (nf y.x.s).g.lastError = y.x.s.g.lastError := rfl
    rw [this] at h6
    rcases h6 with h | h <;> rw [h] <;> simp
  have hq : aQuery (engine P) y.x = y.x := aQuery_idle _ _ hy.reg hy.po hy.sup hle
  by_cases hin : 0 < y.x.s.w.inb false
  · obtain ⟨bs, s', e1, side1, t1, g1, tight1, _⟩ := receiveReadable_hs C (by omega) P false ds rx hrx y.x.s hside hin
    have hsup' : s'.g.driverSendSuppressed = false := by
      have := (supFrame false).receiveReadable C (engine P) y.x.s rx hy.sup
      rw [e1] at this; exact this
    have htask0 : aTask C (chanWorld false) (engine P) rx y.x y.rev =
        aReadable C (chanWorld false) (engine P) rx y.x := by
      simp [aTask, hy.reg, SysAS.rev, hin]
    have htask : ∃ a', aTask C (chanWorld false) (engine P) rx y.x y.rev = (.ok (), ⟨a', s'⟩) ∧
        a'.pollOut = y.x.a.pollOut ∧ a'.registered = y.x.a.registered := by
      rw [htask0]
      simp only [aReadable, e1]
      cases bs with
      | nil => exact ⟨_, rfl, rfl, rfl⟩
      | cons b t => exact ⟨_, rfl, rfl, rfl⟩
    obtain ⟨a', ht, hpo', hreg'⟩ := htask
    have hstep : y.step C P dc rx .drive = { y with x := ⟨a', s'⟩, faults := y.faults + 0 } := by
      simp only [SysAS.step, hq, ht, isOk, if_true]
    rw [hstep]
    have hinv' : SysInv P dc ds (mkSys false (nf s').g s'.e ⟨s'.w, y.gp, y.ep, [], y.faults⟩) :=
      sysInv_upd P false dc ds (nf y.x.s).g (nf s').g y.x.s.e s'.e ⟨y.x.s.w, y.gp, y.ep, [], y.faults⟩ s'.w hy.inv
        side1 t1
    refine ⟨⟨?_, ?_, by rw [← hy.po]; exact hpo', by rw [← hy.reg]; exact hreg', hsup'⟩, rfl, t1.wk, g1, ?_, t1.st⟩
    · simpa [SysAS.sys] using hinv'
    · intro hlt
      exact side1.2.2.2.2.2.2.1 (tight1 hlt) hlt
    · have := t1.outLe; simpa [Chan.out] using this
  · have htask : aTask C (chanWorld false) (engine P) rx y.x y.rev = (.ok (), y.x) := by
      simp [aTask, hy.reg, SysAS.rev, hin, hy.po]
    have hstep : y.step C P dc rx .drive = { y with faults := y.faults + 0 } := by
      simp only [SysAS.step, hq, htask, isOk, if_true]
    rw [hstep]
    refine ⟨⟨hy.inv, hy.reads, hy.po, hy.reg, hy.sup⟩, rfl, Nat.le_refl _, ?_, Nat.le_refl _, Nat.le_refl _⟩
    intro hcp
    exfalso
    rcases hcp.2 with hw | hp
    · rw [hy.reads hcp.1] at hw; cases hw
    · exact hin hp

/-- one call of the polling client -/
theorem peer_spec (C : Cfg) (hC : 1 < C.stepsMax) (P : HsP) (dc ds : Bytes) (hdc : dc ≠ []) (rx : Nat) (y : SysAS)
    (hy : AInv P dc ds y) (k : Kind) (hk : k.ok) :
    AInv P dc ds (y.step C P dc rx (.peer k)) ∧ (y.step C P dc rx (.peer k)).x.s.e = y.x.s.e ∧
    work P (y.step C P dc rx (.peer k)).ep ≤ work P y.ep ∧
    (CanProg true y.ep y.x.s.w → work P (y.step C P dc rx (.peer k)).ep < work P y.ep) ∧
    y.x.s.w.cs ≤ (y.step C P dc rx (.peer k)).x.s.w.cs ∧ y.ep.stage ≤ (y.step C P dc rx (.peer k)).ep.stage := by
  have hcall : ∃ n, 1 ≤ n ∧ (k.call dc = .send dc ∨ k.call dc = .recv n) := by
    cases k with
    | send => exact ⟨1, Nat.le_refl _, Or.inl rfl⟩
    | recv n => exact ⟨n, hk, Or.inr rfl⟩
  obtain ⟨n, hn, hcall⟩ := hcall
  obtain ⟨i1, e1, w1, p1, c1, s1⟩ := stepC_spec C hC P dc ds hdc n hn y.sys hy.inv _ hcall
  rw [← sys_peer C P dc rx y k] at i1 e1 w1 p1 c1 s1
  exact ⟨⟨i1, hy.reads, hy.po, hy.reg, hy.sup⟩, rfl, w1, p1, c1, s1⟩

/-- the composition as a fair-progress system: side `true` = the polling client, side `false` = the server's driver -/
def asTS (C : Cfg) (hC : 1 < C.stepsMax) (P : HsP) (dc ds : Bytes) (hdc : dc ≠ []) (rx : Nat) (hrx : 1 ≤ rx) :
    Fair.TS SysAS ActA where
  step := SysAS.step C P dc rx
  inv := AInv P dc ds
  mu y := work P y.ep + work P y.x.s.e
  side a := match a with
    | .drive => some false
    | .peer _ => some true
  can y r := if r then CanProg true y.ep y.x.s.w else CanProg false y.x.s.e y.x.s.w
  fin := SysAS.bothFinished
  ok := ActA.okA
  step_ok := by
    intro y a hy ha
    cases a with
    | drive =>
      obtain ⟨i1, e1, w1, p1, c1, s1⟩ := drive_spec C hC P dc ds rx hrx y hy
      refine ⟨i1, ?_, ?_, ?_, ?_⟩
      · show work P _ + work P _ ≤ work P _ + work P _
        rw [e1]; omega
      · intro r hr hp
        have hr' : r = false := by cases hr; rfl
        subst hr'
        have := p1 hp
        show work P _ + work P _ < work P _ + work P _
        rw [e1]; omega
      · intro r hr hp
        have hr' : r = true := by cases r <;> simp_all
        subst hr'
        show CanProg true _ _
        rw [e1]
        obtain ⟨h1, h2⟩ := hp
        refine ⟨h1, ?_⟩
        rcases h2 with h2 | h2
        · exact Or.inl h2
        · right; simp only [Chan.inb, if_true] at h2 ⊢; omega
      · intro hf
        exact ⟨by rw [e1]; exact hf.1, Nat.le_trans hf.2 s1⟩
    | peer k =>
      obtain ⟨i1, e1, w1, p1, c1, s1⟩ := peer_spec C hC P dc ds hdc rx y hy k ha
      refine ⟨i1, ?_, ?_, ?_, ?_⟩
      · show work P _ + work P _ ≤ work P _ + work P _
        rw [e1]; omega
      · intro r hr hp
        have hr' : r = true := by cases hr; rfl
        subst hr'
        have := p1 hp
        show work P _ + work P _ < work P _ + work P _
        rw [e1]; omega
      · intro r hr hp
        have hr' : r = false := by cases r <;> simp_all
        subst hr'
        show CanProg false _ _
        rw [e1]
        obtain ⟨h1, h2⟩ := hp
        refine ⟨h1, ?_⟩
        rcases h2 with h2 | h2
        · exact Or.inl h2
        · right; simp only [Chan.inb, Bool.false_eq_true, if_false] at h2 ⊢; omega
      · intro hf
        exact ⟨Nat.le_trans hf.1 s1, by rw [e1]; exact hf.2⟩
  live := by
    intro y hy hnf
    have hnf' : ¬ y.sys.bothFinished := by
      intro hb; apply hnf
      simpa [SysAS.sys, mkSys, Sys.bothFinished, SysAS.bothFinished] using hb
    rcases can_progress P dc ds y.sys hy.inv hnf' with h | h
    · left; simpa [SysAS.sys, mkSys] using h
    · right; simpa [SysAS.sys, mkSys] using h
  zero := by
    intro y _ h0
    exact ⟨work_zero_fin P _ (by omega), work_zero_fin P _ (by omega)⟩

theorem aInv_init (P : HsP) (dc ds : Bytes) (segs : List Nat) : AInv P dc ds (SysAS.init P segs) :=
  ⟨sysInv_init P dc ds segs, fun _ => rfl, rfl, rfl, rfl⟩

theorem asTS_run (C : Cfg) (hC : 1 < C.stepsMax) (P : HsP) (dc ds : Bytes) (hdc : dc ≠ []) (rx : Nat) (hrx : 1 ≤ rx)
    (l : List ActA) (y : SysAS) : (asTS C hC P dc ds hdc rx hrx).run l y = SysAS.run C P dc rx l y := rfl

end SockModel.Hs

/-
Model of what `Address` comparison, hashing and printing are based on
(src/address_impl.h:21-29, src/address_impl.cpp `SockAddrView::operator<`,
`operator==`, `std::hash<AddressImpl>`, `to_string`).

* An *image* is the byte range `[addr, addr + addrLen)` that a `SockAddrView`
  exposes: a `List UInt8` whose length is `addrLen`.
* A `View` is an image inside a (possibly larger) storage: `SockAddrStorage`
  keeps a 128-byte `sockaddr_storage` and a kernel-updated `size`; only the
  first `size` bytes take part in comparison and hashing.
* `encode4` / `encode6` lay out `sockaddr_in` / `sockaddr_in6` as on x86-64
  Linux: `sa_family` little-endian (AF_INET = 2, AF_INET6 = 10), port
  big-endian, `sin6_flowinfo` big-endian, `sin6_scope_id` little-endian,
  `sin_zero` = 8 zero bytes; lengths 16 / 28.
-/
namespace SockModel.Addr

abbrev Image := List UInt8

/-- `memcmp(a, b, n) < 0` for two buffers that both hold `n` bytes: unsigned
lexicographic comparison -/
def ltBytes : List UInt8 → List UInt8 → Bool
  | a :: as, b :: bs => if a < b then true else if b < a then false else ltBytes as bs
  | _, _ => false

/-- `memcmp(a, b, n) == 0` -/
def eqBytes : List UInt8 → List UInt8 → Bool
  | a :: as, b :: bs => a == b && eqBytes as bs
  | _, _ => true

/-- `SockAddrView::operator<`: shorter length first, then `memcmp` -/
def lt (a b : Image) : Bool :=
  if a.length < b.length then true
  else if b.length < a.length then false
  else ltBytes a b

/-- `SockAddrView::operator==` -/
def eq (a b : Image) : Bool := a.length == b.length && eqBytes a b

/-- `SockAddrView::operator!=` -/
def ne (a b : Image) : Bool := !(eq a b)

/-- `std::hash<AddressImpl>`: some function `H` (libstdc++'s `hash<string_view>`)
of exactly the bytes of the image -/
def hash {β : Type} (H : List UInt8 → β) (a : Image) : β := H a

/-- storage + length, as held by `SockAddrStorage` / `addrinfo` -/
structure View where
  storage : List UInt8
  len : Nat

def View.image (v : View) : Image := v.storage.take v.len

def View.lt (v w : View) : Bool := Addr.lt v.image w.image
def View.eq (v w : View) : Bool := Addr.eq v.image w.image
def View.hash {β : Type} (H : List UInt8 → β) (v : View) : β := Addr.hash H v.image

/-! ### canonical images -/

def be16 (n : Nat) : List UInt8 := [UInt8.ofNat (n / 256), UInt8.ofNat (n % 256)]

def be32 (n : Nat) : List UInt8 :=
  [UInt8.ofNat (n / 16777216 % 256), UInt8.ofNat (n / 65536 % 256), UInt8.ofNat (n / 256 % 256), UInt8.ofNat (n % 256)]

def le32 (n : Nat) : List UInt8 :=
  [UInt8.ofNat (n % 256), UInt8.ofNat (n / 256 % 256), UInt8.ofNat (n / 65536 % 256), UInt8.ofNat (n / 16777216 % 256)]

/-- `sockaddr_in`: family, port, 4 address bytes, `sin_zero` -/
def encode4 (ip : List UInt8) (port : Nat) : Image :=
  [2, 0] ++ be16 port ++ ip ++ List.replicate 8 0

/-- `sockaddr_in6`: family, port, flowinfo, 16 address bytes, scope id -/
def encode6 (ip : List UInt8) (port flow scope : Nat) : Image :=
  [10, 0] ++ be16 port ++ be32 flow ++ ip ++ le32 scope

/-- the field tuple `==` is supposed to decide on -/
structure Fields where
  v6 : Bool
  ip : List UInt8
  port : Nat
  flow : Nat := 0
  scope : Nat := 0
  deriving DecidableEq, Repr

def Fields.wf (f : Fields) : Prop :=
  f.port < 65536 ∧ f.flow < 4294967296 ∧ f.scope < 4294967296 ∧
  (if f.v6 then f.ip.length = 16 else f.ip.length = 4 ∧ f.flow = 0 ∧ f.scope = 0)

def encode (f : Fields) : Image :=
  if f.v6 then encode6 f.ip f.port f.flow f.scope else encode4 f.ip f.port

/-- `to_string(SockAddrView)`: the in-place buffer edit of address_impl.cpp composes
`host:serv` for AF_INET and `[host]:serv` otherwise -/
def toString (v6 : Bool) (host serv : List UInt8) : List UInt8 :=
  if v6 then [0x5b] ++ host ++ [0x5d, 0x3a] ++ serv else host ++ [0x3a] ++ serv

/-! ### a sorted association list keyed through `lt` / `eq` (what `std::map<Address, V>` does) -/

def mapInsert {V : Type} (k : Image) (v : V) : List (Image × V) → List (Image × V)
  | [] => [(k, v)]
  | (k', v') :: rest =>
    if lt k k' then (k, v) :: (k', v') :: rest
    else if lt k' k then (k', v') :: mapInsert k v rest
    else (k', v) :: rest

def mapFind {V : Type} (k : Image) : List (Image × V) → Option V
  | [] => none
  | (k', v') :: rest =>
    if lt k k' then none
    else if lt k' k then mapFind k rest
    else some v'

/-- bucket map: what `std::unordered_map<Address, V>` does inside one bucket -/
def bucketFind {V : Type} (k : Image) : List (Image × V) → Option V
  | [] => none
  | (k', v') :: rest => if eq k k' then some v' else bucketFind k rest

end SockModel.Addr

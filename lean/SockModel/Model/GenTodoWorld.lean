import SockModel.Model.ToDos
import SockModel.Basic.GenEffects
/-
The ToDo model (`ToDos.St`: sorted list, clock, task bodies) as a `Gen.TodoWorld`, so that
`Driver::DriverImpl::StepTodos<Deadline>` as generated from the C++ source (Generated/Loops.lean) can be run against
the state the hand-written `ToDos.stepTodos` is defined on.  Hand-written, independent of /repo.

* `frontWhen` reads the due time of the first entry (the C++ code asserts that there is one; an empty list halts);
* `popFront` takes the first entry out of the list, makes it the current task and logs the model's ghost event
  `ran id when now rest seq` (`now` = the clock, which is what `deadline.now` holds at that point);
* `runTask` applies the body of the current task (`applyOp` over its `BodyOp`s, exactly as the model does: the body
  may reschedule, cancel, create ToDos and let time pass);
* `todosEmpty` / `clockNow` read the list / the clock; the socket calls of `World` do not occur (`halt`).
-/
namespace SockModel.GenWorld
open SockModel SockModel.ToDos SockModel.Deadline

structure TSt where
  st : ToDos.St
  cur : Option Entry       -- the task moved out of the front slot, until it has run

def todoWorld : Gen.TodoWorld TSt where
  doPoll _ := Gen.M.halt
  interrupted := Gen.M.halt
  clockNow w := (.ok w.st.now, w)
  send _ _ := Gen.M.halt
  recv _ := Gen.M.halt
  socketError := Gen.M.halt
  frontWhen w :=
    match w.st.todos with
    | [] => (.halted, w)
    | f :: _ => (.ok f.when, w)
  popFront w :=
    match w.st.todos with
    | [] => (.halted, w)
    | f :: rest =>
      (.ok (), { st := { w.st with todos := rest, log := .ran f.id f.when w.st.now rest f.seq :: w.st.log },
                 cur := some f })
  runTask w :=
    match w.cur with
    | none => (.halted, w)
    | some f => (.ok (), { st := (w.st.body f.id).foldl applyOp w.st, cur := none })
  todosEmpty w := (.ok w.st.todos.isEmpty, w)

theorem t_clockNow_eq (w : TSt) : todoWorld.toWorld.clockNow w = (.ok w.st.now, w) := rfl
theorem t_frontWhen_eq (w : TSt) :
    todoWorld.frontWhen w = match w.st.todos with | [] => (.halted, w) | f :: _ => (.ok f.when, w) := rfl
theorem t_popFront_eq (w : TSt) :
    todoWorld.popFront w = match w.st.todos with
      | [] => (.halted, w)
      | f :: rest =>
        (.ok (), { st := { w.st with todos := rest, log := .ran f.id f.when w.st.now rest f.seq :: w.st.log },
                   cur := some f }) := rfl
theorem t_runTask_eq (w : TSt) :
    todoWorld.runTask w = match w.cur with
      | none => (.halted, w)
      | some f => (.ok (), { st := (w.st.body f.id).foldl applyOp w.st, cur := none }) := rfl
theorem t_todosEmpty_eq (w : TSt) : todoWorld.todosEmpty w = (.ok w.st.todos.isEmpty, w) := rfl

/-- `ToDos.stepTodos` with the fuel made visible: `none` = the fuel ran out (where `stepTodos` logs `.fuel`) -/
def stepTodosO : Nat → Deadline → St → Option (Int × St)
  | 0, _, _ => none
  | fuel + 1, d, s =>
    match s.todos with
    | [] => some (d.remaining, s)
    | front :: rest =>
      if front.when - d.now > 0 then
        some (minDuration (front.when - d.now) d.remaining, s)
      else
        let s1 := { s with todos := rest, log := .ran front.id front.when d.now rest front.seq :: s.log }
        let s2 := (s.body front.id).foldl applyOp s1
        let d' := d.tick s2.now
        if s2.todos.isEmpty then some (d'.remaining, s2)
        else if d'.timeLeft then stepTodosO fuel d' s2
        else some (0, s2)

/-- whenever the fuel suffices, it is `stepTodos` -/
theorem stepTodosO_sound : ∀ (fuel : Nat) (d : Deadline) (s : St) (r : Int × St),
    stepTodosO fuel d s = some r → stepTodos fuel d s = r := by
  intro fuel
  induction fuel with
  | zero => intro d s r h; simp [stepTodosO] at h
  | succ n ih =>
    intro d s r h
    unfold stepTodosO at h
    unfold stepTodos
    cases hs : s.todos with
    | nil => simp only [hs] at h ⊢; exact Option.some.inj h
    | cons front rest =>
      simp only [hs] at h ⊢
      split at h
      · simp only [*, if_true]; exact Option.some.inj h
      · simp only [*, if_false]
        split at h
        · simp only [*, if_true]; exact Option.some.inj h
        · simp only [*, if_false]
          split at h
          · simp only [*, if_true]; exact ih _ _ _ h
          · simp only [*, if_false]; exact Option.some.inj h

end SockModel.GenWorld

import SockModel.Model.HsAsync
/-!
A driver-operated (asynchronous) endpoint of either role, with a send queue, paired with a polling synchronous peer.

Beyond `Model/HsAsync.lean` (readable tasks only) this needs the WRITABLE task (`DriverOnWritable` → `SendSome` →
`sendSomeWritable`) and the `POLLOUT` protocol of `DriverQuery`.  `prepWritable` keeps whatever `isReadable` the last
readable task left behind, so the reduction of the writable task to `Send(front, 0)` needs the fact that **a readable
task leaves `isReadable = false`** (part 1 below: `isReadable` is written only by `BioRead` - to `false` - and every
`ssl_read` of the reference engine performs at least one BIO read).
-/
namespace SockModel.Hs
open SockModel.Net SockModel.Tls

variable {σ ω : Type}

/-! ### part 1: who writes `isReadable` -/

theorem waitUnder_ir (W : World ω) (s : St σ ω) (d : Dir) : (waitUnder W s d).2.g.isReadable = s.g.isReadable := rfl

theorem handleError_ir (W : World ω) (s : St σ ω) (err : SslErr) :
    (handleError W s err).2.g.isReadable = s.g.isReadable := by
  cases err <;> rfl

theorem handleLastError_ir (W : World ω) (s : St σ ω) : (handleLastError W s).2.g.isReadable = s.g.isReadable := by
  have h := handleError_ir W s s.g.lastError
  unfold handleLastError
  split
  · rename_i s' heq; rw [heq] at h; exact h
  · exact h

theorem handleResult_ir (W : World ω) (s : St σ ω) (ans : SslAns) :
    (handleResult W s ans).2.g.isReadable = s.g.isReadable := by
  unfold handleResult
  split
  · rfl
  · exact handleLastError_ir W _

/-- `BioRead` always leaves `isReadable = false` -/
theorem bioRead_ir (W : World ω) (s : St σ ω) (n : Nat) : (bioRead W s n).2.g.isReadable = false := by
  unfold bioRead
  split
  · simp only
    cases recvNow W s.w n <;> rfl
  · rename_i h
    have h' : s.g.isReadable = false := by simpa using h
    simp only
    cases receive W s.w n s.g.remainingTime <;> exact h'

theorem noteWrite_ir (s : St σ ω) (bs : Bytes) (r : SendRes ω) (rem : Int) :
    (noteWrite s bs r rem).2.g.isReadable = s.g.isReadable := by
  unfold noteWrite; split <;> rfl

theorem bioWrite_ir (W : World ω) (s : St σ ω) (bs : Bytes) : (bioWrite W s bs).2.g.isReadable = s.g.isReadable := by
  unfold bioWrite
  split
  · rw [noteWrite_ir]
  · split
    · rw [noteWrite_ir]
    · split <;> rw [noteWrite_ir]

/-- once `false`, `isReadable` stays `false` through an engine call -/
theorem interp_ir (W : World ω) (prog : EngProg σ) : ∀ (s : St σ ω), s.g.isReadable = false →
    (interp W s prog).2.g.isReadable = false := by
  induction prog with
  | ret ans out e' => intro s h; exact h
  | bioRead n k ih =>
    intro s _
    have h1 := bioRead_ir W s n
    unfold interp
    split
    · rename_i bs s' heq; rw [heq] at h1; exact ih _ s' h1
    · rename_i e s' heq; rw [heq] at h1; exact ih _ (stash s' e) h1
    · rename_i m s' heq; rw [heq] at h1; exact h1
  | bioWrite bs k ih =>
    intro s h
    have h1 : (bioWrite W s bs).2.g.isReadable = false := by rw [bioWrite_ir]; exact h
    unfold interp
    split
    · rename_i n s' heq; rw [heq] at h1; exact ih _ s' h1
    · rename_i e s' heq; rw [heq] at h1; exact ih _ (stash s' e) h1
    · rename_i m s' heq; rw [heq] at h1; exact h1

theorem writeRetry_ir (C : Cfg) (W : World ω) (i' : Nat) (rest : Bytes) (s : St σ ω) (ans : SslAns)
    (h : s.g.isReadable = false) : (writeRetry C W i' rest s ans).2.g.isReadable = false := by
  have h1 : (handleResult W s ans).2.g.isReadable = false := by rw [handleResult_ir]; exact h
  unfold writeRetry
  split
  · rename_i e s3 heq; rw [heq] at h1; exact h1
  · rename_i m s3 heq; rw [heq] at h1; exact h1
  · rename_i s3 heq; rw [heq] at h1; exact h1
  · rename_i s3 heq; rw [heq] at h1; split <;> exact h1

theorem writeRound_ir (C : Cfg) (W : World ω) (E : Engine σ) (i' : Nat) (rest : Bytes) (s : St σ ω)
    (h : s.g.isReadable = false) : (writeRound C W E i' rest s).2.g.isReadable = false := by
  have h1 := interp_ir W (E.sslWrite s.e rest) s h
  unfold writeRound
  split
  · exact h
  · split
    · rename_i e s' heq; rw [heq] at h1; exact h1
    · rename_i m s' heq; rw [heq] at h1; exact h1
    · rename_i ans o s1 heq
      rw [heq] at h1
      cases ans with
      | done k =>
        simp only
        split
        · exact h1
        · split <;> exact h1
      | wantRead => exact writeRetry_ir C W i' rest _ _ h1
      | wantWrite => exact writeRetry_ir C W i' rest _ _ h1
      | zeroReturn => exact writeRetry_ir C W i' rest _ _ h1
      | syscallErr => exact writeRetry_ir C W i' rest _ _ h1
      | sslErr => exact writeRetry_ir C W i' rest _ _ h1

theorem writeLoop_ir (C : Cfg) (W : World ω) (E : Engine σ) (i : Nat) (rest : Bytes) (s : St σ ω)
    (h : s.g.isReadable = false) : (writeLoop C W E i rest s).2.g.isReadable = false :=
  writeLoop_rule C W E (fun _ _ s => s.g.isReadable = false) (fun _ s => s.g.isReadable = false)
    (fun _ _ _ h _ => h)
    (fun i' rest s o s' h _ heq => by have := writeRound_ir C W E i' rest s h; rw [heq] at this; exact this)
    (fun i' rest s j rest' s' h _ heq => by have := writeRound_ir C W E i' rest s h; rw [heq] at this; exact this)
    i rest s h

theorem tlsWrite_ir (C : Cfg) (W : World ω) (E : Engine σ) (s : St σ ω) (data : Bytes)
    (h : s.g.isReadable = false) : (tlsWrite C W E s data).2.g.isReadable = false := by
  have h1 : (handleLastError W s).2.g.isReadable = false := by rw [handleLastError_ir]; exact h
  unfold tlsWrite
  split
  · rename_i s' heq
    rw [heq] at h1
    have h2 := writeLoop_ir C W E C.stepsMax data s' h1
    split
    · rename_i r s'' heq2; rw [heq2] at h2; exact h2
    · rename_i e s'' heq2; rw [heq2] at h2; exact h2
    · rename_i m s'' heq2; rw [heq2] at h2; exact h2
  · rename_i s' heq; rw [heq] at h1; exact h1
  · rename_i e s' heq; rw [heq] at h1; exact h1
  · rename_i m s' heq; rw [heq] at h1; exact h1

/-- an engine call that begins with a BIO read ends with `isReadable = false`, whatever it was -/
theorem interp_bioRead_ir (W : World ω) (s : St σ ω) (n : Nat) (k : Option Bytes → EngProg σ) :
    (interp W s (.bioRead n k)).2.g.isReadable = false := by
  have h1 := bioRead_ir W s n
  unfold interp
  split
  · rename_i bs s' heq; rw [heq] at h1; exact interp_ir W _ s' h1
  · rename_i e s' heq; rw [heq] at h1; exact interp_ir W _ (stash s' e) h1
  · rename_i m s' heq; rw [heq] at h1; exact h1

theorem bioWrite_ok0 (r : Bool) (s : St σ Chan) (bs : Bytes) (h0 : s.g.remainingTime = 0) :
    ∃ s', bioWrite (chanWorld r) s bs = (.ok bs.length, s') ∧ s'.g.remainingTime = 0 := by
  rcases s with ⟨⟨le, ps, rt, ir, iw, dss, pe, wire, bw, ec⟩, e, w⟩
  simp only at h0
  subst h0
  cases iw <;> simp [bioWrite, sendNow_0, sendTry_0, noteWrite]

/-- **every `ssl_read` of the reference engine performs a BIO read** (on the healthy channel with budget 0), so it
leaves `isReadable = false` -/
theorem hsRun_clears (P : HsP) (r : Bool) (n : Nat) : ∀ (f : Nat) (h : Hs) (s : St Hs Chan), work P h < f → WF P h →
    s.g.remainingTime = 0 → (interp (chanWorld r) s (hsRun P f h (appRead n))).2.g.isReadable = false := by
  intro f
  induction f with
  | zero => intro h s hf; omega
  | succ f ih =>
    intro h s hf hw h0
    unfold hsRun
    by_cases hfin : 3 ≤ h.stage
    · rw [if_pos hfin]
      exact interp_bioRead_ir _ s n _
    · rw [if_neg hfin]
      have hs3 : h.stage < 3 := by omega
      by_cases hwr : h.writes = true
      · rw [if_pos hwr]
        obtain ⟨s1, e1, r1⟩ := bioWrite_ok0 r s (zeros h.need) h0
        rw [zeros_length] at e1
        obtain ⟨nwf, _, _, nwork, _, _⟩ := next_facts P h hw hs3
        simp only [interp, e1, Nat.le_refl, if_true]
        exact ih (h.next P) s1 (by omega) nwf r1
      · rw [if_neg hwr]
        exact interp_bioRead_ir _ s h.need _

theorem sslRead_clears (P : HsP) (r : Bool) (n : Nat) (s : St Hs Chan) (hw : WF P s.e) (h0 : s.g.remainingTime = 0) :
    (interp (chanWorld r) s ((engine P).sslRead s.e n)).2.g.isReadable = false :=
  hsRun_clears P r n (fuel P) s.e s (work_lt_fuel P s.e hw) hw h0

theorem readRound_ir_eq (C : Cfg) (W : World ω) (E : Engine σ) (size i : Nat) (s : St σ ω) :
    (readRound C W E size i s).2.g.isReadable = (interp W s (E.sslRead s.e size)).2.g.isReadable := by
  unfold readRound
  split
  · rename_i e s' heq; rw [heq]
  · rename_i m s' heq; rw [heq]
  · rename_i ans out s1 heq
    rw [heq]
    have hr := handleResult_ir W (noteCall E s1 true [] ans) ans
    cases ans with
    | done k => rfl
    | wantRead =>
      simp only
      split
      · rename_i e s2 h2; rw [h2] at hr; exact hr
      · rename_i m s2 h2; rw [h2] at hr; exact hr
      · rename_i s2 h2; rw [h2] at hr; exact hr
      · rename_i s2 h2; rw [h2] at hr; split <;> exact hr
    | wantWrite =>
      simp only
      split
      · rename_i e s2 h2; rw [h2] at hr; exact hr
      · rename_i m s2 h2; rw [h2] at hr; exact hr
      · rename_i s2 h2; rw [h2] at hr; exact hr
      · rename_i s2 h2; rw [h2] at hr; split <;> exact hr
    | zeroReturn =>
      simp only
      split
      · rename_i e s2 h2; rw [h2] at hr; exact hr
      · rename_i m s2 h2; rw [h2] at hr; exact hr
      · rename_i s2 h2; rw [h2] at hr; exact hr
      · rename_i s2 h2; rw [h2] at hr; split <;> exact hr
    | syscallErr =>
      simp only
      split
      · rename_i e s2 h2; rw [h2] at hr; exact hr
      · rename_i m s2 h2; rw [h2] at hr; exact hr
      · rename_i s2 h2; rw [h2] at hr; exact hr
      · rename_i s2 h2; rw [h2] at hr; split <;> exact hr
    | sslErr =>
      simp only
      split
      · rename_i e s2 h2; rw [h2] at hr; exact hr
      · rename_i m s2 h2; rw [h2] at hr; exact hr
      · rename_i s2 h2; rw [h2] at hr; exact hr
      · rename_i s2 h2; rw [h2] at hr; split <;> exact hr

theorem readLoop_ir (C : Cfg) (W : World ω) (E : Engine σ) (size : Nat) : ∀ (i : Nat) (s : St σ ω),
    s.g.isReadable = false → (readLoop C W E size i s).2.g.isReadable = false := by
  intro i
  induction i with
  | zero => intro s h; exact h
  | succ i ih =>
    intro s h
    have h1 : (readRound C W E size i s).2.g.isReadable = false := by
      rw [readRound_ir_eq]; exact interp_ir W _ s h
    simp only [readLoop]
    split
    · rename_i o s' heq; rw [heq] at h1; exact h1
    · rename_i s' heq; rw [heq] at h1; exact ih s' h1

/-- **a readable task leaves `isReadable = false`** -/
theorem receiveReadable_ir (C : Cfg) (hC : 0 < C.stepsMax) (P : HsP) (r : Bool) (rx : Nat) (s : St Hs Chan)
    (hw : WF P s.e) (hle : s.g.lastError = .none ∨ s.g.lastError = .wantRead) :
    (receiveReadable C (chanWorld r) (engine P) s rx).2.g.isReadable = false := by
  obtain ⟨i, hi1⟩ : ∃ i, C.stepsMax = i + 1 := ⟨C.stepsMax - 1, by omega⟩
  have hl0 : (prepReadable s).g.lastError = .none := by
    rcases hle with h | h <;> simp [prepReadable, h]
  have hgate : handleLastError (chanWorld r) (prepReadable s) = (.ok true, setLastError (prepReadable s) .none) := by
    simp [handleLastError, hl0, handleError]
  have key : (tlsRead C (chanWorld r) (engine P) (prepReadable s) rx).2.g.isReadable = false := by
    simp only [tlsRead, hgate, hi1, readLoop]
    have h1 : (readRound C (chanWorld r) (engine P) rx i (setLastError (prepReadable s) .none)).2.g.isReadable = false := by
      rw [readRound_ir_eq]
      exact sslRead_clears P r rx _ hw rfl
    split
    · rename_i o s' heq; rw [heq] at h1; exact h1
    · rename_i s' heq; rw [heq] at h1; exact readLoop_ir C _ _ rx i s' h1
  unfold receiveReadable
  split
  · rename_i s' heq
    rw [heq] at key
    split <;> exact key
  · rename_i r' hne
    exact key

/-! ### part 2: the writable task -/

/-- **`DriverOnWritable` with a queued buffer = `Send(front, 0)`**, given that no stale `isReadable` is around:
no exception, no assert; the engine only moves forward, strictly if it can progress; either the whole buffer is taken
(then the handshake is finished, nothing is cached, `pendingSend` is empty) or nothing of it (then WANT_READ is cached
and the buffer is remembered for the retry). -/
theorem sendSomeWritable_hs (C : Cfg) (hC : 1 < C.stepsMax) (P : HsP) (r : Bool) (buf : Bytes) (hb : buf ≠ [])
    (s : St Hs Chan) (hi : SideInv P r buf (nf s)) (hir : s.g.isReadable = false) :
    ∃ k s', sendSomeWritable C (chanWorld r) (engine P) s buf = (.ok k, s') ∧ SideInv P r buf (nf s') ∧
      Tr P r s.e s.w s'.e s'.w ∧ (CanProg r s.e s.w → work P s'.e < work P s.e) ∧ Tight (nf s') ∧
      s'.g.isReadable = false ∧
      ((k = buf.length ∧ 3 ≤ s'.e.stage ∧ s'.g.lastError = .none ∧ s'.g.pendingSend = []) ∨ k = 0) := by
  have hle : s.g.lastError ≠ .wantWrite := by
    have h6 : (nf s).g.lastError = .none ∨ (nf s).g.lastError = .wantRead := hi.2.2.2.2.2.1
    have : (nf s).g.lastError = s.g.lastError := rfl
    rw [this] at h6
    rcases h6 with h | h <;> rw [h] <;> simp
  have hfl : Fl r (prepWritable s) := ⟨rfl, fun h => by
    have : s.g.isReadable = true := h
    rw [hir] at this; cases this⟩
  obtain ⟨a, s1, hL, hR, _⟩ := (tlsWrite_fl C r (engine P) (prepWritable s) buf hfl).cases
  have hnf : nf (prepWritable s) = setTimeout (nf s) 0 := by
    rcases s with ⟨⟨le, ps, rt, ir, iw, dss, pe, wire, bw, ec⟩, e, w⟩
    simp only at hle
    simp [nf, prepWritable, setTimeout, hle]
  rw [hnf] at hR
  obtain ⟨k, s2, e2, side2, t2, g2, tight2, hk⟩ := tlsWrite_hs C hC P r buf hb (nf s) hi
  rw [e2] at hR
  obtain ⟨rfl, hs2⟩ := Prod.mk.inj hR
  have hir1 : s1.g.isReadable = false := by
    have := tlsWrite_ir C (chanWorld r) (engine P) (prepWritable s) buf hir
    rw [hL] at this; exact this
  refine ⟨k, s1, hL, by rw [← hs2]; exact side2, ?_, ?_, by rw [← hs2]; exact tight2, hir1, ?_⟩
  · have : Tr P r s.e s.w (nf s1).e (nf s1).w := by rw [← hs2]; exact t2
    exact this
  · intro h
    have : work P (nf s1).e < work P s.e := by rw [← hs2]; exact g2 h
    exact this
  · rcases hk with ⟨k1, k2, k3, k4⟩ | hk
    · left
      refine ⟨k1, ?_, ?_, ?_⟩
      · have : 3 ≤ (nf s1).e.stage := by rw [← hs2]; exact k2
        exact this
      · have : (nf s1).g.lastError = .none := by rw [← hs2]; exact k3
        exact this
      · have : (nf s1).g.pendingSend = [] := by rw [← hs2]; exact k4
        exact this
    · exact Or.inr hk

end SockModel.Hs

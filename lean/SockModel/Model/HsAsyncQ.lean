import SockModel.Model.HsAsync
/-!
A driver-operated (asynchronous) endpoint of either role, with a send queue, paired with a polling synchronous peer.

Beyond `Model/HsAsync.lean` (readable tasks only) this needs the WRITABLE task (`DriverOnWritable` → `SendSome` →
`sendSomeWritable`) and the `POLLOUT` protocol of `DriverQuery`.  `prepWritable` keeps whatever `isReadable` the last
readable task left behind, so the reduction of the writable task to `Send(front, 0)` needs the fact that **a readable
task leaves `isReadable = false`** (part 1 below: `isReadable` is written only by `BioRead` - to `false` - and every
`ssl_read` of the reference engine performs at least one BIO read).
-/
namespace SockModel.Hs
open SockModel.Net SockModel.Tls

variable {σ ω : Type}

/-! ### part 1: who writes `isReadable` -/

theorem waitUnder_ir (W : World ω) (s : St σ ω) (d : Dir) : (waitUnder W s d).2.g.isReadable = s.g.isReadable := rfl

theorem handleError_ir (W : World ω) (s : St σ ω) (err : SslErr) :
    (handleError W s err).2.g.isReadable = s.g.isReadable := by
  cases err <;> rfl

theorem handleLastError_ir (W : World ω) (s : St σ ω) : (handleLastError W s).2.g.isReadable = s.g.isReadable := by
  have h := handleError_ir W s s.g.lastError
  unfold handleLastError
  split
  · rename_i s' heq; rw [heq] at h; exact h
  · exact h

theorem handleResult_ir (W : World ω) (s : St σ ω) (ans : SslAns) :
    (handleResult W s ans).2.g.isReadable = s.g.isReadable := by
  unfold handleResult
  split
  · rfl
  · exact handleLastError_ir W _

/-- `BioRead` always leaves `isReadable = false` -/
theorem bioRead_ir (W : World ω) (s : St σ ω) (n : Nat) : (bioRead W s n).2.g.isReadable = false := by
  unfold bioRead
  split
  · simp only
    cases recvNow W s.w n <;> rfl
  · rename_i h
    have h' : s.g.isReadable = false := by simpa using h
    simp only
    cases receive W s.w n s.g.remainingTime <;> exact h'

theorem noteWrite_ir (s : St σ ω) (bs : Bytes) (r : SendRes ω) (rem : Int) :
    (noteWrite s bs r rem).2.g.isReadable = s.g.isReadable := by
  unfold noteWrite; split <;> rfl

theorem bioWrite_ir (W : World ω) (s : St σ ω) (bs : Bytes) : (bioWrite W s bs).2.g.isReadable = s.g.isReadable := by
  unfold bioWrite
  split
  · rw [noteWrite_ir]
  · split
    · rw [noteWrite_ir]
    · split <;> rw [noteWrite_ir]

/-- once `false`, `isReadable` stays `false` through an engine call -/
theorem interp_ir (W : World ω) (prog : EngProg σ) : ∀ (s : St σ ω), s.g.isReadable = false →
    (interp W s prog).2.g.isReadable = false := by
  induction prog with
  | ret ans out e' => intro s h; exact h
  | bioRead n k ih =>
    intro s _
    have h1 := bioRead_ir W s n
    unfold interp
    split
    · rename_i bs s' heq; rw [heq] at h1; exact ih _ s' h1
    · rename_i e s' heq; rw [heq] at h1; exact ih _ (stash s' e) h1
    · rename_i m s' heq; rw [heq] at h1; exact h1
  | bioWrite bs k ih =>
    intro s h
    have h1 : (bioWrite W s bs).2.g.isReadable = false := by rw [bioWrite_ir]; exact h
    unfold interp
    split
    · rename_i n s' heq; rw [heq] at h1; exact ih _ s' h1
    · rename_i e s' heq; rw [heq] at h1; exact ih _ (stash s' e) h1
    · rename_i m s' heq; rw [heq] at h1; exact h1

theorem writeRetry_ir (C : Cfg) (W : World ω) (i' : Nat) (rest : Bytes) (s : St σ ω) (ans : SslAns)
    (h : s.g.isReadable = false) : (writeRetry C W i' rest s ans).2.g.isReadable = false := by
  have h1 : (handleResult W s ans).2.g.isReadable = false := by rw [handleResult_ir]; exact h
  unfold writeRetry
  split
  · rename_i e s3 heq; rw [heq] at h1; exact h1
  · rename_i m s3 heq; rw [heq] at h1; exact h1
  · rename_i s3 heq; rw [heq] at h1; exact h1
  · rename_i s3 heq; rw [heq] at h1; split <;> exact h1

theorem writeRound_ir (C : Cfg) (W : World ω) (E : Engine σ) (i' : Nat) (rest : Bytes) (s : St σ ω)
    (h : s.g.isReadable = false) : (writeRound C W E i' rest s).2.g.isReadable = false := by
  have h1 := interp_ir W (E.sslWrite s.e rest) s h
  unfold writeRound
  split
  · exact h
  · split
    · rename_i e s' heq; rw [heq] at h1; exact h1
    · rename_i m s' heq; rw [heq] at h1; exact h1
    · rename_i ans o s1 heq
      rw [heq] at h1
      cases ans with
      | done k =>
        simp only
        split
        · exact h1
        · split <;> exact h1
      | wantRead => exact writeRetry_ir C W i' rest _ _ h1
      | wantWrite => exact writeRetry_ir C W i' rest _ _ h1
      | zeroReturn => exact writeRetry_ir C W i' rest _ _ h1
      | syscallErr => exact writeRetry_ir C W i' rest _ _ h1
      | sslErr => exact writeRetry_ir C W i' rest _ _ h1

theorem writeLoop_ir (C : Cfg) (W : World ω) (E : Engine σ) (i : Nat) (rest : Bytes) (s : St σ ω)
    (h : s.g.isReadable = false) : (writeLoop C W E i rest s).2.g.isReadable = false :=
  writeLoop_rule C W E (fun _ _ s => s.g.isReadable = false) (fun _ s => s.g.isReadable = false)
    (fun _ _ _ h _ => h)
    (fun i' rest s o s' h _ heq => by have := writeRound_ir C W E i' rest s h; rw [heq] at this; exact this)
    (fun i' rest s j rest' s' h _ heq => by have := writeRound_ir C W E i' rest s h; rw [heq] at this; exact this)
    i rest s h

theorem tlsWrite_ir (C : Cfg) (W : World ω) (E : Engine σ) (s : St σ ω) (data : Bytes)
    (h : s.g.isReadable = false) : (tlsWrite C W E s data).2.g.isReadable = false := by
  have h1 : (handleLastError W s).2.g.isReadable = false := by rw [handleLastError_ir]; exact h
  unfold tlsWrite
  split
  · rename_i s' heq
    rw [heq] at h1
    have h2 := writeLoop_ir C W E C.stepsMax data s' h1
    split
    · rename_i r s'' heq2; rw [heq2] at h2; exact h2
    · rename_i e s'' heq2; rw [heq2] at h2; exact h2
    · rename_i m s'' heq2; rw [heq2] at h2; exact h2
  · rename_i s' heq; rw [heq] at h1; exact h1
  · rename_i e s' heq; rw [heq] at h1; exact h1
  · rename_i m s' heq; rw [heq] at h1; exact h1

/-- an engine call that begins with a BIO read ends with `isReadable = false`, whatever it was -/
theorem interp_bioRead_ir (W : World ω) (s : St σ ω) (n : Nat) (k : Option Bytes → EngProg σ) :
    (interp W s (.bioRead n k)).2.g.isReadable = false := by
  have h1 := bioRead_ir W s n
  unfold interp
  split
  · rename_i bs s' heq; rw [heq] at h1; exact interp_ir W _ s' h1
  · rename_i e s' heq; rw [heq] at h1; exact interp_ir W _ (stash s' e) h1
  · rename_i m s' heq; rw [heq] at h1; exact h1

theorem bioWrite_ok0 (r : Bool) (s : St σ Chan) (bs : Bytes) (h0 : s.g.remainingTime = 0) :
    ∃ s', bioWrite (chanWorld r) s bs = (.ok bs.length, s') ∧ s'.g.remainingTime = 0 := by
  rcases s with ⟨⟨le, ps, rt, ir, iw, dss, pe, wire, bw, ec⟩, e, w⟩
  simp only at h0
  subst h0
  cases iw <;> simp [bioWrite, sendNow_0, sendTry_0, noteWrite]

/-- **every `ssl_read` of the reference engine performs a BIO read** (on the healthy channel with budget 0), so it
leaves `isReadable = false` -/
theorem hsRun_clears (P : HsP) (r : Bool) (n : Nat) : ∀ (f : Nat) (h : Hs) (s : St Hs Chan), work P h < f → WF P h →
    s.g.remainingTime = 0 → (interp (chanWorld r) s (hsRun P f h (appRead n))).2.g.isReadable = false := by
  intro f
  induction f with
  | zero => intro h s hf; omega
  | succ f ih =>
    intro h s hf hw h0
    unfold hsRun
    by_cases hfin : 3 ≤ h.stage
    · rw [if_pos hfin]
      exact interp_bioRead_ir _ s n _
    · rw [if_neg hfin]
      have hs3 : h.stage < 3 := by omega
      by_cases hwr : h.writes = true
      · rw [if_pos hwr]
        obtain ⟨s1, e1, r1⟩ := bioWrite_ok0 r s (zeros h.need) h0
        rw [zeros_length] at e1
        obtain ⟨nwf, _, _, nwork, _, _⟩ := next_facts P h hw hs3
        simp only [interp, e1, Nat.le_refl, if_true]
        exact ih (h.next P) s1 (by omega) nwf r1
      · rw [if_neg hwr]
        exact interp_bioRead_ir _ s h.need _

theorem sslRead_clears (P : HsP) (r : Bool) (n : Nat) (s : St Hs Chan) (hw : WF P s.e) (h0 : s.g.remainingTime = 0) :
    (interp (chanWorld r) s ((engine P).sslRead s.e n)).2.g.isReadable = false :=
  hsRun_clears P r n (fuel P) s.e s (work_lt_fuel P s.e hw) hw h0

theorem readRound_ir_eq (C : Cfg) (W : World ω) (E : Engine σ) (size i : Nat) (s : St σ ω) :
    (readRound C W E size i s).2.g.isReadable = (interp W s (E.sslRead s.e size)).2.g.isReadable := by
  unfold readRound
  split
  · rename_i e s' heq; rw [heq]
  · rename_i m s' heq; rw [heq]
  · rename_i ans out s1 heq
    rw [heq]
    have hr := handleResult_ir W (noteCall E s1 true [] ans) ans
    cases ans with
    | done k => rfl
    | wantRead =>
      simp only
      split
      · rename_i e s2 h2; rw [h2] at hr; exact hr
      · rename_i m s2 h2; rw [h2] at hr; exact hr
      · rename_i s2 h2; rw [h2] at hr; exact hr
      · rename_i s2 h2; rw [h2] at hr; split <;> exact hr
    | wantWrite =>
      simp only
      split
      · rename_i e s2 h2; rw [h2] at hr; exact hr
      · rename_i m s2 h2; rw [h2] at hr; exact hr
      · rename_i s2 h2; rw [h2] at hr; exact hr
      · rename_i s2 h2; rw [h2] at hr; split <;> exact hr
    | zeroReturn =>
      simp only
      split
      · rename_i e s2 h2; rw [h2] at hr; exact hr
      · rename_i m s2 h2; rw [h2] at hr; exact hr
      · rename_i s2 h2; rw [h2] at hr; exact hr
      · rename_i s2 h2; rw [h2] at hr; split <;> exact hr
    | syscallErr =>
      simp only
      split
      · rename_i e s2 h2; rw [h2] at hr; exact hr
      · rename_i m s2 h2; rw [h2] at hr; exact hr
      · rename_i s2 h2; rw [h2] at hr; exact hr
      · rename_i s2 h2; rw [h2] at hr; split <;> exact hr
    | sslErr =>
      simp only
      split
      · rename_i e s2 h2; rw [h2] at hr; exact hr
      · rename_i m s2 h2; rw [h2] at hr; exact hr
      · rename_i s2 h2; rw [h2] at hr; exact hr
      · rename_i s2 h2; rw [h2] at hr; split <;> exact hr

theorem readLoop_ir (C : Cfg) (W : World ω) (E : Engine σ) (size : Nat) : ∀ (i : Nat) (s : St σ ω),
    s.g.isReadable = false → (readLoop C W E size i s).2.g.isReadable = false := by
  intro i
  induction i with
  | zero => intro s h; exact h
  | succ i ih =>
    intro s h
    have h1 : (readRound C W E size i s).2.g.isReadable = false := by
      rw [readRound_ir_eq]; exact interp_ir W _ s h
    simp only [readLoop]
    split
    · rename_i o s' heq; rw [heq] at h1; exact h1
    · rename_i s' heq; rw [heq] at h1; exact ih s' h1

/-- **a readable task leaves `isReadable = false`** -/
theorem receiveReadable_ir (C : Cfg) (hC : 0 < C.stepsMax) (P : HsP) (r : Bool) (rx : Nat) (s : St Hs Chan)
    (hw : WF P s.e) (hle : s.g.lastError = .none ∨ s.g.lastError = .wantRead) :
    (receiveReadable C (chanWorld r) (engine P) s rx).2.g.isReadable = false := by
  obtain ⟨i, hi1⟩ : ∃ i, C.stepsMax = i + 1 := ⟨C.stepsMax - 1, by omega⟩
  have hl0 : (prepReadable s).g.lastError = .none := by
    rcases hle with h | h <;> simp [prepReadable, h]
  have hgate : handleLastError (chanWorld r) (prepReadable s) = (.ok true, setLastError (prepReadable s) .none) := by
    simp [handleLastError, hl0, handleError]
  have key : (tlsRead C (chanWorld r) (engine P) (prepReadable s) rx).2.g.isReadable = false := by
    simp only [tlsRead, hgate, hi1, readLoop]
    have h1 : (readRound C (chanWorld r) (engine P) rx i (setLastError (prepReadable s) .none)).2.g.isReadable = false := by
      rw [readRound_ir_eq]
      exact sslRead_clears P r rx _ hw rfl
    split
    · rename_i o s' heq; rw [heq] at h1; exact h1
    · rename_i s' heq; rw [heq] at h1; exact readLoop_ir C _ _ rx i s' h1
  unfold receiveReadable
  split
  · rename_i s' heq
    rw [heq] at key
    split <;> exact key
  · rename_i r' hne
    exact key

/-! ### part 2: the writable task -/

/-- **`DriverOnWritable` with a queued buffer = `Send(front, 0)`**, given that no stale `isReadable` is around:
no exception, no assert; the engine only moves forward, strictly if it can progress; either the whole buffer is taken
(then the handshake is finished, nothing is cached, `pendingSend` is empty) or nothing of it (then WANT_READ is cached
and the buffer is remembered for the retry). -/
theorem sendSomeWritable_hs (C : Cfg) (hC : 1 < C.stepsMax) (P : HsP) (r : Bool) (buf : Bytes) (hb : buf ≠ [])
    (s : St Hs Chan) (hi : SideInv P r buf (nf s)) (hir : s.g.isReadable = false) :
    ∃ k s', sendSomeWritable C (chanWorld r) (engine P) s buf = (.ok k, s') ∧ SideInv P r buf (nf s') ∧
      Tr P r s.e s.w s'.e s'.w ∧ (CanProg r s.e s.w → work P s'.e < work P s.e) ∧ Tight (nf s') ∧
      s'.g.isReadable = false ∧
      ((k = buf.length ∧ 3 ≤ s'.e.stage ∧ s'.g.lastError = .none ∧ s'.g.pendingSend = []) ∨ k = 0) := by
  have hle : s.g.lastError ≠ .wantWrite := by
    have h6 : (nf s).g.lastError = .none ∨ (nf s).g.lastError = .wantRead := hi.2.2.2.2.2.1
    have : (nf s).g.lastError = s.g.lastError := rfl
    rw [this] at h6
    rcases h6 with h | h <;> rw [h] <;> simp
  have hfl : Fl r (prepWritable s) := ⟨rfl, fun h => by
    have : s.g.isReadable = true := h
    rw [hir] at this; cases this⟩
  obtain ⟨a, s1, hL, hR, _⟩ := (tlsWrite_fl C r (engine P) (prepWritable s) buf hfl).cases
  have hnf : nf (prepWritable s) = setTimeout (nf s) 0 := by
    rcases s with ⟨⟨le, ps, rt, ir, iw, dss, pe, wire, bw, ec⟩, e, w⟩
    simp only at hle
    simp [nf, prepWritable, setTimeout, hle]
  rw [hnf] at hR
  obtain ⟨k, s2, e2, side2, t2, g2, tight2, hk⟩ := tlsWrite_hs C hC P r buf hb (nf s) hi
  rw [e2] at hR
  obtain ⟨rfl, hs2⟩ := Prod.mk.inj hR
  have hir1 : s1.g.isReadable = false := by
    have := tlsWrite_ir C (chanWorld r) (engine P) (prepWritable s) buf hir
    rw [hL] at this; exact this
  refine ⟨k, s1, hL, by rw [← hs2]; exact side2, ?_, ?_, by rw [← hs2]; exact tight2, hir1, ?_⟩
  · have : Tr P r s.e s.w (nf s1).e (nf s1).w := by rw [← hs2]; exact t2
    exact this
  · intro h
    have : work P (nf s1).e < work P s.e := by rw [← hs2]; exact g2 h
    exact this
  · rcases hk with ⟨k1, k2, k3, k4⟩ | hk
    · left
      refine ⟨k1, ?_, ?_, ?_⟩
      · have : 3 ≤ (nf s1).e.stage := by rw [← hs2]; exact k2
        exact this
      · have : (nf s1).g.lastError = .none := by rw [← hs2]; exact k3
        exact this
      · have : (nf s1).g.pendingSend = [] := by rw [← hs2]; exact k4
        exact this
    · exact Or.inr hk

/-! ### part 3: an asynchronous endpoint of role `u` with a send queue, and a polling synchronous peer -/

structure SysAG where
  /-- the asynchronous endpoint: driver-side state, TLS glue, engine; `x.s.w` are the channels -/
  x : ASt Hs Chan
  /-- the polling peer -/
  gp : Glue := {}
  ep : Hs
  faults : Nat := 0

/-- `drive` = one `Driver::Step`; `enq buf` = the user calls `Send(buffer)` on the asynchronous socket;
`peer k` = the peer calls `Send(payload, 0)` / `Receive(n, 0)` -/
inductive ActG where
  | drive
  | enq (buf : Bytes)
  | peer (k : Kind)
  deriving DecidableEq, Repr

def SysAG.rev (u : Bool) (y : SysAG) : REvents := { rd := decide (0 < y.x.s.w.inb u), wr := true, hupErr := false }

def SysAG.pw (y : SysAG) : PeerW := ⟨y.x.s.w, y.gp, y.ep, [], y.faults⟩

def SysAG.step (C : Cfg) (P : HsP) (u : Bool) (dc ds : Bytes) (rx : Nat) (y : SysAG) : ActG → SysAG
  | .drive =>
    let r := aTask C (chanWorld u) (engine P) rx (aQuery (engine P) y.x) (y.rev u)
    { y with x := r.2, faults := y.faults + (if isOk r.1 then 0 else 1) }
  | .enq buf => { y with x := enqueue y.x buf }
  | .peer k =>
    { y with gp := (y.pw.poll C P u dc ds k).g, ep := (y.pw.poll C P u dc ds k).e,
             x := { y.x with s := { y.x.s with w := (y.pw.poll C P u dc ds k).ch } },
             faults := (y.pw.poll C P u dc ds k).faults }

theorem driveG_is_aApply (C : Cfg) (P : HsP) (u : Bool) (dc ds : Bytes) (rx : Nat) (y : SysAG) :
    (y.step C P u dc ds rx .drive).x = aApply C (chanWorld u) (engine P) rx y.x (.step (y.rev u)) := rfl

theorem enqG_is_aApply (C : Cfg) (P : HsP) (u : Bool) (dc ds : Bytes) (rx : Nat) (y : SysAG) (buf : Bytes) :
    (y.step C P u dc ds rx (.enq buf)).x = aApply C (chanWorld u) (engine P) rx y.x (.enq buf) := rfl

/-- the initial state: `q` = the buffers already queued (`AsyncWantSend` has set `POLLOUT` if there are any) -/
def SysAG.init (P : HsP) (u : Bool) (segs : List Nat) (q : List Bytes) : SysAG :=
  { x := { a := { sendQ := q, pollOut := !q.isEmpty }, s := ⟨{}, Hs.init P u, { segs := segs }⟩ }, ep := Hs.init P (!u) }

def SysAG.run (C : Cfg) (P : HsP) (u : Bool) (dc ds : Bytes) (rx : Nat) (l : List ActG) (y : SysAG) : SysAG :=
  l.foldl (SysAG.step C P u dc ds rx) y

def SysAG.bothFinished (y : SysAG) : Prop := 3 ≤ y.x.s.e.stage ∧ 3 ≤ y.ep.stage

def ActG.okG : ActG → Prop
  | .drive => True
  | .enq buf => buf ≠ []
  | .peer k => k.ok

instance (a : ActG) : Decidable a.okG := by
  cases a <;> unfold ActG.okG <;> exact inferInstance

/-- the glue without flags and without the remembered retry buffer -/
def nfp (s : St Hs Chan) : St Hs Chan :=
  { s with g := { s.g with isReadable := false, isWritable := false, pendingSend := [] } }

def SysAG.sys (u : Bool) (y : SysAG) : Sys := mkSys u (nfp y.x.s).g y.x.s.e y.pw

/-- the state between steps -/
structure GInv (P : HsP) (u : Bool) (dc ds : Bytes) (y : SysAG) : Prop where
  inv : SysInv P dc ds (y.sys u)
  ir : y.x.s.g.isReadable = false
  reg : y.x.a.registered = true
  /-- `Armed` (Props/C18.lean, `pollout_protocol`) -/
  armed : y.x.a.sendQ ≠ [] → (y.x.a.pollOut = true ∨ y.x.s.g.driverSendSuppressed = true)
  armed' : (y.x.a.pollOut = true ∨ y.x.s.g.driverSendSuppressed = true) → y.x.a.sendQ ≠ []
  excl : ¬ (y.x.a.pollOut = true ∧ y.x.s.g.driverSendSuppressed = true)
  /-- an unfinished engine is waiting for a flight and the glue knows it - or has not been touched yet -/
  tight : y.x.s.e.stage < 3 → y.x.s.g.lastError = .wantRead ∨
    (y.x.s.e = Hs.init P u ∧ y.x.s.g.lastError = .none ∧ y.x.s.g.driverSendSuppressed = false)
  /-- an asynchronous CLIENT has something to send until its handshake is done (else it would never start) -/
  fed : u = true → y.x.s.e.stage < 3 → y.x.a.sendQ ≠ []
  pend : y.x.s.g.pendingSend = [] ∨ ∃ rest, y.x.a.sendQ = y.x.s.g.pendingSend :: rest
  qne : ∀ b ∈ y.x.a.sendQ, b ≠ []

theorem sideInv_repend (P : HsP) (r : Bool) (d d' : Bytes) (g : Glue) (e : Hs) (w w' : Chan) (p : Bytes)
    (h : SideInv P r d ⟨g, e, w⟩) (hp : p = [] ∨ p = d') : SideInv P r d' ⟨{ g with pendingSend := p }, e, w'⟩ := by
  obtain ⟨h1, h2, h3, h4, h5, h6, h7, _⟩ := h
  exact ⟨h1, h2, h3, h4, h5, h6, h7, hp⟩

theorem sysInv_side (P : HsP) (u : Bool) (dc ds : Bytes) (g : Glue) (h : Hs) (w : PeerW)
    (hinv : SysInv P dc ds (mkSys u g h w)) : SideInv P u (ownPay u dc ds) ⟨g, h, w.ch⟩ := by
  cases u with
  | true => have := hinv.1; simpa [mkSys, ownPay] using this
  | false => have := hinv.2.1; simpa [mkSys, ownPay] using this

/-- the side invariant of the asynchronous endpoint, for the buffer `d` it is about to send -/
theorem GInv.side {P : HsP} {u : Bool} {dc ds : Bytes} {y : SysAG} (hy : GInv P u dc ds y) (d : Bytes)
    (hd : y.x.s.g.pendingSend = [] ∨ y.x.s.g.pendingSend = d) : SideInv P u d (nf y.x.s) := by
  have h := sysInv_side P u dc ds _ _ _ hy.inv
  exact sideInv_repend P u _ d (nfp y.x.s).g y.x.s.e y.x.s.w y.x.s.w y.x.s.g.pendingSend h hd

/-- the invariant of the composition after a move of the asynchronous side -/
theorem sys_upd (P : HsP) (u : Bool) (dc ds : Bytes) (y : SysAG) (hy : SysInv P dc ds (y.sys u)) (d : Bytes)
    (s' : St Hs Chan) (hside : SideInv P u d (nf s')) (ht : Tr P u y.x.s.e y.x.s.w s'.e s'.w) (a' : Async)
    (f : Nat) (hf : f = y.faults) :
    SysInv P dc ds (SysAG.sys u { y with x := ⟨a', s'⟩, faults := f }) := by
  subst hf
  have hside' : SideInv P u (ownPay u dc ds) ⟨(nfp s').g, s'.e, s'.w⟩ :=
    sideInv_repend P u d _ (nf s').g s'.e s'.w s'.w [] hside (Or.inl rfl)
  exact sysInv_upd P u dc ds (nfp y.x.s).g (nfp s').g y.x.s.e s'.e y.pw s'.w hy hside' ht

/-- `DriverQuery` touches the `POLLOUT` bit and `driverSendSuppressed` only -/
def requery (x : ASt Hs Chan) (po sup : Bool) : ASt Hs Chan :=
  { a := { x.a with pollOut := po }, s := { x.s with g := { x.s.g with driverSendSuppressed := sup } } }

theorem aQuery_cases (P : HsP) (x : ASt Hs Chan) (hreg : x.a.registered = true)
    (hle : x.s.g.lastError = .none ∨ x.s.g.lastError = .wantRead) :
    ∃ po sup, aQuery (engine P) x = requery x po sup ∧
      ((x.s.e.stage < 3 ∧ x.s.g.lastError = .wantRead ∧ po = false ∧ sup = (x.s.g.driverSendSuppressed || x.a.pollOut)) ∨
       (x.s.e.stage < 3 ∧ x.s.g.lastError = .none ∧ po = x.a.pollOut ∧ sup = x.s.g.driverSendSuppressed) ∨
       (3 ≤ x.s.e.stage ∧ x.s.g.driverSendSuppressed = true ∧ po = true ∧ sup = false) ∨
       (3 ≤ x.s.e.stage ∧ x.s.g.driverSendSuppressed = false ∧ po = x.a.pollOut ∧ sup = false)) := by
  rcases x with ⟨⟨sendQ, po0, reg, fut, del, disc⟩, ⟨⟨le, ps, rt, ir, iw, dss, pe, wire, bw, ec⟩, e, w⟩⟩
  simp only at hreg hle
  subst hreg
  by_cases hfin : 3 ≤ e.stage
  · have hi : (engine P).initFinished e = true := by simp [engine, hfin]
    cases dss with
    | true => exact ⟨true, false, by simp [aQuery, driverQuery, hi, requery], Or.inr (Or.inr (Or.inl ⟨hfin, rfl, rfl, rfl⟩))⟩
    | false =>
      exact ⟨po0, false, by simp [aQuery, driverQuery, hi, requery], Or.inr (Or.inr (Or.inr ⟨hfin, rfl, rfl, rfl⟩))⟩
  · have hi : (engine P).initFinished e = false := by simp [engine]; omega
    have hlt : e.stage < 3 := by omega
    rcases hle with h | h
    · subst h
      exact ⟨po0, dss, by simp [aQuery, driverQuery, hi, requery], Or.inr (Or.inl ⟨hlt, rfl, rfl, rfl⟩)⟩
    · subst h
      exact ⟨false, dss || po0, by simp [aQuery, driverQuery, hi, requery], Or.inl ⟨hlt, rfl, rfl, rfl⟩⟩

/-- the part of a driver step after `DriverQuery` -/
def SysAG.task (C : Cfg) (P : HsP) (u : Bool) (rx : Nat) (y : SysAG) : SysAG :=
  { y with x := (aTask C (chanWorld u) (engine P) rx y.x (y.rev u)).2,
           faults := y.faults + (if isOk (aTask C (chanWorld u) (engine P) rx y.x (y.rev u)).1 then 0 else 1) }

theorem drive_eq_task (C : Cfg) (P : HsP) (u : Bool) (dc ds : Bytes) (rx : Nat) (y : SysAG) (po sup : Bool)
    (hq : aQuery (engine P) y.x = requery y.x po sup) :
    y.step C P u dc ds rx .drive = SysAG.task C P u rx { y with x := requery y.x po sup } := by
  simp only [SysAG.step, SysAG.task, hq]
  rfl

theorem GInv.lastErr {P : HsP} {u : Bool} {dc ds : Bytes} {y : SysAG} (hy : GInv P u dc ds y) :
    y.x.s.g.lastError = .none ∨ y.x.s.g.lastError = .wantRead :=
  (sysInv_side P u dc ds _ _ _ hy.inv).2.2.2.2.2.1

theorem GInv.reads {P : HsP} {u : Bool} {dc ds : Bytes} {y : SysAG} (hy : GInv P u dc ds y) :
    y.x.s.g.lastError = .wantRead → y.x.s.e.stage < 3 → y.x.s.e.writes = false :=
  (sysInv_side P u dc ds _ _ _ hy.inv).2.2.2.2.2.2.1

theorem GInv.wf {P : HsP} {u : Bool} {dc ds : Bytes} {y : SysAG} (hy : GInv P u dc ds y) : WF P y.x.s.e :=
  (sysInv_side P u dc ds _ _ _ hy.inv).2.2.2.2.1

/-- `DriverQuery` keeps the invariant; and if the endpoint can progress but nothing is readable, it leaves `POLLOUT`
requested -/
theorem requery_inv (P : HsP) (u : Bool) (dc ds : Bytes) (y : SysAG) (hy : GInv P u dc ds y) (po sup : Bool)
    (hcase : (y.x.s.e.stage < 3 ∧ y.x.s.g.lastError = .wantRead ∧ po = false ∧ sup = (y.x.s.g.driverSendSuppressed || y.x.a.pollOut)) ∨
       (y.x.s.e.stage < 3 ∧ y.x.s.g.lastError = .none ∧ po = y.x.a.pollOut ∧ sup = y.x.s.g.driverSendSuppressed) ∨
       (3 ≤ y.x.s.e.stage ∧ y.x.s.g.driverSendSuppressed = true ∧ po = true ∧ sup = false) ∨
       (3 ≤ y.x.s.e.stage ∧ y.x.s.g.driverSendSuppressed = false ∧ po = y.x.a.pollOut ∧ sup = false)) :
    GInv P u dc ds { y with x := requery y.x po sup } ∧
    (CanProg u y.x.s.e y.x.s.w → y.x.s.w.inb u = 0 → po = true) := by
  have hside := hy.side y.x.s.g.pendingSend (Or.inr rfl)
  have hinv : SysInv P dc ds (SysAG.sys u { y with x := requery y.x po sup }) :=
    sys_upd P u dc ds y hy.inv y.x.s.g.pendingSend (requery y.x po sup).s hside
      (Tr.refl P u y.x.s.e y.x.s.w hy.wf) (requery y.x po sup).a y.faults rfl
  have harm := hy.armed; have harm' := hy.armed'; have hex := hy.excl; have htight := hy.tight
  have hfed := hy.fed
  refine ⟨⟨hinv, hy.ir, hy.reg, ?_, ?_, ?_, ?_, hy.fed, hy.pend, hy.qne⟩, ?_⟩
  · show y.x.a.sendQ ≠ [] → (po = true ∨ sup = true)
    intro hne
    rcases hcase with ⟨_, _, h3, h4⟩ | ⟨_, _, h3, h4⟩ | ⟨_, _, h3, h4⟩ | ⟨_, h2, h3, h4⟩
    · right; rw [h4]; rcases harm hne with h | h <;> simp [h]
    · rw [h3, h4]; exact harm hne
    · left; exact h3
    · rw [h3]; rcases harm hne with h | h
      · exact Or.inl h
      · rw [h2] at h; cases h
  · show (po = true ∨ sup = true) → y.x.a.sendQ ≠ []
    intro hor
    rcases hcase with ⟨_, _, h3, h4⟩ | ⟨_, _, h3, h4⟩ | ⟨_, h2, h3, h4⟩ | ⟨_, h2, h3, h4⟩
    · rcases hor with h | h
      · rw [h3] at h; cases h
      · rw [h4] at h
        rcases Bool.or_eq_true_iff.mp h with h | h
        · exact harm' (Or.inr h)
        · exact harm' (Or.inl h)
    · rw [h3, h4] at hor; exact harm' hor
    · exact harm' (Or.inr h2)
    · rcases hor with h | h
      · rw [h3] at h; exact harm' (Or.inl h)
      · rw [h4] at h; cases h
  · show ¬ (po = true ∧ sup = true)
    rintro ⟨hp, hs⟩
    rcases hcase with ⟨_, _, h3, h4⟩ | ⟨_, _, h3, h4⟩ | ⟨_, _, h3, h4⟩ | ⟨_, _, h3, h4⟩
    · rw [h3] at hp; cases hp
    · rw [h3] at hp; rw [h4] at hs; exact hex ⟨hp, hs⟩
    · rw [h4] at hs; cases hs
    · rw [h4] at hs; cases hs
  · show y.x.s.e.stage < 3 → y.x.s.g.lastError = .wantRead ∨
      (y.x.s.e = Hs.init P u ∧ y.x.s.g.lastError = .none ∧ sup = false)
    intro hlt
    rcases hcase with ⟨_, h2, _, _⟩ | ⟨_, h2, _, h4⟩ | ⟨h1, _, _, _⟩ | ⟨h1, _, _, _⟩
    · exact Or.inl h2
    · rcases htight hlt with h | ⟨a, b, c⟩
      · rw [h2] at h; cases h
      · exact Or.inr ⟨a, b, by rw [h4]; exact c⟩
    · omega
    · omega
  · intro hcp hin
    obtain ⟨hlt, hor⟩ := hcp
    have hwr : y.x.s.e.writes = true := by
      rcases hor with h | h
      · exact h
      · omega
    rcases htight hlt with hl | ⟨he, hl, hs⟩
    · have := hy.reads hl hlt; rw [this] at hwr; cases hwr
    · have hu : u = true := by
        rw [he] at hwr
        simpa [Hs.init, Hs.writes] using hwr
      have hne := hfed hu hlt
      have hpo : y.x.a.pollOut = true := by
        rcases harm hne with h | h
        · exact h
        · rw [hs] at h; cases h
      rcases hcase with ⟨_, h2, _, _⟩ | ⟨_, _, h3, _⟩ | ⟨h1, _, _, _⟩ | ⟨h1, _, _, _⟩
      · rw [hl] at h2; cases h2
      · rw [h3]; exact hpo
      · omega
      · omega

theorem supFrameG (r : Bool) (b : Bool) : Frame (chanWorld r) (fun s : St Hs Chan => s.g.driverSendSuppressed = b) where
  core := fun h hc => hc.2.2.2.trans h
  wait := fun _ _ h => h
  bioRead := by intro s n h; rw [(bioRead_core (W := chanWorld r) s n).2.2.1]; exact h
  bioWrite := by intro s bs h; rw [(bioWrite_ctl (W := chanWorld r) s bs).1.2.2.2]; exact h

/-- what a driver task does to the composition -/
structure TaskRes (P : HsP) (u : Bool) (dc ds : Bytes) (y y' : SysAG) : Prop where
  inv : GInv P u dc ds y'
  ep : y'.ep = y.ep
  wk : work P y'.x.s.e ≤ work P y.x.s.e
  out : y.x.s.w.out u ≤ y'.x.s.w.out u
  st : y.x.s.e.stage ≤ y'.x.s.e.stage

theorem task_spec (C : Cfg) (hC : 1 < C.stepsMax) (P : HsP) (u : Bool) (dc ds : Bytes) (rx : Nat) (hrx : 1 ≤ rx)
    (y : SysAG) (hy : GInv P u dc ds y) :
    TaskRes P u dc ds y (SysAG.task C P u rx y) ∧
    (CanProg u y.x.s.e y.x.s.w → (0 < y.x.s.w.inb u ∨ y.x.a.pollOut = true) →
      work P (SysAG.task C P u rx y).x.s.e < work P y.x.s.e) := by
  by_cases hin : 0 < y.x.s.w.inb u
  · -- the readable task
    have hside := hy.side y.x.s.g.pendingSend (Or.inr rfl)
    obtain ⟨bs, s', e1, side1, t1, g1, tight1, _⟩ :=
      receiveReadable_hs C (by omega) P u y.x.s.g.pendingSend rx hrx y.x.s hside hin
    have hsup' : s'.g.driverSendSuppressed = y.x.s.g.driverSendSuppressed := by
      have := (supFrameG u y.x.s.g.driverSendSuppressed).receiveReadable C (engine P) y.x.s rx rfl
      rw [e1] at this; exact this
    have hir' : s'.g.isReadable = false := by
      have := receiveReadable_ir C (by omega) P u rx y.x.s hy.wf hy.lastErr
      rw [e1] at this; exact this
    have htask0 : aTask C (chanWorld u) (engine P) rx y.x (y.rev u) = aReadable C (chanWorld u) (engine P) rx y.x := by
      simp [aTask, hy.reg, SysAG.rev, hin]
    have htask : ∃ a', aTask C (chanWorld u) (engine P) rx y.x (y.rev u) = (.ok (), ⟨a', s'⟩) ∧
        a'.pollOut = y.x.a.pollOut ∧ a'.registered = y.x.a.registered ∧ a'.sendQ = y.x.a.sendQ := by
      rw [htask0]
      simp only [aReadable, e1]
      cases bs with
      | nil => exact ⟨_, rfl, rfl, rfl, rfl⟩
      | cons b t => exact ⟨_, rfl, rfl, rfl, rfl⟩
    obtain ⟨a', ht, hpo', hreg', hq'⟩ := htask
    have hstep : SysAG.task C P u rx y = { y with x := ⟨a', s'⟩, faults := y.faults + 0 } := by
      simp only [SysAG.task, ht, isOk, if_true]
    rw [hstep]
    have hpend' : s'.g.pendingSend = [] ∨ s'.g.pendingSend = y.x.s.g.pendingSend := side1.2.2.2.2.2.2.2
    refine ⟨⟨⟨sys_upd P u dc ds y hy.inv _ s' side1 t1 a' _ rfl, hir', by rw [← hy.reg]; exact hreg', ?_, ?_, ?_, ?_, ?_,
      ?_, ?_⟩, rfl, t1.wk, t1.outLe, t1.st⟩, fun hcp _ => g1 hcp⟩
    · show a'.sendQ ≠ [] → (a'.pollOut = true ∨ s'.g.driverSendSuppressed = true)
      rw [hq', hpo', hsup']; exact hy.armed
    · show (a'.pollOut = true ∨ s'.g.driverSendSuppressed = true) → a'.sendQ ≠ []
      rw [hq', hpo', hsup']; exact hy.armed'
    · show ¬ (a'.pollOut = true ∧ s'.g.driverSendSuppressed = true)
      rw [hpo', hsup']; exact hy.excl
    · intro hlt
      exact Or.inl (tight1 hlt)
    · show u = true → s'.e.stage < 3 → a'.sendQ ≠ []
      intro hu hlt
      rw [hq']
      exact hy.fed hu (by have := t1.st; omega)
    · show s'.g.pendingSend = [] ∨ ∃ rest, a'.sendQ = s'.g.pendingSend :: rest
      rw [hq']
      rcases hpend' with h | h
      · exact Or.inl h
      · rw [h]; exact hy.pend
    · show ∀ b ∈ a'.sendQ, b ≠ []
      rw [hq']; exact hy.qne
  · by_cases hpo : y.x.a.pollOut = true
    · -- the writable task: a buffer is queued
      have hne := hy.armed' (Or.inl hpo)
      obtain ⟨buf, rest, hq⟩ : ∃ buf rest, y.x.a.sendQ = buf :: rest := by
        cases hh : y.x.a.sendQ with
        | nil => exact absurd hh hne
        | cons b r => exact ⟨b, r, rfl⟩
      have hbuf : buf ≠ [] := hy.qne buf (by rw [hq]; exact List.mem_cons_self ..)
      have hpd : y.x.s.g.pendingSend = [] ∨ y.x.s.g.pendingSend = buf := by
        rcases hy.pend with h | ⟨r', h⟩
        · exact Or.inl h
        · rw [hq] at h
          exact Or.inr (List.cons.inj h).1.symm
      have hside := hy.side buf hpd
      obtain ⟨k, s', e1, side1, t1, g1, tight1, hir', hk⟩ := sendSomeWritable_hs C hC P u buf hbuf y.x.s hside hy.ir
      have hsup0 : y.x.s.g.driverSendSuppressed = false := by
        cases h : y.x.s.g.driverSendSuppressed with
        | false => rfl
        | true => exact absurd ⟨hpo, h⟩ hy.excl
      have hsup' : s'.g.driverSendSuppressed = false := by
        have := (supFrameG u false).sendSomeWritable C (engine P) y.x.s buf hsup0
        rw [e1] at this; exact this
      have htask0 : aTask C (chanWorld u) (engine P) rx y.x (y.rev u) = aWritable C (chanWorld u) (engine P) y.x := by
        simp [aTask, hy.reg, SysAG.rev, hin, hpo]
      have hlen : buf.length ≠ 0 := by simpa using hbuf
      rcases hk with ⟨k1, k2, k3, k4⟩ | k0
      · -- the whole buffer went out: the handshake is finished
        have htask : aTask C (chanWorld u) (engine P) rx y.x (y.rev u) =
            (.ok (), { a := { y.x.a with sendQ := rest, futures := .ok :: y.x.a.futures,
                                         pollOut := if rest.isEmpty then false else y.x.a.pollOut }, s := s' }) := by
          rw [htask0]
          simp only [aWritable, hq, e1, k1, if_true]
        have hstep : SysAG.task C P u rx y =
            { y with x := { a := { y.x.a with sendQ := rest, futures := .ok :: y.x.a.futures,
                                              pollOut := if rest.isEmpty then false else y.x.a.pollOut }, s := s' },
                     faults := y.faults + 0 } := by
          simp only [SysAG.task, htask, isOk, if_true]
        rw [hstep]
        refine ⟨⟨⟨sys_upd P u dc ds y hy.inv _ s' side1 t1 _ _ rfl, hir', hy.reg, ?_, ?_, ?_, ?_, ?_, Or.inl k4, ?_⟩,
          rfl, t1.wk, t1.outLe, t1.st⟩, fun hcp _ => g1 hcp⟩
        · show rest ≠ [] → ((if rest.isEmpty then false else y.x.a.pollOut) = true ∨ s'.g.driverSendSuppressed = true)
          intro hr
          have : rest.isEmpty = false := by cases rest <;> simp_all
          left; rw [this]; simpa using hpo
        · show ((if rest.isEmpty then false else y.x.a.pollOut) = true ∨ s'.g.driverSendSuppressed = true) → rest ≠ []
          intro hor
          rcases hor with h | h
          · intro hr; subst hr; simp at h
          · rw [hsup'] at h; cases h
        · show ¬ ((if rest.isEmpty then false else y.x.a.pollOut) = true ∧ s'.g.driverSendSuppressed = true)
          intro h; rw [hsup'] at h; exact absurd h.2 (by simp)
        · intro hlt; exact absurd (show s'.e.stage < 3 from hlt) (by omega)
        · intro _ hlt; exact absurd (show s'.e.stage < 3 from hlt) (by omega)
        · show ∀ b ∈ rest, b ≠ []
          intro b hb; exact hy.qne b (by rw [hq]; exact List.mem_cons_of_mem _ hb)
      · -- nothing went out: the handshake is waiting for the peer
        subst k0
        have htask : aTask C (chanWorld u) (engine P) rx y.x (y.rev u) =
            (.ok (), { a := { y.x.a with sendQ := buf :: rest }, s := s' }) := by
          rw [htask0]
          simp only [aWritable, hq, e1]
          rw [if_neg (by intro h; exact hlen h.symm)]
          simp
        have hstep : SysAG.task C P u rx y =
            { y with x := { a := { y.x.a with sendQ := buf :: rest }, s := s' }, faults := y.faults + 0 } := by
          simp only [SysAG.task, htask, isOk, if_true]
        rw [hstep]
        refine ⟨⟨⟨sys_upd P u dc ds y hy.inv _ s' side1 t1 _ _ rfl, hir', hy.reg, ?_, ?_, ?_, ?_, ?_, ?_, ?_⟩,
          rfl, t1.wk, t1.outLe, t1.st⟩, fun hcp _ => g1 hcp⟩
        · intro _; exact Or.inl hpo
        · intro _; simp
        · show ¬ (y.x.a.pollOut = true ∧ s'.g.driverSendSuppressed = true)
          intro h; rw [hsup'] at h; exact absurd h.2 (by simp)
        · intro hlt; exact Or.inl (tight1 hlt)
        · intro _ _; simp
        · show s'.g.pendingSend = [] ∨ ∃ r', buf :: rest = s'.g.pendingSend :: r'
          rcases side1.2.2.2.2.2.2.2 with h | h
          · exact Or.inl h
          · right; refine ⟨rest, ?_⟩
            have : (nf s').g.pendingSend = s'.g.pendingSend := rfl
            rw [← this, h]
        · show ∀ b ∈ buf :: rest, b ≠ []
          rw [← hq]; exact hy.qne
    · -- nothing to do
      have htask : aTask C (chanWorld u) (engine P) rx y.x (y.rev u) = (.ok (), y.x) := by
        simp [aTask, hy.reg, SysAG.rev, hin, hpo]
      have hstep : SysAG.task C P u rx y = { y with faults := y.faults + 0 } := by
        simp only [SysAG.task, htask, isOk, if_true]
      rw [hstep]
      refine ⟨⟨⟨hy.inv, hy.ir, hy.reg, hy.armed, hy.armed', hy.excl, hy.tight, hy.fed, hy.pend, hy.qne⟩, rfl, Nat.le_refl _,
        Nat.le_refl _, Nat.le_refl _⟩, ?_⟩
      intro _ hor
      rcases hor with h | h
      · exact absurd h hin
      · exact absurd h hpo

/-- one `Driver::Step` -/
theorem driveG_spec (C : Cfg) (hC : 1 < C.stepsMax) (P : HsP) (u : Bool) (dc ds : Bytes) (rx : Nat) (hrx : 1 ≤ rx)
    (y : SysAG) (hy : GInv P u dc ds y) :
    GInv P u dc ds (y.step C P u dc ds rx .drive) ∧ (y.step C P u dc ds rx .drive).ep = y.ep ∧
    work P (y.step C P u dc ds rx .drive).x.s.e ≤ work P y.x.s.e ∧
    (CanProg u y.x.s.e y.x.s.w → work P (y.step C P u dc ds rx .drive).x.s.e < work P y.x.s.e) ∧
    y.x.s.w.out u ≤ (y.step C P u dc ds rx .drive).x.s.w.out u ∧
    y.x.s.e.stage ≤ (y.step C P u dc ds rx .drive).x.s.e.stage := by
  obtain ⟨po, sup, hq, hcase⟩ := aQuery_cases P y.x hy.reg hy.lastErr
  obtain ⟨hy1, hpo1⟩ := requery_inv P u dc ds y hy po sup hcase
  rw [drive_eq_task C P u dc ds rx y po sup hq]
  obtain ⟨r1, p1⟩ := task_spec C hC P u dc ds rx hrx _ hy1
  refine ⟨r1.inv, r1.ep, r1.wk, ?_, r1.out, r1.st⟩
  intro hcp
  apply p1 hcp
  by_cases hin : 0 < y.x.s.w.inb u
  · exact Or.inl hin
  · exact Or.inr (hpo1 hcp (by omega))

/-- the user queues a buffer -/
theorem enqG_spec (C : Cfg) (P : HsP) (u : Bool) (dc ds : Bytes) (rx : Nat) (y : SysAG) (hy : GInv P u dc ds y)
    (buf : Bytes) (hb : buf ≠ []) :
    GInv P u dc ds (y.step C P u dc ds rx (.enq buf)) ∧ (y.step C P u dc ds rx (.enq buf)).ep = y.ep ∧
    (y.step C P u dc ds rx (.enq buf)).x.s = y.x.s := by
  have hstep : y.step C P u dc ds rx (.enq buf) = { y with x := enqueue y.x buf } := rfl
  rw [hstep]
  have hs : (enqueue y.x buf).s = y.x.s := rfl
  have hq : (enqueue y.x buf).a.sendQ = y.x.a.sendQ ++ [buf] := rfl
  have hreg : (enqueue y.x buf).a.registered = y.x.a.registered := rfl
  have hpo : (enqueue y.x buf).a.pollOut = if y.x.a.sendQ.isEmpty ∧ y.x.a.registered then true else y.x.a.pollOut := rfl
  have hne : y.x.a.sendQ ++ [buf] ≠ [] := by simp
  refine ⟨⟨hy.inv, hy.ir, hy.reg, ?_, ?_, ?_, hy.tight, ?_, ?_, ?_⟩, rfl, rfl⟩
  · show (enqueue y.x buf).a.sendQ ≠ [] → ((enqueue y.x buf).a.pollOut = true ∨ y.x.s.g.driverSendSuppressed = true)
    intro _
    rw [hpo]
    by_cases he : y.x.a.sendQ.isEmpty = true
    · left; simp [he, hy.reg]
    · have : y.x.a.sendQ ≠ [] := by intro h; rw [h] at he; simp at he
      rcases hy.armed this with h | h
      · left; simp [he, h]
      · exact Or.inr h
  · intro _; rw [hq]; exact hne
  · show ¬ ((enqueue y.x buf).a.pollOut = true ∧ y.x.s.g.driverSendSuppressed = true)
    rw [hpo]
    rintro ⟨h1, h2⟩
    by_cases he : y.x.a.sendQ.isEmpty = true
    · have : y.x.a.sendQ = [] := by simpa using he
      exact hy.armed' (Or.inr h2) this
    · simp [he] at h1
      exact hy.excl ⟨h1, h2⟩
  · intro _ _; rw [hq]; exact hne
  · show y.x.s.g.pendingSend = [] ∨ ∃ rest, (enqueue y.x buf).a.sendQ = y.x.s.g.pendingSend :: rest
    rcases hy.pend with h | ⟨r', h⟩
    · exact Or.inl h
    · right; rw [hq, h]; exact ⟨r' ++ [buf], rfl⟩
  · intro b hb'
    rw [hq] at hb'
    rcases List.mem_append.mp hb' with h | h
    · exact hy.qne b h
    · simp at h; rw [h]; exact hb

/-- one call of the polling peer -/
theorem peerG_spec (C : Cfg) (hC : 1 < C.stepsMax) (P : HsP) (u : Bool) (dc ds : Bytes) (hdc : dc ≠ []) (hds : ds ≠ [])
    (rx : Nat) (y : SysAG) (hy : GInv P u dc ds y) (k : Kind) (hk : k.ok) :
    GInv P u dc ds (y.step C P u dc ds rx (.peer k)) ∧ (y.step C P u dc ds rx (.peer k)).x.s.e = y.x.s.e ∧
    work P (y.step C P u dc ds rx (.peer k)).ep ≤ work P y.ep ∧
    (CanProg (!u) y.ep y.x.s.w → work P (y.step C P u dc ds rx (.peer k)).ep < work P y.ep) ∧
    y.x.s.w.inb u ≤ (y.step C P u dc ds rx (.peer k)).x.s.w.inb u ∧
    y.ep.stage ≤ (y.step C P u dc ds rx (.peer k)).ep.stage := by
  obtain ⟨i1, w1, p1, s1, c1⟩ := poll_spec C hC P u dc ds hdc hds (nfp y.x.s).g y.x.s.e y.pw hy.inv k hk
  refine ⟨⟨?_, hy.ir, hy.reg, hy.armed, hy.armed', hy.excl, hy.tight, hy.fed, hy.pend, hy.qne⟩, rfl, w1, p1, c1, s1⟩
  have : SysAG.sys u (y.step C P u dc ds rx (.peer k)) = mkSys u (nfp y.x.s).g y.x.s.e (y.pw.poll C P u dc ds k) := by
    cases u <;> rfl
  rw [this]; exact i1

/-- the composition as a fair-progress system: side `u` = the asynchronous endpoint's driver, side `!u` = the peer;
queueing a buffer is a neutral step -/
def agTS (C : Cfg) (hC : 1 < C.stepsMax) (P : HsP) (u : Bool) (dc ds : Bytes) (hdc : dc ≠ []) (hds : ds ≠ [])
    (rx : Nat) (hrx : 1 ≤ rx) : Fair.TS SysAG ActG where
  step := SysAG.step C P u dc ds rx
  inv := GInv P u dc ds
  mu y := work P y.x.s.e + work P y.ep
  side a := match a with
    | .drive => some u
    | .enq _ => none
    | .peer _ => some (!u)
  can y r := if r = u then CanProg u y.x.s.e y.x.s.w else CanProg (!u) y.ep y.x.s.w
  fin := SysAG.bothFinished
  ok := ActG.okG
  step_ok := by
    intro y a hy ha
    cases a with
    | drive =>
      obtain ⟨i1, e1, w1, p1, c1, s1⟩ := driveG_spec C hC P u dc ds rx hrx y hy
      refine ⟨i1, ?_, ?_, ?_, ?_⟩
      · show work P _ + work P _ ≤ work P _ + work P _
        rw [e1]; omega
      · intro r hr hp
        have hr' : r = u := by cases hr; rfl
        subst hr'
        simp only [if_true] at hp
        have := p1 hp
        show work P _ + work P _ < work P _ + work P _
        rw [e1]; omega
      · intro r hr hp
        have hr' : r ≠ u := by intro h; apply hr; rw [h]
        simp only [if_neg hr'] at hp ⊢
        rw [e1]
        obtain ⟨h1, h2⟩ := hp
        refine ⟨h1, ?_⟩
        rcases h2 with h2 | h2
        · exact Or.inl h2
        · right
          have hio : ∀ c : Chan, c.inb (!u) = c.out u := by intro c; cases u <;> rfl
          rw [hio] at h2 ⊢; omega
      · intro hf
        exact ⟨Nat.le_trans hf.1 s1, by rw [e1]; exact hf.2⟩
    | enq buf =>
      obtain ⟨i1, e1, e2⟩ := enqG_spec C P u dc ds rx y hy buf ha
      refine ⟨i1, ?_, ?_, ?_, ?_⟩
      · show work P _ + work P _ ≤ work P _ + work P _
        rw [e1, e2]; omega
      · intro r hr; cases hr
      · intro r _ hp
        show (if r = u then CanProg u _ _ else CanProg (!u) _ _)
        rw [e1, e2]; exact hp
      · intro hf
        exact ⟨by rw [e2]; exact hf.1, by rw [e1]; exact hf.2⟩
    | peer k =>
      obtain ⟨i1, e1, w1, p1, c1, s1⟩ := peerG_spec C hC P u dc ds hdc hds rx y hy k ha
      refine ⟨i1, ?_, ?_, ?_, ?_⟩
      · show work P _ + work P _ ≤ work P _ + work P _
        rw [e1]; omega
      · intro r hr hp
        have hr' : r = !u := by cases hr; rfl
        subst hr'
        have hne : (!u) ≠ u := by cases u <;> simp
        simp only [if_neg hne] at hp
        have := p1 hp
        show work P _ + work P _ < work P _ + work P _
        rw [e1]; omega
      · intro r hr hp
        have hr' : r = u := by
          cases r <;> cases u <;> simp_all
        subst hr'
        simp only [if_true] at hp ⊢
        rw [e1]
        obtain ⟨h1, h2⟩ := hp
        refine ⟨h1, ?_⟩
        rcases h2 with h2 | h2
        · exact Or.inl h2
        · right; omega
      · intro hf
        exact ⟨by rw [e1]; exact hf.1, Nat.le_trans hf.2 s1⟩
  live := by
    intro y hy hnf
    have hnf' : ¬ (y.sys u).bothFinished := by
      intro hb; apply hnf
      cases u <;> simp [SysAG.sys, mkSys, Sys.bothFinished, SysAG.bothFinished, SysAG.pw] at hb ⊢ <;> omega
    rcases can_progress P dc ds (y.sys u) hy.inv hnf' with h | h
    · cases u with
      | true => left; simpa [SysAG.sys, mkSys, SysAG.pw] using h
      | false => left; simpa [SysAG.sys, mkSys, SysAG.pw] using h
    · cases u with
      | true => right; simpa [SysAG.sys, mkSys, SysAG.pw] using h
      | false => right; simpa [SysAG.sys, mkSys, SysAG.pw] using h
  zero := by
    intro y _ h0
    exact ⟨work_zero_fin P _ (by omega), work_zero_fin P _ (by omega)⟩

theorem agTS_run (C : Cfg) (hC : 1 < C.stepsMax) (P : HsP) (u : Bool) (dc ds : Bytes) (hdc : dc ≠ []) (hds : ds ≠ [])
    (rx : Nat) (hrx : 1 ≤ rx) (l : List ActG) (y : SysAG) :
    (agTS C hC P u dc ds hdc hds rx hrx).run l y = SysAG.run C P u dc ds rx l y := rfl

/-- the initial state: an asynchronous client must have something queued -/
theorem gInv_init (P : HsP) (u : Bool) (dc ds : Bytes) (segs : List Nat) (q : List Bytes) (hq : ∀ b ∈ q, b ≠ [])
    (hfed : u = true → q ≠ []) : GInv P u dc ds (SysAG.init P u segs q) := by
  have hinv : SysInv P dc ds ((SysAG.init P u segs q).sys u) := by
    have := sysInv_init P dc ds segs
    cases u <;> exact this
  refine ⟨hinv, rfl, rfl, ?_, ?_, ?_, fun _ => Or.inr ⟨rfl, rfl, rfl⟩, fun hu _ => hfed hu, Or.inl rfl, hq⟩
  · intro hne
    left
    show (!q.isEmpty) = true
    cases q with
    | nil => exact absurd rfl hne
    | cons b t => rfl
  · intro hor
    rcases hor with h | h
    · intro hq0
      have h1 : (!q.isEmpty) = true := h
      have h2 : q = [] := hq0
      rw [h2] at h1; simp at h1
    · cases h
  · rintro ⟨_, h⟩; cases h

end SockModel.Hs

import SockModel.Model.UriLemmas
/-!
Proofs of the C12 theorems about the URI model that `Spec/Uri.lean` needs as well (`spec_holds_on_model`):
spellings agree, `to_string` round trip, no silent wrap.  `Props/C12.lean` re-exports them under the same
names and statements (namespace `SockModel.Uri`); they live here, in namespace `SockModel.Uri.Lem`, because a
Spec module (reachable from the driver) must not import a Props file.
-/
namespace SockModel.Uri.Lem
open SockModel.Decimal

theorem spellings_agree (h scheme path : Bytes) (p : Nat) (hp : p < 65536)
    (hne : h ≠ []) (hc : (0x3a : UInt8) ∉ h) (hs : (0x2f : UInt8) ∉ h) (hb : h.head? ≠ some 0x5b)
    (hl : hasLineBreak h = false) (hw : ∀ c ∈ scheme, isWord c = true) (hpath : hasLineBreak path = false) :
    let d := render p
    let want : Except Exn Dissect := .ok ⟨h, d, true⟩
    dissect (h ++ 0x3a :: d) = want ∧
    dissect (0x5b :: (h ++ 0x5d :: 0x3a :: d)) = want ∧
    dissect (scheme ++ 0x3a :: 0x2f :: 0x2f :: (h ++ 0x3a :: d)) = want ∧
    dissect (h ++ 0x3a :: d ++ 0x2f :: path) = want ∧
    dissect (scheme ++ 0x3a :: 0x2f :: 0x2f :: (0x5b :: (h ++ 0x5d :: 0x3a :: d) ++ 0x2f :: path)) = want ∧
    parseHostServ h d = .ok ⟨cstr h, d, false⟩ ∧
    parseUri (h ++ 0x3a :: d) = .ok ⟨cstr h, d, true⟩ := by
  intro d want
  have hd : isDigits d = true := isDigits_render p
  have hplain := splitPort_plain hne hc hb hd
  have hbr := splitPort_bracket hl hd
  have tail0 : ([] : Bytes) = [] ∨ ∃ q, ([] : Bytes) = 0x2f :: q ∧ hasLineBreak q = false := Or.inl rfl
  have tailp : (0x2f :: path) = [] ∨ ∃ q, (0x2f :: path) = 0x2f :: q ∧ hasLineBreak q = false :=
    Or.inr ⟨path, rfl, hpath⟩
  have e1 : dissect (h ++ 0x3a :: d) = want := by
    have := (trim_plain hc hs hd tail0).1
    rw [List.append_nil] at this
    exact dissect_numeric hp this hplain
  refine ⟨e1, ?_, ?_, ?_, ?_, ?_, ?_⟩
  · have := (trim_bracket hs hd tail0).1
    rw [List.append_nil] at this
    exact dissect_numeric hp this hbr
  · have htp := (trim_plain hc hs hd tail0).2
    rw [List.append_nil] at htp
    exact dissect_numeric hp (trimServAndPath_scheme hw htp) hplain
  · exact dissect_numeric hp (trim_plain hc hs hd tailp).1 hplain
  · exact dissect_numeric hp (trimServAndPath_scheme hw (trim_bracket hs hd tailp).2) hbr
  · have hne' : h.isEmpty = false := by cases h <;> simp at hne ⊢
    have hdne : d.isEmpty = false := by
      cases hdd : d with
      | nil => rw [hdd] at hd; simp [isDigits] at hd
      | cons _ _ => rfl
    simp [parseHostServ, hne', hdne, isServiceNumeric_of_digits hd, checkRange_render hp, Except.map,
      cstr_of_digits hd, d]
  · have hne' : (h ++ 0x3a :: d).isEmpty = false := by cases h <;> simp
    simp only [parseUri, hne', Bool.false_eq_true, if_false, e1, want]
    simp [Except.map, Dissect.toGai, cstr_of_digits hd]

theorem trimServAndPath_hostpath {h rest : Bytes} (hc : (0x3a : UInt8) ∉ h) :
    trimServAndPath (h ++ 0x2f :: rest) = (trimPath (h ++ 0x2f :: rest)).map (·, []) := by
  unfold trimServAndPath
  have htw : (h ++ 0x2f :: rest).takeWhile isWord = h.takeWhile isWord :=
    takeWhile_append_stop (by decide) h
  have hdrop : (h ++ 0x2f :: rest).drop (h.takeWhile isWord).length = h.dropWhile isWord ++ 0x2f :: rest := by
    conv => lhs; arg 2; rw [← List.takeWhile_append_dropWhile (p := isWord) (l := h)]
    rw [List.append_assoc, List.drop_left]
  simp only [htw, hdrop]
  have hno : ((h.dropWhile isWord ++ 0x2f :: rest).take 3 == [0x3a, 0x2f, 0x2f]) = false := by
    cases hd : h.dropWhile isWord with
    | nil => simp
    | cons x xs =>
      have hx : x ∈ h := mem_of_mem_dropWhile (p := isWord) (by rw [hd]; exact List.mem_cons_self ..)
      have : x ≠ 0x3a := by intro e; subst e; exact hc hx
      simp [this]
  simp [hno]

theorem hostpath_spelling (h path : Bytes) (hne : h ≠ []) (hc : (0x3a : UInt8) ∉ h) (hs : (0x2f : UInt8) ∉ h)
    (hpath : hasLineBreak path = false) :
    dissect (h ++ 0x2f :: path) = .ok ⟨h, [], false⟩ ∧ dissect h = .ok ⟨h, [], false⟩ := by
  have hsplit : splitPort h = none := by
    unfold splitPort
    rw [splitLast_none hc]
  have hnum : isServiceNumeric [] = false := by decide
  have hguard : guardRange ⟨h, [], false⟩ = .ok ⟨h, [], false⟩ := by
    simp [guardRange, hnum]
  constructor
  · have htp : trimPath (h ++ 0x2f :: path) = some h :=
      trimPath_eval hs hne (Or.inr ⟨path, rfl, hpath⟩)
    have ht : trimServAndPath (h ++ 0x2f :: path) = some (h, []) := by
      rw [trimServAndPath_hostpath hc, htp]; rfl
    simp only [dissect, dissectRaw, ht, hsplit, hguard]
  · have htp : trimPath h = some h := by
      have := trimPath_eval (a := h) (tail := []) hs hne (Or.inl rfl)
      rwa [List.append_nil] at this
    have ht : trimServAndPath h = some (h, []) := by
      have hh : trimServAndPath h = (trimPath h).map (·, []) := by
        unfold trimServAndPath
        have hno : (((h.drop (h.takeWhile isWord).length)).take 3 == [0x3a, 0x2f, 0x2f]) = false := by
          have hd : h.drop (h.takeWhile isWord).length = h.dropWhile isWord := by
            conv => lhs; arg 2; rw [← List.takeWhile_append_dropWhile (p := isWord) (l := h)]
            rw [List.drop_left]
          rw [hd]
          cases hdw : h.dropWhile isWord with
          | nil => simp
          | cons x xs =>
            have hx : x ∈ h := mem_of_mem_dropWhile (p := isWord) (by rw [hdw]; exact List.mem_cons_self ..)
            have : x ≠ 0x3a := by intro e; subst e; exact hc hx
            simp [this]
        simp [hno]
      rw [hh, htp]; rfl
    simp only [dissect, dissectRaw, ht, hsplit, hguard]

theorem spellings_agree_v6 (h6 scheme path : Bytes) (p : Nat) (hp : p < 65536)
    (hne : h6 ≠ []) (hs : (0x2f : UInt8) ∉ h6) (hl : hasLineBreak h6 = false)
    (hw : ∀ c ∈ scheme, isWord c = true) (hpath : hasLineBreak path = false) :
    let d := render p
    let want : Except Exn Dissect := .ok ⟨h6, d, true⟩
    dissect (0x5b :: (h6 ++ 0x5d :: 0x3a :: d)) = want ∧
    dissect (scheme ++ 0x3a :: 0x2f :: 0x2f :: (0x5b :: (h6 ++ 0x5d :: 0x3a :: d))) = want ∧
    dissect (0x5b :: (h6 ++ 0x5d :: 0x3a :: d) ++ 0x2f :: path) = want ∧
    dissect (scheme ++ 0x3a :: 0x2f :: 0x2f :: (0x5b :: (h6 ++ 0x5d :: 0x3a :: d) ++ 0x2f :: path)) = want ∧
    parseHostServ h6 d = .ok ⟨cstr h6, d, false⟩ := by
  intro d want
  have hd : isDigits d = true := isDigits_render p
  have hbr := splitPort_bracket hl hd
  have tail0 : ([] : Bytes) = [] ∨ ∃ q, ([] : Bytes) = 0x2f :: q ∧ hasLineBreak q = false := Or.inl rfl
  have tailp : (0x2f :: path) = [] ∨ ∃ q, (0x2f :: path) = 0x2f :: q ∧ hasLineBreak q = false :=
    Or.inr ⟨path, rfl, hpath⟩
  have t0 := trim_bracket hs hd tail0
  rw [List.append_nil] at t0
  refine ⟨dissect_numeric hp t0.1 hbr, dissect_numeric hp (trimServAndPath_scheme hw t0.2) hbr,
    dissect_numeric hp (trim_bracket hs hd tailp).1 hbr,
    dissect_numeric hp (trimServAndPath_scheme hw (trim_bracket hs hd tailp).2) hbr, ?_⟩
  have hne' : h6.isEmpty = false := by cases h6 <;> simp at hne ⊢
  have hdne : d.isEmpty = false := by
    cases hdd : d with
    | nil => rw [hdd] at hd; simp [isDigits] at hd
    | cons _ _ => rfl
  simp [parseHostServ, hne', hdne, isServiceNumeric_of_digits hd, checkRange_render hp, Except.map,
    cstr_of_digits hd, d]

theorem tostring_roundtrip (v6 : Bool) (h : Bytes) (p : Nat) (hp : p < 65536)
    (hs : (0x2f : UInt8) ∉ h) (hl : hasLineBreak h = false)
    (h4 : v6 = false → h ≠ [] ∧ (0x3a : UInt8) ∉ h ∧ h.head? ≠ some 0x5b) :
    dissect (toString v6 h (render p)) = .ok ⟨h, render p, true⟩ := by
  have hd : isDigits (render p) = true := isDigits_render p
  have tail0 : ([] : Bytes) = [] ∨ ∃ q, ([] : Bytes) = 0x2f :: q ∧ hasLineBreak q = false := Or.inl rfl
  cases v6
  · obtain ⟨hne, hc, hb⟩ := h4 rfl
    have := (trim_plain hc hs hd tail0).1
    rw [List.append_nil] at this
    have hshape : toString false h (render p) = h ++ 0x3a :: render p := by simp [toString]
    rw [hshape]
    exact dissect_numeric hp this (splitPort_plain hne hc hb hd)
  · have := (trim_bracket hs hd tail0).1
    rw [List.append_nil] at this
    have hshape : toString true h (render p) = 0x5b :: (h ++ 0x5d :: 0x3a :: render p) := by simp [toString]
    rw [hshape]
    exact dissect_numeric hp this (splitPort_bracket hl hd)

theorem no_silent_wrap : NoSilentWrap parseUri parseHostServ := by
  constructor
  · intro uri c v hok hv
    unfold parseUri at hok
    split at hok
    · cases hok
    · cases hd : dissect uri with
      | error e => rw [hd] at hok; cases hok
      | ok d =>
        rw [hd] at hok
        have hc : c = d.toGai := by cases hok; rfl
        subst hc
        have hv' : strtoulReads (cstr d.serv) = some v := hv
        have hnum := numeric_of_strtoul hv'
        have hraw := dissect_ok_raw hd
        have hg : guardRange d = .ok d := by
          have := hd
          unfold dissect at this
          simpa only [hraw] using this
        exact strtoul_in_range_of_checked (guardRange_ok_checked hg (Or.inr hnum)) hv'
  · intro host serv c v hok hv
    unfold parseHostServ at hok
    split at hok
    · cases hok
    · split at hok
      · cases hok
      · split at hok
        · rename_i hnum
          cases hc : checkRange serv with
          | error e => rw [hc] at hok; cases hok
          | ok u =>
            rw [hc] at hok
            have : c = ⟨cstr host, cstr serv, false⟩ := by cases hok; rfl
            subst this
            exact strtoul_in_range_of_checked hc hv
        · rename_i hnum
          have : c = ⟨cstr host, cstr serv, false⟩ := by cases hok; rfl
          subst this
          exact absurd (numeric_of_strtoul hv) hnum

theorem no_silent_wrap_strict : NoSilentWrapStrict parseUri parseHostServ := by
  constructor
  · intro uri c neg m hok hv
    unfold parseUri at hok
    split at hok
    · cases hok
    · cases hd : dissect uri with
      | error e => rw [hd] at hok; cases hok
      | ok d =>
        rw [hd] at hok
        have hc : c = d.toGai := by cases hok; rfl
        subst hc
        have hv' : numericReads (cstr d.serv) = some (neg, m) := hv
        have hnum := numeric_of_numericReads hv'
        have hraw := dissect_ok_raw hd
        have hg : guardRange d = .ok d := by
          have := hd
          unfold dissect at this
          simpa only [hraw] using this
        exact numeric_in_range_of_checked (guardRange_ok_checked hg (Or.inr hnum)) hv'
  · intro host serv c neg m hok hv
    unfold parseHostServ at hok
    split at hok
    · cases hok
    · split at hok
      · cases hok
      · split at hok
        · cases hc : checkRange serv with
          | error e => rw [hc] at hok; cases hok
          | ok u =>
            rw [hc] at hok
            have : c = ⟨cstr host, cstr serv, false⟩ := by cases hok; rfl
            subst this
            exact numeric_in_range_of_checked hc hv
        · rename_i hnum
          have : c = ⟨cstr host, cstr serv, false⟩ := by cases hok; rfl
          subst this
          exact absurd (numeric_of_numericReads hv) hnum

/-- "Port() is p, Service() its decimal text": the decimal text of a port denotes that port, is a
pure digit string (no sign, no blank), and `strtoul` reads it completely as `p` -/
theorem render_parse (p : Nat) :
    parseDec (render p) = some p ∧ isDigits (render p) = true ∧
    (p < 2 ^ 64 → strtoulReads (render p) = some p) := by
  have hd := isDigits_render p
  refine ⟨by simp [parseDec, hd, decVal_render], hd, ?_⟩
  intro hp
  have hcap : cap64 = 18446744073709551616 := by decide
  have hm : satVal cap64 (render p) = p := by
    rw [satVal_eq, decVal_render, hcap]; omega
  simp only [strtoulReads, dropWhile_isSpace_of_digits hd, signSplit_of_digits hd, hd, if_true, hm]
  have : ¬ p ≥ cap64 := by rw [hcap]; omega
  simp [this]

/-- a text with two colons that does not start with '[' (every IPv6 literal) has no `host:port` reading -/
theorem splitPort_none_of_colons {h : Bytes} (hb : h.head? ≠ some 0x5b) (hc : 2 ≤ h.count 0x3a) :
    splitPort h = none := by
  unfold splitPort
  cases hs : splitLast 0x3a h with
  | none => rfl
  | some bp =>
    obtain ⟨before, port⟩ := bp
    obtain ⟨heq, hnp⟩ := splitLast_sound hs
    simp only
    have hcnt : 1 ≤ before.count 0x3a := by
      rw [heq, List.count_append, List.count_cons_self, List.count_eq_zero_of_not_mem hnp] at hc; omega
    have hmem : (0x3a : UInt8) ∈ before := List.count_pos_iff.mp (by omega)
    have hhead : before.head? ≠ some 0x5b := by
      intro hh; apply hb; rw [heq]
      cases before with
      | nil => simp at hh
      | cons x xs => simpa using hh
    split
    · rfl
    · simp [hhead, hmem]

/-- "scheme or service names for well-known ports": `name://h` and `name://h/path` are dissected to host `h`
and service `name` (looked up by name, no AI_NUMERICSERV) for every host text without '/' that has no
`host:port` reading (an IPv4 literal: no colon; an IPv6 literal: two colons) and every `\w*` name that is
not a number -/
theorem name_spelling (h name tail : Bytes) (hne : h ≠ []) (hs : (0x2f : UInt8) ∉ h)
    (hsp : splitPort h = none) (hw : ∀ c ∈ name, isWord c = true) (hnum : isServiceNumeric name = false)
    (ht : tail = [] ∨ ∃ q, tail = 0x2f :: q ∧ hasLineBreak q = false) :
    dissect (name ++ 0x3a :: 0x2f :: 0x2f :: (h ++ tail)) = .ok ⟨h, name, false⟩ := by
  have htp : trimPath (h ++ tail) = some h := trimPath_eval hs hne ht
  have ht' := trimServAndPath_scheme hw htp
  have hraw : dissectRaw (name ++ 0x3a :: 0x2f :: 0x2f :: (h ++ tail)) = some ⟨h, name, false⟩ := by
    simp [dissectRaw, ht', hsp]
  simp [dissect, hraw, guardRange, hnum]

end SockModel.Uri.Lem

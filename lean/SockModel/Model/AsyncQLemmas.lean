import SockModel.Model.AsyncQ
/-! Invariant of the async send pipeline (`Model/AsyncQ.lean`) and its preservation
by every action; helper lemmas for the C02 theorems. -/
namespace SockModel.AsyncQ

def qids (q : List Elem) : List Nat := q.map (·.id)

structure QInv (s : St) : Prop where
  enqd : s.enqd = s.done.map (fun d => (d.id, d.full)) ++ s.q.map (fun e => (e.id, e.full))
  wire : s.wire = (s.done.map (·.sent)).flatten ++ (s.q.map (·.sent)).flatten
  tail : ∀ e ∈ s.q.tail, e.sent = []
  ret  : s.returned = s.done.map (·.id)
  nodup : (s.enqd.map (·.1)).Nodup
  futq : ∀ e ∈ s.q, s.fut e.id = .pending
  futd : ∀ d ∈ s.done, s.fut d.id = d.how ∧ d.how.resolved = true ∧ (d.how = .value → d.dropped = [])
  futn : ∀ id, id ∉ s.enqd.map (·.1) → s.fut id = .none
  armedInv : s.registered = true → s.q ≠ [] → s.armed = true ∨ s.pendingArm ≠ []
  disarmInv : s.drvDisarm = true →
    (s.q ≠ [] → s.pendingArm ≠ []) ∧ s.registered = true ∧ s.destroyed = false ∧ s.armed = true
  destr : s.destroyed = true → s.q = [] ∧ s.registered = false

theorem inv_init : QInv {} := by
  refine ⟨rfl, rfl, ?_, rfl, by simp, ?_, ?_, ?_, ?_, ?_, ?_⟩ <;> simp

/-- ids of the enqueued buffers = ids of the popped ones followed by the queued ones -/
theorem QInv.ids {s : St} (h : QInv s) :
    s.enqd.map (·.1) = s.done.map (·.id) ++ s.q.map (·.id) := by
  rw [h.enqd]; simp [List.map_append, Function.comp_def]

theorem QInv.done_ne_q {s : St} (h : QInv s) {d : Done} {e : Elem} (hd : d ∈ s.done) (he : e ∈ s.q) :
    d.id ≠ e.id := by
  have hn := h.nodup
  rw [h.ids] at hn
  have := (List.nodup_append.mp hn).2.2 d.id (List.mem_map_of_mem hd) e.id (List.mem_map_of_mem he)
  exact this

theorem QInv.q_nodup {s : St} (h : QInv s) : (s.q.map (·.id)).Nodup := by
  have hn := h.nodup
  rw [h.ids] at hn
  exact (List.nodup_append.mp hn).2.1


theorem mem_tail_append_singleton {α} {q : List α} {e x : α} (h : x ∈ (q ++ [e]).tail) : x ∈ q.tail ∨ x = e := by
  cases q with
  | nil => simp at h
  | cons a as => simpa using h

theorem fresh_of_none {s : St} (h : QInv s) {id : Nat} (hn : s.fut id = .none) : id ∉ s.enqd.map (·.1) := by
  rw [h.ids]
  intro hm
  rcases List.mem_append.mp hm with hm | hm
  · obtain ⟨d, hd, rfl⟩ := List.mem_map.mp hm
    have := h.futd d hd
    rw [hn] at this
    have h2 := this.2.1
    rw [← this.1] at h2
    simp [Fut.resolved] at h2
  · obtain ⟨e, he, rfl⟩ := List.mem_map.mp hm
    have := h.futq e he
    rw [hn] at this
    cases this

theorem inv_enq {s : St} (h : QInv s) (t id : Nat) (bytes : Bytes) : QInv (step s (.enq t id bytes)) := by
  simp only [step]
  split
  · exact h
  · rename_i hc
    simp only [not_or, Decidable.not_not] at hc
    obtain ⟨hd, hf, ht⟩ := hc
    have hfresh := fresh_of_none h hf
    refine ⟨?_, ?_, ?_, ?_, ?_, ?_, ?_, ?_, ?_, ?_, ?_⟩ <;> dsimp only
    · simp [h.enqd, Elem.full]
    · simp [h.wire]
    · intro e he
      rcases mem_tail_append_singleton he with he | rfl
      · exact h.tail e he
      · rfl
    · exact h.ret
    · simp only [List.map_append, List.map_cons, List.map_nil]
      rw [List.nodup_append]
      refine ⟨h.nodup, by simp, ?_⟩
      intro a ha b hb
      simp at hb; subst hb
      intro hab; subst hab; exact hfresh ha
    · intro e he
      simp only [List.mem_append, List.mem_singleton] at he
      rcases he with he | rfl
      · by_cases hid : e.id = id
        · simp [hid]
        · rw [upd_other _ _ _ _ hid]; exact h.futq e he
      · simp
    · intro d hd'
      have hdd := h.futd d hd'
      have : d.id ≠ id := by
        intro heq
        have h1 := hdd.1; rw [heq, hf] at h1
        have h2 := hdd.2.1; rw [← h1] at h2; simp [Fut.resolved] at h2
      rw [upd_other _ _ _ _ this]; exact hdd
    · intro id' hid'
      simp only [List.map_append, List.map_cons, List.map_nil, List.mem_append, List.mem_singleton, not_or] at hid'
      rw [upd_other _ _ _ _ hid'.2]; exact h.futn id' hid'.1
    · intro hr _
      by_cases hq : s.q = []
      · right; simp [hq]
      · rcases h.armedInv hr hq with ha | hp
        · left; exact ha
        · right; simp [hq, hp]
    · intro hdis
      have := h.disarmInv hdis
      refine ⟨?_, this.2⟩
      intro _
      by_cases hq : s.q = []
      · simp [hq]
      · simp [hq, this.1 hq]
    · intro hdes
      simp [hd] at hdes


theorem flatten_sent_nil {l : List Elem} (h : ∀ e ∈ l, e.sent = []) : (l.map (·.sent)).flatten = [] := by
  induction l with
  | nil => rfl
  | cons a as ih =>
    simp only [List.map_cons, List.flatten_cons]
    rw [h a (by simp), ih (fun e he => h e (by simp [he]))]
    rfl

theorem inv_arm {s : St} (h : QInv s) (t : Nat) : QInv (step s (.arm t)) := by
  simp only [step]
  split
  · exact h
  · rename_i hc
    simp only [not_or, Decidable.not_not] at hc
    obtain ⟨hd, hdis, ht⟩ := hc
    refine ⟨h.enqd, h.wire, h.tail, h.ret, h.nodup, h.futq, h.futd, h.futn, ?_, ?_, h.destr⟩ <;> dsimp only
    · intro hr _; left; simp [hr]
    · intro hdis'; exact absurd hdis' hdis

theorem inv_disarm {s : St} (h : QInv s) : QInv (step s .disarm) := by
  simp only [step]
  split
  · rename_i hdis
    have hi := h.disarmInv hdis
    refine ⟨h.enqd, h.wire, h.tail, h.ret, h.nodup, h.futq, h.futd, h.futn, ?_, ?_, h.destr⟩ <;> dsimp only
    · intro _ hq; right; exact hi.1 hq
    · intro hf; cases hf
  · exact h

theorem inv_unregister {s : St} (h : QInv s) : QInv (step s .unregister) := by
  simp only [step]
  split
  · exact h
  · rename_i hc
    simp only [not_or] at hc
    refine ⟨h.enqd, h.wire, h.tail, h.ret, h.nodup, h.futq, h.futd, h.futn, ?_, ?_, ?_⟩ <;> dsimp only
    · intro hf; cases hf
    · intro hdis; exact absurd hdis hc.2
    · intro hdes; exact absurd hdes hc.1

theorem inv_destroy {s : St} (h : QInv s) : QInv (step s .destroy) := by
  simp only [step]
  split
  · exact h
  · rename_i hc
    simp only [not_or] at hc
    refine ⟨?_, ?_, ?_, ?_, h.nodup, ?_, ?_, ?_, ?_, ?_, ?_⟩ <;> dsimp only
    · rw [h.enqd]; simp [Done.full, Elem.full, Function.comp_def]
    · rw [h.wire]; simp [Function.comp_def]
    · intro e he; simp at he
    · rw [h.ret]; simp
    · intro e he; simp at he
    · intro d hd
      rcases List.mem_append.mp hd with hd | hd
      · have hdd := h.futd d hd
        have hne : s.fut d.id ≠ .pending := by
          rw [hdd.1]; intro hp; have := hdd.2.1; rw [hp] at this; simp [Fut.resolved] at this
        rw [if_neg hne]; exact hdd
      · obtain ⟨e, he, rfl⟩ := List.mem_map.mp hd
        simp [h.futq e he, Fut.resolved]
    · intro id hid
      rw [h.futn id hid]; simp
    · intro hf; cases hf
    · intro hdis; exact absurd hdis hc.2
    · intro _; exact ⟨rfl, rfl⟩

theorem inv_writable {s : St} (h : QInv s) (a : Ans) : QInv (step s (.writable a)) := by
  simp only [step]
  split
  · exact h
  · rename_i hc
    simp only [not_or, Decidable.not_not] at hc
    obtain ⟨hdes, hreg, harm, hdis⟩ := hc
    split
    · rename_i hq
      refine ⟨h.enqd, h.wire, h.tail, h.ret, h.nodup, h.futq, h.futd, h.futn, h.armedInv, ?_, h.destr⟩ <;> dsimp only
      intro _
      exact ⟨fun hne => absurd hq hne, hreg, by simpa using hdes, harm⟩
    · rename_i e rest hq
      have htl : ∀ x ∈ rest, x.sent = [] := by
        intro x hx; apply h.tail; rw [hq]; exact hx
      have hwire : s.wire = (s.done.map (·.sent)).flatten ++ e.sent := by
        rw [h.wire, hq]; simp [flatten_sent_nil htl]
      have hemem : e ∈ s.q := by rw [hq]; simp
      have hrest : ∀ x ∈ rest, x ∈ s.q := by intro x hx; rw [hq]; simp [hx]
      have hne : ∀ x ∈ rest, x.id ≠ e.id := by
        intro x hx
        have := h.q_nodup
        rw [hq] at this
        simp only [List.map_cons, List.nodup_cons, List.mem_map, not_exists, not_and] at this
        exact this.1 x hx
      have heid : e.id ∈ s.enqd.map (·.1) := by
        rw [h.ids]; exact List.mem_append_right _ (List.mem_map_of_mem hemem)
      -- the pop with resolution `how`
      have pop : ∀ (how : Fut) (snt drp : Bytes) (w : Bytes), how.resolved = true → (how = .value → drp = []) →
          snt ++ drp = e.full → w = (s.done.map (·.sent)).flatten ++ snt →
          QInv { s with q := rest, wire := w, fut := upd s.fut e.id how, returned := s.returned ++ [e.id],
                        done := s.done ++ [⟨e.id, snt, drp, how⟩], drvDisarm := rest.isEmpty } := by
        intro how snt drp w hres hval hfull hw
        refine ⟨?_, ?_, ?_, ?_, h.nodup, ?_, ?_, ?_, ?_, ?_, ?_⟩ <;> dsimp only
        · rw [h.enqd, hq]; simp [Done.full, hfull]
        · rw [hw]; simp [flatten_sent_nil htl]
        · intro x hx; exact htl x (List.mem_of_mem_tail hx)
        · rw [h.ret]; simp
        · intro x hx
          rw [upd_other _ _ _ _ (hne x hx)]; exact h.futq x (hrest x hx)
        · intro d hd
          rcases List.mem_append.mp hd with hd | hd
          · rw [upd_other _ _ _ _ (h.done_ne_q hd hemem)]; exact h.futd d hd
          · simp only [List.mem_singleton] at hd; subst hd
            exact ⟨by simp, hres, hval⟩
        · intro id hid
          have : id ≠ e.id := by intro heq; subst heq; exact hid heid
          rw [upd_other _ _ _ _ this]; exact h.futn id hid
        · intro _ _; left; exact harm
        · intro hemp
          refine ⟨?_, hreg, by simpa using hdes, harm⟩
          intro hne'; simp at hemp; exact absurd hemp hne'
        · intro hd'; exact absurd hd' hdes
      cases a with
      | accept k =>
        simp only [driverSend]
        split
        · exact pop .value (e.sent ++ e.rest) [] (s.wire ++ e.rest) rfl (fun _ => rfl) (by simp [Elem.full])
            (by rw [hwire]; simp)
        · split
          · exact h
          · refine ⟨?_, ?_, ?_, h.ret, h.nodup, ?_, h.futd, h.futn, ?_, ?_, ?_⟩ <;> dsimp only
            · rw [h.enqd, hq]; simp [Elem.full]
            · rw [hwire]; simp [flatten_sent_nil htl]
            · intro x hx; exact htl x hx
            · intro x hx
              simp only [List.mem_cons] at hx
              rcases hx with rfl | hx
              · exact h.futq e hemem
              · exact h.futq x (hrest x hx)
            · intro _ _; left; exact harm
            · intro hd'; exact absurd hd' hdis
            · intro hd'; exact absurd hd' hdes
      | fail =>
        simp only [driverSend]
        exact pop .exn e.sent e.rest s.wire rfl (fun hv => by cases hv) rfl hwire

theorem inv_step {s : St} (h : QInv s) (a : Action) : QInv (step s a) := by
  cases a with
  | enq t id b => exact inv_enq h t id b
  | arm t => exact inv_arm h t
  | writable a => exact inv_writable h a
  | disarm => exact inv_disarm h
  | unregister => exact inv_unregister h
  | destroy => exact inv_destroy h


/-- the piece of the byte stream that belongs to one enqueued buffer `e = (id, bytes)`:
a prefix of the buffer, and the whole buffer unless its future carries an exception or is broken -/
def Piece (fut : Nat → Fut) (e : Nat × Bytes) (x : Bytes) : Prop :=
  x <+: e.2 ∧ (fut e.1 = .pending ∨ fut e.1 = .value → x = e.2)

inductive Pieces (fut : Nat → Fut) : List (Nat × Bytes) → List Bytes → Prop where
  | nil : Pieces fut [] []
  | cons {e x es xs} : Piece fut e x → Pieces fut es xs → Pieces fut (e :: es) (x :: xs)

theorem Pieces.append {fut} {l₁ l₂ : List (Nat × Bytes)} {m₁ m₂ : List Bytes}
    (h₁ : Pieces fut l₁ m₁) (h₂ : Pieces fut l₂ m₂) : Pieces fut (l₁ ++ l₂) (m₁ ++ m₂) := by
  induction h₁ with
  | nil => exact h₂
  | cons h _ ih => exact Pieces.cons h ih

theorem Pieces.map {α} {fut} (f : α → Nat × Bytes) (g : α → Bytes) (l : List α)
    (h : ∀ a ∈ l, Piece fut (f a) (g a)) : Pieces fut (l.map f) (l.map g) := by
  induction l with
  | nil => exact Pieces.nil
  | cons a as ih =>
    exact Pieces.cons (h a (by simp)) (ih (fun x hx => h x (by simp [hx])))

theorem pieces_done {s : St} (h : QInv s) (l : List Done) (hl : ∀ d ∈ l, d ∈ s.done) :
    Pieces s.fut (l.map (fun d => (d.id, d.full))) (l.map (·.sent)) := by
  apply Pieces.map
  intro d hd
  have hdd := h.futd d (hl d hd)
  refine ⟨⟨d.dropped, rfl⟩, ?_⟩
  intro hf
  dsimp only at hf ⊢
  rw [hdd.1] at hf
  rcases hf with hf | hf
  · have := hdd.2.1; rw [hf] at this; simp [Fut.resolved] at this
  · simp [Done.full, hdd.2.2 hf]

theorem q_stream {q : List Elem} (h : ∀ e ∈ q.tail, e.sent = []) :
    (q.map (·.sent)).flatten ++ (q.map (·.rest)).flatten = (q.map (·.full)).flatten := by
  cases q with
  | nil => rfl
  | cons e r =>
    have hr : ∀ x ∈ r, x.sent = [] := h
    have h1 : (r.map (·.sent)).flatten = [] := flatten_sent_nil hr
    have h2 : r.map (·.full) = r.map (·.rest) := by
      apply List.map_congr_left
      intro x hx; simp [Elem.full, hr x hx]
    simp only [List.map_cons, List.flatten_cons, h1, h2]
    simp [Elem.full]

theorem inv_run {s : St} (h : QInv s) (acts : List Action) : QInv (run s acts) := by
  induction acts generalizing s with
  | nil => exact h
  | cons a as ih => exact ih (inv_step h a)

theorem resolved_in_done {s : St} (h : QInv s) {id : Nat} (hr : (s.fut id).resolved = true) :
    ∃ d ∈ s.done, d.id = id := by
  have hin : id ∈ s.enqd.map (·.1) := by
    apply Classical.byContradiction
    intro hn
    rw [h.futn id hn] at hr; simp [Fut.resolved] at hr
  rw [h.ids] at hin
  rcases List.mem_append.mp hin with hm | hm
  · obtain ⟨d, hd, rfl⟩ := List.mem_map.mp hm
    exact ⟨d, hd, rfl⟩
  · obtain ⟨e, he, rfl⟩ := List.mem_map.mp hm
    rw [h.futq e he] at hr; simp [Fut.resolved] at hr

theorem fut_stable_step {s : St} (h : QInv s) (a : Action) (id : Nat) (hr : (s.fut id).resolved = true) :
    (step s a).fut id = s.fut id := by
  obtain ⟨d, hd, hid⟩ := resolved_in_done h hr
  cases a with
  | enq t i b =>
    simp only [step]
    split
    · rfl
    · rename_i hc
      simp only [not_or, Decidable.not_not] at hc
      have : id ≠ i := by
        intro heq; subst heq; rw [hc.2.1] at hr; simp [Fut.resolved] at hr
      dsimp only; rw [upd_other _ _ _ _ this]
  | arm t => simp only [step]; split <;> rfl
  | disarm => simp only [step]; split <;> rfl
  | unregister => simp only [step]; split <;> rfl
  | destroy =>
    simp only [step]
    split
    · rfl
    · have : s.fut id ≠ .pending := by intro hp; rw [hp] at hr; simp [Fut.resolved] at hr
      show (if s.fut id = Fut.pending then Fut.broken else s.fut id) = s.fut id
      rw [if_neg this]
  | writable an =>
    simp only [step]
    split
    · rfl
    · split
      · rfl
      · rename_i e rest hq
        have hne : id ≠ e.id := by
          rw [← hid]; exact h.done_ne_q hd (by rw [hq]; simp)
        cases an with
        | accept k =>
          simp only [driverSend]
          split
          · dsimp only; rw [upd_other _ _ _ _ hne]
          · split <;> rfl
        | fail =>
          simp only [driverSend]
          rw [upd_other _ _ _ _ hne]

theorem destroyed_stuck {s : St} (h : QInv s) (hd : s.destroyed = true) (a : Action) : step s a = s := by
  have hdis : s.drvDisarm = false := by
    cases hx : s.drvDisarm with
    | false => rfl
    | true => have := (h.disarmInv hx).2.2.1; rw [hd] at this; cases this
  cases a <;> simp [step, hd, hdis]

end SockModel.AsyncQ

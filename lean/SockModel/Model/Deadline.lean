/-
Model of the deadline helpers (src/wait.h), `ToMsec` (src/wait.cpp) and
`MinDuration` (src/driver_impl.cpp).

Time points and `steady_clock` durations are `Int` nanoseconds; `Duration`
(`std::chrono::milliseconds`) is `Int` milliseconds.  `duration_cast` truncates
toward zero (`Int.tdiv`).
-/
namespace SockModel.Deadline

def nsPerMs : Int := 1000000

/-- `duration_cast<milliseconds>(ns)` -/
def toMs (ns : Int) : Int := Int.tdiv ns nsPerMs

/-- the three deadline flavours `Step`/`Send` choose from by the sign of the timeout -/
inductive Deadline where
  | unlimited (now : Int)                  -- DeadlineUnlimitedTime (now is only read by StepTodos)
  | zero (now : Int)                       -- DeadlineZeroTime
  | limited (now : Int) (deadline : Int)   -- DeadlineLimited
  deriving Repr, DecidableEq

def Deadline.now : Deadline → Int
  | .unlimited n => n
  | .zero n => n
  | .limited n _ => n

/-- construct from a `Duration` timeout at clock reading `now` -/
def Deadline.make (timeoutMs : Int) (now : Int) : Deadline :=
  if timeoutMs < 0 then .unlimited now
  else if timeoutMs = 0 then .zero now
  else .limited now (now + timeoutMs * nsPerMs)

def Deadline.tick (d : Deadline) (now : Int) : Deadline :=
  match d with
  | .unlimited _ => .unlimited now
  | .zero _ => .zero now
  | .limited _ dl => .limited now dl

def Deadline.timeLeft : Deadline → Bool
  | .unlimited _ => true
  | .zero _ => false
  | .limited n dl => n < dl

/-- `Remaining()` in ms: -1 = unlimited, clamped at 0 for a limited deadline -/
def Deadline.remaining : Deadline → Int
  | .unlimited _ => -1
  | .zero _ => 0
  | .limited n dl => if toMs (dl - n) < 0 then 0 else toMs (dl - n)

/-- `MinDuration(lhs ns, rhs ms)` -/
def minDuration (lhsNs : Int) (rhsMs : Int) : Int :=
  if rhsMs < 0 then toMs lhsNs else min (toMs lhsNs) rhsMs

def intMax : Int := 2147483647
def intMin : Int := -2147483648

/-- `ToMsec` as shipped before the F6 repair: `duration_cast<duration<int, milli>>`
narrows the 64-bit count to a 32-bit `int` (two's complement wrap). -/
def toMsecLegacy (ms : Int) : Int := Int.bmod ms (2 ^ 32)

/-- `ToMsec` after the F6 repair: clamp to the range of `int`. -/
def toMsec (ms : Int) : Int :=
  if ms > intMax then intMax else if ms < -intMax then -intMax else ms

theorem toMs_nonneg {ns : Int} (h : 0 ≤ ns) : 0 ≤ toMs ns := by
  unfold toMs nsPerMs
  exact Int.tdiv_nonneg h (by decide)

theorem toMs_mul_le {ns : Int} (h : 0 ≤ ns) : toMs ns * nsPerMs ≤ ns := by
  unfold toMs nsPerMs
  rw [Int.tdiv_eq_ediv_of_nonneg h]
  omega

theorem toMs_lt {ns : Int} (h : 0 ≤ ns) : ns < (toMs ns + 1) * nsPerMs := by
  unfold toMs nsPerMs
  have h1 : Int.tdiv ns 1000000 = ns / 1000000 := Int.tdiv_eq_ediv_of_nonneg h
  rw [h1]
  omega

theorem remaining_nonneg_of_limited (n dl : Int) : 0 ≤ (Deadline.limited n dl).remaining := by
  show 0 ≤ (if toMs (dl - n) < 0 then 0 else toMs (dl - n))
  split
  · exact Int.le_refl 0
  · omega

end SockModel.Deadline

import SockModel.Model.ToDosLemmas
/-!
Data-level quiescence of the ToDo model (used by C04 and C06): once a ToDo has no entry in the list
(after `Cancel`, or after it ran), no continuation of ANY history invokes it again unless it is
scheduled anew by a `Shift` - the only operation that can give an existing ToDo an entry.

`Quiet id s`: ToDo `id` exists, has no entry, and no task body known to the driver shifts it.
-/
namespace SockModel.ToDos
open SockModel.Deadline

/-- does this management call (re)schedule ToDo `id`? -/
def BodyOp.reschedules (id : Nat) : BodyOp → Bool
  | .shift j _ => j == id
  | .shiftd j _ => j == id
  | _ => false

def bodyQuiet (id : Nat) (b : List BodyOp) : Bool := b.all (fun o => !o.reschedules id)

/-- a user-level operation that neither shifts `id` nor installs a task body that would -/
def Op.quiet (id : Nat) : Op → Bool
  | .new _ _ body => bodyQuiet id body
  | .newIn _ _ body => bodyQuiet id body
  | .newIdle _ body => bodyQuiet id body
  | .call op => !op.reschedules id
  | .clock _ => true
  | .step _ => true

/-- invocations of task `id` in a log -/
def ranOf (id : Nat) (l : List Event) : List Event :=
  l.filter (fun e => match e with | .ran j _ _ _ _ => j == id | _ => false)

structure Quiet (id : Nat) (s : St) : Prop where
  known : id ∈ s.known
  noEntry : id ∉ ids s.todos
  bodies : ∀ p ∈ s.bodies, bodyQuiet id p.2 = true

theorem body_quiet {id : Nat} {s : St} (h : Quiet id s) (j : Nat) : bodyQuiet id (s.body j) = true := by
  unfold St.body
  split
  · rename_i p b hf
    exact h.bodies _ (List.mem_of_find?_eq_some hf)
  · rfl

theorem not_mem_ids_move {l : List Entry} {id j : Nat} (w : Int) (seq : Nat) (hj : j ≠ id) (h : id ∉ ids l) :
    id ∉ ids (move l j w seq) := by
  unfold move
  rw [mem_ids_insert]
  rintro (he | hm)
  · exact hj he.symm
  · exact h (mem_ids_of_remove hm)

theorem applyOp_quiet {id : Nat} {s : St} (h : Quiet id s) (op : BodyOp) (hq : op.reschedules id = false) :
    Quiet id (applyOp s op) ∧ (applyOp s op).log = s.log := by
  cases op with
  | shift j w =>
    have hj : j ≠ id := by simpa [BodyOp.reschedules] using hq
    simp only [applyOp]
    split
    · exact ⟨⟨h.known, not_mem_ids_move w _ hj h.noEntry, h.bodies⟩, rfl⟩
    · exact ⟨h, rfl⟩
  | shiftd j ms =>
    have hj : j ≠ id := by simpa [BodyOp.reschedules] using hq
    simp only [applyOp]
    split
    · exact ⟨⟨h.known, not_mem_ids_move _ _ hj h.noEntry, h.bodies⟩, rfl⟩
    · exact ⟨h, rfl⟩
  | cancel j =>
    simp only [applyOp]
    split
    · exact ⟨⟨h.known, fun hm => h.noEntry (mem_ids_of_remove hm), h.bodies⟩, rfl⟩
    · exact ⟨h, rfl⟩
  | newAt j w =>
    simp only [applyOp]
    split
    · exact ⟨h, rfl⟩
    · rename_i hk
      refine ⟨⟨List.mem_cons_of_mem _ h.known, ?_, h.bodies⟩, rfl⟩
      rw [mem_ids_insert]
      rintro (he | hm)
      · have he' : id = j := he
        exact hk (he' ▸ h.known)
      · exact h.noEntry hm
  | newIn j ms =>
    simp only [applyOp]
    split
    · exact ⟨h, rfl⟩
    · rename_i hk
      refine ⟨⟨List.mem_cons_of_mem _ h.known, ?_, h.bodies⟩, rfl⟩
      rw [mem_ids_insert]
      rintro (he | hm)
      · have he' : id = j := he
        exact hk (he' ▸ h.known)
      · exact h.noEntry hm
  | drop j => exact ⟨⟨h.known, h.noEntry, h.bodies⟩, rfl⟩
  | adv ns => exact ⟨⟨h.known, h.noEntry, h.bodies⟩, rfl⟩
  | stop => exact ⟨⟨h.known, h.noEntry, h.bodies⟩, rfl⟩

theorem foldl_applyOp_quiet {id : Nat} {s : St} (h : Quiet id s) (b : List BodyOp) (hb : bodyQuiet id b = true) :
    Quiet id (b.foldl applyOp s) ∧ (b.foldl applyOp s).log = s.log := by
  induction b generalizing s with
  | nil => exact ⟨h, rfl⟩
  | cons o os ih =>
    simp only [bodyQuiet, List.all_cons, Bool.and_eq_true, Bool.not_eq_true'] at hb
    have h1 := applyOp_quiet h o hb.1
    have := ih h1.1 (by simpa [bodyQuiet] using hb.2)
    simp only [List.foldl_cons]
    exact ⟨this.1, this.2.trans h1.2⟩

theorem ranOf_cons_ne {id j : Nat} {w now : Int} {rest : List Entry} {seq : Nat} (l : List Event) (hj : j ≠ id) :
    ranOf id (.ran j w now rest seq :: l) = ranOf id l := by
  simp [ranOf, hj]

theorem stepTodos_quiet {id : Nat} (fuel : Nat) (d : Deadline) {s : St} (h : Quiet id s) :
    Quiet id (stepTodos fuel d s).2 ∧ ranOf id (stepTodos fuel d s).2.log = ranOf id s.log := by
  induction fuel generalizing d s with
  | zero =>
    simp only [stepTodos]
    exact ⟨⟨h.known, h.noEntry, h.bodies⟩, by simp [ranOf]⟩
  | succ n ih =>
    unfold stepTodos
    split
    · exact ⟨h, rfl⟩
    · rename_i front rest hto
      split
      · exact ⟨h, rfl⟩
      · have hne : front.id ≠ id := by
          intro he
          apply h.noEntry
          rw [hto]
          simp [ids, he]
        have hrest : id ∉ ids rest := by
          intro hm
          apply h.noEntry
          rw [hto]
          simp only [ids, List.map_cons, List.mem_cons]
          exact Or.inr hm
        have hq1 : Quiet id { s with todos := rest, log := .ran front.id front.when d.now rest front.seq :: s.log } :=
          ⟨h.known, hrest, h.bodies⟩
        have hb : bodyQuiet id (s.body front.id) = true := body_quiet h front.id
        have h2 := foldl_applyOp_quiet hq1 (s.body front.id) hb
        have hlog : ranOf id ((s.body front.id).foldl applyOp
            { s with todos := rest, log := .ran front.id front.when d.now rest front.seq :: s.log }).log = ranOf id s.log := by
          rw [h2.2]
          exact ranOf_cons_ne _ hne
        dsimp only
        split
        · exact ⟨h2.1, hlog⟩
        · split
          · have := ih (d := d.tick ((s.body front.id).foldl applyOp
                { s with todos := rest, log := .ran front.id front.when d.now rest front.seq :: s.log }).now) h2.1
            exact ⟨this.1, this.2.trans hlog⟩
          · exact ⟨h2.1, hlog⟩

theorem pollSockets_quiet {id : Nat} (clamp : Bool) (t : Int) {s : St} (h : Quiet id s) :
    Quiet id (pollSockets clamp t s) ∧ ranOf id (pollSockets clamp t s).log = ranOf id s.log := by
  unfold pollSockets
  generalize (if clamp = true then toMsec t else toMsecLegacy t) = ms
  dsimp only
  split
  · exact ⟨⟨h.known, h.noEntry, h.bodies⟩, by simp [ranOf]⟩
  · split
    · exact ⟨⟨h.known, h.noEntry, h.bodies⟩, by simp [ranOf]⟩
    · exact ⟨⟨h.known, h.noEntry, h.bodies⟩, by simp [ranOf]⟩

theorem userOp_quiet {id : Nat} (clamp : Bool) (fuel : Nat) {s : St} (h : Quiet id s) (op : Op) (hq : op.quiet id = true) :
    Quiet id (userOp clamp fuel s op) ∧ ranOf id (userOp clamp fuel s op).log = ranOf id s.log := by
  cases op with
  | new j w body =>
    simp only [userOp]
    split
    · exact ⟨h, rfl⟩
    · have h0 : Quiet id { s with bodies := (j, body) :: s.bodies } :=
        ⟨h.known, h.noEntry, by
          intro p hp
          rcases List.mem_cons.mp hp with rfl | hp
          · exact hq
          · exact h.bodies p hp⟩
      have := applyOp_quiet h0 (.newAt j w) rfl
      exact ⟨this.1, by rw [this.2]⟩
  | newIn j ms body =>
    simp only [userOp]
    split
    · exact ⟨h, rfl⟩
    · have h0 : Quiet id { s with bodies := (j, body) :: s.bodies } :=
        ⟨h.known, h.noEntry, by
          intro p hp
          rcases List.mem_cons.mp hp with rfl | hp
          · exact hq
          · exact h.bodies p hp⟩
      have := applyOp_quiet h0 (.newIn j ms) rfl
      exact ⟨this.1, by rw [this.2]⟩
  | newIdle j body =>
    simp only [userOp]
    split
    · exact ⟨h, rfl⟩
    · refine ⟨⟨List.mem_cons_of_mem _ h.known, h.noEntry, ?_⟩, rfl⟩
      intro p hp
      rcases List.mem_cons.mp hp with rfl | hp
      · exact hq
      · exact h.bodies p hp
  | call o =>
    have := applyOp_quiet h o (by simpa [Op.quiet] using hq)
    exact ⟨this.1, by simp only [userOp]; rw [this.2]⟩
  | clock ns =>
    simp only [userOp]
    split
    · exact ⟨⟨h.known, h.noEntry, h.bodies⟩, rfl⟩
    · exact ⟨h, rfl⟩
  | step t =>
    simp only [userOp, step]
    split
    · exact pollSockets_quiet clamp t h
    · have h1 := stepTodos_quiet (id := id) fuel (Deadline.make t s.now) h
      have h2 := pollSockets_quiet clamp (stepTodos fuel (Deadline.make t s.now) s).1 h1.1
      exact ⟨h2.1, h2.2.trans h1.2⟩

/-- any continuation that does not `Shift` the ToDo: it stays without an entry and is never invoked -/
theorem run_quiet {id : Nat} (clamp : Bool) (fuel : Nat) {s : St} (h : Quiet id s) (ops : List Op)
    (hq : ops.all (Op.quiet id) = true) :
    Quiet id (run clamp fuel s ops) ∧ ranOf id (run clamp fuel s ops).log = ranOf id s.log := by
  induction ops generalizing s with
  | nil => exact ⟨h, rfl⟩
  | cons op ops ih =>
    simp only [List.all_cons, Bool.and_eq_true] at hq
    have h1 := userOp_quiet clamp fuel h op hq.1
    have := ih h1.1 hq.2
    simp only [run, List.foldl_cons] at this ⊢
    exact ⟨this.1, this.2.trans h1.2⟩

end SockModel.ToDos

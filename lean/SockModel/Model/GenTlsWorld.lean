import SockModel.Model.Tls
import SockModel.Basic.GenEffects
/-
The model of the TLS glue's surroundings (`Tls.St σ ω`: the glue's fields, an abstract engine `Engine σ`, the OS
`Net.World ω`) as a `Gen.TlsWorld`, so that the member functions of `SocketTlsImpl` as generated from the C++ source
(Generated/Tls.lean) can be run on the state the hand-written Model/Tls.lean is defined on.  Hand-written,
independent of /repo.

* fields: `lastError` is its `SSL_ERROR_*` number (`codeOf` / `errOf`), `pendingSend = (off, len)` is that slice of
  the caller's buffer `buf`;
* the socket layer is Model/Net.lean's `recvNow`, `receive`, `sendNow`, `sendAll`, `sendTry`, `sendSome` on `s.w`
  (the ghost bookkeeping of `Tls.noteWrite` - `wire`, `bioWrites` - happens here, where the bytes are known); an
  exception of the socket layer is thrown (`toThrown`); the clock is `W.now` (ms) in ns, so that the generated
  `DeadlineLimited` arithmetic (ns, truncating division) meets the model's `remainingMs` (ms);
* libssl: one `SSL_read` / `SSL_write_ex` is one run of the engine's program by the model's `interp` (the callback
  plumbing: it calls the MODEL's `bioRead` / `bioWrite`, which is why `interp` itself is not tied) followed by the ghost
  `noteCall`; the answer is remembered for `SSL_get_error`, the plaintext of a read in `rx`.
-/
namespace SockModel.GenWorld
open SockModel SockModel.Net SockModel.Tls

def codeOf : SslErr → Int
  | .none => 0 | .ssl => 1 | .wantRead => 2 | .wantWrite => 3 | .syscall => 5 | .zeroReturn => 6

def errOf (c : Int) : SslErr :=
  if c = 1 then .ssl else if c = 2 then .wantRead else if c = 3 then .wantWrite else if c = 5 then .syscall
  else if c = 6 then .zeroReturn else .none

theorem errOf_codeOf (e : SslErr) : errOf (codeOf e) = e := by cases e <;> rfl

/-- how a model exception travels through generated code (the message of a `logic_error` is not kept) -/
def toThrown : Exn → Gen.Thrown
  | .system n => ⟨.system_error, n⟩
  | .sslError => ⟨.system_error, -1⟩
  | .closed => ⟨.runtime_error, 0⟩
  | .logic _ => ⟨.logic_error, 0⟩

structure TWSt (σ ω : Type) where
  s : Tls.St σ ω
  ans : SslAns
  rx : Bytes

variable {σ ω : Type}

/-- the ghost bookkeeping of `Tls.noteWrite` and the outcome of a socket send -/
def noteSend (w : TWSt σ ω) (bs : Bytes) (r : SendRes ω) : Gen.Res Int × TWSt σ ω :=
  let g := { w.s.g with wire := w.s.g.wire ++ bs.take r.sent, bioWrites := ⟨bs, r.sent⟩ :: w.s.g.bioWrites }
  match r.exn with
  | some e => (.thrown (toThrown e), { w with s := { w.s with g := g, w := r.w } })
  | none => (.ok (r.sent : Int), { w with s := { w.s with g := g, w := r.w } })

def slice (buf : Bytes) (off len : Int) : Bytes := (buf.drop off.toNat).take len.toNat

def readRes (ans : SslAns) (out : Bytes) : Int :=
  match ans with
  | .done _ => (out.length : Int)
  | .zeroReturn => 0
  | _ => -1

def tlsWorld (W : Net.World ω) (E : Engine σ) (buf : Bytes) : Gen.TlsWorld (TWSt σ ω) where
  doPoll _ := Gen.M.halt
  interrupted := Gen.M.halt
  clockNow w := (.ok (W.now w.s.w * 1000000), w)
  send _ _ := Gen.M.halt
  recv _ := Gen.M.halt
  socketError w := (.ok 0, w)
  get_lastError w := (.ok (codeOf w.s.g.lastError), w)
  set_lastError c w := (.ok (), { w with s := setLastError w.s (errOf c) })
  get_remainingTime w := (.ok w.s.g.remainingTime, w)
  set_remainingTime t w := (.ok (), { w with s := setTimeout w.s t })
  get_isReadable w := (.ok w.s.g.isReadable, w)
  set_isReadable b w := (.ok (), { w with s := { w.s with g := { w.s.g with isReadable := b } } })
  get_isWritable w := (.ok w.s.g.isWritable, w)
  set_isWritable b w := (.ok (), { w with s := { w.s with g := { w.s.g with isWritable := b } } })
  get_driverSendSuppressed w := (.ok w.s.g.driverSendSuppressed, w)
  set_driverSendSuppressed b w := (.ok (), { w with s := { w.s with g := { w.s.g with driverSendSuppressed := b } } })
  set_pendingSend off len w := (.ok (), { w with s := setPending w.s (slice buf off len) })
  pendingErrorSet w := (.ok w.s.g.pendingError.isSome, w)
  rethrowPending w :=
    match w.s.g.pendingError with
    | some e => (.thrown (toThrown e), { w with s := { w.s with g := { w.s.g with pendingError := none } } })
    | none => (.halted, w)
  sockWaitReadable t w := (.ok (W.wait w.s.w .rd t).1, { w with s := { w.s with w := (W.wait w.s.w .rd t).2 } })
  sockWaitWritable t w := (.ok (W.wait w.s.w .wr t).1, { w with s := { w.s with w := (W.wait w.s.w .wr t).2 } })
  sockReceiveNow n w :=
    match recvNow W w.s.w n.toNat with
    | .got bs w' => (.ok (bs.length : Int), { w with s := { w.s with w := w' }, rx := bs })
    | .nothing w' => (.ok 0, { w with s := { w.s with w := w' }, rx := [] })
    | .exn e w' => (.thrown (toThrown e), { w with s := { w.s with w := w' } })
  sockReceive n t w :=
    match receive W w.s.w n.toNat t with
    | .got bs w' => (.ok (some (bs.length : Int)), { w with s := { w.s with w := w' }, rx := bs })
    | .nothing w' => (.ok none, { w with s := { w.s with w := w' }, rx := [] })
    | .exn e w' => (.thrown (toThrown e), { w with s := { w.s with w := w' } })
  sockSendNow off len w := noteSend w (slice buf off len) (sendNow W w.s.w (slice buf off len))
  sockSendAll off len w := noteSend w (slice buf off len) (sendAll W w.s.w (slice buf off len))
  sockSendTry off len w := noteSend w (slice buf off len) (sendTry W w.s.w (slice buf off len))
  sockSendSome off len now dl w :=
    match noteSend w (slice buf off len) (sendSome W w.s.w (slice buf off len) (dl / 1000000) (now / 1000000)).1 with
    | (.ok n, w') => (.ok (n, (sendSome W w.s.w (slice buf off len) (dl / 1000000) (now / 1000000)).2 * 1000000), w')
    | (.thrown e, w') => (.thrown e, w')
    | (.halted, w') => (.halted, w')
  sslRead n w :=
    match interp W w.s (E.sslRead w.s.e n.toNat) with
    | (.ok (ans, out), s1) => (.ok (readRes ans out), { s := noteCall E s1 true [] ans, ans := ans, rx := out })
    | (.exn e, s1) => (.thrown (toThrown e), { w with s := s1 })
    | (.abort _, s1) => (.halted, { w with s := s1 })
  sslWriteEx off len w :=
    match interp W w.s (E.sslWrite w.s.e (slice buf off len)) with
    | (.ok (ans, _), s1) =>
      (.ok (match ans with | .done k => (1, (k : Int)) | .zeroReturn => (0, 0) | _ => (-1, 0)),
       { w with s := noteCall E s1 false (slice buf off len) ans, ans := ans })
    | (.exn e, s1) => (.thrown (toThrown e), { w with s := s1 })
    | (.abort _, s1) => (.halted, { w with s := s1 })
  sslGetError _ w := (.ok (codeOf w.ans.toErr), w)
  sslIsInitFinished w := (.ok (if E.initFinished w.s.e then 1 else 0), w)
  sslPending w := (.ok (if E.pending w.s.e then 1 else 0), w)
  sslShutdown w :=
    match interp W w.s (E.sslShutdown w.s.e) with
    | (.ok (ans, _), s1) => (.ok (shutRes ans), { w with s := s1 })
    | (.exn e, s1) => (.thrown (toThrown e), { w with s := s1 })
    | (.abort _, s1) => (.halted, { w with s := s1 })
  sslError _ w := (.ok (-1), w)

/-! the fields of `tlsWorld`, one equation each (simp lemmas: the proofs never unfold `tlsWorld`) -/
@[simp] theorem tw_clockNow (W : Net.World ω) (E : Engine σ) (buf : Bytes) (w : TWSt σ ω) :
    (tlsWorld W E buf).toWorld.clockNow w = (.ok (W.now w.s.w * 1000000), w) := rfl
@[simp] theorem tw_socketError (W : Net.World ω) (E : Engine σ) (buf : Bytes) (w : TWSt σ ω) :
    (tlsWorld W E buf).toWorld.socketError w = (.ok 0, w) := rfl
@[simp] theorem tw_get_lastError (W : Net.World ω) (E : Engine σ) (buf : Bytes) (w : TWSt σ ω) :
    (tlsWorld W E buf).get_lastError w = (.ok (codeOf w.s.g.lastError), w) := rfl
@[simp] theorem tw_set_lastError (W : Net.World ω) (E : Engine σ) (buf : Bytes) (c : Int) (w : TWSt σ ω) :
    (tlsWorld W E buf).set_lastError c w = (.ok (), { w with s := setLastError w.s (errOf c) }) := rfl
@[simp] theorem tw_get_remainingTime (W : Net.World ω) (E : Engine σ) (buf : Bytes) (w : TWSt σ ω) :
    (tlsWorld W E buf).get_remainingTime w = (.ok w.s.g.remainingTime, w) := rfl
@[simp] theorem tw_set_remainingTime (W : Net.World ω) (E : Engine σ) (buf : Bytes) (t : Int) (w : TWSt σ ω) :
    (tlsWorld W E buf).set_remainingTime t w = (.ok (), { w with s := setTimeout w.s t }) := rfl
@[simp] theorem tw_get_isReadable (W : Net.World ω) (E : Engine σ) (buf : Bytes) (w : TWSt σ ω) :
    (tlsWorld W E buf).get_isReadable w = (.ok w.s.g.isReadable, w) := rfl
@[simp] theorem tw_set_isReadable (W : Net.World ω) (E : Engine σ) (buf : Bytes) (b : Bool) (w : TWSt σ ω) :
    (tlsWorld W E buf).set_isReadable b w = (.ok (), { w with s := { w.s with g := { w.s.g with isReadable := b } } }) := rfl
@[simp] theorem tw_get_isWritable (W : Net.World ω) (E : Engine σ) (buf : Bytes) (w : TWSt σ ω) :
    (tlsWorld W E buf).get_isWritable w = (.ok w.s.g.isWritable, w) := rfl
@[simp] theorem tw_set_isWritable (W : Net.World ω) (E : Engine σ) (buf : Bytes) (b : Bool) (w : TWSt σ ω) :
    (tlsWorld W E buf).set_isWritable b w = (.ok (), { w with s := { w.s with g := { w.s.g with isWritable := b } } }) := rfl
@[simp] theorem tw_get_driverSendSuppressed (W : Net.World ω) (E : Engine σ) (buf : Bytes) (w : TWSt σ ω) :
    (tlsWorld W E buf).get_driverSendSuppressed w = (.ok w.s.g.driverSendSuppressed, w) := rfl
@[simp] theorem tw_set_driverSendSuppressed (W : Net.World ω) (E : Engine σ) (buf : Bytes) (b : Bool) (w : TWSt σ ω) :
    (tlsWorld W E buf).set_driverSendSuppressed b w = (.ok (), { w with s := { w.s with g := { w.s.g with driverSendSuppressed := b } } }) := rfl
@[simp] theorem tw_set_pendingSend (W : Net.World ω) (E : Engine σ) (buf : Bytes) (off : Int) (len : Int) (w : TWSt σ ω) :
    (tlsWorld W E buf).set_pendingSend off len w = (.ok (), { w with s := setPending w.s (slice buf off len) }) := rfl
@[simp] theorem tw_pendingErrorSet (W : Net.World ω) (E : Engine σ) (buf : Bytes) (w : TWSt σ ω) :
    (tlsWorld W E buf).pendingErrorSet w = (.ok w.s.g.pendingError.isSome, w) := rfl
@[simp] theorem tw_rethrowPending (W : Net.World ω) (E : Engine σ) (buf : Bytes) (w : TWSt σ ω) :
    (tlsWorld W E buf).rethrowPending w =
    match w.s.g.pendingError with
    | some e => (.thrown (toThrown e), { w with s := { w.s with g := { w.s.g with pendingError := none } } })
    | none => (.halted, w) := rfl
@[simp] theorem tw_sockWaitReadable (W : Net.World ω) (E : Engine σ) (buf : Bytes) (t : Int) (w : TWSt σ ω) :
    (tlsWorld W E buf).sockWaitReadable t w = (.ok (W.wait w.s.w .rd t).1, { w with s := { w.s with w := (W.wait w.s.w .rd t).2 } }) := rfl
@[simp] theorem tw_sockWaitWritable (W : Net.World ω) (E : Engine σ) (buf : Bytes) (t : Int) (w : TWSt σ ω) :
    (tlsWorld W E buf).sockWaitWritable t w = (.ok (W.wait w.s.w .wr t).1, { w with s := { w.s with w := (W.wait w.s.w .wr t).2 } }) := rfl
@[simp] theorem tw_sockReceiveNow (W : Net.World ω) (E : Engine σ) (buf : Bytes) (n : Int) (w : TWSt σ ω) :
    (tlsWorld W E buf).sockReceiveNow n w =
    match recvNow W w.s.w n.toNat with
    | .got bs w' => (.ok (bs.length : Int), { w with s := { w.s with w := w' }, rx := bs })
    | .nothing w' => (.ok 0, { w with s := { w.s with w := w' }, rx := [] })
    | .exn e w' => (.thrown (toThrown e), { w with s := { w.s with w := w' } }) := rfl
@[simp] theorem tw_sockReceive (W : Net.World ω) (E : Engine σ) (buf : Bytes) (n : Int) (t : Int) (w : TWSt σ ω) :
    (tlsWorld W E buf).sockReceive n t w =
    match receive W w.s.w n.toNat t with
    | .got bs w' => (.ok (some (bs.length : Int)), { w with s := { w.s with w := w' }, rx := bs })
    | .nothing w' => (.ok none, { w with s := { w.s with w := w' }, rx := [] })
    | .exn e w' => (.thrown (toThrown e), { w with s := { w.s with w := w' } }) := rfl
@[simp] theorem tw_sockSendNow (W : Net.World ω) (E : Engine σ) (buf : Bytes) (off : Int) (len : Int) (w : TWSt σ ω) :
    (tlsWorld W E buf).sockSendNow off len w = noteSend w (slice buf off len) (sendNow W w.s.w (slice buf off len)) := rfl
@[simp] theorem tw_sockSendAll (W : Net.World ω) (E : Engine σ) (buf : Bytes) (off : Int) (len : Int) (w : TWSt σ ω) :
    (tlsWorld W E buf).sockSendAll off len w = noteSend w (slice buf off len) (sendAll W w.s.w (slice buf off len)) := rfl
@[simp] theorem tw_sockSendTry (W : Net.World ω) (E : Engine σ) (buf : Bytes) (off : Int) (len : Int) (w : TWSt σ ω) :
    (tlsWorld W E buf).sockSendTry off len w = noteSend w (slice buf off len) (sendTry W w.s.w (slice buf off len)) := rfl
@[simp] theorem tw_sockSendSome (W : Net.World ω) (E : Engine σ) (buf : Bytes) (off : Int) (len : Int) (now : Int) (dl : Int) (w : TWSt σ ω) :
    (tlsWorld W E buf).sockSendSome off len now dl w =
    match noteSend w (slice buf off len) (sendSome W w.s.w (slice buf off len) (dl / 1000000) (now / 1000000)).1 with
    | (.ok n, w') => (.ok (n, (sendSome W w.s.w (slice buf off len) (dl / 1000000) (now / 1000000)).2 * 1000000), w')
    | (.thrown e, w') => (.thrown e, w')
    | (.halted, w') => (.halted, w') := rfl
@[simp] theorem tw_sslRead (W : Net.World ω) (E : Engine σ) (buf : Bytes) (n : Int) (w : TWSt σ ω) :
    (tlsWorld W E buf).sslRead n w =
    match interp W w.s (E.sslRead w.s.e n.toNat) with
    | (.ok (ans, out), s1) => (.ok (readRes ans out), { s := noteCall E s1 true [] ans, ans := ans, rx := out })
    | (.exn e, s1) => (.thrown (toThrown e), { w with s := s1 })
    | (.abort _, s1) => (.halted, { w with s := s1 }) := rfl
@[simp] theorem tw_sslWriteEx (W : Net.World ω) (E : Engine σ) (buf : Bytes) (off : Int) (len : Int) (w : TWSt σ ω) :
    (tlsWorld W E buf).sslWriteEx off len w =
    match interp W w.s (E.sslWrite w.s.e (slice buf off len)) with
    | (.ok (ans, _), s1) =>
      (.ok (match ans with | .done k => (1, (k : Int)) | .zeroReturn => (0, 0) | _ => (-1, 0)),
       { w with s := noteCall E s1 false (slice buf off len) ans, ans := ans })
    | (.exn e, s1) => (.thrown (toThrown e), { w with s := s1 })
    | (.abort _, s1) => (.halted, { w with s := s1 }) := rfl
@[simp] theorem tw_sslGetError (W : Net.World ω) (E : Engine σ) (buf : Bytes) (r : Int) (w : TWSt σ ω) :
    (tlsWorld W E buf).sslGetError r w = (.ok (codeOf w.ans.toErr), w) := rfl
@[simp] theorem tw_sslIsInitFinished (W : Net.World ω) (E : Engine σ) (buf : Bytes) (w : TWSt σ ω) :
    (tlsWorld W E buf).sslIsInitFinished w = (.ok (if E.initFinished w.s.e then 1 else 0), w) := rfl
@[simp] theorem tw_sslPending (W : Net.World ω) (E : Engine σ) (buf : Bytes) (w : TWSt σ ω) :
    (tlsWorld W E buf).sslPending w = (.ok (if E.pending w.s.e then 1 else 0), w) := rfl
@[simp] theorem tw_sslShutdown (W : Net.World ω) (E : Engine σ) (buf : Bytes) (w : TWSt σ ω) :
    (tlsWorld W E buf).sslShutdown w =
    match interp W w.s (E.sslShutdown w.s.e) with
    | (.ok (ans, _), s1) => (.ok (shutRes ans), { w with s := s1 })
    | (.exn e, s1) => (.thrown (toThrown e), { w with s := s1 })
    | (.abort _, s1) => (.halted, { w with s := s1 }) := rfl
@[simp] theorem tw_sslError (W : Net.World ω) (E : Engine σ) (buf : Bytes) (c : Int) (w : TWSt σ ω) :
    (tlsWorld W E buf).sslError c w = (.ok (-1), w) := rfl

end SockModel.GenWorld

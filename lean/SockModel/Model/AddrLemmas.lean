import SockModel.Model.Addr
/-! Helper lemmas for `Model/Addr.lean`: `memcmp` order on equal-length buffers,
byte encodings are injective. -/
namespace SockModel.Addr

theorem u8_eq_of_not_lt {a b : UInt8} (h1 : ¬ a < b) (h2 : ¬ b < a) : a = b := by
  rw [UInt8.lt_iff_toNat_lt] at h1 h2
  apply UInt8.toNat_inj.mp; omega

theorem ltBytes_irrefl (a : List UInt8) : ltBytes a a = false := by
  induction a with
  | nil => rfl
  | cons x xs ih => simp [ltBytes, UInt8.lt_irrefl, ih]

theorem ltBytes_asymm : ∀ (a b : List UInt8), ltBytes a b = true → ltBytes b a = false
  | [], _, h => by simp [ltBytes] at h
  | _ :: _, [], h => by simp [ltBytes] at h
  | x :: xs, y :: ys, h => by
    unfold ltBytes at h ⊢
    by_cases hxy : x < y
    · have : ¬ y < x := UInt8.lt_asymm hxy
      simp [this, hxy]
    · by_cases hyx : y < x
      · simp [hxy, hyx] at h
      · simp [hxy, hyx] at h ⊢
        exact ltBytes_asymm xs ys h

theorem ltBytes_trans : ∀ (a b c : List UInt8), a.length = b.length → b.length = c.length →
    ltBytes a b = true → ltBytes b c = true → ltBytes a c = true
  | [], _, _, _, _, h, _ => by simp [ltBytes] at h
  | _ :: _, [], _, _, _, h, _ => by simp [ltBytes] at h
  | _ :: _, _ :: _, [], _, _, _, h => by simp [ltBytes] at h
  | x :: xs, y :: ys, z :: zs, h1, h2, hab, hbc => by
    unfold ltBytes at hab hbc ⊢
    simp only [List.length_cons, Nat.add_right_cancel_iff] at h1 h2
    by_cases hxy : x < y
    · by_cases hyz : y < z
      · simp [UInt8.lt_trans hxy hyz]
      · by_cases hzy : z < y
        · simp [hyz, hzy] at hbc
        · have : y = z := u8_eq_of_not_lt hyz hzy
          subst this; simp [hxy]
    · by_cases hyx : y < x
      · simp [hxy, hyx] at hab
      · have hxy' : x = y := u8_eq_of_not_lt hxy hyx
        subst hxy'
        by_cases hxz : x < z
        · simp [hxz]
        · by_cases hzx : z < x
          · simp [hxz, hzx] at hbc
          · simp [hxz, hzx] at hbc ⊢
            simp [UInt8.lt_irrefl] at hab
            exact ltBytes_trans xs ys zs h1 h2 hab hbc

theorem ltBytes_total : ∀ (a b : List UInt8), a.length = b.length →
    ltBytes a b = true ∨ a = b ∨ ltBytes b a = true
  | [], [], _ => Or.inr (Or.inl rfl)
  | [], _ :: _, h => by simp at h
  | _ :: _, [], h => by simp at h
  | x :: xs, y :: ys, h => by
    simp only [List.length_cons, Nat.add_right_cancel_iff] at h
    unfold ltBytes
    by_cases hxy : x < y
    · simp [hxy]
    · by_cases hyx : y < x
      · simp [hxy, hyx]
      · have : x = y := u8_eq_of_not_lt hxy hyx
        subst this
        simp only [UInt8.lt_irrefl, if_false, List.cons.injEq, true_and]
        simpa using ltBytes_total xs ys h

theorem eqBytes_iff : ∀ (a b : List UInt8), a.length = b.length → (eqBytes a b = true ↔ a = b)
  | [], [], _ => by simp [eqBytes]
  | [], _ :: _, h => by simp at h
  | _ :: _, [], h => by simp at h
  | x :: xs, y :: ys, h => by
    simp only [List.length_cons, Nat.add_right_cancel_iff] at h
    simp [eqBytes, eqBytes_iff xs ys h]

theorem eq_iff (a b : Image) : eq a b = true ↔ a = b := by
  unfold eq
  constructor
  · intro h
    simp only [Bool.and_eq_true, beq_iff_eq] at h
    exact (eqBytes_iff a b h.1).mp h.2
  · intro h; subst h
    simp [(eqBytes_iff a a rfl).mpr rfl]

/-! ### byte encodings -/

theorem u8_ofNat_inj {a b : Nat} (ha : a < 256) (hb : b < 256) (h : UInt8.ofNat a = UInt8.ofNat b) : a = b := by
  have := congrArg UInt8.toNat h
  simp only [UInt8.toNat_ofNat'] at this
  omega

theorem be16_inj {p q : Nat} (hp : p < 65536) (hq : q < 65536) (h : be16 p = be16 q) : p = q := by
  simp only [be16, List.cons.injEq, and_true] at h
  have h1 := u8_ofNat_inj (by omega) (by omega) h.1
  have h2 := u8_ofNat_inj (by omega) (by omega) h.2
  omega

theorem be32_inj {p q : Nat} (hp : p < 4294967296) (hq : q < 4294967296) (h : be32 p = be32 q) : p = q := by
  simp only [be32, List.cons.injEq, and_true] at h
  have h1 := u8_ofNat_inj (by omega) (by omega) h.1
  have h2 := u8_ofNat_inj (by omega) (by omega) h.2.1
  have h3 := u8_ofNat_inj (by omega) (by omega) h.2.2.1
  have h4 := u8_ofNat_inj (by omega) (by omega) h.2.2.2
  omega

theorem le32_inj {p q : Nat} (hp : p < 4294967296) (hq : q < 4294967296) (h : le32 p = le32 q) : p = q := by
  simp only [le32, List.cons.injEq, and_true] at h
  have h1 := u8_ofNat_inj (by omega) (by omega) h.1
  have h2 := u8_ofNat_inj (by omega) (by omega) h.2.1
  have h3 := u8_ofNat_inj (by omega) (by omega) h.2.2.1
  have h4 := u8_ofNat_inj (by omega) (by omega) h.2.2.2
  omega

theorem length_encode4 (ip : List UInt8) (p : Nat) (h : ip.length = 4) : (encode4 ip p).length = 16 := by
  simp [encode4, be16, h]

theorem length_encode6 (ip : List UInt8) (p f s : Nat) (h : ip.length = 16) : (encode6 ip p f s).length = 28 := by
  simp [encode6, be16, be32, le32, h]

theorem mapFind_cons {V : Type} (k k' : Image) (v' : V) (rest : List (Image × V)) :
    mapFind k ((k', v') :: rest) =
      if lt k k' then none else if lt k' k then mapFind k rest else some v' := by
  rw [mapFind]

theorem mapFind_nil {V : Type} (k : Image) : mapFind k ([] : List (Image × V)) = none := by
  rw [mapFind]

end SockModel.Addr

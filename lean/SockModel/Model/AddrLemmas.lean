import SockModel.Model.Addr
/-! Helper lemmas for `Model/Addr.lean`: `memcmp` order on equal-length buffers,
byte encodings are injective. -/
namespace SockModel.Addr

theorem u8_eq_of_not_lt {a b : UInt8} (h1 : ¬ a < b) (h2 : ¬ b < a) : a = b := by
  rw [UInt8.lt_iff_toNat_lt] at h1 h2
  apply UInt8.toNat_inj.mp; omega

theorem ltBytes_irrefl (a : List UInt8) : ltBytes a a = false := by
  induction a with
  | nil => rfl
  | cons x xs ih => simp [ltBytes, UInt8.lt_irrefl, ih]

theorem ltBytes_asymm : ∀ (a b : List UInt8), ltBytes a b = true → ltBytes b a = false
  | [], _, h => by simp [ltBytes] at h
  | _ :: _, [], h => by simp [ltBytes] at h
  | x :: xs, y :: ys, h => by
    unfold ltBytes at h ⊢
    by_cases hxy : x < y
    · have : ¬ y < x := UInt8.lt_asymm hxy
      simp [this, hxy]
    · by_cases hyx : y < x
      · simp [hxy, hyx] at h
      · simp [hxy, hyx] at h ⊢
        exact ltBytes_asymm xs ys h

theorem ltBytes_trans : ∀ (a b c : List UInt8), a.length = b.length → b.length = c.length →
    ltBytes a b = true → ltBytes b c = true → ltBytes a c = true
  | [], _, _, _, _, h, _ => by simp [ltBytes] at h
  | _ :: _, [], _, _, _, h, _ => by simp [ltBytes] at h
  | _ :: _, _ :: _, [], _, _, _, h => by simp [ltBytes] at h
  | x :: xs, y :: ys, z :: zs, h1, h2, hab, hbc => by
    unfold ltBytes at hab hbc ⊢
    simp only [List.length_cons, Nat.add_right_cancel_iff] at h1 h2
    by_cases hxy : x < y
    · by_cases hyz : y < z
      · simp [UInt8.lt_trans hxy hyz]
      · by_cases hzy : z < y
        · simp [hyz, hzy] at hbc
        · have : y = z := u8_eq_of_not_lt hyz hzy
          subst this; simp [hxy]
    · by_cases hyx : y < x
      · simp [hxy, hyx] at hab
      · have hxy' : x = y := u8_eq_of_not_lt hxy hyx
        subst hxy'
        by_cases hxz : x < z
        · simp [hxz]
        · by_cases hzx : z < x
          · simp [hxz, hzx] at hbc
          · simp [hxz, hzx] at hbc ⊢
            simp [UInt8.lt_irrefl] at hab
            exact ltBytes_trans xs ys zs h1 h2 hab hbc

theorem ltBytes_total : ∀ (a b : List UInt8), a.length = b.length →
    ltBytes a b = true ∨ a = b ∨ ltBytes b a = true
  | [], [], _ => Or.inr (Or.inl rfl)
  | [], _ :: _, h => by simp at h
  | _ :: _, [], h => by simp at h
  | x :: xs, y :: ys, h => by
    simp only [List.length_cons, Nat.add_right_cancel_iff] at h
    unfold ltBytes
    by_cases hxy : x < y
    · simp [hxy]
    · by_cases hyx : y < x
      · simp [hxy, hyx]
      · have : x = y := u8_eq_of_not_lt hxy hyx
        subst this
        simp only [UInt8.lt_irrefl, if_false, List.cons.injEq, true_and]
        simpa using ltBytes_total xs ys h

theorem eqBytes_iff : ∀ (a b : List UInt8), a.length = b.length → (eqBytes a b = true ↔ a = b)
  | [], [], _ => by simp [eqBytes]
  | [], _ :: _, h => by simp at h
  | _ :: _, [], h => by simp at h
  | x :: xs, y :: ys, h => by
    simp only [List.length_cons, Nat.add_right_cancel_iff] at h
    simp [eqBytes, eqBytes_iff xs ys h]

theorem eq_iff (a b : Image) : eq a b = true ↔ a = b := by
  unfold eq
  constructor
  · intro h
    simp only [Bool.and_eq_true, beq_iff_eq] at h
    exact (eqBytes_iff a b h.1).mp h.2
  · intro h; subst h
    simp [(eqBytes_iff a a rfl).mpr rfl]

/-! ### byte encodings -/

theorem u8_ofNat_inj {a b : Nat} (ha : a < 256) (hb : b < 256) (h : UInt8.ofNat a = UInt8.ofNat b) : a = b := by
  have := congrArg UInt8.toNat h
  simp only [UInt8.toNat_ofNat'] at this
  omega

theorem be16_inj {p q : Nat} (hp : p < 65536) (hq : q < 65536) (h : be16 p = be16 q) : p = q := by
  simp only [be16, List.cons.injEq, and_true] at h
  have h1 := u8_ofNat_inj (by omega) (by omega) h.1
  have h2 := u8_ofNat_inj (by omega) (by omega) h.2
  omega

theorem be32_inj {p q : Nat} (hp : p < 4294967296) (hq : q < 4294967296) (h : be32 p = be32 q) : p = q := by
  simp only [be32, List.cons.injEq, and_true] at h
  have h1 := u8_ofNat_inj (by omega) (by omega) h.1
  have h2 := u8_ofNat_inj (by omega) (by omega) h.2.1
  have h3 := u8_ofNat_inj (by omega) (by omega) h.2.2.1
  have h4 := u8_ofNat_inj (by omega) (by omega) h.2.2.2
  omega

theorem le32_inj {p q : Nat} (hp : p < 4294967296) (hq : q < 4294967296) (h : le32 p = le32 q) : p = q := by
  simp only [le32, List.cons.injEq, and_true] at h
  have h1 := u8_ofNat_inj (by omega) (by omega) h.1
  have h2 := u8_ofNat_inj (by omega) (by omega) h.2.1
  have h3 := u8_ofNat_inj (by omega) (by omega) h.2.2.1
  have h4 := u8_ofNat_inj (by omega) (by omega) h.2.2.2
  omega

theorem length_encode4 (ip : List UInt8) (p : Nat) (h : ip.length = 4) : (encode4 ip p).length = 16 := by
  simp [encode4, be16, h]

theorem length_encode6 (ip : List UInt8) (p f s : Nat) (h : ip.length = 16) : (encode6 ip p f s).length = 28 := by
  simp [encode6, be16, be32, le32, h]

theorem mapFind_cons {V : Type} (k k' : Image) (v' : V) (rest : List (Image × V)) :
    mapFind k ((k', v') :: rest) =
      if lt k k' then none else if lt k' k then mapFind k rest else some v' := by
  rw [mapFind]

theorem mapFind_nil {V : Type} (k : Image) : mapFind k ([] : List (Image × V)) = none := by
  rw [mapFind]

end SockModel.Addr

/-! ### order, equivalence, injectivity, map insertion

The proofs of the C13 property theorems (`Props/C13.lean` re-states every one of them under its own name);
they live here because `Spec/C13.lean` (`model_satisfies_spec`) needs them too. -/
namespace SockModel.Addr.Lem

theorem lt_irrefl (a : Image) : lt a a = false := by
  simp [lt, ltBytes_irrefl]

theorem lt_trans (a b c : Image) (hab : lt a b = true) (hbc : lt b c = true) : lt a c = true := by
  unfold lt at *
  by_cases h1 : a.length < b.length
  · by_cases h2 : b.length < c.length
    · have : a.length < c.length := by omega
      simp [this]
    · by_cases h3 : c.length < b.length
      · simp [h2, h3] at hbc
      · have : a.length < c.length := by omega
        simp [this]
  · by_cases h1' : b.length < a.length
    · simp [h1, h1'] at hab
    · simp only [h1, h1', if_false] at hab
      by_cases h2 : b.length < c.length
      · have : a.length < c.length := by omega
        simp [this]
      · by_cases h3 : c.length < b.length
        · simp [h2, h3] at hbc
        · simp only [h2, h3, if_false] at hbc
          have e1 : a.length = b.length := by omega
          have e2 : b.length = c.length := by omega
          have n1 : ¬ a.length < c.length := by omega
          have n2 : ¬ c.length < a.length := by omega
          simp only [n1, n2, if_false]
          exact ltBytes_trans a b c e1 e2 hab hbc

theorem lt_asymm (a b : Image) (h : lt a b = true) : lt b a = false := by
  unfold lt at *
  by_cases h1 : a.length < b.length
  · have n : ¬ b.length < a.length := by omega
    simp [n, h1]
  · by_cases h2 : b.length < a.length
    · simp [h1, h2] at h
    · simp only [h1, h2, if_false] at h ⊢
      exact ltBytes_asymm a b h

theorem lt_total (a b : Image) : lt a b = true ∨ a = b ∨ lt b a = true := by
  unfold lt
  by_cases h1 : a.length < b.length
  · simp [h1]
  · by_cases h2 : b.length < a.length
    · simp [h1, h2]
    · simp only [h1, h2, if_false]
      exact ltBytes_total a b (by omega)

theorem eq_iff_not_lt_not_gt (a b : Image) : eq a b = true ↔ (lt a b = false ∧ lt b a = false) := by
  rw [eq_iff]
  constructor
  · intro h; subst h; exact ⟨lt_irrefl a, lt_irrefl a⟩
  · intro ⟨h1, h2⟩
    rcases lt_total a b with h | h | h
    · rw [h1] at h; cases h
    · exact h
    · rw [h2] at h; cases h

theorem encode4_injective (ip1 ip2 : List UInt8) (p1 p2 : Nat)
    (h1 : ip1.length = 4) (h2 : ip2.length = 4) (hp1 : p1 < 65536) (hp2 : p2 < 65536) :
    eq (encode4 ip1 p1) (encode4 ip2 p2) = true ↔ (ip1 = ip2 ∧ p1 = p2) := by
  rw [eq_iff]
  constructor
  · intro h
    unfold encode4 at h
    have h' : be16 p1 ++ (ip1 ++ List.replicate 8 0) = be16 p2 ++ (ip2 ++ List.replicate 8 0) := by
      simpa using h
    have ⟨hb, hr⟩ := List.append_inj h' (by simp [be16])
    have ⟨hi, _⟩ := List.append_inj hr (by omega)
    exact ⟨hi, be16_inj hp1 hp2 hb⟩
  · intro ⟨hi, hp⟩; subst hi; subst hp; rfl

theorem encode6_injective (ip1 ip2 : List UInt8) (p1 p2 f1 f2 s1 s2 : Nat)
    (h1 : ip1.length = 16) (h2 : ip2.length = 16) (hp1 : p1 < 65536) (hp2 : p2 < 65536)
    (hf1 : f1 < 4294967296) (hf2 : f2 < 4294967296) (hs1 : s1 < 4294967296) (hs2 : s2 < 4294967296) :
    eq (encode6 ip1 p1 f1 s1) (encode6 ip2 p2 f2 s2) = true ↔ (ip1 = ip2 ∧ p1 = p2 ∧ f1 = f2 ∧ s1 = s2) := by
  rw [eq_iff]
  constructor
  · intro h
    unfold encode6 at h
    have h' : be16 p1 ++ (be32 f1 ++ (ip1 ++ le32 s1)) = be16 p2 ++ (be32 f2 ++ (ip2 ++ le32 s2)) := by
      simpa using h
    have ⟨hb, hr⟩ := List.append_inj h' (by simp [be16])
    have ⟨hf, hr2⟩ := List.append_inj hr (by simp [be32])
    have ⟨hi, hs⟩ := List.append_inj hr2 (by omega)
    exact ⟨hi, be16_inj hp1 hp2 hb, be32_inj hf1 hf2 hf, le32_inj hs1 hs2 hs⟩
  · intro ⟨hi, hp, hf, hs⟩; subst hi; subst hp; subst hf; subst hs; rfl

theorem encode_injective (f g : Fields) (hf : f.wf) (hg : g.wf) :
    eq (encode f) (encode g) = true ↔ f = g := by
  obtain ⟨fv6, fip, fport, fflow, fscope⟩ := f
  obtain ⟨gv6, gip, gport, gflow, gscope⟩ := g
  simp only [Fields.wf] at hf hg
  cases fv6 <;> cases gv6
  · -- v4 / v4
    simp only [Bool.false_eq_true, if_false] at hf hg
    simp only [encode, Bool.false_eq_true, if_false]
    rw [encode4_injective fip gip fport gport hf.2.2.2.1 hg.2.2.2.1 hf.1 hg.1]
    constructor
    · intro ⟨a, b⟩
      simp [a, b, hf.2.2.2.2.1, hf.2.2.2.2.2, hg.2.2.2.2.1, hg.2.2.2.2.2]
    · intro h; cases h; exact ⟨rfl, rfl⟩
  · -- v4 / v6: lengths differ
    simp only [Bool.false_eq_true, if_false, if_true] at hf hg
    simp only [encode, Bool.false_eq_true, if_false, if_true]
    constructor
    · intro h
      have := congrArg List.length ((eq_iff _ _).mp h)
      rw [length_encode4 _ _ hf.2.2.2.1, length_encode6 _ _ _ _ hg.2.2.2] at this
      cases this
    · intro h; cases h
  · simp only [Bool.false_eq_true, if_false, if_true] at hf hg
    simp only [encode, Bool.false_eq_true, if_false, if_true]
    constructor
    · intro h
      have := congrArg List.length ((eq_iff _ _).mp h)
      rw [length_encode4 _ _ hg.2.2.2.1, length_encode6 _ _ _ _ hf.2.2.2] at this
      cases this
    · intro h; cases h
  · simp only [if_true] at hf hg
    simp only [encode, if_true]
    rw [encode6_injective fip gip fport gport fflow gflow fscope gscope hf.2.2.2 hg.2.2.2 hf.1 hg.1
      hf.2.1 hg.2.1 hf.2.2.1 hg.2.2.1]
    constructor
    · intro ⟨a, b, c, d⟩; simp [a, b, c, d]
    · intro h; cases h; exact ⟨rfl, rfl, rfl, rfl⟩

theorem mapFind_insert {V : Type} (k k' : Image) (v : V) (m : List (Image × V)) :
    mapFind k' (mapInsert k v m) = if k' = k then some v else mapFind k' m := by
  induction m with
  | nil =>
    unfold mapInsert
    by_cases hk : k' = k
    · subst hk; simp [mapFind, lt_irrefl]
    · simp only [hk, if_false]
      rcases lt_total k' k with h | h | h
      · simp [mapFind, h]
      · exact absurd h hk
      · simp [mapFind, h, lt_asymm _ _ h]
  | cons hd rest ih =>
    obtain ⟨k0, v0⟩ := hd
    unfold mapInsert
    by_cases h1 : lt k k0 = true
    · simp only [h1, if_true]
      by_cases hk : k' = k
      · subst hk; simp [mapFind, lt_irrefl]
      · simp only [hk, if_false]
        rcases lt_total k' k with h | h | h
        · have : lt k' k0 = true := lt_trans _ _ _ h h1
          simp [mapFind, h, this]
        · exact absurd h hk
        · rw [mapFind_cons]
          simp [h, lt_asymm _ _ h]
    · by_cases h2 : lt k0 k = true
      · simp only [h1, h2, if_true, Bool.false_eq_true, if_false]
        by_cases h3 : lt k' k0 = true
        · have hne : k' ≠ k := by
            intro e; subst e
            have := lt_asymm _ _ h3; rw [h2] at this; cases this
          simp [mapFind, h3, hne]
        · by_cases h4 : lt k0 k' = true
          · rw [mapFind_cons, mapFind_cons]
            simp only [h3, h4, if_true]
            rw [ih]
            simp
          · have hk0 : k' = k0 := by
              have := (eq_iff_not_lt_not_gt k' k0).mpr ⟨by simpa using h3, by simpa using h4⟩
              exact (eq_iff k' k0).mp this
            subst hk0
            have hne : k' ≠ k := by
              intro e; subst e; rw [lt_irrefl] at h2; cases h2
            simp [mapFind, lt_irrefl, hne]
      · have hk : k = k0 := by
          have := (eq_iff_not_lt_not_gt k k0).mpr ⟨by simpa using h1, by simpa using h2⟩
          exact (eq_iff k k0).mp this
        subst hk
        by_cases hk : k' = k
        · subst hk; simp [mapFind, lt_irrefl]
        · simp only [hk, if_false]
          rcases lt_total k' k with h | h | h
          · simp [mapFind, h, lt_irrefl]
          · exact absurd h hk
          · simp [mapFind, h, lt_asymm _ _ h, lt_irrefl]

end SockModel.Addr.Lem

import SockModel.Model.Fd
/-!
Ownership calculus for `Model/Fd.lean`.

`Sp m R` ("m keeps the ledger"): from every well-formed ledger and under every fault oracle,
* if `m` returns `a`, the live list grew by exactly some `new` (appended), and `R a new faulted` holds,
  where `faulted` says whether any call made by `m` was failed by the oracle;
* if `m` throws, the live list is what it was: everything `m` opened has been closed again;
* in both cases nothing was closed twice and nothing foreign was closed.
-/
namespace SockModel.Fd

structure WF (L : Ledger) : Prop where
  nodup : L.live.Nodup
  below : ∀ x ∈ L.live, x < L.next
  noTwice : L.closedTwice = false
  noForeign : L.closedForeign = false

theorem WF.init : WF {} := ⟨List.nodup_nil, by simp, rfl, rfl⟩

def Sp {α : Type} (m : M α) (R : α → List Fd → Bool → Prop) : Prop :=
  ∀ (o : Oracle) (L : Ledger), WF L → ∀ r L', m o L = (r, L') →
    WF L' ∧ L.nfault ≤ L'.nfault ∧ L.next ≤ L'.next ∧
    match r with
    | .ok a => ∃ new, L'.live = L.live ++ new ∧ R a new (decide (L.nfault < L'.nfault))
    | .error _ => L'.live = L.live

/-- opens nothing, and returning normally means that no call failed -/
def Quiet {α : Type} (m : M α) : Prop := Sp m (fun _ new f => new = [] ∧ f = false)

theorem bind_run {α β : Type} (m : M α) (k : α → M β) (o : Oracle) (L : Ledger) :
    (m >>= k) o L = match m o L with
      | (.ok a, L') => k a o L'
      | (.error e, L') => (.error e, L') := rfl

theorem pure_run {α : Type} (a : α) (o : Oracle) (L : Ledger) : (pure a : M α) o L = (.ok a, L) := rfl

theorem Sp.weaken {α : Type} {m : M α} {R R' : α → List Fd → Bool → Prop}
    (h : Sp m R) (hw : ∀ a n f, R a n f → R' a n f) : Sp m R' := by
  intro o L hL r L' hrun
  obtain ⟨h1, h2, h3, h4⟩ := h o L hL r L' hrun
  refine ⟨h1, h2, h3, ?_⟩
  cases r with
  | error e => exact h4
  | ok a =>
    obtain ⟨new, h5, h6⟩ := h4
    exact ⟨new, h5, hw _ _ _ h6⟩

theorem Sp_pure {α : Type} (a : α) : Sp (pure a : M α) (fun b new f => b = a ∧ new = [] ∧ f = false) := by
  intro o L hL r L' hrun
  rw [pure_run] at hrun
  cases hrun
  exact ⟨hL, Nat.le_refl _, Nat.le_refl _, [], by simp, rfl, rfl, by simp⟩

theorem Sp_raise {α : Type} (e : Exn) (R : α → List Fd → Bool → Prop) : Sp (raise e : M α) R := by
  intro o L hL r L' hrun
  cases hrun
  exact ⟨hL, Nat.le_refl _, Nat.le_refl _, rfl⟩

theorem Sp_sys (c : Sys) (fd : Option Fd) :
    Sp (sys c fd) (fun r new f => new = [] ∧ (r = none → f = false)) := by
  intro o L hL r L' hrun
  cases hrun
  refine ⟨⟨hL.nodup, hL.below, hL.noTwice, hL.noForeign⟩, ?_, Nat.le_refl _, [], by simp, rfl, ?_⟩
  · simp only; omega
  · intro h; simp [h]

/-- sequencing after a part that opens nothing -/
theorem Sp_bind {α β : Type} {m : M α} {k : α → M β} {R0 : α → Bool → Prop} {R : β → List Fd → Bool → Prop}
    (hm : Sp m (fun a new f => new = [] ∧ R0 a f))
    (hk : ∀ a, Sp (k a) (fun b new f => ∀ f0, R0 a f0 → R b new (f0 || f))) :
    Sp (m >>= k) R := by
  intro o L hL r L' hrun
  rw [bind_run] at hrun
  cases h1 : m o L with
  | mk r1 L1 =>
    rw [h1] at hrun
    obtain ⟨w1, n1, x1, p1⟩ := hm o L hL r1 L1 h1
    cases r1 with
    | error e =>
      simp only at hrun
      cases hrun
      exact ⟨w1, n1, x1, p1⟩
    | ok a =>
      simp only at hrun
      obtain ⟨new, l1, rnew, r0⟩ := p1
      subst rnew
      simp only [List.append_nil] at l1
      obtain ⟨w2, n2, x2, p2⟩ := hk a o L1 w1 r L' hrun
      refine ⟨w2, by omega, by omega, ?_⟩
      cases r with
      | error e => simp only at p2 ⊢; rw [p2, l1]
      | ok b =>
        obtain ⟨new2, l2, r2⟩ := p2
        refine ⟨new2, by rw [l2, l1], ?_⟩
        have := r2 _ r0
        have e : (decide (L.nfault < L1.nfault) || decide (L1.nfault < L'.nfault)) = decide (L.nfault < L'.nfault) := by
          by_cases h1 : L.nfault < L1.nfault <;> by_cases h2 : L1.nfault < L'.nfault <;>
            simp [h1, h2] <;> omega
        rw [← e]; exact this

/-- the common case: the first part is `Quiet` -/
theorem Sp_seq {α β : Type} {m : M α} {k : α → M β} {R : β → List Fd → Bool → Prop}
    (hm : Quiet m) (hk : ∀ a, Sp (k a) R) : Sp (m >>= k) R := by
  apply Sp_bind (R0 := fun _ f => f = false) hm
  intro a
  apply (hk a).weaken
  intro b n f h f0 hf0
  subst hf0
  simpa using h

theorem WF.close_mem {L : Ledger} (h : WF L) {fd : Fd} (hm : fd ∈ L.live) :
    WF (L.close fd) ∧ (L.close fd).live = L.live.erase fd ∧ (L.close fd).nfault = L.nfault ∧
      (L.close fd).next = L.next := by
  unfold Ledger.close
  rw [if_pos hm]
  refine ⟨⟨h.nodup.erase _, ?_, h.noTwice, h.noForeign⟩, rfl, rfl, rfl⟩
  intro x hx
  exact h.below x (List.mem_of_mem_erase hx)

theorem erase_append_fresh {l : List Fd} {fd : Fd} (h : fd ∉ l) : (l ++ [fd]).erase fd = l := by
  induction l with
  | nil => simp
  | cons x xs ih =>
    have hx : x ≠ fd := fun e => h (by simp [e])
    have hxs : fd ∉ xs := fun e => h (by simp [e])
    simp only [List.cons_append]
    rw [List.erase_cons_tail (by simpa using hx)]
    rw [ih hxs]

/-- RAII: `opener` yields a fresh descriptor `fd`; the object owning it is alive while `body fd`
runs, so a throwing `body` closes it.  The descriptor is part of what the whole program opened. -/
theorem Sp_open_guard {α : Type} {opener : M Fd} {body : Fd → M α} {Rb : Fd → α → List Fd → Bool → Prop}
    (ho : Sp opener (fun fd new f => new = [fd] ∧ f = false))
    (hb : ∀ fd, Sp (body fd) (Rb fd)) :
    Sp (opener >>= fun fd => guardFd fd (body fd))
      (fun a new f => ∃ fd nb, new = fd :: nb ∧ Rb fd a nb f) := by
  intro o L hL r L' hrun
  rw [bind_run] at hrun
  cases h1 : opener o L with
  | mk r1 L1 =>
    rw [h1] at hrun
    obtain ⟨w1, n1, x1, p1⟩ := ho o L hL r1 L1 h1
    cases r1 with
    | error e =>
      simp only at hrun
      cases hrun
      exact ⟨w1, n1, x1, p1⟩
    | ok fd =>
      simp only at hrun
      obtain ⟨new, l1, rnew, f0⟩ := p1
      subst rnew
      unfold guardFd at hrun
      cases h2 : body fd o L1 with
      | mk r2 L2 =>
        rw [h2] at hrun
        obtain ⟨w2, n2, x2, p2⟩ := hb fd o L1 w1 r2 L2 h2
        have f0' : L1.nfault = L.nfault := by
          simp only [decide_eq_false_iff_not, Nat.not_lt] at f0; omega
        cases r2 with
        | ok a =>
          simp only at hrun
          cases hrun
          obtain ⟨new2, l2, r2⟩ := p2
          refine ⟨w2, by omega, by omega, fd :: new2, by rw [l2, l1]; simp, fd, new2, rfl, ?_⟩
          rw [← f0']; exact r2
        | error e =>
          simp only at hrun p2
          cases hrun
          have hmem : fd ∈ L2.live := by rw [p2, l1]; simp
          obtain ⟨w3, l3, n3, x3⟩ := w2.close_mem hmem
          refine ⟨w3, by omega, by omega, ?_⟩
          show (L2.close fd).live = L.live
          rw [l3, p2, l1]
          apply erase_append_fresh
          have := w1.nodup
          rw [l1] at this
          intro hin
          have := (List.nodup_append.mp this).2.2 fd hin fd (by simp)
          exact this rfl

/-- a constructor that took over the descriptor of an rvalue argument before it can fail -/
def Consumes (fd : Fd) (m : M (List Fd)) : Prop :=
  ∀ (o : Oracle) (L : Ledger), WF L → fd ∈ L.live → ∀ r L', m o L = (r, L') →
    WF L' ∧ L.nfault ≤ L'.nfault ∧ L.next ≤ L'.next ∧
    match r with
    | .ok a => L'.live = L.live ∧ a = [fd] ∧ L'.nfault = L.nfault
    | .error _ => L'.live = L.live.erase fd

theorem Consumes_guard {fd : Fd} {body : M (List Fd)}
    (hb : Sp body (fun a new f => a = [fd] ∧ new = [] ∧ f = false)) :
    Consumes fd (guardFd fd body) := by
  intro o L hL hmem r L' hrun
  unfold guardFd at hrun
  cases h2 : body o L with
  | mk r2 L2 =>
    rw [h2] at hrun
    obtain ⟨w, n, x, p⟩ := hb o L hL r2 L2 h2
    cases r2 with
    | ok a =>
      simp only at hrun
      cases hrun
      obtain ⟨new, l, ra, rn, rf⟩ := p
      subst rn
      simp only [List.append_nil] at l
      refine ⟨w, n, x, l, ra, ?_⟩
      simp only [decide_eq_false_iff_not, Nat.not_lt] at rf
      omega
    | error e =>
      simp only at hrun p
      cases hrun
      obtain ⟨w3, l3, n3, x3⟩ := w.close_mem (by rw [p]; exact hmem)
      exact ⟨w3, by omega, by omega, by show (L2.close fd).live = _; rw [l3, p]⟩

theorem Sp_tryM {α : Type} {m : M α} {R : α → List Fd → Bool → Prop} (h : Sp m R) :
    Sp (tryM m) (fun r new f => match r with | .ok a => R a new f | .error _ => new = []) := by
  intro o L hL r L' hrun
  unfold tryM at hrun
  cases h2 : m o L with
  | mk r2 L2 =>
    rw [h2] at hrun
    simp only at hrun
    cases hrun
    obtain ⟨w, n, x, p⟩ := h o L hL r2 L' h2
    refine ⟨w, n, x, ?_⟩
    cases r2 with
    | ok a => exact p
    | error e => exact ⟨[], by simp [p], rfl⟩

/-! ### the building blocks keep the ledger -/

theorem Quiet_sysE (c : Sys) (fd : Fd) : Quiet (sysE c fd) := by
  unfold sysE
  apply Sp_bind (R0 := fun r f => r = none → f = false) (Sp_sys c (some fd))
  intro r
  cases r with
  | some e => exact Sp_raise _ _
  | none =>
    apply (Sp_pure ()).weaken
    intro b n f ⟨_, hn, hf⟩ f0 h0
    subst hf; simp [hn, h0 rfl]

theorem Quiet_sysAddrMsg (c : Sys) (fd : Fd) : Quiet (sysAddrMsg c fd) := by
  unfold sysAddrMsg
  apply Sp_bind (R0 := fun r f => r = none → f = false) (Sp_sys c (some fd))
  intro r
  cases r with
  | some e =>
    apply Sp_bind (R0 := fun _ _ => True) ((Sp_sys .getnameinfo none).weaken (by intro a n f h; exact ⟨h.1, trivial⟩))
    intro g
    cases g <;> exact Sp_raise _ _
  | none =>
    apply (Sp_pure ()).weaken
    intro b n f ⟨_, hn, hf⟩ f0 h0
    subst hf; simp [hn, h0 rfl]

theorem Quiet_gai (c : Sys) : Quiet (gai c) := by
  unfold gai
  apply Sp_bind (R0 := fun r f => r = none → f = false) (Sp_sys c none)
  intro r
  cases r with
  | some e => exact Sp_raise _ _
  | none =>
    apply (Sp_pure ()).weaken
    intro b n f ⟨_, hn, hf⟩ f0 h0
    subst hf; simp [hn, h0 rfl]

theorem Quiet_setNonBlocking (fd : Fd) : Quiet (setNonBlocking fd) := by
  unfold setNonBlocking
  exact Sp_seq (Quiet_sysE _ _) (fun _ => Quiet_sysE _ _)

theorem Sp_sysOpen (c : Sys) (fd : Option Fd) :
    Sp (sysOpen c fd) (fun r new f => match r with
      | .ok x => new = [x] ∧ f = false
      | .error _ => new = []) := by
  intro o L hL r L' hrun
  unfold sysOpen at hrun
  split at hrun <;> cases hrun
  · exact ⟨⟨hL.nodup, hL.below, hL.noTwice, hL.noForeign⟩, by simp only; omega, Nat.le_refl _, [], by simp, rfl⟩
  · refine ⟨⟨?_, ?_, hL.noTwice, hL.noForeign⟩, Nat.le_refl _, by simp only; omega, [L.next], rfl, rfl, by simp⟩
    · apply List.nodup_append.mpr
      refine ⟨hL.nodup, by simp, ?_⟩
      intro a ha b hb
      simp only [List.mem_singleton] at hb
      subst hb
      exact Nat.ne_of_lt (hL.below a ha)
    · intro x hx
      simp only [List.mem_append, List.mem_singleton] at hx
      cases hx with
      | inl h => exact Nat.lt_succ_of_lt (hL.below x h)
      | inr h => subst h; exact Nat.lt_succ_self _

end SockModel.Fd

namespace SockModel.Fd

/-! ### every program of the scenario set keeps the ledger -/

theorem Sp_openImpl (c : Sys) (arg : Option Fd) :
    Sp (openImpl c arg) (fun fd new f => new = [fd] ∧ f = false) := by
  intro o L hL r L' hrun
  unfold openImpl at hrun
  rw [bind_run] at hrun
  cases h1 : sysOpen c arg o L with
  | mk r1 L1 =>
    rw [h1] at hrun
    obtain ⟨w1, n1, x1, p1⟩ := Sp_sysOpen c arg o L hL r1 L1 h1
    cases r1 with
    | error e => simp only at hrun; cases hrun; exact ⟨w1, n1, x1, p1⟩
    | ok a =>
      simp only at hrun
      obtain ⟨new, l1, p⟩ := p1
      cases a with
      | error e =>
        simp only at hrun p
        cases hrun
        subst p
        exact ⟨w1, n1, x1, by simpa using l1⟩
      | ok fd =>
        simp only at hrun p
        cases hrun
        exact ⟨w1, n1, x1, new, l1, p⟩

/-- result of a constructor: the descriptors it returns are exactly the ones it added, no call failed -/
def Owned (a new : List Fd) (f : Bool) : Prop := a = new ∧ f = false
/-- result of an operation on a live object -/
def Nothing (a new : List Fd) (f : Bool) : Prop := a = [] ∧ new = [] ∧ f = false

theorem Sp_ret (l : List Fd) : Sp (pure l : M (List Fd)) (fun a new f => a = l ∧ new = [] ∧ f = false) := Sp_pure l

theorem Sp_addrCtor : Sp addrCtor Nothing := Sp_seq (Quiet_gai _) (fun _ => Sp_ret [])
theorem Sp_addrPrint : Sp addrPrint Nothing := Sp_seq (Quiet_gai _) (fun _ => Sp_ret [])

theorem owned_of_guard {a new : List Fd} {f : Bool}
    (h : ∃ fd nb, new = fd :: nb ∧ (a = [fd] ∧ nb = [] ∧ f = false)) : Owned a new f := by
  obtain ⟨fd, nb, h1, h2, h3, h4⟩ := h
  subst h3; exact ⟨by rw [h2, h1], h4⟩

theorem Sp_udpCtor : Sp udpCtor Owned := by
  apply (Sp_open_guard (Rb := fun fd a nb f => a = [fd] ∧ nb = [] ∧ f = false) (Sp_openImpl _ _) _).weaken
  · intro a n f h; exact owned_of_guard h
  · intro fd
    exact Sp_seq (Quiet_sysAddrMsg _ _) fun _ => Sp_seq (Quiet_sysE _ _) fun _ =>
      Sp_seq (Quiet_setNonBlocking _) fun _ => Sp_ret [fd]

theorem Sp_tcpCtor : Sp tcpCtor Owned := by
  apply (Sp_open_guard (Rb := fun fd a nb f => a = [fd] ∧ nb = [] ∧ f = false) (Sp_openImpl _ _) _).weaken
  · intro a n f h; exact owned_of_guard h
  · intro fd
    exact Sp_seq (Quiet_sysAddrMsg _ _) fun _ => Sp_seq (Quiet_setNonBlocking _) fun _ => Sp_ret [fd]

theorem Sp_acceptorCtor : Sp acceptorCtor Owned := by
  apply (Sp_open_guard (Rb := fun fd a nb f => a = [fd] ∧ nb = [] ∧ f = false) (Sp_openImpl _ _) _).weaken
  · intro a n f h; exact owned_of_guard h
  · intro fd
    exact Sp_seq (Quiet_sysE _ _) fun _ => Sp_seq (Quiet_sysAddrMsg _ _) fun _ =>
      Sp_seq (Quiet_setNonBlocking _) fun _ => Sp_ret [fd]

theorem Sp_driverCtor : Sp driverCtor Owned := by
  unfold driverCtor
  apply Sp_seq (Quiet_gai _)
  intro _
  apply (Sp_open_guard (Rb := fun pfrom a nb f => ∃ pto, nb = [pto] ∧ a = [pfrom, pto] ∧ f = false)
    (Sp_openImpl _ _) _).weaken
  · intro a n f ⟨fd, nb, h1, pto, h2, h3, h4⟩
    subst h2; exact ⟨by rw [h3, h1], h4⟩
  · intro pfrom
    apply (Sp_open_guard (Rb := fun pto a nb f => a = [pfrom, pto] ∧ nb = [] ∧ f = false)
      (Sp_openImpl _ _) _).weaken
    · intro a n f ⟨pto, nb, h1, h2, h3, h4⟩
      subst h3; exact ⟨pto, h1, h2, h4⟩
    · intro pto
      exact Sp_seq (Quiet_sysAddrMsg _ _) fun _ => Sp_seq (Quiet_sysE _ _) fun _ =>
        Sp_seq (Quiet_gai _) fun _ => Sp_seq (Quiet_sysAddrMsg _ _) fun _ => Sp_ret [pfrom, pto]

theorem Consumes_bufferedCtor (q : Bool) (fd : Fd) : Consumes fd (bufferedCtor q fd) := by
  apply Consumes_guard
  cases q
  · exact Sp_seq ((Sp_pure ()).weaken (by intro b n f h; exact ⟨h.2.1, h.2.2⟩)) fun _ => Sp_ret [fd]
  · exact Sp_seq (Quiet_sysE _ _) fun _ => Sp_ret [fd]

theorem Consumes_tcpAsyncAttach (fd : Fd) : Consumes fd (tcpAsyncAttach fd) :=
  Consumes_guard (Sp_seq (Quiet_sysE _ _) fun _ => Sp_ret [fd])

theorem Consumes_acceptorAsyncAttach (fd : Fd) : Consumes fd (acceptorAsyncAttach fd) :=
  Consumes_guard (Sp_seq (Quiet_sysE _ _) fun _ => Sp_ret [fd])

theorem Consumes_udpAsyncAttach (fd : Fd) : Consumes fd (udpAsyncAttach fd) := by
  intro o L hL hmem r L' hrun
  cases hrun
  exact ⟨hL, Nat.le_refl _, Nat.le_refl _, rfl, rfl, rfl⟩

theorem Sp_udpSendTo (fd : Fd) : Sp (udpSendTo fd) Nothing :=
  Sp_seq (Quiet_sysE _ _) fun _ => Sp_seq (Quiet_sysAddrMsg _ _) fun _ => Sp_ret []

theorem Sp_udpReceiveFrom (fd : Fd) : Sp (udpReceiveFrom fd) Nothing :=
  Sp_seq (Quiet_sysE _ _) fun _ => Sp_seq (Quiet_sysE _ _) fun _ => Sp_ret []

theorem Sp_tcpSend (fd : Fd) (more : Nat) : Sp (tcpSend fd more) Nothing := by
  induction more with
  | zero => exact Sp_seq (Quiet_sysE _ _) fun _ => Sp_seq (Quiet_sysE _ _) fun _ => Sp_ret []
  | succ n ih => exact Sp_seq (Quiet_sysE _ _) fun _ => Sp_seq (Quiet_sysE _ _) fun _ => ih

theorem Sp_tcpReceive (fd : Fd) : Sp (tcpReceive fd) Nothing :=
  Sp_seq (Quiet_sysE _ _) fun _ => Sp_seq (Quiet_sysE _ _) fun _ => Sp_ret []

theorem Sp_query (c : Sys) (fd : Fd) : Sp (query c fd) Nothing :=
  Sp_seq (Quiet_sysE _ _) fun _ => Sp_ret []

theorem Sp_driverStop (fd : Fd) : Sp (driverStop fd) Nothing :=
  Sp_seq (Quiet_sysE _ _) fun _ => Sp_seq (Quiet_sysAddrMsg _ _) fun _ => Sp_ret []

theorem Sp_acceptOn (fd : Fd) : Sp (acceptOn fd) Owned := by
  apply (Sp_open_guard (Rb := fun c a nb f => a = [c] ∧ nb = [] ∧ f = false) (Sp_openImpl _ _) _).weaken
  · intro a n f h; exact owned_of_guard h
  · intro c
    exact Sp_seq (Quiet_setNonBlocking _) fun _ => Sp_ret [c]

theorem Sp_acceptorListen (ready : Bool) (fd : Fd) : Sp (acceptorListen ready fd) Owned := by
  unfold acceptorListen
  apply Sp_seq (Quiet_sysE _ _); intro _
  apply Sp_seq (Quiet_sysE _ _); intro _
  cases ready
  · exact (Sp_ret []).weaken (by intro a n f ⟨h1, h2, h3⟩; exact ⟨by rw [h1, h2], h3⟩)
  · exact Sp_acceptOn fd

end SockModel.Fd

namespace SockModel.Fd

/-! ### the driver step -/

/-- what a `Step` that returns normally guarantees -/
def StepPost (d : DSt) (out : StepOut) (new : List Fd) (f : Bool) : Prop :=
  out.fds = new ∧
  (f = true → ∃ ev ∈ out.evs, ev.reportsFailure = true) ∧
  (∀ fd, Ev.discarded fd ∈ out.evs → ∃ s ∈ d.socks, s.fd = fd ∧ s.kind ≠ .tcp)

theorem Sp_task_sys {d : DSt} {s : ASock} (hs : s ∈ d.socks) (c : Sys) (bad good : StepOut)
    (hb : bad.fds = [] ∧ (∃ ev ∈ bad.evs, ev.reportsFailure = true) ∧
      (∀ fd, Ev.discarded fd ∈ bad.evs → fd = s.fd ∧ s.kind ≠ .tcp))
    (hg : good.fds = [] ∧ ∀ fd, Ev.discarded fd ∉ good.evs) :
    Sp (do match ← sys c (some s.fd) with
          | some _ => pure bad
          | none => pure good) (StepPost d) := by
  apply Sp_bind (R0 := fun r f => r = none → f = false) (Sp_sys c (some s.fd))
  intro r
  cases r with
  | some e =>
    apply (Sp_pure bad).weaken
    intro b n f ⟨h1, h2, h3⟩ f0 _
    subst h1 h2
    exact ⟨hb.1, fun _ => hb.2.1, fun fd hfd => ⟨s, hs, (hb.2.2 fd hfd).1.symm, (hb.2.2 fd hfd).2⟩⟩
  | none =>
    apply (Sp_pure good).weaken
    intro b n f ⟨h1, h2, h3⟩ f0 h0
    subst h1 h2 h3
    refine ⟨hg.1, ?_, fun fd hfd => absurd hfd (hg.2 fd)⟩
    intro hf; simp [h0 rfl] at hf

theorem Sp_socketTask (d : DSt) (s : ASock) (hs : s ∈ d.socks) : Sp (socketTask d s) (StepPost d) := by
  unfold socketTask
  split
  · -- readable
    cases hk : s.kind with
    | tcp =>
      simp only
      apply Sp_task_sys hs
      · exact ⟨rfl, ⟨_, List.mem_singleton.mpr rfl, rfl⟩, by simp⟩
      · exact ⟨rfl, by simp⟩
    | udp =>
      simp only
      apply Sp_task_sys hs
      · refine ⟨rfl, ⟨_, List.mem_singleton.mpr rfl, rfl⟩, ?_⟩
        intro fd hfd
        simp only [List.mem_singleton, Ev.discarded.injEq] at hfd
        exact ⟨hfd, by simp [hk]⟩
      · exact ⟨rfl, by simp⟩
    | acc =>
      simp only
      -- accept, then the wrapped descriptor is owned by a local that dies if anything throws
      intro o L hL r L' hrun
      rw [bind_run] at hrun
      cases h1 : sysOpen .accept (some s.fd) o L with
      | mk r1 L1 =>
        rw [h1] at hrun
        obtain ⟨w1, n1, x1, p1⟩ := Sp_sysOpen _ _ o L hL r1 L1 h1
        cases r1 with
        | error e => simp only at hrun; cases hrun; exact ⟨w1, n1, x1, p1⟩
        | ok a =>
          simp only at hrun
          obtain ⟨new, l1, p⟩ := p1
          have hdisc : ∀ fd, Ev.discarded fd ∈ [Ev.discarded s.fd] → ∃ s' ∈ d.socks, s'.fd = fd ∧ s'.kind ≠ .tcp := by
            intro fd hfd
            simp only [List.mem_singleton, Ev.discarded.injEq] at hfd
            exact ⟨s, hs, hfd.symm, by simp [hk]⟩
          cases a with
          | error e =>
            simp only at hrun p
            rw [pure_run] at hrun
            cases hrun
            subst p
            exact ⟨w1, n1, x1, [], l1, rfl, fun _ => ⟨_, List.mem_singleton.mpr rfl, rfl⟩, hdisc⟩
          | ok c =>
            simp only at hrun p
            obtain ⟨pn, pf⟩ := p
            subst pn
            have pf' : L1.nfault = L.nfault := by
              simp only [decide_eq_false_iff_not, Nat.not_lt] at pf; omega
            rw [bind_run] at hrun
            unfold tryM at hrun
            have hcons : Consumes c (guardFd c (do setNonBlocking c; sysE .listen s.fd; pure [c])) :=
              Consumes_guard (Sp_seq (Quiet_setNonBlocking _) fun _ => Sp_seq (Quiet_sysE _ _) fun _ => Sp_ret [c])
            cases h2 : guardFd c (do setNonBlocking c; sysE .listen s.fd; pure [c]) o L1 with
            | mk r2 L2 =>
              rw [h2] at hrun
              simp only at hrun
              obtain ⟨w2, n2, x2, p2⟩ := hcons o L1 w1 (by rw [l1]; simp) r2 L2 h2
              cases r2 with
              | error e =>
                simp only at hrun p2
                rw [pure_run] at hrun
                cases hrun
                refine ⟨w2, by omega, by omega, [], ?_, rfl, fun _ => ⟨_, List.mem_singleton.mpr rfl, rfl⟩, hdisc⟩
                · rw [p2, l1]
                  simp only [List.append_nil]
                  apply erase_append_fresh
                  have := w1.nodup
                  rw [l1] at this
                  intro hin
                  exact (List.nodup_append.mp this).2.2 c hin c (by simp) rfl
              | ok a =>
                simp only at hrun p2
                rw [pure_run] at hrun
                cases hrun
                obtain ⟨l2, _, nf2⟩ := p2
                refine ⟨w2, by omega, by omega, [c], by rw [l2, l1], rfl, ?_, by simp⟩
                · intro hf
                  simp only [decide_eq_true_eq] at hf
                  omega
  · -- writable
    cases hk : s.kind with
    | tcp =>
      simp only
      apply Sp_task_sys hs
      · exact ⟨rfl, ⟨_, List.mem_singleton.mpr rfl, rfl⟩, by simp⟩
      · exact ⟨rfl, by simp⟩
    | udp =>
      simp only
      apply Sp_bind (R0 := fun r f => (∃ x, r = Except.ok x) → f = false)
        ((Sp_tryM (Quiet_sysAddrMsg .sendto s.fd)).weaken ?_)
      · intro r
        cases r with
        | error e =>
          apply (Sp_pure _).weaken
          intro b n f ⟨h1, h2, h3⟩ f0 _
          subst h1 h2
          exact ⟨rfl, fun _ => ⟨_, List.mem_singleton.mpr rfl, rfl⟩, by simp⟩
        | ok x =>
          apply (Sp_pure _).weaken
          intro b n f ⟨h1, h2, h3⟩ f0 h0
          subst h1 h2 h3
          refine ⟨rfl, ?_, by simp⟩
          intro hf; simp [h0 ⟨x, rfl⟩] at hf
      · intro r n f h
        cases r with
        | error e => exact ⟨h, by intro ⟨x, hx⟩; cases hx⟩
        | ok x => exact ⟨h.1, fun _ => h.2⟩
    | acc =>
      simp only
      apply (Sp_pure _).weaken
      intro b n f ⟨h1, h2, h3⟩
      subst h1 h2 h3
      exact ⟨rfl, by simp, by simp⟩

theorem Sp_driverStep (d : DSt) : Sp (driverStep d) (StepPost d) := by
  unfold driverStep
  apply Sp_seq (Quiet_sysE _ _); intro _
  split
  · apply Sp_seq (Quiet_sysE _ _); intro _
    apply (Sp_pure _).weaken
    intro b n f ⟨h1, h2, h3⟩
    subst h1 h2 h3
    exact ⟨rfl, by simp, by simp⟩
  · split
    · apply (Sp_pure _).weaken
      intro b n f ⟨h1, h2, h3⟩
      subst h1 h2 h3
      exact ⟨rfl, by simp, by simp⟩
    · rename_i s hfind
      exact Sp_socketTask d s (List.mem_of_find?_eq_some hfind)

end SockModel.Fd

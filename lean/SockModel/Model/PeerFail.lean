import SockModel.Model.Tls
/-
Model for C15 (peer failure at any point): the plain TCP socket's entry points
(src/socket_impl.cpp: `Receive(timeout)`, `Receive()`, `Send(timeout)`, `SendSome()`), the
asynchronous socket on top of it (src/socket_async_impl.cpp `DriverReceive`, `DriverSend`,
`DriverDisconnect`; src/driver_impl.cpp `DoOneSocketTask`), and a caller that keeps receiving
until the failure is reported.  The TLS variants are `Model/Tls.lean` unchanged.

The kernel's reaction to a vanished peer is assumption **K1** (DESIGN §5 C15), which is exactly the
default behaviour of `Net.Script.world` with `dead := true` once the scripted answers run out:
`poll` reports the descriptor ready (HUP/ERR count as a positive result), `send` fails (EPIPE),
`recv` reports end of stream.  A script is therefore "any finite history of kernel answers,
followed by K1 for ever".
-/
namespace SockModel.PeerFail
open SockModel.Net SockModel.Tls

variable {ω : Type}

/-- `SocketImpl::Receive(data, size, timeout)` -/
def recvT (W : World ω) (w : ω) (size : Nat) (timeout : Int) : RecvRes ω := receive W w size timeout

/-- `SocketImpl::Send(data, size, timeout)` -/
def sendT (W : World ω) (w : ω) (data : Bytes) (timeout : Int) : SendRes ω := Net.send W w data timeout

/-- the asynchronous plain socket: queue, POLLOUT bit, handlers (the ghost fields of `Tls.Async`) -/
structure PSt (ω : Type) where
  a : Async := {}
  w : ω

def pEnqueue (x : PSt ω) (buf : Bytes) : PSt ω :=
  let wasEmpty := x.a.sendQ.isEmpty
  { x with a := { x.a with sendQ := x.a.sendQ ++ [buf],
                           pollOut := if wasEmpty ∧ x.a.registered then true else x.a.pollOut } }

def pDisconnect (x : PSt ω) : PSt ω :=
  { x with a := { x.a with registered := false, disconnects := x.a.disconnects + 1 } }

/-- `DriverReceive`: `ReceiveNow`; a `std::runtime_error` goes to the disconnect handler -/
def pReadable (W : World ω) (rx : Nat) (x : PSt ω) : Out Unit × PSt ω :=
  match recvNow W x.w rx with
  | .got bs w' => (.ok (), { a := { x.a with delivered := bs :: x.a.delivered }, w := w' })
  | .nothing w' => (.ok (), { x with w := w' })
  | .exn e w' => if e.isRuntime then (.ok (), pDisconnect { x with w := w' }) else (.exn e, { x with w := w' })

/-- `DriverSend` + the `events &= ~POLLOUT` of DoOneSocketTask when it returns true -/
def pWritable (W : World ω) (x : PSt ω) : Out Unit × PSt ω :=
  match x.a.sendQ with
  | [] => (.abort "DriverPending on a plain socket (assert(false))", x)
  | buf :: rest =>
    let r := sendNow W x.w buf
    match r.exn with
    | none =>
      if r.sent = buf.length then
        (.ok (), { a := { x.a with sendQ := rest, futures := .ok :: x.a.futures,
                                   pollOut := if rest.isEmpty then false else x.a.pollOut }, w := r.w })
      else (.ok (), { a := { x.a with sendQ := buf.drop r.sent :: rest }, w := r.w })
    | some e =>
      if e.isRuntime then
        (.ok (), { a := { x.a with sendQ := rest, futures := .exn :: x.a.futures,
                                   pollOut := if rest.isEmpty then false else x.a.pollOut }, w := r.w })
      else (.exn e, { x with w := r.w })

/-- `DoOneSocketTask` for this socket -/
def pTask (W : World ω) (rx : Nat) (x : PSt ω) (rev : REvents) : Out Unit × PSt ω :=
  if ¬ x.a.registered then (.ok (), x)
  else if rev.rd then pReadable W rx x
  else if rev.wr ∧ x.a.pollOut then pWritable W x
  else if rev.hupErr then (.ok (), pDisconnect x)
  else (.ok (), x)

inductive PEv where
  | enq (buf : Bytes)
  | step (rev : REvents)

def pApply (W : World ω) (rx : Nat) (x : PSt ω) : PEv → PSt ω
  | .enq buf => pEnqueue x buf
  | .step rev => (pTask W rx x rev).2

def pRun (W : World ω) (rx : Nat) (x : PSt ω) (evs : List PEv) : PSt ω := evs.foldl (pApply W rx) x

/-- a caller that keeps calling `Receive(size, timeout)` until it throws (or `fuel` calls were made):
what it collected, and how it ended -/
inductive RecvEnd where
  | exn (e : Exn)
  | fuel
  deriving DecidableEq, Repr

def recvUntilExn (W : World ω) (size : Nat) (timeout : Int) : Nat → ω → List Bytes → (List Bytes × RecvEnd × ω)
  | 0, w, acc => (acc.reverse, .fuel, w)
  | fuel + 1, w, acc =>
    match recvT W w size timeout with
    | .got bs w' => recvUntilExn W size timeout fuel w' (bs :: acc)
    | .nothing w' => recvUntilExn W size timeout fuel w' acc
    | .exn e w' => (acc.reverse, .exn e, w')

end SockModel.PeerFail

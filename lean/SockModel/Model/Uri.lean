import SockModel.Basic.Decimal
/-
Model of the text side of `Address` construction (src/address_impl.cpp, as repaired by the
"fix:" commits F4/F5: plain scans instead of std::regex, range guard on every numeric service):
`IsDigit`, `IsWord`, `IsDigits`, `HasLineBreak`, `IsServiceNumeric`,
`CheckServiceNumericOutOfRange` (= `std::stoll` + range test), `TrimPath`, `TrimServAndPath`,
`SplitPort`, `UriDissect`, `ParseUri`, `ParseHostServ`.

Strings are `List UInt8` (embedded NULs and non-ASCII are just bytes).  `cstr` is the
truncation at the first NUL that `.c_str()` / a C API performs.  The neighbour
`getaddrinfo` is not modelled: the functions end in the `GaiCall` that is handed to it.
All functions are compositions of total list primitives (no fuel, no `partial`), written with
`takeWhile` / `drop` / `reverse` so that the compiled driver handles megabyte inputs.
-/
namespace SockModel.Uri
open SockModel.Decimal

abbrev Bytes := List UInt8

def isWord (c : UInt8) : Bool :=
  isDigit c || (0x61 ≤ c && c ≤ 0x7a) || (0x41 ≤ c && c ≤ 0x5a) || c == 0x5f

def isLineBreak (c : UInt8) : Bool := c == 0x0a || c == 0x0d

/-- `str.find_first_of("\n\r") != npos` -/
def hasLineBreak (s : Bytes) : Bool := s.any isLineBreak

/-- `std::isspace` in the "C" locale: space, \t \n \v \f \r -/
def isSpace (c : UInt8) : Bool := c == 0x20 || (0x09 ≤ c && c ≤ 0x0d)

/-- what `.c_str()` denotes for a C API: the bytes before the first NUL -/
def cstr (s : Bytes) : Bytes := s.takeWhile (· != 0)

/-- the exception classes `Address` construction throws before `getaddrinfo` is reached -/
inductive Exn where
  | invalidArgument | logicError | outOfRange | runtimeError
  deriving DecidableEq, Repr, Inhabited

def Exn.name : Exn → String
  | .invalidArgument => "invalid_argument"
  | .logicError => "logic_error"
  | .outOfRange => "out_of_range"
  | .runtimeError => "runtime_error"

deriving instance DecidableEq for Except

/-- `TrimPath`: split off "host" from "host[/path]"; the path must be a single line -/
def trimPath (uri : Bytes) : Option Bytes :=
  let host := uri.takeWhile (· != 0x2f)
  if host.isEmpty then none
  else
    let path := (uri.drop host.length).drop 1
    if hasLineBreak path then none else some host

/-- `TrimServAndPath`: `(rest, scheme)` -/
def trimServAndPath (uri : Bytes) : Option (Bytes × Bytes) :=
  let serv := uri.takeWhile isWord
  let after := uri.drop serv.length
  if after.take 3 == [0x3a, 0x2f, 0x2f] then
    match trimPath (after.drop 3) with
    | some h => some (h, serv)
    | none => (trimPath uri).map (·, [])
  else (trimPath uri).map (·, [])

/-- split at the last occurrence of `c` (`rfind`): `(before, after)` -/
def splitLast (c : UInt8) (s : Bytes) : Option (Bytes × Bytes) :=
  let r := s.reverse
  let tailRev := r.takeWhile (· != c)
  if tailRev.length == r.length then none
  else some ((r.drop (tailRev.length + 1)).reverse, tailRev.reverse)

/-- `SplitPort`: "[host]:port" or "host:port" -/
def splitPort (uri : Bytes) : Option (Bytes × Bytes) :=
  match splitLast 0x3a uri with
  | none => none
  | some (before, port) =>
    if !isDigits port then none
    else
      let inner := (before.drop 1).take (before.length - 2)
      if 2 ≤ before.length && before.head? == some 0x5b && before.getLast? == some 0x5d && !hasLineBreak inner then
        some (inner, port)
      else if 1 ≤ before.length && !before.contains 0x3a then some (before, port)
      else none

/-- optional sign in front of a number: `(negative, rest)` -/
def signSplit (s1 : Bytes) : Bool × Bytes :=
  match s1 with
  | c :: rest => if c == 0x2d then (true, rest) else if c == 0x2b then (false, rest) else (false, s1)
  | [] => (false, [])

/-- `IsServiceNumeric`: a numeric service as `getaddrinfo` (strtoul) would read it:
C string, blanks, optional sign, digits to the end -/
def isServiceNumeric (serv : Bytes) : Bool :=
  isDigits (signSplit ((cstr serv).dropWhile isSpace)).2

/-- how `strtoll` (inside `std::stoll`) reads its argument: C string, blanks, optional sign,
then the digit run (stops at the first non-digit): `(negative, digits)` -/
def stollParts (s : Bytes) : Bool × Bytes :=
  let p := signSplit ((cstr s).dropWhile isSpace)
  (p.1, p.2.takeWhile isDigit)

def cap64 : Nat := 2 ^ 64

/-- the two range tests on the converted value `±m`: `std::stoll` throws `out_of_range`
beyond int64, then the port test throws `runtime_error` outside 0..65535 -/
def rangeOf (neg : Bool) (m : Nat) : Except Exn Unit :=
  if neg then
    if m > 2 ^ 63 then .error .outOfRange
    else if m > 0 then .error .runtimeError
    else .ok ()
  else
    if m > 2 ^ 63 - 1 then .error .outOfRange
    else if m > 65535 then .error .runtimeError
    else .ok ()

def checkRangeCore (neg : Bool) (ds : Bytes) : Except Exn Unit :=
  if ds.isEmpty then .error .invalidArgument else rangeOf neg (satVal cap64 ds)

/-- `CheckServiceNumericOutOfRange`: `std::stoll` throws `invalid_argument` without digits and
`out_of_range` beyond int64; then the port range test throws `runtime_error` -/
def checkRange (serv : Bytes) : Except Exn Unit :=
  checkRangeCore (stollParts serv).1 (stollParts serv).2

structure Dissect where
  host : Bytes
  serv : Bytes
  numeric : Bool     -- AI_NUMERICSERV
  deriving DecidableEq, Repr, Inhabited

/-- the splitting part of `UriDissect` (what the three regexes of the pinned commit computed);
`none` = "unexpected uri format" -/
def dissectRaw (uri : Bytes) : Option Dissect :=
  match trimServAndPath uri with
  | none => none
  | some (rest, scheme) =>
    match splitPort rest with
    | some (h, p) => some ⟨h, p, true⟩
    | none => some ⟨rest, scheme, false⟩

/-- the range guard as placed by `UriDissect` -/
def guardRange (d : Dissect) : Except Exn Dissect :=
  if d.numeric then (checkRange d.serv).map fun _ => d
  else if isServiceNumeric d.serv then (checkRange d.serv).map fun _ => d
  else .ok d

/-- `UriDissect::UriDissect` -/
def dissect (uri : Bytes) : Except Exn Dissect :=
  match dissectRaw uri with
  | none => .error .logicError
  | some d => guardRange d

/-- the arguments of the `getaddrinfo` call -/
structure GaiCall where
  node : Bytes
  serv : Bytes
  numericServ : Bool
  deriving DecidableEq, Repr, Inhabited

def Dissect.toGai (d : Dissect) : GaiCall := ⟨cstr d.host, cstr d.serv, d.numeric⟩

/-- `ParseUri` up to the `getaddrinfo` call -/
def parseUri (uri : Bytes) : Except Exn GaiCall :=
  if uri.isEmpty then .error .invalidArgument
  else (dissect uri).map Dissect.toGai

/-- `ParseHostServ` up to the `getaddrinfo` call -/
def parseHostServ (host serv : Bytes) : Except Exn GaiCall :=
  if host.isEmpty then .error .invalidArgument
  else if serv.isEmpty then .error .invalidArgument
  else if isServiceNumeric serv then (checkRange serv).map fun _ => ⟨cstr host, cstr serv, false⟩
  else .ok ⟨cstr host, cstr serv, false⟩

/-- what glibc's `getaddrinfo` does with a service C string: `strtoul(s, &end, 10)` and
`*end == 0` - blanks, optional sign, digits to the end; the value with the sign applied
modulo 2^64 (saturating at `ULONG_MAX` on overflow), before it is narrowed to 16 bits -/
def strtoulReads (s : Bytes) : Option Nat :=
  let p := signSplit (s.dropWhile isSpace)
  if isDigits p.2 then
    let m := satVal cap64 p.2
    some (if m ≥ cap64 then cap64 - 1 else if p.1 then (cap64 - m) % cap64 else m)
  else none

/-- the same reading without the modulo: `(negative, magnitude)` of a service that `strtoul`
reads completely (magnitude saturating at 2^64) -/
def numericReads (s : Bytes) : Option (Bool × Nat) :=
  let p := signSplit (s.dropWhile isSpace)
  if isDigits p.2 then some (p.1, satVal cap64 p.2) else none

/-- `to_string`'s text for a host / service pair (see also `Addr.toString`) -/
def toString (v6 : Bool) (host serv : Bytes) : Bytes :=
  if v6 then [0x5b] ++ host ++ [0x5d, 0x3a] ++ serv else host ++ [0x3a] ++ serv

/-! ### the pre-fix behaviour (finding F5), kept as a counter-model -/
namespace Legacy

/-- `std::regex_match(serv, "^\-?\d+$")` on the whole `std::string` -/
def isServiceNumeric (serv : Bytes) : Bool :=
  match serv with
  | c :: rest => if c == 0x2d then isDigits rest else isDigits serv
  | [] => false

/-- the pinned `UriDissect`: only a port after the colon is range-checked -/
def dissect (uri : Bytes) : Except Exn Dissect :=
  match dissectRaw uri with
  | none => .error .logicError
  | some d => if d.numeric then (checkRange d.serv).map fun _ => d else .ok d

def parseUri (uri : Bytes) : Except Exn GaiCall :=
  if uri.isEmpty then .error .invalidArgument
  else (dissect uri).map Dissect.toGai

def parseHostServ (host serv : Bytes) : Except Exn GaiCall :=
  if host.isEmpty then .error .invalidArgument
  else if serv.isEmpty then .error .invalidArgument
  else if isServiceNumeric serv then (checkRange serv).map fun _ => ⟨cstr host, cstr serv, false⟩
  else .ok ⟨cstr host, cstr serv, false⟩

end Legacy

/-- "a numeric port outside 0..65535 is never silently wrapped": whenever a parser reaches
`getaddrinfo` with a service that `strtoul` reads completely, the value is a port -/
def NoSilentWrap (pUri : Bytes → Except Exn GaiCall) (pPair : Bytes → Bytes → Except Exn GaiCall) : Prop :=
  (∀ uri c v, pUri uri = .ok c → strtoulReads c.serv = some v → v ≤ 65535) ∧
  (∀ host serv c v, pPair host serv = .ok c → strtoulReads c.serv = some v → v ≤ 65535)

/-- the strict reading: the number written (sign applied, no modulo) is a port: magnitude
≤ 65535 and a minus sign only in front of zero -/
def NoSilentWrapStrict (pUri : Bytes → Except Exn GaiCall) (pPair : Bytes → Bytes → Except Exn GaiCall) : Prop :=
  (∀ uri c neg m, pUri uri = .ok c → numericReads c.serv = some (neg, m) → m ≤ 65535 ∧ (neg = true → m = 0)) ∧
  (∀ host serv c neg m, pPair host serv = .ok c → numericReads c.serv = some (neg, m) → m ≤ 65535 ∧ (neg = true → m = 0))

/-- ASCII text as bytes (for examples and witnesses) -/
def ofChars (cs : List Char) : Bytes := cs.map fun c => UInt8.ofNat c.toNat

end SockModel.Uri

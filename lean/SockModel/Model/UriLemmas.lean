import SockModel.Model.Uri
/-! Helper lemmas for `Model/Uri.lean`: list scans over concatenations, the character
classes in terms of byte values, soundness of the split functions, and the relation between
`checkRange` (std::stoll + range test), `isServiceNumeric` and `strtoulReads`. -/
namespace SockModel.Uri
open SockModel.Decimal

/-! ### generic list scans -/

theorem takeWhile_eq_self {α : Type} {p : α → Bool} : ∀ {l : List α}, (∀ a ∈ l, p a = true) → l.takeWhile p = l
  | [], _ => rfl
  | x :: xs, h => by
    have hx : p x = true := h x (List.mem_cons_self ..)
    simp only [List.takeWhile_cons, hx, if_true]
    rw [takeWhile_eq_self (fun a ha => h a (List.mem_cons_of_mem _ ha))]

theorem mem_takeWhile {α : Type} {p : α → Bool} {a : α} : ∀ {l : List α}, a ∈ l.takeWhile p → p a = true ∧ a ∈ l
  | [], h => by simp at h
  | x :: xs, h => by
    by_cases hx : p x = true
    · simp only [List.takeWhile_cons, hx, if_true, List.mem_cons] at h
      rcases h with rfl | h
      · exact ⟨hx, List.mem_cons_self ..⟩
      · exact ⟨(mem_takeWhile h).1, List.mem_cons_of_mem _ (mem_takeWhile h).2⟩
    · simp [hx] at h

theorem takeWhile_stop {α : Type} {p : α → Bool} {l r : List α} {c : α}
    (h : ∀ a ∈ l, p a = true) (hc : p c = false) : (l ++ c :: r).takeWhile p = l := by
  rw [List.takeWhile_append_of_pos h]
  simp [hc]

/-- a scan that is stopped by `c` does not look beyond `c` -/
theorem takeWhile_append_stop {α : Type} {p : α → Bool} {r : List α} {c : α} (hc : p c = false) :
    ∀ (h : List α), (h ++ c :: r).takeWhile p = h.takeWhile p
  | [] => by simp [hc]
  | x :: xs => by
    by_cases hx : p x = true
    · simp only [List.cons_append, List.takeWhile_cons, hx, if_true]
      rw [takeWhile_append_stop hc xs]
    · simp [hx]

theorem dropWhile_head_false {α : Type} {p : α → Bool} {x : α} {rest : List α} :
    ∀ {l : List α}, l.dropWhile p = x :: rest → p x = false
  | [], h => by simp at h
  | y :: ys, h => by
    by_cases hy : p y = true
    · simp only [List.dropWhile_cons, hy, if_true] at h
      exact dropWhile_head_false h
    · simp only [List.dropWhile_cons, hy] at h
      simp only [Bool.false_eq_true, if_false, List.cons.injEq] at h
      rw [← h.1]; simpa using hy

theorem mem_of_mem_dropWhile {α : Type} {p : α → Bool} {a : α} {l : List α} (h : a ∈ l.dropWhile p) : a ∈ l := by
  have := List.takeWhile_append_dropWhile (p := p) (l := l)
  rw [← this]
  exact List.mem_append_right _ h

/-! ### character classes by byte value -/

theorem beq_byte (c k : UInt8) : (c == k) = true ↔ c.toNat = k.toNat := by
  rw [beq_iff_eq, UInt8.toNat_inj]

theorem isDigit_iff (c : UInt8) : isDigit c = true ↔ 48 ≤ c.toNat ∧ c.toNat ≤ 57 := by
  simp only [isDigit, Bool.and_eq_true, decide_eq_true_eq, UInt8.le_iff_toNat_le]
  exact Iff.rfl

theorem isSpace_iff (c : UInt8) : isSpace c = true ↔ c.toNat = 32 ∨ (9 ≤ c.toNat ∧ c.toNat ≤ 13) := by
  simp only [isSpace, Bool.or_eq_true, Bool.and_eq_true, decide_eq_true_eq, UInt8.le_iff_toNat_le, beq_byte]
  exact Iff.rfl

theorem isWord_iff (c : UInt8) : isWord c = true ↔
    (48 ≤ c.toNat ∧ c.toNat ≤ 57) ∨ (97 ≤ c.toNat ∧ c.toNat ≤ 122) ∨ (65 ≤ c.toNat ∧ c.toNat ≤ 90) ∨ c.toNat = 95 := by
  simp only [isWord, Bool.or_eq_true, Bool.and_eq_true, decide_eq_true_eq, UInt8.le_iff_toNat_le, beq_byte, isDigit_iff]
  constructor
  · rintro (((h | h) | h) | h)
    · exact Or.inl h
    · exact Or.inr (Or.inl h)
    · exact Or.inr (Or.inr (Or.inl h))
    · exact Or.inr (Or.inr (Or.inr h))
  · rintro (h | h | h | h)
    · exact Or.inl (Or.inl (Or.inl h))
    · exact Or.inl (Or.inl (Or.inr h))
    · exact Or.inl (Or.inr h)
    · exact Or.inr h

theorem isLineBreak_iff (c : UInt8) : isLineBreak c = true ↔ c.toNat = 10 ∨ c.toNat = 13 := by
  simp only [isLineBreak, Bool.or_eq_true, beq_byte]
  exact Iff.rfl

theorem digit_not_space {c : UInt8} (h : isDigit c = true) : isSpace c = false := by
  have := (isDigit_iff c).mp h
  cases hs : isSpace c
  · rfl
  · have := (isSpace_iff c).mp hs; omega

theorem digit_ne {c : UInt8} (h : isDigit c = true) (k : UInt8) (hk : k.toNat < 48 ∨ 57 < k.toNat) : (c == k) = false := by
  have := (isDigit_iff c).mp h
  cases hs : c == k
  · rfl
  · have := (beq_byte c k).mp hs; omega

theorem isDigits_iff (s : Bytes) : isDigits s = true ↔ s ≠ [] ∧ ∀ c ∈ s, isDigit c = true := by
  cases s with
  | nil => simp [isDigits]
  | cons x xs => simp [isDigits]

theorem digits_no_byte {d : Bytes} (hd : isDigits d = true) (k : UInt8) (hk : k.toNat < 48 ∨ 57 < k.toNat) : k ∉ d := by
  intro hmem
  have := ((isDigits_iff d).mp hd).2 k hmem
  have := (isDigit_iff k).mp this
  omega

theorem takeWhile_isDigit_of_digits {d : Bytes} (hd : isDigits d = true) : d.takeWhile isDigit = d :=
  takeWhile_eq_self ((isDigits_iff d).mp hd).2

theorem cstr_of_digits {d : Bytes} (hd : isDigits d = true) : cstr d = d := by
  apply takeWhile_eq_self
  intro a ha
  have := (isDigit_iff a).mp (((isDigits_iff d).mp hd).2 a ha)
  cases h : a != 0
  · have : a = 0 := by simpa using h
    subst this; simp at *
  · rfl

theorem dropWhile_isSpace_of_digits {d : Bytes} (hd : isDigits d = true) : d.dropWhile isSpace = d := by
  cases d with
  | nil => rfl
  | cons x xs =>
    have hx := ((isDigits_iff _).mp hd).2 x (List.mem_cons_self ..)
    simp [digit_not_space hx]

theorem signSplit_of_digits {d : Bytes} (hd : isDigits d = true) : signSplit d = (false, d) := by
  cases d with
  | nil => simp [isDigits] at hd
  | cons x xs =>
    have hx := ((isDigits_iff _).mp hd).2 x (List.mem_cons_self ..)
    simp [signSplit, digit_ne hx 0x2d (Or.inl (by decide)), digit_ne hx 0x2b (Or.inl (by decide))]

/-! ### split functions: soundness -/

theorem splitLast_append {c : UInt8} {a b : Bytes} (hb : c ∉ b) : splitLast c (a ++ c :: b) = some (a, b) := by
  unfold splitLast
  have hr : (a ++ c :: b).reverse = b.reverse ++ c :: a.reverse := by simp
  have ht : (b.reverse ++ c :: a.reverse).takeWhile (· != c) = b.reverse := by
    apply takeWhile_stop
    · intro x hx
      have hx' : x ∈ b := by simpa using hx
      cases h : x != c
      · have : x = c := by simpa using h
        subst this; exact absurd hx' hb
      · rfl
    · simp
  simp only [hr, ht]
  have hlen : ¬ (b.reverse.length == (b.reverse ++ c :: a.reverse).length) = true := by
    simp only [beq_iff_eq, List.length_append, List.length_cons, List.length_reverse]; omega
  simp only [hlen, if_false, Bool.false_eq_true]
  rw [List.drop_length_add_append]
  simp

theorem splitLast_sound {c : UInt8} {s a b : Bytes} (h : splitLast c s = some (a, b)) : s = a ++ c :: b ∧ c ∉ b := by
  simp only [splitLast] at h
  have hsplit := List.takeWhile_append_dropWhile (p := (· != c)) (l := s.reverse)
  cases hd : s.reverse.dropWhile (· != c) with
  | nil =>
    rw [hd, List.append_nil] at hsplit
    rw [hsplit] at h
    simp at h
  | cons x rest =>
    have hx : (x != c) = false := dropWhile_head_false (p := fun y => y != c) hd
    have hxc : x = c := by simpa using hx
    subst hxc
    rw [hd] at hsplit
    have hlen : ¬ ((s.reverse.takeWhile (· != x)).length == s.reverse.length) = true := by
      have := congrArg List.length hsplit
      simp only [List.length_append, List.length_cons] at this
      simp only [beq_iff_eq]; omega
    simp only [hlen, if_false, Bool.false_eq_true, Option.some.injEq, Prod.mk.injEq] at h
    have hdrop : s.reverse.drop ((s.reverse.takeWhile (· != x)).length + 1) = rest := by
      conv => lhs; arg 2; rw [← hsplit]
      rw [List.drop_length_add_append]; rfl
    rw [hdrop] at h
    obtain ⟨ha, hb⟩ := h
    subst ha; subst hb
    constructor
    · have := congrArg List.reverse hsplit
      simp only [List.reverse_append, List.reverse_cons, List.reverse_reverse, List.append_assoc,
        List.singleton_append] at this
      exact this.symm
    · intro hmem
      have hmem' : x ∈ s.reverse.takeWhile (· != x) := by simpa using hmem
      have := (mem_takeWhile hmem').1
      simp at this

theorem trimPath_some {uri h : Bytes} (e : trimPath uri = some h) :
    h = uri.takeWhile (· != 0x2f) ∧ h ≠ [] ∧ hasLineBreak ((uri.drop h.length).drop 1) = false := by
  simp only [trimPath] at e
  split at e
  · cases e
  · split at e
    · cases e
    · rename_i h1 h2
      cases e
      refine ⟨rfl, ?_, by simpa using h2⟩
      intro hnil; rw [hnil] at h1; simp at h1

theorem trimPath_eval {a tail : Bytes} (ha : 0x2f ∉ a) (hne : a ≠ [])
    (ht : tail = [] ∨ ∃ p, tail = 0x2f :: p ∧ hasLineBreak p = false) : trimPath (a ++ tail) = some a := by
  have hall : ∀ x ∈ a, (x != 0x2f) = true := by
    intro x hx
    cases h : x != 0x2f
    · have : x = 0x2f := by simpa using h
      subst this; exact absurd hx ha
    · rfl
  have htw : (a ++ tail).takeWhile (· != 0x2f) = a := by
    rcases ht with rfl | ⟨p, rfl, _⟩
    · rw [List.append_nil]; exact takeWhile_eq_self hall
    · exact takeWhile_stop hall (by simp)
  unfold trimPath
  simp only [htw]
  have hemp : a.isEmpty = false := by cases a <;> simp at hne ⊢
  simp only [hemp, Bool.false_eq_true, if_false, List.drop_left]
  rcases ht with rfl | ⟨p, rfl, hp⟩
  · simp [hasLineBreak]
  · simp [hp]

theorem trimServAndPath_scheme {scheme rest a : Bytes} (hs : ∀ c ∈ scheme, isWord c = true)
    (hr : trimPath rest = some a) :
    trimServAndPath (scheme ++ 0x3a :: 0x2f :: 0x2f :: rest) = some (a, scheme) := by
  unfold trimServAndPath
  have htw : (scheme ++ 0x3a :: 0x2f :: 0x2f :: rest).takeWhile isWord = scheme :=
    takeWhile_stop hs (by decide)
  simp only [htw, List.drop_left]
  simp [hr]

/-- no scheme is recognised in `h:rest` when `h` has no colon and `rest` does not start with '/' -/
theorem trimServAndPath_noscheme {h rest : Bytes} (hc : 0x3a ∉ h) (hr : rest.head? ≠ some 0x2f) :
    trimServAndPath (h ++ 0x3a :: rest) = (trimPath (h ++ 0x3a :: rest)).map (·, []) := by
  unfold trimServAndPath
  have htw : (h ++ 0x3a :: rest).takeWhile isWord = h.takeWhile isWord :=
    takeWhile_append_stop (by decide) h
  have hdrop : (h ++ 0x3a :: rest).drop (h.takeWhile isWord).length = h.dropWhile isWord ++ 0x3a :: rest := by
    conv => lhs; arg 2; rw [← List.takeWhile_append_dropWhile (p := isWord) (l := h)]
    rw [List.append_assoc, List.drop_left]
  simp only [htw, hdrop]
  have hno : ((h.dropWhile isWord ++ 0x3a :: rest).take 3 == [0x3a, 0x2f, 0x2f]) = false := by
    cases hd : h.dropWhile isWord with
    | nil =>
      cases rest with
      | nil => decide
      | cons y ys =>
        have : y ≠ 0x2f := by intro e; subst e; simp at hr
        cases ys <;> simp [this]
    | cons x xs =>
      have hx : x ∈ h := mem_of_mem_dropWhile (p := isWord) (by rw [hd]; exact List.mem_cons_self ..)
      have : x ≠ 0x3a := by intro e; subst e; exact hc hx
      simp [this]
  simp [hno]

/-- no scheme is recognised when the text starts with a non-word byte other than ':' -/
theorem trimServAndPath_nonword {c : UInt8} {rest : Bytes} (hw : isWord c = false) (hc : c ≠ 0x3a) :
    trimServAndPath (c :: rest) = (trimPath (c :: rest)).map (·, []) := by
  unfold trimServAndPath
  simp [hw, hc]

theorem trimServAndPath_some {uri rest scheme : Bytes} (e : trimServAndPath uri = some (rest, scheme)) :
    (∃ tail, trimPath tail = some rest ∧ tail <:+ uri) ∧ scheme <+: uri ∧ (∀ c ∈ scheme, isWord c = true) := by
  unfold trimServAndPath at e
  have fallback : (trimPath uri).map (·, ([] : Bytes)) = some (rest, scheme) →
      (∃ tail, trimPath tail = some rest ∧ tail <:+ uri) ∧ scheme <+: uri ∧ (∀ c ∈ scheme, isWord c = true) := by
    intro e
    cases ht : trimPath uri with
    | none => rw [ht] at e; simp at e
    | some h =>
      rw [ht] at e
      simp only [Option.map_some, Option.some.injEq, Prod.mk.injEq] at e
      obtain ⟨rfl, rfl⟩ := e
      exact ⟨⟨uri, ht, List.suffix_refl _⟩, List.nil_prefix, by simp⟩
  by_cases hsch : ((uri.drop (uri.takeWhile isWord).length).take 3 == [0x3a, 0x2f, 0x2f]) = true
  · simp only [hsch, if_true] at e
    cases ht : trimPath ((uri.drop (uri.takeWhile isWord).length).drop 3) with
    | none => rw [ht] at e; exact fallback e
    | some h =>
      rw [ht] at e
      simp only [Option.some.injEq, Prod.mk.injEq] at e
      obtain ⟨rfl, rfl⟩ := e
      refine ⟨⟨_, ht, ?_⟩, List.takeWhile_prefix _, fun c hc => (mem_takeWhile hc).1⟩
      exact List.IsSuffix.trans (List.drop_suffix _ _) (List.drop_suffix _ _)
  · simp only [hsch, if_false, Bool.false_eq_true] at e
    exact fallback e

theorem splitPort_some {uri h p : Bytes} (e : splitPort uri = some (h, p)) :
    isDigits p = true ∧ p <:+ uri ∧ h <:+: uri ∧ (∃ pre, uri = pre ++ 0x3a :: p ∧ h <:+: pre) := by
  unfold splitPort at e
  cases hs : splitLast 0x3a uri with
  | none => rw [hs] at e; simp at e
  | some bp =>
    obtain ⟨before, port⟩ := bp
    rw [hs] at e
    have ⟨huri, _⟩ := splitLast_sound hs
    by_cases hd : isDigits port = true
    · simp only [hd, Bool.not_true, Bool.false_eq_true, if_false] at e
      have hsuf : port <:+ uri := ⟨before ++ [0x3a], by rw [huri]; simp⟩
      have hpre : before <:+: uri := ⟨[], 0x3a :: port, by rw [huri]; simp⟩
      split at e
      · simp only [Option.some.injEq, Prod.mk.injEq] at e
        obtain ⟨rfl, rfl⟩ := e
        have hin : (before.drop 1).take (before.length - 2) <:+: before :=
          List.IsInfix.trans (List.take_prefix _ _).isInfix (List.drop_suffix _ _).isInfix
        exact ⟨hd, hsuf, List.IsInfix.trans hin hpre, before, huri, hin⟩
      · split at e
        · simp only [Option.some.injEq, Prod.mk.injEq] at e
          obtain ⟨rfl, rfl⟩ := e
          exact ⟨hd, hsuf, hpre, before, huri, List.infix_refl _⟩
        · simp at e
    · simp [hd] at e

theorem splitLast_none {c : UInt8} {s : Bytes} (h : c ∉ s) : splitLast c s = none := by
  have ht : s.reverse.takeWhile (· != c) = s.reverse := by
    apply takeWhile_eq_self
    intro x hx
    have hx' : x ∈ s := by simpa using hx
    cases hb : x != c
    · have : x = c := by simpa using hb
      subst this; exact absurd hx' h
    · rfl
  simp [splitLast, ht]

/-- without any colon there is neither a scheme nor a port -/
theorem trimServAndPath_nocolon {uri : Bytes} (hc : 0x3a ∉ uri) :
    trimServAndPath uri = (trimPath uri).map (·, []) := by
  unfold trimServAndPath
  by_cases hsch : ((uri.drop (uri.takeWhile isWord).length).take 3 == [0x3a, 0x2f, 0x2f]) = true
  · have heq : (uri.drop (uri.takeWhile isWord).length).take 3 = [0x3a, 0x2f, 0x2f] := by simpa using hsch
    have hmem : (0x3a : UInt8) ∈ (uri.drop (uri.takeWhile isWord).length).take 3 := by rw [heq]; simp
    exact absurd (List.mem_of_mem_drop (List.mem_of_mem_take hmem)) hc
  · simp [hsch]

theorem infix_not_mem {c : UInt8} {a b : Bytes} (hab : a <:+: b) (hc : c ∉ b) : c ∉ a := by
  intro h
  obtain ⟨s, t, rfl⟩ := hab
  exact hc (by simp [h])

/-- everything `dissectRaw` returns is cut out of its input -/
theorem dissectRaw_some {s : Bytes} {d : Dissect} (e : dissectRaw s = some d) :
    d.host <:+: s ∧ d.serv <:+: s ∧ (0x2f : UInt8) ∉ d.host ∧
    (d.numeric = true → isDigits d.serv = true ∧ ∃ pre mid post, s = pre ++ mid ++ 0x3a :: d.serv ++ post ∧ d.host <:+: mid) ∧
    (d.numeric = false → ∀ c ∈ d.serv, isWord c = true) := by
  unfold dissectRaw at e
  cases ht : trimServAndPath s with
  | none => rw [ht] at e; simp at e
  | some rs =>
    obtain ⟨rest, scheme⟩ := rs
    simp only [ht] at e
    obtain ⟨⟨tail, htail, hsuf⟩, hpre, hword⟩ := trimServAndPath_some ht
    obtain ⟨hrest, _, _⟩ := trimPath_some htail
    have hrest_in : rest <:+: s := by
      rw [hrest]
      exact List.IsInfix.trans (List.takeWhile_prefix _).isInfix hsuf.isInfix
    have hrest_noslash : (0x2f : UInt8) ∉ rest := by
      intro hm
      rw [hrest] at hm
      have := (mem_takeWhile hm).1
      simp at this
    cases hsp : splitPort rest with
    | none =>
      simp only [hsp, Option.some.injEq] at e
      subst e
      exact ⟨hrest_in, hpre.isInfix, hrest_noslash, by simp, fun _ => hword⟩
    | some hp =>
      obtain ⟨h, p⟩ := hp
      simp only [hsp, Option.some.injEq] at e
      subst e
      obtain ⟨hdig, hpsuf, hhin, pre, hshape, hhpre⟩ := splitPort_some hsp
      refine ⟨List.IsInfix.trans hhin hrest_in, List.IsInfix.trans hpsuf.isInfix hrest_in,
        infix_not_mem hhin hrest_noslash, ?_, by simp⟩
      intro _
      refine ⟨hdig, ?_⟩
      obtain ⟨a, b, hab⟩ := hrest_in
      refine ⟨a, pre, b, ?_, hhpre⟩
      rw [← hab, hshape]; simp

theorem digits_no_colon {d : Bytes} (hd : isDigits d = true) : (0x3a : UInt8) ∉ d :=
  digits_no_byte hd 0x3a (Or.inr (by decide))

theorem splitPort_plain {h d : Bytes} (hne : h ≠ []) (hc : 0x3a ∉ h) (hb : h.head? ≠ some 0x5b)
    (hd : isDigits d = true) : splitPort (h ++ 0x3a :: d) = some (h, d) := by
  unfold splitPort
  rw [splitLast_append (digits_no_colon hd)]
  have hlen : 1 ≤ h.length := by cases h <;> simp at hne ⊢
  have hhead : (h.head? == some 0x5b) = false := by simpa using hb
  simp [hd, hhead, hlen, hc]

theorem splitPort_bracket {h d : Bytes} (hl : hasLineBreak h = false) (hd : isDigits d = true) :
    splitPort (0x5b :: (h ++ 0x5d :: 0x3a :: d)) = some (h, d) := by
  have hshape : 0x5b :: (h ++ 0x5d :: 0x3a :: d) = (0x5b :: (h ++ [0x5d])) ++ 0x3a :: d := by simp
  unfold splitPort
  rw [hshape, splitLast_append (digits_no_colon hd)]
  have hinner : ((0x5b :: (h ++ [0x5d])).drop 1).take ((0x5b :: (h ++ [0x5d])).length - 2) = h := by
    simp only [List.drop_succ_cons, List.drop_zero, List.length_cons, List.length_append, List.length_nil]
    have : h.length + (0 + 1) + 1 - 2 = h.length := by omega
    rw [this, List.take_left]
  have hlast : (0x5b :: (h ++ [0x5d])).getLast? = some 0x5d := by
    have : 0x5b :: (h ++ [0x5d]) = (0x5b :: h) ++ [0x5d] := by simp
    rw [this, List.getLast?_concat]
  simp only [hd, hinner, hlast, hl]
  simp

/-! ### the range guard vs. what `getaddrinfo` reads -/

theorem stollParts_digits {d : Bytes} (hd : isDigits d = true) : stollParts d = (false, d) := by
  simp [stollParts, cstr_of_digits hd, dropWhile_isSpace_of_digits hd, signSplit_of_digits hd,
    takeWhile_isDigit_of_digits hd]

theorem isServiceNumeric_of_digits {d : Bytes} (hd : isDigits d = true) : isServiceNumeric d = true := by
  simp [isServiceNumeric, cstr_of_digits hd, dropWhile_isSpace_of_digits hd, signSplit_of_digits hd, hd]

/-- a service that passes `IsServiceNumeric` always gives `std::stoll` a digit to convert:
`invalid_argument` cannot come out of `CheckServiceNumericOutOfRange` -/
theorem checkRange_ne_invalid {s : Bytes} (h : isServiceNumeric s = true) :
    checkRange s ≠ .error .invalidArgument := by
  unfold isServiceNumeric at h
  have hds : (stollParts s).2 = (signSplit ((cstr s).dropWhile isSpace)).2 := by
    simp [stollParts, takeWhile_isDigit_of_digits h]
  have hne : (stollParts s).2.isEmpty = false := by
    rw [hds]
    have := ((isDigits_iff _).mp h).1
    cases hh : (signSplit ((cstr s).dropWhile isSpace)).2 with
    | nil => exact absurd hh this
    | cons _ _ => rfl
  unfold checkRange checkRangeCore
  simp only [hne, Bool.false_eq_true, if_false]
  unfold rangeOf
  split <;> split <;> (try split) <;> simp

/-- whatever `strtoul` reads completely, `IsServiceNumeric` recognises -/
theorem numeric_of_strtoul {s : Bytes} {v : Nat} (h : strtoulReads (cstr s) = some v) : isServiceNumeric s = true := by
  simp only [strtoulReads] at h
  unfold isServiceNumeric
  by_cases hd : isDigits (signSplit ((cstr s).dropWhile isSpace)).2 = true
  · exact hd
  · simp [hd] at h

/-- a service that passed the range guard is read by `strtoul` as a value in 0..65535 -/
theorem strtoul_in_range_of_checked {s : Bytes} {v : Nat} (hc : checkRange s = .ok ())
    (h : strtoulReads (cstr s) = some v) : v ≤ 65535 := by
  simp only [strtoulReads] at h
  by_cases hd : isDigits (signSplit ((cstr s).dropWhile isSpace)).2 = true
  · simp only [hd, if_true, Option.some.injEq] at h
    have hds : (stollParts s).2 = (signSplit ((cstr s).dropWhile isSpace)).2 := by
      simp [stollParts, takeWhile_isDigit_of_digits hd]
    have hneg : (stollParts s).1 = (signSplit ((cstr s).dropWhile isSpace)).1 := by simp [stollParts]
    have hne : (signSplit ((cstr s).dropWhile isSpace)).2.isEmpty = false := by
      have := ((isDigits_iff _).mp hd).1
      cases hh : (signSplit ((cstr s).dropWhile isSpace)).2 with
      | nil => exact absurd hh this
      | cons _ _ => rfl
    unfold checkRange checkRangeCore at hc
    rw [hds, hneg] at hc
    simp only [hne, Bool.false_eq_true, if_false] at hc
    generalize (signSplit ((cstr s).dropWhile isSpace)).1 = neg at hc h
    generalize satVal cap64 (signSplit ((cstr s).dropWhile isSpace)).2 = m at hc h
    have hcap : cap64 = 18446744073709551616 := by decide
    unfold rangeOf at hc
    cases neg
    · simp only [Bool.false_eq_true, if_false] at hc h
      split at hc
      · cases hc
      · split at hc
        · cases hc
        · rw [hcap] at h
          split at h <;> omega
    · simp only [if_true] at hc h
      split at hc
      · cases hc
      · split at hc
        · cases hc
        · rw [hcap] at h
          have hm : m = 0 := by omega
          subst hm
          simp at h
          omega
  · simp [hd] at h

theorem strtoul_of_numericReads {s : Bytes} {neg : Bool} {m : Nat} (h : numericReads s = some (neg, m)) :
    strtoulReads s = some (if m ≥ cap64 then cap64 - 1 else if neg then (cap64 - m) % cap64 else m) := by
  simp only [numericReads] at h
  simp only [strtoulReads]
  by_cases hd : isDigits (signSplit (s.dropWhile isSpace)).2 = true
  · simp only [hd, if_true, Option.some.injEq, Prod.mk.injEq] at h ⊢
    rw [h.1, h.2]
  · simp [hd] at h

/-- strict form: the written number itself (no modulo) is in 0..65535 -/
theorem numeric_in_range_of_checked {s : Bytes} {neg : Bool} {m : Nat} (hc : checkRange s = .ok ())
    (h : numericReads (cstr s) = some (neg, m)) : m ≤ 65535 ∧ (neg = true → m = 0) := by
  simp only [numericReads] at h
  by_cases hd : isDigits (signSplit ((cstr s).dropWhile isSpace)).2 = true
  · simp only [hd, if_true, Option.some.injEq, Prod.mk.injEq] at h
    have hds : (stollParts s).2 = (signSplit ((cstr s).dropWhile isSpace)).2 := by
      simp [stollParts, takeWhile_isDigit_of_digits hd]
    have hneg : (stollParts s).1 = (signSplit ((cstr s).dropWhile isSpace)).1 := by simp [stollParts]
    have hne : (signSplit ((cstr s).dropWhile isSpace)).2.isEmpty = false := by
      have := ((isDigits_iff _).mp hd).1
      cases hh : (signSplit ((cstr s).dropWhile isSpace)).2 with
      | nil => exact absurd hh this
      | cons _ _ => rfl
    unfold checkRange checkRangeCore at hc
    rw [hds, hneg] at hc
    simp only [hne, Bool.false_eq_true, if_false] at hc
    rw [h.1, h.2] at hc
    unfold rangeOf at hc
    cases neg
    · simp only [Bool.false_eq_true, if_false] at hc
      split at hc
      · cases hc
      · split at hc
        · cases hc
        · exact ⟨by omega, by simp⟩
    · simp only [if_true] at hc
      split at hc
      · cases hc
      · split at hc
        · cases hc
        · exact ⟨by omega, fun _ => by omega⟩
  · simp [hd] at h

theorem numeric_of_numericReads {s : Bytes} {r : Bool × Nat} (h : numericReads (cstr s) = some r) : isServiceNumeric s = true := by
  simp only [numericReads] at h
  unfold isServiceNumeric
  by_cases hd : isDigits (signSplit ((cstr s).dropWhile isSpace)).2 = true
  · exact hd
  · simp [hd] at h

theorem checkRange_digits_small {d : Bytes} (hd : isDigits d = true) (hv : decVal d ≤ 65535) : checkRange d = .ok () := by
  unfold checkRange checkRangeCore
  rw [stollParts_digits hd]
  have hne : d.isEmpty = false := by
    cases d with
    | nil => simp [isDigits] at hd
    | cons _ _ => rfl
  have hm : satVal cap64 d = decVal d := by
    rw [satVal_eq]
    have : cap64 = 18446744073709551616 := by decide
    omega
  simp only [hne, Bool.false_eq_true, if_false, hm, rangeOf]
  have h1 : ¬ decVal d > 2 ^ 63 - 1 := by omega
  have h2 : ¬ decVal d > 65535 := by omega
  simp [h1, h2]

theorem checkRange_render {p : Nat} (hp : p < 65536) : checkRange (render p) = .ok () :=
  checkRange_digits_small (isDigits_render p) (by rw [decVal_render]; omega)

theorem map_const_ok {α : Type} {r : Except Exn Unit} {d d' : α} (h : r.map (fun _ => d') = .ok d) : d' = d := by
  cases r with
  | ok u => cases h; rfl
  | error e => cases h

theorem guardRange_ok {d d' : Dissect} (h : guardRange d' = .ok d) : d' = d := by
  unfold guardRange at h
  split at h
  · exact map_const_ok h
  · split at h
    · exact map_const_ok h
    · cases h; rfl

theorem dissect_ok_raw {s : Bytes} {d : Dissect} (h : dissect s = .ok d) : dissectRaw s = some d := by
  unfold dissect at h
  cases hr : dissectRaw s with
  | none => simp only [hr] at h; cases h
  | some d' =>
    simp only [hr] at h
    rw [guardRange_ok h]

theorem guardRange_numeric_render {h : Bytes} {p : Nat} (hp : p < 65536) :
    guardRange ⟨h, render p, true⟩ = .ok ⟨h, render p, true⟩ := by
  simp [guardRange, checkRange_render hp, Except.map]

theorem guardRange_ok_checked {d d' : Dissect} (h : guardRange d = .ok d')
    (hn : d.numeric = true ∨ isServiceNumeric d.serv = true) : checkRange d.serv = .ok () := by
  unfold guardRange at h
  have key : (checkRange d.serv).map (fun _ => d) = .ok d' → checkRange d.serv = .ok () := by
    intro hm
    cases hc : checkRange d.serv with
    | ok u => rfl
    | error e => rw [hc] at hm; cases hm
  split at h
  · exact key h
  · split at h
    · exact key h
    · rename_i h1 h2
      rcases hn with hn | hn
      · exact absurd hn h1
      · exact absurd hn h2

/-- once the host part and the port are split off, a port below 65536 passes the guard -/
theorem dissect_numeric {uri hostport scheme h : Bytes} {p : Nat} (hp : p < 65536)
    (ht : trimServAndPath uri = some (hostport, scheme)) (hs : splitPort hostport = some (h, render p)) :
    dissect uri = .ok ⟨h, render p, true⟩ := by
  have hraw : dissectRaw uri = some ⟨h, render p, true⟩ := by simp [dissectRaw, ht, hs]
  simp only [dissect, hraw]
  exact guardRange_numeric_render hp

theorem digits_head_not_slash {d tail : Bytes} (hd : isDigits d = true) : (d ++ tail).head? ≠ some 0x2f := by
  cases d with
  | nil => simp [isDigits] at hd
  | cons x xs =>
    have hx := ((isDigits_iff _).mp hd).2 x (List.mem_cons_self ..)
    intro h
    simp only [List.cons_append, List.head?_cons, Option.some.injEq] at h
    subst h
    simp [isDigit] at hx

/-- "h:d" and "h:d/path" -/
theorem trim_plain {h d tail : Bytes} (hc : (0x3a : UInt8) ∉ h) (hs : (0x2f : UInt8) ∉ h) (hd : isDigits d = true)
    (ht : tail = [] ∨ ∃ p, tail = 0x2f :: p ∧ hasLineBreak p = false) :
    trimServAndPath (h ++ 0x3a :: d ++ tail) = some (h ++ 0x3a :: d, []) ∧
    trimPath (h ++ 0x3a :: d ++ tail) = some (h ++ 0x3a :: d) := by
  have hshape : h ++ 0x3a :: d ++ tail = h ++ 0x3a :: (d ++ tail) := by simp
  have hnoslash : (0x2f : UInt8) ∉ h ++ 0x3a :: d := by
    intro hm
    rcases List.mem_append.mp hm with hm | hm
    · exact hs hm
    · rcases List.mem_cons.mp hm with hm | hm
      · cases hm
      · exact digits_no_byte hd 0x2f (Or.inl (by decide)) hm
  have htp : trimPath (h ++ 0x3a :: d ++ tail) = some (h ++ 0x3a :: d) :=
    trimPath_eval hnoslash (by simp) ht
  refine ⟨?_, htp⟩
  rw [hshape, trimServAndPath_noscheme hc (digits_head_not_slash hd), ← hshape, htp]
  rfl

/-- "[h]:d" and "[h]:d/path" -/
theorem trim_bracket {h d tail : Bytes} (hs : (0x2f : UInt8) ∉ h) (hd : isDigits d = true)
    (ht : tail = [] ∨ ∃ p, tail = 0x2f :: p ∧ hasLineBreak p = false) :
    trimServAndPath (0x5b :: (h ++ 0x5d :: 0x3a :: d) ++ tail) = some (0x5b :: (h ++ 0x5d :: 0x3a :: d), []) ∧
    trimPath (0x5b :: (h ++ 0x5d :: 0x3a :: d) ++ tail) = some (0x5b :: (h ++ 0x5d :: 0x3a :: d)) := by
  have hnoslash : (0x2f : UInt8) ∉ 0x5b :: (h ++ 0x5d :: 0x3a :: d) := by
    intro hm
    rcases List.mem_cons.mp hm with hm | hm
    · cases hm
    · rcases List.mem_append.mp hm with hm | hm
      · exact hs hm
      · rcases List.mem_cons.mp hm with hm | hm
        · cases hm
        · rcases List.mem_cons.mp hm with hm | hm
          · cases hm
          · exact digits_no_byte hd 0x2f (Or.inl (by decide)) hm
  have htp : trimPath (0x5b :: (h ++ 0x5d :: 0x3a :: d) ++ tail) = some (0x5b :: (h ++ 0x5d :: 0x3a :: d)) :=
    trimPath_eval hnoslash (by simp) ht
  refine ⟨?_, htp⟩
  have hcons : 0x5b :: (h ++ 0x5d :: 0x3a :: d) ++ tail = 0x5b :: ((h ++ 0x5d :: 0x3a :: d) ++ tail) := by simp
  rw [hcons, trimServAndPath_nonword (by decide) (by decide), ← hcons, htp]
  rfl

end SockModel.Uri

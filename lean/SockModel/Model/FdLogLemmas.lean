import SockModel.Model.FdLemmas
/-!
Log calculus for `Model/Fd.lean`: what the ghost field `Ledger.log` (every call with its answer, every
close, in time order) looks like after a program ran.

`Lg m Q`: whatever the oracle and the starting ledger, `m` extends the log by a segment `seg` such that
* `Ext`: replaying `seg` on `(live, next)` of the starting ledger gives `(live, next)` of the final one,
  unless a close was reported as double / foreign (the flags are sticky, so "flags clear at the end"
  certifies every intermediate close); every failed call in `seg` is an answer of the oracle;
* `Q r seg` holds for the result `r`.
`Good r seg`: a normal return made no failing call and closed nothing; an exception carries category and
code of one of the failed calls of `seg`.
-/
namespace SockModel.Fd

/-- every program of the scenario set keeps the ledger (`Props/C14.lean`: `Prog.sp`) -/
theorem Prog.keepsLedger (p : Prog) : Sp p.run (fun a new f => a = new ∧ f = false) := by
  have hn : ∀ {m : M (List Fd)}, Sp m Nothing → Sp m (fun a new f => a = new ∧ f = false) :=
    fun h => h.weaken (by intro a n f ⟨h1, h2, h3⟩; exact ⟨by rw [h1, h2], h3⟩)
  cases p with
  | addrCtor => exact hn Sp_addrCtor
  | addrPrint => exact hn Sp_addrPrint
  | udpCtor => exact Sp_udpCtor
  | tcpCtor => exact Sp_tcpCtor
  | acceptorCtor => exact Sp_acceptorCtor
  | driverCtor => exact Sp_driverCtor
  | udpSendTo fd => exact hn (Sp_udpSendTo fd)
  | udpReceiveFrom fd => exact hn (Sp_udpReceiveFrom fd)
  | tcpSend fd more => exact hn (Sp_tcpSend fd more)
  | tcpReceive fd => exact hn (Sp_tcpReceive fd)
  | query c fd => exact hn (Sp_query c fd)
  | acceptorListen ready fd => exact Sp_acceptorListen ready fd
  | driverStop fd => exact hn (Sp_driverStop fd)

/-- (`Props/C14.lean`: `Consumer.consumes`) -/
theorem Consumer.takesOver (c : Consumer) (fd : Fd) : Consumes fd (c.run fd) := by
  cases c with
  | buffered q => exact Consumes_bufferedCtor q fd
  | tcpAsync => exact Consumes_tcpAsyncAttach fd
  | acceptorAsync => exact Consumes_acceptorAsyncAttach fd
  | udpAsync => exact Consumes_udpAsyncAttach fd

def Ledger.bad (L : Ledger) : Bool := L.closedTwice || L.closedForeign

def LogItem.fail? : LogItem → Option (Sys × Errno)
  | .call c _ (some e) none => some (c, e)
  | _ => none

def LogItem.open? : LogItem → Option Fd
  | .call _ _ _ (some n) => some n
  | _ => none

def LogItem.close? : LogItem → Option Fd
  | .close fd => some fd
  | _ => none

/-- the failed calls of a segment, in order -/
def failsOf (seg : List LogItem) : List (Sys × Errno) := seg.filterMap LogItem.fail?
def opensOf (seg : List LogItem) : List Fd := seg.filterMap LogItem.open?
def closesOf (seg : List LogItem) : List Fd := seg.filterMap LogItem.close?

theorem failsOf_append (a b : List LogItem) : failsOf (a ++ b) = failsOf a ++ failsOf b := List.filterMap_append
theorem opensOf_append (a b : List LogItem) : opensOf (a ++ b) = opensOf a ++ opensOf b := List.filterMap_append
theorem closesOf_append (a b : List LogItem) : closesOf (a ++ b) = closesOf a ++ closesOf b := List.filterMap_append

def replay1 (s : List Fd × Nat) : LogItem → Option (List Fd × Nat)
  | .call _ _ _ (some nfd) => if nfd = s.2 then some (s.1 ++ [nfd], s.2 + 1) else none
  | .call _ _ _ none => some s
  | .close fd => if fd ∈ s.1 then some (s.1.erase fd, s.2) else none

/-- replay of a segment (time order) on `(live, next)`: descriptors are handed out in sequence, only open
descriptors are closed -/
def replay : List Fd × Nat → List LogItem → Option (List Fd × Nat)
  | s, [] => some s
  | s, it :: rest =>
    match replay1 s it with
    | some s' => replay s' rest
    | none => none

theorem replay_append (s : List Fd × Nat) (a b : List LogItem) :
    replay s (a ++ b) = match replay s a with | some s' => replay s' b | none => none := by
  induction a generalizing s with
  | nil => rfl
  | cons it rest ih =>
    simp only [List.cons_append, replay]
    cases replay1 s it with
    | none => rfl
    | some s' => exact ih s'

/-- the category and code a failure of call `c` is reported with -/
def exnFor (c : Sys) (e : Errno) : Exn :=
  match c with
  | .getaddrinfo | .getnameinfo => .address e
  | _ => .system e

def Reports (e : Exn) (seg : List LogItem) : Prop := ∃ p ∈ failsOf seg, exnFor p.1 p.2 = e

structure Ext (o : Oracle) (L L' : Ledger) (seg : List LogItem) : Prop where
  log : L'.log = seg.reverse ++ L.log
  mono : L.bad = true → L'.bad = true
  rep : L'.bad = false → replay (L.live, L.next) seg = some (L'.live, L'.next)
  orc : ∀ p ∈ failsOf seg, ∃ i, o i = some p.2

theorem Ext.refl (o : Oracle) (L : Ledger) : Ext o L L [] :=
  ⟨by simp, id, fun _ => rfl, by simp [failsOf]⟩

theorem Ext.trans {o : Oracle} {L L1 L2 : Ledger} {s1 s2 : List LogItem}
    (h1 : Ext o L L1 s1) (h2 : Ext o L1 L2 s2) : Ext o L L2 (s1 ++ s2) := by
  refine ⟨by rw [h2.log, h1.log]; simp, fun h => h2.mono (h1.mono h), ?_, ?_⟩
  · intro hb
    have hb1 : L1.bad = false := by
      cases h : L1.bad with
      | false => rfl
      | true => rw [h2.mono h] at hb; cases hb
    rw [replay_append, h1.rep hb1]
    exact h2.rep hb
  · intro p hp
    rw [failsOf_append] at hp
    rcases List.mem_append.mp hp with h | h
    · exact h1.orc p h
    · exact h2.orc p h

def Lg {α : Type} (m : M α) (Q : Except Exn α → List LogItem → Prop) : Prop :=
  ∀ (o : Oracle) (L : Ledger) r L', m o L = (r, L') → ∃ seg, Ext o L L' seg ∧ Q r seg

theorem Lg.weaken {α : Type} {m : M α} {Q Q' : Except Exn α → List LogItem → Prop}
    (h : Lg m Q) (hw : ∀ r seg, Q r seg → Q' r seg) : Lg m Q' := by
  intro o L r L' hrun
  obtain ⟨seg, he, hq⟩ := h o L r L' hrun
  exact ⟨seg, he, hw _ _ hq⟩

theorem Lg_pure {α : Type} (a : α) : Lg (pure a : M α) (fun r seg => r = .ok a ∧ seg = []) := by
  intro o L r L' hrun
  rw [pure_run] at hrun
  cases hrun
  exact ⟨[], Ext.refl o L, rfl, rfl⟩

theorem Lg_raise {α : Type} (e : Exn) : Lg (raise e : M α) (fun r seg => r = .error e ∧ seg = []) := by
  intro o L r L' hrun
  cases hrun
  exact ⟨[], Ext.refl o L, rfl, rfl⟩

theorem Lg_sys (c : Sys) (fd : Option Fd) :
    Lg (sys c fd) (fun r seg => ∃ f, r = .ok f ∧ seg = [.call c fd f none]) := by
  intro o L r L' hrun
  cases hrun
  refine ⟨[.call c fd (o L.pos) none], ⟨rfl, id, fun _ => rfl, ?_⟩, o L.pos, rfl, rfl⟩
  intro p hp
  cases h : o L.pos with
  | none => simp [failsOf, LogItem.fail?, h] at hp
  | some e =>
    simp [failsOf, LogItem.fail?, h] at hp
    subst hp
    exact ⟨L.pos, h⟩

theorem Lg_sysOpen (c : Sys) (fd : Option Fd) :
    Lg (sysOpen c fd) (fun r seg => (∃ e, r = .ok (.error e) ∧ seg = [.call c fd (some e) none]) ∨
      (∃ n, r = .ok (.ok n) ∧ seg = [.call c fd none (some n)])) := by
  intro o L r L' hrun
  unfold sysOpen at hrun
  split at hrun <;> cases hrun
  · rename_i e he
    refine ⟨[.call c fd (some e) none], ⟨rfl, id, fun _ => rfl, ?_⟩, .inl ⟨e, rfl, rfl⟩⟩
    intro p hp
    simp [failsOf, LogItem.fail?] at hp
    subst hp
    exact ⟨L.pos, he⟩
  · refine ⟨[.call c fd none (some L.next)], ⟨rfl, id, fun _ => ?_, ?_⟩, .inr ⟨L.next, rfl, rfl⟩⟩
    · simp [replay, replay1]
    · intro p hp
      simp [failsOf, LogItem.fail?] at hp

theorem Ext_close (o : Oracle) (L : Ledger) (fd : Fd) : Ext o L (L.close fd) [.close fd] := by
  unfold Ledger.close
  split
  · rename_i h
    exact ⟨rfl, id, fun _ => by simp [replay, replay1, h], by simp [failsOf, LogItem.fail?]⟩
  · split
    · exact ⟨rfl, fun _ => by simp [Ledger.bad], fun h => by simp [Ledger.bad] at h, by simp [failsOf, LogItem.fail?]⟩
    · exact ⟨rfl, fun _ => by simp [Ledger.bad], fun h => by simp [Ledger.bad] at h, by simp [failsOf, LogItem.fail?]⟩

theorem Lg_closeFd (fd : Fd) : Lg (closeFd fd) (fun r seg => r = .ok () ∧ seg = [.close fd]) := by
  intro o L r L' hrun
  cases hrun
  exact ⟨_, Ext_close o L fd, rfl, rfl⟩

/-- sequencing: the postcondition of the whole follows from the parts -/
theorem Lg_bind {α β : Type} {m : M α} {k : α → M β} {Q1 : Except Exn α → List LogItem → Prop}
    {Q2 : α → Except Exn β → List LogItem → Prop} {Q : Except Exn β → List LogItem → Prop}
    (hm : Lg m Q1) (hk : ∀ a, Lg (k a) (Q2 a))
    (he : ∀ e s, Q1 (.error e) s → Q (.error e) s)
    (hok : ∀ a s1 r s2, Q1 (.ok a) s1 → Q2 a r s2 → Q r (s1 ++ s2)) : Lg (m >>= k) Q := by
  intro o L r L' hrun
  rw [bind_run] at hrun
  cases h1 : m o L with
  | mk r1 L1 =>
    rw [h1] at hrun
    obtain ⟨s1, e1, q1⟩ := hm o L r1 L1 h1
    cases r1 with
    | error e =>
      simp only at hrun
      cases hrun
      exact ⟨s1, e1, he _ _ q1⟩
    | ok a =>
      simp only at hrun
      obtain ⟨s2, e2, q2⟩ := hk a o L1 r L' hrun
      exact ⟨s1 ++ s2, e1.trans e2, hok _ _ _ _ q1 q2⟩

/-- `guardFd`: on an exception the descriptor is closed after everything else -/
theorem Lg_guard {α : Type} {fd : Fd} {body : M α} {Q : Except Exn α → List LogItem → Prop}
    (hb : Lg body Q) :
    Lg (guardFd fd body) (fun r seg => match r with
      | .ok _ => Q r seg
      | .error e => ∃ s, seg = s ++ [.close fd] ∧ Q (.error e) s) := by
  intro o L r L' hrun
  unfold guardFd at hrun
  cases h2 : body o L with
  | mk r2 L2 =>
    rw [h2] at hrun
    obtain ⟨s, e2, q⟩ := hb o L r2 L2 h2
    cases r2 with
    | ok a => simp only at hrun; cases hrun; exact ⟨s, e2, q⟩
    | error e =>
      simp only at hrun
      cases hrun
      exact ⟨s ++ [.close fd], e2.trans (Ext_close o L2 fd), s, rfl, q⟩

theorem Lg_tryM {α : Type} {m : M α} {Q : Except Exn α → List LogItem → Prop} (h : Lg m Q) :
    Lg (tryM m) (fun r seg => ∃ r0, r = .ok r0 ∧ Q r0 seg) := by
  intro o L r L' hrun
  unfold tryM at hrun
  cases h2 : m o L with
  | mk r2 L2 =>
    rw [h2] at hrun
    simp only at hrun
    cases hrun
    obtain ⟨s, e2, q⟩ := h o L r2 L' h2
    exact ⟨s, e2, r2, rfl, q⟩

/-! ### `Good` -/

def Good {α : Type} (r : Except Exn α) (seg : List LogItem) : Prop :=
  match r with
  | .ok _ => failsOf seg = [] ∧ closesOf seg = []
  | .error e => Reports e seg

theorem Reports.append_left {e : Exn} {s : List LogItem} (t : List LogItem) (h : Reports e s) : Reports e (t ++ s) := by
  obtain ⟨p, hp, he⟩ := h
  exact ⟨p, by rw [failsOf_append]; exact List.mem_append_right _ hp, he⟩

theorem Reports.append_right {e : Exn} {s : List LogItem} (t : List LogItem) (h : Reports e s) : Reports e (s ++ t) := by
  obtain ⟨p, hp, he⟩ := h
  exact ⟨p, by rw [failsOf_append]; exact List.mem_append_left _ hp, he⟩

theorem Good_bind {α β : Type} {m : M α} {k : α → M β} (hm : Lg m Good) (hk : ∀ a, Lg (k a) Good) :
    Lg (m >>= k) Good := by
  apply Lg_bind hm hk
  · intro e s h; exact h
  · intro a s1 r s2 h1 h2
    obtain ⟨f1, c1⟩ := h1
    cases r with
    | ok b =>
      obtain ⟨f2, c2⟩ := h2
      exact ⟨by rw [failsOf_append, f1, f2]; rfl, by rw [closesOf_append, c1, c2]; rfl⟩
    | error e => exact Reports.append_left _ h2

theorem Good_pure {α : Type} (a : α) : Lg (pure a : M α) Good :=
  (Lg_pure a).weaken (by intro r seg ⟨h1, h2⟩; subst h1 h2; exact ⟨rfl, rfl⟩)

theorem Good_guard {α : Type} {fd : Fd} {body : M α} (hb : Lg body Good) : Lg (guardFd fd body) Good := by
  apply (Lg_guard hb).weaken
  intro r seg h
  cases r with
  | ok a => exact h
  | error e =>
    obtain ⟨s, hs, q⟩ := h
    subst hs
    exact Reports.append_right _ q

/-- what `sysE c fd` leaves in the log -/
def SysEQ (c : Sys) (fd : Fd) (r : Except Exn Unit) (seg : List LogItem) : Prop :=
  (r = .ok () ∧ seg = [.call c (some fd) none none]) ∨
  ∃ e, r = .error (.system e) ∧ seg = [.call c (some fd) (some e) none]

theorem Lg_sysE (c : Sys) (fd : Fd) : Lg (sysE c fd) (SysEQ c fd) := by
  unfold sysE
  apply Lg_bind (Lg_sys c (some fd))
    (Q2 := fun f r seg => seg = [] ∧ match f with | some e => r = .error (.system e) | none => r = .ok ())
  · intro f
    cases f with
    | some e => exact (Lg_raise _).weaken (by intro r seg ⟨h1, h2⟩; exact ⟨h2, h1⟩)
    | none => exact (Lg_pure ()).weaken (by intro r seg ⟨h1, h2⟩; exact ⟨h2, h1⟩)
  · intro e s ⟨f, h, _⟩; cases h
  · intro f s1 r s2 ⟨f', h1, h2⟩ ⟨h3, h4⟩
    cases h1
    subst h2 h3
    cases f with
    | some e => exact .inr ⟨e, h4, rfl⟩
    | none => exact .inl ⟨h4, rfl⟩

/-- what `sysAddrMsg c fd` leaves in the log -/
def SysAddrQ (c : Sys) (fd : Fd) (r : Except Exn Unit) (seg : List LogItem) : Prop :=
  (r = .ok () ∧ seg = [.call c (some fd) none none]) ∨
  (∃ e, r = .error (.system e) ∧ seg = [.call c (some fd) (some e) none, .call .getnameinfo none none none]) ∨
  (∃ e g, r = .error (.address g) ∧ seg = [.call c (some fd) (some e) none, .call .getnameinfo none (some g) none])

theorem Lg_sysAddrMsg (c : Sys) (fd : Fd) : Lg (sysAddrMsg c fd) (SysAddrQ c fd) := by
  unfold sysAddrMsg
  apply Lg_bind (Lg_sys c (some fd))
    (Q2 := fun f r seg => match f with
      | some e => (r = .error (.system e) ∧ seg = [.call .getnameinfo none none none]) ∨
                  ∃ g, r = .error (.address g) ∧ seg = [.call .getnameinfo none (some g) none]
      | none => r = .ok () ∧ seg = [])
  · intro f
    cases f with
    | none => exact Lg_pure ()
    | some e =>
      apply Lg_bind (Lg_sys .getnameinfo none)
        (Q2 := fun g r seg => seg = [] ∧ match g with | some g => r = .error (.address g) | none => r = .error (.system e))
      · intro g
        cases g with
        | some g => exact (Lg_raise _).weaken (by intro r seg ⟨h1, h2⟩; exact ⟨h2, h1⟩)
        | none => exact (Lg_raise _).weaken (by intro r seg ⟨h1, h2⟩; exact ⟨h2, h1⟩)
      · intro e s ⟨f, h, _⟩; cases h
      · intro g s1 r s2 ⟨g', h1, h2⟩ ⟨h3, h4⟩
        cases h1
        subst h2 h3
        cases g with
        | some g => exact .inr ⟨g, h4, rfl⟩
        | none => exact .inl ⟨h4, rfl⟩
  · intro e s ⟨f, h, _⟩; cases h
  · intro f s1 r s2 ⟨f', h1, h2⟩ h3
    cases h1
    subst h2
    cases f with
    | none => obtain ⟨h3, h4⟩ := h3; subst h4; exact .inl ⟨h3, rfl⟩
    | some e =>
      rcases h3 with ⟨h3, h4⟩ | ⟨g, h3, h4⟩
      · subst h4; exact .inr (.inl ⟨e, h3, rfl⟩)
      · subst h4; exact .inr (.inr ⟨e, g, h3, rfl⟩)

/-- calls whose failure is a `std::system_error(SocketError())` -/
def Sys.isSocketCall (c : Sys) : Bool :=
  match c with
  | .getaddrinfo | .getnameinfo => false
  | _ => true

theorem exnFor_socket {c : Sys} (h : c.isSocketCall = true) (e : Errno) : exnFor c e = .system e := by
  cases c <;> first | rfl | cases h

theorem Good_sysE {c : Sys} (hc : c.isSocketCall = true) (fd : Fd) : Lg (sysE c fd) Good := by
  apply (Lg_sysE c fd).weaken
  intro r seg h
  rcases h with ⟨h1, h2⟩ | ⟨e, h1, h2⟩
  · subst h1 h2; exact ⟨rfl, rfl⟩
  · subst h1 h2
    exact ⟨(c, e), by simp [failsOf, LogItem.fail?], exnFor_socket hc e⟩

theorem Good_sysAddrMsg {c : Sys} (hc : c.isSocketCall = true) (fd : Fd) : Lg (sysAddrMsg c fd) Good := by
  apply (Lg_sysAddrMsg c fd).weaken
  intro r seg h
  rcases h with ⟨h1, h2⟩ | ⟨e, h1, h2⟩ | ⟨e, g, h1, h2⟩
  · subst h1 h2; exact ⟨rfl, rfl⟩
  · subst h1 h2
    exact ⟨(c, e), by simp [failsOf, LogItem.fail?], exnFor_socket hc e⟩
  · subst h1 h2
    exact ⟨(.getnameinfo, g), by simp [failsOf, LogItem.fail?], rfl⟩

theorem Good_gai {c : Sys} (hc : c.isSocketCall = false) : Lg (gai c) Good := by
  unfold gai
  apply Lg_bind (Lg_sys c none)
    (Q2 := fun f r seg => seg = [] ∧ match f with | some e => r = .error (.address e) | none => r = .ok ())
  · intro f
    cases f with
    | some e => exact (Lg_raise _).weaken (by intro r seg ⟨h1, h2⟩; exact ⟨h2, h1⟩)
    | none => exact (Lg_pure ()).weaken (by intro r seg ⟨h1, h2⟩; exact ⟨h2, h1⟩)
  · intro e s ⟨f, h, _⟩; cases h
  · intro f s1 r s2 ⟨f', h1, h2⟩ ⟨h3, h4⟩
    cases h1
    subst h2 h3
    cases f with
    | some e =>
      subst h4
      refine ⟨(c, e), by simp [failsOf, LogItem.fail?], ?_⟩
      cases c <;> first | rfl | cases hc
    | none => subst h4; exact ⟨rfl, rfl⟩

/-- what `openImpl c arg` leaves in the log -/
def OpenQ (c : Sys) (arg : Option Fd) (r : Except Exn Fd) (seg : List LogItem) : Prop :=
  (∃ n, r = .ok n ∧ seg = [.call c arg none (some n)]) ∨
  ∃ e, r = .error (.system e) ∧ seg = [.call c arg (some e) none]

theorem Lg_openImpl (c : Sys) (arg : Option Fd) : Lg (openImpl c arg) (OpenQ c arg) := by
  unfold openImpl
  apply Lg_bind (Lg_sysOpen c arg)
    (Q2 := fun x r seg => seg = [] ∧ match x with | .error e => r = .error (.system e) | .ok n => r = .ok n)
  · intro x
    cases x with
    | error e => exact (Lg_raise _).weaken (by intro r seg ⟨h1, h2⟩; exact ⟨h2, h1⟩)
    | ok n => exact (Lg_pure n).weaken (by intro r seg ⟨h1, h2⟩; exact ⟨h2, h1⟩)
  · intro e s h
    rcases h with ⟨_, h, _⟩ | ⟨_, h, _⟩ <;> cases h
  · intro x s1 r s2 h1 ⟨h3, h4⟩
    subst h3
    rcases h1 with ⟨e, h1, h2⟩ | ⟨n, h1, h2⟩
    · cases h1; subst h2; exact .inr ⟨e, h4, rfl⟩
    · cases h1; subst h2; exact .inl ⟨n, h4, rfl⟩

/-- an open that succeeds is not a failure and closes nothing; `Good` continues with the body -/
theorem Good_open_guard {α : Type} {c : Sys} (hc : c.isSocketCall = true) (arg : Option Fd) {body : Fd → M α}
    (hb : ∀ fd, Lg (body fd) Good) : Lg (openImpl c arg >>= fun fd => guardFd fd (body fd)) Good := by
  apply Lg_bind (Lg_openImpl c arg) (fun fd => Good_guard (hb fd))
  · intro e s h
    rcases h with ⟨_, h, _⟩ | ⟨e', h1, h2⟩
    · cases h
    · cases h1; subst h2
      exact ⟨(c, e'), by simp [failsOf, LogItem.fail?], exnFor_socket hc e'⟩
  · intro fd s1 r s2 h1 h2
    rcases h1 with ⟨n, h1, hs⟩ | ⟨_, h, _⟩
    · subst hs
      cases r with
      | ok b =>
        obtain ⟨f2, c2⟩ := h2
        exact ⟨by rw [failsOf_append, f2]; rfl, by rw [closesOf_append, c2]; rfl⟩
      | error e => exact Reports.append_left _ h2
    · cases h

theorem Good_setNonBlocking (fd : Fd) : Lg (setNonBlocking fd) Good :=
  Good_bind (Good_sysE rfl fd) fun _ => Good_sysE rfl fd

/-! ### every program of the scenario set is `Good` -/

/-- `query c`: the call is one whose failure is a socket error (the scenarios use getsockname, getpeername,
getsockopt); a `query .getaddrinfo` would throw the wrong category -/
def Prog.sane : Prog → Bool
  | .query c _ => c.isSocketCall
  | _ => true

theorem Good_tcpSend (fd : Fd) (more : Nat) : Lg (tcpSend fd more) Good := by
  induction more with
  | zero => exact Good_bind (Good_sysE rfl fd) fun _ => Good_bind (Good_sysE rfl fd) fun _ => Good_pure _
  | succ n ih => exact Good_bind (Good_sysE rfl fd) fun _ => Good_bind (Good_sysE rfl fd) fun _ => ih

theorem Good_acceptOn (fd : Fd) : Lg (acceptOn fd) Good :=
  Good_open_guard rfl (some fd) fun c => Good_bind (Good_setNonBlocking c) fun _ => Good_pure _

theorem Prog.good (p : Prog) (hp : p.sane = true) : Lg p.run Good := by
  cases p with
  | addrCtor => exact Good_bind (Good_gai rfl) fun _ => Good_pure _
  | addrPrint => exact Good_bind (Good_gai rfl) fun _ => Good_pure _
  | udpCtor =>
    exact Good_open_guard rfl none fun fd => Good_bind (Good_sysAddrMsg rfl fd) fun _ =>
      Good_bind (Good_sysE rfl fd) fun _ => Good_bind (Good_setNonBlocking fd) fun _ => Good_pure _
  | tcpCtor =>
    exact Good_open_guard rfl none fun fd => Good_bind (Good_sysAddrMsg rfl fd) fun _ =>
      Good_bind (Good_setNonBlocking fd) fun _ => Good_pure _
  | acceptorCtor =>
    exact Good_open_guard rfl none fun fd => Good_bind (Good_sysE rfl fd) fun _ =>
      Good_bind (Good_sysAddrMsg rfl fd) fun _ => Good_bind (Good_setNonBlocking fd) fun _ => Good_pure _
  | driverCtor =>
    exact Good_bind (Good_gai rfl) fun _ => Good_open_guard rfl none fun pfrom => Good_open_guard rfl none fun pto =>
      Good_bind (Good_sysAddrMsg rfl pto) fun _ => Good_bind (Good_sysE rfl pto) fun _ =>
      Good_bind (Good_gai rfl) fun _ => Good_bind (Good_sysAddrMsg rfl pfrom) fun _ => Good_pure _
  | udpSendTo fd => exact Good_bind (Good_sysE rfl fd) fun _ => Good_bind (Good_sysAddrMsg rfl fd) fun _ => Good_pure _
  | udpReceiveFrom fd => exact Good_bind (Good_sysE rfl fd) fun _ => Good_bind (Good_sysE rfl fd) fun _ => Good_pure _
  | tcpSend fd more => exact Good_tcpSend fd more
  | tcpReceive fd => exact Good_bind (Good_sysE rfl fd) fun _ => Good_bind (Good_sysE rfl fd) fun _ => Good_pure _
  | query c fd => exact Good_bind (Good_sysE hp fd) fun _ => Good_pure _
  | acceptorListen ready fd =>
    show Lg (Fd.acceptorListen ready fd) Good
    unfold Fd.acceptorListen
    apply Good_bind (Good_sysE rfl fd); intro _
    apply Good_bind (Good_sysE rfl fd); intro _
    cases ready
    · exact Good_pure _
    · exact Good_acceptOn fd
  | driverStop fd => exact Good_bind (Good_sysE rfl fd) fun _ => Good_bind (Good_sysAddrMsg rfl fd) fun _ => Good_pure _

theorem Consumer.good (c : Consumer) (fd : Fd) : Lg (c.run fd) Good := by
  cases c with
  | buffered q =>
    show Lg (bufferedCtor q fd) Good
    unfold bufferedCtor
    apply Good_guard
    cases q
    · exact Good_bind (Good_pure ()) fun _ => Good_pure _
    · exact Good_bind (Good_sysE rfl fd) fun _ => Good_pure _
  | tcpAsync => exact Good_guard (Good_bind (Good_sysE rfl fd) fun _ => Good_pure _)
  | acceptorAsync => exact Good_guard (Good_bind (Good_sysE rfl fd) fun _ => Good_pure _)
  | udpAsync => exact Good_pure _

/-! ### consequences of a successful replay (pure list facts) -/

theorem replay_cons_close (l : List Fd) (n : Nat) (g : Fd) (rest : List LogItem) :
    replay (l, n) (.close g :: rest) = if g ∈ l then replay (l.erase g, n) rest else none := by
  simp only [replay, replay1]
  by_cases h : g ∈ l <;> simp [h]

theorem replay_cons_call (s : List Fd × Nat) (c : Sys) (a : Option Fd) (f : Option Errno) (rest : List LogItem) :
    replay s (.call c a f none :: rest) = replay s rest := by
  simp only [replay, replay1]

theorem replay_cons_open (l : List Fd) (n : Nat) (c : Sys) (a : Option Fd) (f : Option Errno) (k : Fd) (rest : List LogItem) :
    replay (l, n) (.call c a f (some k) :: rest) = if k = n then replay (l ++ [k], n + 1) rest else none := by
  simp only [replay, replay1]
  by_cases h : k = n <;> simp [h]

/-- descriptors opened by the segment are numbered from `next` on -/
theorem replay_opens_ge {seg : List LogItem} : ∀ {l : List Fd} {n : Nat} {l' : List Fd} {n' : Nat},
    replay (l, n) seg = some (l', n') → n ≤ n' ∧ ∀ fd ∈ opensOf seg, n ≤ fd := by
  induction seg with
  | nil => intro l n l' n' h; simp only [replay] at h; cases h; exact ⟨Nat.le_refl _, by simp [opensOf]⟩
  | cons it rest ih =>
    intro l n l' n' h
    cases it with
    | close g =>
      rw [replay_cons_close] at h
      split at h
      · have := ih h
        exact ⟨this.1, by simpa [opensOf, LogItem.open?] using this.2⟩
      · cases h
    | call c fd f nf =>
      cases nf with
      | none =>
        rw [replay_cons_call] at h
        have := ih h
        exact ⟨this.1, by simpa [opensOf, LogItem.open?] using this.2⟩
      | some k =>
        rw [replay_cons_open] at h
        split at h
        · rename_i hk
          subst hk
          have := ih h
          refine ⟨by omega, ?_⟩
          intro x hx
          simp only [opensOf, List.filterMap_cons, LogItem.open?, List.mem_cons] at hx
          rcases hx with rfl | hx
          · exact Nat.le_refl _
          · have := this.2 x hx; omega
        · cases h

/-- a descriptor numbered below `next` that is not open does not come back -/
theorem replay_gone {seg : List LogItem} {fd : Fd} : ∀ {l : List Fd} {n : Nat} {l' : List Fd} {n' : Nat},
    replay (l, n) seg = some (l', n') → fd < n → fd ∉ l → fd ∉ l' := by
  induction seg with
  | nil => intro l n l' n' h _ hl; simp only [replay] at h; cases h; exact hl
  | cons it rest ih =>
    intro l n l' n' h hlt hl
    cases it with
    | close g =>
      rw [replay_cons_close] at h
      split at h
      · exact ih h hlt (fun hm => hl (List.mem_of_mem_erase hm))
      · cases h
    | call c a f nf =>
      cases nf with
      | none => rw [replay_cons_call] at h; exact ih h hlt hl
      | some k =>
        rw [replay_cons_open] at h
        split at h
        · rename_i hk
          subst hk
          refine ih h (Nat.lt_succ_of_lt hlt) ?_
          intro hm
          rcases List.mem_append.mp hm with hm | hm
          · exact hl hm
          · simp only [List.mem_singleton] at hm
            rw [hm] at hlt
            exact Nat.lt_irrefl _ hlt
        · cases h

/-- a descriptor the segment closes without having opened it was open before and is not open afterwards -/
theorem replay_closed {seg : List LogItem} {fd : Fd} : ∀ {l : List Fd} {n : Nat} {l' : List Fd} {n' : Nat},
    replay (l, n) seg = some (l', n') → l.Nodup → (∀ x ∈ l, x < n) → fd ∈ closesOf seg → fd ∉ opensOf seg →
    fd ∈ l ∧ fd ∉ l' := by
  induction seg with
  | nil => intro l n l' n' _ _ _ hc; simp [closesOf] at hc
  | cons it rest ih =>
    intro l n l' n' h hnd hbelow hc ho
    cases it with
    | close g =>
      rw [replay_cons_close] at h
      split at h
      · rename_i hg
        simp only [closesOf, List.filterMap_cons, LogItem.close?, List.mem_cons] at hc
        have ho' : fd ∉ opensOf rest := by simpa [opensOf, LogItem.open?] using ho
        rcases hc with rfl | hc
        · refine ⟨hg, replay_gone h (hbelow _ hg) ?_⟩
          intro hm
          exact (List.Nodup.mem_erase_iff hnd).mp hm |>.1 rfl
        · have := ih h (hnd.erase _) (fun x hx => hbelow x (List.mem_of_mem_erase hx)) hc ho'
          exact ⟨List.mem_of_mem_erase this.1, this.2⟩
      · cases h
    | call c a f nf =>
      cases nf with
      | none =>
        rw [replay_cons_call] at h
        exact ih h hnd hbelow (by simpa [closesOf, LogItem.close?] using hc) (by simpa [opensOf, LogItem.open?] using ho)
      | some k =>
        rw [replay_cons_open] at h
        split at h
        · rename_i hk
          subst hk
          have hc' : fd ∈ closesOf rest := by simpa [closesOf, LogItem.close?] using hc
          simp only [opensOf, List.filterMap_cons, LogItem.open?, List.mem_cons, not_or] at ho
          have hnd' : (l ++ [k]).Nodup := by
            apply List.nodup_append.mpr
            refine ⟨hnd, by simp, ?_⟩
            intro a ha b hb
            simp only [List.mem_singleton] at hb
            subst hb
            exact Nat.ne_of_lt (hbelow a ha)
          have hb' : ∀ x ∈ l ++ [k], x < k + 1 := by
            intro x hx
            rcases List.mem_append.mp hx with hx | hx
            · exact Nat.lt_succ_of_lt (hbelow x hx)
            · simp only [List.mem_singleton] at hx
              rw [hx]; exact Nat.lt_succ_self _
          have := ih h hnd' hb' hc' ho.2
          refine ⟨?_, this.2⟩
          rcases List.mem_append.mp this.1 with hm | hm
          · exact hm
          · simp at hm; exact absurd hm ho.1
        · cases h

/-! ### the driver step -/

/-- at most one call failed, and it is one of `P`; a normal return made no failing call -/
def OneQ {α : Type} (P : Sys → Prop) (r : Except Exn α) (seg : List LogItem) : Prop :=
  match r with
  | .ok _ => failsOf seg = []
  | .error _ => ∃ c code, failsOf seg = [(c, code)] ∧ P c

theorem OneQ_bind {α β : Type} {P : Sys → Prop} {m : M α} {k : α → M β} (hm : Lg m (OneQ P)) (hk : ∀ a, Lg (k a) (OneQ P)) :
    Lg (m >>= k) (OneQ P) := by
  apply Lg_bind hm hk
  · intro e s h; exact h
  · intro a s1 r s2 h1 h2
    simp only [OneQ] at h1
    cases r with
    | ok b => simp only [OneQ] at h2 ⊢; rw [failsOf_append, h1, h2]; rfl
    | error e =>
      obtain ⟨c, code, h2, hp⟩ := h2
      exact ⟨c, code, by rw [failsOf_append, h1, h2]; rfl, hp⟩

theorem OneQ_sysE {P : Sys → Prop} {c : Sys} (hc : P c) (fd : Fd) : Lg (sysE c fd) (OneQ P) := by
  apply (Lg_sysE c fd).weaken
  intro r seg h
  rcases h with ⟨h1, h2⟩ | ⟨e, h1, h2⟩
  · subst h1 h2; rfl
  · subst h1 h2; exact ⟨c, e, by simp [failsOf, LogItem.fail?], hc⟩

theorem OneQ_pure {α : Type} {P : Sys → Prop} (a : α) : Lg (pure a : M α) (OneQ P) :=
  (Lg_pure a).weaken (by intro r seg ⟨h1, h2⟩; subst h1 h2; rfl)

/-- what one socket task leaves in the log, and which events it reports -/
def TaskQ (s : ASock) (r : Except Exn StepOut) (seg : List LogItem) : Prop :=
  ∃ out, r = .ok out ∧
    ((failsOf seg = [] ∧ ∀ ev ∈ out.evs, ev.reportsFailure = false) ∨
     (out.fds = [] ∧ ∃ c code rest, failsOf seg = (c, code) :: rest ∧
       ((c = .recv ∧ out.evs = [.disconnect s.fd]) ∨
        ((c = .send ∨ c = .sendto) ∧ out.evs = [.futureExn s.fd]) ∨
        ((c = .recvfrom ∨ c = .accept ∨ c = .fcntl ∨ c = .listen) ∧ out.evs = [.discarded s.fd] ∧
          s.kind ≠ .tcp ∧ 0 < s.rx))))

theorem Lg_task_sys (c : Sys) (fd : Fd) (bad good : StepOut) :
    Lg (do match ← sys c (some fd) with
          | some _ => pure bad
          | none => pure good)
      (fun r seg => (∃ e, r = .ok bad ∧ seg = [.call c (some fd) (some e) none]) ∨
        (r = .ok good ∧ seg = [.call c (some fd) none none])) := by
  apply Lg_bind (Lg_sys c (some fd))
    (Q2 := fun f r seg => seg = [] ∧ match f with | some _ => r = .ok bad | none => r = .ok good)
  · intro f
    cases f with
    | some e => exact (Lg_pure _).weaken (by intro r seg ⟨h1, h2⟩; exact ⟨h2, h1⟩)
    | none => exact (Lg_pure _).weaken (by intro r seg ⟨h1, h2⟩; exact ⟨h2, h1⟩)
  · intro e s ⟨f, h, _⟩; cases h
  · intro f s1 r s2 ⟨f', h1, h2⟩ ⟨h3, h4⟩
    cases h1
    subst h2 h3
    cases f with
    | some e => exact .inl ⟨e, h4, rfl⟩
    | none => exact .inr ⟨h4, rfl⟩

theorem Lg_socketTask (d : DSt) (s : ASock) : Lg (socketTask d s) (TaskQ s) := by
  unfold socketTask
  split
  · rename_i hrx
    cases hk : s.kind with
    | tcp =>
      simp only
      apply (Lg_task_sys _ _ _ _).weaken
      intro r seg h
      rcases h with ⟨e, h1, h2⟩ | ⟨h1, h2⟩
      · subst h1 h2
        exact ⟨_, rfl, .inr ⟨rfl, .recv, e, [], by simp [failsOf, LogItem.fail?], .inl ⟨rfl, rfl⟩⟩⟩
      · subst h1 h2
        exact ⟨_, rfl, .inl ⟨by simp [failsOf, LogItem.fail?], by simp [Ev.reportsFailure]⟩⟩
    | udp =>
      simp only
      apply (Lg_task_sys _ _ _ _).weaken
      intro r seg h
      rcases h with ⟨e, h1, h2⟩ | ⟨h1, h2⟩
      · subst h1 h2
        exact ⟨_, rfl, .inr ⟨rfl, .recvfrom, e, [], by simp [failsOf, LogItem.fail?],
          .inr (.inr ⟨.inl rfl, rfl, by simp [hk], hrx⟩)⟩⟩
      · subst h1 h2
        exact ⟨_, rfl, .inl ⟨by simp [failsOf, LogItem.fail?], by simp [Ev.reportsFailure]⟩⟩
    | acc =>
      simp only
      have hbody : ∀ c, Lg (guardFd c (do setNonBlocking c; sysE .listen s.fd; pure [c]))
          (fun r seg => match r with
            | .ok _ => failsOf seg = []
            | .error _ => ∃ cc code, failsOf seg = [(cc, code)] ∧ (cc = .fcntl ∨ cc = .listen)) := by
        intro c
        have hb : Lg (do setNonBlocking c; sysE .listen s.fd; pure [c]) (OneQ fun cc => cc = .fcntl ∨ cc = .listen) :=
          OneQ_bind (OneQ_bind (OneQ_sysE (.inl rfl) c) fun _ => OneQ_sysE (.inl rfl) c) fun _ =>
            OneQ_bind (OneQ_sysE (.inr rfl) s.fd) fun _ => OneQ_pure _
        apply (Lg_guard hb).weaken
        intro r seg h
        cases r with
        | ok a => exact h
        | error e =>
          obtain ⟨s0, hs, cc, code, hf, hp⟩ := h
          subst hs
          exact ⟨cc, code, by rw [failsOf_append, hf]; rfl, hp⟩
      apply Lg_bind (Lg_sysOpen .accept (some s.fd))
        (Q2 := fun x r seg => match x with
          | .error _ => seg = [] ∧ r = .ok { d := d, evs := [.discarded s.fd] }
          | .ok _ => ∃ out, r = .ok out ∧
              ((failsOf seg = [] ∧ ∀ ev ∈ out.evs, ev.reportsFailure = false) ∨
               (out.fds = [] ∧ out.evs = [.discarded s.fd] ∧ ∃ cc code, failsOf seg = [(cc, code)] ∧ (cc = .fcntl ∨ cc = .listen))))
      · intro x
        cases x with
        | error e => exact (Lg_pure _).weaken (by intro r seg ⟨h1, h2⟩; exact ⟨h2, h1⟩)
        | ok c =>
          simp only
          apply Lg_bind (Lg_tryM (hbody c))
            (Q2 := fun t r seg => seg = [] ∧ ∃ out, r = .ok out ∧ match t with
              | .error _ => out.evs = [.discarded s.fd] ∧ out.fds = []
              | .ok _ => out.evs = [.connect s.fd c])
          · intro t
            cases t with
            | error e => exact (Lg_pure _).weaken (by intro r seg ⟨h1, h2⟩; exact ⟨h2, _, h1, rfl, rfl⟩)
            | ok a => exact (Lg_pure _).weaken (by intro r seg ⟨h1, h2⟩; exact ⟨h2, _, h1, rfl⟩)
          · intro e s0 ⟨r0, h, _⟩; cases h
          · intro t s1 r s2 ⟨r0, h1, h2⟩ ⟨h3, out, h4, h5⟩
            cases h1
            subst h3
            simp only [List.append_nil]
            cases t with
            | error e => exact ⟨out, h4, .inr ⟨h5.2, h5.1, h2⟩⟩
            | ok a => exact ⟨out, h4, .inl ⟨h2, by simp only at h5; rw [h5]; simp [Ev.reportsFailure]⟩⟩
      · intro e s0 h
        rcases h with ⟨_, h, _⟩ | ⟨_, h, _⟩ <;> cases h
      · intro x s1 r s2 h1 h2
        rcases h1 with ⟨e, h1, hs⟩ | ⟨n, h1, hs⟩
        · cases h1
          obtain ⟨h3, h4⟩ := h2
          subst hs h3
          exact ⟨_, h4, .inr ⟨rfl, .accept, e, [], by simp [failsOf, LogItem.fail?],
            .inr (.inr ⟨.inr (.inl rfl), rfl, by simp [hk], hrx⟩)⟩⟩
        · cases h1
          subst hs
          obtain ⟨out, h3, h4⟩ := h2
          refine ⟨out, h3, ?_⟩
          have hf : ∀ s2 : List LogItem, failsOf ([LogItem.call .accept (some s.fd) none (some n)] ++ s2) = failsOf s2 := by
            intro s2; rfl
          rcases h4 with ⟨h4, h5⟩ | ⟨h4, h5, cc, code, h6, h7⟩
          · exact .inl ⟨by rw [hf, h4], h5⟩
          · refine .inr ⟨h4, cc, code, [], by rw [hf, h6], .inr (.inr ⟨?_, h5, by simp [hk], hrx⟩)⟩
            rcases h7 with h7 | h7
            · exact .inr (.inr (.inl h7))
            · exact .inr (.inr (.inr h7))
  · cases hk : s.kind with
    | tcp =>
      simp only
      apply (Lg_task_sys _ _ _ _).weaken
      intro r seg h
      rcases h with ⟨e, h1, h2⟩ | ⟨h1, h2⟩
      · subst h1 h2
        exact ⟨_, rfl, .inr ⟨rfl, .send, e, [], by simp [failsOf, LogItem.fail?], .inr (.inl ⟨.inl rfl, rfl⟩)⟩⟩
      · subst h1 h2
        exact ⟨_, rfl, .inl ⟨by simp [failsOf, LogItem.fail?], by simp [Ev.reportsFailure]⟩⟩
    | udp =>
      simp only
      apply Lg_bind (Lg_tryM (Lg_sysAddrMsg .sendto s.fd))
        (Q2 := fun t r seg => seg = [] ∧ ∃ out, r = .ok out ∧ out.fds = [] ∧ match t with
          | .error _ => out.evs = [.futureExn s.fd]
          | .ok _ => out.evs = [.futureValue s.fd])
      · intro t
        cases t with
        | error e => exact (Lg_pure _).weaken (by intro r seg ⟨h1, h2⟩; exact ⟨h2, _, h1, rfl, rfl⟩)
        | ok a => exact (Lg_pure _).weaken (by intro r seg ⟨h1, h2⟩; exact ⟨h2, _, h1, rfl, rfl⟩)
      · intro e s0 ⟨r0, h, _⟩; cases h
      · intro t s1 r s2 ⟨r0, h1, h2⟩ ⟨h3, out, h4, hfd, h7⟩
        cases h1
        subst h3
        simp only [List.append_nil]
        rcases h2 with ⟨h5, h6⟩ | ⟨e, h5, h6⟩ | ⟨e, g, h5, h6⟩
        · subst h5 h6
          simp only at h7
          exact ⟨out, h4, .inl ⟨by simp [failsOf, LogItem.fail?], by rw [h7]; simp [Ev.reportsFailure]⟩⟩
        · subst h5 h6
          exact ⟨out, h4, .inr ⟨hfd, .sendto, e, [], by simp [failsOf, LogItem.fail?], .inr (.inl ⟨.inr rfl, h7⟩)⟩⟩
        · subst h5 h6
          exact ⟨out, h4, .inr ⟨hfd, .sendto, e, [(.getnameinfo, g)], by simp [failsOf, LogItem.fail?], .inr (.inl ⟨.inr rfl, h7⟩)⟩⟩
    | acc =>
      simp only
      apply (Lg_pure _).weaken
      intro r seg ⟨h1, h2⟩
      subst h1 h2
      exact ⟨_, rfl, .inl ⟨rfl, by simp⟩⟩

/-- what `Driver::Step` leaves in the log: an exception out of `Step` is a failed `poll` (or the failed
`recvfrom` of the signalling pipe); otherwise a failed call is reported by the disconnect handler (`recv`),
the send future (`send` / `sendto`), or - only for a readable UDP socket / acceptor - dropped -/
def DriveQ (d : DSt) (r : Except Exn StepOut) (seg : List LogItem) : Prop :=
  match r with
  | .error e => ∃ c code, failsOf seg = [(c, code)] ∧ e = .system code ∧ (c = .poll ∨ (c = .recvfrom ∧ 0 < d.bumps))
  | .ok out =>
    (failsOf seg = [] ∧ ∀ ev ∈ out.evs, ev.reportsFailure = false) ∨
    (out.fds = [] ∧ ∃ c code rest fd, failsOf seg = (c, code) :: rest ∧
      ((c = .recv ∧ out.evs = [.disconnect fd]) ∨
       ((c = .send ∨ c = .sendto) ∧ out.evs = [.futureExn fd]) ∨
       ((c = .recvfrom ∨ c = .accept ∨ c = .fcntl ∨ c = .listen) ∧ out.evs = [.discarded fd] ∧
          d.bumps = 0 ∧ ∃ s ∈ d.socks, s.kind ≠ .tcp ∧ 0 < s.rx)))

theorem Lg_driverStep (d : DSt) : Lg (driverStep d) (DriveQ d) := by
  unfold driverStep
  apply Lg_bind (Lg_sysE .poll d.pipeTo) (Q2 := fun _ => DriveQ d)
  · intro _
    split
    · rename_i hb
      apply Lg_bind (Lg_sysE .recvfrom d.pipeTo) (Q2 := fun _ r seg => seg = [] ∧ r = .ok { d := { d with bumps := d.bumps - 1 } })
      · intro _
        exact (Lg_pure _).weaken (by intro r seg ⟨h1, h2⟩; exact ⟨h2, h1⟩)
      · intro e s h
        rcases h with ⟨h, _⟩ | ⟨e', h1, h2⟩
        · cases h
        · cases h1; subst h2
          exact ⟨.recvfrom, e', by simp [failsOf, LogItem.fail?], rfl, .inr ⟨rfl, hb⟩⟩
      · intro _ s1 r s2 h1 ⟨h2, h3⟩
        rcases h1 with ⟨_, h1⟩ | ⟨_, h, _⟩
        · subst h1 h2 h3
          exact .inl ⟨by simp [failsOf, LogItem.fail?], by simp⟩
        · cases h
    · rename_i hb
      split
      · apply (Lg_pure _).weaken
        intro r seg ⟨h1, h2⟩
        subst h1 h2
        exact .inl ⟨rfl, by simp⟩
      · rename_i s hfind
        apply (Lg_socketTask d s).weaken
        intro r seg ⟨out, h1, h2⟩
        subst h1
        rcases h2 with h2 | ⟨h2, c, code, rest, h3, h4⟩
        · exact .inl h2
        · refine .inr ⟨h2, c, code, rest, s.fd, h3, ?_⟩
          rcases h4 with h4 | h4 | ⟨h4, h5, h6, h7⟩
          · exact .inl h4
          · exact .inr (.inl h4)
          · exact .inr (.inr ⟨h4, h5, by omega, s, List.mem_of_find?_eq_some hfind, h6, h7⟩)
  · intro e s h
    rcases h with ⟨h, _⟩ | ⟨e', h1, h2⟩
    · cases h
    · cases h1; subst h2
      exact ⟨.poll, e', by simp [failsOf, LogItem.fail?], rfl, .inl rfl⟩
  · intro _ s1 r s2 h1 h2
    rcases h1 with ⟨_, h1⟩ | ⟨_, h, _⟩
    · subst h1
      have hf : failsOf ([LogItem.call .poll (some d.pipeTo) none none] ++ s2) = failsOf s2 := rfl
      cases r with
      | error e => simp only [DriveQ] at h2 ⊢; rw [hf]; exact h2
      | ok out => simp only [DriveQ] at h2 ⊢; rw [hf]; exact h2
    · cases h

end SockModel.Fd

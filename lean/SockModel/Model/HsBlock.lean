import SockModel.Model.HsSched
/-!
One side calls with an **unlimited timeout** (`T < 0`), the other side polls (timeout 0).

In a sequential composition an unlimited wait that finds nothing ready would never return.  The interleaving semantics
used here: the world of the blocking side `u` CONTAINS the polling peer - its glue, its engine and the calls it is
going to make (`prog`, its polling loop, in order).  A wait of side `u`

* for writability, or for readability while bytes towards `u` are in flight, returns at once (as in `chanWorld`);
* for readability with nothing in flight and an unlimited timeout *suspends side `u`*: the peer performs the next
  calls of its program - each one the REAL zero-timeout call `callOn` on the shared channels - until bytes towards `u`
  are in flight; then the wait returns "ready" and the blocked call resumes where it was (inside the BIO callback,
  inside the engine, inside `Read`/`Write`).  If the peer's program ends first, the wait reports "not ready"
  (= the observation ends while the call is still blocked; everything below says what holds in that case too).

Granularity: the blocked side resumes at the END of the peer call that made its descriptor ready, not in the middle
of it (calls of the polling side are atomic with respect to the blocked side; the blocked side touches nothing while
it is blocked).
-/
namespace SockModel.Hs
open SockModel.Net SockModel.Tls

def Kind.ok : Kind → Prop
  | .send => True
  | .recv n => 1 ≤ n

instance (k : Kind) : Decidable k.ok := by
  cases k <;> unfold Kind.ok <;> exact inferInstance

def Kind.call (d : Bytes) : Kind → Call
  | .send => .send d
  | .recv n => .recv n

/-- the world of the blocking side: the channels and the polling peer -/
structure PeerW where
  ch : Chan := {}
  g : Glue := {}
  e : Hs
  /-- the calls the peer is going to make, in order -/
  prog : List Kind := []
  /-- calls of the peer that threw or hit an assert -/
  faults : Nat := 0

/-- the peer's payload / the blocking side's payload, given the client's `dc` and the server's `ds` -/
def peerPay (u : Bool) (dc ds : Bytes) : Bytes := if u then ds else dc
def ownPay (u : Bool) (dc ds : Bytes) : Bytes := if u then dc else ds

/-- the peer makes one call (timeout 0) -/
def PeerW.poll (C : Cfg) (P : HsP) (u : Bool) (dc ds : Bytes) (w : PeerW) (k : Kind) : PeerW :=
  let r := callOn C P (!u) ⟨w.g, w.e, w.ch⟩ (k.call (peerPay u dc ds))
  { w with g := r.2.g, e := r.2.e, ch := r.2.w, faults := w.faults + (if r.1 then 0 else 1) }

/-- the peer runs while side `u` is blocked, until bytes towards `u` are in flight; `false` = its program ended -/
def runPeer (C : Cfg) (P : HsP) (u : Bool) (dc ds : Bytes) : List Kind → PeerW → Bool × PeerW
  | [], w => (false, { w with prog := [] })
  | k :: rest, w =>
    if 0 < (w.poll C P u dc ds k).ch.inb u then (true, { w.poll C P u dc ds k with prog := rest })
    else runPeer C P u dc ds rest (w.poll C P u dc ds k)

def blockWorld (C : Cfg) (P : HsP) (u : Bool) (dc ds : Bytes) : World PeerW where
  wait w d t := match d with
    | .wr => (true, w)
    | .rd => if 0 < w.ch.inb u then (true, w) else if t < 0 then runPeer C P u dc ds w.prog w else (false, w)
  send w bs := (.accept bs.length, { w with ch := w.ch.addOut u bs.length })
  recv w n := (.data (zeros (pick w.ch.segs.head? (min n (w.ch.inb u)))),
    { w with ch := w.ch.takeIn u (pick w.ch.segs.head? (min n (w.ch.inb u))) })
  now _ := 0

/-- the composition as a `Sys`: side `u` with glue `g` and engine `h`, the peer from the world -/
def mkSys (u : Bool) (g : Glue) (h : Hs) (w : PeerW) : Sys :=
  if u then { gc := g, ec := h, gs := w.g, es := w.e, ch := w.ch, faults := w.faults }
  else { gc := w.g, ec := w.e, gs := g, es := h, ch := w.ch, faults := w.faults }

def ProgOk (w : PeerW) : Prop := ∀ k ∈ w.prog, k.ok

/-- the peer's program is long enough for the work its engine has left -/
def Enough (P : HsP) (w : PeerW) : Prop := work P w.e ≤ w.prog.length

theorem mkSys_poll (C : Cfg) (P : HsP) (u : Bool) (dc ds : Bytes) (g : Glue) (h : Hs) (w : PeerW) (k : Kind) :
    mkSys u g h (w.poll C P u dc ds k) = (mkSys u g h w).step C P (!u) (k.call (peerPay u dc ds)) := by
  cases u <;> simp [mkSys, PeerW.poll, Sys.step]

theorem mkSys_prog (u : Bool) (g : Glue) (h : Hs) (w : PeerW) (p : List Kind) :
    mkSys u g h { w with prog := p } = mkSys u g h w := by
  cases u <;> rfl

theorem mkSys_eng (u : Bool) (g : Glue) (h : Hs) (w : PeerW) :
    (mkSys u g h w).eng u = h ∧ (mkSys u g h w).eng (!u) = w.e ∧ (mkSys u g h w).ch = w.ch := by
  cases u <;> simp [mkSys, Sys.eng]

/-- one call of the polling peer -/
theorem poll_spec (C : Cfg) (hC : 1 < C.stepsMax) (P : HsP) (u : Bool) (dc ds : Bytes) (hdc : dc ≠ []) (hds : ds ≠ [])
    (g : Glue) (h : Hs) (w : PeerW) (hinv : SysInv P dc ds (mkSys u g h w)) (k : Kind) (hk : k.ok) :
    SysInv P dc ds (mkSys u g h (w.poll C P u dc ds k)) ∧
    work P (w.poll C P u dc ds k).e ≤ work P w.e ∧
    (CanProg (!u) w.e w.ch → work P (w.poll C P u dc ds k).e < work P w.e) ∧
    w.e.stage ≤ (w.poll C P u dc ds k).e.stage ∧
    w.ch.inb u ≤ (w.poll C P u dc ds k).ch.inb u := by
  rw [mkSys_poll]
  have hcall : ∃ n, 1 ≤ n ∧ (k.call (peerPay u dc ds) = .send (peerPay u dc ds) ∨ k.call (peerPay u dc ds) = .recv n) := by
    cases k with
    | send => exact ⟨1, Nat.le_refl _, Or.inl rfl⟩
    | recv n => exact ⟨n, hk, Or.inr rfl⟩
  obtain ⟨n, hn, hcall⟩ := hcall
  cases u with
  | true =>
    obtain ⟨i1, e1, w1, p1, c1, s1⟩ := stepS_spec C hC P dc ds hds n hn _ hinv _ hcall
    exact ⟨i1, w1, p1, s1, c1⟩
  | false =>
    obtain ⟨i1, e1, w1, p1, c1, s1⟩ := stepC_spec C hC P dc ds hdc n hn _ hinv _ hcall
    exact ⟨i1, w1, p1, s1, c1⟩

/-- side `u` waits for a flight and nothing is there: the peer can progress -/
theorem peer_can_progress (P : HsP) (u : Bool) (dc ds : Bytes) (g : Glue) (h : Hs) (w : PeerW)
    (hinv : SysInv P dc ds (mkSys u g h w)) (hs : h.stage < 3) (hr : h.writes = false) (hin : w.ch.inb u = 0) :
    CanProg (!u) w.e w.ch := by
  have hnf : ¬ (mkSys u g h w).bothFinished := by
    intro hb
    cases u <;> simp [mkSys, Sys.bothFinished] at hb <;> omega
  rcases can_progress P dc ds _ hinv hnf with hc | hc
  · cases u with
    | true =>
      exfalso
      obtain ⟨_, h2⟩ := hc
      simp only [mkSys, if_true] at h2
      rcases h2 with h2 | h2
      · rw [hr] at h2; cases h2
      · omega
    | false => simpa [mkSys] using hc
  · cases u with
    | true => simpa [mkSys] using hc
    | false =>
      exfalso
      obtain ⟨_, h2⟩ := hc
      simp only [mkSys, Bool.false_eq_true, if_false] at h2
      rcases h2 with h2 | h2
      · rw [hr] at h2; cases h2
      · omega

theorem work_pos_of_stage (P : HsP) (h : Hs) (hs : h.stage < 3) : 1 ≤ work P h := by
  unfold work
  (repeat' split) <;> omega

/-- **a blocked side is released**: what the peer's run during a blocked wait does.  `prog` is the part of the
peer's program that is still to come. -/
theorem runPeer_spec (C : Cfg) (hC : 1 < C.stepsMax) (P : HsP) (u : Bool) (dc ds : Bytes) (hdc : dc ≠ []) (hds : ds ≠ [])
    (g : Glue) (h : Hs) : ∀ (prog : List Kind) (w : PeerW), SysInv P dc ds (mkSys u g h w) → (∀ k ∈ prog, k.ok) →
      w.ch.inb u = 0 →
      SysInv P dc ds (mkSys u g h (runPeer C P u dc ds prog w).2) ∧ ProgOk (runPeer C P u dc ds prog w).2 ∧
      work P (runPeer C P u dc ds prog w).2.e ≤ work P w.e ∧ w.e.stage ≤ (runPeer C P u dc ds prog w).2.e.stage ∧
      ((runPeer C P u dc ds prog w).1 = true → 0 < (runPeer C P u dc ds prog w).2.ch.inb u) ∧
      ((runPeer C P u dc ds prog w).1 = false →
        (runPeer C P u dc ds prog w).2.prog = [] ∧ (runPeer C P u dc ds prog w).2.ch.inb u = 0) ∧
      (h.stage < 3 → h.writes = false →
        prog.length + work P (runPeer C P u dc ds prog w).2.e ≤ (runPeer C P u dc ds prog w).2.prog.length + work P w.e ∧
        (work P w.e ≤ prog.length → (runPeer C P u dc ds prog w).1 = true)) := by
  intro prog
  induction prog with
  | nil =>
    intro w hinv _ hin
    have e : runPeer C P u dc ds [] w = (false, { w with prog := [] }) := rfl
    rw [e]
    refine ⟨by rw [mkSys_prog]; exact hinv, (by intro k hk; cases hk), Nat.le_refl _, Nat.le_refl _, (by intro hf; cases hf),
      fun _ => ⟨rfl, hin⟩, ?_⟩
    intro hs hr
    refine ⟨by simp, ?_⟩
    intro hle
    have hp := peer_can_progress P u dc ds g h w hinv hs hr hin
    have := work_pos_of_stage P w.e hp.1
    simp at hle
    omega
  | cons k rest ih =>
    intro w hinv hok hin
    obtain ⟨i1, w1, p1, s1, c1⟩ := poll_spec C hC P u dc ds hdc hds g h w hinv k (hok k (List.mem_cons_self ..))
    have hok' : ∀ k ∈ rest, k.ok := fun k hk => hok k (List.mem_cons_of_mem _ hk)
    have e : runPeer C P u dc ds (k :: rest) w =
        if 0 < (w.poll C P u dc ds k).ch.inb u then (true, { w.poll C P u dc ds k with prog := rest })
        else runPeer C P u dc ds rest (w.poll C P u dc ds k) := rfl
    rw [e]
    by_cases hpos : 0 < (w.poll C P u dc ds k).ch.inb u
    · rw [if_pos hpos]
      refine ⟨by rw [mkSys_prog]; exact i1, hok', w1, s1, fun _ => hpos, (by intro hf; cases hf), ?_⟩
      intro hs hr
      have := p1 (peer_can_progress P u dc ds g h w hinv hs hr hin)
      refine ⟨by simp only [List.length_cons]; omega, fun _ => rfl⟩
    · rw [if_neg hpos]
      obtain ⟨j1, j2, j3, j4, j5, j6, j7⟩ := ih _ i1 hok' (by omega)
      refine ⟨j1, j2, by omega, by omega, j5, j6, ?_⟩
      intro hs hr
      obtain ⟨a1, a2⟩ := j7 hs hr
      have := p1 (peer_can_progress P u dc ds g h w hinv hs hr hin)
      refine ⟨by simp only [List.length_cons]; omega, ?_⟩
      intro hle
      apply a2
      simp only [List.length_cons] at hle
      omega

/-! ### the blocking side: BIO callbacks under an unlimited budget -/

/-- the glue fields a call with budget `T` finds and leaves between engine calls -/
def CalmU (T : Int) (s : St Hs PeerW) : Prop :=
  s.g.remainingTime = T ∧ s.g.isReadable = false ∧ s.g.isWritable = false ∧ s.g.pendingError = none ∧
  s.g.lastError = .none

theorem bw_wait_wr (C : Cfg) (P : HsP) (u : Bool) (dc ds : Bytes) (w : PeerW) (t : Int) :
    (blockWorld C P u dc ds).wait w .wr t = (true, w) := rfl
theorem bw_wait_rd (C : Cfg) (P : HsP) (u : Bool) (dc ds : Bytes) (w : PeerW) (t : Int) :
    (blockWorld C P u dc ds).wait w .rd t =
      if 0 < w.ch.inb u then (true, w) else if t < 0 then runPeer C P u dc ds w.prog w else (false, w) := rfl
theorem bw_send (C : Cfg) (P : HsP) (u : Bool) (dc ds : Bytes) (w : PeerW) (bs : Bytes) :
    (blockWorld C P u dc ds).send w bs = (.accept bs.length, { w with ch := w.ch.addOut u bs.length }) := rfl
theorem bw_recv (C : Cfg) (P : HsP) (u : Bool) (dc ds : Bytes) (w : PeerW) (n : Nat) :
    (blockWorld C P u dc ds).recv w n = (.data (zeros (pick w.ch.segs.head? (min n (w.ch.inb u)))),
      { w with ch := w.ch.takeIn u (pick w.ch.segs.head? (min n (w.ch.inb u))) }) := rfl
theorem bw_now (C : Cfg) (P : HsP) (u : Bool) (dc ds : Bytes) (w : PeerW) : (blockWorld C P u dc ds).now w = 0 := rfl

theorem sendNow_block (C : Cfg) (P : HsP) (u : Bool) (dc ds : Bytes) (w : PeerW) (bs : Bytes) :
    sendNow (blockWorld C P u dc ds) w bs = ⟨bs.length, none, { w with ch := w.ch.addOut u bs.length }⟩ := by
  unfold sendNow
  rw [bw_send]
  by_cases hb : bs = []
  · subst hb; simp
  · have : bs.length ≠ 0 := by simpa using hb
    simp [this]

theorem sendAll_block (C : Cfg) (P : HsP) (u : Bool) (dc ds : Bytes) (w : PeerW) (bs : Bytes) :
    sendAll (blockWorld C P u dc ds) w bs 0 = ⟨bs.length, none, { w with ch := w.ch.addOut u bs.length }⟩ := by
  rw [sendAll]
  simp only [bw_wait_wr, sendNow_block]
  simp

theorem bioWrite_block (C : Cfg) (P : HsP) (u : Bool) (dc ds : Bytes) (T : Int) (hT : T < 0) (s : St Hs PeerW)
    (hc : CalmU T s) (bs : Bytes) :
    ∃ s', bioWrite (blockWorld C P u dc ds) s bs = (.ok bs.length, s') ∧ CalmU T s' ∧ s'.e = s.e ∧
      s'.w = { s.w with ch := s.w.ch.addOut u bs.length } ∧ s'.g.pendingSend = s.g.pendingSend := by
  obtain ⟨h1, h2, h3, h4, h5⟩ := hc
  have hneg : s.g.remainingTime < 0 := by omega
  have e : bioWrite (blockWorld C P u dc ds) s bs =
      noteWrite s bs ⟨bs.length, none, { s.w with ch := s.w.ch.addOut u bs.length }⟩ s.g.remainingTime := by
    simp only [bioWrite, h3, Bool.false_eq_true, if_false, hneg, if_true, sendAll_block]
  refine ⟨(noteWrite s bs ⟨bs.length, none, { s.w with ch := s.w.ch.addOut u bs.length }⟩ s.g.remainingTime).2,
    by rw [e]; rfl, ⟨h1, h2, h3, h4, h5⟩, rfl, rfl, rfl⟩

/-- what a blocked wait leaves behind, seen from side `u` with engine `h` -/
structure Rel (P : HsP) (u : Bool) (dc ds : Bytes) (g : Glue) (h : Hs) (w w1 : PeerW) : Prop where
  inv : SysInv P dc ds (mkSys u g h w1)
  ok : ProgOk w1
  wk : work P w1.e ≤ work P w.e
  st : w.e.stage ≤ w1.e.stage
  /-- while side `u` is reading a handshake flight, a peer with enough program left always releases it -/
  rel : h.stage < 3 → h.writes = false → Enough P w → Enough P w1 ∧ 0 < w1.ch.inb u

theorem recvNow_block (C : Cfg) (P : HsP) (u : Bool) (dc ds : Bytes) (w : PeerW) (n : Nat) (hn : 1 ≤ n)
    (hin : 0 < w.ch.inb u) :
    ∃ k, 1 ≤ k ∧ k ≤ n ∧ k ≤ w.ch.inb u ∧
      recvNow (blockWorld C P u dc ds) w n = .got (zeros k) { w with ch := w.ch.takeIn u k } := by
  have hp := pick_bounds w.ch.segs.head? (min n (w.ch.inb u)) (by omega)
  generalize hkdef : pick w.ch.segs.head? (min n (w.ch.inb u)) = k at hp
  have htake : (zeros k).take n = zeros k := List.take_of_length_le (by rw [zeros_length]; omega)
  have hne : zeros k ≠ [] := by
    intro h0
    have := congrArg List.length h0
    rw [zeros_length] at this
    simp at this; omega
  refine ⟨k, hp.1, by omega, by omega, ?_⟩
  simp only [recvNow, bw_recv, hkdef, htake, if_neg hne]

/-- a BIO read of side `u` under an unlimited budget: if nothing is there the peer runs (`w1` is the world when the
wait is over); then either bytes are delivered, or the peer's program has ended and the read reports 0 bytes -/
theorem bioRead_block (C : Cfg) (hC : 1 < C.stepsMax) (P : HsP) (u : Bool) (dc ds : Bytes) (hdc : dc ≠ [])
    (hds : ds ≠ []) (T : Int) (hT : T < 0) (s : St Hs PeerW) (h : Hs) (hc : CalmU T s)
    (hinv : SysInv P dc ds (mkSys u s.g h s.w)) (hok : ProgOk s.w) (n : Nat) (hn : 1 ≤ n) :
    ∃ w1, Rel P u dc ds s.g h s.w w1 ∧
      ((∃ k s1, bioRead (blockWorld C P u dc ds) s n = (.ok (zeros k), s1) ∧ 1 ≤ k ∧ k ≤ n ∧ k ≤ w1.ch.inb u ∧
          CalmU T s1 ∧ s1.e = s.e ∧ s1.w = { w1 with ch := w1.ch.takeIn u k } ∧ s1.g.pendingSend = s.g.pendingSend) ∨
       (w1.prog = [] ∧ w1.ch.inb u = 0 ∧
        ∃ s1, bioRead (blockWorld C P u dc ds) s n = (.ok [], s1) ∧ CalmU T s1 ∧ s1.e = s.e ∧ s1.w = w1 ∧
          s1.g.pendingSend = s.g.pendingSend)) := by
  obtain ⟨h1, h2, h3, h4, h5⟩ := hc
  have hud : underDeadline T 0 0 = T := by simp [underDeadline]; omega
  by_cases hin : 0 < s.w.ch.inb u
  · refine ⟨s.w, ⟨hinv, hok, Nat.le_refl _, Nat.le_refl _, fun _ _ he => ⟨he, hin⟩⟩, Or.inl ?_⟩
    obtain ⟨k, k1, k2, k3, hr⟩ := recvNow_block C P u dc ds s.w n hn hin
    refine ⟨k, { s with w := { s.w with ch := s.w.ch.takeIn u k },
                         g := { s.g with remainingTime := underDeadline s.g.remainingTime 0 0 } }, ?_, k1, k2, k3, ?_, ?_, ?_, ?_⟩
    · simp only [bioRead, h2, Bool.false_eq_true, if_false, receive, bw_wait_rd, hin, if_true, hr, bw_now]
    · exact ⟨by show underDeadline s.g.remainingTime 0 0 = T; rw [h1]; exact hud, h2, h3, h4, h5⟩
    · rfl
    · rfl
    · rfl
  · have hin0 : s.w.ch.inb u = 0 := by omega
    obtain ⟨j1, j2, j3, j4, j5, j6, j7⟩ := runPeer_spec C hC P u dc ds hdc hds s.g h s.w.prog s.w hinv hok hin0
    have hwait : (blockWorld C P u dc ds).wait s.w .rd s.g.remainingTime = runPeer C P u dc ds s.w.prog s.w := by
      rw [bw_wait_rd, if_neg hin, if_pos (by omega)]
    rcases hrp : runPeer C P u dc ds s.w.prog s.w with ⟨b, w1⟩
    rw [hrp] at j1 j2 j3 j4 j5 j6 j7 hwait
    simp only at j1 j2 j3 j4 j5 j6 j7
    have hrel : Rel P u dc ds s.g h s.w w1 := by
      refine ⟨j1, j2, j3, j4, ?_⟩
      intro hs hr he
      obtain ⟨a1, a2⟩ := j7 hs hr
      have hb := a2 he
      refine ⟨?_, j5 hb⟩
      unfold Enough at he ⊢
      omega
    refine ⟨w1, hrel, ?_⟩
    cases b with
    | true =>
      left
      obtain ⟨k, k1, k2, k3, hr⟩ := recvNow_block C P u dc ds w1 n hn (j5 rfl)
      refine ⟨k, { s with w := { w1 with ch := w1.ch.takeIn u k },
                           g := { s.g with remainingTime := underDeadline s.g.remainingTime 0 0 } }, ?_, k1, k2, k3, ?_, ?_, ?_, ?_⟩
      · simp only [bioRead, h2, Bool.false_eq_true, if_false, receive, hwait, hr, bw_now]
      · exact ⟨by show underDeadline s.g.remainingTime 0 0 = T; rw [h1]; exact hud, h2, h3, h4, h5⟩
      · rfl
      · rfl
      · rfl
    | false =>
      right
      obtain ⟨e1, e2⟩ := j6 rfl
      refine ⟨e1, e2, { s with w := w1, g := { s.g with remainingTime := underDeadline s.g.remainingTime 0 0 } },
        ?_, ?_, ?_, ?_, ?_⟩
      · simp only [bioRead, h2, Bool.false_eq_true, if_false, receive, hwait, bw_now]
      · exact ⟨by show underDeadline s.g.remainingTime 0 0 = T; rw [h1]; exact hud, h2, h3, h4, h5⟩
      · rfl
      · rfl
      · rfl

/-! ### the invariant of the composition under a move of side `u` -/

theorem sysInv_upd (P : HsP) (u : Bool) (dc ds : Bytes) (g g' : Glue) (h h' : Hs) (w : PeerW) (ch' : Chan)
    (hinv : SysInv P dc ds (mkSys u g h w))
    (hside : SideInv P u (ownPay u dc ds) ⟨g', h', ch'⟩) (ht : Tr P u h w.ch h' ch') :
    SysInv P dc ds (mkSys u g' h' { w with ch := ch' }) := by
  have hoe := ht.outEq; have hog := ht.outGe; have hie := ht.inEq; have hig := ht.inGe
  cases u with
  | true =>
    obtain ⟨ic, is, a1, a2, a3, a4, af⟩ := hinv
    simp only [mkSys, if_true] at ic is a1 a2 a3 a4 af
    simp only [Chan.out, Chan.inb, if_true] at hoe hog hie hig
    have hsl := sent_le P w.e
    have hscl : w.e.client = false := is.2.2.2.1
    rw [hscl] at hsl
    simp only [Bool.false_eq_true, if_false] at hsl
    have hcl' : h'.client = true := hside.2.2.2.1
    have hrf : 3 ≤ h'.stage → rcvd P h' = P.k2 := by
      intro h3; have := rcvd_fin P h' h3; rw [hcl'] at this; simpa using this
    simp only [mkSys, if_true]
    refine ⟨hside, ?_, ?_, ?_, ?_, ?_, af⟩
    · obtain ⟨s1, s2, s3, s4, s5, s6, s7, s8⟩ := is
      exact ⟨s1, s2, s3, s4, s5, s6, s7, s8⟩
    · dsimp only
      intro h3
      have := a1 (by have := ht.st; omega)
      have := hoe h3
      omega
    · dsimp only; omega
    · dsimp only
      intro h3
      have hI := a3 h3
      by_cases hf : h'.stage < 3
      · have := hie hf; omega
      · have := hrf (by omega); omega
    · dsimp only
      by_cases hf : h'.stage < 3
      · have := hie hf; omega
      · have := hrf (by omega); omega
  | false =>
    obtain ⟨ic, is, a1, a2, a3, a4, af⟩ := hinv
    simp only [mkSys, Bool.false_eq_true, if_false] at ic is a1 a2 a3 a4 af
    simp only [Chan.out, Chan.inb, Bool.false_eq_true, if_false] at hoe hog hie hig
    have hsl := sent_le P w.e
    have hccl : w.e.client = true := ic.2.2.2.1
    rw [hccl] at hsl
    simp only [if_true] at hsl
    have hcl' : h'.client = false := hside.2.2.2.1
    have hrf : 3 ≤ h'.stage → rcvd P h' = P.k1 + P.k3 := by
      intro h3; have := rcvd_fin P h' h3; rw [hcl'] at this; simpa using this
    simp only [mkSys, Bool.false_eq_true, if_false]
    refine ⟨?_, hside, ?_, ?_, ?_, ?_, af⟩
    · obtain ⟨s1, s2, s3, s4, s5, s6, s7, s8⟩ := ic
      exact ⟨s1, s2, s3, s4, s5, s6, s7, s8⟩
    · dsimp only
      intro h3
      have hI := a1 h3
      by_cases hf : h'.stage < 3
      · have := hie hf; omega
      · have := hrf (by omega); omega
    · dsimp only
      by_cases hf : h'.stage < 3
      · have := hie hf; omega
      · have := hrf (by omega); omega
    · dsimp only
      intro h3
      have := a3 (by have := ht.st; omega)
      have := hoe h3
      omega
    · dsimp only; omega

/-- the side invariant of the blocking side between BIO calls -/
theorem sideU (P : HsP) (u : Bool) (d : Bytes) (T : Int) (s : St Hs PeerW) (hc : CalmU T s) (h : Hs) (hw : WF P h)
    (hcl : h.client = u) (hp : s.g.pendingSend = [] ∨ s.g.pendingSend = d) (ch : Chan) :
    SideInv P u d ⟨s.g, h, ch⟩ :=
  ⟨hc.2.1, hc.2.2.1, hc.2.2.2.1, hcl, hw, Or.inl hc.2.2.2.2, (by intro hl; rw [hc.2.2.2.2] at hl; cases hl), hp⟩

/-! ### one engine call of the blocking side -/

/-- how an engine call of the blocking side ends: it never gives up during the handshake (`3 ≤ stage` at the end);
after it, `WANT_READ` is answered only if the peer's program has ended while the side was blocked -/
def PostU (P : HsP) (u : Bool) (dc ds : Bytes) (T : Int) (D : Nat → Bytes → Prop) (s : St Hs PeerW)
    (res : Out (SslAns × Bytes) × St Hs PeerW) (mayStarve : Prop := True) : Prop :=
  ∃ ans out s', res = (.ok (ans, out), s') ∧ CalmU T s' ∧ s'.g.pendingSend = s.g.pendingSend ∧
    SysInv P dc ds (mkSys u s'.g s'.e s'.w) ∧ ProgOk s'.w ∧ 3 ≤ s'.e.stage ∧ s'.e.client = u ∧
    work P s'.w.e ≤ work P s.w.e ∧ s.w.e.stage ≤ s'.w.e.stage ∧
    (match ans with
     | .done k => D k out
     | .wantRead => mayStarve ∧ s'.w.prog = [] ∧ s'.w.ch.inb u = 0
     | _ => False)

theorem PostU.chain {P : HsP} {u : Bool} {dc ds : Bytes} {T : Int} {D : Nat → Bytes → Prop} {s s1 : St Hs PeerW}
    {res : Out (SslAns × Bytes) × St Hs PeerW} {ms : Prop} (hp : s1.g.pendingSend = s.g.pendingSend)
    (hwk : work P s1.w.e ≤ work P s.w.e) (hst : s.w.e.stage ≤ s1.w.e.stage) (hr : PostU P u dc ds T D s1 res ms) :
    PostU P u dc ds T D s res ms := by
  obtain ⟨ans, out, s', e1, c1, p1, i1, o1, f1, cl1, w1, t1, a1⟩ := hr
  exact ⟨ans, out, s', e1, c1, p1.trans hp, i1, o1, f1, cl1, Nat.le_trans w1 hwk, Nat.le_trans hst t1, a1⟩

theorem hsRunU_spec (C : Cfg) (hC : 1 < C.stepsMax) (P : HsP) (u : Bool) (dc ds : Bytes) (hdc : dc ≠ [])
    (hds : ds ≠ []) (T : Int) (hT : T < 0) (D : Nat → Bytes → Prop) (ms : Prop) (k : Hs → EngProg Hs)
    (hk : ∀ s1 h1, CalmU T s1 → 3 ≤ h1.stage → h1.client = u → WF P h1 →
      (s1.g.pendingSend = [] ∨ s1.g.pendingSend = ownPay u dc ds) →
      SysInv P dc ds (mkSys u s1.g h1 s1.w) → ProgOk s1.w →
      PostU P u dc ds T D s1 (interp (blockWorld C P u dc ds) s1 (k h1)) ms) :
    ∀ (f : Nat) (h : Hs) (s : St Hs PeerW), work P h < f → WF P h → h.client = u → CalmU T s →
      (s.g.pendingSend = [] ∨ s.g.pendingSend = ownPay u dc ds) →
      SysInv P dc ds (mkSys u s.g h s.w) → ProgOk s.w → (h.stage < 3 → Enough P s.w) →
      PostU P u dc ds T D s (interp (blockWorld C P u dc ds) s (hsRun P f h k)) ms := by
  intro f
  induction f with
  | zero => intro h s hf; omega
  | succ f ih =>
    intro h s hf hw hcl hc hpend hinv hok hen
    unfold hsRun
    by_cases hfin : 3 ≤ h.stage
    · rw [if_pos hfin]
      exact hk s h hc hfin hcl hw hpend hinv hok
    · rw [if_neg hfin]
      have hs3 : h.stage < 3 := by omega
      have hneed := hw.1 hs3
      have hen' := hen hs3
      obtain ⟨nwf, ncl, nst, nwork, nwr, nrd⟩ := next_facts P h hw hs3
      by_cases hwr : h.writes = true
      · -- a flight to write: the channel takes all of it
        rw [if_pos hwr]
        obtain ⟨s1, e1, c1, ee1, w1, p1⟩ := bioWrite_block C P u dc ds T hT s hc (zeros h.need)
        rw [zeros_length] at e1 w1
        simp only [interp, e1, Nat.le_refl, if_true]
        obtain ⟨hs1, hs2⟩ := nwr hwr
        have t : Tr P u h s.w.ch (h.next P) (s.w.ch.addOut u h.need) := by
          refine ⟨ncl, by omega, by omega, nwf, by simp; omega, by intro _; simp; omega, by simp; omega, by intro _; simp; omega, by simp, by simp⟩
        have hpend1 : s1.g.pendingSend = [] ∨ s1.g.pendingSend = ownPay u dc ds := by rw [p1]; exact hpend
        have hinv1 : SysInv P dc ds (mkSys u s1.g (h.next P) s1.w) := by
          rw [w1]
          exact sysInv_upd P u dc ds s.g s1.g h (h.next P) s.w _ hinv
            (sideU P u _ T s1 c1 (h.next P) nwf (ncl.trans hcl) hpend1 _) t
        have hwe : s1.w.e = s.w.e := by rw [w1]
        refine PostU.chain p1 (by rw [hwe]; exact Nat.le_refl _) (by rw [hwe]; exact Nat.le_refl _)
          (ih (h.next P) s1 (by omega) nwf (ncl.trans hcl) c1 hpend1 hinv1 (by rw [w1]; exact hok) ?_)
        intro _
        rw [w1]; exact hen'
      · -- a flight to read: if nothing is there, the peer runs until there is
        have hwr' : h.writes = false := by simpa using hwr
        rw [if_neg hwr]
        obtain ⟨hr1, hr2⟩ := nrd hwr'
        obtain ⟨w1, rel, hcase⟩ := bioRead_block C hC P u dc ds hdc hds T hT s h hc hinv hok h.need hneed.1
        obtain ⟨hen1, hpos1⟩ := rel.rel hs3 hwr' hen'
        rcases hcase with ⟨k0, s1, e1, k1, k2, k3, c1, ee1, ww1, p1⟩ | ⟨_, hz, _⟩
        · have hk00 : k0 ≠ 0 := by omega
          simp only [interp, e1, zeros_length, hk00, if_false]
          have hpend1 : s1.g.pendingSend = [] ∨ s1.g.pendingSend = ownPay u dc ds := by rw [p1]; exact hpend
          have hwe : s1.w.e = w1.e := by rw [ww1]
          by_cases hall : h.need ≤ k0
          · rw [if_pos hall]
            have hk0 : k0 = h.need := by omega
            have t : Tr P u h w1.ch (h.next P) (w1.ch.takeIn u k0) := by
              rw [hk0]
              refine ⟨ncl, by omega, by omega, nwf, by simp; omega, by intro _; simp; omega, by simp; omega, by intro _; simp; omega, by simp, by simp⟩
            have hinv1 : SysInv P dc ds (mkSys u s1.g (h.next P) s1.w) := by
              rw [ww1]
              exact sysInv_upd P u dc ds s.g s1.g h (h.next P) w1 _ rel.inv
                (sideU P u _ T s1 c1 (h.next P) nwf (ncl.trans hcl) hpend1 _) t
            refine PostU.chain p1 (by rw [hwe]; exact rel.wk) (by rw [hwe]; exact rel.st)
              (ih (h.next P) s1 (by omega) nwf (ncl.trans hcl) c1 hpend1 hinv1 (by rw [ww1]; exact rel.ok) ?_)
            intro _
            rw [ww1]; exact hen1
          · rw [if_neg hall]
            obtain ⟨pwf, pwork, prc, psn⟩ := part_facts P h hw hs3 hwr' k0 k1 (by omega)
            have t : Tr P u h w1.ch { h with need := h.need - k0 } (w1.ch.takeIn u k0) := by
              refine ⟨rfl, Nat.le_refl _, by omega, pwf, by simp; omega, by intro _; simp; omega, by simp; omega, by intro _; simp; omega, by simp, by simp⟩
            have hinv1 : SysInv P dc ds (mkSys u s1.g { h with need := h.need - k0 } s1.w) := by
              rw [ww1]
              exact sysInv_upd P u dc ds s.g s1.g h _ w1 _ rel.inv
                (sideU P u _ T s1 c1 _ pwf hcl hpend1 _) t
            refine PostU.chain p1 (by rw [hwe]; exact rel.wk) (by rw [hwe]; exact rel.st)
              (ih { h with need := h.need - k0 } s1 (by omega) pwf hcl c1 hpend1 hinv1 (by rw [ww1]; exact rel.ok) ?_)
            intro _
            rw [ww1]; exact hen1
        · omega

theorem sslWriteU_spec (C : Cfg) (hC : 1 < C.stepsMax) (P : HsP) (u : Bool) (dc ds : Bytes) (hdc : dc ≠ [])
    (hds : ds ≠ []) (T : Int) (hT : T < 0) (s : St Hs PeerW) (d : Bytes) (hd : d ≠ []) (hc : CalmU T s)
    (hw : WF P s.e) (hcl : s.e.client = u) (hpend : s.g.pendingSend = [] ∨ s.g.pendingSend = ownPay u dc ds)
    (hinv : SysInv P dc ds (mkSys u s.g s.e s.w)) (hok : ProgOk s.w) (hen : s.e.stage < 3 → Enough P s.w) :
    PostU P u dc ds T (fun k _ => k = d.length) s
      (interp (blockWorld C P u dc ds) s ((engine P).sslWrite s.e d)) False := by
  apply hsRunU_spec C hC P u dc ds hdc hds T hT _ False (appWrite d) _ (fuel P) s.e s (work_lt_fuel P s.e hw) hw hcl hc hpend
    hinv hok hen
  intro s1 h1 c1 hfin hcl1 hw1 hpend1 hinv1 hok1
  obtain ⟨s2, e2, c2, _, w2, p2⟩ := bioWrite_block C P u dc ds T hT s1 c1 d
  have hl : d.length ≠ 0 := by simpa using hd
  simp only [appWrite, interp, e2, hl, if_false]
  have hpend2 : s2.g.pendingSend = [] ∨ s2.g.pendingSend = ownPay u dc ds := by rw [p2]; exact hpend1
  have t : Tr P u h1 s1.w.ch h1 (s1.w.ch.addOut u d.length) :=
    ⟨rfl, Nat.le_refl _, Nat.le_refl _, hw1, by simp, by intro h; omega, by simp, by intro h; omega, by simp, by simp⟩
  refine ⟨.done d.length, [], { s2 with e := h1 }, rfl, c2, p2, ?_, ?_, hfin, hcl1, ?_, ?_, rfl⟩
  · show SysInv P dc ds (mkSys u s2.g h1 s2.w)
    rw [w2]
    exact sysInv_upd P u dc ds s1.g s2.g h1 h1 s1.w _ hinv1 (sideU P u _ T s2 c2 h1 hw1 hcl1 hpend2 _) t
  · show ProgOk s2.w; rw [w2]; exact hok1
  · show work P s2.w.e ≤ _; rw [w2]; exact Nat.le_refl _
  · show _ ≤ s2.w.e.stage; rw [w2]; exact Nat.le_refl _

theorem sslReadU_spec (C : Cfg) (hC : 1 < C.stepsMax) (P : HsP) (u : Bool) (dc ds : Bytes) (hdc : dc ≠ [])
    (hds : ds ≠ []) (T : Int) (hT : T < 0) (s : St Hs PeerW) (n : Nat) (hn : 1 ≤ n) (hc : CalmU T s)
    (hw : WF P s.e) (hcl : s.e.client = u) (hpend : s.g.pendingSend = [] ∨ s.g.pendingSend = ownPay u dc ds)
    (hinv : SysInv P dc ds (mkSys u s.g s.e s.w)) (hok : ProgOk s.w) (hen : s.e.stage < 3 → Enough P s.w) :
    PostU P u dc ds T (fun k out => 1 ≤ k ∧ out ≠ []) s
      (interp (blockWorld C P u dc ds) s ((engine P).sslRead s.e n)) True := by
  apply hsRunU_spec C hC P u dc ds hdc hds T hT _ True (appRead n) _ (fuel P) s.e s (work_lt_fuel P s.e hw) hw hcl hc hpend
    hinv hok hen
  intro s1 h1 c1 hfin hcl1 hw1 hpend1 hinv1 hok1
  obtain ⟨w1, rel, hcase⟩ := bioRead_block C hC P u dc ds hdc hds T hT s1 h1 c1 hinv1 hok1 n hn
  rcases hcase with ⟨k0, s2, e2, k1, k2, k3, c2, ee2, ww2, p2⟩ | ⟨hp0, hz, s2, e2, c2, ee2, ww2, p2⟩
  · have hk00 : k0 ≠ 0 := by omega
    simp only [appRead, interp, e2, zeros_length, hk00, if_false]
    have hne : zeros k0 ≠ [] := by
      intro h0; have := congrArg List.length h0; rw [zeros_length] at this; simp at this; omega
    have hpend2 : s2.g.pendingSend = [] ∨ s2.g.pendingSend = ownPay u dc ds := by rw [p2]; exact hpend1
    have t : Tr P u h1 w1.ch h1 (w1.ch.takeIn u k0) :=
      ⟨rfl, Nat.le_refl _, Nat.le_refl _, hw1, by simp, by intro h; omega, by simp, by intro h; omega, by simp, by simp⟩
    refine ⟨.done k0, zeros k0, { s2 with e := h1 }, rfl, c2, p2, ?_, ?_, hfin, hcl1, ?_, ?_, ⟨k1, hne⟩⟩
    · show SysInv P dc ds (mkSys u s2.g h1 s2.w)
      rw [ww2]
      exact sysInv_upd P u dc ds s1.g s2.g h1 h1 w1 _ rel.inv (sideU P u _ T s2 c2 h1 hw1 hcl1 hpend2 _) t
    · show ProgOk s2.w; rw [ww2]; exact rel.ok
    · show work P s2.w.e ≤ _; rw [ww2]; exact rel.wk
    · show _ ≤ s2.w.e.stage; rw [ww2]; exact rel.st
  · simp only [appRead, interp, e2, List.length_nil, if_true]
    have hpend2 : s2.g.pendingSend = [] ∨ s2.g.pendingSend = ownPay u dc ds := by rw [p2]; exact hpend1
    refine ⟨.wantRead, [], { s2 with e := h1 }, rfl, c2, p2, ?_, ?_, hfin, hcl1, ?_, ?_, ?_⟩
    · show SysInv P dc ds (mkSys u s2.g h1 s2.w)
      rw [ww2]
      exact sysInv_upd P u dc ds s1.g s2.g h1 h1 w1 w1.ch rel.inv (sideU P u _ T s2 c2 h1 hw1 hcl1 hpend2 _)
        (Tr.refl P u h1 w1.ch hw1)
    · show ProgOk s2.w; rw [ww2]; exact rel.ok
    · show work P s2.w.e ≤ _; rw [ww2]; exact rel.wk
    · show _ ≤ s2.w.e.stage; rw [ww2]; exact rel.st
    · show True ∧ s2.w.prog = [] ∧ s2.w.ch.inb u = 0
      rw [ww2]; exact ⟨trivial, hp0, hz⟩

/-! ### one API call of the blocking side (timeout `T < 0`) -/

/-- the blocking side between calls (no error cached: its calls return only with a result) -/
def ReadyU (d : Bytes) (s : St Hs PeerW) : Prop :=
  s.g.isReadable = false ∧ s.g.isWritable = false ∧ s.g.pendingError = none ∧ s.g.lastError = .none ∧
  (s.g.pendingSend = [] ∨ s.g.pendingSend = d)

theorem sysInv_own (P : HsP) (u : Bool) (dc ds : Bytes) (g : Glue) (h : Hs) (w : PeerW)
    (hinv : SysInv P dc ds (mkSys u g h w)) : WF P h ∧ h.client = u := by
  cases u with
  | true => have := hinv.1; simp only [mkSys, if_true] at this; exact ⟨this.2.2.2.2.1, this.2.2.2.1⟩
  | false =>
    have := hinv.2.1; simp only [mkSys, Bool.false_eq_true, if_false] at this; exact ⟨this.2.2.2.2.1, this.2.2.2.1⟩

/-- what a call of the blocking side has achieved -/
structure DoneU (P : HsP) (u : Bool) (dc ds : Bytes) (s s' : St Hs PeerW) : Prop where
  inv : SysInv P dc ds (mkSys u s'.g s'.e s'.w)
  ok : ProgOk s'.w
  fin : 3 ≤ s'.e.stage
  wk : work P s'.w.e ≤ work P s.w.e
  st : s.w.e.stage ≤ s'.w.e.stage

theorem gateU (C : Cfg) (P : HsP) (u : Bool) (dc ds : Bytes) (T : Int) (s : St Hs PeerW)
    (hr : ReadyU (ownPay u dc ds) s) :
    handleLastError (blockWorld C P u dc ds) (setTimeout s T) = (.ok true, setLastError (setTimeout s T) .none) ∧
    CalmU T (setLastError (setTimeout s T) .none) := by
  obtain ⟨h1, h2, h3, h4, h5⟩ := hr
  refine ⟨?_, rfl, h1, h2, h3, rfl⟩
  simp [handleLastError, setTimeout, h4, handleError]

/-- **`Send(data, T)`, `T < 0`, of the blocking side**: it returns only when the whole buffer has been taken - in
particular only after the handshake of this side is complete -, provided the peer's program is long enough for the
work the peer's engine has left (`Enough`; needed only while this side's handshake is unfinished). -/
theorem sendU_spec (C : Cfg) (hC : 1 < C.stepsMax) (P : HsP) (u : Bool) (dc ds : Bytes) (hdc : dc ≠ [])
    (hds : ds ≠ []) (T : Int) (hT : T < 0) (s : St Hs PeerW) (hr : ReadyU (ownPay u dc ds) s)
    (hinv : SysInv P dc ds (mkSys u s.g s.e s.w)) (hok : ProgOk s.w) (hen : s.e.stage < 3 → Enough P s.w) :
    ∃ s', sendT C (blockWorld C P u dc ds) (engine P) s (ownPay u dc ds) T = (.ok (ownPay u dc ds).length, s') ∧
      ReadyU (ownPay u dc ds) s' ∧ DoneU P u dc ds s s' := by
  have hd : ownPay u dc ds ≠ [] := by cases u <;> simpa [ownPay]
  obtain ⟨hgate, c1⟩ := gateU C P u dc ds T s hr
  obtain ⟨hwf, hcl⟩ := sysInv_own P u dc ds _ _ _ hinv
  simp only [sendT, tlsWrite, hgate]
  generalize hs1 : setLastError (setTimeout s T) .none = s1 at c1
  have e1 : s1.e = s.e := by rw [← hs1]; rfl
  have w1 : s1.w = s.w := by rw [← hs1]; rfl
  have p1 : s1.g.pendingSend = s.g.pendingSend := by rw [← hs1]; rfl
  have hpend1 : s1.g.pendingSend = [] ∨ s1.g.pendingSend = ownPay u dc ds := by rw [p1]; exact hr.2.2.2.2
  have hinv1 : SysInv P dc ds (mkSys u s1.g s1.e s1.w) := by
    rw [e1, w1]
    have := sysInv_upd P u dc ds s.g s1.g s.e s.e s.w s.w.ch hinv (sideU P u _ T s1 c1 s.e hwf hcl hpend1 _)
      (Tr.refl P u s.e s.w.ch hwf)
    exact this
  let Good : St Hs PeerW → Prop := fun s' => CalmU T s' ∧ s'.g.pendingSend = [] ∧ DoneU P u dc ds s s'
  have hloop := writeLoop_rule C (blockWorld C P u dc ds) (engine P)
    (fun i rest s' => (rest = ownPay u dc ds ∧ s' = s1 ∧ 1 < i) ∨ (rest = [] ∧ Good s'))
    (fun o s' => o = .ok [] ∧ Good s')
    (by intro i rest s' h hex
        rcases h with ⟨h1, _, h3⟩ | ⟨h1, h2⟩
        · rcases hex with h0 | h0
          · omega
          · exact absurd (h1 ▸ h0) hd
        · exact ⟨by rw [h1], h2⟩)
    (by intro i' rest s' o s'' h hne heq
        exfalso
        rcases h with ⟨h1, h2, h3⟩ | ⟨h1, _⟩
        · subst h1; subst h2
          unfold writeRound at heq
          rw [if_neg (by intro h; exact h.2 (hpend1.imp id (congrArg List.length)))] at heq
          obtain ⟨ans, out, s2, e2, c2, p2, i2, o2, f2, cl2, wk2, st2, a2⟩ :=
            sslWriteU_spec C hC P u dc ds hdc hds T hT s' _ hd c1 (by rw [e1]; exact hwf) (by rw [e1]; exact hcl) hpend1
              hinv1 (by rw [w1]; exact hok) (by rw [e1, w1]; exact hen)
          rw [e2] at heq
          cases ans with
          | done k =>
            simp only at a2
            simp only at heq
            have hdrop : (ownPay u dc ds).drop k = [] := by rw [a2]; simp
            by_cases hb : 0 < k ∧ C.fixRoundReset = true
            · rw [if_pos hb] at heq; simp at heq
            · rw [if_neg hb, if_neg (by intro h; omega)] at heq; simp at heq
          | wantRead => exact a2.1
          | wantWrite => exact a2
          | zeroReturn => exact a2
          | syscallErr => exact a2
          | sslErr => exact a2
        · exact absurd h1 hne)
    (by intro i' rest s' j rest' s'' h hne heq
        rcases h with ⟨h1, h2, h3⟩ | ⟨h1, _⟩
        · subst h1; subst h2
          unfold writeRound at heq
          rw [if_neg (by intro h; exact h.2 (hpend1.imp id (congrArg List.length)))] at heq
          obtain ⟨ans, out, s2, e2, c2, p2, i2, o2, f2, cl2, wk2, st2, a2⟩ :=
            sslWriteU_spec C hC P u dc ds hdc hds T hT s' _ hd c1 (by rw [e1]; exact hwf) (by rw [e1]; exact hcl) hpend1
              hinv1 (by rw [w1]; exact hok) (by rw [e1, w1]; exact hen)
          rw [e2] at heq
          cases ans with
          | done k =>
            simp only at a2
            simp only at heq
            have hdrop : (ownPay u dc ds).drop k = [] := by rw [a2]; simp
            have hgood : Good (setPending (noteCall (engine P) s2 false (ownPay u dc ds) (.done k)) []) :=
              ⟨c2, rfl, ⟨sysInv_upd P u dc ds s2.g _ s2.e s2.e s2.w s2.w.ch i2
                  (sideU P u _ T (setPending (noteCall (engine P) s2 false (ownPay u dc ds) (.done k)) []) c2 s2.e
                    (sysInv_own P u dc ds _ _ _ i2).1 cl2 (Or.inl rfl) _)
                  (Tr.refl P u s2.e s2.w.ch (sysInv_own P u dc ds _ _ _ i2).1),
                o2, f2, by rw [← w1]; exact wk2, by rw [← w1]; exact st2⟩⟩
            by_cases hb : 0 < k ∧ C.fixRoundReset = true
            · rw [if_pos hb, hdrop] at heq
              simp only [Prod.mk.injEq, Next.again.injEq] at heq
              obtain ⟨⟨_, rfl⟩, rfl⟩ := heq
              exact Or.inr ⟨rfl, hgood⟩
            · rw [if_neg hb, if_neg (by intro h; omega), hdrop] at heq
              simp only [Prod.mk.injEq, Next.again.injEq] at heq
              obtain ⟨⟨_, rfl⟩, rfl⟩ := heq
              exact Or.inr ⟨rfl, hgood⟩
          | wantRead => exact absurd a2.1 id
          | wantWrite => exact absurd a2 id
          | zeroReturn => exact absurd a2 id
          | syscallErr => exact absurd a2 id
          | sslErr => exact absurd a2 id
        · exact absurd h1 hne)
    C.stepsMax (ownPay u dc ds) s1 (Or.inl ⟨rfl, rfl, hC⟩)
  rcases hw : writeLoop C (blockWorld C P u dc ds) (engine P) C.stepsMax (ownPay u dc ds) s1 with ⟨o, s''⟩
  rw [hw] at hloop
  obtain ⟨ho, hc'', hp'', hdone⟩ := hloop
  simp only at ho
  subst ho
  simp only [List.length_nil, Nat.sub_zero]
  have hnw : s''.g.lastError ≠ .wantWrite := by rw [hc''.2.2.2.2]; simp
  rw [if_neg (by intro h; exact hnw h.2.1)]
  exact ⟨s'', rfl, ⟨hc''.2.1, hc''.2.2.1, hc''.2.2.2.1, hc''.2.2.2.2, Or.inl hp''⟩, hdone⟩

/-- the peer's program has ended while the side waits for application data: the unlimited wait reports "not ready" -/
theorem handleResult_starved (C : Cfg) (P : HsP) (u : Bool) (dc ds : Bytes) (T : Int) (hT : T < 0) (s : St Hs PeerW)
    (hc : CalmU T s) (hp : s.w.prog = []) (hz : s.w.ch.inb u = 0) :
    ∃ s', handleResult (blockWorld C P u dc ds) s .wantRead = (.ok false, s') ∧ s'.e = s.e ∧ s'.w = s.w ∧
      s'.g.lastError = .wantRead ∧ s'.g.isReadable = false ∧ s'.g.isWritable = false ∧ s'.g.pendingError = none ∧
      s'.g.pendingSend = s.g.pendingSend := by
  obtain ⟨h1, h2, h3, h4, h5⟩ := hc
  have hno : ¬ (0 < s.w.ch.inb u) := by omega
  have hw : (blockWorld C P u dc ds).wait s.w .rd T = (false, s.w) := by
    rw [bw_wait_rd, if_neg hno, if_pos hT, hp]
    show (false, { s.w with prog := [] }) = (false, s.w)
    rw [← hp]
  refine ⟨{ s with g := { s.g with lastError := .wantRead, remainingTime := underDeadline T 0 0 } }, ?_, rfl, rfl, rfl,
    h2, h3, h4, rfl⟩
  simp only [handleResult, h4, handleLastError, SslAns.toErr, setLastError, handleError, waitUnder, h1, hw, bw_now]

/-- **`Receive(n, T)`, `T < 0`, of the blocking side**: whatever happens, this side's handshake is complete when the
call is over; the call returns at least one byte - unless the peer's program ended while the call was waiting for
application data (`prog = []`: the observation ends with the call still blocked). -/
theorem recvU_spec (C : Cfg) (hC : 1 < C.stepsMax) (P : HsP) (u : Bool) (dc ds : Bytes) (hdc : dc ≠ [])
    (hds : ds ≠ []) (T : Int) (hT : T < 0) (n : Nat) (hn : 1 ≤ n) (s : St Hs PeerW)
    (hr : ReadyU (ownPay u dc ds) s)
    (hinv : SysInv P dc ds (mkSys u s.g s.e s.w)) (hok : ProgOk s.w) (hen : s.e.stage < 3 → Enough P s.w) :
    DoneU P u dc ds s (receiveT C (blockWorld C P u dc ds) (engine P) s n T).2 ∧
    ((receiveT C (blockWorld C P u dc ds) (engine P) s n T).2.w.prog = [] ∨
     (∃ out, (receiveT C (blockWorld C P u dc ds) (engine P) s n T).1 = .ok out ∧ out ≠ [] ∧
        ReadyU (ownPay u dc ds) (receiveT C (blockWorld C P u dc ds) (engine P) s n T).2)) := by
  obtain ⟨i, hi1⟩ : ∃ i, C.stepsMax = i + 1 := ⟨C.stepsMax - 1, by omega⟩
  obtain ⟨hgate, c1⟩ := gateU C P u dc ds T s hr
  obtain ⟨hwf, hcl⟩ := sysInv_own P u dc ds _ _ _ hinv
  simp only [receiveT, tlsRead, hgate, hi1, readLoop, readRound]
  generalize hs1 : setLastError (setTimeout s T) .none = s1 at c1
  have e1 : s1.e = s.e := by rw [← hs1]; rfl
  have w1 : s1.w = s.w := by rw [← hs1]; rfl
  have p1 : s1.g.pendingSend = s.g.pendingSend := by rw [← hs1]; rfl
  have hpend1 : s1.g.pendingSend = [] ∨ s1.g.pendingSend = ownPay u dc ds := by rw [p1]; exact hr.2.2.2.2
  have hinv1 : SysInv P dc ds (mkSys u s1.g s1.e s1.w) := by
    rw [e1, w1]
    exact sysInv_upd P u dc ds s.g s1.g s.e s.e s.w s.w.ch hinv (sideU P u _ T s1 c1 s.e hwf hcl hpend1 _)
      (Tr.refl P u s.e s.w.ch hwf)
  obtain ⟨ans, out, s2, e2, c2, p2, i2, o2, f2, cl2, wk2, st2, a2⟩ :=
    sslReadU_spec C hC P u dc ds hdc hds T hT s1 n hn c1 (by rw [e1]; exact hwf) (by rw [e1]; exact hcl) hpend1
      hinv1 (by rw [w1]; exact hok) (by rw [e1, w1]; exact hen)
  rw [e2]
  have hwf2 := (sysInv_own P u dc ds _ _ _ i2).1
  have hpend2 : s2.g.pendingSend = [] ∨ s2.g.pendingSend = ownPay u dc ds := by rw [p2]; exact hpend1
  cases ans with
  | done k =>
    obtain ⟨_, hne⟩ := a2
    cases out with
    | nil => exact absurd rfl hne
    | cons b bs =>
      simp only
      refine ⟨⟨?_, o2, f2, by rw [← w1]; exact wk2, by rw [← w1]; exact st2⟩, Or.inr ⟨b :: bs, rfl, by simp, ?_⟩⟩
      · exact sysInv_upd P u dc ds s2.g _ s2.e s2.e s2.w s2.w.ch i2
          (sideU P u _ T (noteCall (engine P) s2 true [] (.done k)) c2 s2.e hwf2 cl2 hpend2 _)
          (Tr.refl P u s2.e s2.w.ch hwf2)
      · exact ⟨c2.2.1, c2.2.2.1, c2.2.2.2.1, c2.2.2.2.2, hpend2⟩
  | wantRead =>
    obtain ⟨_, hp0, hz⟩ := a2
    obtain ⟨s3, e3, ee3, w3, l3, r3, wr3, pe3, p3⟩ :=
      handleResult_starved C P u dc ds T hT (noteCall (engine P) s2 true [] .wantRead) c2 hp0 hz
    simp only [e3]
    have hside3 : ∀ (g : Glue), g.isReadable = false → g.isWritable = false → g.pendingError = none →
        (g.lastError = .none ∨ g.lastError = .wantRead) → (g.pendingSend = [] ∨ g.pendingSend = ownPay u dc ds) →
        SysInv P dc ds (mkSys u g s2.e s2.w) := by
      intro g g1 g2 g3 g4 g5
      exact sysInv_upd P u dc ds s2.g g s2.e s2.e s2.w s2.w.ch i2
        ⟨g1, g2, g3, cl2, hwf2, g4, (by intro _ hlt; exact absurd (show s2.e.stage < 3 from hlt) (by omega)), g5⟩ (Tr.refl P u s2.e s2.w.ch hwf2)
    have hee3 : s3.e = s2.e := ee3
    have hw3 : s3.w = s2.w := w3
    have hp3 : s3.g.pendingSend = [] ∨ s3.g.pendingSend = ownPay u dc ds := by rw [p3]; exact hpend2
    have hfinal : ∀ (s4 : St Hs PeerW), s4.e = s3.e → s4.w = s3.w → s4.g.isReadable = false →
        s4.g.isWritable = false → s4.g.pendingError = none → (s4.g.lastError = .none ∨ s4.g.lastError = .wantRead) →
        (s4.g.pendingSend = [] ∨ s4.g.pendingSend = ownPay u dc ds) →
        DoneU P u dc ds s s4 ∧ (s4.w.prog = [] ∨ ∃ out, (Out.ok ([] : Bytes)) = .ok out ∧ out ≠ [] ∧
          ReadyU (ownPay u dc ds) s4) := by
      intro s4 q1 q2 q3 q4 q5 q6 q7
      refine ⟨⟨?_, ?_, ?_, ?_, ?_⟩, Or.inl (by rw [q2, hw3]; exact hp0)⟩
      · rw [q1, q2, hee3, hw3]; exact hside3 s4.g q3 q4 q5 q6 q7
      · rw [q2, hw3]; exact o2
      · rw [q1, hee3]; exact f2
      · rw [q2, hw3, ← w1]; exact wk2
      · rw [q2, hw3, ← w1]; exact st2
    split
    · have := hfinal s3 rfl rfl r3 wr3 pe3 (Or.inr l3) hp3
      refine ⟨this.1, Or.inl ?_⟩
      rw [hw3]; exact hp0
    · split
      · have := hfinal (setLastError s3 .none) rfl rfl r3 wr3 pe3 (Or.inl rfl) hp3
        exact ⟨this.1, Or.inl (by show s3.w.prog = []; rw [hw3]; exact hp0)⟩
      · have := hfinal s3 rfl rfl r3 wr3 pe3 (Or.inr l3) hp3
        exact ⟨this.1, Or.inl (by rw [hw3]; exact hp0)⟩
  | wantWrite => exact absurd a2 id
  | zeroReturn => exact absurd a2 id
  | syscallErr => exact absurd a2 id
  | sslErr => exact absurd a2 id

/-! ### the composition: one side blocks, the other polls -/

structure SysU where
  /-- the blocking side -/
  g : Glue := {}
  e : Hs
  /-- channels and the polling peer -/
  w : PeerW
  /-- calls of the blocking side that threw or hit an assert -/
  faults : Nat := 0

/-- a step of the composition: the blocking side calls `Send(own payload, T)` / `Receive(n, T)`, `T < 0`; or - while
the blocking side is between calls - the polling peer makes the next call of its program -/
inductive ActU where
  | block (k : Kind)
  | poll
  deriving DecidableEq, Repr

def callOnU (C : Cfg) (P : HsP) (u : Bool) (dc ds : Bytes) (T : Int) (s : St Hs PeerW) : Kind → Bool × St Hs PeerW
  | .send => let r := sendT C (blockWorld C P u dc ds) (engine P) s (ownPay u dc ds) T; (isOk r.1, r.2)
  | .recv n => let r := receiveT C (blockWorld C P u dc ds) (engine P) s n T; (isOk r.1, r.2)

/-- the observation ends with the peer's program: once it is exhausted nothing more happens -/
def SysU.step (C : Cfg) (P : HsP) (u : Bool) (dc ds : Bytes) (T : Int) (y : SysU) (a : ActU) : SysU :=
  match y.w.prog with
  | [] => y
  | k :: rest =>
    match a with
    | .block kb =>
      let r := callOnU C P u dc ds T ⟨y.g, y.e, y.w⟩ kb
      { g := r.2.g, e := r.2.e, w := r.2.w, faults := y.faults + (if r.1 then 0 else 1) }
    | .poll => { y with w := { y.w.poll C P u dc ds k with prog := rest } }

def SysU.run (C : Cfg) (P : HsP) (u : Bool) (dc ds : Bytes) (T : Int) (l : List ActU) (y : SysU) : SysU :=
  l.foldl (SysU.step C P u dc ds T) y

def SysU.init (P : HsP) (u : Bool) (segs : List Nat) (prog : List Kind) : SysU :=
  { e := Hs.init P u, w := { ch := { segs := segs }, e := Hs.init P (!u), prog := prog } }

def ActU.okU : ActU → Prop
  | .block k => k.ok
  | .poll => True

def polls : List ActU → Nat
  | [] => 0
  | .poll :: l => polls l + 1
  | .block _ :: l => polls l

/-- half of `HsP.total`: the work of one engine -/
def HsP.half (P : HsP) : Nat := P.k1 + P.k2 + P.k3 + 3

theorem runU_nil (C : Cfg) (P : HsP) (u : Bool) (dc ds : Bytes) (T : Int) (y : SysU) :
    SysU.run C P u dc ds T [] y = y := rfl
theorem runU_cons (C : Cfg) (P : HsP) (u : Bool) (dc ds : Bytes) (T : Int) (a : ActU) (l : List ActU) (y : SysU) :
    SysU.run C P u dc ds T (a :: l) y = SysU.run C P u dc ds T l (y.step C P u dc ds T a) := rfl
theorem runU_append (C : Cfg) (P : HsP) (u : Bool) (dc ds : Bytes) (T : Int) (l1 l2 : List ActU) (y : SysU) :
    SysU.run C P u dc ds T (l1 ++ l2) y = SysU.run C P u dc ds T l2 (SysU.run C P u dc ds T l1 y) := by
  simp [SysU.run, List.foldl_append]

theorem sysInv_initU (P : HsP) (u : Bool) (dc ds : Bytes) (segs : List Nat) (prog : List Kind) :
    SysInv P dc ds (mkSys u (SysU.init P u segs prog).g (SysU.init P u segs prog).e (SysU.init P u segs prog).w) := by
  have := sysInv_init P dc ds segs
  cases u <;> exact this

/-- the state of the composition between steps: the invariant of `Sys`; and unless the peer's program is exhausted,
the blocking side is between calls with no error cached and none of its calls has failed -/
structure UInv (P : HsP) (u : Bool) (dc ds : Bytes) (y : SysU) : Prop where
  inv : SysInv P dc ds (mkSys u y.g y.e y.w)
  ok : ProgOk y.w
  live : y.w.prog = [] ∨ (ReadyU (ownPay u dc ds) ⟨y.g, y.e, y.w⟩ ∧ y.faults = 0)

theorem exhausted_stays (C : Cfg) (P : HsP) (u : Bool) (dc ds : Bytes) (T : Int) (l : List ActU) (y : SysU)
    (h : y.w.prog = []) : SysU.run C P u dc ds T l y = y := by
  induction l with
  | nil => rfl
  | cons a l ih =>
    rw [runU_cons]
    have : y.step C P u dc ds T a = y := by simp [SysU.step, h]
    rw [this, ih]

/-- one step: the invariant is kept; the peer's work does not grow and, once the blocking side is finished, falls with
every poll; a call of the blocking side leaves that side finished if the peer's program was long enough -/
theorem stepU_spec (C : Cfg) (hC : 1 < C.stepsMax) (P : HsP) (u : Bool) (dc ds : Bytes) (hdc : dc ≠ [])
    (hds : ds ≠ []) (T : Int) (hT : T < 0) (y : SysU) (hy : UInv P u dc ds y) (a : ActU) (ha : a.okU)
    (hen : (∃ kb, a = .block kb) → y.e.stage < 3 → Enough P y.w) :
    UInv P u dc ds (y.step C P u dc ds T a) ∧
    work P (y.step C P u dc ds T a).w.e ≤ work P y.w.e ∧
    y.w.e.stage ≤ (y.step C P u dc ds T a).w.e.stage ∧ (3 ≤ y.e.stage → 3 ≤ (y.step C P u dc ds T a).e.stage) ∧
    (y.w.prog ≠ [] → (∃ kb, a = .block kb) → 3 ≤ (y.step C P u dc ds T a).e.stage) ∧
    (y.w.prog ≠ [] → a = .poll → 3 ≤ y.e.stage → y.w.e.stage < 3 →
      work P (y.step C P u dc ds T a).w.e < work P y.w.e) ∧
    (a = .poll → (y.step C P u dc ds T a).e = y.e ∧ (y.step C P u dc ds T a).w.prog = y.w.prog.tail) := by
  rcases hprog : y.w.prog with _ | ⟨k, rest⟩
  · have : y.step C P u dc ds T a = y := by simp [SysU.step, hprog]
    rw [this]
    exact ⟨hy, Nat.le_refl _, Nat.le_refl _, fun h => h, fun h => absurd rfl h, fun h => absurd rfl h,
      fun _ => ⟨rfl, by rw [hprog]; rfl⟩⟩
  · have hlive : ReadyU (ownPay u dc ds) ⟨y.g, y.e, y.w⟩ ∧ y.faults = 0 := by
      rcases hy.live with h | h
      · rw [hprog] at h; cases h
      · exact h
    cases a with
    | poll =>
      have hstep : y.step C P u dc ds T .poll = { y with w := { y.w.poll C P u dc ds k with prog := rest } } := by
        simp [SysU.step, hprog]
      rw [hstep]
      have hk : k.ok := hy.ok k (by rw [hprog]; exact List.mem_cons_self ..)
      obtain ⟨i1, w1, p1, s1, c1⟩ := poll_spec C hC P u dc ds hdc hds y.g y.e y.w hy.inv k hk
      refine ⟨⟨by dsimp only; rw [mkSys_prog]; exact i1, ?_, Or.inr ⟨?_, hlive.2⟩⟩, w1, s1, fun h => h,
        (by intro _ h; obtain ⟨kb, hkb⟩ := h; cases hkb), ?_, fun _ => ⟨rfl, rfl⟩⟩
      · intro k' hk'
        exact hy.ok k' (by rw [hprog]; exact List.mem_cons_of_mem _ hk')
      · exact hlive.1
      · intro _ _ hfin hpeer
        apply p1
        have hnf : ¬ (mkSys u y.g y.e y.w).bothFinished := by
          intro hb
          cases u <;> simp [mkSys, Sys.bothFinished] at hb <;> omega
        rcases can_progress P dc ds _ hy.inv hnf with hc | hc
        · cases u with
          | true => exfalso; have := hc.1; simp only [mkSys, if_true] at this; omega
          | false => simpa [mkSys] using hc
        · cases u with
          | true => simpa [mkSys] using hc
          | false => exfalso; have := hc.1; simp only [mkSys, Bool.false_eq_true, if_false] at this; omega
    | block kb =>
      have hstep : y.step C P u dc ds T (.block kb) =
          { g := (callOnU C P u dc ds T ⟨y.g, y.e, y.w⟩ kb).2.g, e := (callOnU C P u dc ds T ⟨y.g, y.e, y.w⟩ kb).2.e,
            w := (callOnU C P u dc ds T ⟨y.g, y.e, y.w⟩ kb).2.w,
            faults := y.faults + (if (callOnU C P u dc ds T ⟨y.g, y.e, y.w⟩ kb).1 then 0 else 1) } := by
        simp [SysU.step, hprog]
      rw [hstep]
      have key : DoneU P u dc ds ⟨y.g, y.e, y.w⟩ (callOnU C P u dc ds T ⟨y.g, y.e, y.w⟩ kb).2 ∧
          ((callOnU C P u dc ds T ⟨y.g, y.e, y.w⟩ kb).2.w.prog = [] ∨
            ((callOnU C P u dc ds T ⟨y.g, y.e, y.w⟩ kb).1 = true ∧
              ReadyU (ownPay u dc ds) (callOnU C P u dc ds T ⟨y.g, y.e, y.w⟩ kb).2)) := by
        cases kb with
        | send =>
          obtain ⟨s', e1, r1, d1⟩ := sendU_spec C hC P u dc ds hdc hds T hT ⟨y.g, y.e, y.w⟩ hlive.1 hy.inv hy.ok (hen ⟨_, rfl⟩)
          simp only [callOnU, e1]
          exact ⟨d1, Or.inr ⟨rfl, r1⟩⟩
        | recv n =>
          obtain ⟨d1, r1⟩ := recvU_spec C hC P u dc ds hdc hds T hT n ha ⟨y.g, y.e, y.w⟩ hlive.1 hy.inv hy.ok (hen ⟨_, rfl⟩)
          simp only [callOnU]
          refine ⟨d1, ?_⟩
          rcases r1 with r1 | ⟨out, o1, _, o3⟩
          · exact Or.inl r1
          · exact Or.inr ⟨by rw [o1]; rfl, o3⟩
      obtain ⟨d1, r1⟩ := key
      refine ⟨⟨d1.inv, d1.ok, ?_⟩, d1.wk, d1.st, fun _ => d1.fin, fun _ _ => d1.fin,
        (by intro _ h; cases h), (by intro h; cases h)⟩
      rcases r1 with r1 | ⟨r1, r2⟩
      · exact Or.inl r1
      · exact Or.inr ⟨r2, by dsimp only; rw [r1, hlive.2]; rfl⟩

/-- the peer polls while the blocking side has not called yet -/
theorem run_polls (C : Cfg) (hC : 1 < C.stepsMax) (P : HsP) (u : Bool) (dc ds : Bytes) (hdc : dc ≠ [])
    (hds : ds ≠ []) (T : Int) (hT : T < 0) : ∀ (pre : List ActU) (y : SysU), UInv P u dc ds y →
      (∀ a ∈ pre, a = .poll) →
      UInv P u dc ds (SysU.run C P u dc ds T pre y) ∧ (SysU.run C P u dc ds T pre y).e = y.e ∧
      (SysU.run C P u dc ds T pre y).w.prog = y.w.prog.drop pre.length ∧
      work P (SysU.run C P u dc ds T pre y).w.e ≤ work P y.w.e := by
  intro pre
  induction pre with
  | nil => intro y hy _; exact ⟨hy, rfl, by simp [runU_nil], Nat.le_refl _⟩
  | cons a pre ih =>
    intro y hy hp
    have ha : a = .poll := hp a (List.mem_cons_self ..)
    subst ha
    obtain ⟨i1, w1, _, _, _, _, e1⟩ := stepU_spec C hC P u dc ds hdc hds T hT y hy .poll trivial
      (by intro h; obtain ⟨kb, hkb⟩ := h; cases hkb)
    obtain ⟨ee, ep⟩ := e1 rfl
    obtain ⟨j1, j2, j3, j4⟩ := ih _ i1 (fun b hb => hp b (List.mem_cons_of_mem _ hb))
    rw [runU_cons]
    refine ⟨j1, j2.trans ee, ?_, Nat.le_trans j4 w1⟩
    rw [j3, ep, List.length_cons, List.drop_tail]

/-- once the blocking side is finished: it stays finished, and every poll brings the peer nearer to the end of its
handshake -/
theorem run_after (C : Cfg) (hC : 1 < C.stepsMax) (P : HsP) (u : Bool) (dc ds : Bytes) (hdc : dc ≠ [])
    (hds : ds ≠ []) (T : Int) (hT : T < 0) : ∀ (post : List ActU) (y : SysU), UInv P u dc ds y →
      (∀ a ∈ post, a.okU) → 3 ≤ y.e.stage →
      UInv P u dc ds (SysU.run C P u dc ds T post y) ∧ 3 ≤ (SysU.run C P u dc ds T post y).e.stage ∧
      y.w.e.stage ≤ (SysU.run C P u dc ds T post y).w.e.stage ∧
      ((SysU.run C P u dc ds T post y).w.prog = [] ∨ 3 ≤ (SysU.run C P u dc ds T post y).w.e.stage ∨
        work P (SysU.run C P u dc ds T post y).w.e + polls post ≤ work P y.w.e) := by
  intro post
  induction post with
  | nil => intro y hy _ hf; exact ⟨hy, hf, Nat.le_refl _, Or.inr (Or.inr (by simp [runU_nil, polls]))⟩
  | cons a post ih =>
    intro y hy hok hf
    by_cases hprog : y.w.prog = []
    · rw [exhausted_stays C P u dc ds T _ y hprog]
      exact ⟨hy, hf, Nat.le_refl _, Or.inl hprog⟩
    · obtain ⟨i1, w1, s1, f1, _, p1, _⟩ := stepU_spec C hC P u dc ds hdc hds T hT y hy a (hok a (List.mem_cons_self ..))
        (by intro _ h; omega)
      obtain ⟨j1, j2, j3, j4⟩ := ih _ i1 (fun b hb => hok b (List.mem_cons_of_mem _ hb)) (f1 hf)
      rw [runU_cons]
      refine ⟨j1, j2, Nat.le_trans s1 j3, ?_⟩
      rcases j4 with j4 | j4 | j4
      · exact Or.inl j4
      · exact Or.inr (Or.inl j4)
      · by_cases hpf : 3 ≤ y.w.e.stage
        · exact Or.inr (Or.inl (by omega))
        · right; right
          cases a with
          | poll =>
            have := p1 hprog rfl hf (by omega)
            simp only [polls]; omega
          | block kb => simp only [polls]; omega

theorem work_le_half (P : HsP) (h : Hs) (hw : WF P h) : work P h ≤ P.half := by
  have := work_lt_fuel P h hw
  unfold fuel at this
  unfold HsP.half
  omega

end SockModel.Hs
